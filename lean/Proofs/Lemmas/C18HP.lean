/-
C18 helper: HashPairs.  What the rearrangement loop leaves in HashPairs[series] (code after
/repo 83c6e29: first writer wins, a missing denominator hash is filled in later), for both
duplicate policies, and why it does not depend on the visiting order under `CDet`.
-/
import Proofs.Lemmas.C18Cells

namespace C18
open Series

/-- one HashPairs update, seen from a fixed series point -/
def hpCell (o : Option (Bytes × Bytes)) (c : Contrib) : Option (Bytes × Bytes) :=
  match o with
  | none => some (c.hash, c.bhash)
  | some (n, d) => if n = c.hash ∧ d = [] then some (n, c.bhash) else some (n, d)

theorem setHP_lookup (c : Contrib) (m : List (Bytes × (Bytes × Bytes))) (s : Bytes) :
    alookup s (setHP c.ser c.hash c.bhash m) = if c.ser = s then hpCell (alookup s m) c else alookup s m := by
  unfold setHP
  by_cases hs : c.ser = s
  · subst hs
    simp only [if_true]
    cases hl : alookup c.ser m with
    | none => simp [hpCell, alookup_aset_eq]
    | some p =>
      obtain ⟨n, d⟩ := p
      simp only [hpCell]
      split
      · simp [alookup_aset_eq]
      · exact hl
  · have hs' : s ≠ c.ser := fun e => hs e.symm
    simp only [hs, if_false]
    cases hl : alookup c.ser m with
    | none => simp [alookup_aset_ne hs']
    | some p =>
      obtain ⟨n, d⟩ := p
      simp only
      split
      · simp [alookup_aset_ne hs']
      · rfl

theorem step_hp_replace (env : Env) (a : Acc) (c : Contrib) :
    (step env .replace a c).hp = setHP c.ser c.hash c.bhash a.hp := by
  unfold step
  cases hl : alookup (c.bench, c.ser) a.cells <;> simp only [hl]

theorem step_hp_combine (env : Env) (a : Acc) (c : Contrib) :
    (step env .combine a c).hp =
      if (alookup c.key a.cells).isSome then a.hp else setHP c.ser c.hash c.bhash a.hp := by
  unfold step Contrib.key
  cases hl : alookup (c.bench, c.ser) a.cells <;> simp only [hl] <;> simp

theorem hp_lookup_replace (env : Env) (cs : List Contrib) (a : Acc) (s : Bytes) :
    alookup s (cs.foldl (step env .replace) a).hp =
      (cs.filter (fun c => c.ser = s)).foldl hpCell (alookup s a.hp) := by
  induction cs generalizing a with
  | nil => rfl
  | cons c cs ih =>
    simp only [List.foldl_cons, ih, step_hp_replace, setHP_lookup]
    by_cases h : c.ser = s
    · simp [h]
    · simp [h]

/-- under DUPE_COMBINE only the first-visited contribution of every cell reaches HashPairs -/
def heard (present : Bytes × Bytes → Bool) : List Contrib → List Contrib
  | [] => []
  | c :: cs =>
    if present c.key then heard present cs
    else c :: heard (fun k => decide (k = c.key) || present k) cs

theorem hp_lookup_combine (env : Env) (cs : List Contrib) (a : Acc) (present : Bytes × Bytes → Bool)
    (hpres : ∀ k, present k = (alookup k a.cells).isSome) (s : Bytes) :
    alookup s (cs.foldl (step env .combine) a).hp =
      ((heard present cs).filter (fun c => c.ser = s)).foldl hpCell (alookup s a.hp) := by
  induction cs generalizing a present with
  | nil => rfl
  | cons c cs ih =>
    simp only [List.foldl_cons]
    by_cases hp : present c.key = true
    · have hsome : (alookup c.key a.cells).isSome = true := by rw [← hpres]; exact hp
      rw [ih (step env .combine a c) present]
      · simp only [heard, hp, if_true, step_hp_combine, hsome]
      · intro k
        rw [step_lookup, hpres k]
        by_cases hk : c.key = k
        · subst hk
          simp only [if_true]
          cases hl : alookup c.key a.cells with
          | none => rw [hl] at hsome; simp at hsome
          | some cc => simp [stepCell]
        · simp [hk]
    · have hp' : present c.key = false := by simpa using hp
      have hnone : (alookup c.key a.cells).isSome = false := by rw [← hpres]; exact hp'
      rw [ih (step env .combine a c) (fun k => decide (k = c.key) || present k)]
      · simp only [heard, hp', Bool.false_eq_true, if_false, step_hp_combine, hnone, setHP_lookup]
        by_cases h : c.ser = s
        · simp [h]
        · simp [h]
      · intro k
        rw [step_lookup, hpres k]
        by_cases hk : c.key = k
        · subst hk
          cases hl : alookup c.key a.cells with
          | none => simp [stepCell]
          | some cc => simp [stepCell]
        · have hk' : ¬ k = c.key := fun e => hk e.symm
          simp [hk, hk']

theorem heard_sub (present : Bytes × Bytes → Bool) (cs : List Contrib) : ∀ c ∈ heard present cs, c ∈ cs := by
  induction cs generalizing present with
  | nil => intro c hc; simp [heard] at hc
  | cons x cs ih =>
    intro c hc
    simp only [heard] at hc
    split at hc
    · exact List.mem_cons_of_mem _ (ih _ c hc)
    · rcases List.mem_cons.mp hc with rfl | h
      · simp
      · exact List.mem_cons_of_mem _ (ih _ c h)

theorem heard_rep (present : Bytes × Bytes → Bool) (cs : List Contrib) :
    ∀ c ∈ cs, present c.key = false → ∃ c' ∈ heard present cs, c'.key = c.key := by
  induction cs generalizing present with
  | nil => intro c hc; simp at hc
  | cons x cs ih =>
    intro c hc hp
    simp only [heard]
    rcases List.mem_cons.mp hc with rfl | h
    · simp [hp]
    · split
      · exact ih _ c h hp
      · by_cases hk : c.key = x.key
        · exact ⟨x, by simp, hk.symm⟩
        · obtain ⟨c', hc', hk'⟩ := ih (fun k => decide (k = x.key) || present k) c h (by simp [hk, hp])
          exact ⟨c', List.mem_cons_of_mem _ hc', hk'⟩

/-! ### the value left in HashPairs -/

/-- the first non-empty baseline hash of the list ("" if none) -/
def firstNE (G : List Contrib) : Bytes :=
  match G.find? (fun c => decide (c.bhash ≠ [])) with
  | some c => c.bhash
  | none => []

theorem firstNE_spec (G : List Contrib) :
    (firstNE G = [] ∧ ∀ c ∈ G, c.bhash = []) ∨ (∃ c ∈ G, c.bhash ≠ [] ∧ firstNE G = c.bhash) := by
  unfold firstNE
  cases h : G.find? (fun c => decide (c.bhash ≠ [])) with
  | none =>
    left
    refine ⟨rfl, ?_⟩
    intro c hc
    have := List.find?_eq_none.mp h c hc
    simpa using this
  | some c =>
    right
    have h1 := List.find?_some h
    exact ⟨c, List.mem_of_find?_eq_some h, by simpa using h1, rfl⟩

theorem firstNE_cons_empty (c : Contrib) (G : List Contrib) (h : c.bhash = []) : firstNE (c :: G) = firstNE G := by
  unfold firstNE
  simp [h]

theorem firstNE_cons_ne (c : Contrib) (G : List Contrib) (h : c.bhash ≠ []) : firstNE (c :: G) = c.bhash := by
  unfold firstNE
  simp [h]

theorem hp_fold_stable (h d : Bytes) (hd : d ≠ []) (G : List Contrib) :
    G.foldl hpCell (some (h, d)) = some (h, d) := by
  induction G with
  | nil => rfl
  | cons c G ih => simp only [List.foldl_cons, hpCell, hd, and_false, if_false]; exact ih

theorem hp_fold_empty (h : Bytes) (G : List Contrib) (hall : ∀ c ∈ G, c.hash = h) :
    G.foldl hpCell (some (h, [])) = some (h, firstNE G) := by
  induction G with
  | nil => rfl
  | cons c G ih =>
    have hc : c.hash = h := hall c (by simp)
    simp only [List.foldl_cons, hpCell, hc, and_self, if_true]
    by_cases hb : c.bhash = []
    · rw [hb, firstNE_cons_empty c G hb]
      exact ih fun x hx => hall x (by simp [hx])
    · rw [firstNE_cons_ne c G hb]
      exact hp_fold_stable h c.bhash hb G

/-- what a run of updates with one numerator hash leaves behind -/
def hpVal (G : List Contrib) : Option (Bytes × Bytes) :=
  match G with
  | [] => none
  | g0 :: _ => some (g0.hash, firstNE G)

theorem hp_fold_none (G : List Contrib) (hall : ∀ x ∈ G, ∀ y ∈ G, x.hash = y.hash) :
    G.foldl hpCell none = hpVal G := by
  cases G with
  | nil => rfl
  | cons g0 G =>
    simp only [List.foldl_cons, hpCell, hpVal]
    have hall' : ∀ c ∈ G, c.hash = g0.hash := fun c hc => hall c (by simp [hc]) g0 (by simp)
    by_cases hb : g0.bhash = []
    · rw [hb, firstNE_cons_empty g0 G hb]; exact hp_fold_empty g0.hash G hall'
    · rw [firstNE_cons_ne g0 G hb]; exact hp_fold_stable g0.hash g0.bhash hb G

theorem hpVal_congr {G1 G2 : List Contrib} (ha : G1 = [] ↔ G2 = [])
    (hb : ∀ x ∈ G1 ++ G2, ∀ y ∈ G1 ++ G2, x.hash = y.hash ∧ (x.bhash = y.bhash ∨ x.bhash = [] ∨ y.bhash = []))
    (hc : (∃ c ∈ G1, c.bhash ≠ []) ↔ (∃ c ∈ G2, c.bhash ≠ [])) : hpVal G1 = hpVal G2 := by
  cases G1 with
  | nil => rw [ha.mp rfl]
  | cons g1 G1 =>
    cases G2 with
    | nil => exact absurd (ha.mpr rfl) (by simp)
    | cons g2 G2 =>
      simp only [hpVal, Option.some.injEq, Prod.mk.injEq]
      refine ⟨(hb g1 (by simp) g2 (by simp)).1, ?_⟩
      rcases firstNE_spec (g1 :: G1) with ⟨e1, a1⟩ | ⟨c1, m1, n1, e1⟩
      · rcases firstNE_spec (g2 :: G2) with ⟨e2, a2⟩ | ⟨c2, m2, n2, e2⟩
        · rw [e1, e2]
        · obtain ⟨c, hc1, hc2⟩ := hc.mpr ⟨c2, m2, n2⟩
          exact absurd (a1 c hc1) hc2
      · rcases firstNE_spec (g2 :: G2) with ⟨e2, a2⟩ | ⟨c2, m2, n2, e2⟩
        · obtain ⟨c, hc1, hc2⟩ := hc.mp ⟨c1, m1, n1⟩
          exact absurd (a2 c hc1) hc2
        · rw [e1, e2]
          rcases (hb c1 (List.mem_append_left _ m1) c2 (List.mem_append_right _ m2)).2 with h | h | h
          · exact h
          · exact absurd h n1
          · exact absurd h n2

/-! ### canonical contributions give the same HashPairs -/

theorem hpCell_canon (o : Option (Bytes × Bytes)) (c : Contrib) : hpCell o (canonC c) = hpCell o c := rfl

theorem heard_canon (present : Bytes × Bytes → Bool) (cs : List Contrib) :
    heard present (cs.map canonC) = (heard present cs).map canonC := by
  induction cs generalizing present with
  | nil => rfl
  | cons c cs ih =>
    by_cases hp : present c.key = true
    · simp only [List.map_cons, heard, canonC_key, hp, if_true]; exact ih _
    · have hp' : present c.key = false := by simpa using hp
      simp only [List.map_cons, heard, canonC_key, hp', Bool.false_eq_true, if_false, ih]
      rfl

theorem filter_ser_map_canon (cs : List Contrib) (s : Bytes) :
    (cs.map canonC).filter (fun c => c.ser = s) = (cs.filter (fun c => c.ser = s)).map canonC := by
  rw [List.filter_map]; rfl

/-- HashPairs[s] in terms of the relevant sub-list of contributions -/
def hpList (pol : Policy) (cs : List Contrib) (s : Bytes) : List Contrib :=
  match pol with
  | .replace => cs.filter (fun c => c.ser = s)
  | .combine => (heard (fun _ => false) cs).filter (fun c => c.ser = s)

theorem hp_lookup (env : Env) (pol : Policy) (cs : List Contrib) (s : Bytes) :
    alookup s (cs.foldl (step env pol) {}).hp = (hpList pol cs s).foldl hpCell none := by
  cases pol with
  | replace => exact hp_lookup_replace env cs {} s
  | combine => exact hp_lookup_combine env cs {} (fun _ => false) (fun _ => rfl) s

theorem hp_canon (env : Env) (pol : Policy) (cs : List Contrib) (s : Bytes) :
    alookup s ((cs.map canonC).foldl (step env pol) {}).hp = alookup s (cs.foldl (step env pol) {}).hp := by
  rw [hp_lookup, hp_lookup]
  have : hpList pol (cs.map canonC) s = (hpList pol cs s).map canonC := by
    cases pol with
    | replace => exact filter_ser_map_canon cs s
    | combine => simp only [hpList, heard_canon, filter_ser_map_canon]
  rw [this, List.foldl_map]
  rfl

theorem hpList_sub (pol : Policy) (cs : List Contrib) (s : Bytes) :
    ∀ c ∈ hpList pol cs s, c ∈ cs ∧ c.ser = s := by
  intro c hc
  cases pol with
  | replace =>
    have := List.mem_filter.mp hc
    exact ⟨this.1, by simpa using this.2⟩
  | combine =>
    have := List.mem_filter.mp hc
    exact ⟨heard_sub _ _ c this.1, by simpa using this.2⟩

/-- the relevant sub-list is empty exactly when no contribution has that series stamp -/
theorem hpList_nil_iff (pol : Policy) (cs : List Contrib) (s : Bytes) :
    hpList pol cs s = [] ↔ ∀ c ∈ cs, c.ser ≠ s := by
  constructor
  · intro h c hc hs
    cases pol with
    | replace =>
      have : c ∈ hpList .replace cs s := List.mem_filter.mpr ⟨hc, by simpa using hs⟩
      rw [h] at this; simp at this
    | combine =>
      obtain ⟨c', hc', hk⟩ := heard_rep (fun _ => false) cs c hc rfl
      have hs' : c'.ser = s := by
        have : c'.key.2 = c.key.2 := by rw [hk]
        exact this.trans hs
      have : c' ∈ hpList .combine cs s := List.mem_filter.mpr ⟨hc', by simpa using hs'⟩
      rw [h] at this; simp at this
  · intro h
    apply List.eq_nil_iff_forall_not_mem.mpr
    intro c hc
    exact h c (hpList_sub pol cs s c hc).1 (hpList_sub pol cs s c hc).2

/-- a non-empty baseline hash is heard exactly when some contribution of the series has one -/
theorem hpList_ne_iff (pol : Policy) (cs : List Contrib) (hd : CDet pol cs) (s : Bytes) :
    (∃ c ∈ hpList pol cs s, c.bhash ≠ []) ↔ (∃ c ∈ cs, c.ser = s ∧ c.bhash ≠ []) := by
  constructor
  · rintro ⟨c, hc, hb⟩
    exact ⟨c, (hpList_sub pol cs s c hc).1, (hpList_sub pol cs s c hc).2, hb⟩
  · rintro ⟨x, hx, hs, hb⟩
    cases pol with
    | replace => exact ⟨x, List.mem_filter.mpr ⟨hx, by simpa using hs⟩, hb⟩
    | combine =>
      obtain ⟨c, hc, hcs, hall⟩ := hd.heard rfl x hx hb
      obtain ⟨c', hc', hk⟩ := heard_rep (fun _ => false) cs c hc rfl
      have hs' : c'.ser = s := by
        have : c'.key.2 = c.key.2 := by rw [hk]
        exact this.trans (hcs.trans hs)
      exact ⟨c', List.mem_filter.mpr ⟨hc', by simpa using hs'⟩, hall c' (heard_sub _ _ c' hc') hk⟩

/-- HashPairs does not depend on the visiting order -/
theorem hp_perm (env : Env) (pol : Policy) {cs cs' : List Contrib} (p : cs.Perm cs') (hd : CDet pol cs) (s : Bytes) :
    alookup s (cs.foldl (step env pol) {}).hp = alookup s (cs'.foldl (step env pol) {}).hp := by
  have hd' := hd.perm p
  rw [hp_lookup, hp_lookup]
  have hsame : ∀ (cs : List Contrib), CDet pol cs → ∀ x ∈ hpList pol cs s, ∀ y ∈ hpList pol cs s, x.hash = y.hash := by
    intro cs hd x hx y hy
    have h1 := hpList_sub pol cs s x hx
    have h2 := hpList_sub pol cs s y hy
    exact (hd.hp1 x h1.1 y h2.1 (h1.2.trans h2.2.symm)).1
  rw [hp_fold_none _ (hsame cs hd), hp_fold_none _ (hsame cs' hd')]
  apply hpVal_congr
  · rw [hpList_nil_iff, hpList_nil_iff]
    exact ⟨fun h c hc => h c (p.mem_iff.mpr hc), fun h c hc => h c (p.mem_iff.mp hc)⟩
  · intro x hx y hy
    have mem : ∀ z ∈ hpList pol cs s ++ hpList pol cs' s, z ∈ cs ∧ z.ser = s := by
      intro z hz
      rcases List.mem_append.mp hz with h | h
      · exact hpList_sub pol cs s z h
      · exact ⟨p.mem_iff.mpr (hpList_sub pol cs' s z h).1, (hpList_sub pol cs' s z h).2⟩
    have h1 := mem x hx
    have h2 := mem y hy
    exact hd.hp1 x h1.1 y h2.1 (h1.2.trans h2.2.symm)
  · rw [hpList_ne_iff pol cs hd, hpList_ne_iff pol cs' hd']
    constructor
    · rintro ⟨c, hc, h⟩; exact ⟨c, p.mem_iff.mp hc, h⟩
    · rintro ⟨c, hc, h⟩; exact ⟨c, p.mem_iff.mpr hc, h⟩

/-- HashPairs depends only on the canonical contributions, as a multiset -/
theorem hp_congr (env : Env) (pol : Policy) {cs1 cs2 : List Contrib}
    (hp : (cs1.map canonC).Perm (cs2.map canonC)) (hd : CDet pol cs1) (s : Bytes) :
    alookup s (cs1.foldl (step env pol) {}).hp = alookup s (cs2.foldl (step env pol) {}).hp := by
  rw [← hp_canon env pol cs1, ← hp_canon env pol cs2]
  exact hp_perm env pol hp hd.canon s

end C18
