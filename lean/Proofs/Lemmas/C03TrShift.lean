/-
C03 — truncating runs of the decimal slow path, part 1: what ONE shift (`rightShift` / `leftShift`,
at most 60 bits) does when the 800-digit buffer overflows: the result is the exact product or
quotient cut to the buffer (a floor on the grid 10^(dp' − 800)), and `trunc` is set exactly when
something non-zero was cut.
-/
import Proofs.Lemmas.C03DecShift

namespace C03
open Num Spec.NumText

/-- in the full-buffer regime the third loop of `rightShift` writes nothing more -/
theorem rsTail_full (k : Nat) : ∀ (fuel n w : Nat) (out : Bytes) (tr : Bool), bufLen ≤ w →
    (rsTail k fuel n w out tr).1 = out := by
  intro fuel
  induction fuel with
  | zero => intro n w out tr _; rfl
  | succ fuel ih =>
    intro n w out tr hw
    unfold rsTail
    split
    · rw [if_neg (by omega)]; exact ih _ _ _ _ hw
    · rfl

/-- third loop of `rightShift`, with the buffer limit: the digits written complete the quotient
as far as the buffer allows; `R` is what remains of the division -/
theorem rsTail_gen (k : Nat) : ∀ (fuel n : Nat) (out : Bytes) (tr : Bool), TailOK k fuel n → n < 10 * 2 ^ k →
    out.all isDec = true → out.length ≤ bufLen →
    ∃ p R, 10 * 2 ^ k * valOf 10 (rsTail k fuel n out.length out tr).1.reverse + R =
        (10 * 2 ^ k * valOf 10 out.reverse + n) * 10 ^ p ∧ R < 10 * 2 ^ k ∧
      (rsTail k fuel n out.length out tr).1.length = out.length + p ∧
      (rsTail k fuel n out.length out tr).1.length ≤ bufLen ∧
      (rsTail k fuel n out.length out tr).1.all isDec = true ∧
      (R = 0 → (rsTail k fuel n out.length out tr).2 = tr) ∧
      (R ≠ 0 → (rsTail k fuel n out.length out tr).2 = true ∧ (rsTail k fuel n out.length out tr).1.length = bufLen) ∧
      ∃ pre, (rsTail k fuel n out.length out tr).1.reverse = out.reverse ++ pre ∧
        (2 ^ k ≤ n → out.length < bufLen → ∃ c t, pre = c :: t ∧ c ≠ 48) := by
  intro fuel
  induction fuel with
  | zero =>
    intro n out tr h _ ho hl
    have hn : n = 0 := by rcases h with h | ⟨j, hj, _, hf⟩ <;> omega
    subst hn
    exact ⟨0, 0, by simp [rsTail], by have := Nat.pow_pos (n := k) (by decide : 0 < 2); omega, by simp [rsTail],
      by simpa [rsTail] using hl, by simpa [rsTail] using ho, fun _ => rfl, fun h => absurd rfl h, [], by simp [rsTail],
      fun h => by have := Nat.pow_pos (n := k) (by decide : 0 < 2); omega⟩
  | succ fuel ih =>
    intro n out tr h hlt ho hl
    by_cases hn : 0 < n
    · by_cases hw : out.length < bufLen
      · -- room left: one more digit
        obtain ⟨a1, a2, a3⟩ := div_step k n 0 hlt (by omega)
        simp only [Nat.add_zero] at a2 a3
        obtain ⟨o1, o2, o3⟩ := outDigit (n / 2 ^ k) a1
        have ho' : (UInt8.ofNat (n / 2 ^ k + 48) :: out).all isDec = true := by
          rw [List.all_cons, o1, ho]; rfl
        have hlen : (UInt8.ofNat (n / 2 ^ k + 48) :: out).length = out.length + 1 := rfl
        have hun : rsTail k (fuel + 1) n out.length out tr =
            rsTail k fuel (n % 2 ^ k * 10) (UInt8.ofNat (n / 2 ^ k + 48) :: out).length (UInt8.ofNat (n / 2 ^ k + 48) :: out) tr := by
          conv => lhs; unfold rsTail
          rw [if_pos hn, if_pos hw]
          simp only [and_mask, Nat.shiftRight_eq_div_pow, hlen]
        rw [hun]
        obtain ⟨p, R, b1, b2, b3, b4, b5, b6, b7, pre, b8, _⟩ :=
          ih (n % 2 ^ k * 10) _ tr (tailOK_step k fuel n h hn) a2 ho' (by rw [hlen]; omega)
        refine ⟨p + 1, R, ?_, b2, by rw [b3, hlen]; omega, b4, b5, b6, b7,
          UInt8.ofNat (n / 2 ^ k + 48) :: pre, by rw [b8, List.reverse_cons, List.append_assoc]; rfl,
          fun hge _ => ⟨_, pre, rfl, ?_⟩⟩
        · rw [b1, List.reverse_cons, valOf_snoc, o2, Nat.pow_succ]
          have e : 10 * 2 ^ k * (valOf 10 out.reverse * 10 + n / 2 ^ k) + n % 2 ^ k * 10
              = 10 * (10 * 2 ^ k * valOf 10 out.reverse + n) := by
            calc _ = 10 * (10 * 2 ^ k * valOf 10 out.reverse) + (10 * 2 ^ k * (n / 2 ^ k) + n % 2 ^ k * 10) := by ring
              _ = 10 * (10 * 2 ^ k * valOf 10 out.reverse) + 10 * n := by rw [a3]
              _ = _ := by ring
          rw [e]; ring
        · intro h48
          have hq0 : n / 2 ^ k = 0 := o3.mp (by simp [h48])
          have : n < 2 ^ k := (Nat.div_eq_zero_iff_lt (Nat.pow_pos (by decide))).mp hq0
          omega
      · -- buffer full with a non-zero remainder
        have hfull := rsTail_full k (fuel + 1) n out.length out tr (by omega)
        have hcap := rsTail_cap k (fuel + 1) n out.length out tr h hn hlt (by omega)
        rw [hfull, hcap]
        refine ⟨0, n, by simp, hlt, by simp, hl, ho, fun h0 => by omega, fun _ => ⟨rfl, by omega⟩, [], by simp,
          fun _ h => absurd h hw⟩
    · have hn0 : n = 0 := by omega
      subst hn0
      have : rsTail k (fuel + 1) 0 out.length out tr = (out, tr) := by
        conv => lhs; unfold rsTail
        simp
      rw [this]
      exact ⟨0, 0, by simp, by have := Nat.pow_pos (n := k) (by decide : 0 < 2); omega, by simp, hl, ho,
        fun _ => rfl, fun h => absurd rfl h, [], by simp,
        fun h => by have := Nat.pow_pos (n := k) (by decide : 0 < 2); omega⟩

end C03

namespace C03
open Num Spec.NumText

/-- what one buffer-limited shift step does to the value: a floor on the grid `10^(dp' − 800)`,
with the truncation flag set exactly when the step was inexact -/
structure StepRes (a a' : Dc) (f : ℚ) : Prop where
  wf : WF a'
  ne : a'.d ≠ []
  trimmed : Trimmed a'
  neg : a'.neg = a.neg
  le : dval a' ≤ dval a * f
  lt : dval a * f < dval a' + (10 : ℚ) ^ (a'.dp - 800)
  exact : dval a' = dval a * f → a'.trunc = a.trunc
  inexact : dval a' ≠ dval a * f → a'.trunc = true

/-- **rightShift(a, k) with the buffer limit**: the quotient cut to 800 digits -/
theorem rightShift_floor (a : Dc) (k : Nat) (hk1 : 1 ≤ k) (hk : k ≤ 60) (hwf : WF a) (hne : a.d ≠ []) :
    StepRes a (rightShift a k) (1 / (2 : ℚ) ^ k) := by
  have hlead : 0 < 0 ∨ ∃ c cs, a.d = c :: cs ∧ c ≠ 48 := by
    right
    cases hd : a.d with
    | nil => exact absurd hd hne
    | cons c cs => exact ⟨c, cs, rfl, hwf.lead c cs hd⟩
  obtain ⟨n1, r1, rest, pad, e1, v1, rr, hpad, g1, b1, hr⟩ := rsPick_spec k hk a.d 0 0 hwf.dig hlead (fun _ => trivial)
  have hp2 : 0 < 2 ^ k := Nat.pow_pos (by decide)
  have b1' := b1 (by omega)
  obtain ⟨m1, m2, m3, m4, pre2, m5, m6⟩ := rsMain_spec k rest n1 [] hr b1' rfl
  have hrs : rightShift a k =
      ({ a with d := (rsTail k 64 (rsMain k rest n1 []).1 (rsMain k rest n1 []).2.length (rsMain k rest n1 []).2 a.trunc).1.reverse,
                dp := a.dp - ((r1 : Int) - 1),
                trunc := (rsTail k 64 (rsMain k rest n1 []).1 (rsMain k rest n1 []).2.length (rsMain k rest n1 []).2 a.trunc).2 } : Dc).trim := by
    unfold rightShift; rw [e1]
  generalize hn2 : (rsMain k rest n1 []).1 = n2 at *
  generalize ho2 : (rsMain k rest n1 []).2 = out2 at *
  have hok : TailOK k 64 n2 := Or.inr ⟨0, by omega, by simp, by omega⟩
  have hrestlen : rest.length ≤ a.d.length := by
    by_cases hp0 : 0 < pad
    · rw [hpad hp0]; simp
    · omega
  have hl2 : out2.length ≤ bufLen := by
    rw [m3]; simp only [List.length_nil, Nat.zero_add]; have := hwf.len; omega
  obtain ⟨p, R, t1, tR, t2, tlen, t3, tex, tin, pre3, t5, t6⟩ := rsTail_gen k 64 n2 out2 a.trunc hok m2 m4 hl2
  generalize ho3 : (rsTail k 64 n2 out2.length out2 a.trunc).1 = out3 at *
  generalize htr3 : (rsTail k 64 n2 out2.length out2 a.trunc).2 = tr3 at *
  have v0 : valOf 10 ([] : Bytes) = 0 := rfl
  simp only [List.reverse_nil, v0, Nat.mul_zero, Nat.zero_add, List.length_nil, List.nil_append] at m1 m3 m5
  let b : Dc := { a with d := out3.reverse, dp := a.dp - ((r1 : Int) - 1), trunc := tr3 }
  have hb : rightShift a k = b.trim := hrs
  have hfirst : ∃ c cs, out3.reverse = c :: cs ∧ c ≠ 48 := by
    rw [t5, m5]
    cases hrest : rest with
    | nil =>
      have hl0 : out2.length = 0 := by rw [m3, hrest]; rfl
      have h0 : out2 = [] := List.length_eq_zero_iff.mp hl0
      have : pre2 = [] := by
        rw [h0] at m5; simpa using m5.symm
      have hn21 : n2 = n1 := by
        have := hn2; rw [hrest] at this; simpa [rsMain] using this.symm
      obtain ⟨c, t, hc, hc48⟩ := t6 (by rw [hn21]; exact g1) (by rw [hl0]; decide)
      exact ⟨c, t, by rw [this, hc]; rfl, hc48⟩
    | cons x xs =>
      obtain ⟨c, t, hc, hc48⟩ := m6 (by rw [hrest]; simp) g1
      exact ⟨c, t ++ pre3, by rw [hc]; rfl, hc48⟩
  obtain ⟨c, cs, hcs, hc48⟩ := hfirst
  have hbwf : WF b := by
    refine ⟨?_, by show out3.reverse.length ≤ bufLen; rw [List.length_reverse]; exact tlen, ?_⟩
    · show out3.reverse.all isDec = true
      rw [List.all_reverse]; exact t3
    · intro c' cs' h
      have : b.d = out3.reverse := rfl
      rw [this, hcs] at h; injection h with h _; rw [← h]; exact hc48
  have hbne : b.d ≠ [] := by show out3.reverse ≠ []; rw [hcs]; simp
  obtain ⟨w1, w2, w3, w4, w5, w6⟩ := trim_wf b hbwf hbne
  have hdp : b.trim.dp = a.dp - ((r1 : Int) - 1) := by
    unfold Dc.trim
    have : trimZeros b.d ≠ [] := w2
    simp only [this, if_false]
    rfl
  -- the value
  have hNat : 10 * 2 ^ k * valOf 10 out3.reverse + R = valOf 10 a.d * 10 ^ (pad + p) := by
    rw [t1, m1]
    simp only [Nat.zero_mul, Nat.zero_add] at v1
    rw [v1, Nat.pow_add]; ring
  have hlen3 : (out3.reverse.length : Int) = rest.length + p := by
    rw [List.length_reverse, t2, m3]; push_cast; ring
  have hr1 : (r1 : Int) + rest.length = a.d.length + pad := by
    have := rr; simp only [Nat.zero_add] at this; exact_mod_cast this
  have hexp : a.dp - ((r1 : Int) - 1) - (out3.reverse.length : Int) = (a.dp - a.d.length) + 1 - ((pad + p : Nat) : Int) := by
    rw [hlen3]; push_cast; omega
  have hU : (0 : ℚ) < (10 : ℚ) ^ (a.dp - ((r1 : Int) - 1) - (out3.reverse.length : Int)) := by positivity
  have hval : dval a * (1 / (2 : ℚ) ^ k) = dval b +
      ((R : ℚ) / (10 * (2 : ℚ) ^ k)) * (10 : ℚ) ^ (a.dp - ((r1 : Int) - 1) - (out3.reverse.length : Int)) := by
    show (valOf 10 a.d : ℚ) * (10 : ℚ) ^ (a.dp - a.d.length) * (1 / (2 : ℚ) ^ k) =
      (valOf 10 out3.reverse : ℚ) * (10 : ℚ) ^ (a.dp - ((r1 : Int) - 1) - (out3.reverse.length : Int)) + _
    have hN : ((10 * 2 ^ k * valOf 10 out3.reverse + R : Nat) : ℚ) = ((valOf 10 a.d * 10 ^ (pad + p) : Nat) : ℚ) := by rw [hNat]
    push_cast at hN
    rw [hexp, zpow_sub₀ (by norm_num : (10 : ℚ) ≠ 0), zpow_add₀ (by norm_num : (10 : ℚ) ≠ 0), zpow_natCast]
    have h10 : (10 : ℚ) ^ (pad + p) ≠ 0 := by positivity
    have h2 : (2 : ℚ) ^ k ≠ 0 := by positivity
    have hNq : (valOf 10 a.d : ℚ) = (10 * (2 : ℚ) ^ k * (valOf 10 out3.reverse : ℚ) + R) / (10 : ℚ) ^ (pad + p) := by
      rw [eq_div_iff h10]; linarith
    rw [hNq]
    field_simp
  have hR0 : (0 : ℚ) ≤ (R : ℚ) / (10 * (2 : ℚ) ^ k) := by positivity
  have hR1 : (R : ℚ) / (10 * (2 : ℚ) ^ k) < 1 := by
    rw [div_lt_one (by positivity)]
    exact_mod_cast tR
  rw [hb]
  refine ⟨w1, w2, w3, w5, ?_, ?_, ?_, ?_⟩
  · rw [w4, hval]
    have := mul_nonneg hR0 hU.le
    linarith
  · rw [w4, hdp, hval]
    by_cases hR : R = 0
    · subst hR
      simp only [Nat.cast_zero, zero_div, zero_mul, add_zero]
      have : (0 : ℚ) < (10 : ℚ) ^ (a.dp - ((r1 : Int) - 1) - 800) := by positivity
      linarith
    · have hl800 : (out3.reverse.length : Int) = 800 := by
        rw [List.length_reverse, (tin hR).2]; rfl
      rw [hl800] at hU ⊢
      have := mul_lt_mul_of_pos_right hR1 hU
      linarith
  · intro heq
    rw [w4, hval] at heq
    have hz : (R : ℚ) / (10 * (2 : ℚ) ^ k) * (10 : ℚ) ^ (a.dp - ((r1 : Int) - 1) - (out3.reverse.length : Int)) = 0 := by linarith
    have hR : R = 0 := by
      rcases mul_eq_zero.mp hz with h | h
      · rw [div_eq_zero_iff] at h
        rcases h with h | h
        · exact_mod_cast h
        · exfalso; have : (0 : ℚ) < 10 * (2 : ℚ) ^ k := by positivity
          linarith
      · exfalso; linarith
    rw [w6]; exact tex hR
  · intro hneq
    rw [w6]
    by_cases hR : R = 0
    · exfalso; apply hneq; rw [w4, hval, hR]; simp
    · exact (tin hR).1

end C03
