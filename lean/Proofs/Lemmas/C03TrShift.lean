/-
C03 — truncating runs of the decimal slow path, part 1: what ONE shift (`rightShift` / `leftShift`,
at most 60 bits) does when the 800-digit buffer overflows: the result is the exact product or
quotient cut to the buffer (a floor on the grid 10^(dp' − 800)), and `trunc` is set exactly when
something non-zero was cut.
-/
import Proofs.Lemmas.C03DecShift

namespace C03
open Num Spec.NumText

/-- in the full-buffer regime the third loop of `rightShift` writes nothing more -/
theorem rsTail_full (k : Nat) : ∀ (fuel n w : Nat) (out : Bytes) (tr : Bool), bufLen ≤ w →
    (rsTail k fuel n w out tr).1 = out := by
  intro fuel
  induction fuel with
  | zero => intro n w out tr _; rfl
  | succ fuel ih =>
    intro n w out tr hw
    unfold rsTail
    split
    · rw [if_neg (by omega)]; exact ih _ _ _ _ hw
    · rfl

/-- third loop of `rightShift`, with the buffer limit: the digits written complete the quotient
as far as the buffer allows; `R` is what remains of the division -/
theorem rsTail_gen (k : Nat) : ∀ (fuel n : Nat) (out : Bytes) (tr : Bool), TailOK k fuel n → n < 10 * 2 ^ k →
    out.all isDec = true → out.length ≤ bufLen →
    ∃ p R, 10 * 2 ^ k * valOf 10 (rsTail k fuel n out.length out tr).1.reverse + R =
        (10 * 2 ^ k * valOf 10 out.reverse + n) * 10 ^ p ∧ R < 10 * 2 ^ k ∧
      (rsTail k fuel n out.length out tr).1.length = out.length + p ∧
      (rsTail k fuel n out.length out tr).1.length ≤ bufLen ∧
      (rsTail k fuel n out.length out tr).1.all isDec = true ∧
      (R = 0 → (rsTail k fuel n out.length out tr).2 = tr) ∧
      (R ≠ 0 → (rsTail k fuel n out.length out tr).2 = true ∧ (rsTail k fuel n out.length out tr).1.length = bufLen) ∧
      ∃ pre, (rsTail k fuel n out.length out tr).1.reverse = out.reverse ++ pre ∧
        (2 ^ k ≤ n → out.length < bufLen → ∃ c t, pre = c :: t ∧ c ≠ 48) := by
  intro fuel
  induction fuel with
  | zero =>
    intro n out tr h _ ho hl
    have hn : n = 0 := by rcases h with h | ⟨j, hj, _, hf⟩ <;> omega
    subst hn
    exact ⟨0, 0, by simp [rsTail], by have := Nat.pow_pos (n := k) (by decide : 0 < 2); omega, by simp [rsTail],
      by simpa [rsTail] using hl, by simpa [rsTail] using ho, fun _ => rfl, fun h => absurd rfl h, [], by simp [rsTail],
      fun h => by have := Nat.pow_pos (n := k) (by decide : 0 < 2); omega⟩
  | succ fuel ih =>
    intro n out tr h hlt ho hl
    by_cases hn : 0 < n
    · by_cases hw : out.length < bufLen
      · -- room left: one more digit
        obtain ⟨a1, a2, a3⟩ := div_step k n 0 hlt (by omega)
        simp only [Nat.add_zero] at a2 a3
        obtain ⟨o1, o2, o3⟩ := outDigit (n / 2 ^ k) a1
        have ho' : (UInt8.ofNat (n / 2 ^ k + 48) :: out).all isDec = true := by
          rw [List.all_cons, o1, ho]; rfl
        have hlen : (UInt8.ofNat (n / 2 ^ k + 48) :: out).length = out.length + 1 := rfl
        have hun : rsTail k (fuel + 1) n out.length out tr =
            rsTail k fuel (n % 2 ^ k * 10) (UInt8.ofNat (n / 2 ^ k + 48) :: out).length (UInt8.ofNat (n / 2 ^ k + 48) :: out) tr := by
          conv => lhs; unfold rsTail
          rw [if_pos hn, if_pos hw]
          simp only [and_mask, Nat.shiftRight_eq_div_pow, hlen]
        rw [hun]
        obtain ⟨p, R, b1, b2, b3, b4, b5, b6, b7, pre, b8, _⟩ :=
          ih (n % 2 ^ k * 10) _ tr (tailOK_step k fuel n h hn) a2 ho' (by rw [hlen]; omega)
        refine ⟨p + 1, R, ?_, b2, by rw [b3, hlen]; omega, b4, b5, b6, b7,
          UInt8.ofNat (n / 2 ^ k + 48) :: pre, by rw [b8, List.reverse_cons, List.append_assoc]; rfl,
          fun hge _ => ⟨_, pre, rfl, ?_⟩⟩
        · rw [b1, List.reverse_cons, valOf_snoc, o2, Nat.pow_succ]
          have e : 10 * 2 ^ k * (valOf 10 out.reverse * 10 + n / 2 ^ k) + n % 2 ^ k * 10
              = 10 * (10 * 2 ^ k * valOf 10 out.reverse + n) := by
            calc _ = 10 * (10 * 2 ^ k * valOf 10 out.reverse) + (10 * 2 ^ k * (n / 2 ^ k) + n % 2 ^ k * 10) := by ring
              _ = 10 * (10 * 2 ^ k * valOf 10 out.reverse) + 10 * n := by rw [a3]
              _ = _ := by ring
          rw [e]; ring
        · intro h48
          have hq0 : n / 2 ^ k = 0 := o3.mp (by simp [h48])
          have : n < 2 ^ k := (Nat.div_eq_zero_iff_lt (Nat.pow_pos (by decide))).mp hq0
          omega
      · -- buffer full with a non-zero remainder
        have hfull := rsTail_full k (fuel + 1) n out.length out tr (by omega)
        have hcap := rsTail_cap k (fuel + 1) n out.length out tr h hn hlt (by omega)
        rw [hfull, hcap]
        refine ⟨0, n, by simp, hlt, by simp, hl, ho, fun h0 => by omega, fun _ => ⟨rfl, by omega⟩, [], by simp,
          fun _ h => absurd h hw⟩
    · have hn0 : n = 0 := by omega
      subst hn0
      have : rsTail k (fuel + 1) 0 out.length out tr = (out, tr) := by
        conv => lhs; unfold rsTail
        simp
      rw [this]
      exact ⟨0, 0, by simp, by have := Nat.pow_pos (n := k) (by decide : 0 < 2); omega, by simp, hl, ho,
        fun _ => rfl, fun h => absurd rfl h, [], by simp,
        fun h => by have := Nat.pow_pos (n := k) (by decide : 0 < 2); omega⟩

end C03
