/-
C03 — truncating runs of the decimal slow path, part 1: what ONE shift (`rightShift` / `leftShift`,
at most 60 bits) does when the 800-digit buffer overflows: the result is the exact product or
quotient cut to the buffer (a floor on the grid 10^(dp' − 800)), and `trunc` is set exactly when
something non-zero was cut.
-/
import Proofs.Lemmas.C03DecShift

namespace C03
open Num Spec.NumText

/-- in the full-buffer regime the third loop of `rightShift` writes nothing more -/
theorem rsTail_full (k : Nat) : ∀ (fuel n w : Nat) (out : Bytes) (tr : Bool), bufLen ≤ w →
    (rsTail k fuel n w out tr).1 = out := by
  intro fuel
  induction fuel with
  | zero => intro n w out tr _; rfl
  | succ fuel ih =>
    intro n w out tr hw
    unfold rsTail
    split
    · rw [if_neg (by omega)]; exact ih _ _ _ _ hw
    · rfl

/-- third loop of `rightShift`, with the buffer limit: the digits written complete the quotient
as far as the buffer allows; `R` is what remains of the division -/
theorem rsTail_gen (k : Nat) : ∀ (fuel n : Nat) (out : Bytes) (tr : Bool), TailOK k fuel n → n < 10 * 2 ^ k →
    out.all isDec = true → out.length ≤ bufLen →
    ∃ p R, 10 * 2 ^ k * valOf 10 (rsTail k fuel n out.length out tr).1.reverse + R =
        (10 * 2 ^ k * valOf 10 out.reverse + n) * 10 ^ p ∧ R < 10 * 2 ^ k ∧
      (rsTail k fuel n out.length out tr).1.length = out.length + p ∧
      (rsTail k fuel n out.length out tr).1.length ≤ bufLen ∧
      (rsTail k fuel n out.length out tr).1.all isDec = true ∧
      (R = 0 → (rsTail k fuel n out.length out tr).2 = tr) ∧
      (R ≠ 0 → (rsTail k fuel n out.length out tr).2 = true ∧ (rsTail k fuel n out.length out tr).1.length = bufLen) ∧
      ∃ pre, (rsTail k fuel n out.length out tr).1.reverse = out.reverse ++ pre ∧
        (2 ^ k ≤ n → out.length < bufLen → ∃ c t, pre = c :: t ∧ c ≠ 48) := by
  intro fuel
  induction fuel with
  | zero =>
    intro n out tr h _ ho hl
    have hn : n = 0 := by rcases h with h | ⟨j, hj, _, hf⟩ <;> omega
    subst hn
    exact ⟨0, 0, by simp [rsTail], by have := Nat.pow_pos (n := k) (by decide : 0 < 2); omega, by simp [rsTail],
      by simpa [rsTail] using hl, by simpa [rsTail] using ho, fun _ => rfl, fun h => absurd rfl h, [], by simp [rsTail],
      fun h => by have := Nat.pow_pos (n := k) (by decide : 0 < 2); omega⟩
  | succ fuel ih =>
    intro n out tr h hlt ho hl
    by_cases hn : 0 < n
    · by_cases hw : out.length < bufLen
      · -- room left: one more digit
        obtain ⟨a1, a2, a3⟩ := div_step k n 0 hlt (by omega)
        simp only [Nat.add_zero] at a2 a3
        obtain ⟨o1, o2, o3⟩ := outDigit (n / 2 ^ k) a1
        have ho' : (UInt8.ofNat (n / 2 ^ k + 48) :: out).all isDec = true := by
          rw [List.all_cons, o1, ho]; rfl
        have hlen : (UInt8.ofNat (n / 2 ^ k + 48) :: out).length = out.length + 1 := rfl
        have hun : rsTail k (fuel + 1) n out.length out tr =
            rsTail k fuel (n % 2 ^ k * 10) (UInt8.ofNat (n / 2 ^ k + 48) :: out).length (UInt8.ofNat (n / 2 ^ k + 48) :: out) tr := by
          conv => lhs; unfold rsTail
          rw [if_pos hn, if_pos hw]
          simp only [and_mask, Nat.shiftRight_eq_div_pow, hlen]
        rw [hun]
        obtain ⟨p, R, b1, b2, b3, b4, b5, b6, b7, pre, b8, _⟩ :=
          ih (n % 2 ^ k * 10) _ tr (tailOK_step k fuel n h hn) a2 ho' (by rw [hlen]; omega)
        refine ⟨p + 1, R, ?_, b2, by rw [b3, hlen]; omega, b4, b5, b6, b7,
          UInt8.ofNat (n / 2 ^ k + 48) :: pre, by rw [b8, List.reverse_cons, List.append_assoc]; rfl,
          fun hge _ => ⟨_, pre, rfl, ?_⟩⟩
        · rw [b1, List.reverse_cons, valOf_snoc, o2, Nat.pow_succ]
          have e : 10 * 2 ^ k * (valOf 10 out.reverse * 10 + n / 2 ^ k) + n % 2 ^ k * 10
              = 10 * (10 * 2 ^ k * valOf 10 out.reverse + n) := by
            calc _ = 10 * (10 * 2 ^ k * valOf 10 out.reverse) + (10 * 2 ^ k * (n / 2 ^ k) + n % 2 ^ k * 10) := by ring
              _ = 10 * (10 * 2 ^ k * valOf 10 out.reverse) + 10 * n := by rw [a3]
              _ = _ := by ring
          rw [e]; ring
        · intro h48
          have hq0 : n / 2 ^ k = 0 := o3.mp (by simp [h48])
          have : n < 2 ^ k := (Nat.div_eq_zero_iff_lt (Nat.pow_pos (by decide))).mp hq0
          omega
      · -- buffer full with a non-zero remainder
        have hfull := rsTail_full k (fuel + 1) n out.length out tr (by omega)
        have hcap := rsTail_cap k (fuel + 1) n out.length out tr h hn hlt (by omega)
        rw [hfull, hcap]
        refine ⟨0, n, by simp, hlt, by simp, hl, ho, fun h0 => by omega, fun _ => ⟨rfl, by omega⟩, [], by simp,
          fun _ h => absurd h hw⟩
    · have hn0 : n = 0 := by omega
      subst hn0
      have : rsTail k (fuel + 1) 0 out.length out tr = (out, tr) := by
        conv => lhs; unfold rsTail
        simp
      rw [this]
      exact ⟨0, 0, by simp, by have := Nat.pow_pos (n := k) (by decide : 0 < 2); omega, by simp, hl, ho,
        fun _ => rfl, fun h => absurd rfl h, [], by simp,
        fun h => by have := Nat.pow_pos (n := k) (by decide : 0 < 2); omega⟩

end C03

namespace C03
open Num Spec.NumText

/-- what one buffer-limited shift step does to the value: a floor on the grid `10^(dp' − 800)`,
with the truncation flag set exactly when the step was inexact -/
structure StepRes (a a' : Dc) (f : ℚ) : Prop where
  wf : WF a'
  ne : a'.d ≠ []
  trimmed : Trimmed a'
  neg : a'.neg = a.neg
  le : dval a' ≤ dval a * f
  lt : dval a * f < dval a' + (10 : ℚ) ^ (a'.dp - 800)
  exact : dval a' = dval a * f → a'.trunc = a.trunc
  inexact : dval a' ≠ dval a * f → a'.trunc = true

theorem trim_dp (b : Dc) (h : b.trim.d ≠ []) : b.trim.dp = b.dp := by
  unfold Dc.trim at h ⊢
  cases ht : trimZeros b.d with
  | nil => rw [ht] at h; exact absurd rfl h
  | cons c cs => rfl

/-- **rightShift(a, k) with the buffer limit**: the quotient cut to 800 digits -/
theorem rightShift_floor (a : Dc) (k : Nat) (hk1 : 1 ≤ k) (hk : k ≤ 60) (hwf : WF a) (hne : a.d ≠ []) :
    StepRes a (rightShift a k) (1 / (2 : ℚ) ^ k) := by
  have hlead : 0 < 0 ∨ ∃ c cs, a.d = c :: cs ∧ c ≠ 48 := by
    right
    cases hd : a.d with
    | nil => exact absurd hd hne
    | cons c cs => exact ⟨c, cs, rfl, hwf.lead c cs hd⟩
  obtain ⟨n1, r1, rest, pad, e1, v1, rr, hpad, g1, b1, hr⟩ := rsPick_spec k hk a.d 0 0 hwf.dig hlead (fun _ => trivial)
  have hp2 : 0 < 2 ^ k := Nat.pow_pos (by decide)
  have b1' := b1 (by omega)
  obtain ⟨m1, m2, m3, m4, pre2, m5, m6⟩ := rsMain_spec k rest n1 [] hr b1' rfl
  have hrs : rightShift a k =
      ({ a with d := (rsTail k 64 (rsMain k rest n1 []).1 (rsMain k rest n1 []).2.length (rsMain k rest n1 []).2 a.trunc).1.reverse,
                dp := a.dp - ((r1 : Int) - 1),
                trunc := (rsTail k 64 (rsMain k rest n1 []).1 (rsMain k rest n1 []).2.length (rsMain k rest n1 []).2 a.trunc).2 } : Dc).trim := by
    unfold rightShift; rw [e1]
  generalize hn2 : (rsMain k rest n1 []).1 = n2 at *
  generalize ho2 : (rsMain k rest n1 []).2 = out2 at *
  have hok : TailOK k 64 n2 := Or.inr ⟨0, by omega, by simp, by omega⟩
  have hrestlen : rest.length ≤ a.d.length := by
    by_cases hp0 : 0 < pad
    · rw [hpad hp0]; simp
    · omega
  have hl2 : out2.length ≤ bufLen := by
    rw [m3]; simp only [List.length_nil, Nat.zero_add]; have := hwf.len; omega
  obtain ⟨p, R, t1, tR, t2, tlen, t3, tex, tin, pre3, t5, t6⟩ := rsTail_gen k 64 n2 out2 a.trunc hok m2 m4 hl2
  generalize ho3 : (rsTail k 64 n2 out2.length out2 a.trunc).1 = out3 at *
  generalize htr3 : (rsTail k 64 n2 out2.length out2 a.trunc).2 = tr3 at *
  have v0 : valOf 10 ([] : Bytes) = 0 := rfl
  simp only [List.reverse_nil, v0, Nat.mul_zero, Nat.zero_add, List.length_nil, List.nil_append] at m1 m3 m5
  let b : Dc := { a with d := out3.reverse, dp := a.dp - ((r1 : Int) - 1), trunc := tr3 }
  have hb : rightShift a k = b.trim := hrs
  have hfirst : ∃ c cs, out3.reverse = c :: cs ∧ c ≠ 48 := by
    rw [t5, m5]
    cases hrest : rest with
    | nil =>
      have hl0 : out2.length = 0 := by rw [m3, hrest]; rfl
      have h0 : out2 = [] := List.length_eq_zero_iff.mp hl0
      have : pre2 = [] := by
        rw [h0] at m5; simpa using m5.symm
      have hn21 : n2 = n1 := by
        have := hn2; rw [hrest] at this; simpa [rsMain] using this.symm
      obtain ⟨c, t, hc, hc48⟩ := t6 (by rw [hn21]; exact g1) (by rw [hl0]; decide)
      exact ⟨c, t, by rw [this, hc]; rfl, hc48⟩
    | cons x xs =>
      obtain ⟨c, t, hc, hc48⟩ := m6 (by rw [hrest]; simp) g1
      exact ⟨c, t ++ pre3, by rw [hc]; rfl, hc48⟩
  obtain ⟨c, cs, hcs, hc48⟩ := hfirst
  have hbwf : WF b := by
    refine ⟨?_, by show out3.reverse.length ≤ bufLen; rw [List.length_reverse]; exact tlen, ?_⟩
    · show out3.reverse.all isDec = true
      rw [List.all_reverse]; exact t3
    · intro c' cs' h
      have : b.d = out3.reverse := rfl
      rw [this, hcs] at h; injection h with h _; rw [← h]; exact hc48
  have hbne : b.d ≠ [] := by show out3.reverse ≠ []; rw [hcs]; simp
  obtain ⟨w1, w2, w3, w4, w5, w6⟩ := trim_wf b hbwf hbne
  have hdp : b.trim.dp = a.dp - ((r1 : Int) - 1) := trim_dp b w2
  -- the value
  have hNat : 10 * 2 ^ k * valOf 10 out3.reverse + R = valOf 10 a.d * 10 ^ (pad + p) := by
    rw [t1, m1]
    simp only [Nat.zero_mul, Nat.zero_add] at v1
    rw [v1, Nat.pow_add]; ring
  have hlen3 : (out3.reverse.length : Int) = rest.length + p := by
    rw [List.length_reverse, t2, m3]; push_cast; ring
  have hr1 : (r1 : Int) + rest.length = a.d.length + pad := by
    have := rr; simp only [Nat.zero_add] at this; exact_mod_cast this
  have hexp : a.dp - ((r1 : Int) - 1) - (out3.reverse.length : Int) = (a.dp - a.d.length) + 1 - ((pad + p : Nat) : Int) := by
    rw [hlen3]; push_cast; omega
  have hU : (0 : ℚ) < (10 : ℚ) ^ (a.dp - ((r1 : Int) - 1) - (out3.reverse.length : Int)) := by positivity
  have hval : dval a * (1 / (2 : ℚ) ^ k) = dval b +
      ((R : ℚ) / (10 * (2 : ℚ) ^ k)) * (10 : ℚ) ^ (a.dp - ((r1 : Int) - 1) - (out3.reverse.length : Int)) := by
    show (valOf 10 a.d : ℚ) * (10 : ℚ) ^ (a.dp - a.d.length) * (1 / (2 : ℚ) ^ k) =
      (valOf 10 out3.reverse : ℚ) * (10 : ℚ) ^ (a.dp - ((r1 : Int) - 1) - (out3.reverse.length : Int)) + _
    have hN : ((10 * 2 ^ k * valOf 10 out3.reverse + R : Nat) : ℚ) = ((valOf 10 a.d * 10 ^ (pad + p) : Nat) : ℚ) := by rw [hNat]
    push_cast at hN
    rw [hexp]
    generalize a.dp - (a.d.length : Int) = E
    rw [zpow_sub₀ (by norm_num : (10 : ℚ) ≠ 0), zpow_add₀ (by norm_num : (10 : ℚ) ≠ 0), zpow_natCast]
    have h10 : (10 : ℚ) ^ (pad + p) ≠ 0 := by positivity
    have h2 : (2 : ℚ) ^ k ≠ 0 := by positivity
    have hNq : (valOf 10 a.d : ℚ) = (10 * (2 : ℚ) ^ k * (valOf 10 out3.reverse : ℚ) + R) / (10 : ℚ) ^ (pad + p) := by
      rw [eq_div_iff h10]; linarith
    rw [hNq]
    field_simp
  have hR0 : (0 : ℚ) ≤ (R : ℚ) / (10 * (2 : ℚ) ^ k) := by positivity
  have hR1 : (R : ℚ) / (10 * (2 : ℚ) ^ k) < 1 := by
    rw [div_lt_one (by positivity)]
    exact_mod_cast tR
  rw [hb]
  refine ⟨w1, w2, w3, w5, ?_, ?_, ?_, ?_⟩
  · rw [w4, hval]
    have := mul_nonneg hR0 hU.le
    linarith
  · rw [w4, hdp, hval]
    by_cases hR : R = 0
    · subst hR
      simp only [Nat.cast_zero, zero_div, zero_mul, add_zero]
      have : (0 : ℚ) < (10 : ℚ) ^ (a.dp - ((r1 : Int) - 1) - 800) := by positivity
      linarith
    · have hl800 : (out3.reverse.length : Int) = 800 := by
        rw [List.length_reverse, (tin hR).2]; rfl
      rw [hl800] at hU ⊢
      have := mul_lt_mul_of_pos_right hR1 hU
      linarith
  · intro heq
    rw [w4, hval] at heq
    have hz : (R : ℚ) / (10 * (2 : ℚ) ^ k) * (10 : ℚ) ^ (a.dp - ((r1 : Int) - 1) - (out3.reverse.length : Int)) = 0 := by linarith
    have hR : R = 0 := by
      rcases mul_eq_zero.mp hz with h | h
      · rw [div_eq_zero_iff] at h
        rcases h with h | h
        · exact_mod_cast h
        · exfalso; have : (0 : ℚ) < 10 * (2 : ℚ) ^ k := by positivity
          linarith
      · exfalso; linarith
    rw [w6]; exact tex hR
  · intro hneq
    rw [w6]
    by_cases hR : R = 0
    · exfalso; apply hneq; rw [w4, hval, hR]; simp
    · exact (tin hR).1

end C03

namespace C03
open Num Spec.NumText

theorem valOf_pos_of_any : ∀ (ds : Bytes), ds.all isDec = true → ds.any (· != 48) = true → 0 < valOf 10 ds := by
  intro ds
  induction ds using List.reverseRecOn with
  | nil => intro _ h; simp at h
  | append_singleton ds c ih =>
    intro hd ha
    rw [List.all_append, Bool.and_eq_true] at hd
    rw [List.any_append, Bool.or_eq_true] at ha
    rw [valOf_snoc]
    rcases ha with ha | ha
    · have := ih hd.1 ha; omega
    · have hc : isDec c = true := by simpa using hd.2
      have hc48 : (c != 48) = true := by simpa using ha
      have : ∀ c : UInt8, isDec c = true → (c != 48) = true → 0 < digVal c :=
        byte_forall (P := fun c => isDec c = true → (c != 48) = true → 0 < digVal c) (by decide +kernel)
      have := this c hc hc48
      omega

/-- **leftShift(a, k) with the buffer limit**: the product cut to 800 digits -/
theorem leftShift_floor (a : Dc) (k : Nat) (hk1 : 1 ≤ k) (hk : k ≤ 60) (hwf : WF a) (hne : a.d ≠ []) :
    StepRes a (leftShift a k) ((2 : ℚ) ^ k) := by
  have hlo := wf_lo a hwf hne
  obtain ⟨c1, c2, c3⟩ := cheat_digits k hk1 hk a.d hwf.dig hlo hne
  have hrd : a.d.reverse.all isDec = true := by rw [List.all_reverse]; exact hwf.dig
  obtain ⟨m1, m2, m3, m4⟩ := lsMain_spec k a.d.reverse 0 [] hrd rfl
  have hp2 : 0 < 2 ^ k := Nat.pow_pos (by decide)
  have m4' := m4 hp2
  have v0 : valOf 10 ([] : Bytes) = 0 := rfl
  simp only [List.reverse_reverse, v0, Nat.zero_add, List.length_nil, Nat.pow_zero, Nat.mul_one,
    List.length_reverse] at m1 m2
  generalize hn : (lsMain k a.d.reverse 0 []).1 = n at *
  generalize ho : (lsMain k a.d.reverse 0 []).2 = out at *
  have hn64 : n < 10 ^ 64 := by
    have : 2 ^ k ≤ 2 ^ 60 := Nat.pow_le_pow_right (by decide) hk
    have : (2 : Nat) ^ 60 < 10 ^ 64 := by decide
    omega
  obtain ⟨t1, t2, t3⟩ := lsTail_spec 64 n out hn64 m3
  obtain ⟨t, u1, u2, u3⟩ := lsTail_count 64 n out hn64
  generalize hall : lsTail 64 n out = all at *
  have hV : valOf 10 all = valOf 10 a.d * 2 ^ k := by rw [t1]; exact m1
  have hlow : 10 ^ (all.length - 1) ≤ valOf 10 all := by
    rw [u1, m2]
    by_cases hn0 : n = 0
    · rw [u3 hn0, Nat.add_zero, hV]
      calc 10 ^ (a.d.length - 1) ≤ valOf 10 a.d := hlo
        _ ≤ valOf 10 a.d * 2 ^ k := Nat.le_mul_of_pos_right _ hp2
    · obtain ⟨b1, b2⟩ := u2 (by omega)
      rw [t1, m2]
      calc 10 ^ (a.d.length + t - 1) = 10 ^ (t - 1) * 10 ^ a.d.length := by rw [← Nat.pow_add]; congr 1; omega
        _ ≤ n * 10 ^ a.d.length := Nat.mul_le_mul_right _ b1
        _ ≤ _ := Nat.le_add_left _ _
  have hup := valOf_lt all t2
  have hallpos : 1 ≤ all.length := by rw [u1, m2]; have := List.length_pos_iff.mpr hne; omega
  have hcount : all.length = a.d.length + cheatDelta k a.d := by
    apply pow10_unique _ _ (valOf 10 all) hallpos c3 hlow hup
    · rw [hV]; exact c1
    · rw [hV]; exact c2
  have hls : leftShift a k =
      ({ a with d := (all.take bufLen).take (min (a.d.length + cheatDelta k a.d) bufLen + (all.length - (a.d.length + cheatDelta k a.d))),
                dp := a.dp + (cheatDelta k a.d : Int),
                trunc := a.trunc || (all.drop bufLen).any (· != 48) } : Dc).trim := by
    unfold leftShift cheatDelta
    simp only [hn, ho, hall]
  have hkept : (all.take bufLen).take (min (a.d.length + cheatDelta k a.d) bufLen + (all.length - (a.d.length + cheatDelta k a.d)))
      = all.take bufLen := by
    rw [← hcount, Nat.sub_self, Nat.add_zero]
    apply List.take_of_length_le
    rw [List.length_take]; omega
  rw [hkept] at hls
  let b : Dc := { a with d := all.take bufLen, dp := a.dp + (cheatDelta k a.d : Int),
                         trunc := a.trunc || (all.drop bufLen).any (· != 48) }
  have hb : leftShift a k = b.trim := hls
  have hsplit : all = all.take bufLen ++ all.drop bufLen := (List.take_append_drop _ _).symm
  have hdig2 : (all.take bufLen).all isDec = true ∧ (all.drop bufLen).all isDec = true := by
    rw [hsplit, List.all_append, Bool.and_eq_true] at t2; exact t2
  have hVk : valOf 10 all = valOf 10 (all.take bufLen) * 10 ^ (all.drop bufLen).length + valOf 10 (all.drop bufLen) := by
    conv => lhs; rw [hsplit]
    rw [valOf_append10]
  have hDlt := valOf_lt (all.drop bufLen) hdig2.2
  have hhead := head_nonzero all t2 hlow
  have hbwf : WF b := by
    refine ⟨hdig2.1, by show (all.take bufLen).length ≤ bufLen; rw [List.length_take]; omega, ?_⟩
    intro c cs h
    have : b.d = all.take bufLen := rfl
    rw [this] at h
    cases hal : all with
    | nil => rw [hal] at hallpos; simp at hallpos
    | cons x xs =>
      rw [hal] at h
      have hbl : bufLen = 799 + 1 := rfl
      rw [hbl, List.take_succ_cons] at h
      injection h with h _
      rw [← h]; exact hhead x xs hal
  have hbne : b.d ≠ [] := by
    show all.take bufLen ≠ []
    cases hal : all with
    | nil => rw [hal] at hallpos; simp at hallpos
    | cons x xs => have hbl : bufLen = 799 + 1 := rfl
                   rw [hbl, List.take_succ_cons]; simp
  obtain ⟨w1, w2, w3, w4, w5, w6⟩ := trim_wf b hbwf hbne
  have hdp : b.trim.dp = a.dp + (cheatDelta k a.d : Int) := trim_dp b w2
  generalize hD : valOf 10 (all.drop bufLen) = D at *
  generalize hr : (all.drop bufLen).length = r at *
  have hlens : (all.length : Int) = (all.take bufLen).length + r := by
    have := congrArg List.length hsplit
    rw [List.length_append, hr] at this
    exact_mod_cast this
  have hcountI : (all.length : Int) = a.d.length + (cheatDelta k a.d : Int) := by exact_mod_cast hcount
  have hU : (0 : ℚ) < (10 : ℚ) ^ (a.dp + (cheatDelta k a.d : Int) - ((all.take bufLen).length : Int)) := by positivity
  have hval : dval a * (2 : ℚ) ^ k = dval b +
      ((D : ℚ) / (10 : ℚ) ^ r) * (10 : ℚ) ^ (a.dp + (cheatDelta k a.d : Int) - ((all.take bufLen).length : Int)) := by
    show (valOf 10 a.d : ℚ) * (10 : ℚ) ^ (a.dp - a.d.length) * (2 : ℚ) ^ k =
      (valOf 10 (all.take bufLen) : ℚ) * (10 : ℚ) ^ (a.dp + (cheatDelta k a.d : Int) - ((all.take bufLen).length : Int)) + _
    have hq : ((valOf 10 a.d * 2 ^ k : Nat) : ℚ) = ((valOf 10 (all.take bufLen) * 10 ^ r + D : Nat) : ℚ) := by
      rw [← hV, hVk]
    push_cast at hq
    have hexp : a.dp - (a.d.length : Int) = (a.dp + (cheatDelta k a.d : Int) - ((all.take bufLen).length : Int)) - (r : Int) := by
      omega
    rw [hexp]
    generalize a.dp + (cheatDelta k a.d : Int) - ((all.take bufLen).length : Int) = e1
    rw [zpow_sub₀ (by norm_num : (10 : ℚ) ≠ 0), zpow_natCast]
    have h10 : (10 : ℚ) ^ r ≠ 0 := by positivity
    have e : (valOf 10 a.d : ℚ) * ((10 : ℚ) ^ e1 / (10 : ℚ) ^ r) * (2 : ℚ) ^ k
        = ((valOf 10 a.d : ℚ) * (2 : ℚ) ^ k) * (10 : ℚ) ^ e1 / (10 : ℚ) ^ r := by ring
    rw [e, hq]
    field_simp
  have hR0 : (0 : ℚ) ≤ (D : ℚ) / (10 : ℚ) ^ r := by positivity
  have hR1 : (D : ℚ) / (10 : ℚ) ^ r < 1 := by
    rw [div_lt_one (by positivity)]
    exact_mod_cast hDlt
  have hD0 : D = 0 → (all.drop bufLen).any (· != 48) = false := by
    intro h0
    cases hany : (all.drop bufLen).any (· != 48) with
    | false => rfl
    | true => have := valOf_pos_of_any _ hdig2.2 hany; omega
  have hD1 : D ≠ 0 → (all.drop bufLen).any (· != 48) = true ∧ ((all.take bufLen).length : Int) = 800 := by
    intro h1
    constructor
    · cases hany : (all.drop bufLen).any (· != 48) with
      | true => rfl
      | false => exact absurd (hD ▸ valOf_zeros _ hany) h1
    · have : r ≠ 0 := by
        intro hr0
        have : all.drop bufLen = [] := List.length_eq_zero_iff.mp (hr0 ▸ hr)
        rw [this] at hD
        exact h1 hD.symm
      have hlt : bufLen < all.length := by
        have := List.length_drop (i := bufLen) (l := all)
        omega
      rw [List.length_take, Nat.min_eq_left (by omega)]; rfl
  rw [hb]
  refine ⟨w1, w2, w3, w5, ?_, ?_, ?_, ?_⟩
  · rw [w4, hval]
    have := mul_nonneg hR0 hU.le
    linarith
  · rw [w4, hdp, hval]
    by_cases hDz : D = 0
    · subst hDz
      simp only [Nat.cast_zero, zero_div, zero_mul, add_zero]
      have : (0 : ℚ) < (10 : ℚ) ^ (a.dp + (cheatDelta k a.d : Int) - 800) := by positivity
      linarith
    · rw [(hD1 hDz).2] at hU ⊢
      have := mul_lt_mul_of_pos_right hR1 hU
      linarith
  · intro heq
    rw [w4, hval] at heq
    have hz : (D : ℚ) / (10 : ℚ) ^ r * (10 : ℚ) ^ (a.dp + (cheatDelta k a.d : Int) - ((all.take bufLen).length : Int)) = 0 := by linarith
    have hDz : D = 0 := by
      rcases mul_eq_zero.mp hz with h | h
      · rw [div_eq_zero_iff] at h
        rcases h with h | h
        · exact_mod_cast h
        · exfalso; have : (0 : ℚ) < (10 : ℚ) ^ r := by positivity
          linarith
      · exfalso; linarith
    rw [w6]
    show (a.trunc || (all.drop bufLen).any (· != 48)) = a.trunc
    rw [hD0 hDz, Bool.or_false]
  · intro hneq
    rw [w6]
    show (a.trunc || (all.drop bufLen).any (· != 48)) = true
    by_cases hDz : D = 0
    · exfalso; apply hneq; rw [w4, hval, hDz]; simp
    · rw [(hD1 hDz).1, Bool.or_true]

end C03
