/-
Rounding as a function of the rational value: `roundQ q` (= `roundRat` of any fraction equal to
q), the decode lemma `val_roundMag` (value of the result = rne(q·2^s)·2^-s), monotonicity,
exactness on dyadic values, and the rounding-interval lemma behind decimal round-trips.
-/
import Proofs.Lemmas.F64Sign

namespace F64

/-! ### `roundMag` depends only on the value of the fraction -/

theorem roundMag_zero_num (d : Nat) : roundMag 0 d = 0 := by simp [roundMag]

theorem roundMag_congr (n1 d1 n2 d2 : Nat) (hd1 : 0 < d1) (hd2 : 0 < d2) (h : n1 * d2 = n2 * d1) :
    roundMag n1 d1 = roundMag n2 d2 := by
  rcases Nat.eq_zero_or_pos n1 with h0 | hn1
  · subst h0
    have : n2 = 0 := by
      rcases Nat.eq_zero_or_pos n2 with h' | h'
      · exact h'
      · have := Nat.mul_pos h' hd1; omega
    subst this; rw [roundMag_zero_num, roundMag_zero_num]
  · have hn2 : 0 < n2 := by
      rcases Nat.eq_zero_or_pos n2 with h' | h'
      · subst h'; have := Nat.mul_pos hn1 hd2; omega
      · exact h'
    rw [← UInt64.toNat_inj]
    apply Nat.le_antisymm
    · exact roundMag_mono _ _ _ _ hn1 hd1 hd2 (Nat.le_of_eq h)
    · exact roundMag_mono _ _ _ _ hn2 hd2 hd1 (Nat.le_of_eq h.symm)

/-- magnitude rounding of |q| -/
def magQ (q : ℚ) : Bits := roundMag q.num.natAbs q.den

theorem natAbs_div_den (q : ℚ) : ((q.num.natAbs : ℕ) : ℚ) / (q.den : ℚ) = |q| := by
  have h := Rat.num_div_den q
  have hd : (0 : ℚ) < q.den := by exact_mod_cast q.den_pos
  have e : |q| = |(q.num : ℚ)| / q.den := by
    conv_lhs => rw [← h]
    rw [abs_div, abs_of_pos hd]
  rw [e, Nat.cast_natAbs, Int.cast_abs]

theorem frac_eq_iff (n1 d1 n2 d2 : Nat) (hd1 : 0 < d1) (hd2 : 0 < d2) :
    n1 * d2 = n2 * d1 ↔ (n1 : ℚ) / d1 = (n2 : ℚ) / d2 := by
  rw [le_antisymm_iff, le_antisymm_iff (a := (n1 : ℚ) / d1), ← frac_le_iff _ _ _ _ hd1 hd2,
    ← frac_le_iff _ _ _ _ hd2 hd1]

theorem roundMag_eq_magQ (n d : Nat) (hd : 0 < d) (q : ℚ) (h : (n : ℚ) / d = |q|) :
    roundMag n d = magQ q := by
  unfold magQ
  apply roundMag_congr _ _ _ _ hd q.den_pos
  rw [frac_eq_iff _ _ _ _ hd q.den_pos, natAbs_div_den, h]

theorem magQ_abs (q : ℚ) : magQ |q| = magQ q := by
  have hd := (|q|).den_pos
  unfold magQ
  apply roundMag_congr _ _ _ _ hd q.den_pos
  rw [frac_eq_iff _ _ _ _ hd q.den_pos, natAbs_div_den, natAbs_div_den, _root_.abs_abs]

theorem magQ_neg (q : ℚ) : magQ (-q) = magQ q := by
  rw [← magQ_abs, _root_.abs_neg, magQ_abs]

theorem magQ_zero : magQ 0 = 0 := by
  unfold magQ; simp [roundMag_zero_num]

theorem magQ_toNat_le (q : ℚ) : (magQ q).toNat ≤ 0x7FF0000000000000 := roundMag_le_inf _ _

theorem magQ_signBit (q : ℚ) : signBit (magQ q) = false := by
  rw [signBit_false_iff]; have := magQ_toNat_le q; omega

theorem magQ_mono (q1 q2 : ℚ) (h : |q1| ≤ |q2|) : (magQ q1).toNat ≤ (magQ q2).toNat := by
  rcases eq_or_lt_of_le (abs_nonneg q1) with h0 | hpos
  · have : q1 = 0 := abs_eq_zero.mp h0.symm
    subst this; rw [magQ_zero]; exact Nat.zero_le _
  · have hn : 0 < q1.num.natAbs := by
      have : q1 ≠ 0 := abs_pos.mp hpos
      exact Int.natAbs_pos.mpr (Rat.num_ne_zero.mpr this)
    unfold magQ
    apply roundMag_mono _ _ _ _ hn q1.den_pos q2.den_pos
    rw [frac_le_iff _ _ _ _ q1.den_pos q2.den_pos, natAbs_div_den, natAbs_div_den]
    exact h

/-! ### `roundQ` -/

/-- `roundRat` as a function of the signed rational value -/
def roundQ (q : ℚ) : Bits := roundRat (decide (q < 0)) q.num.natAbs q.den

theorem or_negZero_eq_neg (m : Bits) (hm : signBit m = false) : m ||| negZero = neg m := by
  have h := (signBit_false_iff m).mp hm
  rw [← UInt64.toNat_inj, or_negZero_toNat m h, neg_toNat, if_pos h]; omega

theorem roundQ_eq (q : ℚ) : roundQ q = if q < 0 then neg (magQ q) else magQ q := by
  unfold roundQ roundRat
  by_cases h : q < 0
  · simp only [h, decide_true, if_true]
    exact or_negZero_eq_neg _ (magQ_signBit q)
  · simp only [h, decide_false, Bool.false_eq_true, if_false]; rfl

theorem roundQ_of_nonneg (q : ℚ) (h : 0 ≤ q) : roundQ q = magQ q := by
  rw [roundQ_eq, if_neg (not_lt.mpr h)]

theorem roundQ_zero : roundQ 0 = posZero := by
  rw [roundQ_of_nonneg 0 le_rfl, magQ_zero]; rfl

theorem roundQ_neg (q : ℚ) (hq : q ≠ 0) : roundQ (-q) = neg (roundQ q) := by
  rw [roundQ_eq, roundQ_eq, magQ_neg]
  rcases lt_or_gt_of_ne hq with h | h
  · have : ¬ (-q < 0) := by linarith
    rw [if_neg this, if_pos h, neg_neg]
  · have h1 : -q < 0 := by linarith
    have h2 : ¬ q < 0 := by linarith
    rw [if_pos h1, if_neg h2]

theorem roundRat_false_eq (n d : Nat) (hd : 0 < d) : roundRat false n d = roundQ ((n : ℚ) / d) := by
  have hq : (0 : ℚ) ≤ (n : ℚ) / d := div_nonneg (Nat.cast_nonneg _) (Nat.cast_nonneg _)
  rw [roundRat_false, roundQ_of_nonneg _ hq]
  exact roundMag_eq_magQ n d hd _ (abs_of_nonneg hq).symm

theorem roundRat_true_eq (n d : Nat) (hn : 0 < n) (hd : 0 < d) :
    roundRat true n d = roundQ (-((n : ℚ) / d)) := by
  have hq : (0 : ℚ) < (n : ℚ) / d := div_pos (by exact_mod_cast hn) (by exact_mod_cast hd)
  rw [roundQ_neg _ hq.ne', ← roundRat_false_eq n d hd, roundRat_false]
  unfold roundRat
  simp only [if_true]
  apply or_negZero_eq_neg
  rw [signBit_false_iff]; have := roundMag_le_inf n d; omega

/-- `roundRat` of any fraction (n > 0) is `roundQ` of its signed value -/
theorem roundRat_eq_roundQ (s : Bool) (n d : Nat) (hn : 0 < n) (hd : 0 < d) :
    roundRat s n d = roundQ (if s then -((n : ℚ) / d) else (n : ℚ) / d) := by
  cases s
  · simp only [Bool.false_eq_true, if_false]; exact roundRat_false_eq n d hd
  · simp only [if_true]; exact roundRat_true_eq n d hn hd

theorem roundQ_isNaN (q : ℚ) : isNaN (roundQ q) = false := by
  rw [isNaN_false_iff, roundQ_eq]
  have := magQ_toNat_le q
  have h2 := toNat_decomp_full (magQ q)
  rw [magQ_signBit] at h2
  split
  · rw [magOf_neg]; simp at h2; omega
  · simp at h2; omega

theorem sval_roundQ (q : ℚ) : sval (roundQ q) = if q < 0 then -val (magQ q) else val (magQ q) := by
  rw [roundQ_eq]
  split
  · rw [sval_neg]; unfold sval; rw [magQ_signBit]; simp
  · unfold sval; rw [magQ_signBit]; simp

/-- **roundQ_mono** — rounding is monotone (in the order of signed values; ±Inf = ±2^1024). -/
theorem roundQ_mono (q1 q2 : ℚ) (h : q1 ≤ q2) : sval (roundQ q1) ≤ sval (roundQ q2) := by
  rw [sval_roundQ, sval_roundQ]
  have v1 := val_nonneg (magQ q1)
  have v2 := val_nonneg (magQ q2)
  have mono : ∀ a b : ℚ, |a| ≤ |b| → val (magQ a) ≤ val (magQ b) := by
    intro a b hab
    rw [val_le_iff]
    have h1 := toNat_decomp_full (magQ a)
    have h2 := toNat_decomp_full (magQ b)
    rw [magQ_signBit] at h1 h2
    have := magQ_mono a b hab
    simp at h1 h2; omega
  by_cases h1 : q1 < 0 <;> by_cases h2 : q2 < 0
  · rw [if_pos h1, if_pos h2]
    have : |q2| ≤ |q1| := by rw [abs_of_neg h1, abs_of_neg h2]; linarith
    have := mono _ _ this; linarith
  · rw [if_pos h1, if_neg h2]; linarith
  · exfalso; linarith
  · rw [if_neg h1, if_neg h2]
    have : |q1| ≤ |q2| := by rw [abs_of_nonneg (not_lt.mp h1), abs_of_nonneg (not_lt.mp h2)]; exact h
    exact mono _ _ this

theorem roundQ_mono_le (q1 q2 : ℚ) (h : q1 ≤ q2) : le (roundQ q1) (roundQ q2) = true := by
  rw [le_iff_sval _ _ (roundQ_isNaN _) (roundQ_isNaN _)]; exact roundQ_mono q1 q2 h

/-! ### decoding the result: value = rne(q·2^s)·2^-s -/

/-- value of the pattern `(1074 − s)·2^52 + R` for R ≤ 2^53 (R ≥ 2^52 unless s = 1074) -/
theorem val_ofNat_bits (s : Int) (R : Nat) (hs : s ≤ 1074) (hR : R ≤ 2 ^ 53)
    (hlo : s < 1074 → 2 ^ 52 ≤ R) (hb : (1074 - s).toNat * 2 ^ 52 + R < 2 ^ 63) :
    val (UInt64.ofNat ((1074 - s).toNat * 2 ^ 52 + R)) = (R : ℚ) * (2 : ℚ) ^ (-s) := by
  generalize hk : (1074 - s).toNat = k at *
  have hs' : s = 1074 - (k : Int) := by omega
  subst hs'
  have hB : (UInt64.ofNat (k * 2 ^ 52 + R)).toNat = k * 2 ^ 52 + R := by
    rw [UInt64.toNat_ofNat']; exact Nat.mod_eq_of_lt (by omega)
  have two_ne : (2 : ℚ) ≠ 0 := by norm_num
  unfold val
  rw [mant_eq, expo_eq, expField_eq, fracField_eq, hB]
  by_cases h1 : R < 2 ^ 52
  · have hk0 : k = 0 := by
      by_contra hne
      have := hlo (by omega); omega
    subst hk0
    have e1 : (0 * 2 ^ 52 + R) / 2 ^ 52 % 2 ^ 11 = 0 := by omega
    have e2 : (0 * 2 ^ 52 + R) % 2 ^ 52 = R := by omega
    rw [e1, e2]; simp
  · by_cases h2 : R = 2 ^ 53
    · subst h2
      have e1 : (k * 2 ^ 52 + 2 ^ 53) / 2 ^ 52 % 2 ^ 11 = k + 2 := by omega
      have e2 : (k * 2 ^ 52 + 2 ^ 53) % 2 ^ 52 = 0 := by omega
      rw [e1, e2]
      have : ¬ (k + 2 = 0) := by omega
      simp only [this, if_false]
      have e3 : (((k + 2 : Nat) : Int) - 1075) = -(1074 - (k : Int)) + 1 := by push_cast; omega
      rw [e3, zpow_add_one₀ two_ne]
      push_cast; ring
    · have e1 : (k * 2 ^ 52 + R) / 2 ^ 52 % 2 ^ 11 = k + 1 := by omega
      have e2 : (k * 2 ^ 52 + R) % 2 ^ 52 = R - 2 ^ 52 := by omega
      rw [e1, e2]
      have : ¬ (k + 1 = 0) := by omega
      simp only [this, if_false]
      have e3 : (((k + 1 : Nat) : Int) - 1075) = -(1074 - (k : Int)) := by push_cast; omega
      have e4 : R - 2 ^ 52 + 2 ^ 52 = R := by omega
      rw [e3, e4]

/-- **val_roundMag** — unless the result overflows, its value is the rounded scaled ratio scaled back. -/
theorem val_roundMag (n d : Nat) (hn : 0 < n) (hd : 0 < d) (hov : magBits n d < 0x7FF0000000000000) :
    val (roundMag n d) =
      (rne (scaled n d (shiftOf n d)).1 (scaled n d (shiftOf n d)).2 : ℚ) * (2 : ℚ) ^ (-shiftOf n d) := by
  obtain ⟨a1, a2, a3⟩ := shiftOf_spec n d hn hd
  rw [roundMag_eq n d hn hd, if_neg (by omega)]
  unfold magBits at hov ⊢
  apply val_ofNat_bits _ _ a1
  · exact rne_le_of_le_mul _ _ _ (scaled_snd_pos n _ hd) (Nat.le_of_lt a2)
  · intro h; exact le_rne_of_mul_le _ _ _ (scaled_snd_pos n _ hd) (a3 h)
  · omega

/-- half-unit error of `rne` over ℚ -/
theorem rne_errQ (n d : Nat) (hd : 0 < d) : |(rne n d : ℚ) - (n : ℚ) / d| ≤ 1 / 2 := by
  have h := rne_half_unit n d hd
  have hdq : (0 : ℚ) < d := by exact_mod_cast hd
  have e : (rne n d : ℚ) - (n : ℚ) / d = (((rne n d : Int) * d - n : Int) : ℚ) / d := by
    push_cast; field_simp
  rw [e, abs_div, abs_of_pos hdq, div_le_iff₀ hdq]
  have : (2 : ℚ) * |((((rne n d : Int) * d - n : Int)) : ℚ)| ≤ d := by
    rw [← Int.cast_abs, ← Nat.cast_natAbs]
    exact_mod_cast h
  linarith

/-- **roundMag_err** — the result is within half a unit in the last place `2^-s` of the input. -/
theorem roundMag_err (n d : Nat) (hn : 0 < n) (hd : 0 < d) (hov : magBits n d < 0x7FF0000000000000) :
    |val (roundMag n d) - (n : ℚ) / d| ≤ (2 : ℚ) ^ (-shiftOf n d) / 2 := by
  rw [val_roundMag n d hn hd hov]
  have hp := two_zpow_pos (-shiftOf n d)
  have two_ne : (2 : ℚ) ≠ 0 := by norm_num
  have hr := scaled_ratio n d (shiftOf n d)
  have e : (n : ℚ) / d = ((scaled n d (shiftOf n d)).1 : ℚ) / (scaled n d (shiftOf n d)).2
      * (2 : ℚ) ^ (-shiftOf n d) := by
    rw [hr, mul_assoc, ← zpow_add₀ two_ne, add_neg_cancel, zpow_zero, _root_.mul_one]
  have h1 := rne_errQ (scaled n d (shiftOf n d)).1 (scaled n d (shiftOf n d)).2 (scaled_snd_pos n _ hd)
  rw [e, ← sub_mul, abs_mul, abs_of_pos hp]
  have := mul_le_mul_of_nonneg_right h1 hp.le
  linarith

/-! ### `rne` of a value within half a unit of an integer -/

theorem rne_eq_of_near (n d M : Nat) (hd : 0 < d)
    (hlo : 2 * (M * d) < 2 * n + d ∨ (2 * (M * d) = 2 * n + d ∧ M % 2 = 0))
    (hhi : 2 * n < 2 * (M * d) + d ∨ (2 * n = 2 * (M * d) + d ∧ M % 2 = 0)) : rne n d = M := by
  rw [rne_def]
  have e1 := Nat.div_add_mod n d
  have m1 := Nat.mod_lt n hd
  by_cases hge : M * d ≤ n
  · have hs : (M + 1) * d = M * d + d := Nat.succ_mul M d
    have hq : n / d = M := by
      apply Nat.div_eq_of_lt_le hge
      rw [hs]; rcases hhi with h | h <;> omega
    have hr : n % d = n - M * d := by
      rw [hq, Nat.mul_comm] at e1; omega
    rw [hq, hr]
    split
    · rename_i h; rcases hhi with h' | h' <;> omega
    · rfl
  · have hM : 0 < M := by
      rcases Nat.eq_zero_or_pos M with h | h
      · subst h; omega
      · exact h
    obtain ⟨K, rfl⟩ : ∃ K, M = K + 1 := ⟨M - 1, by omega⟩
    have hs : (K + 1) * d = K * d + d := Nat.succ_mul K d
    rw [hs] at hge hlo hhi
    have hq : n / d = K := by
      apply Nat.div_eq_of_lt_le
      · rcases hlo with h | h <;> omega
      · rw [hs]; omega
    have hr : n % d = n - K * d := by
      rw [hq, Nat.mul_comm] at e1; omega
    rw [hq, hr]
    split
    · rfl
    · rename_i h; exfalso; apply h
      rcases hlo with h' | h'
      · left; omega
      · right; omega

/-! ### exactness on dyadic values `M·2^e` (M < 2^53, e ≥ −1074, below overflow) -/

theorem bits_of_mant_expo (x : Bits) : (1074 + expo x).toNat * 2 ^ 52 + mant x = magOf x := by
  unfold magOf
  rw [mant_eq, expo_eq]
  by_cases hE : expField x = 0
  · simp [hE]
  · simp only [hE, if_false]
    have : (1074 + ((expField x : Int) - 1075)).toNat = expField x - 1 := by omega
    rw [this]
    obtain ⟨k, hk⟩ : ∃ k, expField x = k + 1 := ⟨expField x - 1, by omega⟩
    rw [hk]; simp only [Nat.add_sub_cancel]; ring

theorem mant_lt (x : Bits) : mant x < 2 ^ 53 := by
  have := fracField_lt x; rw [mant_eq]; split <;> omega
theorem expo_ge (x : Bits) : -1074 ≤ expo x := by
  rw [expo_eq]; split <;> omega
theorem mant_ge_of_expo (x : Bits) (h : -1074 < expo x) : 2 ^ 52 ≤ mant x := by
  rw [expo_eq] at h; rw [mant_eq]
  split
  · rename_i hE; rw [if_pos hE] at h; omega
  · omega

/-- **roundMag_dyadic** — a fraction whose value is `M·2^e` with `M < 2^53`, `e ≥ −1074` and below
2^1024 is rounded without error (and does not overflow). -/
theorem roundMag_dyadic (n d : Nat) (hn : 0 < n) (hd : 0 < d) (M : Nat) (e : Int) (hM : M < 2 ^ 53)
    (he : -1074 ≤ e) (hq : (n : ℚ) / d = (M : ℚ) * (2 : ℚ) ^ e) (hov : (n : ℚ) / d < (2 : ℚ) ^ (1024 : Int)) :
    val (roundMag n d) = (n : ℚ) / d ∧ (roundMag n d).toNat < 0x7FF0000000000000 := by
  obtain ⟨a1, a2, a3⟩ := shiftOf_specQ n d hn hd
  have two_ne : (2 : ℚ) ≠ 0 := by norm_num
  generalize hs : shiftOf n d = s at a1 a2 a3
  have hMq : (M : ℚ) < 2 ^ 53 := by exact_mod_cast hM
  have hr : (n : ℚ) / d * (2 : ℚ) ^ s = (M : ℚ) * (2 : ℚ) ^ (e + s) := by
    rw [hq, mul_assoc, ← zpow_add₀ two_ne]
  have hes : 0 ≤ e + s := by
    by_contra hneg
    have hs' : s < 1074 := by omega
    have h1 := a3 hs'
    have h2 : (2 : ℚ) ^ (e + s) ≤ (2 : ℚ) ^ (-1 : Int) := zpow_le_zpow_right₀ (by norm_num) (by omega)
    have h3 : (2 : ℚ) ^ (-1 : Int) = 1 / 2 := by norm_num
    rw [hr] at h1
    have hM0 : (0 : ℚ) ≤ M := Nat.cast_nonneg _
    have := mul_le_mul_of_nonneg_left h2 hM0
    rw [h3] at this
    have e52 : (2 : ℚ) ^ 53 = 2 * 2 ^ 52 := by norm_num
    linarith
  obtain ⟨t, ht⟩ := Int.eq_ofNat_of_zero_le hes
  have hR : (((M * 2 ^ t : Nat) : ℕ) : ℚ) = (n : ℚ) / d * (2 : ℚ) ^ s := by
    rw [hr, ht, zpow_natCast]; push_cast; rfl
  have hds := scaled_snd_pos n s hd
  have hdsq : (0 : ℚ) < ((scaled n d s).2 : ℚ) := by exact_mod_cast hds
  have hsc : (scaled n d s).1 = (M * 2 ^ t) * (scaled n d s).2 := by
    have := scaled_ratio n d s
    rw [← hR, div_eq_iff hdsq.ne'] at this
    exact_mod_cast this
  have hrne : rne (scaled n d s).1 (scaled n d s).2 = M * 2 ^ t := by
    rw [hsc, rne_exact _ _ hds]
  have hRlt : M * 2 ^ t < 2 ^ 53 := by
    have : (((M * 2 ^ t : Nat) : ℕ) : ℚ) < ((2 ^ 53 : Nat) : ℚ) := by rw [hR]; exact_mod_cast a2
    exact_mod_cast this
  have hmb : magBits n d = (1074 - s).toNat * 2 ^ 52 + M * 2 ^ t := by
    unfold magBits; rw [hs, hrne]
  have hnov : magBits n d < 0x7FF0000000000000 := by
    rw [hmb]
    by_cases hlow : M * 2 ^ t < 2 ^ 52
    · have : ¬ s < 1074 := by
        intro h'
        have h1 := a3 h'
        rw [← hR] at h1
        have : ((2 ^ 52 : Nat) : ℚ) ≤ ((M * 2 ^ t : Nat) : ℚ) := by exact_mod_cast h1
        have : 2 ^ 52 ≤ M * 2 ^ t := by exact_mod_cast this
        omega
      have : (1074 - s).toNat = 0 := by omega
      rw [this]; omega
    · have h52 : (2 : ℚ) ^ (52 : Int) ≤ (n : ℚ) / d * (2 : ℚ) ^ s := by
        rw [← hR]
        have : 2 ^ 52 ≤ M * 2 ^ t := by omega
        have : ((2 ^ 52 : Nat) : ℚ) ≤ ((M * 2 ^ t : Nat) : ℚ) := by exact_mod_cast this
        have e' : (2 : ℚ) ^ (52 : Int) = ((2 ^ 52 : Nat) : ℚ) := by norm_num
        rw [e']; exact this
      have h1024 : (n : ℚ) / d * (2 : ℚ) ^ s < (2 : ℚ) ^ (1024 + s) := by
        rw [zpow_add₀ two_ne]
        exact mul_lt_mul_of_pos_right hov (two_zpow_pos _)
      have hlt : (2 : ℚ) ^ (52 : Int) < (2 : ℚ) ^ (1024 + s) := lt_of_le_of_lt h52 h1024
      have : (52 : Int) < 1024 + s := (zpow_lt_zpow_iff_right₀ (by norm_num : (1 : ℚ) < 2)).mp hlt
      have hk : (1074 - s).toNat ≤ 2045 := by omega
      have := Nat.mul_le_mul_right (2 ^ 52) hk
      omega
  constructor
  · rw [val_roundMag n d hn hd hnov, hs, hrne, hR, mul_assoc, ← zpow_add₀ two_ne, add_neg_cancel,
      zpow_zero, _root_.mul_one]
  · rw [roundMag_toNat n d hn hd]; exact lt_of_le_of_lt (Nat.min_le_left _ _) hnov

/-! ### the rounding interval of a finite positive float -/

/-- half of the gap to the predecessor, in units of `2^expo x`: ¼ at a normal power of two
(where the binade below has half the spacing), ½ elsewhere -/
def lowGap (x : Bits) : ℚ := if mant x = 2 ^ 52 ∧ -1074 < expo x then 1 / 4 else 1 / 2

/-- `q` lies in the rounding interval of x: strictly between the midpoints to the neighbours, the
midpoints themselves included exactly when the mantissa of x is even (round-half-even). -/
def InRound (x : Bits) (q : ℚ) : Prop :=
  ((mant x : ℚ) - lowGap x < q * (2 : ℚ) ^ (-expo x) ∨
      ((mant x : ℚ) - lowGap x = q * (2 : ℚ) ^ (-expo x) ∧ mant x % 2 = 0)) ∧
  (q * (2 : ℚ) ^ (-expo x) < (mant x : ℚ) + 1 / 2 ∨
      (q * (2 : ℚ) ^ (-expo x) = (mant x : ℚ) + 1 / 2 ∧ mant x % 2 = 0))

theorem near_lo_lt (n d M : Nat) (hd : 0 < d) :
    2 * (M * d) < 2 * n + d ↔ (M : ℚ) - 1 / 2 < (n : ℚ) / d := by
  have hdq : (0 : ℚ) < d := by exact_mod_cast hd
  rw [lt_div_iff₀ hdq]
  constructor
  · intro h
    have : ((2 * (M * d) : Nat) : ℚ) < ((2 * n + d : Nat) : ℚ) := by exact_mod_cast h
    push_cast at this; linarith
  · intro h
    have : ((2 * (M * d) : Nat) : ℚ) < ((2 * n + d : Nat) : ℚ) := by push_cast; linarith
    exact_mod_cast this

theorem near_lo_eq (n d M : Nat) (hd : 0 < d) :
    2 * (M * d) = 2 * n + d ↔ (M : ℚ) - 1 / 2 = (n : ℚ) / d := by
  have hdq : (0 : ℚ) < d := by exact_mod_cast hd
  rw [eq_div_iff hdq.ne']
  constructor
  · intro h
    have : ((2 * (M * d) : Nat) : ℚ) = ((2 * n + d : Nat) : ℚ) := by exact_mod_cast h
    push_cast at this; linarith
  · intro h
    have : ((2 * (M * d) : Nat) : ℚ) = ((2 * n + d : Nat) : ℚ) := by push_cast; linarith
    exact_mod_cast this

theorem near_hi_lt (n d M : Nat) (hd : 0 < d) :
    2 * n < 2 * (M * d) + d ↔ (n : ℚ) / d < (M : ℚ) + 1 / 2 := by
  have hdq : (0 : ℚ) < d := by exact_mod_cast hd
  rw [div_lt_iff₀ hdq]
  constructor
  · intro h
    have : ((2 * n : Nat) : ℚ) < ((2 * (M * d) + d : Nat) : ℚ) := by exact_mod_cast h
    push_cast at this; linarith
  · intro h
    have : ((2 * n : Nat) : ℚ) < ((2 * (M * d) + d : Nat) : ℚ) := by push_cast; linarith
    exact_mod_cast this

theorem near_hi_eq (n d M : Nat) (hd : 0 < d) :
    2 * n = 2 * (M * d) + d ↔ (n : ℚ) / d = (M : ℚ) + 1 / 2 := by
  have hdq : (0 : ℚ) < d := by exact_mod_cast hd
  rw [div_eq_iff hdq.ne']
  constructor
  · intro h
    have : ((2 * n : Nat) : ℚ) = ((2 * (M * d) + d : Nat) : ℚ) := by exact_mod_cast h
    push_cast at this; linarith
  · intro h
    have : ((2 * n : Nat) : ℚ) = ((2 * (M * d) + d : Nat) : ℚ) := by push_cast; linarith
    exact_mod_cast this

/-- `rne` over ℚ: a ratio within half a unit of the integer M (ties allowed for even M) rounds to M -/
theorem rne_eq_of_nearQ (n d M : Nat) (hd : 0 < d)
    (hlo : (M : ℚ) - 1 / 2 < (n : ℚ) / d ∨ ((M : ℚ) - 1 / 2 = (n : ℚ) / d ∧ M % 2 = 0))
    (hhi : (n : ℚ) / d < (M : ℚ) + 1 / 2 ∨ ((n : ℚ) / d = (M : ℚ) + 1 / 2 ∧ M % 2 = 0)) :
    rne n d = M := by
  apply rne_eq_of_near n d M hd
  · rw [near_lo_lt n d M hd, near_lo_eq n d M hd]; exact hlo
  · rw [near_hi_lt n d M hd, near_hi_eq n d M hd]; exact hhi

/-- **roundMag_of_inRound** — every fraction in the rounding interval of the finite positive float x
rounds to x. -/
theorem roundMag_of_inRound (x : Bits) (hx : PosFin x) (n d : Nat) (hd : 0 < d)
    (h : InRound x ((n : ℚ) / d)) : roundMag n d = x := by
  obtain ⟨hlo, hhi⟩ := h
  have two_ne : (2 : ℚ) ≠ 0 := by norm_num
  have hM := mant_lt x
  have hMpos := hx.mant_pos
  have hMq : (mant x : ℚ) ≤ 2 ^ 53 - 1 := by
    have : mant x + 1 ≤ 2 ^ 53 := hM
    have : ((mant x + 1 : Nat) : ℚ) ≤ ((2 ^ 53 : Nat) : ℚ) := by exact_mod_cast this
    push_cast at this; linarith
  have hM1 : (1 : ℚ) ≤ mant x := by exact_mod_cast hMpos
  have he := expo_ge x
  have hgap : lowGap x ≤ 1 / 2 ∧ 0 < lowGap x := by
    unfold lowGap; split <;> norm_num
  generalize hr : (n : ℚ) / d * (2 : ℚ) ^ (-expo x) = r at hlo hhi
  have hrlo : (mant x : ℚ) - lowGap x ≤ r := by rcases hlo with h | h; exact h.le; exact h.1.le
  have hrhi : r ≤ (mant x : ℚ) + 1 / 2 := by rcases hhi with h | h; exact h.le; exact h.1.le
  have hrpos : 0 < r := by linarith [hgap.1]
  have hdq : (0 : ℚ) < d := by exact_mod_cast hd
  have hn : 0 < n := by
    rcases Nat.eq_zero_or_pos n with h0 | h0
    · subst h0; simp at hr; linarith
    · exact h0
  have hxbits : x.toNat = (1074 + expo x).toNat * 2 ^ 52 + mant x := by
    rw [bits_of_mant_expo, magOf_posFin hx]
  have finish : magBits n d = x.toNat → roundMag n d = x := by
    intro hmb
    rw [roundMag_eq n d hn hd, hmb, if_neg (by have := hx.2; omega), UInt64.ofNat_toNat]
  by_cases hcase : r < 2 ^ 52 ∧ -1074 < expo x
  · -- x is a normal power of two and q lies in the binade below: shift −e+1, rne = 2^53
    obtain ⟨hr52, hnorm⟩ := hcase
    have hM52 := mant_ge_of_expo x hnorm
    have hMeq : mant x = 2 ^ 52 := by
      have : (mant x : ℚ) < 2 ^ 52 + 1 := by linarith [hgap.1]
      have : ((mant x : Nat) : ℚ) < ((2 ^ 52 + 1 : Nat) : ℚ) := by push_cast; linarith
      have : mant x < 2 ^ 52 + 1 := by exact_mod_cast this
      omega
    have hg : lowGap x = 1 / 4 := by unfold lowGap; rw [if_pos ⟨hMeq, hnorm⟩]
    have hMq' : (mant x : ℚ) = 2 ^ 52 := by rw [hMeq]; norm_num
    rw [hg, hMq'] at hrlo
    have hr2 : (n : ℚ) / d * (2 : ℚ) ^ (-expo x + 1) = 2 * r := by
      rw [ratio_succ, hr]
    have hs : shiftOf n d = -expo x + 1 := by
      apply shiftOf_uniqueQ n d hn hd
      · omega
      · rw [hr2]; linarith
      · intro _; rw [hr2]; linarith
    have hds := scaled_snd_pos n (-expo x + 1) hd
    have hratio := scaled_ratio n d (-expo x + 1)
    rw [hr2] at hratio
    have hrne : rne (scaled n d (-expo x + 1)).1 (scaled n d (-expo x + 1)).2 = 2 ^ 53 := by
      apply rne_eq_of_nearQ _ _ _ hds
      · rw [hratio]
        rcases lt_or_eq_of_le hrlo with h | h
        · left; push_cast; linarith
        · right; constructor
          · push_cast; linarith
          · decide
      · left; rw [hratio]; push_cast; linarith
    apply finish
    unfold magBits
    rw [hs, hrne, hxbits, hMeq]
    have : (1074 - (-expo x + 1)).toNat + 1 = (1074 + expo x).toNat := by omega
    rw [← this]; ring
  · -- the regular case: shift −e, rne = mant x
    have hcase' : 2 ^ 52 ≤ r ∨ expo x = -1074 := by
      by_cases h1 : r < 2 ^ 52
      · right; have : ¬ -1074 < expo x := fun h2 => hcase ⟨h1, h2⟩; omega
      · left; exact not_lt.mp h1
    have hs : shiftOf n d = -expo x := by
      apply shiftOf_uniqueQ n d hn hd
      · omega
      · rw [hr]; linarith
      · intro hlt; rw [hr]
        rcases hcase' with h1 | h1
        · exact h1
        · omega
    have hds := scaled_snd_pos n (-expo x) hd
    have hratio := scaled_ratio n d (-expo x)
    rw [hr] at hratio
    have hrne : rne (scaled n d (-expo x)).1 (scaled n d (-expo x)).2 = mant x := by
      apply rne_eq_of_nearQ _ _ _ hds
      · rw [hratio]
        rcases hlo with h | h
        · left; linarith [hgap.1]
        · by_cases hg : lowGap x = 1 / 2
          · right; rw [hg] at h; exact h
          · left
            have : lowGap x = 1 / 4 := by
              unfold lowGap at hg ⊢; split
              · rfl
              · rename_i hn'; rw [if_neg hn'] at hg; exact absurd rfl hg
            rw [this] at h; linarith [h.1]
      · rw [hratio]; exact hhi
    apply finish
    unfold magBits
    rw [hs, hrne, hxbits]
    have : (1074 - -expo x).toNat = (1074 + expo x).toNat := by omega
    rw [this]

/-! ### `roundQ` corollaries -/

theorem inRound_pos (x : Bits) (hx : PosFin x) (q : ℚ) (h : InRound x q) : 0 < q := by
  obtain ⟨hlo, _⟩ := h
  have hM1 : (1 : ℚ) ≤ mant x := by exact_mod_cast hx.mant_pos
  have hgap : lowGap x ≤ 1 / 2 := by unfold lowGap; split <;> norm_num
  have hp := two_zpow_pos (-expo x)
  have : 0 < q * (2 : ℚ) ^ (-expo x) := by
    rcases hlo with h | h
    · linarith
    · linarith [h.1]
  exact (pos_iff_pos_of_mul_pos this).mpr hp

/-- every rational in the rounding interval of x rounds to x -/
theorem roundQ_of_inRound (x : Bits) (hx : PosFin x) (q : ℚ) (h : InRound x q) : roundQ q = x := by
  have hq := inRound_pos x hx q h
  rw [roundQ_of_nonneg q hq.le]
  unfold magQ
  apply roundMag_of_inRound x hx _ _ q.den_pos
  rw [natAbs_div_den, abs_of_pos hq]; exact h

theorem roundQ_neg_of_inRound (x : Bits) (hx : PosFin x) (q : ℚ) (h : InRound x q) :
    roundQ (-q) = neg x := by
  rw [roundQ_neg q (inRound_pos x hx q h).ne', roundQ_of_inRound x hx q h]

/-- the exact value of x lies in its own rounding interval -/
theorem inRound_self (x : Bits) (_hx : PosFin x) : InRound x (val x) := by
  have two_ne : (2 : ℚ) ≠ 0 := by norm_num
  have e : val x * (2 : ℚ) ^ (-expo x) = mant x := by
    unfold val; rw [mul_assoc, ← zpow_add₀ two_ne, add_neg_cancel, zpow_zero, _root_.mul_one]
  have hgap : 0 < lowGap x := by unfold lowGap; split <;> norm_num
  unfold InRound
  rw [e]
  exact ⟨Or.inl (by linarith), Or.inl (by linarith)⟩

/-- **roundQ_exact** — rounding the signed value of a finite non-zero float returns that float. -/
theorem roundQ_exact (x : Bits) (hf : isFinite x = true) (hz : isZero x = false) :
    roundQ (sval x) = x := by
  have hp := posFin_abs x hf hz
  have h1 := roundQ_of_inRound (abs x) hp _ (inRound_self (abs x) hp)
  rw [val_abs] at h1
  unfold sval
  cases hs : signBit x
  · simp only [Bool.false_eq_true, if_false]
    rw [h1, abs_of_signBit_false x hs]
  · simp only [if_true]
    have hv : val x ≠ 0 := by
      rw [Ne, val_eq_zero_iff, ← isZero_iff, hz]; simp
    rw [roundQ_neg _ hv, h1, neg_abs_of_signBit_true x hs]

theorem isFinite_of_toNat_lt (b : Bits) (h : b.toNat < 0x7FF0000000000000) : isFinite b = true := by
  rw [isFinite_iff]
  have := toNat_decomp_full b
  have hs : signBit b = false := by rw [signBit_false_iff]; omega
  rw [hs] at this; simp at this; omega

/-- **roundQ_dyadic** — a rational `±M·2^e` with `M < 2^53`, `e ≥ −1074`, magnitude below 2^1024 is
rounded without error, to a finite float. -/
theorem roundQ_dyadic (q : ℚ) (M : Nat) (e : Int) (hM : M < 2 ^ 53) (he : -1074 ≤ e)
    (hq : |q| = (M : ℚ) * (2 : ℚ) ^ e) (hov : |q| < (2 : ℚ) ^ (1024 : Int)) :
    sval (roundQ q) = q ∧ isFinite (roundQ q) = true := by
  rcases eq_or_ne q 0 with h0 | h0
  · subst h0; rw [roundQ_zero]; exact ⟨by decide +kernel, by decide⟩
  have hn : 0 < q.num.natAbs := Int.natAbs_pos.mpr (Rat.num_ne_zero.mpr h0)
  have hd := natAbs_div_den q
  obtain ⟨h1, h2⟩ := roundMag_dyadic _ _ hn q.den_pos M e hM he (by rw [hd]; exact hq) (by rw [hd]; exact hov)
  rw [hd] at h1
  have hfin : isFinite (magQ q) = true := isFinite_of_toNat_lt _ h2
  constructor
  · rw [sval_roundQ]
    unfold magQ; rw [h1]
    split
    · rename_i h; rw [abs_of_neg h]; ring
    · rename_i h; rw [abs_of_nonneg (not_lt.mp h)]
  · rw [roundQ_eq]; split
    · rw [isFinite_neg]; exact hfin
    · exact hfin

end F64
