/-
An accepted text always converts: C07's `accepted_tree_wellformed` (no nil node, every NOT has one
operand) is exactly what `toTree` needs, so `filterOfText` never answers `badTree`.
-/
import Proofs.C07
import Model.Proc.FilterText

namespace C06
open Proc.Tok Proc.ParseFilter Proc.FilterText
open Proc.FilterEval (walk walkList ReOracle)

theorem toTrees_of_all (es : List Filter) (h : ∀ x, x ∈ es → ∃ t', toTree x = some t') :
    ∃ ts', toTrees es = some ts' ∧ ts'.length = es.length := by
  induction es with
  | nil => exact ⟨[], by simp [toTrees], rfl⟩
  | cons e r ih =>
    obtain ⟨t', ht⟩ := h e (by simp)
    obtain ⟨ts', hts, hl⟩ := ih (fun x hx => h x (by simp [hx]))
    exact ⟨t' :: ts', by simp [toTrees, ht, hts], by simp [hl]⟩

theorem toTree_of_WF {t : Filter} (h : C07.WF t) : ∃ t', toTree t = some t' := by
  induction h with
  | lit k v off => exact ⟨.mtch k off.toNat (.lit v), by simp [toTree]⟩
  | re k v off => exact ⟨.mtch k off.toNat (.re (reId v)), by simp [toTree]⟩
  | op o es _ hnot ih =>
    obtain ⟨ts', hts, hl⟩ := toTrees_of_all es ih
    cases o with
    | and => exact ⟨.and ts', by simp [toTree, hts]⟩
    | or => exact ⟨.or ts', by simp [toTree, hts]⟩
    | not =>
      have h1 : es.length = 1 := hnot rfl
      match ts', hl with
      | [e], _ => exact ⟨.not e, by simp [toTree, hts]⟩
      | [], hl => rw [h1] at hl; simp at hl
      | _ :: _ :: _, hl => rw [h1] at hl; simp at hl

/-- whenever `parse.ParseFilter` (model) accepts a text, the text has a tree in the evaluator's
vocabulary: `filterOfText` fails only with the parser's own syntax error -/
theorem filterOfText_of_accepted (cx : Ctx) (q : Bytes) (t : Filter) (h : parseFilter cx q = .ok t) :
    ∃ t', filterOfText cx q = .ok t' ∧ toTree t = some t' := by
  obtain ⟨t', ht⟩ := toTree_of_WF (C07.accepted_tree_wellformed cx q t h)
  exact ⟨t', by unfold filterOfText; rw [h]; simp only [ht], ht⟩

def isOk {ε α : Type} : Except ε α → Bool
  | .ok _ => true
  | .error _ => false

theorem kUnit_eq : Proc.Extract.dotUnit = kUnit := by decide +kernel
theorem kConfig_eq : Proc.Extract.dotConfig = kConfig := by decide +kernel

theorem walk_leaf_ok (re : ReOracle) (key : Bytes) (off : Nat) (offI : Int) (m : Proc.FilterEval.Matcher) :
    isOk (walk re (.mtch key off m)) = (checkFilter.checkKey key offI).isNone := by
  unfold walk checkFilter.checkKey
  rw [kUnit_eq, kConfig_eq]
  by_cases h1 : key == kUnit
  · simp [h1, isOk]
  · by_cases h2 : key == kConfig
    · simp [h1, h2, isOk]
    · by_cases h3 : key.isEmpty <;> simp [h1, h2, h3, isOk]

mutual
/-- NewFilter's own rejections: the evaluator model's `walk` and C07's `checkFilter` agree -/
theorem walk_ok_iff (re : ReOracle) : ∀ (t : Filter) (t' : Proc.FilterEval.Filter), toTree t = some t' →
    isOk (walk re t') = (checkFilter t).isNone
  | .nil, t', h => by simp [toTree] at h
  | .lit key val off, t', h => by
    simp [toTree] at h; subst h
    rw [checkFilter]; exact walk_leaf_ok re key _ off _
  | .re key ex off, t', h => by
    simp [toTree] at h; subst h
    rw [checkFilter]; exact walk_leaf_ok re key _ off _
  | .op .and es, t', h => by
    rw [toTree] at h
    cases hts : toTrees es with
    | none => simp [hts] at h
    | some ts' =>
      simp [hts] at h; subst h
      have := walkList_ok_iff re es ts' hts
      rw [checkFilter, ← this]
      unfold walk; cases walkList re ts' <;> rfl
  | .op .or es, t', h => by
    rw [toTree] at h
    cases hts : toTrees es with
    | none => simp [hts] at h
    | some ts' =>
      simp [hts] at h; subst h
      have := walkList_ok_iff re es ts' hts
      rw [checkFilter, ← this]
      unfold walk; cases walkList re ts' <;> rfl
  | .op .not es, t', h => by
    rw [toTree] at h
    cases hts : toTrees es with
    | none => simp [hts] at h
    | some ts' =>
      match ts', hts with
      | [e'], hts =>
        simp [hts] at h; subst h
        have := walkList_ok_iff re es [e'] hts
        rw [checkFilter, ← this]
        unfold walk walkList walkList
        cases walk re e' <;> rfl
      | [], hts => simp [hts] at h
      | _ :: _ :: _, hts => simp [hts] at h
theorem walkList_ok_iff (re : ReOracle) : ∀ (ts : List Filter) (ts' : List Proc.FilterEval.Filter),
    toTrees ts = some ts' → isOk (walkList re ts') = (checkFilter.checkList ts).isNone
  | [], ts', h => by
    simp [toTrees] at h; subst h
    simp [walkList, checkFilter.checkList, isOk]
  | t :: r, ts', h => by
    rw [toTrees] at h
    cases ht : toTree t with
    | none => simp [ht] at h
    | some t' =>
      cases hr : toTrees r with
      | none => simp [ht, hr] at h
      | some r' =>
        simp [ht, hr] at h; subst h
        have h1 := walk_ok_iff re t t' ht
        have h2 := walkList_ok_iff re r r' hr
        rw [checkFilter.checkList]
        unfold walkList
        cases hw : walk re t' with
        | error e =>
          rw [hw] at h1
          cases hc : checkFilter t with
          | none => rw [hc] at h1; simp [isOk] at h1
          | some x => simp [isOk]
        | ok f =>
          rw [hw] at h1
          cases hc : checkFilter t with
          | some x => rw [hc] at h1; simp [isOk] at h1
          | none =>
            simp only
            rw [← h2]
            cases walkList re r' <;> rfl
end

/-- **newFilterText_accepts_iff**: the composed model accepts a text exactly when C07's model of
`benchproc.NewFilter` does -/
theorem newFilterText_accepts_iff (cx : Ctx) (re : ReOracle) (q : Bytes) :
    isOk (newFilterText cx re q) = isOk (newFilter cx q) := by
  cases hp : parseFilter cx q with
  | error e =>
    have h1 : filterOfText cx q = .error (.syntax e) := by unfold filterOfText; rw [hp]
    unfold newFilterText newFilter
    rw [h1, hp]; rfl
  | ok t =>
    obtain ⟨t', ht', htt⟩ := filterOfText_of_accepted cx q t hp
    have := walk_ok_iff re t t' htt
    unfold newFilterText newFilter
    rw [ht', hp]
    cases hw : walk re t' with
    | error e =>
      rw [hw] at this
      cases hc : checkFilter t with
      | none => rw [hc] at this; simp [isOk] at this
      | some x => simp only [hw, hc]; rfl
    | ok f =>
      rw [hw] at this
      cases hc : checkFilter t with
      | some x => rw [hc] at this; simp [isOk] at this
      | none => simp only [hw, hc]; rfl

end C06
