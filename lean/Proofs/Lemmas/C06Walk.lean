/-
NewFilter's walk: every compiled tree denotes ⟦e⟧ (mutual induction over trees and child lists).
-/
import Proofs.Lemmas.C06Eval

namespace C06
open Proc.FilterEval Spec.FilterSem Proc.Extract

theorem keyFn_test (re : ReOracle) (key : Bytes) (off : Nat) (mt : Matcher) (res : Res) (i : Nat)
    (hi : i < res.values.length) (hk : (key == dotUnit) = false) :
    outTest res.values.length (keyFn re key mt res) i = denote re res i (.mtch key off mt) := by
  have hne : key ≠ dotUnit := by simpa using hk
  simp [keyFn, outTest_none _ _ _ hi, denote, termHolds, hne, holds_eq_valueHolds]

mutual
theorem walk_sound (re : ReOracle) (res : Res) : ∀ (e : Filter) (f : FilterFn), walk re e = .ok f →
    OutWF res.values.length (f res) ∧
    ∀ i, i < res.values.length → outTest res.values.length (f res) i = denote re res i e
  | .and es, f, h => by
    unfold walk at h
    split at h
    · rename_i subs hw
      cases h
      obtain ⟨w, t⟩ := walkList_sound re res es subs hw
      obtain ⟨w2, t2⟩ := andFn_spec res res.values.length subs w
      exact ⟨w2, fun i hi => by rw [t2 i hi, (t i hi).1, denote]⟩
    · cases h
  | .or es, f, h => by
    unfold walk at h
    split at h
    · rename_i subs hw
      cases h
      obtain ⟨w, t⟩ := walkList_sound re res es subs hw
      obtain ⟨w2, t2⟩ := orFn_spec res res.values.length subs w
      exact ⟨w2, fun i hi => by rw [t2 i hi, (t i hi).2, denote]⟩
    · cases h
  | .not e, f, h => by
    unfold walk at h
    split at h
    · rename_i sub hw
      cases h
      obtain ⟨w, t⟩ := walk_sound re res e sub hw
      exact ⟨notFn_wf _ sub res w, fun i hi => by rw [notFn_test _ sub res w i hi, t i hi, denote]⟩
    · cases h
  | .mtch key off mt, f, h => by
    unfold walk at h
    split at h
    · rename_i hu
      cases h
      have hu' : key = dotUnit := by simpa using hu
      subst hu'
      exact ⟨unitFn_wf re mt res, fun i hi => by rw [unitFn_test re mt res i hi, denote]⟩
    · rename_i hu
      split at h
      · cases h
      · split at h
        · cases h
        · cases h
          refine ⟨fun m hm => by simp [keyFn] at hm, fun i hi => ?_⟩
          exact keyFn_test re key off mt res i hi (by simpa using hu)
theorem walkList_sound (re : ReOracle) (res : Res) : ∀ (es : List Filter) (fs : List FilterFn),
    walkList re es = .ok fs →
    (∀ f, f ∈ fs → OutWF res.values.length (f res)) ∧
    ∀ i, i < res.values.length →
      (fs.all (fun f => outTest res.values.length (f res) i) = denoteAll re res i es ∧
       fs.any (fun f => outTest res.values.length (f res) i) = denoteAny re res i es)
  | [], fs, h => by
    unfold walkList at h
    cases h
    exact ⟨fun f hf => by simp at hf, fun i hi => by simp [denoteAll, denoteAny]⟩
  | e :: es, fs, h => by
    unfold walkList at h
    split at h
    · cases h
    · rename_i f hf
      split at h
      · cases h
      · rename_i fs' hfs
        cases h
        obtain ⟨w1, t1⟩ := walk_sound re res e f hf
        obtain ⟨w2, t2⟩ := walkList_sound re res es fs' hfs
        refine ⟨?_, fun i hi => ?_⟩
        · intro g hg
          rcases List.mem_cons.mp hg with rfl | hg
          · exact w1
          · exact w2 g hg
        · simp [denoteAll, denoteAny, t1 i hi, (t2 i hi).1, (t2 i hi).2]
end

end C06
