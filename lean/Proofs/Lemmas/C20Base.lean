/-
C20 helper lemmas: store steps, transaction bookkeeping, indexFile / runParts shape.
-/
import Model.Storage.Upload

namespace C20
open Storage.Upload

/-! ### store -/

theorem mem_remove {s : Store} {p : Path} {e : Path × Bytes} :
    e ∈ s.remove p ↔ e ∈ s ∧ e.1 ≠ p := by
  simp [Store.remove, List.mem_filter]

theorem mem_put {s : Store} {p : Path} {c : Bytes} {e : Path × Bytes} :
    e ∈ s.put p c ↔ (e ∈ s ∧ e.1 ≠ p) ∨ e = (p, c) := by
  simp [Store.put, mem_remove]

theorem not_mem_paths_remove (s : Store) (p : Path) : p ∉ (s.remove p).map Prod.fst := by
  intro h
  obtain ⟨e, he, rfl⟩ := List.mem_map.mp h
  exact (mem_remove.mp he).2 rfl

/-- everything new in `b` belongs to upload `k`; everything of other uploads in `a` is still in `b` -/
def FsStep (k : UKey) (a b : Store) : Prop :=
  (∀ e ∈ b, e ∈ a ∨ e.1.up = k) ∧ (∀ e ∈ a, e.1.up ≠ k → e ∈ b)

theorem FsStep.refl (k : UKey) (a : Store) : FsStep k a a :=
  ⟨fun _ h => Or.inl h, fun _ h _ => h⟩

theorem FsStep.trans {k : UKey} {a b c : Store} (h1 : FsStep k a b) (h2 : FsStep k b c) : FsStep k a c := by
  refine ⟨fun e he => ?_, fun e he hk => h2.2 e (h1.2 e he hk) hk⟩
  rcases h2.1 e he with h | h
  · exact h1.1 e h
  · exact Or.inr h

theorem FsStep.remove {k : UKey} (a : Store) (p : Path) (hp : p.up = k) : FsStep k a (a.remove p) := by
  refine ⟨fun e he => Or.inl (mem_remove.mp he).1, fun e he hk => mem_remove.mpr ⟨he, ?_⟩⟩
  intro h; exact hk (h ▸ hp)

theorem FsStep.put {k : UKey} (a : Store) (p : Path) (c : Bytes) (hp : p.up = k) : FsStep k a (a.put p c) := by
  refine ⟨fun e he => ?_, fun e he hk => mem_put.mpr (Or.inl ⟨he, ?_⟩)⟩
  · rcases mem_put.mp he with h | h
    · exact Or.inl h.1
    · exact Or.inr (by rw [h]; exact hp)
  · intro h; exact hk (h ▸ hp)

/-! ### the record transaction keeps its id -/

theorem flush_id {t t' : Tx} (h : t.flush = some t') : t'.id = t.id := by
  unfold Tx.flush at h
  split at h
  · simp at h
  · simp at h; rw [← h]

theorem insertLabel_id {t t' : Tx} {k : Bytes} (h : t.insertLabel k = some t') : t'.id = t.id := by
  unfold Tx.insertLabel at h
  split at h
  · simp [Option.map_eq_some_iff] at h
    obtain ⟨a, ha, rfl⟩ := h
    simpa using flush_id ha
  · simp at h; rw [← h]

theorem insertLabels_id {t t' : Tx} {ks : List Bytes} (h : t.insertLabels ks = some t') : t'.id = t.id := by
  induction ks generalizing t with
  | nil => simp [Tx.insertLabels] at h; rw [← h]
  | cons k ks ih =>
    simp only [Tx.insertLabels] at h
    split at h
    · simp at h
    · rename_i t1 h1
      rw [ih h, insertLabel_id h1]

theorem insertRecordNew_id {t t' : Tx} {r : Res} (h : t.insertRecordNew r = some t') : t'.id = t.id := by
  unfold Tx.insertRecordNew at h
  simp only at h
  split at h
  · simp at h
  · rename_i t2 h2
    simp at h; rw [← h]; simpa using insertLabels_id h2

theorem insertRecord_id {t t' : Tx} {r : Res} (h : t.insertRecord r = some t') : t'.id = t.id := by
  unfold Tx.insertRecord at h
  split at h
  · split at h
    · simp at h; rw [← h]
    · exact insertRecordNew_id h
  · exact insertRecordNew_id h

theorem insertRecords_id {t t' : Tx} {rs : List Res} (h : t.insertRecords rs = some t') : t'.id = t.id := by
  induction rs generalizing t with
  | nil => simp [Tx.insertRecords] at h; rw [← h]
  | cons r rs ih =>
    simp only [Tx.insertRecords] at h
    split at h
    · simp at h
    · rename_i t1 h1
      rw [ih h, insertRecord_id h1]

/-- what one `indexFile` call can do to the state -/
structure FileStep (t : Tx) (r r2 : Run) (t2 : Tx) (e : Option Err) : Prop where
  id : t2.id = t.id
  uploads : r2.uploads = r.uploads
  tx : r2.tx = r.tx
  fileids : r2.fileids = r.fileids
  fs : FsStep t.id r.fs r2.fs
  inprog_ok : e = none → r2.inprog = r.inprog
  inprog_err : ∀ p, r.inprog = none → r2.inprog = some p → e ≠ none ∧ p ∉ r2.fs.map Prod.fst

theorem indexFile_step (env : Env) (f : Option Fault) (r : Run) (t : Tx) (x : FileIn) :
    FileStep t r (indexFile env f r t x).1 (indexFile env f r t x).2.1 (indexFile env f r t x).2.2 := by
  unfold indexFile
  simp only
  split
  · exact ⟨rfl, rfl, rfl, rfl, FsStep.refl _ _, by simp, by intro p h1 h2; simp [h1] at h2⟩
  · have hfail : ∀ (t' : Tx) (ops : List Op) (opc : Nat) (e : Err), t'.id = t.id →
        FileStep t r (failFile r t' ⟨t.id, x.idx⟩ ops opc e).1 (failFile r t' ⟨t.id, x.idx⟩ ops opc e).2.1
          (failFile r t' ⟨t.id, x.idx⟩ ops opc e).2.2 := by
      intro t' ops opc e hid
      refine ⟨hid, rfl, rfl, rfl, FsStep.remove _ _ rfl, by simp [failFile], ?_⟩
      intro p _ h2
      simp [failFile] at h2
      subst h2
      exact ⟨by simp [failFile], not_mem_paths_remove _ _⟩
    split
    · exact hfail t _ _ _ rfl
    · split
      · exact hfail t _ _ _ rfl
      · split
        · exact hfail t _ _ _ rfl
        · rename_i t' ht'
          have hid := insertRecords_id ht'
          split
          · exact hfail t' _ _ _ hid
          · split
            · exact hfail t' _ _ _ hid
            · split
              · refine ⟨hid, rfl, rfl, rfl, ?_, by simp, ?_⟩
                · dsimp only
                  split
                  · exact (FsStep.put _ _ _ rfl).trans (FsStep.remove _ _ rfl)
                  · exact FsStep.remove _ _ rfl
                · intro p _ h2
                  simp at h2
                  subst h2
                  exact ⟨by simp, not_mem_paths_remove _ _⟩
              · exact ⟨hid, rfl, rfl, rfl, FsStep.put _ _ _ rfl, by simp, by intro p h1 h2; simp [h1] at h2⟩
structure PartsStep (day : Nat) (r r' : Run) (e : Option Err) : Prop where
  cont : ∀ t, r.tx = some t → ∃ t', r'.tx = some t' ∧ t'.id = t.id ∧ r'.uploads = r.uploads ∧ FsStep t.id r.fs r'.fs
  fresh : r.tx = none → (r'.tx = none ∧ r'.uploads = r.uploads ∧ r'.fs = r.fs) ∨
      (∃ t', r'.tx = some t' ∧ allocId day r.uploads = some t'.id ∧ r'.uploads = r.uploads ++ [t'.id] ∧
        FsStep t'.id r.fs r'.fs)
  inprog : r.inprog = none → ∀ p, r'.inprog = some p → e ≠ none ∧ p ∉ r'.fs.map Prod.fst

theorem PartsStep.stop (day : Nat) (r : Run) (e : Option Err) : PartsStep day r r e :=
  ⟨fun t h => ⟨t, h, rfl, rfl, FsStep.refl _ _⟩, fun h => Or.inl ⟨h, rfl, rfl⟩,
   fun h p hp => by simp [h] at hp⟩

theorem runParts_step (env : Env) (f : Option Fault) (ps : List Part) (i : Nat) (r : Run) :
    PartsStep env.day r (runParts env f ps i r).1 (runParts env f ps i r).2 := by
  induction ps generalizing i r with
  | nil => simp only [runParts]; exact PartsStep.stop _ _ _
  | cons p ps ih =>
    cases p with
    | field name =>
      simp only [runParts]
      split
      · exact ih _ _
      · exact PartsStep.stop _ _ _
    | file fname content cut chunks =>
      -- the step from a given start
      have key : ∀ (r1 : Run) (t : Tx), r1.inprog = r.inprog →
          let res := indexFile env f r1 t ⟨i, fname, content, cut, chunks⟩
          let r2 : Run := { res.1 with tx := some res.2.1 }
          let out := match res.2.2 with
            | some e => (r2, some e)
            | none => runParts env f ps (i + 1) { r2 with fileids := r2.fileids ++ [(⟨t.id, i⟩ : Path)] }
          (∃ t', out.1.tx = some t' ∧ t'.id = t.id ∧ out.1.uploads = r1.uploads ∧ FsStep t.id r1.fs out.1.fs) ∧
          (r.inprog = none → ∀ p, out.1.inprog = some p → out.2 ≠ none ∧ p ∉ out.1.fs.map Prod.fst) := by
        intro r1 t hin
        have st := indexFile_step env f r1 t ⟨i, fname, content, cut, chunks⟩
        intro res r2 out
        cases he : res.2.2 with
        | some e =>
          have hout : out = (r2, some e) := by simp [out, he]
          rw [hout]
          refine ⟨⟨res.2.1, rfl, st.id, st.uploads, st.fs⟩, ?_⟩
          intro h0 p hp
          have := st.inprog_err p (by rw [hin]; exact h0) hp
          exact ⟨by simp, this.2⟩
        | none =>
          have hout : out = runParts env f ps (i + 1) { r2 with fileids := r2.fileids ++ [(⟨t.id, i⟩ : Path)] } := by
            simp [out, he]
          rw [hout]
          have ih' := ih (i + 1) { r2 with fileids := r2.fileids ++ [(⟨t.id, i⟩ : Path)] }
          obtain ⟨t', h1, h2, h3, h4⟩ := ih'.cont res.2.1 rfl
          refine ⟨⟨t', h1, by rw [h2, st.id], by rw [h3]; exact st.uploads, ?_⟩, ?_⟩
          · have : FsStep t.id res.1.fs (runParts env f ps (i + 1) { r2 with fileids := r2.fileids ++ [(⟨t.id, i⟩ : Path)] }).1.fs := by
              have := h4; rw [st.id] at this; exact this
            exact st.fs.trans this
          · intro h0 p hp
            refine ih'.inprog ?_ p hp
            show res.1.inprog = none
            rw [st.inprog_ok he, hin, h0]
      simp only [runParts]
      cases htx : r.tx with
      | some t =>
        simp only []
        have := key r t rfl
        simp only at this
        obtain ⟨⟨t', h1, h2, h3, h4⟩, h5⟩ := this
        refine ⟨?_, ?_, h5⟩
        · intro t0 ht0
          rw [htx] at ht0; cases ht0
          exact ⟨t', h1, h2, h3, h4⟩
        · intro h; rw [htx] at h; cases h
      | none =>
        simp only []
        cases hal : allocId env.day r.uploads with
        | none =>
          simp only []
          have := PartsStep.stop env.day r (some Err.db)
          exact ⟨fun t h => (by rw [htx] at h; cases h), fun _ => Or.inl ⟨htx, rfl, rfl⟩, this.inprog⟩
        | some k =>
          simp only []
          have := key ⟨r.uploads ++ [k], r.fs, none, r.opc, r.trace, r.fileids, r.inprog⟩ { id := k } rfl
          simp only at this
          obtain ⟨⟨t', h1, h2, h3, h4⟩, h5⟩ := this
          refine ⟨fun t h => (by rw [htx] at h; cases h), fun _ => Or.inr ⟨t', h1, ?_, ?_, ?_⟩, h5⟩
          · rw [h2]; exact hal
          · rw [h2]; exact h3
          · rw [h2]; exact h4
/-! ### id allocation -/

theorem lastUpload_mem {l : List UKey} {m : UKey} (h : lastUpload l = some m) : m ∈ l := by
  induction l generalizing m with
  | nil => simp [lastUpload] at h
  | cons k ks ih =>
    simp only [lastUpload] at h
    split at h
    · simp at h; simp [h]
    · rename_i m' hm'
      split at h
      · simp at h; simp [h]
      · simp at h; subst h; exact List.mem_cons_of_mem _ (ih hm')

theorem keyLe_total (a b : UKey) : keyLe a b = true ∨ keyLe b a = true := by
  simp only [keyLe, Bool.or_eq_true, Bool.and_eq_true, decide_eq_true_eq, beq_iff_eq]
  omega

theorem keyLe_trans {a b c : UKey} (h1 : keyLe a b = true) (h2 : keyLe b c = true) : keyLe a c = true := by
  simp only [keyLe, Bool.or_eq_true, Bool.and_eq_true, decide_eq_true_eq, beq_iff_eq] at *
  omega

theorem lastUpload_none {l : List UKey} (h : lastUpload l = none) : l = [] := by
  cases l with
  | nil => rfl
  | cons k ks =>
    simp only [lastUpload] at h
    split at h
    · simp at h
    · split at h <;> simp at h

theorem lastUpload_max {l : List UKey} {m : UKey} (h : lastUpload l = some m) : ∀ k ∈ l, keyLe k m = true := by
  induction l generalizing m with
  | nil => simp [lastUpload] at h
  | cons k ks ih =>
    simp only [lastUpload] at h
    split at h
    · rename_i hn
      simp at h; subst h
      intro k' hk'
      have := lastUpload_none hn
      subst this
      simp at hk'; subst hk'; simp [keyLe]
    · rename_i m' hm'
      have ihm := ih hm'
      split at h
      · rename_i hle
        simp at h; subst h
        intro k' hk'
        rcases List.mem_cons.mp hk' with rfl | hk'
        · simp [keyLe]
        · exact keyLe_trans (ihm k' hk') hle
      · rename_i hle
        simp at h; subst h
        intro k' hk'
        rcases List.mem_cons.mp hk' with rfl | hk'
        · rcases keyLe_total m' k' with h | h
          · exact absurd h hle
          · exact h
        · exact ihm k' hk'

/-- rows of one day are numbered 1..n without gaps -/
def Contig (rows : List UKey) : Prop :=
  ∀ k ∈ rows, 1 ≤ k.seq ∧ ∀ m, 1 ≤ m → m ≤ k.seq → (⟨k.day, m⟩ : UKey) ∈ rows

theorem allocId_fresh {day : Nat} {rows : List UKey} {k : UKey} (h : allocId day rows = some k) : k ∉ rows := by
  unfold allocId at h
  simp only at h
  split at h
  · simp at h
  · simp at h; subst h; assumption

theorem allocId_day {day : Nat} {rows : List UKey} {k : UKey} (h : allocId day rows = some k) : k.day = day := by
  unfold allocId at h
  simp only at h
  split at h
  · simp at h
  · simp at h; subst h
    unfold nextKey
    split
    · rfl
    · split <;> rfl

/-- the new sequence number is larger than every earlier one of the same day -/
theorem allocId_gt {day : Nat} {rows : List UKey} {k : UKey} (hc : Contig rows)
    (h : allocId day rows = some k) : 1 ≤ k.seq ∧ ∀ k' ∈ rows, k'.day = k.day → k'.seq < k.seq := by
  have hfresh := allocId_fresh h
  unfold allocId at h
  simp only at h
  split at h
  · simp at h
  · simp at h
    cases hl : lastUpload rows with
    | none =>
      have := lastUpload_none hl
      subst this
      rw [hl] at h; simp [nextKey] at h; subst h
      simp
    | some l =>
      rw [hl] at h
      have hmax := lastUpload_max hl
      simp only [nextKey] at h
      split at h
      · rename_i hd
        subst h
        refine ⟨by simp, ?_⟩
        intro k' hk' hday
        have := hmax k' hk'
        simp only [keyLe, Bool.or_eq_true, Bool.and_eq_true, decide_eq_true_eq, beq_iff_eq] at this
        simp at hday ⊢
        omega
      · rename_i hd
        subst h
        refine ⟨by simp, ?_⟩
        intro k' hk' hday
        exfalso
        simp at hday
        have := (hc k' hk').2 1 (by omega) (hc k' hk').1
        rw [hday] at this
        exact hfresh this

theorem allocId_contig {day : Nat} {rows : List UKey} {k : UKey} (hc : Contig rows)
    (h : allocId day rows = some k) : Contig (rows ++ [k]) := by
  have hfresh := allocId_fresh h
  have hgt := allocId_gt hc h
  intro k' hk'
  rcases List.mem_append.mp hk' with hk' | hk'
  · refine ⟨(hc k' hk').1, fun m h1 h2 => List.mem_append_left _ ((hc k' hk').2 m h1 h2)⟩
  · simp at hk'; subst hk'
    refine ⟨hgt.1, ?_⟩
    intro m h1 h2
    by_cases hm : m = k'.seq
    · subst hm; simp
    · -- m < k'.seq : the predecessor row exists
      refine List.mem_append_left _ ?_
      unfold allocId at h
      simp only at h
      split at h
      · simp at h
      · simp at h
        cases hl : lastUpload rows with
        | none =>
          rw [hl] at h; simp [nextKey] at h; subst h; simp at h2 hm; omega
        | some l =>
          rw [hl] at h
          simp only [nextKey] at h
          split at h
          · rename_i hd
            subst h
            have hlm := lastUpload_mem hl
            have := (hc l hlm).2 m h1 (by simp at h2 hm; omega)
            simpa [hd] using this
          · subst h; simp at h2 hm; omega
/-! ### system invariant, processUpload -/

/-- invariant of every state reachable by uploads from the empty system -/
structure WfSys (s : Sys) : Prop where
  recs : ∀ row ∈ s.db.records, row.up ∈ s.db.uploads
  files : ∀ e ∈ s.fs, e.1.up ∈ s.db.uploads
  contig : Contig s.db.uploads
  nodup : s.db.uploads.Nodup

/-- the part of the invariant that does not speak about numbering (kept by ReplaceUpload of any id) -/
structure WfCore (s : Sys) : Prop where
  recs : ∀ row ∈ s.db.records, row.up ∈ s.db.uploads
  files : ∀ e ∈ s.fs, e.1.up ∈ s.db.uploads

theorem WfSys.core {s : Sys} (w : WfSys s) : WfCore s := ⟨w.recs, w.files⟩

theorem WfSys.empty : WfSys {} :=
  ⟨by simp, by simp, by intro k hk; simp at hk, by simp⟩

/-- rows written by a transaction carry its upload id -/
def RowsOf (t : Tx) : Prop := ∀ row ∈ t.txRec ++ t.pendRec, row.up = t.id

theorem appendLine_up {rows : List RRow} {l : Bytes} {k : UKey} (h : ∀ row ∈ rows, row.up = k) :
    ∀ row ∈ appendLine rows l, row.up = k := by
  induction rows with
  | nil => simp [appendLine]
  | cons r rs ih =>
    cases rs with
    | nil =>
      simp only [appendLine]
      intro row hrow
      simp at hrow; subst hrow
      exact h r (by simp)
    | cons r2 rs2 =>
      simp only [appendLine]
      intro row hrow
      rcases List.mem_cons.mp hrow with rfl | hrow
      · exact h _ (by simp)
      · exact ih (fun row hr => h row (List.mem_cons_of_mem _ hr)) row hrow

theorem flush_rows {t t' : Tx} (h : t.flush = some t') (hr : RowsOf t) : RowsOf t' ∧ t'.pendRec = [] ∧
    t'.txRec = t.txRec ++ t.pendRec := by
  have hid := flush_id h
  unfold Tx.flush at h
  split at h
  · simp at h
  · simp at h; subst h
    refine ⟨?_, rfl, rfl⟩
    intro row hrow
    simp at hrow
    exact hr row (by simpa using hrow)

theorem insertLabel_rows {t t' : Tx} {k : Bytes} (h : t.insertLabel k = some t') (hr : RowsOf t) : RowsOf t' := by
  have hid := insertLabel_id h
  unfold Tx.insertLabel at h
  split at h
  · simp [Option.map_eq_some_iff] at h
    obtain ⟨a, ha, rfl⟩ := h
    have := (flush_rows ha hr).1
    intro row hrow
    simpa using this row (by simpa using hrow)
  · simp at h; subst h
    intro row hrow
    simpa using hr row (by simpa using hrow)

theorem insertLabels_rows {t t' : Tx} {ks : List Bytes} (h : t.insertLabels ks = some t') (hr : RowsOf t) :
    RowsOf t' := by
  induction ks generalizing t with
  | nil => simp [Tx.insertLabels] at h; rw [← h]; exact hr
  | cons k ks ih =>
    simp only [Tx.insertLabels] at h
    split at h
    · simp at h
    · rename_i t1 h1
      exact ih h (insertLabel_rows h1 hr)

theorem insertRecordNew_rows {t t' : Tx} {r : Res} (h : t.insertRecordNew r = some t') (hr : RowsOf t) :
    RowsOf t' := by
  unfold Tx.insertRecordNew at h
  simp only at h
  split at h
  · simp at h
  · rename_i t2 h2
    simp at h; subst h
    have : RowsOf t2 := by
      refine insertLabels_rows h2 ?_
      intro row hrow
      simp at hrow
      rcases hrow with hrow | hrow | hrow
      · exact hr row (by simp [hrow])
      · exact hr row (by simp [hrow])
      · subst hrow; rfl
    intro row hrow
    simpa using this row (by simpa using hrow)

theorem insertRecord_rows {t t' : Tx} {r : Res} (h : t.insertRecord r = some t') (hr : RowsOf t) : RowsOf t' := by
  unfold Tx.insertRecord at h
  split at h
  · split at h
    · simp at h; subst h
      intro row hrow
      simp at hrow
      rcases hrow with hrow | hrow
      · exact hr row (by simp [hrow])
      · exact appendLine_up (fun row h => hr row (by simp [h])) row hrow
    · exact insertRecordNew_rows h hr
  · exact insertRecordNew_rows h hr

theorem insertRecords_rows {t t' : Tx} {rs : List Res} (h : t.insertRecords rs = some t') (hr : RowsOf t) :
    RowsOf t' := by
  induction rs generalizing t with
  | nil => simp [Tx.insertRecords] at h; rw [← h]; exact hr
  | cons r rs ih =>
    simp only [Tx.insertRecords] at h
    split at h
    · simp at h
    · rename_i t1 h1
      exact ih h (insertRecord_rows h1 hr)

theorem indexFile_rows (env : Env) (f : Option Fault) (r : Run) (t : Tx) (x : FileIn) (hr : RowsOf t) :
    RowsOf (indexFile env f r t x).2.1 := by
  unfold indexFile
  simp only
  split
  · exact hr
  · split
    · exact hr
    · split
      · exact hr
      · split
        · exact hr
        · rename_i t' ht'
          have := insertRecords_rows ht' hr
          split
          · exact this
          · split
            · exact this
            · split <;> exact this

theorem runParts_rows (env : Env) (f : Option Fault) (ps : List Part) (i : Nat) (r : Run)
    (h : ∀ t, r.tx = some t → RowsOf t) : ∀ t, (runParts env f ps i r).1.tx = some t → RowsOf t := by
  induction ps generalizing i r with
  | nil => simpa only [runParts] using h
  | cons p ps ih =>
    cases p with
    | field name =>
      simp only [runParts]
      split
      · exact ih _ _ h
      · exact h
    | file fname content cut chunks =>
      have key : ∀ (r1 : Run) (t : Tx), RowsOf t →
          let res := indexFile env f r1 t ⟨i, fname, content, cut, chunks⟩
          let r2 : Run := { res.1 with tx := some res.2.1 }
          let out := match res.2.2 with
            | some e => (r2, some e)
            | none => runParts env f ps (i + 1) { r2 with fileids := r2.fileids ++ [(⟨t.id, i⟩ : Path)] }
          ∀ t', out.1.tx = some t' → RowsOf t' := by
        intro r1 t ht res r2 out
        have hrows := indexFile_rows env f r1 t ⟨i, fname, content, cut, chunks⟩ ht
        cases he : res.2.2 with
        | some e =>
          have hout : out = (r2, some e) := by simp [out, he]
          rw [hout]
          intro t' ht'
          simp [r2] at ht'
          subst ht'
          exact hrows
        | none =>
          have hout : out = runParts env f ps (i + 1) { r2 with fileids := r2.fileids ++ [(⟨t.id, i⟩ : Path)] } := by
            simp [out, he]
          rw [hout]
          refine ih _ _ ?_
          intro t0 ht0
          simp [r2] at ht0
          subst ht0
          exact hrows
      simp only [runParts]
      cases htx : r.tx with
      | some t => exact key r t (h t htx)
      | none =>
        simp only []
        cases hal : allocId env.day r.uploads with
        | none => simp only []; intro t ht; rw [htx] at ht; cases ht
        | some k =>
          simp only []
          refine key ⟨r.uploads ++ [k], r.fs, none, r.opc, r.trace, r.fileids, r.inprog⟩ { id := k } ?_
          intro row hrow
          simp at hrow
def run0 (env : Env) (req : Req) (s : Sys) : Run × Option Err :=
  runParts env req.fault req.parts 0 ⟨s.db.uploads, s.fs, none, 0, [], [], none⟩

/-- the two ways processUpload ends -/
theorem processUpload_cases (env : Env) (req : Req) (s : Sys) :
    (∃ e, processUpload env req s = abortOutcome s (run0 env req s).1 e) ∨
    (∃ t t', (run0 env req s).2 = none ∧ req.endErr = false ∧ (run0 env req s).1.tx = some t ∧ t.flush = some t' ∧
      processUpload env req s =
        { sys := { db := { uploads := (run0 env req s).1.uploads, records := s.db.records ++ t'.txRec },
                   fs := (run0 env req s).1.fs },
          resp := .ok (t.id, (run0 env req s).1.fileids), trace := (run0 env req s).1.trace,
          inprog := none, alloc := some t.id }) := by
  unfold processUpload run0
  dsimp only
  cases h2 : (runParts env req.fault req.parts 0 ⟨s.db.uploads, s.fs, none, 0, [], [], none⟩).2 with
  | some e => exact Or.inl ⟨e, by simp⟩
  | none =>
    cases hE : req.endErr with
    | true => exact Or.inl ⟨Err.body, by simp⟩
    | false =>
      cases htx : (runParts env req.fault req.parts 0 ⟨s.db.uploads, s.fs, none, 0, [], [], none⟩).1.tx with
      | none => exact Or.inl ⟨Err.nofiles, by simp⟩
      | some t =>
        cases hf : t.flush with
        | none => exact Or.inl ⟨Err.db, by simp [hf]⟩
        | some t' => exact Or.inr ⟨t, t', rfl, rfl, rfl, hf, by simp [hf]⟩

/-- what the parts loop did, starting without an upload -/
theorem run0_step (env : Env) (req : Req) (s : Sys) :
    ((run0 env req s).1.tx = none ∧ (run0 env req s).1.uploads = s.db.uploads ∧ (run0 env req s).1.fs = s.fs) ∨
    (∃ t, (run0 env req s).1.tx = some t ∧ allocId env.day s.db.uploads = some t.id ∧
      (run0 env req s).1.uploads = s.db.uploads ++ [t.id] ∧ FsStep t.id s.fs (run0 env req s).1.fs ∧ RowsOf t) := by
  have st := runParts_step env req.fault req.parts 0 ⟨s.db.uploads, s.fs, none, 0, [], [], none⟩
  rcases st.fresh rfl with h | ⟨t, h1, h2, h3, h4⟩
  · exact Or.inl h
  · refine Or.inr ⟨t, h1, h2, h3, h4, ?_⟩
    exact runParts_rows env req.fault req.parts 0 _ (by intro t ht; simp at ht) t h1

theorem run0_inprog (env : Env) (req : Req) (s : Sys) (p : Path) (h : (run0 env req s).1.inprog = some p) :
    p ∉ (run0 env req s).1.fs.map Prod.fst :=
  ((runParts_step env req.fault req.parts 0 ⟨s.db.uploads, s.fs, none, 0, [], [], none⟩).inprog rfl p h).2

/-- the invariant is kept by every request, successful or not -/
theorem processUpload_wf (env : Env) (req : Req) (s : Sys) (w : WfSys s) : WfSys (processUpload env req s).sys := by
  have hstep := run0_step env req s
  -- facts common to both endings
  have common : (∀ row ∈ s.db.records, row.up ∈ (run0 env req s).1.uploads) ∧
      (∀ e ∈ (run0 env req s).1.fs, e.1.up ∈ (run0 env req s).1.uploads) ∧
      Contig (run0 env req s).1.uploads ∧ (run0 env req s).1.uploads.Nodup := by
    rcases hstep with ⟨_, h2, h3⟩ | ⟨t, _, h2, h3, h4, _⟩
    · rw [h2, h3]; exact ⟨w.recs, w.files, w.contig, w.nodup⟩
    · rw [h3]
      refine ⟨fun row hr => List.mem_append_left _ (w.recs row hr), ?_, allocId_contig w.contig h2, ?_⟩
      · intro e he
        rcases h4.1 e he with h | h
        · exact List.mem_append_left _ (w.files e h)
        · simp [h]
      · exact List.nodup_append.mpr ⟨w.nodup, by simp, by
          intro a ha b hb; simp at hb; subst hb; intro hab; subst hab; exact allocId_fresh h2 ha⟩
  rcases processUpload_cases env req s with ⟨e, h⟩ | ⟨t, t', _, _, htx, hfl, h⟩
  · rw [h]; exact ⟨common.1, common.2.1, common.2.2.1, common.2.2.2⟩
  · rw [h]
    refine ⟨?_, common.2.1, common.2.2.1, common.2.2.2⟩
    intro row hrow
    simp at hrow
    rcases hrow with hrow | hrow
    · exact common.1 row hrow
    · rcases hstep with ⟨h1, _, _⟩ | ⟨t0, h1, _, h3, _, hrows⟩
      · rw [h1] at htx; cases htx
      · rw [h1] at htx; cases htx
        have := (flush_rows hfl hrows).1 row (by simp [hrow])
        rw [this, flush_id hfl, h3]; simp

theorem runHistory_wf (hist : List (Env × Req)) (s : Sys) (w : WfSys s) : WfSys (runHistory hist s) := by
  induction hist generalizing s with
  | nil => exact w
  | cons a rest ih => exact ih _ (processUpload_wf a.1 a.2 s w)

theorem abort_resp (s : Sys) (r : Run) (e : Err) : (abortOutcome s r e).resp = .error e := rfl

/-- after a failed request -/
structure FailedPost (s : Sys) (o : Outcome) : Prop where
  /-- the index is exactly what it was: every query and listing answers as before -/
  records : o.sys.db.records = s.db.records
  /-- nothing is queryable or listed under the id the failed upload was given -/
  own : ∀ k, o.alloc = some k → k ∉ s.db.uploads ∧ o.sys.db.queryUpload k = [] ∧ ∀ c, (k, c) ∉ o.sys.db.listing
  /-- the file being written when the failure happened is not in the store -/
  inprog : ∀ p, o.inprog = some p → p ∉ o.sys.fs.map Prod.fst
  /-- files of earlier uploads are untouched -/
  files : ∀ x ∈ s.fs, x ∈ o.sys.fs
  /-- anything new in the store belongs to the failed upload's own id -/
  files_new : ∀ x ∈ o.sys.fs, x ∈ s.fs ∨ o.alloc = some x.1.up

theorem failed_post (env : Env) (req : Req) (s : Sys) (w : WfCore s) (e : Err)
    (h : (processUpload env req s).resp = .error e) : FailedPost s (processUpload env req s) := by
  rcases processUpload_cases env req s with ⟨e', h'⟩ | ⟨t, t', _, _, _, _, h'⟩
  · rw [h']
    have hstep := run0_step env req s
    have fresh : ∀ k, (run0 env req s).1.tx.map (·.id) = some k → k ∉ s.db.uploads := by
      intro k hk
      rcases hstep with ⟨h1, _, _⟩ | ⟨t, h1, h2, _, _, _⟩
      · simp [h1] at hk
      · simp [h1] at hk; subst hk; exact allocId_fresh h2
    refine ⟨rfl, ?_, ?_, ?_, ?_⟩
    · intro k hk
      have hf := fresh k hk
      have hnone : ∀ row ∈ s.db.records, row.up ≠ k := fun row hr hk' => hf (hk' ▸ w.recs row hr)
      refine ⟨hf, ?_, ?_⟩
      · simp only [DB.queryUpload, DB.results, abortOutcome]
        rw [List.filter_eq_nil_iff]
        intro x hx
        simp at hx
        obtain ⟨row, hrow, _, _, rfl⟩ := hx
        simpa using hnone row hrow
      · intro c hc
        simp only [DB.listing, abortOutcome, List.mem_filter, List.mem_map] at hc
        obtain ⟨⟨k', _, hk'⟩, hpos⟩ := hc
        simp at hk'
        obtain ⟨rfl, rfl⟩ := hk'
        have : DB.count ⟨(run0 env req s).1.uploads, s.db.records⟩ k' = 0 := by
          simp only [DB.count, List.length_eq_zero_iff, List.filter_eq_nil_iff]
          intro row hrow
          simpa using hnone row hrow
        simp [this] at hpos
    · intro p hp; exact run0_inprog env req s p hp
    · intro x hx
      rcases hstep with ⟨_, _, h3⟩ | ⟨t, h1, h2, _, h4, _⟩
      · simp only [abortOutcome]; rw [h3]; exact hx
      · refine h4.2 x hx ?_
        intro hk
        exact allocId_fresh h2 (hk ▸ w.files x hx)
    · intro x hx
      rcases hstep with ⟨_, _, h3⟩ | ⟨t, h1, _, _, h4, _⟩
      · simp only [abortOutcome] at hx; rw [h3] at hx; exact Or.inl hx
      · rcases h4.1 x hx with h | h
        · exact Or.inl h
        · exact Or.inr (by simp [abortOutcome, h1, h])
  · rw [h'] at h; simp at h

/-- the id handed out by a request, if any, and its persistent Uploads row -/
theorem alloc_spec (env : Env) (req : Req) (s : Sys) :
    ((processUpload env req s).alloc = none ∧ (processUpload env req s).sys.db.uploads = s.db.uploads) ∨
    (∃ k, (processUpload env req s).alloc = some k ∧ allocId env.day s.db.uploads = some k ∧
      (processUpload env req s).sys.db.uploads = s.db.uploads ++ [k]) := by
  have hstep := run0_step env req s
  rcases processUpload_cases env req s with ⟨e, h⟩ | ⟨t, t', _, _, htx, _, h⟩
  · rw [h]
    rcases hstep with ⟨h1, h2, _⟩ | ⟨t, h1, h2, h3, _, _⟩
    · exact Or.inl ⟨by simp [abortOutcome, h1], by simp [abortOutcome, h2]⟩
    · exact Or.inr ⟨t.id, by simp [abortOutcome, h1], h2, by simp [abortOutcome, h3]⟩
  · rw [h]
    rcases hstep with ⟨h1, _, _⟩ | ⟨t0, h1, h2, h3, _, _⟩
    · rw [h1] at htx; cases htx
    · rw [h1] at htx; cases htx
      exact Or.inr ⟨t.id, rfl, h2, h3⟩

/-- ids handed out along a history, in creation order (also those of uploads that failed later) -/
def allocs : List (Env × Req) → Sys → List UKey
  | [], _ => []
  | (env, req) :: rest, s =>
    (match (processUpload env req s).alloc with
      | some k => [k]
      | none => []) ++ allocs rest (processUpload env req s).sys

theorem uploads_grow (hist : List (Env × Req)) (s : Sys) : ∀ k ∈ s.db.uploads, k ∈ (runHistory hist s).db.uploads := by
  induction hist generalizing s with
  | nil => intro k hk; exact hk
  | cons a rest ih =>
    intro k hk
    refine ih _ k ?_
    rcases alloc_spec a.1 a.2 s with ⟨_, h⟩ | ⟨k', _, _, h⟩
    · rw [h]; exact hk
    · rw [h]; exact List.mem_append_left _ hk

theorem allocs_spec (hist : List (Env × Req)) (s : Sys) (w : WfSys s) :
    (allocs hist s).Pairwise (fun a b => a ≠ b ∧ (a.day = b.day → a.seq < b.seq)) ∧
    ∀ k ∈ allocs hist s, k ∉ s.db.uploads ∧ 1 ≤ k.seq ∧ (∀ k' ∈ s.db.uploads, k'.day = k.day → k'.seq < k.seq) ∧
      k ∈ (runHistory hist s).db.uploads := by
  induction hist generalizing s with
  | nil => simp [allocs]
  | cons a rest ih =>
    obtain ⟨env, req⟩ := a
    have w' := processUpload_wf env req s w
    obtain ⟨ih1, ih2⟩ := ih _ w'
    simp only [allocs, runHistory]
    rcases alloc_spec env req s with ⟨h1, h2⟩ | ⟨k, h1, h2, h3⟩
    · rw [h1]
      simp only [List.nil_append]
      refine ⟨ih1, ?_⟩
      intro k hk
      have := ih2 k hk
      rw [h2] at this
      exact this
    · rw [h1]
      simp only [List.singleton_append]
      have hgt := allocId_gt w.contig h2
      refine ⟨List.pairwise_cons.mpr ⟨?_, ih1⟩, ?_⟩
      · intro b hb
        have := ih2 b hb
        rw [h3] at this
        refine ⟨?_, fun hd => this.2.2.1 k (by simp) hd⟩
        intro hkb; subst hkb; exact this.1 (by simp)
      · intro b hb
        rcases List.mem_cons.mp hb with rfl | hb
        · refine ⟨allocId_fresh h2, hgt.1, hgt.2, ?_⟩
          exact uploads_grow rest _ _ (by rw [h3]; simp)
        · have := ih2 b hb
          rw [h3] at this
          exact ⟨fun h => this.1 (List.mem_append_left _ h), this.2.1,
            fun k' hk' => this.2.2.1 k' (List.mem_append_left _ hk'), this.2.2.2⟩

/-- a line the legacy reader turns into a result -/
def isResultLine (l : Bytes) : Bool := (parseKV l).isNone && (benchName l).isSome

theorem readResults_nil_iff (perm : Labels) (lines : List Bytes) (labels : Labels) :
    readResults perm lines labels = [] ↔ ∀ l ∈ lines, isResultLine l = false := by
  induction lines generalizing labels with
  | nil => simp [readResults]
  | cons l rest ih =>
    simp only [readResults]
    cases hkv : parseKV l with
    | some kv =>
      obtain ⟨k, v⟩ := kv
      simp only []
      have : isResultLine l = false := by simp [isResultLine, hkv]
      split
      · rw [ih]; simp [this]
      · split
        · rw [ih]; simp [this]
        · rw [ih]; simp [this]
    | none =>
      simp only []
      cases hb : benchName l with
      | some name => simp [isResultLine, hkv, hb]
      | none =>
        simp only []
        have : isResultLine l = false := by simp [isResultLine, hkv, hb]
        rw [ih]; simp [this]

/-- a part that lets the loop go on -/
def partOk : Part → Prop
  | Part.field name => name = commitWord
  | Part.file _ content cut _ => cut = false ∧ ∃ l ∈ splitLines content, isResultLine l = true

theorem indexFile_ok (env : Env) (f : Option Fault) (r : Run) (t : Tx) (x : FileIn)
    (h : (indexFile env f r t x).2.2 = none) : x.cut = false ∧ ∃ l ∈ splitLines x.content, isResultLine l = true := by
  unfold indexFile at h
  simp only at h
  split at h
  · simp at h
  · split at h
    · simp [failFile] at h
    · split at h
      · simp [failFile] at h
      · split at h
        · simp [failFile] at h
        · split at h
          · simp [failFile] at h
          · rename_i hcut
            split at h
            · simp [failFile] at h
            · rename_i hres
              refine ⟨by simpa using hcut, ?_⟩
              have : ¬ (∀ l ∈ splitLines x.content, isResultLine l = false) := by
                rw [← readResults_nil_iff (mkMeta env t.id x.idx x.fname) _ (mkMeta env t.id x.idx x.fname)]
                simpa using hres
              simpa using this

theorem runParts_ok (env : Env) (f : Option Fault) (ps : List Part) (i : Nat) (r : Run)
    (h : (runParts env f ps i r).2 = none) : ∀ p ∈ ps, partOk p := by
  induction ps generalizing i r with
  | nil => simp
  | cons p ps ih =>
    cases p with
    | field name =>
      simp only [runParts] at h
      split at h
      · rename_i hn
        intro p hp
        rcases List.mem_cons.mp hp with rfl | hp
        · simpa [partOk] using hn
        · exact ih _ _ h p hp
      · simp at h
    | file fname content cut chunks =>
      have key : ∀ (r1 : Run) (t : Tx),
          let res := indexFile env f r1 t ⟨i, fname, content, cut, chunks⟩
          let r2 : Run := { res.1 with tx := some res.2.1 }
          let out := match res.2.2 with
            | some e => (r2, some e)
            | none => runParts env f ps (i + 1) { r2 with fileids := r2.fileids ++ [(⟨t.id, i⟩ : Path)] }
          out.2 = none → ∀ p ∈ Part.file fname content cut chunks :: ps, partOk p := by
        intro r1 t res r2 out hout
        cases he : res.2.2 with
        | some e => simp [out, he] at hout
        | none =>
          have h1 := indexFile_ok env f r1 t ⟨i, fname, content, cut, chunks⟩ he
          have hout' : (runParts env f ps (i + 1) { r2 with fileids := r2.fileids ++ [(⟨t.id, i⟩ : Path)] }).2 = none := by
            simpa [out, he] using hout
          intro p hp
          rcases List.mem_cons.mp hp with rfl | hp
          · exact h1
          · exact ih _ _ hout' p hp
      simp only [runParts] at h
      cases htx : r.tx with
      | some t => rw [htx] at h; exact key r t h
      | none =>
        rw [htx] at h
        simp only [] at h
        cases hal : allocId env.day r.uploads with
        | none => rw [hal] at h; simp at h
        | some k =>
          rw [hal] at h
          exact key ⟨r.uploads ++ [k], r.fs, none, r.opc, r.trace, r.fileids, r.inprog⟩ { id := k } h

/-- **fault_is_reported** (content and protocol faults): a request whose part stream ends with an
error, or contains a part reader failure (body cut), an unknown form field, or a file without any
benchmark line, is answered with an error. -/
theorem structural_fault_is_error (env : Env) (req : Req) (s : Sys)
    (hf : req.endErr = true ∨ ∃ p ∈ req.parts, ¬ partOk p) :
    ∃ e, (processUpload env req s).resp = .error e := by
  rcases processUpload_cases env req s with ⟨e, h⟩ | ⟨t, t', h2, hE, _, _, _⟩
  · exact ⟨e, by rw [h]; rfl⟩
  · exfalso
    rcases hf with hf | ⟨p, hp, hnot⟩
    · rw [hE] at hf; cases hf
    · exact hnot (runParts_ok env req.fault req.parts 0 _ h2 p hp)
theorem doWrites_ok (f : Option Fault) (ws : List Bytes) (opc : Nat) (h : (doWrites f ws opc).1 = false) :
    (doWrites f ws opc).2.1 = opc + ws.length ∧ (doWrites f ws opc).2.2.1 = ws.flatten ∧
      ∀ j, opc ≤ j → j < opc + ws.length → failsAt f j = false := by
  induction ws generalizing opc with
  | nil => simp [doWrites]; intro j h1 h2; omega
  | cons w ws ih =>
    simp only [doWrites] at h ⊢
    split at h
    · simp at h
    · rename_i hf
      simp only at h
      rw [if_neg hf]
      have := ih (opc + 1) h
      refine ⟨by simp only [List.length_cons]; omega, by simp [this.2.1], ?_⟩
      intro j h1 h2
      by_cases hj : j = opc
      · subst hj; simpa using hf
      · exact this.2.2 j (by omega) (by simp only [List.length_cons] at h2; omega)

theorem insertSorted_length (x : Bytes × Bytes) (l : Labels) : (insertSorted x l).length = l.length + 1 := by
  induction l with
  | nil => rfl
  | cons y ys ih =>
    simp only [insertSorted]
    split
    · simp
    · simp [ih]

theorem sortLabels_length (l : Labels) : (sortLabels l).length = l.length := by
  induction l with
  | nil => rfl
  | cons x xs ih => simp [sortLabels, List.foldr, insertSorted_length] at ih ⊢; exact ih

/-- number of metadata header lines -/
def nkeys (env : Env) (fname : Bytes) : Nat :=
  3 + (if fname.isEmpty then 0 else 1) + (if env.user.isEmpty then 0 else 1)

theorem mkMeta_length (env : Env) (k : UKey) (i : Nat) (fname : Bytes) : (mkMeta env k i fname).length = nkeys env fname := by
  unfold mkMeta nkeys
  split <;> split <;> simp

/-- file-store calls a fault-free run makes for one file: NewWriter, header lines and separator,
one Write per read, Close -/
def fileOps (env : Env) (fname content : Bytes) (chunks : List Nat) : Nat :=
  1 + (nkeys env fname + 1) + (splitChunks content chunks).length + 1

def opsOf (env : Env) : List Part → Nat
  | [] => 0
  | Part.field _ :: ps => opsOf env ps
  | Part.file fname content _ chunks :: ps => fileOps env fname content chunks + opsOf env ps

theorem indexFile_opc (env : Env) (f : Option Fault) (r : Run) (t : Tx) (x : FileIn)
    (h : (indexFile env f r t x).2.2 = none) :
    (indexFile env f r t x).1.opc = r.opc + fileOps env x.fname x.content x.chunks ∧
      ∀ j, r.opc ≤ j → j < r.opc + fileOps env x.fname x.content x.chunks → failsAt f j = false := by
  unfold indexFile at h ⊢
  simp only at h ⊢
  split at h
  · simp at h
  · rename_i hnw
    split at h
    · simp [failFile] at h
    · rename_i hh
      have hw := doWrites_ok f _ _ (by simpa using hh)
      simp only [List.length_append, List.length_map, sortLabels_length, mkMeta_length, List.length_cons,
        List.length_nil] at hw
      split at h
      · simp [failFile] at h
      · rename_i hb
        have hbw := doWrites_ok f _ _ (by simpa using hb)
        split at h
        · simp [failFile] at h
        · split at h
          · simp [failFile] at h
          · split at h
            · simp [failFile] at h
            · split at h
              · simp at h
              · rename_i hcl
                rw [if_neg hnw, if_neg hh, if_neg hb]
                rw [if_neg (by assumption), if_neg (by assumption), if_neg hcl]
                dsimp only
                rw [hbw.1, hw.1]
                refine ⟨by unfold fileOps; omega, ?_⟩
                intro j h1 h2
                unfold fileOps at h2
                by_cases hj0 : j = r.opc
                · subst hj0; simpa using hnw
                · by_cases hj1 : j < r.opc + 1 + (nkeys env x.fname + 0 + 1)
                  · exact hw.2.2 j (by omega) (by omega)
                  · by_cases hj2 : j < r.opc + 1 + (nkeys env x.fname + 0 + 1) + (splitChunks x.content x.chunks).length
                    · refine hbw.2.2 j ?_ ?_
                      · rw [hw.1]; omega
                      · rw [hw.1]; omega
                    · have : j = (doWrites f (splitChunks x.content x.chunks)
                          (doWrites f (List.map headerLine (sortLabels (mkMeta env t.id x.idx x.fname)) ++ [[10]]) (r.opc + 1)).2.1).2.1 := by
                        rw [hbw.1, hw.1]; omega
                      rw [this]; simpa using hcl
theorem runParts_opc (env : Env) (f : Option Fault) (ps : List Part) (i : Nat) (r : Run)
    (h : (runParts env f ps i r).2 = none) :
    ∀ j, r.opc ≤ j → j < r.opc + opsOf env ps → failsAt f j = false := by
  induction ps generalizing i r with
  | nil => intro j h1 h2; simp [opsOf] at h2; omega
  | cons p ps ih =>
    cases p with
    | field name =>
      simp only [runParts] at h
      split at h
      · simpa [opsOf] using ih _ _ h
      · simp at h
    | file fname content cut chunks =>
      have key : ∀ (r1 : Run) (t : Tx), r1.opc = r.opc →
          let res := indexFile env f r1 t ⟨i, fname, content, cut, chunks⟩
          let r2 : Run := { res.1 with tx := some res.2.1 }
          let out := match res.2.2 with
            | some e => (r2, some e)
            | none => runParts env f ps (i + 1) { r2 with fileids := r2.fileids ++ [(⟨t.id, i⟩ : Path)] }
          out.2 = none → ∀ j, r.opc ≤ j → j < r.opc + opsOf env (Part.file fname content cut chunks :: ps) →
            failsAt f j = false := by
        intro r1 t hopc res r2 out hout
        cases he : res.2.2 with
        | some e => simp [out, he] at hout
        | none =>
          have h1 := indexFile_opc env f r1 t ⟨i, fname, content, cut, chunks⟩ he
          dsimp only at h1
          have hout' : (runParts env f ps (i + 1) { r2 with fileids := r2.fileids ++ [(⟨t.id, i⟩ : Path)] }).2 = none := by
            simpa [out, he] using hout
          have h2 := ih _ _ hout'
          intro j hj1 hj2
          simp only [opsOf] at hj2
          by_cases hlt : j < r.opc + fileOps env fname content chunks
          · exact h1.2 j (by omega) (by rw [hopc]; exact hlt)
          · refine h2 j ?_ ?_
            · show (indexFile env f r1 t ⟨i, fname, content, cut, chunks⟩).1.opc ≤ j
              have := h1.1; omega
            · show j < (indexFile env f r1 t ⟨i, fname, content, cut, chunks⟩).1.opc + opsOf env ps
              have := h1.1; omega
      simp only [runParts] at h
      cases htx : r.tx with
      | some t => rw [htx] at h; exact key r t rfl h
      | none =>
        rw [htx] at h
        simp only [] at h
        cases hal : allocId env.day r.uploads with
        | none => rw [hal] at h; simp at h
        | some k =>
          rw [hal] at h
          exact key ⟨r.uploads ++ [k], r.fs, none, r.opc, r.trace, r.fileids, r.inprog⟩ { id := k } rfl h

/-- a file-store fault (create, write or close; once or persistent) at any of the calls a fault-free
run of the request would make is answered with an error -/
theorem fs_fault_is_error (env : Env) (req : Req) (s : Sys) (ft : Fault) (hf : req.fault = some ft)
    (hk : ft.k < opsOf env req.parts) : ∃ e, (processUpload env req s).resp = .error e := by
  rcases processUpload_cases env req s with ⟨e, h⟩ | ⟨t, t', h2, _, _, _, _⟩
  · exact ⟨e, by rw [h]; rfl⟩
  · exfalso
    have := runParts_opc env req.fault req.parts 0 _ h2 ft.k (Nat.zero_le _) (by simpa using hk)
    rw [hf] at this
    simp only [failsAt] at this
    split at this <;> simp at this

/-- no file part at all ("no files processed") -/
theorem no_file_is_error (env : Env) (req : Req) (s : Sys)
    (hn : ∀ p ∈ req.parts, ∃ name, p = Part.field name) : ∃ e, (processUpload env req s).resp = .error e := by
  rcases processUpload_cases env req s with ⟨e, h⟩ | ⟨t, t', _, _, htx, _, _⟩
  · exact ⟨e, by rw [h]; rfl⟩
  · exfalso
    have : ∀ (ps : List Part) (i : Nat) (r : Run), (∀ p ∈ ps, ∃ name, p = Part.field name) → r.tx = none →
        (runParts env req.fault ps i r).1.tx = none := by
      intro ps
      induction ps with
      | nil => intro i r _ h; simpa [runParts] using h
      | cons p ps ih =>
        intro i r hall h
        obtain ⟨name, rfl⟩ := hall p (by simp)
        simp only [runParts]
        split
        · exact ih _ _ (fun p hp => hall p (List.mem_cons_of_mem _ hp)) h
        · exact h
    have := this req.parts 0 ⟨s.db.uploads, s.fs, none, 0, [], [], none⟩ hn rfl
    unfold run0 at htx
    rw [this] at htx; cases htx
/-- benchmark lines held by a transaction (sent or pending), in insertion order -/
def txLines (t : Tx) : List Bytes := (t.txRec ++ t.pendRec).flatMap (·.lines)

/-- `lastResult != nil` implies a pending row to append to -/
def LastOk (t : Tx) : Prop := t.last.isSome → t.pendRec ≠ []

theorem appendLine_lines (rows : List RRow) (l : Bytes) (h : rows ≠ []) :
    (appendLine rows l).flatMap (·.lines) = rows.flatMap (·.lines) ++ [l] := by
  induction rows with
  | nil => exact absurd rfl h
  | cons r rs ih =>
    cases rs with
    | nil => simp [appendLine]
    | cons r2 rs2 =>
      simp only [appendLine, List.flatMap_cons] at ih ⊢
      rw [ih (by simp)]
      simp

theorem flush_lines {t t' : Tx} (h : t.flush = some t') : txLines t' = txLines t ∧ LastOk t' := by
  unfold Tx.flush at h
  split at h
  · simp at h
  · simp at h; subst h
    exact ⟨by simp [txLines], by intro h; simp at h⟩

theorem insertLabel_lines {t t' : Tx} {k : Bytes} (h : t.insertLabel k = some t') (hl : LastOk t) :
    txLines t' = txLines t ∧ LastOk t' := by
  unfold Tx.insertLabel at h
  split at h
  · simp [Option.map_eq_some_iff] at h
    obtain ⟨a, ha, rfl⟩ := h
    have := flush_lines ha
    exact ⟨by simpa [txLines] using this.1, by simpa [LastOk] using this.2⟩
  · simp at h; subst h
    exact ⟨by simp [txLines], by simpa [LastOk] using hl⟩

theorem insertLabels_lines {t t' : Tx} {ks : List Bytes} (h : t.insertLabels ks = some t') (hl : LastOk t) :
    txLines t' = txLines t ∧ LastOk t' := by
  induction ks generalizing t with
  | nil => simp [Tx.insertLabels] at h; subst h; exact ⟨rfl, hl⟩
  | cons k ks ih =>
    simp only [Tx.insertLabels] at h
    split at h
    · simp at h
    · rename_i t1 h1
      have a := insertLabel_lines h1 hl
      have b := ih h a.2
      exact ⟨b.1.trans a.1, b.2⟩

theorem insertRecordNew_lines {t t' : Tx} {r : Res} (h : t.insertRecordNew r = some t') :
    txLines t' = txLines t ++ [r.line] ∧ LastOk t' := by
  unfold Tx.insertRecordNew at h
  simp only at h
  split at h
  · simp at h
  · rename_i t2 h2
    simp at h; subst h
    have := insertLabels_lines h2 (by intro _; simp)
    refine ⟨?_, by simpa [LastOk] using this.2⟩
    have e := this.1
    simp only [txLines] at e ⊢
    rw [e]; simp

theorem insertRecord_lines {t t' : Tx} {r : Res} (h : t.insertRecord r = some t') (hl : LastOk t) :
    txLines t' = txLines t ++ [r.line] ∧ LastOk t' := by
  unfold Tx.insertRecord at h
  split at h
  · rename_i ll ln hlast
    split at h
    · simp at h; subst h
      have hne : t.pendRec ≠ [] := hl (by simp [hlast])
      refine ⟨?_, ?_⟩
      · simp only [txLines, List.flatMap_append]
        rw [appendLine_lines _ _ hne]; simp
      · intro _
        simp only
        cases hp : t.pendRec with
        | nil => exact absurd hp hne
        | cons a as => cases as <;> simp [appendLine]
    · exact insertRecordNew_lines h
  · exact insertRecordNew_lines h

theorem insertRecords_lines {t t' : Tx} {rs : List Res} (h : t.insertRecords rs = some t') (hl : LastOk t) :
    txLines t' = txLines t ++ rs.map (·.line) ∧ LastOk t' := by
  induction rs generalizing t with
  | nil => simp [Tx.insertRecords] at h; subst h; exact ⟨by simp, hl⟩
  | cons r rs ih =>
    simp only [Tx.insertRecords] at h
    split at h
    · simp at h
    · rename_i t1 h1
      have a := insertRecord_lines h1 hl
      have b := ih h a.2
      exact ⟨by rw [b.1, a.1]; simp, b.2⟩

theorem readResults_lines (perm : Labels) (lines : List Bytes) (labels : Labels) :
    (readResults perm lines labels).map (·.line) = lines.filter isResultLine := by
  induction lines generalizing labels with
  | nil => simp [readResults]
  | cons l rest ih =>
    simp only [readResults]
    cases hkv : parseKV l with
    | some kv =>
      obtain ⟨k, v⟩ := kv
      simp only []
      have : isResultLine l = false := by simp [isResultLine, hkv]
      split
      · rw [ih]; simp [this]
      · split
        · rw [ih]; simp [this]
        · rw [ih]; simp [this]
    | none =>
      simp only []
      cases hb : benchName l with
      | some name => simp [isResultLine, hkv, hb, ih]
      | none =>
        simp only []
        have : isResultLine l = false := by simp [isResultLine, hkv, hb]
        rw [ih]; simp [this]

/-- the benchmark lines of a file -/
def fileLines (content : Bytes) : List Bytes := (splitLines content).filter isResultLine

theorem indexFile_lines (env : Env) (f : Option Fault) (r : Run) (t : Tx) (x : FileIn)
    (h : (indexFile env f r t x).2.2 = none) (hl : LastOk t) :
    txLines (indexFile env f r t x).2.1 = txLines t ++ fileLines x.content ∧ LastOk (indexFile env f r t x).2.1 := by
  unfold indexFile at h ⊢
  simp only at h ⊢
  split at h
  · simp at h
  · split at h
    · simp [failFile] at h
    · split at h
      · simp [failFile] at h
      · split at h
        · simp [failFile] at h
        · rename_i t' ht'
          have := insertRecords_lines ht' hl
          rw [readResults_lines] at this
          split at h
          · simp [failFile] at h
          · split at h
            · simp [failFile] at h
            · split at h
              · simp at h
              · rw [if_neg (by assumption), if_neg (by assumption), if_neg (by assumption),
                  if_neg (by assumption), if_neg (by assumption), if_neg (by assumption)]
                exact this

def partsLines : List Part → List Bytes
  | [] => []
  | Part.field _ :: ps => partsLines ps
  | Part.file _ content _ _ :: ps => fileLines content ++ partsLines ps

theorem runParts_lines (env : Env) (f : Option Fault) (ps : List Part) (i : Nat) (r : Run)
    (h : (runParts env f ps i r).2 = none) (hl : ∀ t, r.tx = some t → LastOk t) :
    ∀ t', (runParts env f ps i r).1.tx = some t' →
      LastOk t' ∧ txLines t' = (match r.tx with | some t => txLines t | none => []) ++ partsLines ps := by
  induction ps generalizing i r with
  | nil =>
    simp only [runParts]
    intro t' ht'
    rw [ht']; exact ⟨hl t' ht', by simp [partsLines]⟩
  | cons p ps ih =>
    cases p with
    | field name =>
      simp only [runParts] at h ⊢
      split at h
      · rename_i hn
        rw [if_pos hn]
        simpa [partsLines] using ih _ _ h hl
      · simp at h
    | file fname content cut chunks =>
      have key : ∀ (r1 : Run) (t : Tx), LastOk t →
          let res := indexFile env f r1 t ⟨i, fname, content, cut, chunks⟩
          let r2 : Run := { res.1 with tx := some res.2.1 }
          let out := match res.2.2 with
            | some e => (r2, some e)
            | none => runParts env f ps (i + 1) { r2 with fileids := r2.fileids ++ [(⟨t.id, i⟩ : Path)] }
          out.2 = none → ∀ t', out.1.tx = some t' →
            LastOk t' ∧ txLines t' = txLines t ++ partsLines (Part.file fname content cut chunks :: ps) := by
        intro r1 t hlt res r2 out hout
        cases he : res.2.2 with
        | some e => simp [out, he] at hout
        | none =>
          have h1 := indexFile_lines env f r1 t ⟨i, fname, content, cut, chunks⟩ he hlt
          have hout' : (runParts env f ps (i + 1) { r2 with fileids := r2.fileids ++ [(⟨t.id, i⟩ : Path)] }).2 = none := by
            simpa [out, he] using hout
          have h2 := ih _ _ hout' (by intro t0 ht0; simp [r2] at ht0; subst ht0; exact h1.2)
          intro t' ht'
          have ht'' : (runParts env f ps (i + 1) { r2 with fileids := r2.fileids ++ [(⟨t.id, i⟩ : Path)] }).1.tx = some t' := by
            simpa [out, he] using ht'
          have := h2 t' ht''
          refine ⟨this.1, ?_⟩
          rw [this.2]
          simp only [r2, partsLines]
          rw [h1.1]; simp
      simp only [runParts] at h ⊢
      cases htx : r.tx with
      | some t => rw [htx] at h; exact key r t (hl t htx) h
      | none =>
        rw [htx] at h
        simp only [] at h ⊢
        cases hal : allocId env.day r.uploads with
        | none => rw [hal] at h; simp at h
        | some k =>
          rw [hal] at h
          have := key ⟨r.uploads ++ [k], r.fs, none, r.opc, r.trace, r.fileids, r.inprog⟩ { id := k }
            (by intro h; simp at h) h
          intro t' ht'
          have h3 := this t' ht'
          refine ⟨h3.1, ?_⟩
          rw [h3.2]
          simp [txLines]
theorem results_lines_of (rows : List RRow) (k : UKey) (h : ∀ row ∈ rows, row.up = k) :
    (((rows.flatMap fun r => r.lines.map fun l => (r, l)).filter fun x => x.1.up == k).map (·.2)) =
      rows.flatMap (·.lines) := by
  induction rows with
  | nil => rfl
  | cons r rs ih =>
    simp only [List.flatMap_cons, List.filter_append, List.map_append]
    rw [ih (fun row hr => h row (List.mem_cons_of_mem _ hr))]
    congr 1
    have hk := h r (by simp)
    rw [List.filter_eq_self.mpr (by intro x hx; simp at hx; obtain ⟨_, _, rfl⟩ := hx; simp [hk])]
    simp only [List.map_map]
    have : ((fun x : RRow × Bytes => x.snd) ∘ fun l => (r, l)) = id := by funext l; rfl
    rw [this]; simp

theorem results_none_of (rows : List RRow) (k : UKey) (h : ∀ row ∈ rows, row.up ≠ k) :
    ((rows.flatMap fun r => r.lines.map fun l => (r, l)).filter fun x => x.1.up == k) = [] := by
  rw [List.filter_eq_nil_iff]
  intro x hx
  simp at hx
  obtain ⟨row, hrow, _, _, rfl⟩ := hx
  simpa using h row hrow

theorem success_records (env : Env) (req : Req) (s : Sys) (w : WfCore s) (k : UKey) (fids : List Path)
    (h : (processUpload env req s).resp = .ok (k, fids)) :
    ((processUpload env req s).sys.db.queryUpload k).map (·.2) = partsLines req.parts ∧
      k ∉ s.db.uploads ∧ (processUpload env req s).alloc = some k := by
  rcases processUpload_cases env req s with ⟨e, h'⟩ | ⟨t, t', h2, _, htx, hfl, h'⟩
  · rw [h'] at h; simp [abortOutcome] at h
  · rw [h'] at h ⊢
    simp at h
    obtain ⟨rfl, _⟩ := h
    rcases run0_step env req s with ⟨h1, _, _⟩ | ⟨t0, h1, hal, _, _, hrows⟩
    · rw [h1] at htx; cases htx
    · rw [h1] at htx; cases htx
      have hfresh := allocId_fresh hal
      have hl := runParts_lines env req.fault req.parts 0 ⟨s.db.uploads, s.fs, none, 0, [], [], none⟩ h2
        (by intro t ht; simp at ht) t h1
      have hfr := flush_rows hfl hrows
      have hfl2 := flush_lines hfl
      refine ⟨?_, hfresh, rfl⟩
      simp only [DB.queryUpload, DB.results, List.flatMap_append, List.filter_append, List.map_append]
      rw [results_none_of s.db.records t.id (fun row hr hk => hfresh (hk ▸ w.recs row hr))]
      rw [results_lines_of t'.txRec t.id (fun row hr => by
        have := hfr.1 row (by simp [hr]); rw [this, flush_id hfl])]
      have e1 : txLines t' = t'.txRec.flatMap (·.lines) := by simp [txLines, hfr.2.1]
      rw [← e1, hfl2.1, hl.2]
      simp
end C20
