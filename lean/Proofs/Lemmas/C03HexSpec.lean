/-
C03: `atofHex` against the specification (`Parsed.eval` of a hex literal).
-/
import Proofs.Lemmas.C03Hex
import Proofs.Lemmas.C03Range

namespace C03
open Num F64 Spec.NumText

theorem overflows_two (m : Nat) (e : Int) :
    overflows 2 m e = decide (overflowThreshold * (toFrac m e).2 ≤ (toFrac m e).1) := by
  unfold overflows toFrac
  by_cases h : e ≥ 0
  · simp only [h, if_true, Nat.mul_one]
  · simp only [h, if_false]

theorem signed_inf (neg : Bool) : signed neg posInf = F64.inf neg := by cases neg <;> decide

/-- **atofHex = the specification of a hex literal**, for every `uint64` mantissa, every exponent
and sign (no truncated digits). -/
theorem atofHex_spec (m : Nat) (e : Int) (neg : Bool) (hm : m < 2 ^ 64) :
    (atofHex m e neg false).toExcept = Parsed.eval { neg := neg, hex := true, mant := m, exp := e } ∧
    ((atofHex m e neg false).err = some .range → (atofHex m e neg false).val = F64.inf neg) := by
  rw [atofHex_correct m e neg hm]
  unfold Parsed.eval
  simp only [if_true]
  by_cases h0 : m = 0
  · subst h0
    have : overflows 2 0 e = false := by
      rw [overflows_two]
      have hT : 0 < overflowThreshold := by decide +kernel
      have hd := toFrac_snd_pos 0 e
      have hn : (toFrac 0 e).1 = 0 := by unfold toFrac; split <;> simp
      rw [hn]
      have := Nat.mul_pos hT hd
      simp; omega
    simp [this, FloatRes.toExcept, ofBinary]
  · rw [if_neg h0, overflows_two]
    have hd := toFrac_snd_pos m e
    have hiff := roundMag_inf_iff (toFrac m e).1 (toFrac m e).2 hd
    have hob : ofBinary neg m e = signed neg (roundMag (toFrac m e).1 (toFrac m e).2) := by
      unfold ofBinary
      have : (m == 0) = false := by simpa using h0
      simp only [this, Bool.false_eq_true, if_false]
      rfl
    by_cases hinf : roundMag (toFrac m e).1 (toFrac m e).2 = posInf
    · have := hiff.mp hinf
      simp only [hinf, if_true, this, decide_true, FloatRes.toExcept]
      exact ⟨trivial, fun _ => signed_inf neg⟩
    · have : ¬ overflowThreshold * (toFrac m e).2 ≤ (toFrac m e).1 := fun h => hinf (hiff.mpr h)
      simp only [hinf, if_false, this, decide_false, Bool.false_eq_true, FloatRes.toExcept, hob]
      exact ⟨trivial, fun h => by cases h⟩

end C03
