/-
C03 — the mirrored decimal slow path, part 6: `decimal.set` against the specification's recogniser.
-/
import Proofs.Lemmas.C03DecFB

namespace C03
open Num Spec.NumText

/-! ### `set`'s digit loop stops exactly where `readFloat`'s does -/

theorem setLoop_us (cs : Bytes) (st : SetSt) : setLoop (95 :: cs) st = setLoop cs st := by
  conv => lhs; unfold setLoop
  simp

/-- the two loops, run on the same text from states with the same flags, fail together or stop
at the same place with the same flags -/
theorem setLoop_sim (t : Bytes) : ∀ (ss : SetSt) (ms : MS), ss.sawdot = ms.sawdot → ss.sawdigits = ms.sawdigits →
    (ss.nd = 0 ↔ ms.nd = 0) →
    (setLoop t ss).map (fun p => (p.1.sawdot, p.1.sawdigits, p.2)) =
      (mantLoop false t ms).map (fun p => (p.1.sawdot, p.1.sawdigits, p.2)) := by
  induction t with
  | nil => intro ss ms h1 h2 _; simp [setLoop, mantLoop, h1, h2]
  | cons c cs ih =>
    intro ss ms h1 h2 h3
    by_cases h95 : c = 95
    · subst h95; rw [setLoop_us, mantLoop_us]; exact ih ss ms h1 h2 h3
    · have e95 : (c == 95) = false := by simpa using h95
      conv => lhs; unfold setLoop
      conv => rhs; unfold mantLoop
      simp only [e95, Bool.false_eq_true, if_false, Bool.false_and]
      by_cases h46 : (c == 46) = true
      · simp only [h46, if_true, h1]
        cases ms.sawdot
        · simp only [Bool.false_eq_true, if_false]
          exact ih _ _ rfl h2 h3
        · simp
      · simp only [h46, Bool.false_eq_true, if_false]
        by_cases hd : (48 ≤ c && c ≤ 57) = true
        · simp only [hd, if_true]
          have hz : (ss.nd == 0) = (ms.nd == 0) := by
            by_cases h : ms.nd = 0
            · simp [h, h3.mpr h]
            · have : ss.nd ≠ 0 := fun h' => h (h3.mp h')
              simp [h, this]
          rw [hz]
          by_cases hlz : (c == 48 && ms.nd == 0) = true
          · simp only [hlz, if_true]
            exact ih _ _ h1 rfl h3
          · simp only [hlz, Bool.false_eq_true, if_false]
            -- every remaining branch counts a digit in mantLoop; set may or may not store it
            have hms : ∀ ms', ms'.nd = ms.nd + 1 → ms'.sawdot = ms.sawdot → ms'.sawdigits = true →
                ∀ ss', (ss'.nd = 0 ↔ ms'.nd = 0) → ss'.sawdot = ss.sawdot → ss'.sawdigits = true →
                (setLoop cs ss').map (fun p => (p.1.sawdot, p.1.sawdigits, p.2)) =
                  (mantLoop false cs ms').map (fun p => (p.1.sawdot, p.1.sawdigits, p.2)) :=
              fun ms' _ b c' ss' d e f => ih ss' ms' (by rw [e, b, h1]) (by rw [f, c']) d
            have hnz : ss.nd ≠ 0 ∨ c ≠ 48 := by
              by_cases h : ms.nd = 0
              · right; intro hc; apply hlz; simp [hc, h]
              · left; exact fun h' => h (h3.mp h')
            by_cases hcap : ss.nd < bufLen
            · simp only [hcap, if_true]
              repeat' split
              all_goals
                exact ih _ _ h1 rfl (by constructor <;> intro h <;> simp only [] at h <;> omega)
            · simp only [hcap, if_false]
              have hss : ss.nd ≠ 0 := by have : bufLen = 800 := rfl; omega
              repeat' split
              all_goals
                exact ih _ _ h1 rfl (by constructor <;> intro h <;> simp only [] at h <;> omega)
        · simp only [hd, Bool.false_eq_true, if_false, Option.map_some, h1, h2]

/-! ### the digits `set` stores are the digits of the reference value -/

structure SInv (ss : SetSt) (M F : Nat) : Prop where
  v : valOf 10 ss.acc.reverse = M
  len : ss.acc.length = ss.nd
  dig : ss.acc.all isDec = true
  d3 : ss.sawdot = true → (ss.nd : Int) - ss.dp = F
  d4 : ss.sawdot = false → F = 0
  lead : ∀ c cs, ss.acc.reverse = c :: cs → c ≠ 48
  tr : ss.trunc = false

theorem sinv_init : SInv {} 0 0 := by
  constructor <;> simp [valOf]

theorem refMant_ge (hex : Bool) (t : Bytes) : ∀ (M F : Nat) (dot : Bool), M ≤ (refMant hex t M F dot).1 := by
  induction t with
  | nil => intro M F dot; exact Nat.le_refl _
  | cons c cs ih =>
    intro M F dot
    unfold refMant
    simp only []
    split
    · exact ih _ _ _
    · split
      · exact ih _ _ _
      · split
        · have hb : 0 < (if hex = true then 16 else 10) := by split <;> decide
          calc M ≤ M * (if hex = true then 16 else 10) := Nat.le_mul_of_pos_right _ hb
            _ ≤ M * (if hex = true then 16 else 10) + digVal c := Nat.le_add_right _ _
            _ ≤ _ := ih _ _ _
        · exact Nat.le_refl _

theorem setLoop_inv (t : Bytes) : ∀ (ss : SetSt) (M F : Nat), SInv ss M F →
    (refMant false t M F ss.sawdot).1 < 10 ^ 800 →
    ∀ ss' rest, setLoop t ss = some (ss', rest) →
    SInv ss' (refMant false t M F ss.sawdot).1 (refMant false t M F ss.sawdot).2 := by
  induction t with
  | nil =>
    intro ss M F inv _ ss' rest h
    simp only [setLoop, Option.some.injEq, Prod.mk.injEq] at h
    obtain ⟨rfl, _⟩ := h
    simpa [refMant] using inv
  | cons c cs ih =>
    intro ss M F inv hlt ss' rest h
    by_cases h95 : c = 95
    · subst h95
      rw [setLoop_us] at h; rw [refMant_us] at hlt ⊢
      exact ih ss M F inv hlt ss' rest h
    · have e95 : (c == 95) = false := by simpa using h95
      unfold setLoop at h
      simp only [e95, Bool.false_eq_true, if_false] at h
      by_cases h46 : c = 46
      · subst h46
        rw [refMant_dot] at hlt ⊢
        simp only [beq_self_eq_true, if_true] at h
        by_cases hs : ss.sawdot = true
        · simp [hs] at h
        · simp only [Bool.not_eq_true] at hs
          simp only [hs, Bool.false_eq_true, if_false] at h
          have hF := inv.d4 hs
          have inv' : SInv { ss with sawdot := true, dp := ss.nd } M F :=
            ⟨inv.v, inv.len, inv.dig, fun _ => by simp [hF], fun h => by simp at h, inv.lead, inv.tr⟩
          exact ih _ M F inv' hlt ss' rest h
      · have e46 : (c == 46) = false := by simpa using h46
        simp only [e46, Bool.false_eq_true, if_false] at h
        rw [(mant_byte_facts c).1] at h
        by_cases hdec : isDec c = true
        · obtain ⟨hv, h9, _, _, h0⟩ := (mant_byte_facts c).2.1 hdec
          have hdS : digS false c = true := hdec
          rw [refMant_dig false c cs M F _ hdS] at hlt ⊢
          have hb10 : baseOf false = 10 := rfl
          rw [hb10] at hlt ⊢
          simp only [hdec, if_true] at h
          by_cases hz : (c == 48 && ss.nd == 0) = true
          · simp only [hz, if_true] at h
            simp only [Bool.and_eq_true, beq_iff_eq] at hz
            have hd0 : digVal c = 0 := h0.mp (by simp [hz.1])
            have hacc : ss.acc = [] := List.length_eq_zero_iff.mp (by rw [inv.len, hz.2])
            have hM : M = 0 := by have := inv.v; rw [hacc] at this; simpa [valOf] using this.symm
            have inv' : SInv { ss with sawdigits := true, dp := ss.dp - 1 } (M * 10 + digVal c) (if ss.sawdot then F + 1 else F) := by
              refine ⟨by rw [hM, hd0]; simpa [hM] using inv.v, inv.len, inv.dig, fun hs => ?_, fun hs => ?_, inv.lead, inv.tr⟩
              · have := inv.d3 hs
                simp only at hs; simp only [hs, if_true]; push_cast; omega
              · have := inv.d4 hs
                simp only at hs; simp [hs, this]
            exact ih _ _ _ inv' hlt ss' rest h
          · simp only [hz, Bool.false_eq_true, if_false] at h
            by_cases hcap : ss.nd < bufLen
            · simp only [hcap, if_true] at h
              have inv' : SInv { ss with sawdigits := true, acc := c :: ss.acc, nd := ss.nd + 1 }
                  (M * 10 + digVal c) (if ss.sawdot then F + 1 else F) := by
                refine ⟨?_, by simp [inv.len], by simp [hdec, inv.dig], fun hs => ?_, fun hs => ?_, ?_, inv.tr⟩
                · show valOf 10 (c :: ss.acc).reverse = M * 10 + digVal c
                  rw [List.reverse_cons, valOf_snoc, inv.v]
                · have := inv.d3 hs
                  simp only at hs; simp only [hs, if_true]; push_cast; omega
                · have := inv.d4 hs
                  simp only at hs; simp [hs, this]
                · intro x xs hx
                  simp only [List.reverse_cons] at hx
                  cases hr : ss.acc.reverse with
                  | nil =>
                    rw [hr] at hx; simp at hx
                    have hnd0 : ss.nd = 0 := by
                      have : ss.acc = [] := by simpa using hr
                      rw [← inv.len, this]; rfl
                    intro h48
                    apply hz
                    simp [hx.1, h48, hnd0]
                  | cons y ys =>
                    rw [hr] at hx
                    injection hx with hx _
                    rw [← hx]; exact inv.lead y ys hr
              exact ih _ _ _ inv' hlt ss' rest h
            · -- the buffer is full: more than 800 significant digits, excluded by the bound
              exfalso
              have hb : bufLen = 800 := rfl
              have hlen : 800 ≤ ss.acc.reverse.length := by rw [List.length_reverse, inv.len]; omega
              have hMlo : 10 ^ 799 ≤ M := by
                cases hr : ss.acc.reverse with
                | nil => rw [hr] at hlen; simp at hlen
                | cons y ys =>
                  have hdy : isDec y = true := by
                    have := inv.dig
                    rw [← List.all_reverse, hr, List.all_cons, Bool.and_eq_true] at this
                    exact this.1
                  have := valOf_ge_of_head ss.acc.reverse y ys hr hdy (inv.lead y ys hr)
                  rw [inv.v] at this
                  calc 10 ^ 799 ≤ 10 ^ (ss.acc.reverse.length - 1) := Nat.pow_le_pow_right (by decide) (by omega)
                    _ ≤ M := this
              have hge := refMant_ge false cs (M * 10 + digVal c) (if ss.sawdot then F + 1 else F) ss.sawdot
              have : (10 : Nat) ^ 800 = 10 ^ 799 * 10 := by rw [← Nat.pow_succ]
              omega
        · simp only [Bool.not_eq_true] at hdec
          simp only [hdec, Bool.false_eq_true, if_false, Option.some.injEq, Prod.mk.injEq] at h
          obtain ⟨rfl, _⟩ := h
          have hdS : digS false c = false := hdec
          rw [refMant_stop false (c :: cs) M F _ (Or.inr ⟨c, cs, rfl, h95, h46, hdS⟩)]
          exact inv

/-! ### `decimal.set` as a whole -/

/-- the decimal `set` builds from its loop state and the exponent adjustment -/
def mkDc (st : SetSt) (neg : Bool) (x : Int) : Dc :=
  { d := st.acc.reverse, dp := (if !st.sawdot then (st.nd : Int) else st.dp) + x, neg := neg, trunc := st.trunc }

theorem decSet_cons (c0 : UInt8) (tl : Bytes) :
    decSet (c0 :: tl) =
      match setLoop (bodyOf c0 tl) {} with
      | none => none
      | some (st, rest) =>
        if !st.sawdigits then none
        else (tailAdj false rest).map (fun x => mkDc st (c0 == 45) x) := by
  unfold decSet bodyOf
  simp only []
  cases hs : setLoop (if (c0 == 43 || c0 == 45) = true then tl else c0 :: tl) {} with
  | none => rfl
  | some p =>
    obtain ⟨st, rest⟩ := p
    simp only []
    by_cases hsd : st.sawdigits = true
    · simp only [hsd, Bool.not_true, Bool.false_eq_true, if_false]
      unfold tailAdj mkDc
      cases rest with
      | nil => simp
      | cons c r1 =>
        simp only [Bool.false_eq_true, if_false]
        by_cases hc : (lower c == 101) = true
        · simp only [hc, if_true]
          cases r1 with
          | nil => simp [expPart]
          | cons c1 r2 =>
            unfold expPart
            simp only []
            cases hr3 : (if (c1 == 43 || c1 == 45) = true then r2 else c1 :: r2) with
            | nil => simp
            | cons c2 rr =>
              simp only []
              by_cases hd : (c2 < 48 || c2 > 57) = true
              · simp [hd]
              · simp only [hd, Bool.false_eq_true, if_false]
                cases hr4 : (expLoop (c2 :: rr) 0).2 with
                | nil =>
                  have : expLoop (c2 :: rr) 0 = ((expLoop (c2 :: rr) 0).1, []) := by rw [← hr4]
                  rw [this]; simp
                | cons a b =>
                  have : expLoop (c2 :: rr) 0 = ((expLoop (c2 :: rr) 0).1, a :: b) := by rw [← hr4]
                  rw [this]; simp
        · simp [hc]
    · simp [hsd]

/-- the body of `set` (after the sign) on a text obeying the underscore rule, against `parseBody` -/
theorem setBody_spec (neg : Bool) (t : Bytes) (prev : Bool) (hu : underscoresOK isDec prev t = true) :
    (parseBody isDec 10 101 1 false (strip t) = none →
      (match setLoop t {} with
        | none => (none : Option Dc)
        | some (st, rest) => if !st.sawdigits then none else (tailAdj false rest).map (fun x => mkDc st neg x)) = none) ∧
    (∀ M E, parseBody isDec 10 101 1 false (strip t) = some (M, E) → M < 10 ^ 800 →
      ∃ d, (match setLoop t {} with
        | none => (none : Option Dc)
        | some (st, rest) => if !st.sawdigits then none else (tailAdj false rest).map (fun x => mkDc st neg x)) = some d ∧
        WF d ∧ d.trunc = false ∧ d.neg = neg ∧ (M = 0 → d.d = []) ∧
        (M ≠ 0 → d.d ≠ [] ∧ dval d = (M : ℚ) * (10 : ℚ) ^ (E + expGap isDec (strip t)))) := by
  have hpb := parseBody_eq2 false (strip t)
  have ed : digS false = isDec := rfl
  have eb : baseOf false = 10 := rfl
  simp only [ed, eb, Bool.false_eq_true, if_false] at hpb
  rw [hpb]
  have hsim := setLoop_sim t {} {} rfl rfl (by simp)
  have hu' : underscoresOK (digS false) prev t = true := hu
  rcases mant_phase false t with ⟨hm, r'', hr2⟩ | ⟨ms, rest, hm, hstrip, hsd, href⟩
  · -- second point
    rw [hm] at hsim
    have hs : setLoop t {} = none := by
      cases h : setLoop t {} with
      | none => rfl
      | some p => rw [h] at hsim; simp at hsim
    rw [hs, ed] at *
    rw [hr2, spTail_dot]
    exact ⟨fun _ => rfl, fun M E h => by split at h <;> simp at h⟩
  · rw [hm] at hsim
    rw [ed] at hstrip hsd href
    cases hs : setLoop t {} with
    | none => rw [hs] at hsim; simp at hsim
    | some p =>
      obtain ⟨ss, rest'⟩ := p
      rw [hs] at hsim
      simp only [Option.map_some, Option.some.injEq, Prod.mk.injEq] at hsim
      obtain ⟨hdot, hdig, hrest⟩ := hsim
      subst hrest
      simp only []
      by_cases hnd : (((strip t).takeWhile isDec).isEmpty && (spFP isDec (strip t)).isEmpty) = true
      · rw [if_pos hnd]
        have : ss.sawdigits = false := by rw [hdig, hsd, hnd]; rfl
        simp only [this, Bool.not_false, if_true]
        exact ⟨fun _ => trivial, fun M E h => by cases h⟩
      · rw [if_neg hnd]
        have hsd' : ss.sawdigits = true := by
          rw [hdig, hsd]; simp only [Bool.not_eq_true] at hnd; rw [hnd]; rfl
        simp only [hsd', Bool.not_true, Bool.false_eq_true, if_false]
        obtain ⟨t1, t2⟩ := tail_spec false rest' (mantLoop_rest false t {} ms rest' hm) (mantLoop_uok false t prev {} ms rest' hu' hm)
        rw [hstrip] at t1 t2
        cases hsp : spTail false (spR2 isDec (strip t)) with
        | none =>
          rw [t1 hsp]
          exact ⟨fun _ => rfl, fun M E h => by simp at h⟩
        | some x =>
          obtain ⟨y, hy, hyx⟩ := t2 x hsp
          rw [hy]
          refine ⟨fun h => by simp at h, fun M E h hM => ?_⟩
          simp only [Option.map_some, Option.some.injEq, Prod.mk.injEq] at h
          obtain ⟨hMe, hEe⟩ := h
          have hyx' : y = x + expGap isDec (strip t) := by unfold expGap; exact hyx
          have hrefM : (refMant false t 0 0 false).1 = M := by rw [href]; exact hMe
          have sinv := setLoop_inv t {} 0 0 sinv_init (by show (refMant false t 0 0 false).1 < 10 ^ 800; rw [hrefM]; exact hM) ss rest' hs
          have hsv : valOf 10 ss.acc.reverse = M := by
            have := sinv.v; show valOf 10 ss.acc.reverse = M
            rw [← hrefM]; exact this
          have hF : (refMant false t 0 0 false).2 = (spFP isDec (strip t)).length := by rw [href]
          refine ⟨mkDc ss neg y, rfl, ?_, sinv.tr, rfl, ?_, ?_⟩
          · -- well-formed
            refine ⟨by show ss.acc.reverse.all isDec = true; rw [List.all_reverse]; exact sinv.dig, ?_, sinv.lead⟩
            show ss.acc.reverse.length ≤ bufLen
            cases hr : ss.acc.reverse with
            | nil => simp
            | cons c0 cs0 =>
              have hdc : isDec c0 = true := by
                have := sinv.dig
                rw [← List.all_reverse, hr, List.all_cons, Bool.and_eq_true] at this; exact this.1
              have hlo := valOf_ge_of_head ss.acc.reverse c0 cs0 hr hdc (sinv.lead c0 cs0 hr)
              rw [hsv, hr] at hlo
              apply Classical.byContradiction; intro hgt
              have : (10 : Nat) ^ 800 ≤ 10 ^ ((c0 :: cs0).length - 1) := Nat.pow_le_pow_right (by decide) (by
                have : bufLen = 800 := rfl
                omega)
              omega
          · intro hM0
            show ss.acc.reverse = []
            cases hr : ss.acc.reverse with
            | nil => rfl
            | cons c0 cs0 =>
              have hdc : isDec c0 = true := by
                have := sinv.dig
                rw [← List.all_reverse, hr, List.all_cons, Bool.and_eq_true] at this; exact this.1
              have hlo := valOf_ge_of_head ss.acc.reverse c0 cs0 hr hdc (sinv.lead c0 cs0 hr)
              rw [hsv, hM0] at hlo
              have := Nat.pow_pos (n := ss.acc.reverse.length - 1) (by decide : 0 < 10)
              omega
          · intro hM0
            constructor
            · show ss.acc.reverse ≠ []
              intro hnil
              rw [hnil] at hsv
              exact hM0 (by simpa [valOf] using hsv.symm)
            · show (valOf 10 ss.acc.reverse : ℚ) * (10 : ℚ) ^ ((if !ss.sawdot then (ss.nd : Int) else ss.dp) + y - (ss.acc.reverse.length : Int))
                  = (M : ℚ) * (10 : ℚ) ^ (E + expGap isDec (strip t))
              rw [hsv]
              congr 2
              rw [List.length_reverse, sinv.len, hyx', ← hEe]
              cases hsd0 : ss.sawdot
              · have := sinv.d4 hsd0
                rw [hF] at this
                simp only [Bool.not_false, if_true, this]; push_cast; omega
              · have := sinv.d3 hsd0
                rw [hF] at this
                simp only [Bool.not_true, Bool.false_eq_true, if_false]; push_cast; omega

/-- `0x…`, `0b…`, `0o…`: `set` reads the `0`, stops at the letter and fails -/
theorem setBody_zero_letter (neg : Bool) (x : UInt8) (r : Bytes)
    (h95 : x ≠ 95) (h46 : x ≠ 46) (hd : isDec x = false) (he : (lower x == 101) = false) :
    (match setLoop (48 :: x :: r) {} with
      | none => (none : Option Dc)
      | some (st, rest) => if !st.sawdigits then none else (tailAdj false rest).map (fun y => mkDc st neg y)) = none := by
  obtain ⟨st2, _, g2, g3⟩ := mantLoop_block false [48] (by decide) {}
  have hm : mantLoop false (48 :: x :: r) {} = some (st2, x :: r) := by
    have := g3 (x :: r)
    rw [List.singleton_append] at this
    rw [this]
    exact mantLoop_stop false (x :: r) st2 (Or.inr ⟨x, r, rfl, h95, h46, hd⟩)
  have hsim := setLoop_sim (48 :: x :: r) {} {} rfl rfl (by simp)
  rw [hm] at hsim
  cases hs : setLoop (48 :: x :: r) {} with
  | none => rfl
  | some p =>
    obtain ⟨ss, rest'⟩ := p
    rw [hs] at hsim
    simp only [Option.map_some, Option.some.injEq, Prod.mk.injEq] at hsim
    obtain ⟨_, _, hrest⟩ := hsim
    subst hrest
    simp only []
    have : tailAdj false (x :: r) = none := by unfold tailAdj; simp [he]
    rw [this]
    split <;> rfl

/-- **`decimal.set` against the specification's recogniser**, for texts that passed
`underscoreOK`: it fails exactly when the recogniser rejects the text or sees a hex literal;
otherwise (mantissa of at most 800 significant digits) it builds a well-formed, untruncated
decimal with the numeral's sign and the value of the numeral as the code reads it (exponent
literal clamped: `expGapS`, 0 below 100000). -/
theorem decSet_spec (s : Bytes) (hu : underscoreOK s = true) :
    (recognise s = none → decSet s = none) ∧
    (∀ p, recognise s = some p → p.hex = true → decSet s = none) ∧
    (∀ p, recognise s = some p → p.hex = false → p.mant < 10 ^ 800 →
      ∃ d, decSet s = some d ∧ WF d ∧ d.trunc = false ∧ d.neg = p.neg ∧ (p.mant = 0 → d.d = []) ∧
        (p.mant ≠ 0 → d.d ≠ [] ∧ dval d = valueOf (clampP p (expGapS s)))) := by
  cases s with
  | nil =>
    have : recognise [] = none := by decide
    exact ⟨fun _ => rfl, fun p h => (by rw [this] at h; cases h), fun p h => (by rw [this] at h; cases h)⟩
  | cons c0 tl =>
    rw [underscoreOK_cons] at hu
    rw [recognise_cons, decSet_cons]
    unfold expGapS
    rw [splitSign_cons]
    simp only []
    generalize bodyOf c0 tl = body at *
    rcases body_cases body with ⟨x, y, b, hb, hx⟩ | ⟨x, hb, hx⟩ | ⟨x, r, hb, hx⟩ | ⟨h1, h2, h3⟩
    · -- hex literal: set fails
      subst hb
      have e1 : (lower x == 120) = true := by simp [hx]
      have e2 : (lowerc x == 120) = true := by rw [← (prefix_byte_facts x).1]; exact e1
      have hp : isHexPrefix (48 :: x :: y :: b) = true := by simp [isHexPrefix, e2]
      obtain ⟨a1, a2, a3, a4⟩ := (prefix_byte_facts x).2.2 hx
      have hnone := setBody_zero_letter (c0 == 45) x (y :: b) a1 a2 a3 a4
      rw [hnone]
      simp only [hp, if_true]
      refine ⟨fun _ => (by first | rfl | trivial), fun p _ _ => (by first | rfl | trivial), fun p h hh => ?_⟩
      exfalso
      split at h
      · cases h
      · cases hpb : parseBody isHexDig 16 112 4 true (strip (List.drop 2 (48 :: x :: y :: b))) with
        | none => rw [hpb] at h; cases h
        | some q => rw [hpb] at h; simp only [Option.map_some, Option.some.injEq] at h; rw [← h] at hh; cases hh
    · subst hb
      have e1 : (lower x == 120) = true := by simp [hx]
      have e2 : (lowerc x == 120) = true := by rw [← (prefix_byte_facts x).1]; exact e1
      have hp : isHexPrefix [48, x] = true := by simp [isHexPrefix, e2]
      obtain ⟨a1, a2, a3, a4⟩ := (prefix_byte_facts x).2.2 hx
      have hnone := setBody_zero_letter (c0 == 45) x [] a1 a2 a3 a4
      rw [hnone]
      simp only [hp, if_true]
      have hpb : parseBody isHexDig 16 112 4 true (strip (List.drop 2 [48, x])) = none := by
        show parseBody isHexDig 16 112 4 true (strip []) = none
        decide
      rw [hpb]
      exact ⟨fun _ => (by first | rfl | trivial), fun p _ _ => (by first | rfl | trivial), fun p h => (by split at h <;> cases h)⟩
    · subst hb
      obtain ⟨a1, a2, a3, a4, a5, a6, a7⟩ := (prefix_byte_facts x).2.1 hx
      have e2 : (lowerc x == 120) = false := by simpa using a5
      have hp : isHexPrefix (48 :: x :: r) = false := by simp [isHexPrefix, e2]
      have hnone := setBody_zero_letter (c0 == 45) x r a1 a2 a3 a6
      rw [hnone]
      simp only [hp, Bool.false_eq_true, if_false]
      rw [strip_zero_letter x r a1, parseBody_zero_letter x (strip r) a2 a3 a7]
      exact ⟨fun _ => (by first | rfl | trivial), fun p _ _ => (by first | rfl | trivial), fun p h => (by split at h <;> cases h)⟩
    · -- decimal
      rw [h3, uloop_start] at hu
      have ed : digS false = isDec := rfl
      rw [ed] at hu
      simp only [h1, Bool.false_eq_true, if_false, hu, Bool.not_true]
      obtain ⟨k1, k2⟩ := setBody_spec (c0 == 45) body false hu
      refine ⟨fun h => ?_, fun p h hh => ?_, fun p h hh hM => ?_⟩
      · cases hpb : parseBody isDec 10 101 1 false (strip body) with
        | none => exact k1 hpb
        | some q => rw [hpb] at h; cases h
      · exfalso
        cases hpb : parseBody isDec 10 101 1 false (strip body) with
        | none => rw [hpb] at h; cases h
        | some q => rw [hpb] at h; simp only [Option.map_some, Option.some.injEq] at h; rw [← h] at hh; cases hh
      · cases hpb : parseBody isDec 10 101 1 false (strip body) with
        | none => rw [hpb] at h; cases h
        | some q =>
          obtain ⟨M, E⟩ := q
          rw [hpb] at h
          simp only [Option.map_some, Option.some.injEq] at h
          subst h
          obtain ⟨d, e1, e2, e3, e4, e5, e6⟩ := k2 M E hpb hM
          refine ⟨d, e1, e2, e3, e4, e5, fun hm0 => ?_⟩
          obtain ⟨f1, f2⟩ := e6 hm0
          refine ⟨f1, ?_⟩
          rw [f2]; unfold valueOf clampP; simp [h1]

end C03
