/-
C03 — the mirrored decimal slow path, part 6: `decimal.set` against the specification's recogniser.
-/
import Proofs.Lemmas.C03DecFB

namespace C03
open Num Spec.NumText

/-! ### `set`'s digit loop stops exactly where `readFloat`'s does -/

theorem setLoop_us (cs : Bytes) (st : SetSt) : setLoop (95 :: cs) st = setLoop cs st := by
  conv => lhs; unfold setLoop
  simp

/-- the two loops, run on the same text from states with the same flags, fail together or stop
at the same place with the same flags -/
theorem setLoop_sim (t : Bytes) : ∀ (ss : SetSt) (ms : MS), ss.sawdot = ms.sawdot → ss.sawdigits = ms.sawdigits →
    (ss.nd = 0 ↔ ms.nd = 0) →
    (setLoop t ss).map (fun p => (p.1.sawdot, p.1.sawdigits, p.2)) =
      (mantLoop false t ms).map (fun p => (p.1.sawdot, p.1.sawdigits, p.2)) := by
  induction t with
  | nil => intro ss ms h1 h2 _; simp [setLoop, mantLoop, h1, h2]
  | cons c cs ih =>
    intro ss ms h1 h2 h3
    by_cases h95 : c = 95
    · subst h95; rw [setLoop_us, mantLoop_us]; exact ih ss ms h1 h2 h3
    · have e95 : (c == 95) = false := by simpa using h95
      conv => lhs; unfold setLoop
      conv => rhs; unfold mantLoop
      simp only [e95, Bool.false_eq_true, if_false, Bool.false_and]
      by_cases h46 : (c == 46) = true
      · simp only [h46, if_true, h1]
        cases ms.sawdot
        · simp only [Bool.false_eq_true, if_false]
          exact ih _ _ rfl h2 h3
        · simp
      · simp only [h46, Bool.false_eq_true, if_false]
        by_cases hd : (48 ≤ c && c ≤ 57) = true
        · simp only [hd, if_true]
          have hz : (ss.nd == 0) = (ms.nd == 0) := by
            by_cases h : ms.nd = 0
            · simp [h, h3.mpr h]
            · have : ss.nd ≠ 0 := fun h' => h (h3.mp h')
              simp [h, this]
          rw [hz]
          by_cases hlz : (c == 48 && ms.nd == 0) = true
          · simp only [hlz, if_true]
            exact ih _ _ h1 rfl h3
          · simp only [hlz, Bool.false_eq_true, if_false]
            -- every remaining branch counts a digit in mantLoop; set may or may not store it
            have hms : ∀ ms', ms'.nd = ms.nd + 1 → ms'.sawdot = ms.sawdot → ms'.sawdigits = true →
                ∀ ss', (ss'.nd = 0 ↔ ms'.nd = 0) → ss'.sawdot = ss.sawdot → ss'.sawdigits = true →
                (setLoop cs ss').map (fun p => (p.1.sawdot, p.1.sawdigits, p.2)) =
                  (mantLoop false cs ms').map (fun p => (p.1.sawdot, p.1.sawdigits, p.2)) :=
              fun ms' _ b c' ss' d e f => ih ss' ms' (by rw [e, b, h1]) (by rw [f, c']) d
            have hnz : ss.nd ≠ 0 ∨ c ≠ 48 := by
              by_cases h : ms.nd = 0
              · right; intro hc; apply hlz; simp [hc, h]
              · left; exact fun h' => h (h3.mp h')
            by_cases hcap : ss.nd < bufLen
            · simp only [hcap, if_true]
              repeat' split
              all_goals
                exact ih _ _ h1 rfl (by constructor <;> intro h <;> simp only [] at h <;> omega)
            · simp only [hcap, if_false]
              have hss : ss.nd ≠ 0 := by have : bufLen = 800 := rfl; omega
              repeat' split
              all_goals
                exact ih _ _ h1 rfl (by constructor <;> intro h <;> simp only [] at h <;> omega)
        · simp only [hd, Bool.false_eq_true, if_false, Option.map_some, h1, h2]

end C03
