/-
C18 helper: the contributions of a table as the image of its list of test keys; that list has no
duplicates and its members are exactly the (trial, hash) pairs of the numerator measurements of the
table — whatever the insertion and iteration orders.  Well-formedness as propositions.
-/
import Proofs.Lemmas.C18Inv

namespace C18
open Series

/-- the contribution of a test key, read off the builder state -/
def mkC (env : Env) (b : Builder) (key : TrialKey × Bytes) : Contrib :=
  contribOf env b key.1 (key, (alookup key b.tests).getD [])

/-- the test keys of a table in visiting order -/
def keyList (it : Iter) (b : Builder) (t : TKey) : List (TrialKey × Bytes) :=
  (it.trials (trialsOf b t)).flatMap fun k => (it.tests (testsOf b k)).map (·.1)

theorem flatMap_congr' {α β} {l : List α} {f g : α → List β} (h : ∀ a ∈ l, f a = g a) :
    l.flatMap f = l.flatMap g := by
  induction l with
  | nil => rfl
  | cons a l ih =>
    simp only [List.flatMap_cons]
    rw [h a (by simp), ih fun b hb => h b (by simp [hb])]

theorem contribs_eq_map (env : Env) (o : Opts) (evs : List Ev) (it : Iter) (hv : it.Valid) (t : TKey) :
    contribs env it (build o evs) t = (keyList it (build o evs) t).map (mkC env (build o evs)) := by
  unfold contribs keyList
  rw [List.map_flatMap]
  apply flatMap_congr'
  intro k _
  rw [List.map_map]
  apply List.map_congr_left
  intro x hx
  have hx' : x ∈ testsOf (build o evs) k := (hv.tests _).mem_iff.mp hx
  obtain ⟨hm, hk⟩ := List.mem_filter.mp hx'
  have hk : x.1.1 = k := by simpa using hk
  have hl := (mem_tests_iff o evs x).mp hm
  simp only [Function.comp, mkC, hl, Option.getD_some, hk]

/-- membership in the key list, in terms of the measurements -/
theorem mem_keyList (o : Opts) (evs : List Ev) (it : Iter) (hv : it.Valid) (t : TKey) (key : TrialKey × Bytes) :
    key ∈ keyList it (build o evs) t ↔ ∃ e ∈ evs, e.isNum o = true ∧ e.tkey = t ∧ key = (e.trial, e.nh) := by
  unfold keyList
  simp only [List.mem_flatMap, List.mem_map]
  constructor
  · rintro ⟨k, hk, x, hx, rfl⟩
    have hk' := List.mem_filter.mp ((hv.trials _).mem_iff.mp hk)
    have hx' := List.mem_filter.mp ((hv.tests _).mem_iff.mp hx)
    have hxk : x.1.1 = k := by simpa using hx'.2
    have hkt : k.1 = t := by simpa using hk'.2
    have hl := (mem_tests_iff o evs x).mp hx'.1
    obtain ⟨e, he, hn, hkey⟩ := (test_present_iff o evs x.1).mp (by simp [hl])
    refine ⟨e, he, hn, ?_, hkey⟩
    have : x.1.1 = e.trial := by rw [hkey]
    have h2 : e.trial.1 = t := by rw [← this, hxk, hkt]
    exact h2
  · rintro ⟨e, he, hn, ht, rfl⟩
    have hpres := (test_present_iff o evs (e.trial, e.nh)).mpr ⟨e, he, hn, rfl⟩
    obtain ⟨v, hv'⟩ := Option.isSome_iff_exists.mp hpres
    refine ⟨e.trial, ?_, ((e.trial, e.nh), v), ?_, rfl⟩
    · apply (hv.trials _).mem_iff.mpr
      apply List.mem_filter.mpr
      exact ⟨(trials_mem o evs e.trial).mpr ⟨e, he, rfl⟩, by simp only [decide_eq_true_eq]; exact ht⟩
    · apply (hv.tests _).mem_iff.mpr
      apply List.mem_filter.mpr
      exact ⟨mem_of_alookup hv', by simp⟩

theorem keyList_nodup (o : Opts) (evs : List Ev) (it : Iter) (hv : it.Valid) (t : TKey) :
    (keyList it (build o evs) t).Nodup := by
  unfold keyList List.Nodup
  rw [List.pairwise_flatMap]
  constructor
  · intro k _
    have hsub : ((testsOf (build o evs) k).map (·.1)).Nodup :=
      List.Nodup.sublist ((List.filter_sublist).map _) (tests_keys_nodup o evs)
    exact ((hv.tests _).map _).symm.nodup hsub
  · have hn : (it.trials (trialsOf (build o evs) t)).Nodup :=
      (hv.trials _).symm.nodup ((trials_nodup o evs).sublist List.filter_sublist)
    refine List.Pairwise.imp ?_ hn
    intro k1 k2 hne x hx y hy hxy
    obtain ⟨x', hx', rfl⟩ := List.mem_map.mp hx
    obtain ⟨y', hy', e⟩ := List.mem_map.mp hy
    have h1 := (List.mem_filter.mp ((hv.tests _).mem_iff.mp hx')).2
    have h2 := (List.mem_filter.mp ((hv.tests _).mem_iff.mp hy')).2
    have h1 : x'.1.1 = k1 := by simpa using h1
    have h2 : y'.1.1 = k2 := by simpa using h2
    apply hne
    rw [← h1, ← h2, hxy, e]

/-- the key lists of two builders fed the same measurements in any orders, visited in any orders,
are permutations of each other -/
theorem keyList_perm (o : Opts) (evs1 evs2 : List Ev) (hp : evs1.Perm evs2) (it1 it2 : Iter)
    (hv1 : it1.Valid) (hv2 : it2.Valid) (t : TKey) :
    (keyList it1 (build o evs1) t).Perm (keyList it2 (build o evs2) t) := by
  apply (List.perm_ext_iff_of_nodup (keyList_nodup o evs1 it1 hv1 t) (keyList_nodup o evs2 it2 hv2 t)).mpr
  intro key
  rw [mem_keyList o evs1 it1 hv1, mem_keyList o evs2 it2 hv2]
  constructor
  · rintro ⟨e, he, h⟩; exact ⟨e, hp.mem_iff.mp he, h⟩
  · rintro ⟨e, he, h⟩; exact ⟨e, hp.mem_iff.mpr he, h⟩

/-! ### well-formedness, as propositions -/

abbrev bh (o : Opts) (evs : List Ev) (e : Ev) : Bytes := Spec.Series.bhash o evs e.trial

structure WFp (env : Env) (o : Opts) (pol : Policy) (evs : List Ev) : Prop where
  w1n : ∀ x ∈ evs, ∀ y ∈ evs, x.isNum o = true → y.isNum o = true → x.nh = y.nh →
    env.norm x.ser = env.norm y.ser
  w1 : ∀ x ∈ evs, ∀ y ∈ evs, x.isNum o = true → y.isNum o = true → x.nh = y.nh →
    normD env x.ser = normD env y.ser
  w2 : ∀ x ∈ evs, ∀ y ∈ evs, x.isDen o = true → y.isDen o = true → x.trial = y.trial → x.dh = y.dh
  w3 : ∀ x ∈ evs, ∀ y ∈ evs, x.isNum o = true → y.isNum o = true → x.tkey = y.tkey →
    normD env x.ser = normD env y.ser →
    x.nh = y.nh ∧ (bh o evs x = bh o evs y ∨ bh o evs x = [] ∨ bh o evs y = [])
  w4 : pol = .replace → ∀ x ∈ evs, ∀ y ∈ evs, x.isNum o = true → y.isNum o = true → x.tkey = y.tkey →
    x.bench = y.bench → normD env x.ser = normD env y.ser → normD env x.exp = normD env y.exp → x.exp = y.exp
  w3c : pol = .combine → ∀ x ∈ evs, x.isNum o = true → bh o evs x ≠ [] →
    ∃ c ∈ evs, c.isNum o = true ∧ c.tkey = x.tkey ∧ normD env c.ser = normD env x.ser ∧
      ∀ d ∈ evs, d.isNum o = true → d.tkey = c.tkey → normD env d.ser = normD env c.ser → d.bench = c.bench →
        bh o evs d ≠ []
  w5 : ∀ x ∈ evs, ∀ y ∈ evs, uString x.tkey = uString y.tkey → x.tkey = y.tkey

theorem allPairs_iff {α} (l : List α) (p : α → α → Bool) :
    Spec.Series.allPairs l p = true ↔ ∀ x ∈ l, ∀ y ∈ l, p x y = true := by
  simp [Spec.Series.allPairs, List.all_eq_true]

theorem mem_numsBh (o : Opts) (evs : List Ev) (p : Ev × Bytes) :
    p ∈ Spec.Series.numsBh o evs ↔ p.1 ∈ evs ∧ p.1.isNum o = true ∧ p.2 = Spec.Series.bhash o evs p.1.trial := by
  unfold Spec.Series.numsBh
  rw [List.mem_map]
  constructor
  · rintro ⟨e, he, rfl⟩
    obtain ⟨h1, h2⟩ := List.mem_filter.mp he
    exact ⟨h1, h2, rfl⟩
  · rintro ⟨h1, h2, h3⟩
    refine ⟨p.1, List.mem_filter.mpr ⟨h1, h2⟩, ?_⟩
    rw [← h3]

theorem WFp_of_WF {env : Env} {o : Opts} {pol : Policy} {evs : List Ev}
    (h : Spec.Series.WF env o pol evs = true) : WFp env o pol evs := by
  unfold Spec.Series.WF at h
  simp only [Bool.and_eq_true] at h
  obtain ⟨⟨⟨⟨⟨h1, h2⟩, h3⟩, h4⟩, h3c⟩, h5⟩ := h
  unfold Spec.Series.W1 at h1
  unfold Spec.Series.W2 at h2
  unfold Spec.Series.W3 at h3
  unfold Spec.Series.W5 at h5
  rw [allPairs_iff] at h1 h2 h3 h5
  have hw1 : ∀ x ∈ evs, ∀ y ∈ evs, x.isNum o = true → y.isNum o = true → x.nh = y.nh →
      env.norm x.ser = env.norm y.ser := by
    intro x hx y hy nx ny e
    have := h1 x (List.mem_filter.mpr ⟨hx, nx⟩) y (List.mem_filter.mpr ⟨hy, ny⟩)
    simpa [e] using this
  refine ⟨hw1, ?_, ?_, ?_, ?_, ?_, ?_⟩
  · intro x hx y hy nx ny e
    unfold normD
    rw [hw1 x hx y hy nx ny e]
  · intro x hx y hy nx ny e
    have := h2 x (List.mem_filter.mpr ⟨hx, nx⟩) y (List.mem_filter.mpr ⟨hy, ny⟩)
    simpa [e] using this
  · intro x hx y hy nx ny e1 e2
    have := h3 (x, bh o evs x) ((mem_numsBh o evs _).mpr ⟨hx, nx, rfl⟩) (y, bh o evs y)
      ((mem_numsBh o evs _).mpr ⟨hy, ny, rfl⟩)
    simp only [e1, e2, ne_eq, not_true_eq_false, decide_false, Bool.false_or, Bool.and_eq_true,
      decide_eq_true_eq, Bool.or_eq_true] at this
    obtain ⟨a, b⟩ := this
    refine ⟨a, ?_⟩
    rcases b with (b | b) | b
    · exact Or.inl b
    · exact Or.inr (Or.inl b)
    · exact Or.inr (Or.inr b)
  · intro hpol x hx y hy nx ny e1 e2 e3 e4
    subst hpol
    simp only [ne_eq, not_true_eq_false, decide_false, Bool.false_or] at h4
    unfold Spec.Series.W4 at h4
    rw [allPairs_iff] at h4
    have := h4 x (List.mem_filter.mpr ⟨hx, nx⟩) y (List.mem_filter.mpr ⟨hy, ny⟩)
    simpa [e1, e2, e3, e4] using this
  · intro hpol x hx nx hb
    subst hpol
    simp only [ne_eq, not_true_eq_false, decide_false, Bool.false_or] at h3c
    unfold Spec.Series.W3c at h3c
    simp only [List.all_eq_true, List.any_eq_true, Bool.or_eq_true, Bool.and_eq_true, decide_eq_true_eq] at h3c
    rcases h3c (x, bh o evs x) ((mem_numsBh o evs _).mpr ⟨hx, nx, rfl⟩) with h | ⟨c, hcm, ⟨⟨e1, e2⟩, hall⟩⟩
    · exact absurd h hb
    · obtain ⟨hc, nc, hcb⟩ := (mem_numsBh o evs c).mp hcm
      refine ⟨c.1, hc, nc, e1, e2, ?_⟩
      intro d hd nd e3 e4 e5
      have := hall (d, bh o evs d) ((mem_numsBh o evs _).mpr ⟨hd, nd, rfl⟩)
      simpa [e3, e4, e5] using this
  · intro x hx y hy e
    have := h5 x hx y hy
    simpa [e] using this

end C18
