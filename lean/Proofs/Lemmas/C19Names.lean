/-
C19 helper lemmas: name-derived labels. The Reader derives them from the content line alone; results
that `SameLabels` a result without empty values have exactly its name labels.
-/
import Model.Storage.Fmt
import Proofs.Lemmas.C19Assoc
import Proofs.Lemmas.C19Round3
import Mathlib.Data.List.Perm.Subperm

namespace C19
open Storage.Query Storage.Fmt

/-- the name labels of a result are those of the name on its content line (or absent altogether for
an empty name met first by the Reader: the one-entry cache) -/
def NameOK (r : Result) : Prop :=
  ∃ name, parseBenchmarkLine r.content = some name ∧
    (r.nameLabels = some (parseNameLabels name) ∨ (name = [] ∧ r.nameLabels = none))

def NInv (rd : Reader) : Prop :=
  rd.lastNameLabels = some (parseNameLabels rd.lastName) ∨ (rd.lastName = [] ∧ rd.lastNameLabels = none)

theorem newResult_name (rd : Reader) (name line : Bytes) (h : NInv rd)
    (hb : parseBenchmarkLine line = some name) :
    NameOK (rd.newResult name line).1 ∧ NInv (rd.newResult name line).2 := by
  unfold Reader.newResult
  simp only
  split
  · exact ⟨⟨name, hb, Or.inl rfl⟩, Or.inl rfl⟩
  · rename_i hne
    have he : rd.lastName = name := by simpa using hne
    refine ⟨⟨name, hb, ?_⟩, h⟩
    rcases h with h | ⟨h1, h2⟩
    · exact Or.inl (by simp only; rw [h, he])
    · exact Or.inr ⟨he ▸ h1, h2⟩

theorem nextGo_name (hp : Bool) (lines : List Bytes) (rd : Reader)
    (res : Result) (rd' : Reader) (rest : List Bytes)
    (h : Reader.nextGo hp rd lines = some (res, rd', rest)) (hn : NInv rd) :
    NameOK res ∧ NInv rd' := by
  induction lines generalizing rd with
  | nil => simp [Reader.nextGo] at h
  | cons line ls ih =>
    rw [Reader.nextGo] at h
    simp only at h
    have hres : ∀ (r1 : Reader) (name : Bytes),
        some ((r1.newResult name line).1, (r1.newResult name line).2, ls) = some (res, rd', rest) →
        NInv r1 → parseBenchmarkLine line = some name → NameOK res ∧ NInv rd' := by
      intro r1 name hh h1 hb
      simp only [Option.some.injEq, Prod.mk.injEq] at hh
      obtain ⟨rfl, rfl, _⟩ := hh
      exact newResult_name r1 name line h1 hb
    split at h
    · split at h
      · exact ih _ h hn
      · split at h
        · exact ih _ h hn
        · exact ih _ h hn
    · cases hp
      · simp only [Bool.not_false, if_true] at h
        by_cases hemp : line.isEmpty = true
        · simp only [hemp, if_true] at h
          split at h
          · rename_i name hb; exact hres _ name h hn hb
          · exact ih _ h hn
        · simp only [hemp, Bool.false_eq_true, if_false] at h
          split at h
          · rename_i name hb; exact hres _ name h hn hb
          · exact ih _ h hn
      · simp only [Bool.not_true, Bool.false_eq_true, if_false] at h
        split at h
        · rename_i name hb; exact hres _ name h hn hb
        · exact ih _ h hn

theorem allGo_name (fuel : Nat) (rd : Reader) (lines : List Bytes) (hn : NInv rd) :
    ∀ res ∈ Reader.allGo fuel rd lines, NameOK res := by
  induction fuel generalizing rd lines with
  | zero => simp [Reader.allGo]
  | succ n ih =>
    unfold Reader.allGo
    cases hx : rd.next lines with
    | none => simp
    | some t =>
      obtain ⟨res, rd', rest⟩ := t
      unfold Reader.next at hx
      have := nextGo_name _ lines rd res rd' rest hx hn
      intro x hxm
      rcases List.mem_cons.mp hxm with rfl | hxm
      · exact this.1
      · exact ih rd' rest this.2 x hxm

/-- every result any Reader of the stack produces has the name labels of its own line -/
theorem reader_names (lbls : Option Labels) (content : Bytes) :
    ∀ r ∈ (match lbls with | some l => Reader.addLabels {} l | none => ({} : Reader)).all content, NameOK r := by
  unfold Reader.all
  apply allGo_name
  cases lbls with
  | none => exact Or.inr ⟨rfl, rfl⟩
  | some l => exact Or.inr ⟨rfl, rfl⟩

/-! ### parseNameLabels -/

theorem set_ne_nil (l : Labels) (k v : Bytes) : Labels.set l k v ≠ [] := by
  cases l with
  | nil => simp [Labels.set]
  | cons x rest =>
    obtain ⟨k', v'⟩ := x
    unfold Labels.set
    split
    · simp
    · split <;> simp

theorem subLabels_ok (subs : List Bytes) (i : Nat) (l : Labels) (hs : StrictSorted l) (hn : l ≠ []) :
    StrictSorted (subLabels i subs l) ∧ subLabels i subs l ≠ [] := by
  induction subs generalizing i l with
  | nil => exact ⟨hs, hn⟩
  | cons s rest ih =>
    unfold subLabels
    simp only
    split
    · exact ih _ _ (sorted_set _ _ _ hs) (set_ne_nil _ _ _)
    · exact ih _ _ (sorted_set _ _ _ hs) (set_ne_nil _ _ _)

theorem splitOn_ne_nil (c : UInt8) (s : Bytes) : splitOn c s ≠ [] := by
  induction s with
  | nil => simp [splitOn]
  | cons x rest ih =>
    unfold splitOn
    split
    · simp
    · split <;> simp

theorem nameCore_ok (nm : Bytes) (l : Labels) (hs : StrictSorted l) :
    StrictSorted (match splitOn cSlash nm with
      | [] => l
      | p :: subs => subLabels 1 subs (l.set (Bytes.ofString "name") p)) ∧
    (match splitOn cSlash nm with
      | [] => l
      | p :: subs => subLabels 1 subs (l.set (Bytes.ofString "name") p)) ≠ [] := by
  cases h : splitOn cSlash nm with
  | nil => exact absurd h (splitOn_ne_nil _ _)
  | cons p subs => exact subLabels_ok _ _ _ (sorted_set _ _ _ hs) (set_ne_nil _ _ _)

theorem parseNameLabels_ok (name : Bytes) :
    StrictSorted (parseNameLabels name) ∧ parseNameLabels name ≠ [] := by
  have hnil : StrictSorted ([] : Labels) := by simp [StrictSorted]
  unfold parseNameLabels
  cases hsl : splitLast cDash name with
  | none => exact nameCore_ok name [] hnil
  | some ba =>
    obtain ⟨before, after⟩ := ba
    by_cases ha : atoiOk after = true
    · simp only [ha, if_true]
      exact nameCore_ok before _ (sorted_set _ _ _ hnil)
    · simp only [ha, Bool.false_eq_true, if_false]
      exact nameCore_ok name [] hnil

theorem parseNameLabels_nil : parseNameLabels [] = [(Bytes.ofString "name", [])] := by decide +kernel

/-! ### SameLabels against labels without empty values is equality -/

theorem sorted_nodup (l : Labels) (h : StrictSorted l) : l.Nodup := by
  unfold StrictSorted at h
  exact List.Pairwise.imp (fun {a b} hab (e : a = b) => blt_ne a.1 b.1 hab (by rw [e])) h

theorem equal_eq (l b : Labels) (hl : StrictSorted l) (hb : StrictSorted b)
    (hne : ∀ x ∈ l, x.2 ≠ []) (heq : Labels.equal l b = true) : l = b := by
  unfold Labels.equal at heq
  simp only [Bool.and_eq_true, beq_iff_eq, List.all_eq_true] at heq
  obtain ⟨hlen, hall⟩ := heq
  have hsub : l ⊆ b := by
    intro x hx
    have h1 := hall x hx
    have : Labels.get b x.1 ≠ [] := by rw [← h1]; exact hne x hx
    have := get_mem b x.1 this
    rw [← h1] at this
    exact this
  have hperm : l.Perm b :=
    (List.subperm_of_subset (sorted_nodup l hl) hsub).perm_of_length_le (by omega)
  have hsub2 : b ⊆ l := fun x hx => hperm.symm.subset hx
  apply labels_ext l b hl hb hne (fun x hx => hne x (hsub2 hx))
  intro k
  by_cases hk : ∃ x ∈ l, x.1 = k
  · obtain ⟨x, hx, rfl⟩ := hk
    rw [get_of_mem l hl x.1 x.2 hx, get_of_mem b hb x.1 x.2 (hsub hx)]
  · have h1 : ∀ x ∈ l, x.1 ≠ k := fun x hx e => hk ⟨x, hx, e⟩
    rw [get_not_key l k h1, get_not_key b k (fun x hx => h1 x (hsub2 hx))]

end C19
