/-
C07 helper lemmas: strconv.Unquote undoes strconv.Quote (models `unquote`, `goQuote`), for every
byte string and every `IsPrint` oracle that does not call the newline printable.
-/
import Proofs.Lemmas.C07Utf8

namespace C07
open Proc.Tok

/-- one step of the round trip: the escape `esc` written for the source bytes `orig` is read back
by `unquoteChar` as exactly `orig`, does not start with a quote or newline, is made of items, and
is at least as long as `orig` -/
def StepOK (esc orig : Bytes) : Prop :=
  (∀ tail, unquoteChar (esc ++ tail) = some (orig, tail)) ∧
  (∃ h tl, esc = h :: tl ∧ h ≠ cQuote ∧ h ≠ 10) ∧ Items esc ∧ orig.length ≤ esc.length

theorem stepOK_hex (b : UInt8) : StepOK (hexEsc b) [b] :=
  ⟨fun tail => unquoteChar_hexEsc b tail, ⟨cBsl, _, rfl, by decide, by decide⟩, items_hexEsc b, by simp [hexEsc]⟩

theorem stepOK_simple (d out : UInt8) (h : ∀ u, unquoteChar (cBsl :: d :: u) = some ([out], u)) :
    StepOK [cBsl, d] [out] :=
  ⟨fun tail => by simpa using h tail, ⟨cBsl, [d], rfl, by decide, by decide⟩, Items.esc Items.nil, by simp⟩

theorem uq_a (u : Bytes) : unquoteChar (cBsl :: 97 :: u) = some ([7], u) := by simp [unquoteChar, cBsl, cQuote]
theorem uq_b (u : Bytes) : unquoteChar (cBsl :: 98 :: u) = some ([8], u) := by simp [unquoteChar, cBsl, cQuote]
theorem uq_f (u : Bytes) : unquoteChar (cBsl :: 102 :: u) = some ([12], u) := by simp [unquoteChar, cBsl, cQuote]
theorem uq_n (u : Bytes) : unquoteChar (cBsl :: 110 :: u) = some ([10], u) := by simp [unquoteChar, cBsl, cQuote]
theorem uq_r (u : Bytes) : unquoteChar (cBsl :: 114 :: u) = some ([13], u) := by simp [unquoteChar, cBsl, cQuote]
theorem uq_t (u : Bytes) : unquoteChar (cBsl :: 116 :: u) = some ([9], u) := by simp [unquoteChar, cBsl, cQuote]
theorem uq_v (u : Bytes) : unquoteChar (cBsl :: 118 :: u) = some ([11], u) := by simp [unquoteChar, cBsl, cQuote]
theorem uq_bsl (u : Bytes) : unquoteChar (cBsl :: cBsl :: u) = some ([cBsl], u) := by simp [unquoteChar, cBsl, cQuote]
theorem uq_quote (u : Bytes) : unquoteChar (cBsl :: cQuote :: u) = some ([cQuote], u) := by
  simp [unquoteChar, cBsl, cQuote]

theorem stepOK_raw_ascii (c : UInt8) (h0 : c < 0x80) (h1 : c ≠ cQuote) (h2 : c ≠ cBsl) (h3 : c ≠ 10) :
    StepOK [c] [c] := by
  refine ⟨?_, ⟨c, [], rfl, h1, h3⟩, Items.plain h1 h2 Items.nil, by simp⟩
  intro tail
  have e1 : (c == cQuote) = false := by simpa using h1
  have e2 : ¬ (c ≥ 0x80) := by simp [UInt8.lt_iff_toNat_lt, UInt8.le_iff_toNat_le] at h0 ⊢; omega
  have e3 : (c != cBsl) = true := by simpa using h2
  simp [unquoteChar, e1, e2, e3]

theorem items_hi : ∀ (bs : Bytes), (∀ b ∈ bs, 0x80 ≤ b.toNat) → Items bs := by
  intro bs
  induction bs with
  | nil => intro _; exact Items.nil
  | cons b bs ih =>
    intro h
    have hb := h b (by simp)
    refine Items.plain ?_ ?_ (ih (fun x hx => h x (by simp [hx])))
    · intro he; rw [he] at hb; revert hb; decide
    · intro he; rw [he] at hb; revert hb; decide

/-- raw bytes of a good multi-byte decode -/
theorem stepOK_raw_multi (c : UInt8) (t : Bytes) (r w : Nat) (h : decodeRune (c :: t) = (r, w)) (hg : GoodDec r w)
    (hc : ¬ c < 0x80) : StepOK ((c :: t).take w) ((c :: t).take w) := by
  obtain ⟨henc, _, hdec, hhi, hlen⟩ := decode_facts c t r w h hg
  have hw : 1 ≤ w := by
    have := decodeRune_size c t; rw [h] at this; exact this.1
  obtain ⟨w', rfl⟩ : ∃ w', w = w' + 1 := ⟨w - 1, by omega⟩
  have hshape : (c :: t).take (w' + 1) = c :: t.take w' := by simp
  have hcn : 0x80 ≤ c.toNat := by simp [UInt8.lt_iff_toNat_lt] at hc; omega
  refine ⟨?_, ⟨c, t.take w', hshape, ?_, ?_⟩, items_hi _ (hhi hc).2, Nat.le_refl _⟩
  · intro tail
    have hd := hdec tail
    rw [hshape] at hd hlen henc ⊢
    have e1 : (c == cQuote) = false := by
      have : c ≠ cQuote := by intro he; rw [he] at hcn; revert hcn; decide
      simpa using this
    have e2 : c ≥ 0x80 := by simp [UInt8.le_iff_toNat_le]; omega
    simp only [List.cons_append, unquoteChar, e1, e2, if_true, if_false, Bool.false_eq_true]
    simp only [List.cons_append] at hd
    rw [hd]
    simp only [henc]
    have : (c :: (t.take w' ++ tail)).drop (w' + 1) = tail := by
      have hl : (t.take w').length = w' := by simpa using hlen
      simp [hl]
    rw [this]
  · intro he; rw [he] at hcn; revert hcn; decide
  · intro he; rw [he] at hcn; revert hcn; decide

theorem encodeRune_len (r : Nat) : 1 ≤ (encodeRune r).length ∧ (encodeRune r).length ≤ 4 := by
  unfold encodeRune
  split
  · simp
  · split
    · simp
    · split
      · simp
      · split <;> simp

theorem hexN4 (a b c d : Nat) (ha : a < 16) (hb : b < 16) (hc : c < 16) (hd : d < 16) (tail : Bytes) :
    hexN 4 (lowerhex a :: lowerhex b :: lowerhex c :: lowerhex d :: tail) 0 =
      some (((a * 16 + b) * 16 + c) * 16 + d, tail) := by
  simp [hexN, unhex_lowerhex, ha, hb, hc, hd]

theorem hexN8 (a b c d e f g h : Nat) (ha : a < 16) (hb : b < 16) (hc : c < 16) (hd : d < 16)
    (he : e < 16) (hf : f < 16) (hg : g < 16) (hh : h < 16) (tail : Bytes) :
    hexN 8 (lowerhex a :: lowerhex b :: lowerhex c :: lowerhex d :: lowerhex e :: lowerhex f :: lowerhex g ::
      lowerhex h :: tail) 0 =
      some ((((((((a * 16 + b) * 16 + c) * 16 + d) * 16 + e) * 16 + f) * 16 + g) * 16 + h), tail) := by
  simp [hexN, unhex_lowerhex, ha, hb, hc, hd, he, hf, hg, hh]

def escU4 (r : Nat) : Bytes :=
  [cBsl, 117, lowerhex (r / 4096 % 16), lowerhex (r / 256 % 16), lowerhex (r / 16 % 16), lowerhex (r % 16)]

def escU8 (r : Nat) : Bytes :=
  [cBsl, 85, lowerhex (r / 268435456 % 16), lowerhex (r / 16777216 % 16), lowerhex (r / 1048576 % 16),
   lowerhex (r / 65536 % 16), lowerhex (r / 4096 % 16), lowerhex (r / 256 % 16), lowerhex (r / 16 % 16),
   lowerhex (r % 16)]

theorem plain_hex (n : Nat) {r : Bytes} (hr : Items r) : Items (lowerhex (n % 16) :: r) := by
  have := lowerhex_plain (n % 16) (Nat.mod_lt _ (by decide))
  exact Items.plain this.1 this.2 hr

theorem stepOK_u4 (r : Nat) (hv : validRune r = true) (hr : r < 0x10000) : StepOK (escU4 r) (encodeRune r) := by
  have hm : ∀ n, n % 16 < 16 := fun n => Nat.mod_lt _ (by decide)
  refine ⟨?_, ⟨cBsl, _, rfl, by decide, by decide⟩, ?_, ?_⟩
  · intro tail
    have hx := hexN4 (r / 4096 % 16) (r / 256 % 16) (r / 16 % 16) (r % 16) (hm _) (hm _) (hm _) (hm _) tail
    have hval : ((r / 4096 % 16 * 16 + r / 256 % 16) * 16 + r / 16 % 16) * 16 + r % 16 = r := by omega
    rw [hval] at hx
    have e1 : (cBsl == cQuote) = false := by decide
    simp only [escU4, List.cons_append, List.nil_append, unquoteChar, e1]
    simp [cBsl, hx, hv]
    intro h80
    simp [encodeRune, h80]
  · exact Items.esc (plain_hex _ (plain_hex _ (plain_hex _ (plain_hex _ Items.nil))))
  · have := (encodeRune_len r).2; simp [escU4]; omega

theorem stepOK_u8 (r : Nat) (hv : validRune r = true) (hr : 0x10000 ≤ r) : StepOK (escU8 r) (encodeRune r) := by
  have hm : ∀ n, n % 16 < 16 := fun n => Nat.mod_lt _ (by decide)
  have hmax : r ≤ 0x10FFFF := by simp [validRune] at hv; omega
  refine ⟨?_, ⟨cBsl, _, rfl, by decide, by decide⟩, ?_, ?_⟩
  · intro tail
    have hx := hexN8 (r / 268435456 % 16) (r / 16777216 % 16) (r / 1048576 % 16) (r / 65536 % 16)
      (r / 4096 % 16) (r / 256 % 16) (r / 16 % 16) (r % 16) (hm _) (hm _) (hm _) (hm _) (hm _) (hm _) (hm _) (hm _) tail
    have hval : (((((((r / 268435456 % 16 * 16 + r / 16777216 % 16) * 16 + r / 1048576 % 16) * 16 + r / 65536 % 16) * 16 +
        r / 4096 % 16) * 16 + r / 256 % 16) * 16 + r / 16 % 16) * 16 + r % 16) = r := by omega
    rw [hval] at hx
    have e1 : (cBsl == cQuote) = false := by decide
    simp only [escU8, List.cons_append, List.nil_append, unquoteChar, e1]
    simp [cBsl, hx, hv]
    intro h80; omega
  · exact Items.esc (plain_hex _ (plain_hex _ (plain_hex _ (plain_hex _ (plain_hex _ (plain_hex _ (plain_hex _
      (plain_hex _ Items.nil))))))))
  · have := (encodeRune_len r).2; simp [escU8]; omega

theorem ofNat_lt (r : Nat) (h : r < 0x80) : (UInt8.ofNat r) < 0x80 ∧ (UInt8.ofNat r).toNat = r := by
  have : (UInt8.ofNat r).toNat = r := by simp; omega
  exact ⟨by simp [UInt8.lt_iff_toNat_lt, this]; omega, this⟩

/-- `appendEscapedRune` for a valid rune whose source bytes are `encodeRune r` -/
theorem escapeRune_ok (isPrint : Nat → Bool) (h10 : isPrint 10 = false) (r : Nat) (hv : validRune r = true)
    (hraw : 0x80 ≤ r → StepOK (encodeRune r) (encodeRune r)) :
    StepOK (escapeRune isPrint r) (encodeRune r) := by
  by_cases h1 : (r == 34 || r == 92) = true
  · -- quote or backslash
    have he : escapeRune isPrint r = [cBsl, UInt8.ofNat r] := by unfold escapeRune; rw [if_pos h1]
    rw [he]
    simp only [Bool.or_eq_true, beq_iff_eq] at h1
    rcases h1 with rfl | rfl
    · exact stepOK_simple cQuote cQuote uq_quote
    · exact stepOK_simple cBsl cBsl uq_bsl
  · have hqb : r ≠ 34 ∧ r ≠ 92 := by
      simp only [Bool.or_eq_true, beq_iff_eq, not_or] at h1; exact h1
    by_cases h2 : isPrint r = true
    · -- printable: raw
      have he : escapeRune isPrint r = encodeRune r := by unfold escapeRune; rw [if_neg h1, if_pos h2]
      rw [he]
      by_cases h80 : r < 0x80
      · have hr10 : r ≠ 10 := by intro h; rw [h, h10] at h2; simp at h2
        have ho := ofNat_lt r h80
        have henc : encodeRune r = [UInt8.ofNat r] := by simp [encodeRune, h80]
        rw [henc]
        refine stepOK_raw_ascii _ ho.1 ?_ ?_ ?_
        · intro h; have := congrArg UInt8.toNat h; rw [ho.2] at this; exact hqb.1 (by simpa [cQuote] using this)
        · intro h; have := congrArg UInt8.toNat h; rw [ho.2] at this; exact hqb.2 (by simpa [cBsl] using this)
        · intro h; have := congrArg UInt8.toNat h; rw [ho.2] at this; exact hr10 (by simpa using this)
      · exact hraw (by omega)
    · by_cases t7 : (r == 7) = true
      · have hr : r = 7 := by simpa using t7
        have he : escapeRune isPrint r = [cBsl, 97] := by unfold escapeRune; rw [if_neg h1, if_neg h2, if_pos t7]
        rw [he, hr]
        exact stepOK_simple 97 7 uq_a
      · by_cases t8 : (r == 8) = true
        · have hr : r = 8 := by simpa using t8
          have he : escapeRune isPrint r = [cBsl, 98] := by unfold escapeRune; rw [if_neg h1, if_neg h2, if_neg t7, if_pos t8]
          rw [he, hr]
          exact stepOK_simple 98 8 uq_b
        · by_cases t12 : (r == 12) = true
          · have hr : r = 12 := by simpa using t12
            have he : escapeRune isPrint r = [cBsl, 102] := by unfold escapeRune; rw [if_neg h1, if_neg h2, if_neg t7, if_neg t8, if_pos t12]
            rw [he, hr]
            exact stepOK_simple 102 12 uq_f
          · by_cases t10 : (r == 10) = true
            · have hr : r = 10 := by simpa using t10
              have he : escapeRune isPrint r = [cBsl, 110] := by unfold escapeRune; rw [if_neg h1, if_neg h2, if_neg t7, if_neg t8, if_neg t12, if_pos t10]
              rw [he, hr]
              exact stepOK_simple 110 10 uq_n
            · by_cases t13 : (r == 13) = true
              · have hr : r = 13 := by simpa using t13
                have he : escapeRune isPrint r = [cBsl, 114] := by unfold escapeRune; rw [if_neg h1, if_neg h2, if_neg t7, if_neg t8, if_neg t12, if_neg t10, if_pos t13]
                rw [he, hr]
                exact stepOK_simple 114 13 uq_r
              · by_cases t9 : (r == 9) = true
                · have hr : r = 9 := by simpa using t9
                  have he : escapeRune isPrint r = [cBsl, 116] := by unfold escapeRune; rw [if_neg h1, if_neg h2, if_neg t7, if_neg t8, if_neg t12, if_neg t10, if_neg t13, if_pos t9]
                  rw [he, hr]
                  exact stepOK_simple 116 9 uq_t
                · by_cases t11 : (r == 11) = true
                  · have hr : r = 11 := by simpa using t11
                    have he : escapeRune isPrint r = [cBsl, 118] := by unfold escapeRune; rw [if_neg h1, if_neg h2, if_neg t7, if_neg t8, if_neg t12, if_neg t10, if_neg t13, if_neg t9, if_pos t11]
                    rw [he, hr]
                    exact stepOK_simple 118 11 uq_v
                  · by_cases hc : (decide (r < 0x20) || r == 0x7f) = true
                    · -- other control characters: \\xHH
                      have he : escapeRune isPrint r = hexEsc (UInt8.ofNat r) := by
                        unfold escapeRune; rw [if_neg h1, if_neg h2, if_neg t7, if_neg t8, if_neg t12, if_neg t10, if_neg t13, if_neg t9, if_neg t11, if_pos hc]
                      rw [he]
                      have h80 : r < 0x80 := by
                        simp only [Bool.or_eq_true, decide_eq_true_eq, beq_iff_eq] at hc; omega
                      have henc : encodeRune r = [UInt8.ofNat r] := by simp [encodeRune, h80]
                      rw [henc]
                      exact stepOK_hex _
                    · by_cases hlt : r < 0x10000
                      · have he : escapeRune isPrint r = escU4 r := by
                          unfold escapeRune; rw [if_neg h1, if_neg h2, if_neg t7, if_neg t8, if_neg t12, if_neg t10, if_neg t13, if_neg t9, if_neg t11, if_neg hc]
                          simp only [hv, if_true, hlt]; rfl
                        rw [he]; exact stepOK_u4 r hv hlt
                      · have he : escapeRune isPrint r = escU8 r := by
                          unfold escapeRune; rw [if_neg h1, if_neg h2, if_neg t7, if_neg t8, if_neg t12, if_neg t10, if_neg t13, if_neg t9, if_neg t11, if_neg hc]
                          simp only [hv, if_true, hlt, if_false]; rfl
                        rw [he]; exact stepOK_u8 r hv (by omega)

/-- one iteration of `appendQuotedWith` -/
theorem quoteBody_step (isPrint : Nat → Bool) (h10 : isPrint 10 = false) (g : Nat) (c : UInt8) (t : Bytes) :
    ∃ esc w, quoteBody isPrint (g + 1) (c :: t) = esc ++ quoteBody isPrint g ((c :: t).drop w) ∧
      StepOK esc ((c :: t).take w) ∧ 1 ≤ w ∧ w ≤ (c :: t).length := by
  have hrw : (if c < 0x80 then (c.toNat, 1) else decodeRune (c :: t)) = decodeRune (c :: t) := by
    split
    · rename_i h; rw [decodeRune_lo c t h]
    · rfl
  have hsz := decodeRune_size c t
  simp only [quoteBody, hrw]
  cases hd : decodeRune (c :: t) with
  | mk r w =>
    rw [hd] at hsz
    simp only at hsz ⊢
    split
    · -- invalid byte
      refine ⟨hexEsc c, 1, rfl, ?_, Nat.le_refl _, by simp⟩
      simpa using stepOK_hex c
    · rename_i hbad
      have hg : GoodDec r w := by
        intro ⟨h1, h2⟩; apply hbad; simp [h1, h2]
      obtain ⟨henc, hval, _, hhi, _⟩ := decode_facts c t r w hd hg
      refine ⟨escapeRune isPrint r, w, rfl, ?_, hsz.1, hsz.2⟩
      rw [← henc]
      refine escapeRune_ok isPrint h10 r hval ?_
      intro h80
      have hc : ¬ c < 0x80 := by
        intro hc; rw [decodeRune_lo c t hc] at hd
        have : r = c.toNat := by cases hd; rfl
        simp [UInt8.lt_iff_toNat_lt] at hc; omega
      rw [henc]
      exact stepOK_raw_multi c t r w hd hg hc

theorem quoteBody_nil (isPrint : Nat → Bool) (g : Nat) : quoteBody isPrint g [] = [] := by
  cases g <;> rfl

/-- the round trip of the loop -/
theorem unquoteLoop_go (isPrint : Nat → Bool) (h10 : isPrint 10 = false) : ∀ (g : Nat) (s : Bytes) (f : Nat) (acc : Bytes),
    s.length ≤ g → s.length < f →
    unquoteLoop f (quoteBody isPrint g s ++ [cQuote]) acc = some (acc ++ s) := by
  intro g
  induction g with
  | zero =>
    intro s f acc hg hf
    have : s = [] := List.length_eq_zero_iff.mp (by omega)
    subst this
    match f, hf with
    | f + 1, _ => simp [quoteBody, unquoteLoop]
  | succ g ih =>
    intro s f acc hg hf
    match s with
    | [] =>
      match f, hf with
      | f + 1, _ => simp [quoteBody, unquoteLoop]
    | c :: t =>
      match f, hf with
      | f + 1, hf =>
        obtain ⟨esc, w, heq, ⟨hun, ⟨h, tl, hesc, hq, hn⟩, _, _⟩, hw1, hw2⟩ := quoteBody_step isPrint h10 g c t
        rw [heq]
        have hu := hun (quoteBody isPrint g ((c :: t).drop w) ++ [cQuote])
        rw [hesc] at hu ⊢
        have e1 : (h == cQuote) = false := by simpa using hq
        have e2 : (h == 10) = false := by simpa using hn
        simp only [List.cons_append, List.append_assoc, unquoteLoop, e1, e2, Bool.false_eq_true, if_false]
        simp only [List.cons_append, List.append_assoc] at hu
        rw [hu]
        simp only
        have hl : ((c :: t).drop w).length ≤ g := by rw [List.length_drop]; simp at hg ⊢; omega
        have hl2 : ((c :: t).drop w).length < f := by rw [List.length_drop]; simp at hf ⊢; omega
        rw [ih _ f _ hl hl2]
        simp [List.append_assoc]

theorem items_quoteBody (isPrint : Nat → Bool) (h10 : isPrint 10 = false) : ∀ (g : Nat) (s : Bytes),
    Items (quoteBody isPrint g s) := by
  intro g
  induction g with
  | zero => intro s; exact Items.nil
  | succ g ih =>
    intro s
    match s with
    | [] => exact Items.nil
    | c :: t =>
      obtain ⟨esc, w, heq, ⟨_, _, hit, _⟩, _, _⟩ := quoteBody_step isPrint h10 g c t
      rw [heq]; exact hit.append (ih _)

theorem len_quoteBody (isPrint : Nat → Bool) (h10 : isPrint 10 = false) : ∀ (g : Nat) (s : Bytes), s.length ≤ g →
    s.length ≤ (quoteBody isPrint g s).length := by
  intro g
  induction g with
  | zero => intro s h; omega
  | succ g ih =>
    intro s hs
    match s with
    | [] => simp
    | c :: t =>
      obtain ⟨esc, w, heq, ⟨_, _, _, hlen⟩, hw1, hw2⟩ := quoteBody_step isPrint h10 g c t
      rw [heq, List.length_append]
      simp only [List.length_cons] at hs hw2
      have hl : ((c :: t).drop w).length ≤ g := by rw [List.length_drop]; simp only [List.length_cons]; omega
      have := ih _ hl
      have ht : ((c :: t).take w).length = w := by rw [List.length_take]; simp only [List.length_cons]; omega
      rw [List.length_drop] at this
      rw [ht] at hlen
      simp only [List.length_cons] at this ⊢
      omega

/-- `strconv.Unquote(strconv.Quote(s)) == s` for the models, every byte string, every `IsPrint`
that does not call the newline printable -/
theorem unquote_goQuote (isPrint : Nat → Bool) (h10 : isPrint 10 = false) (s : Bytes) :
    unquote (goQuote isPrint s) = some s := by
  simp only [goQuote, unquote]
  have h1 : (decide ((quoteBody isPrint (s.length + 1) s ++ [cQuote]).length ≥ 1)) = true := by simp
  simp only [beq_self_eq_true, h1, Bool.and_self, if_true]
  have hlen := len_quoteBody isPrint h10 (s.length + 1) s (by omega)
  have := unquoteLoop_go isPrint h10 (s.length + 1) s
    ((quoteBody isPrint (s.length + 1) s ++ [cQuote]).length + 1) [] (by omega) (by simp; omega)
  simpa using this

end C07
