/-
C11, untied Mann–Whitney distribution: the integer count table (`gaussRow` / `cntUntied`, what the
compiled driver evaluates) is the recurrence `pRec` multiplied by the binomial, so the driver's
untied evaluator `pUntied` agrees entrywise with the proved one `pUntiedRec`.
-/
import Model.Stats.UDist
import Proofs.Lemmas.C11Basic
import Proofs.Lemmas.C11Untied
import Mathlib.Data.Nat.Choose.Basic
import Mathlib.Algebra.Order.Field.Rat
import Mathlib.Tactic.Ring
import Mathlib.Tactic.Linarith

namespace C11.Count
open Stats.UDist

/-- the integer count recurrence tabulated by `gaussRow` -/
def c : Nat → Nat → Nat → Nat
  | 0, _, u => if u = 0 then 1 else 0
  | _ + 1, 0, u => if u = 0 then 1 else 0
  | n + 1, m + 1, u => c (n + 1) m u + (if u < m + 1 then 0 else c n (m + 1) (u - (m + 1)))
termination_by n m => n + m

theorem c_zero_left (m u : Nat) : c 0 m u = if u = 0 then 1 else 0 := by
  rw [c]

theorem c_zero_right (n u : Nat) : c n 0 u = if u = 0 then 1 else 0 := by
  cases n <;> rw [c]

theorem c_succ_succ (n m u : Nat) :
    c (n + 1) (m + 1) u
      = c (n + 1) m u + (if u < m + 1 then 0 else c n (m + 1) (u - (m + 1))) := by
  rw [c]

/-! ### arrays -/

theorem getD_of_lt (a : Array Nat) (i : Nat) (h : i < a.size) : a.getD i 0 = a[i] := by
  simp [Array.getD, h]

theorem getD_of_ge (a : Array Nat) (i : Nat) (h : a.size ≤ i) : a.getD i 0 = 0 := by
  simp [Array.getD, Nat.not_lt.2 h]

/-- `addShift` coefficientwise, at every index -/
theorem addShift_getD (a b : Array Nat) (s i : Nat) :
    (addShift a b s).getD i 0 = a.getD i 0 + (if i < s then 0 else b.getD (i - s) 0) := by
  unfold addShift
  by_cases hi : i < max a.size (b.size + s)
  · simp only [Array.getD, Array.size_ofFn, hi, dite_true, Array.getInternal_eq_getElem,
      Array.getElem_ofFn]
  · have h1 : a.size ≤ i := by omega
    have h2 : ¬ i < s → b.size ≤ i - s := by omega
    simp only [Array.getD, Array.size_ofFn, hi, dite_false]
    rw [dif_neg (by omega)]
    split
    · rfl
    · rename_i hs
      rw [dif_neg (by have := h2 hs; omega)]

theorem singleton_getD (u : Nat) : (#[1] : Array Nat).getD u 0 = if u = 0 then 1 else 0 := by
  cases u with
  | zero => rfl
  | succ u => simp [Array.getD]

/-- what a row of the table must satisfy up to column `k` -/
def RowOK (m k : Nat) (row : Array (Array Nat)) : Prop :=
  row.size = k + 1 ∧ ∀ n, n ≤ k → ∀ u, (row.getD n #[]).getD u 0 = c n m u

theorem getDrow_push_lt (row : Array (Array Nat)) (x : Array Nat) (n : Nat) (h : n < row.size) :
    (row.push x).getD n #[] = row.getD n #[] := by
  simp [Array.getD, h, Nat.lt_succ_of_lt h, Array.getElem_push_lt]

theorem getDrow_push_eq (row : Array (Array Nat)) (x : Array Nat) :
    (row.push x).getD row.size #[] = x := by
  simp [Array.getD]

/-- loop invariant of the inner fold of `gaussRow` -/
theorem fold_rowOK (N m : Nat) (prev : Array (Array Nat))
    (hprev : ∀ n, n ≤ N → ∀ u, (prev.getD n #[]).getD u 0 = c n m u) :
    ∀ k, k ≤ N → RowOK (m + 1) k
      ((List.range k).foldl (fun (row : Array (Array Nat)) i =>
        row.push (addShift (prev.getD (i + 1) #[]) (row.getD i #[]) (m + 1))) #[#[1]]) := by
  intro k
  induction k with
  | zero =>
    intro _
    refine ⟨rfl, ?_⟩
    intro n hn u
    have : n = 0 := by omega
    subst this
    rw [c_zero_left]
    exact singleton_getD u
  | succ k ih =>
    intro hk
    obtain ⟨hsz, hent⟩ := ih (by omega)
    rw [List.range_succ, List.foldl_append]
    simp only [List.foldl_cons, List.foldl_nil]
    generalize (List.range k).foldl (fun (row : Array (Array Nat)) i =>
        row.push (addShift (prev.getD (i + 1) #[]) (row.getD i #[]) (m + 1))) #[#[1]] = row
      at hsz hent ⊢
    refine ⟨by rw [Array.size_push, hsz], ?_⟩
    intro n hn u
    by_cases hlt : n ≤ k
    · rw [getDrow_push_lt _ _ _ (by omega)]
      exact hent n hlt u
    · have hn' : n = row.size := by omega
      subst hn'
      rw [getDrow_push_eq, addShift_getD, hsz, c_succ_succ, hprev (k + 1) hk, hent k (le_refl _)]

/-- the rows of the count table hold the counts `c` -/
theorem gaussRow_ok (N : Nat) : ∀ m, RowOK m N (gaussRow N m) := by
  intro m
  induction m with
  | zero =>
    unfold gaussRow
    refine ⟨by simp, ?_⟩
    intro n hn u
    have hlt : n < N + 1 := by omega
    have : (Array.replicate (N + 1) (#[1] : Array Nat)).getD n #[] = #[1] := by
      simp [Array.getD, hlt]
    rw [this, c_zero_right]
    exact singleton_getD u
  | succ m ih =>
    rw [gaussRow]
    exact fold_rowOK N m (gaussRow N m) ih.2 N (le_refl _)

theorem cntUntied_getD_c (n m u : Nat) : (cntUntied n m).getD u 0 = c n m u :=
  (gaussRow_ok n m).2 n (le_refl _) u

/-! ### the counts are the multiplied recurrence -/

theorem c_cast_eq_q (n m : Nat) : ∀ u : Nat, ((c n m u : Nat) : Rat) = q n m (u : Int) := by
  refine pRec_induct (fun n m => ∀ u : Nat, ((c n m u : Nat) : Rat) = q n m (u : Int)) ?_ ?_ ?_ n m
  · intro m u
    rw [c_zero_left, q_zero_left]
    by_cases hu : u = 0 <;> simp [hu]
  · intro n u
    rw [c_zero_right, q_zero_right]
    by_cases hu : u = 0 <;> simp [hu]
  · intro n m ih1 ih2 u
    rw [c_succ_succ, q_rec1, Nat.cast_add, ih2 u, add_comm]
    congr 1
    by_cases hu : u < m + 1
    · rw [if_pos hu]
      unfold q
      rw [pRec_neg _ _ _ (by omega)]
      simp
    · rw [if_neg hu, ih1]
      congr 1
      omega

/-- `x ↦ x / d` commutes with `getD · 0` through `Array.map` -/
theorem getD_map_div (a : Array Nat) (d : Rat) (u : Nat) :
    (a.map fun (k : Nat) => ((k : Nat) : Rat) / d).getD u 0 = ((a.getD u 0 : Nat) : Rat) / d := by
  by_cases hu : u < a.size
  · simp [Array.getD, hu]
  · simp [Array.getD, hu]

end C11.Count

namespace C11
open Stats.UDist C11.Count

/-- entry `u` of the count table for sample sizes `n, m` is `p_{n,m}(u) · C(n+m, n)` -/
theorem cntUntied_getD (n m u : Nat) :
    (((Stats.UDist.cntUntied n m).getD u 0 : Nat) : Rat)
      = Stats.UDist.pRec n m (u : Int) * (Nat.choose (n + m) n : Rat) := by
  rw [cntUntied_getD_c, c_cast_eq_q]
  rfl

/-- the driver's untied table (counts over the binomial) is the table of the recurrence -/
theorem pUntied_getD_eq (n1 n2 u : Nat) :
    (Stats.UDist.pUntied n1 n2).getD u 0 = (Stats.UDist.pUntiedRec n1 n2).getD u 0 := by
  rw [pUntiedRec_getD]
  unfold pUntied untiedCounts
  simp only []
  rw [getD_map_div, choose_eq]
  have hne := choose_cast_ne_zero n1 n2
  split
  · rw [cntUntied_getD, pRec_swap n1 n2, Nat.choose_symm_add, Nat.add_comm n2 n1,
      mul_div_cancel_right₀ _ hne]
  · rw [cntUntied_getD, mul_div_cancel_right₀ _ hne]

end C11
