/-
C13 helper lemmas: sorting on construction and the mode scan of AssumeExact, over any linear
order whose `<` and `==` are what the value arithmetic `Math.Val` computes (`LawfulVal`).
-/
import Mathlib.Order.Defs.LinearOrder
import Model.Math.Exact

namespace C13
open Math

/-- the comparisons of the value arithmetic are those of a linear order. For float64 this is the
order of the real values of finite floats with −0 = +0 (Model/Base/F64 `lt`/`eq`, validated
bit-exactly against Go by the correspondence runs of C10 and C13). -/
class LawfulVal (α : Type) [LinearOrder α] [Val α] : Prop where
  lt_iff : ∀ a b : α, Val.lt a b = true ↔ a < b
  eq_iff : ∀ a b : α, Val.eq a b = true ↔ a = b
  /-- the sign tie-break of `NewSample` never separates a value from itself -/
  before_irrefl : ∀ a : α, Val.before a a = false

variable {α : Type} [LinearOrder α] [Val α] [LawfulVal α]

set_option linter.unusedSimpArgs false

theorem sortLe_iff (a b : α) : sortLe a b = true ↔ a ≤ b := by
  unfold sortLe
  by_cases h1 : Val.lt a b = true
  · simp only [h1, if_true, true_iff]; exact le_of_lt ((LawfulVal.lt_iff a b).mp h1)
  · by_cases h2 : Val.lt b a = true
    · simp only [h1, h2, if_true, if_false, Bool.false_eq_true, false_iff, not_le]
      exact (LawfulVal.lt_iff b a).mp h2
    · have n1 : ¬ a < b := fun h => h1 ((LawfulVal.lt_iff a b).mpr h)
      have n2 : ¬ b < a := fun h => h2 ((LawfulVal.lt_iff b a).mpr h)
      have e : a = b := le_antisymm (not_lt.mp n2) (not_lt.mp n1)
      subst e
      simp [h1, LawfulVal.before_irrefl]

theorem sortVals_pairwise (l : List α) : (sortVals l).Pairwise (· ≤ ·) := by
  unfold sortVals
  have h := List.pairwise_mergeSort (le := fun a b : α => sortLe a b)
    (fun a b c hab hbc => by
      rw [sortLe_iff] at *; exact le_trans hab hbc)
    (fun a b => by
      rcases le_total a b with h | h
      · simp [(sortLe_iff a b).mpr h]
      · simp [(sortLe_iff b a).mpr h]) l
  exact h.imp (fun hab => (sortLe_iff _ _).mp hab)

omit [LinearOrder α] [LawfulVal α] in
theorem sortVals_perm (l : List α) : (sortVals l).Perm l := List.mergeSort_perm _ _

omit [LinearOrder α] [Val α] [LawfulVal α] in
theorem getLastD_mem (rest : List α) (v0 : α) : rest.getLastD v0 ∈ v0 :: rest := by
  induction rest generalizing v0 with
  | nil => simp
  | cons a as ih =>
    have := ih a
    simp only [List.getLastD_cons]
    exact List.mem_cons_of_mem _ this

omit [Val α] [LawfulVal α] in
theorem le_getLastD (rest : List α) (v0 : α) (h : (v0 :: rest).Pairwise (· ≤ ·)) :
    ∀ x ∈ v0 :: rest, x ≤ rest.getLastD v0 := by
  induction rest generalizing v0 with
  | nil => intro x hx; simp at hx; simp [hx]
  | cons a as ih =>
    intro x hx
    simp only [List.getLastD_cons]
    have h' := List.pairwise_cons.mp h
    rcases List.mem_cons.mp hx with hx | hx
    · subst hx
      exact h'.1 _ (getLastD_mem as a)
    · exact ih a h'.2 x hx

/-- invariant of the scan: after the prefix `pre` (non-empty, ending in a run of `val`),
`count` is the multiplicity of `val`, `(mv, mc)` is the smallest most frequent value of `pre`
with its multiplicity. The result has the same property for `pre ++ rest`. -/
theorem modeScan_spec (rest : List α) : ∀ (pre : List α) (val : α) (count : Nat) (mv : α) (mc : Nat),
    (pre ++ rest).Pairwise (· ≤ ·) →
    (∀ x ∈ pre, x ≤ val) → val ∈ pre →
    count = pre.count val →
    mc = pre.count mv → 1 ≤ mc →
    (∀ x, pre.count x ≤ mc) →
    (∀ x, pre.count x = mc → mv ≤ x) →
    (Exact.modeScan val count mv mc rest).2 = (pre ++ rest).count (Exact.modeScan val count mv mc rest).1 ∧
    1 ≤ (Exact.modeScan val count mv mc rest).2 ∧
    (∀ x, (pre ++ rest).count x ≤ (Exact.modeScan val count mv mc rest).2) ∧
    (∀ x, (pre ++ rest).count x = (Exact.modeScan val count mv mc rest).2 →
        (Exact.modeScan val count mv mc rest).1 ≤ x) := by
  induction rest with
  | nil =>
    intro pre val count mv mc _ _ _ _ hc hmc hd he
    simp only [Exact.modeScan, List.append_nil]
    exact ⟨hc, hmc, hd, he⟩
  | cons v vs ih =>
    intro pre val count mv mc hs ha hvalin hb hc hmc hd he
    have hs' : ((pre ++ [v]) ++ vs).Pairwise (· ≤ ·) := by simpa using hs
    have hpv : ∀ x ∈ pre, x ≤ v := by
      intro x hx
      have := (List.pairwise_append.mp hs).2.2 x hx v (by simp)
      exact this
    have hmvmem : mv ∈ pre := by
      apply List.count_pos_iff.mp; omega
    have key : (pre ++ v :: vs) = (pre ++ [v]) ++ vs := by simp
    rw [key]
    unfold Exact.modeScan
    by_cases hv : Val.eq v val = true
    · have hvv : v = val := (LawfulVal.eq_iff v val).mp hv
      subst hvv
      simp only [hv, if_true]
      have hcnt : count + 1 = (pre ++ [v]).count v := by simp [List.count_append, hb]
      have hall : ∀ x ∈ pre ++ [v], x ≤ v := by
        intro x hx; rcases List.mem_append.mp hx with h | h
        · exact ha x h
        · simp at h; exact le_of_eq h
      by_cases hgt : count + 1 > mc
      · simp only [hgt, if_true]
        apply ih (pre ++ [v]) v (count + 1) v (count + 1) hs' hall (by simp) hcnt hcnt (by omega)
        · intro x
          by_cases hx : x = v
          · subst hx; omega
          · have : (pre ++ [v]).count x = pre.count x := by
              simp [List.count_append, List.count_singleton, hx, Ne.symm hx]
            rw [this]; have := hd x; omega
        · intro x hx
          by_cases hxv : x = v
          · exact le_of_eq hxv.symm
          · have : (pre ++ [v]).count x = pre.count x := by
              simp [List.count_append, List.count_singleton, hxv, Ne.symm hxv]
            rw [this] at hx; have := hd x; omega
      · simp only [hgt, if_false]
        have hmvne : mv ≠ v := by
          intro h; subst h; omega
        have hcmv : (pre ++ [v]).count mv = pre.count mv := by
          simp [List.count_append, List.count_singleton, hmvne, Ne.symm hmvne]
        apply ih (pre ++ [v]) v (count + 1) mv mc hs' hall (by simp) hcnt (by rw [hcmv]; exact hc) hmc
        · intro x
          by_cases hx : x = v
          · subst hx; omega
          · have : (pre ++ [v]).count x = pre.count x := by
              simp [List.count_append, List.count_singleton, hx, Ne.symm hx]
            rw [this]; exact hd x
        · intro x hx
          by_cases hxv : x = v
          · subst hxv; exact ha mv hmvmem
          · have : (pre ++ [v]).count x = pre.count x := by
              simp [List.count_append, List.count_singleton, hxv, Ne.symm hxv]
            rw [this] at hx; exact he x hx
    · have hne : v ≠ val := fun h => hv ((LawfulVal.eq_iff v val).mpr h)
      simp only [hv, if_false]
      by_cases hvin : v ∈ pre
      · exact absurd (le_antisymm (ha v hvin) (hpv val hvalin)) hne
      · have hc0 : pre.count v = 0 := List.count_eq_zero.mpr hvin
        have hall : ∀ x ∈ pre ++ [v], x ≤ v := by
          intro x hx; rcases List.mem_append.mp hx with h | h
          · exact hpv x h
          · simp at h; exact le_of_eq h
        have hcnt : 1 = (pre ++ [v]).count v := by simp [List.count_append, hc0]
        have hmvne : mv ≠ v := fun h => hvin (h ▸ hmvmem)
        have hcmv : (pre ++ [v]).count mv = pre.count mv := by
          simp [List.count_append, List.count_singleton, hmvne, Ne.symm hmvne]
        apply ih (pre ++ [v]) v 1 mv mc hs' hall (by simp) hcnt (by rw [hcmv]; exact hc) hmc
        · intro x
          by_cases hx : x = v
          · subst hx; omega
          · have : (pre ++ [v]).count x = pre.count x := by
              simp [List.count_append, List.count_singleton, hx, Ne.symm hx]
            rw [this]; exact hd x
        · intro x hx
          by_cases hxv : x = v
          · subst hxv; exact hpv mv hmvmem
          · have : (pre ++ [v]).count x = pre.count x := by
              simp [List.count_append, List.count_singleton, hxv, Ne.symm hxv]
            rw [this] at hx; exact he x hx

end C13
