/-
C11 helper lemmas shared by the other C11 lemma files: the model's multiplicative binomial is
`Nat.choose`.
-/
import Model.Stats.UDist
import Model.Spec.UExact
import Mathlib.Data.Nat.Choose.Basic

namespace C11
open Stats.UDist

theorem foldl_choose_aux (n k : Nat) (hk : k ≤ n) :
    (List.range k).foldl (fun acc i => acc * (n - i) / (i + 1)) 1 = Nat.choose n k := by
  induction k with
  | zero => simp
  | succ k ih =>
    rw [List.range_succ, List.foldl_append, ih (Nat.le_of_succ_le hk)]
    simp only [List.foldl_cons, List.foldl_nil]
    have h := Nat.choose_succ_right_eq n k
    rw [← h, Nat.mul_div_cancel _ (Nat.succ_pos k)]

/-- the model's `choose` (Go `mathChoose`, exact range) is the binomial coefficient -/
theorem choose_eq (n k : Nat) : choose n k = Nat.choose n k := by
  unfold choose
  split
  · rename_i h; exact (Nat.choose_eq_zero_of_lt h).symm
  · rename_i h; exact foldl_choose_aux n k (Nat.le_of_not_gt h)

theorem spec_choose_eq (n k : Nat) : Spec.UExact.choose n k = Nat.choose n k := by
  unfold Spec.UExact.choose
  split
  · rename_i h; exact (Nat.choose_eq_zero_of_lt h).symm
  · rename_i h; exact foldl_choose_aux n k (Nat.le_of_not_gt h)

theorem chooseI_eq (n k : Nat) : chooseI (n : Int) (k : Int) = Nat.choose n k := by
  unfold chooseI
  split
  · rename_i h
    rcases h with h | h
    · omega
    · have : n < k := by exact_mod_cast h
      exact (Nat.choose_eq_zero_of_lt this).symm
  · simp [choose_eq]

end C11
