/-
C19 helper lemmas: `part.merge` computes the conjunction of two parts on the same key.
Proved for an arbitrary linear order with a least element (the empty string), then used with the
bytewise order.
-/
import Model.Storage.Query
import Proofs.Lemmas.C19Order
import Mathlib.Tactic.Order

namespace C19
open Storage.Query

section generic
variable {V : Type} [LinearOrder V]

/-- meaning of one part for a label value `v`: the comparisons of the property statement -/
def satG (lt : V → V → Bool) (p : PartG V) (v : V) : Prop :=
  match p.op with
  | .equals => v = p.value
  | .lt => lt v p.value = true
  | .gt => lt p.value v = true
  | .ltgt => lt v p.value = true ∧ lt p.value2 v = true

/-- io.EOF (`none`) is the part nothing satisfies -/
def satOpt (lt : V → V → Bool) : Option (PartG V) → V → Prop
  | none, _ => False
  | some p, v => satG lt p v

variable (lt : V → V → Bool) (e : V)

theorem finish_sat (hlt : ∀ a b, lt a b = true ↔ a < b) (he : ∀ v, e ≤ v)
    (k : Bytes) (a a2 v : V) (hv : v ≠ e) :
    satOpt lt (finishLtgt lt e ⟨k, .ltgt, a, a2⟩) v ↔ (v < a ∧ a2 < v) := by
  have hev : e < v := lt_of_le_of_ne (he v) (Ne.symm hv)
  unfold finishLtgt
  simp only [Bool.or_eq_true, hlt, beq_iff_eq]
  by_cases h1 : (a < a2 ∨ a = a2) ∨ a = e
  · rw [if_pos h1]
    simp only [satOpt, false_iff]
    rintro ⟨h2, h3⟩
    rcases h1 with (h1 | h1) | h1
    · order
    · order
    · have := he v; order
  · rw [if_neg h1]
    by_cases h2 : a2 = e
    · rw [if_pos h2]
      simp only [satOpt, satG, hlt]
      constructor
      · intro h; exact ⟨h, h2 ▸ hev⟩
      · intro h; exact h.1
    · rw [if_neg h2]
      simp only [satOpt, satG, hlt]

theorem finish_key (k : Bytes) (a a2 : V) (m : PartG V)
    (h : finishLtgt lt e ⟨k, .ltgt, a, a2⟩ = some m) : m.key = k := by
  unfold finishLtgt at h
  split at h
  · cases h
  · split at h <;> (cases h; rfl)

/-- **merge of two parts = conjunction**, for every value other than the empty string -/
theorem merge_sat (hlt : ∀ a b, lt a b = true ↔ a < b) (he : ∀ v, e ≤ v)
    (p p2 : PartG V) (v : V) (hv : v ≠ e) :
    satOpt lt (mergeG lt e p p2) v ↔ (satG lt p v ∧ satG lt p2 v) := by
  obtain ⟨k, op, a, a2⟩ := p
  obtain ⟨k2, op2, b, b2⟩ := p2
  have fin := fun k a a2 => finish_sat lt e hlt he k a a2 v hv
  cases op <;> cases op2 <;>
    simp only [mergeG, Op.toNat, satG, Nat.lt_irrefl, if_false, if_true, Nat.reduceLT, hlt,
      Bool.and_eq_true, beq_iff_eq]
  -- equals / equals
  · by_cases h : a = b
    · simp [h, satOpt, satG]
    · simp only [h, if_false, satOpt, false_iff]; rintro ⟨rfl, rfl⟩; exact h rfl
  -- equals / ltgt
  · by_cases h : a < b ∧ b2 < a
    · simp only [h, and_self, if_true, satOpt, satG, hlt]
      constructor
      · rintro rfl; exact ⟨rfl, h.1, h.2⟩
      · exact fun h => h.1
    · simp only [h, if_false, satOpt, false_iff]; rintro ⟨rfl, h1, h2⟩; exact h ⟨h1, h2⟩
  -- equals / lt
  · by_cases h : a < b
    · simp only [h, if_true, satOpt, satG]
      constructor
      · rintro rfl; exact ⟨rfl, h⟩
      · exact fun h => h.1
    · simp only [h, if_false, satOpt, false_iff]; rintro ⟨rfl, h1⟩; exact h h1
  -- equals / gt
  · by_cases h : b < a
    · simp only [h, if_true, satOpt, satG]
      constructor
      · rintro rfl; exact ⟨rfl, h⟩
      · exact fun h => h.1
    · simp only [h, if_false, satOpt, false_iff]; rintro ⟨rfl, h1⟩; exact h h1
  -- ltgt / equals  (swapped)
  · by_cases h : b < a ∧ a2 < b
    · simp only [h, and_self, if_true, satOpt, satG, hlt]
      constructor
      · rintro rfl; exact ⟨⟨h.1, h.2⟩, rfl⟩
      · exact fun h => h.2
    · simp only [h, if_false, satOpt, false_iff]; rintro ⟨⟨h1, h2⟩, rfl⟩; exact h ⟨h1, h2⟩
  -- ltgt / ltgt
  · by_cases h1 : b < a <;> by_cases h2 : a2 < b2 <;> simp only [h1, h2, if_true, if_false] <;>
      rw [fin] <;> constructor <;> intro h <;> refine ⟨?_, ?_⟩ <;> first | order | (constructor <;> order)
  -- ltgt / lt
  · by_cases h1 : b < a <;> simp only [h1, if_true, if_false] <;>
      rw [fin] <;> constructor <;> intro h <;> refine ⟨?_, ?_⟩ <;> first | order | (constructor <;> order)
  -- ltgt / gt
  · by_cases h1 : a2 < b <;> simp only [h1, if_true, if_false] <;>
      rw [fin] <;> constructor <;> intro h <;> refine ⟨?_, ?_⟩ <;> first | order | (constructor <;> order)
  -- lt / equals (swapped)
  · by_cases h : b < a
    · simp only [h, if_true, satOpt, satG]
      constructor
      · rintro rfl; exact ⟨h, rfl⟩
      · exact fun h => h.2
    · simp only [h, if_false, satOpt, false_iff]; rintro ⟨h1, rfl⟩; exact h h1
  -- lt / ltgt (swapped)
  · by_cases h1 : a < b <;> simp only [h1, if_true, if_false] <;>
      rw [fin] <;> constructor <;> intro h <;> refine ⟨?_, ?_⟩ <;> first | order | (constructor <;> order)
  -- lt / lt
  · by_cases h1 : b < a <;> simp only [h1, if_true, if_false, satOpt, satG, hlt] <;>
      constructor <;> intro h <;> first | order | (constructor <;> order)
  -- lt / gt
  · rw [fin]
  -- gt / equals (swapped)
  · by_cases h : a < b
    · simp only [h, if_true, satOpt, satG]
      constructor
      · rintro rfl; exact ⟨h, rfl⟩
      · exact fun h => h.2
    · simp only [h, if_false, satOpt, false_iff]; rintro ⟨h1, rfl⟩; exact h h1
  -- gt / ltgt (swapped)
  · by_cases h1 : b2 < a <;> simp only [h1, if_true, if_false] <;>
      rw [fin] <;> constructor <;> intro h <;> refine ⟨?_, ?_⟩ <;> first | order | (constructor <;> order)
  -- gt / lt (swapped)
  · rw [fin]; exact And.comm
  -- gt / gt
  · by_cases h1 : a < b <;> simp only [h1, if_true, if_false, satOpt, satG, hlt] <;>
      constructor <;> intro h <;> first | order | (constructor <;> order)

end generic
end C19

namespace C19
open Storage.Query

section key
variable {V : Type} [DecidableEq V] (lt : V → V → Bool) (e : V)

theorem finish_key' (p m : PartG V) (h : finishLtgt lt e p = some m) : m.key = p.key := by
  unfold finishLtgt at h
  split at h
  · cases h
  · split at h <;> (cases h; rfl)

/-- the merged part carries the key of one of its operands -/
theorem merge_key (p p2 m : PartG V) (h : mergeG lt e p p2 = some m) :
    m.key = p.key ∨ m.key = p2.key := by
  obtain ⟨k, op, a, a2⟩ := p
  obtain ⟨k2, op2, b, b2⟩ := p2
  cases op <;> cases op2 <;>
    simp only [mergeG, Op.toNat, Nat.lt_irrefl, if_false, if_true, Nat.reduceLT] at h <;>
    (try (have := finish_key' lt e _ _ h; revert this)) <;>
    (repeat' split at h) <;> (try cases h) <;> (try split) <;> (try split) <;> simp_all
end key

section list
variable {V : Type} [LinearOrder V] (lt : V → V → Bool) (e : V)

/-- the per-key accumulation of `parseQuery`: the first part of a key, then every later part of the
same key merged into it from left to right -/
def mergeAll : PartG V → List (PartG V) → Option (PartG V)
  | p, [] => some p
  | p, q :: qs => (mergeG lt e p q).bind fun m => mergeAll m qs

theorem mergeAll_sat (hlt : ∀ a b, lt a b = true ↔ a < b) (he : ∀ v, e ≤ v)
    (ps : List (PartG V)) (p : PartG V) (v : V) (hv : v ≠ e) :
    satOpt lt (mergeAll lt e p ps) v ↔ ∀ q ∈ p :: ps, satG lt q v := by
  induction ps generalizing p with
  | nil => simp [mergeAll, satOpt]
  | cons q qs ih =>
    have hm := merge_sat lt e hlt he p q v hv
    unfold mergeAll
    cases hmq : mergeG lt e p q with
    | none =>
      rw [hmq] at hm
      simp only [Option.bind_none, satOpt, false_iff]
      intro hall
      exact (hm.mpr ⟨hall p (by simp), hall q (by simp)⟩)
    | some m =>
      rw [hmq] at hm
      simp only [Option.bind_some]
      rw [ih m]
      simp only [satOpt] at hm
      simp only [List.mem_cons, forall_eq_or_imp]
      rw [hm]; exact and_assoc
end list
end C19
