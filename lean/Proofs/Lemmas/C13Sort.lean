/-
C13: `NewSample`'s sort on NaN-free float64 samples (fix F27: −0 before +0) produces a result that
does not depend on the arrival order of the measurements — bit for bit.
-/
import Proofs.Lemmas.C13F64
import Mathlib.Order.Basic
import Mathlib.Data.List.Perm.Basic
import Model.Math.Sample

namespace C13
open F64 Math

/-- total key of the sort: value order, −0 just below +0 -/
def key2 (b : Bits) : Int := if signBit b then -(magOf b : Int) - 1 else (magOf b : Int)

theorem key2_inj (a b : Bits) (h : key2 a = key2 b) : a = b := by
  have da := toNat_eq a; have db := toNat_eq b
  rw [← UInt64.toNat_inj]
  unfold key2 at h
  cases hsa : signBit a <;> cases hsb : signBit b <;>
    simp only [hsa, hsb, if_true, if_false, Bool.false_eq_true] at da db h <;> omega

/-- the comparison of the sort is `≤` of the keys (non-NaN values) -/
theorem sortLe_iff_key2 (a b : Bits) (ha : isNaN a = false) (hb : isNaN b = false) :
    sortLe a b = true ↔ key2 a ≤ key2 b := by
  have k1 := lt_iff_key a b ha hb
  have k2 := lt_iff_key b a hb ha
  show (if F64.lt a b then true else if F64.lt b a then false else !(signBit b && !signBit a)) = true ↔ _
  unfold key at k1 k2
  unfold key2
  cases h1 : F64.lt a b <;> cases h2 : F64.lt b a <;>
    cases hsa : signBit a <;> cases hsb : signBit b <;>
    simp only [h1, h2, hsa, hsb, if_true, if_false, Bool.false_eq_true, Bool.not_false, Bool.not_true,
      Bool.and_true, Bool.and_false, Bool.true_and, Bool.false_and, true_iff, false_iff, iff_true,
      reduceCtorEq, not_le] at k1 k2 ⊢ <;> omega

/-- non-NaN float64 values, ordered as the sort orders them -/
structure NN where
  val : Bits
  nn : isNaN val = false

theorem NN.ext' {a b : NN} (h : a.val = b.val) : a = b := by cases a; cases b; cases h; rfl

instance : LinearOrder NN :=
  LinearOrder.lift' (fun x : NN => key2 x.val) (fun _ _ h => NN.ext' (key2_inj _ _ h))

instance : Val NN where
  lt a b := F64.lt a.val b.val
  eq a b := F64.eq a.val b.val
  interp a _ _ := a
  before a b := Val.before a.val b.val
  isNaN _ := false

theorem sortLe_nn (a b : NN) : sortLe a b = true ↔ a ≤ b :=
  sortLe_iff_key2 a.val b.val a.nn b.nn

theorem sortVals_nn_sorted (l : List NN) : (sortVals l).Pairwise (· ≤ ·) := by
  unfold sortVals
  have h := List.pairwise_mergeSort (le := fun a b : NN => sortLe a b)
    (fun a b c hab hbc => by rw [sortLe_nn] at *; exact le_trans hab hbc)
    (fun a b => by
      rcases le_total a b with h | h
      · simp [(sortLe_nn a b).mpr h]
      · simp [(sortLe_nn b a).mpr h]) l
  exact h.imp (fun hab => (sortLe_nn _ _).mp hab)

theorem sortVals_nn_unique {l1 l2 : List NN} (h : l1.Perm l2) : sortVals l1 = sortVals l2 := by
  apply List.Perm.eq_of_pairwise (le := (· ≤ ·)) (fun a b _ _ hab hba => le_antisymm hab hba)
    (sortVals_nn_sorted l1) (sortVals_nn_sorted l2)
  exact ((List.mergeSort_perm l1 _).trans h).trans (List.mergeSort_perm l2 _).symm

theorem sortVals_nn_val (l : List NN) :
    sortVals (α := Bits) (l.map NN.val) = (sortVals l).map NN.val := by
  unfold sortVals
  exact (List.map_mergeSort (f := NN.val) (r := sortLe) (s := sortLe) (fun _ _ _ _ => rfl)).symm

theorem lift_nn (vals : List Bits) (hn : ∀ v ∈ vals, isNaN v = false) : ∃ l : List NN, l.map NN.val = vals := by
  induction vals with
  | nil => exact ⟨[], rfl⟩
  | cons v vs ih =>
    obtain ⟨l, hl⟩ := ih (fun x hx => hn x (List.mem_cons_of_mem _ hx))
    exact ⟨⟨v, hn v (by simp)⟩ :: l, by simp [hl]⟩

theorem perm_lift {l1 l2 : List NN} (h : (l1.map NN.val).Perm (l2.map NN.val)) : l1.Perm l2 := by
  have inj : Function.Injective NN.val := fun _ _ h => NN.ext' h
  exact (List.map_perm_map_iff inj).mp h

end C13
