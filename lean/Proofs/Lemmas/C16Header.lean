/-
C16 — lemmas about the key-header tree walk (Model/Tab/KeyHeader.lean).
-/
import Model.Tab.KeyHeader

namespace C16
open Tab.KeyHeader

/-- `(start, len)` intervals that are non-empty, contiguous, start at `s` and end at `e` -/
def Tiles : Nat → Nat → List (Nat × Nat) → Prop
  | s, e, [] => s = e
  | s, e, (a, n) :: rest => a = s ∧ 0 < n ∧ Tiles (s + n) e rest

/-- neighbouring entries differ -/
def AdjDiffer : List Bytes → Prop
  | [] => True
  | [_] => True
  | a :: b :: rest => a ≠ b ∧ AdjDiffer (b :: rest)

theorem tiles_append : ∀ (l₁ l₂ : List (Nat × Nat)) (s m e : Nat),
    Tiles s m l₁ → Tiles m e l₂ → Tiles s e (l₁ ++ l₂) := by
  intro l₁
  induction l₁ with
  | nil => intro l₂ s m e h1 h2; simp only [Tiles] at h1; subst h1; simpa using h2
  | cons x xs ih =>
    intro l₂ s m e h1 h2
    obtain ⟨a, n⟩ := x
    simp only [Tiles, List.cons_append] at h1 ⊢
    exact ⟨h1.1, h1.2.1, ih l₂ _ m e h1.2.2 h2⟩

theorem tiles_le : ∀ (l : List (Nat × Nat)) (s e : Nat), Tiles s e l → s ≤ e := by
  intro l
  induction l with
  | nil => intro s e h; simp only [Tiles] at h; omega
  | cons x xs ih =>
    intro s e h
    obtain ⟨a, n⟩ := x
    simp only [Tiles] at h
    have := ih _ _ h.2.2
    omega

def runSpans (rs : List Run) : List (Nat × Nat) := rs.map fun r => (r.start, r.len)

theorem walkRuns_spec (f : Nat → Bytes) : ∀ (n pos : Nat) (cur : Run),
    cur.start + cur.len = pos → 0 < cur.len →
    (∀ i, cur.start ≤ i → i < pos → f i = cur.value) →
    (∃ r rest, walkRuns f n pos cur = r :: rest ∧ r.start = cur.start ∧ r.value = cur.value) ∧
    Tiles cur.start (pos + n) (runSpans (walkRuns f n pos cur)) ∧
    (∀ r ∈ walkRuns f n pos cur, ∀ i, r.start ≤ i → i < r.start + r.len → f i = r.value) ∧
    AdjDiffer ((walkRuns f n pos cur).map (·.value)) := by
  intro n
  induction n with
  | zero =>
    intro pos cur h1 h2 h3
    refine ⟨⟨cur, [], rfl, rfl, rfl⟩, ?_, ?_, ?_⟩
    · simp only [walkRuns, runSpans, List.map_cons, List.map_nil, Tiles]
      exact ⟨trivial, h2, by omega⟩
    · intro r hr i hi1 hi2
      simp only [walkRuns, List.mem_singleton] at hr
      subst hr
      exact h3 i hi1 (by omega)
    · simp [walkRuns, AdjDiffer]
  | succ n ih =>
    intro pos cur h1 h2 h3
    unfold walkRuns
    by_cases hv : (f pos == cur.value) = true
    · simp only [hv, if_true]
      have hv' : f pos = cur.value := by simpa using hv
      have := ih (pos + 1) { cur with len := cur.len + 1 } (by simp only; omega) (by simp only; omega)
        (by
          intro i hi1 hi2
          simp only at hi1 hi2 ⊢
          by_cases hip : i = pos
          · subst hip; exact hv'
          · exact h3 i hi1 (by omega))
      simp only at this
      have hpn : pos + 1 + n = pos + (n + 1) := by omega
      rw [hpn] at this
      exact this
    · have hv2 : (f pos == cur.value) = false := by simpa using hv
      simp only [hv2, Bool.false_eq_true, if_false]
      have hne : f pos ≠ cur.value := by simpa using hv
      obtain ⟨⟨r, rest, hr, hrs, hrv⟩, ht, hm, ha⟩ :=
        ih (pos + 1) { value := f pos, start := pos, len := 1 } (by simp) (by simp)
          (by
            intro i hi1 hi2
            simp only at hi1 hi2 ⊢
            have : i = pos := by omega
            subst this; rfl)
      simp only at hrs hrv ht
      refine ⟨⟨cur, _, rfl, rfl, rfl⟩, ?_, ?_, ?_⟩
      · simp only [runSpans, List.map_cons, Tiles]
        refine ⟨trivial, h2, ?_⟩
        have hpn : pos + 1 + n = pos + (n + 1) := by omega
        rw [hpn] at ht
        rw [h1]
        exact ht
      · intro x hx i hi1 hi2
        rcases List.mem_cons.mp hx with hx | hx
        · subst hx; exact h3 i hi1 (by omega)
        · exact hm x hx i hi1 hi2
      · rw [hr] at ha ⊢
        simp only [List.map_cons, AdjDiffer] at ha ⊢
        exact ⟨by rw [hrv]; exact fun h => hne h.symm, ha⟩

theorem runs_spec (f : Nat → Bytes) (start len : Nat) :
    Tiles start (start + len) (runSpans (runs f start len)) ∧
    (∀ r ∈ runs f start len, ∀ i, r.start ≤ i → i < r.start + r.len → f i = r.value) ∧
    AdjDiffer ((runs f start len).map (·.value)) := by
  cases len with
  | zero => simp [runs, runSpans, Tiles, AdjDiffer]
  | succ n =>
    obtain ⟨_, ht, hm, ha⟩ := walkRuns_spec f n (start + 1) { value := f start, start := start, len := 1 }
      (by simp) (by simp) (by
        intro i hi1 hi2
        simp only at hi1 hi2 ⊢
        have : i = start := by omega
        subst this; rfl)
    simp only at ht
    have hpn : start + 1 + n = start + (n + 1) := by omega
    rw [hpn] at ht
    exact ⟨ht, hm, ha⟩

def nodeSpans (ns : List Node) : List (Nat × Nat) := ns.map fun x => (x.start, x.len)

/-- what a correct forest below a parent covering `[start, start+len)` looks like, `fuel` levels deep -/
def Good (keys : List (List Bytes)) : Nat → Nat → Nat → Nat → List Node → Prop
  | 0, _, _, _, ns => ns = []
  | fuel + 1, lvl, start, len, ns =>
    Tiles start (start + len) (nodeSpans ns) ∧
    AdjDiffer (ns.map (·.value)) ∧
    ∀ x ∈ ns, x.field = lvl ∧
      (∀ i, x.start ≤ i → i < x.start + x.len → keyField keys lvl i = x.value) ∧
      Good keys fuel (lvl + 1) x.start x.len x.children

theorem walk_good (keys : List (List Bytes)) : ∀ fuel lvl start len,
    Good keys fuel lvl start len (walk keys fuel lvl start len) := by
  intro fuel
  induction fuel with
  | zero => intro lvl start len; simp [walk, Good]
  | succ fuel ih =>
    intro lvl start len
    obtain ⟨ht, hm, ha⟩ := runs_spec (keyField keys lvl) start len
    simp only [walk, Good]
    refine ⟨?_, ?_, ?_⟩
    · simpa [nodeSpans, runSpans, List.map_map, Function.comp_def, Node.start, Node.len] using ht
    · simpa [List.map_map, Function.comp_def, Node.value] using ha
    · intro x hx
      simp only [List.mem_map] at hx
      obtain ⟨r, hr, rfl⟩ := hx
      exact ⟨rfl, hm r hr, ih _ _ _⟩

theorem tiles_flatMap (keys : List (List Bytes)) (fuel lvl : Nat) : ∀ (ns : List Node) (s e : Nat),
    Tiles s e (nodeSpans ns) →
    (∀ x ∈ ns, Good keys (fuel + 1) lvl x.start x.len x.children) →
    Tiles s e (nodeSpans (ns.flatMap Node.children)) := by
  intro ns
  induction ns with
  | nil => intro s e h _; simpa [nodeSpans] using h
  | cons x xs ih =>
    intro s e h hg
    simp only [nodeSpans, List.map_cons, Tiles] at h
    have hx := hg x (List.mem_cons_self ..)
    simp only [Good] at hx
    simp only [List.flatMap_cons, nodeSpans, List.map_append]
    refine tiles_append _ _ s (s + x.len) e ?_ ?_
    · have := hx.1
      rw [h.1] at this
      exact this
    · exact ih _ _ h.2.2 (fun y hy => hg y (List.mem_cons_of_mem _ hy))

/-- every level of a good forest tiles the parent's range -/
theorem level_tiles (keys : List (List Bytes)) : ∀ (k fuel lvl : Nat) (ns : List Node) (s e : Nat),
    Tiles s e (nodeSpans ns) →
    (∀ x ∈ ns, Good keys (fuel + k) lvl x.start x.len x.children) →
    Tiles s e (nodeSpans (level ns k)) := by
  intro k
  induction k with
  | zero => intro fuel lvl ns s e h _; exact h
  | succ k ih =>
    intro fuel lvl ns s e h hg
    simp only [level]
    refine ih fuel (lvl + 1) _ s e (tiles_flatMap keys (fuel + k) lvl ns s e h hg) ?_
    intro y hy
    simp only [List.mem_flatMap] at hy
    obtain ⟨x, hx, hyx⟩ := hy
    have := hg x hx
    rw [show fuel + (k + 1) = (fuel + k) + 1 by omega] at this
    simp only [Good] at this
    exact (this.2.2 y hyx).2.2

end C16
