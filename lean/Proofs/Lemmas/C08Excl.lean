/-
Helper lemmas for C08 `exclusion_order_independent`: the projection closures read the parser
state only through membership in `configKeys` and through the multiset of `fullnameKeys`.
-/
import Model.Proc.Projection

namespace C08
open Proc.Sort Proc.Projection Proc.Extract

theorem perm_any {α : Type} (f : α → Bool) {l₁ l₂ : List α} (hp : l₁.Perm l₂) : l₁.any f = l₂.any f := by
  induction hp with
  | nil => rfl
  | cons x _ ih => simp [ih]
  | swap x y l => simp [Bool.or_left_comm]
  | trans _ _ ih1 ih2 => exact ih1.trans ih2

/-- `fullExcluded` is invariant under permutation of the exclusion list. -/
theorem fullNameExcluding_perm (ex ex' : List Bytes) (hp : ex.Perm ex') (name : Bytes) :
    fullNameExcluding ex name = fullNameExcluding ex' name := by
  unfold fullNameExcluding
  have h1 : ex.any (· == dotName) = ex'.any (· == dotName) := perm_any _ hp
  have hsub : (ex.filter (·.head? == some Fmt.Name.slash)).Perm (ex'.filter (·.head? == some Fmt.Name.slash)) :=
    hp.filter _
  have hdel := hsub.map (· ++ [Fmt.Name.eqc])
  have h2 := perm_any (· == gomaxprocsKey) hsub
  have h3 := hdel.isEmpty_eq
  simp only [h1, h2, h3]
  split
  · rfl
  · unfold extractFullExcluded
    have h4 : ∀ g : Bytes → Bool,
        ((ex.filter (·.head? == some Fmt.Name.slash)).map (· ++ [Fmt.Name.eqc])).any g =
        ((ex'.filter (·.head? == some Fmt.Name.slash)).map (· ++ [Fmt.Name.eqc])).any g :=
      fun g => perm_any g hdel
    simp only [h4]

/-- Two parser states are indistinguishable for the closures. -/
def EnvEq (e e' : Env) : Prop :=
  (∀ k, e.configKeys.contains k = e'.configKeys.contains k) ∧ e.exclude.Perm e'.exclude

theorem configStep_congr (e e' : Env) (he : EnvEq e e') (pos : Nat) (o : Order) (p : Proj)
    (cfg : Bytes × Bytes × Bool) : configStep e pos o p cfg = configStep e' pos o p cfg := by
  unfold configStep
  rw [he.1 cfg.1]

theorem runPart_congr (e e' : Env) (he : EnvEq e e') (r : Res) (p : Proj) (part : Part) :
    runPart e r p part = runPart e' r p part := by
  cases part with
  | config pos o =>
    simp only [runPart]
    congr 1
    funext q c
    exact configStep_congr e e' he pos o q c
  | fullname idx => simp only [runPart, fullNameExcluding_perm _ _ he.2]
  | key k idx => rfl

theorem populateRow_congr (e e' : Env) (he : EnvEq e e') (p : Proj) (r : Res) :
    p.populateRow e r = p.populateRow e' r := by
  unfold Proj.populateRow
  have : runPart e r = runPart e' r := by
    funext q part
    exact runPart_congr e e' he r q part
  simp only [this]

end C08
