/-
C11: error outcomes of the model (`errors_spec`): a sample pair whose values are all equal.
-/
import Model.Stats.UDist
import Model.Stats.UStat
import Model.Spec.UExact
import Proofs.Lemmas.C11Basic
import Mathlib.Tactic.Ring
import Mathlib.Tactic.Linarith
import Mathlib.Tactic.FieldSimp
import Mathlib.Algebra.Order.Field.Rat

set_option linter.unusedSectionVars false

namespace C11
open Stats Stats.UStat Stats.UDist

section AllEqual
variable {α : Type} [LT α] [DecidableLT α] [DecidableEq α]

theorem insertSorted_replicate (v : α) (hirr : ¬ v < v) (n : Nat) :
    insertSorted v (List.replicate n v) = List.replicate (n + 1) v := by
  cases n with
  | zero => rfl
  | succ n => simp [List.replicate_succ, insertSorted, hirr]

theorem sortF_replicate (v : α) (hirr : ¬ v < v) (n : Nat) :
    sortF (List.replicate n v) = List.replicate n v := by
  induction n with
  | zero => rfl
  | succ n ih =>
    show insertSorted v (sortF (List.replicate n v)) = _
    rw [ih, insertSorted_replicate v hirr]

theorem labeledMerge_replicate (v : α) (hirr : ¬ v < v) (a b : Nat) :
    labeledMerge (List.replicate a v) (List.replicate b v)
      = List.replicate b (v, false) ++ List.replicate a (v, true) := by
  induction b with
  | zero =>
    cases a with
    | zero => simp [labeledMerge]
    | succ a => simp [List.replicate_succ, labeledMerge]
  | succ b ih =>
    cases a with
    | zero => simp [labeledMerge]
    | succ a =>
      rw [List.replicate_succ (n := b), List.replicate_succ (n := a), labeledMerge]
      rw [if_neg hirr, ← List.replicate_succ (n := a), ih]
      simp [List.replicate_succ]

theorem takeRun_replicate (v : α) (l : Bool) (n : Nat) (rest : List (α × Bool))
    (h : takeRun v rest = (r, c, [])) :
    takeRun v (List.replicate n (v, l) ++ rest) = (r + n, (if l then c + n else c), []) := by
  induction n with
  | zero => simp [h]
  | succ n ih =>
    rw [List.replicate_succ, List.cons_append, takeRun, if_pos rfl, ih]
    cases l <;> simp <;> omega

theorem ranks_all_equal (v : α) (hirr : ¬ v < v) (a b : Nat) (hab : 0 < a + b) :
    ranks (labeledMerge (sortF (List.replicate a v)) (sortF (List.replicate b v)))
      = { twoR1 := (a + b + 1) * a, T := [a + b], hasTies := decide (a + b > 1) } := by
  rw [sortF_replicate v hirr, sortF_replicate v hirr, labeledMerge_replicate v hirr]
  have hrun : takeRun v (List.replicate b (v, false) ++ List.replicate a (v, true)) = (a + b, a, []) := by
    have h0 : takeRun v ([] : List (α × Bool)) = (0, 0, []) := rfl
    have h1 := takeRun_replicate v true a [] h0
    rw [List.append_nil] at h1
    have h2 := takeRun_replicate v false b _ h1
    simpa [Nat.add_comm] using h2
  unfold ranks
  generalize hL : List.replicate b (v, false) ++ List.replicate a (v, true) = L at hrun
  have hlen : L.length = a + b := by rw [← hL]; simp [Nat.add_comm]
  cases L with
  | nil => simp at hlen; omega
  | cons p rest =>
    obtain ⟨w, l⟩ := p
    have hw : w = v := by
      have : (w, l) ∈ List.replicate b (v, false) ++ List.replicate a (v, true) := by rw [hL]; simp
      simp [List.mem_replicate] at this
      rcases this with h | h <;> exact h.2.1
    have hw2 : v = w := hw.symm
    subst hw2
    obtain ⟨N, hN⟩ : ∃ N, a + b = N + 1 := ⟨a + b - 1, by omega⟩
    have hfuel : rankLoop (a + b) 0 ((v, l) :: rest) { twoR1 := 0, T := [], hasTies := false }
        = { twoR1 := (a + b + 1) * a, T := [a + b], hasTies := decide (a + b > 1) } := by
      have e : rankLoop (a + b) 0 ((v, l) :: rest) { twoR1 := 0, T := [], hasTies := false }
          = rankLoop (N + 1) 0 ((v, l) :: rest) { twoR1 := 0, T := [], hasTies := false } := by rw [hN]
      rw [e, rankLoop, hrun]
      have hnil : ∀ (i : Nat) (s : RankState), rankLoop N i ([] : List (α × Bool)) s = s := by
        intro i s; cases N <;> rfl
      rw [hnil]
      by_cases ha : a = 0
      · subst ha; simp; omega
      · simp [ha]; all_goals omega
    rw [hlen]
    exact hfuel

theorem sigma2_all_equal (a b : Nat) (ha : 0 < a) (hb : 0 < b) : sigma2 a b [a + b] = 0 := by
  unfold sigma2 tieCorrection
  simp only [List.foldl_cons, List.foldl_nil, Nat.zero_add]
  have hle : a + b ≤ (a + b) * (a + b) * (a + b) := by
    have : 1 ≤ (a + b) * (a + b) := Nat.one_le_iff_ne_zero.mpr (by positivity)
    calc a + b = 1 * (a + b) := by ring
      _ ≤ (a + b) * (a + b) * (a + b) := Nat.mul_le_mul_right _ this
  rw [Nat.cast_sub hle]
  have hN : (((a + b : Nat)) : Rat) ≠ 0 := by
    have : a + b ≠ 0 := by omega
    exact_mod_cast this
  have hN1 : (((a + b : Nat)) : Rat) - 1 ≠ 0 := by
    have h2 : (2 : Rat) ≤ ((a + b : Nat) : Rat) := by
      have : 2 ≤ a + b := by omega
      exact_mod_cast this
    intro h; linarith
  push_cast at hN hN1 ⊢
  field_simp
  ring

/-- all values equal (and both samples non-empty): the all-equal error on either branch -/
theorem errors_spec_all_equal (cdf : Nat → Nat → List Nat → Int → Rat) (lim limT : Nat) (alt : Alt)
    (v : α) (hirr : ¬ v < v) (x1 x2 : List α) (h1 : x1 ≠ []) (h2 : x2 ≠ [])
    (e1 : ∀ a ∈ x1, a = v) (e2 : ∀ b ∈ x2, b = v) :
    mannWhitney cdf lim limT x1 x2 alt = .error .samplesEqual := by
  have r1 : x1 = List.replicate x1.length v := List.eq_replicate_iff.mpr ⟨rfl, e1⟩
  have r2 : x2 = List.replicate x2.length v := List.eq_replicate_iff.mpr ⟨rfl, e2⟩
  have l1 : 0 < x1.length := List.length_pos_iff.mpr h1
  have l2 : 0 < x2.length := List.length_pos_iff.mpr h2
  unfold mannWhitney
  simp only
  rw [if_neg (by omega)]
  have hr := ranks_all_equal v hirr x1.length x2.length (by omega)
  rw [← r1, ← r2] at hr
  rw [hr]
  unfold decide'
  simp only
  split
  · simp
  · rw [sigma2_all_equal _ _ l1 l2]; simp

end AllEqual
end C11
