/-
C01 helper lemmas, part 3: one record, then a whole history, read back by the MODEL reader
(`Fmt.scanLine` / `readLines`).

What the reader makes of a single line is taken here as hypotheses on the records
(`CfgGood`, `BenchGood`, `UnitGood`); `C01Tokens.lean` derives them from well-formedness.
-/
import Proofs.Lemmas.C01Config

namespace C01
open Fmt Spec.RoundTrip

/-! ### observations with the file configuration as a function -/

inductive AObs where
  | result (name : Bytes) (iters : Int) (vals : List (UInt64 × Bytes)) (fm : Bytes → Option Bytes)
  | unit (origUnit key value tidyUnit : Bytes)
  | err (msg : Bytes)

/-- file part of a configuration given as a lookup function -/
def fmOf (get : Bytes → Option (Bytes × Bool)) : Bytes → Option Bytes := fun k =>
  match get k with
  | some (v, true) => some v
  | _ => none

/-- a record with its `Config` list read as a map -/
def aobsRec : Rec → AObs
  | .result r => .result r.name r.iters (r.values.map written) (fmOf (cfgGet r.config))
  | .unit u => .unit u.origUnit u.key u.value u.unit
  | .err e => .err e.msg

/-- the records that are written at all -/
def kept (h : List Rec) : List Rec :=
  h.filter fun r => match r with
    | .err _ => false
    | _ => true

theorem fmOf_link {fc : FC} {s : Store} (hl : Link fc s) (g : Bytes → Option (Bytes × Bool))
    (hg : ∀ k, fc.get k = g k) : fmOf (cfgGet s.live) = fmOf g := by
  funext k
  unfold fmOf
  rw [Store.cfgGet_live hl.inv, hl.map k, hg k]
  cases g k with
  | none => rfl
  | some vf => obtain ⟨v, f⟩ := vf; cases f <;> rfl

/-! ### what the reader makes of the other lines -/

/-- the benchmark line of `r` parses back to `r`'s name, iterations and written measurements -/
def BenchGood (O : Oracles) (P : WParams) (r : Res) : Prop :=
  ∃ vals, parseBenchmarkLine O (benchLine P r) = .ok r.name r.iters vals ∧
    vals.map written = r.values.map written

/-- the unit-metadata line of `u` yields `u` when its (tidied unit, key) is not yet set -/
def UnitGood (O : Oracles) (u : UnitMeta) : Prop :=
  ∀ st : RState, st.units.get u.unit u.key = none →
    scanLine O st (unitLine u) =
      ({ next st with units := st.units.insert ⟨u.unit, u.key, u.origUnit, u.value, st.fileName, st.line + 1⟩ },
        [.unit ⟨u.unit, u.key, u.origUnit, u.value, st.fileName, st.line + 1⟩])

def RecGood (O : Oracles) (P : WParams) : Rec → Prop
  | .result r => (r.config.map Cfg.key).Nodup ∧ (∀ c ∈ r.config, CfgGood O c) ∧ BenchGood O P r
  | .unit u => UnitGood O u
  | .err _ => True

/-- the unit-metadata records of the history set pairwise different (tidied unit, key) pairs,
none of which is set already -/
def UnitsFresh : UnitMap → List Rec → Prop
  | _, [] => True
  | units, .unit u :: rest =>
    units.get u.unit u.key = none ∧
      ∀ fn n, UnitsFresh (units.insert ⟨u.unit, u.key, u.origUnit, u.value, fn, n⟩) rest
  | units, _ :: rest => UnitsFresh units rest

theorem hasPrefix_append (p rest : Bytes) : Bytes.hasPrefix (p ++ rest) p = true := by
  induction p with
  | nil => cases rest <;> rfl
  | cons c cs ih => simp [Bytes.hasPrefix, ih]

theorem bench_scanLine (O : Oracles) (P : WParams) (r : Res) (vals : List Val)
    (hp : parseBenchmarkLine O (benchLine P r) = .ok r.name r.iters vals) (st : RState) :
    scanLine O st (benchLine P r) =
      (next st, [.result ⟨st.store.live, r.name, r.iters, vals, st.fileName, st.line + 1⟩]) := by
  have hpre : Bytes.hasPrefix (benchLine P r) benchmarkPrefix = true := by
    unfold benchLine
    simp only [List.append_assoc]
    exact hasPrefix_append _ _
  unfold scanLine
  simp only [hpre, ↓reduceIte, hp, next]

/-! ### one record -/

/-- The invariant linking the writer to a reader of its output. -/
structure Inv (O : Oracles) (w : WState) (s : Store) : Prop where
  winv : WInv w
  link : Link w.fileConfig s
  good : FCGood O w.fileConfig

theorem toMap_reset' (s : Store) (k : Bytes) : s.reset.toMap k = none := by
  simp [Store.toMap, Store.get, Store.configIndex, Store.index_reset, Index.get]

theorem inv_new (O : Oracles) (s : Store) : Inv O WState.new s.reset :=
  ⟨winv_new, ⟨Store.inv_reset s, fun k => by rw [toMap_reset']; simp [WState.new, FC.get, fileOnly]⟩,
    fun k v f h => by simp [WState.new, FC.get] at h⟩

theorem winv_first {w : WState} (h : WInv w) (b : Bool) : WInv { w with first := b } :=
  ⟨h.order_nodup, h.keys_nodup, h.order_iff⟩

/-- the state the reader is in after the lines of one result, and what it delivered -/
theorem result_step (O : Oracles) (P : WParams) (w : WState) (st : RState) (r : Res)
    (hi : Inv O w st.store) (hnd : (r.config.map Cfg.key).Nodup) (hcfg : ∀ c ∈ r.config, CfgGood O c)
    (hb : BenchGood O P r) :
    Inv O (writeResult P w r).1 (finalState O st (writeResult P w r).2).store ∧
    (∀ k, (writeResult P w r).1.fileConfig.get k = cfgGet r.config k) ∧
    (finalState O st (writeResult P w r).2).units = st.units ∧
    (finalState O st (writeResult P w r).2).fileName = st.fileName ∧
    (readLines O st (writeResult P w r).2).map aobsRec = [aobsRec (.result r)] := by
  obtain ⟨vals, hp, hvals⟩ := hb
  -- the configuration block (if any)
  have hblock : Inv O (if needFileConfig w.fileConfig r.config then writeFileConfig w r.config else (w, [])).1
        (finalState O st (if needFileConfig w.fileConfig r.config then writeFileConfig w r.config else (w, [])).2).store ∧
      (∀ k, (if needFileConfig w.fileConfig r.config then writeFileConfig w r.config else (w, [])).1.fileConfig.get k =
        cfgGet r.config k) ∧
      Block O st (if needFileConfig w.fileConfig r.config then writeFileConfig w r.config else (w, [])).2
        (if needFileConfig w.fileConfig r.config then writeFileConfig w r.config else (w, [])).1.fileConfig := by
    by_cases hneed : needFileConfig w.fileConfig r.config = true
    · simp only [hneed, ↓reduceIte]
      obtain ⟨hfc, hw', hread⟩ := writeFileConfig_spec O w r.config hi.winv hnd
      obtain ⟨hg', hblk⟩ := hread st hcfg hi.link hi.good
      exact ⟨⟨hw', hblk.link, hg'⟩, hfc, hblk⟩
    · have hneed' : needFileConfig w.fileConfig r.config = false := by simpa using hneed
      simp only [hneed', Bool.false_eq_true, ↓reduceIte]
      exact ⟨hi, noChange_spec _ _ hi.winv.keys_nodup hnd hneed', block_nil O hi.link⟩
  obtain ⟨hi', hfc, hblk⟩ := hblock
  have hbl := bench_scanLine O P r vals hp
    (finalState O st (if needFileConfig w.fileConfig r.config then writeFileConfig w r.config else (w, [])).2)
  unfold writeResult
  simp only
  rw [finalState_append', readLines_append', hblk.quiet]
  simp only [finalState, readLines, hbl, List.nil_append, List.append_nil, next]
  refine ⟨⟨winv_first hi'.winv false, hi'.link, hi'.good⟩, hfc, hblk.units, hblk.fileName, ?_⟩
  simp only [List.map_cons, List.map_nil, aobsRec, hvals]
  rw [fmOf_link hi'.link (cfgGet r.config) hfc]

/-! ### a history -/

theorem history_lines (O : Oracles) (P : WParams) :
    ∀ (h : List Rec) (w : WState) (st : RState),
      Inv O w st.store → (∀ r ∈ h, RecGood O P r) → UnitsFresh st.units h →
      (readLines O st (Writer.writeFrom P w h)).map aobsRec = (kept h).map aobsRec ∧
      Inv O (Writer.stateAfter P w h) (finalState O st (Writer.writeFrom P w h)).store := by
  intro h
  induction h with
  | nil => intro w st hi _ _; exact ⟨rfl, hi⟩
  | cons rec rest ih =>
    intro w st hi hgood hfresh
    have hrest : ∀ r ∈ rest, RecGood O P r := fun r hr => hgood r (List.mem_cons_of_mem _ hr)
    have hrec := hgood rec List.mem_cons_self
    cases rec with
    | err e =>
      simp only [Writer.writeFrom, Writer.stateAfter, Writer.write, List.nil_append, kept, List.filter_cons]
      exact ih w st hi hrest hfresh
    | unit um =>
      obtain ⟨hnone, hf'⟩ := hfresh
      have hl := hrec st hnone
      obtain ⟨h1, h2⟩ := ih w
        { next st with units := st.units.insert ⟨um.unit, um.key, um.origUnit, um.value, st.fileName, st.line + 1⟩ }
        hi hrest (hf' st.fileName (st.line + 1))
      simp only [Writer.writeFrom, Writer.stateAfter, Writer.write, kept, List.filter_cons, List.cons_append,
        List.nil_append, readLines, finalState, hl, List.map_cons, List.map_append]
      refine ⟨?_, h2⟩
      rw [h1]
      simp [aobsRec, kept]
    | result r =>
      obtain ⟨hnd, hcfg, hb⟩ := hrec
      obtain ⟨hi', _, hu, _, hout⟩ := result_step O P w st r hi hnd hcfg hb
      obtain ⟨h1, h2⟩ := ih (writeResult P w r).1 (finalState O st (writeResult P w r).2) hi' hrest
        (by rw [hu]; exact hfresh)
      simp only [Writer.writeFrom, Writer.stateAfter, Writer.write, kept, List.filter_cons, List.map_cons]
      rw [readLines_append', finalState_append', List.map_append, hout, h1]
      exact ⟨by simp [kept], h2⟩

end C01
