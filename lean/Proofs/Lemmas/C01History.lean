/-
C01 helper lemmas, part 3: one record, then a whole history, read back by the line-structured
specification reader (`Spec.Format`, through `runLines`).

What the reader makes of a single line is taken here as hypotheses on the records
(`CfgGood`, `BenchGood`, `UnitGood`); `C01Tokens.lean` derives them from well-formedness.
-/
import Proofs.Lemmas.C01Config
import Proofs.Lemmas.C02Reader

namespace C01
open Fmt Spec.Format Spec.RoundTrip

/-! ### observations with the file configuration as a function -/

inductive AObs where
  | result (name : Bytes) (iters : Int) (vals : List (UInt64 × Bytes)) (fm : Bytes → Option Bytes)
  | unit (origUnit key value tidyUnit : Bytes)
  | err (msg : Bytes)

/-- file part of a configuration given as a lookup function -/
def fmOf (get : Bytes → Option (Bytes × Bool)) : Bytes → Option Bytes := fun k =>
  match get k with
  | some (v, true) => some v
  | _ => none

/-- a record of the model reader / of a history -/
def aobsRec : Rec → AObs
  | .result r => .result r.name r.iters (r.values.map written) (fmOf (cfgGet r.config))
  | .unit u => .unit u.origUnit u.key u.value u.unit
  | .err e => .err e.msg

/-- a record of the specification reader -/
def aobsS : SRec → AObs
  | .result r => .result r.name r.iters (r.values.map written) (fmOf (CMap.get r.config))
  | .unit u => .unit u.origUnit u.key u.value u.unit
  | .err e => .err e.msg

/-- the records that are written at all -/
def kept (h : List Rec) : List Rec :=
  h.filter fun r => match r with
    | .err _ => false
    | _ => true

theorem fmOf_link {fc : FC} {m : CMap} (hl : Link fc m) (g : Bytes → Option (Bytes × Bool))
    (hg : ∀ k, fc.get k = g k) : fmOf (CMap.get m) = fmOf g := by
  funext k
  unfold fmOf
  rw [hl k, hg k]
  cases g k with
  | none => rfl
  | some vf => obtain ⟨v, f⟩ := vf; cases f <;> rfl

/-! ### what the reader makes of the other lines -/

/-- the benchmark line of `r` parses back to `r`'s name, iterations and written measurements -/
def BenchGood (O : Oracles) (P : WParams) (r : Res) : Prop :=
  ∃ vals, parseBenchmarkLine O (benchLine P r) = .ok r.name r.iters vals ∧
    vals.map written = r.values.map written

/-- the unit-metadata line of `u` yields `u` when its (tidied unit, key) is not yet set -/
def UnitGood (O : Oracles) (fn : Bytes) (u : UnitMeta) : Prop :=
  ∀ m units n, units.get u.unit u.key = none →
    lineRecs O fn m units n (unitLine u) =
      (m, units.insert ⟨u.unit, u.key, u.origUnit, u.value, fn, n⟩,
        [.unit ⟨u.unit, u.key, u.origUnit, u.value, fn, n⟩])

def RecGood (O : Oracles) (P : WParams) (fn : Bytes) : Rec → Prop
  | .result r => (r.config.map Cfg.key).Nodup ∧ (∀ c ∈ r.config, CfgGood O fn c) ∧ BenchGood O P r
  | .unit u => UnitGood O fn u
  | .err _ => True

/-- the unit-metadata records of the history set pairwise different (tidied unit, key) pairs,
none of which is set already -/
def UnitsFresh : UnitMap → List Rec → Prop
  | _, [] => True
  | units, .unit u :: rest =>
    units.get u.unit u.key = none ∧
      ∀ fn n, UnitsFresh (units.insert ⟨u.unit, u.key, u.origUnit, u.value, fn, n⟩) rest
  | units, _ :: rest => UnitsFresh units rest

theorem hasPrefix_append (p rest : Bytes) : Bytes.hasPrefix (p ++ rest) p = true := by
  induction p with
  | nil => cases rest <;> rfl
  | cons c cs ih => simp [Bytes.hasPrefix, ih]

theorem bench_lineRecs (O : Oracles) (P : WParams) (fn : Bytes) (r : Res) (vals : List Val)
    (hp : parseBenchmarkLine O (benchLine P r) = .ok r.name r.iters vals)
    (m : CMap) (u : UnitMap) (n : Nat) :
    lineRecs O fn m u n (benchLine P r) = (m, u, [.result ⟨m, r.name, r.iters, vals, fn, n⟩]) := by
  have hpre : Bytes.hasPrefix (benchLine P r) benchmarkPrefix = true := by
    unfold benchLine
    simp only [List.append_assoc]
    exact hasPrefix_append _ _
  have hc : classify O (benchLine P r) = .bench := by
    unfold classify
    simp [hpre, hp]
  unfold lineRecs
  rw [hc]
  simp only [hp]

/-! ### one record -/

/-- The invariant linking the writer to a reader of its output. -/
structure Inv (O : Oracles) (fn : Bytes) (w : WState) (m : CMap) : Prop where
  winv : WInv w
  link : Link w.fileConfig m
  good : FCGood O fn w.fileConfig

theorem inv_new (O : Oracles) (fn : Bytes) : Inv O fn WState.new [] :=
  ⟨winv_new, fun k => by simp [WState.new, FC.get, CMap.get, fileOnly], fun k v f h => by
    simp [WState.new, FC.get] at h⟩

theorem winv_first {w : WState} (h : WInv w) (b : Bool) : WInv { w with first := b } :=
  ⟨h.order_nodup, h.keys_nodup, h.order_iff⟩

theorem result_step (O : Oracles) (P : WParams) (fn : Bytes) (w : WState) (m : CMap) (r : Res)
    (hi : Inv O fn w m) (hnd : (r.config.map Cfg.key).Nodup) (hcfg : ∀ c ∈ r.config, CfgGood O fn c)
    (hb : BenchGood O P r) (u : UnitMap) :
    ∃ m', Inv O fn (writeResult P w r).1 m' ∧
      (∀ k, (writeResult P w r).1.fileConfig.get k = cfgGet r.config k) ∧
      ∀ n, ∃ out, runLines O fn m u n (writeResult P w r).2 = (m', u, out) ∧
        out.map aobsS = [aobsRec (.result r)] := by
  obtain ⟨vals, hp, hvals⟩ := hb
  -- the configuration block (if any)
  have hblock : ∃ m', Inv O fn (if needFileConfig w.fileConfig r.config then writeFileConfig w r.config else (w, [])).1 m' ∧
      (∀ k, (if needFileConfig w.fileConfig r.config then writeFileConfig w r.config else (w, [])).1.fileConfig.get k =
        cfgGet r.config k) ∧
      ∀ n, runLines O fn m u n (if needFileConfig w.fileConfig r.config then writeFileConfig w r.config else (w, [])).2 =
        (m', u, []) := by
    by_cases hneed : needFileConfig w.fileConfig r.config = true
    · simp only [hneed, ↓reduceIte]
      obtain ⟨hfc, hw', hread⟩ := writeFileConfig_spec O fn w r.config hi.winv hnd
      obtain ⟨hg', m', hr, hl'⟩ := hread m u hcfg hi.link hi.good
      exact ⟨m', ⟨hw', hl', hg'⟩, hfc, hr⟩
    · have hneed' : needFileConfig w.fileConfig r.config = false := by simpa using hneed
      simp only [hneed', Bool.false_eq_true, ↓reduceIte]
      exact ⟨m, hi, noChange_spec _ _ hi.winv.keys_nodup hnd hneed', fun n => rfl⟩
  obtain ⟨m', hi', hfc, hr⟩ := hblock
  refine ⟨m', ⟨winv_first hi'.winv false, hi'.link, hi'.good⟩, hfc, fun n => ?_⟩
  refine ⟨[.result ⟨m', r.name, r.iters, vals, fn, n +
    (if needFileConfig w.fileConfig r.config then writeFileConfig w r.config else (w, [])).2.length⟩], ?_, ?_⟩
  · unfold writeResult
    simp only
    rw [runLines_append, hr n]
    simp only [runLines, bench_lineRecs O P fn r vals hp, List.nil_append, List.append_nil]
  · simp only [List.map_cons, List.map_nil, aobsS, aobsRec, hvals]
    rw [fmOf_link hi'.link (cfgGet r.config) hfc]

/-! ### a history -/

theorem history_lines (O : Oracles) (P : WParams) (fn : Bytes) :
    ∀ (h : List Rec) (w : WState) (m : CMap) (units : UnitMap) (n : Nat),
      Inv O fn w m → (∀ r ∈ h, RecGood O P fn r) → UnitsFresh units h →
      ((runLines O fn m units n (Writer.writeFrom P w h)).2.2).map aobsS = (kept h).map aobsRec := by
  intro h
  induction h with
  | nil => intro w m units n _ _ _; rfl
  | cons rec rest ih =>
    intro w m units n hi hgood hfresh
    have hrest : ∀ r ∈ rest, RecGood O P fn r := fun r hr => hgood r (List.mem_cons_of_mem _ hr)
    have hrec := hgood rec List.mem_cons_self
    cases rec with
    | err e =>
      simp only [Writer.writeFrom, Writer.write, List.nil_append, kept, List.filter_cons]
      exact ih w m units n hi hrest hfresh
    | unit um =>
      obtain ⟨hnone, hf'⟩ := hfresh
      have hl := hrec m units n hnone
      simp only [Writer.writeFrom, Writer.write, kept, List.filter_cons, List.cons_append,
        List.nil_append, runLines, hl, List.map_cons, List.map_append]
      rw [ih w m _ (n + 1) hi hrest (hf' fn n)]
      simp [aobsS, aobsRec, kept]
    | result r =>
      obtain ⟨hnd, hcfg, hb⟩ := hrec
      obtain ⟨m', hi', _, hrun⟩ := result_step O P fn w m r hi hnd hcfg hb units
      obtain ⟨out, hr, hout⟩ := hrun n
      simp only [Writer.writeFrom, Writer.write, kept, List.filter_cons, List.map_cons]
      rw [runLines_append]
      simp only [hr, List.map_append, hout]
      rw [ih _ m' units _ hi' hrest hfresh]
      simp [kept]

/-- The writer/reader invariant along a history: after every prefix, a reader of the lines
written so far holds exactly the file part of the last result's configuration, and the
writer's `fileConfig` is that result's configuration as a map. -/
theorem history_inv (O : Oracles) (P : WParams) (fn : Bytes) :
    ∀ (h : List Rec) (w : WState) (m : CMap) (units : UnitMap) (n : Nat),
      Inv O fn w m → (∀ r ∈ h, RecGood O P fn r) → UnitsFresh units h →
      Inv O fn (Writer.stateAfter P w h) (runLines O fn m units n (Writer.writeFrom P w h)).1 := by
  intro h
  induction h with
  | nil => intro w m units n hi _ _; exact hi
  | cons rec rest ih =>
    intro w m units n hi hgood hfresh
    have hrest : ∀ r ∈ rest, RecGood O P fn r := fun r hr => hgood r (List.mem_cons_of_mem _ hr)
    have hrec := hgood rec List.mem_cons_self
    cases rec with
    | err e =>
      simp only [Writer.writeFrom, Writer.stateAfter, Writer.write, List.nil_append]
      exact ih w m units n hi hrest hfresh
    | unit um =>
      obtain ⟨hnone, hf'⟩ := hfresh
      have hl := hrec m units n hnone
      simp only [Writer.writeFrom, Writer.stateAfter, Writer.write, List.cons_append, List.nil_append,
        runLines, hl]
      exact ih w m _ (n + 1) hi hrest (hf' fn n)
    | result r =>
      obtain ⟨hnd, hcfg, hb⟩ := hrec
      obtain ⟨m', hi', _, hrun⟩ := result_step O P fn w m r hi hnd hcfg hb units
      obtain ⟨out, hr, _⟩ := hrun n
      simp only [Writer.writeFrom, Writer.stateAfter, Writer.write]
      rw [runLines_append]
      simp only [hr]
      exact ih _ m' units _ hi' hrest hfresh

end C01
