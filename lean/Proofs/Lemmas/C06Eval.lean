/-
Evaluator-level facts for property C06: the `.unit` loop, `filterOp`'s three closures, and the
All/Any loops, each characterised per measurement index.
-/
import Proofs.Lemmas.C06Mask
import Model.Spec.FilterSem

namespace C06
open Proc.FilterEval Spec.FilterSem

/-- every non-nil mask has the length `newMask n` gives -/
def OutWF (n : Nat) (o : Out) : Prop := ∀ m, o.1 = some m → m.length = words n

/-- `Test(i)` of the `Match` built from a filterFn's return values -/
def outTest (n : Nat) (o : Out) (i : Nat) : Bool := (Match.mk n o.1 o.2).test i

theorem outTest_none (n : Nat) (x : Bool) (i : Nat) (hi : i < n) : outTest n (none, x) i = x := by
  simp [outTest, test_none, hi]

theorem outTest_some (n : Nat) (m : Mask) (x : Bool) (i : Nat) (hi : i < n) :
    outTest n (some m, x) i = bit m i := by
  simp [outTest, test_some, hi]

/-! ### the `.unit` leaf -/

theorem unitLoop_spec (re : ReOracle) (mt : Matcher) (vs : List Value) (i0 : Nat) (m : Mask)
    (hlen : ∀ k, k < vs.length → (i0 + k) / 32 < m.length) :
    (unitLoop re mt vs i0 m).length = m.length ∧
    ∀ j, bit (unitLoop re mt vs i0 m) j =
      (bit m j || (decide (i0 ≤ j) && ((vs[j - i0]?).map (unitHolds re mt)).getD false)) := by
  induction vs generalizing i0 m with
  | nil => simp [unitLoop]
  | cons v vs ih =>
    unfold unitLoop
    have h0 : i0 / 32 < m.length := by simpa using hlen 0 (by simp)
    let m' := if unitHolds re mt v then maskSet m i0 else m
    have hm'len : m'.length = m.length := by
      simp only [m']; split
      · exact length_maskSet _ _
      · rfl
    have hm'bit : ∀ j, bit m' j = (bit m j || (unitHolds re mt v && decide (j = i0))) := by
      intro j; simp only [m']; split
      · rename_i h; rw [bit_maskSet _ _ _ h0]; simp [h]
      · rename_i h; simp [h]
    have hlen' : ∀ k, k < vs.length → (i0 + 1 + k) / 32 < m'.length := by
      intro k hk; rw [hm'len]
      have := hlen (k + 1) (by simpa using hk)
      have e : i0 + (k + 1) = i0 + 1 + k := by omega
      rwa [e] at this
    obtain ⟨ihl, ihb⟩ := ih (i0 + 1) m' hlen'
    refine ⟨by rw [ihl, hm'len], ?_⟩
    intro j
    rw [ihb j, hm'bit j]
    by_cases h1 : j = i0
    · subst h1
      have : ¬ (j + 1 ≤ j) := by omega
      simp [this]
    · by_cases h2 : i0 ≤ j
      · have h3 : i0 + 1 ≤ j := by omega
        have e : j - i0 = (j - (i0 + 1)) + 1 := by omega
        simp [h1, h2, h3, e]
      · have h3 : ¬ (i0 + 1 ≤ j) := by omega
        simp [h1, h2, h3]

theorem holds_eq_valueHolds (re : ReOracle) (mt : Matcher) (v : Bytes) :
    mt.holds re v = valueHolds re mt v := by
  cases mt with
  | lit s =>
    simp only [Matcher.holds, valueHolds]
    by_cases h : v = s
    · subst h; simp
    · have : ¬ s = v := fun e => h e.symm
      simp [h, this]
  | re id => rfl

theorem bne_nil (l : Bytes) : (l != []) = !decide (l = []) := by
  cases l <;> simp

theorem unitFn_wf (re : ReOracle) (mt : Matcher) (res : Res) :
    OutWF res.values.length (unitFn re mt res) := by
  intro m hm
  simp only [unitFn] at hm
  have := (unitLoop_spec re mt res.values 0 (newMask res.values.length) (by
    intro k hk; rw [length_newMask]; simpa using div32_lt_words hk)).1
  cases hm
  rw [this, length_newMask]

theorem unitFn_test (re : ReOracle) (mt : Matcher) (res : Res) (i : Nat) (hi : i < res.values.length) :
    outTest res.values.length (unitFn re mt res) i = termHolds re res i Proc.Extract.dotUnit mt := by
  have hs := (unitLoop_spec re mt res.values 0 (newMask res.values.length) (by
    intro k hk; rw [length_newMask]; simpa using div32_lt_words hk)).2 i
  unfold unitFn
  rw [outTest_some _ _ _ _ hi, hs, bit_newMask]
  simp only [termHolds, if_true, Bool.false_or, Nat.zero_le, decide_true, Bool.true_and, Nat.sub_zero]
  have : res.values[i]? = some res.values[i] := by simp [hi]
  rw [this]
  simp [unitHolds, holds_eq_valueHolds, bne_nil]

/-! ### filterOp -/

theorem notFn_wf (n : Nat) (sub : FilterFn) (res : Res) (h : OutWF n (sub res)) : OutWF n (notFn sub res) := by
  unfold notFn
  rcases hs : sub res with ⟨_ | m, x⟩
  · intro m' hm'; simp at hm'
  · intro m' hm'
    simp at hm'
    rw [← hm', length_maskNot]
    exact h m (by rw [hs])

theorem notFn_test (n : Nat) (sub : FilterFn) (res : Res) (h : OutWF n (sub res)) (i : Nat) (hi : i < n) :
    outTest n (notFn sub res) i = !outTest n (sub res) i := by
  unfold notFn
  rcases hs : sub res with ⟨_ | m, x⟩
  · simp [outTest_none _ _ _ hi]
  · have hl : m.length = words n := h m (by rw [hs])
    simp only [outTest_some _ _ _ _ hi]
    exact bit_maskNot m i (by rw [hl]; exact div32_lt_words hi)

/-- the accumulator `var m mask` of the AND closure read as a predicate: nil is "true so far" -/
def accAnd (acc : Option Mask) (i : Nat) : Bool :=
  match acc with
  | none => true
  | some m => bit m i

/-- the accumulator of the OR closure: nil is "false so far" -/
def accOr (acc : Option Mask) (i : Nat) : Bool :=
  match acc with
  | none => false
  | some m => bit m i

theorem andLoop_spec (res : Res) (n : Nat) (subs : List FilterFn) (acc : Option Mask)
    (hsubs : ∀ f, f ∈ subs → OutWF n (f res)) (hacc : ∀ m, acc = some m → m.length = words n) :
    OutWF n (andLoop res subs acc) ∧
    ∀ i, i < n → outTest n (andLoop res subs acc) i =
      (accAnd acc i && subs.all (fun f => outTest n (f res) i)) := by
  induction subs generalizing acc with
  | nil =>
    refine ⟨fun m hm => hacc m hm, fun i hi => ?_⟩
    cases acc with
    | none => simp [andLoop, outTest_none _ _ _ hi, accAnd]
    | some m => simp [andLoop, outTest_some _ _ _ _ hi, accAnd]
  | cons sub subs ih =>
    have hsub := hsubs sub (by simp)
    have hrest : ∀ f, f ∈ subs → OutWF n (f res) := fun f hf => hsubs f (by simp [hf])
    unfold andLoop
    rcases hs : sub res with ⟨_ | m2, x⟩
    · cases x with
      | false =>
        refine ⟨fun m hm => by simp at hm, fun i hi => ?_⟩
        simp [outTest_none _ _ _ hi, hs]
      | true =>
        obtain ⟨w, t⟩ := ih acc hrest hacc
        refine ⟨by simpa using w, fun i hi => ?_⟩
        have := t i hi
        simp only [Bool.not_true, Bool.false_eq_true, if_false]
        rw [this]
        simp [hs, outTest_none _ _ _ hi]
    · have hl2 : m2.length = words n := hsub m2 (by rw [hs])
      cases acc with
      | none =>
        obtain ⟨w, t⟩ := ih (some m2) hrest (by intro m hm; cases hm; exact hl2)
        refine ⟨w, fun i hi => ?_⟩
        rw [t i hi]
        simp [accAnd, hs, outTest_some _ _ _ _ hi]
      | some m =>
        have hl : m.length = words n := hacc m rfl
        have hml : m.length = m2.length := by rw [hl, hl2]
        obtain ⟨w, t⟩ := ih (some (maskAnd m m2)) hrest (by
          intro m' hm'; cases hm'; rw [length_maskAnd _ _ hml, hl])
        refine ⟨w, fun i hi => ?_⟩
        rw [t i hi]
        simp [accAnd, hs, outTest_some _ _ _ _ hi, bit_maskAnd _ _ _ hml, Bool.and_assoc]

theorem orLoop_spec (res : Res) (n : Nat) (subs : List FilterFn) (acc : Option Mask)
    (hsubs : ∀ f, f ∈ subs → OutWF n (f res)) (hacc : ∀ m, acc = some m → m.length = words n) :
    OutWF n (orLoop res subs acc) ∧
    ∀ i, i < n → outTest n (orLoop res subs acc) i =
      (accOr acc i || subs.any (fun f => outTest n (f res) i)) := by
  induction subs generalizing acc with
  | nil =>
    refine ⟨fun m hm => hacc m hm, fun i hi => ?_⟩
    cases acc with
    | none => simp [orLoop, outTest_none _ _ _ hi, accOr]
    | some m => simp [orLoop, outTest_some _ _ _ _ hi, accOr]
  | cons sub subs ih =>
    have hsub := hsubs sub (by simp)
    have hrest : ∀ f, f ∈ subs → OutWF n (f res) := fun f hf => hsubs f (by simp [hf])
    unfold orLoop
    rcases hs : sub res with ⟨_ | m2, x⟩
    · cases x with
      | true =>
        refine ⟨fun m hm => by simp at hm, fun i hi => ?_⟩
        simp [outTest_none _ _ _ hi, hs]
      | false =>
        obtain ⟨w, t⟩ := ih acc hrest hacc
        refine ⟨by simpa using w, fun i hi => ?_⟩
        have := t i hi
        simp only [Bool.false_eq_true, if_false]
        rw [this]
        simp [hs, outTest_none _ _ _ hi]
    · have hl2 : m2.length = words n := hsub m2 (by rw [hs])
      cases acc with
      | none =>
        obtain ⟨w, t⟩ := ih (some m2) hrest (by intro m hm; cases hm; exact hl2)
        refine ⟨w, fun i hi => ?_⟩
        rw [t i hi]
        simp [accOr, hs, outTest_some _ _ _ _ hi]
      | some m =>
        have hl : m.length = words n := hacc m rfl
        have hml : m.length = m2.length := by rw [hl, hl2]
        obtain ⟨w, t⟩ := ih (some (maskOr m m2)) hrest (by
          intro m' hm'; cases hm'; rw [length_maskOr _ _ hml, hl])
        refine ⟨w, fun i hi => ?_⟩
        rw [t i hi]
        simp [accOr, hs, outTest_some _ _ _ _ hi, bit_maskOr _ _ _ hml, Bool.or_assoc]

theorem andFn_spec (res : Res) (n : Nat) (subs : List FilterFn)
    (hsubs : ∀ f, f ∈ subs → OutWF n (f res)) :
    OutWF n (andFn subs res) ∧
    ∀ i, i < n → outTest n (andFn subs res) i = subs.all (fun f => outTest n (f res) i) := by
  obtain ⟨w, t⟩ := andLoop_spec res n subs none hsubs (by intro m hm; cases hm)
  exact ⟨w, fun i hi => by rw [andFn, t i hi]; simp [accAnd]⟩

theorem orFn_spec (res : Res) (n : Nat) (subs : List FilterFn)
    (hsubs : ∀ f, f ∈ subs → OutWF n (f res)) :
    OutWF n (orFn subs res) ∧
    ∀ i, i < n → outTest n (orFn subs res) i = subs.any (fun f => outTest n (f res) i) := by
  obtain ⟨w, t⟩ := orLoop_spec res n subs none hsubs (by intro m hm; cases hm)
  exact ⟨w, fun i hi => by rw [orFn, t i hi]; simp [accOr]⟩

end C06
