/-
C11: the exact-branch p formulas of utest.go against the specification, given that the CDF passed
in is the distribution function of the null distribution (`IsCDFOf`).
-/
import Model.Stats.UDist
import Model.Stats.UStat
import Model.Spec.UExact
import Proofs.Lemmas.C11Basic
import Mathlib.Data.List.Basic
import Mathlib.Tactic.Ring
import Mathlib.Tactic.Linarith
import Mathlib.Tactic.FieldSimp

namespace C11
open Stats Stats.UStat Stats.UDist

/-- `cdf` is the distribution function of the doubled statistic whose equally likely values are `dist` -/
def IsCDFOf (cdf : Int → Rat) (dist : List Nat) : Prop :=
  ∀ v : Int, cdf v = (((dist.filter fun (d : Nat) => decide ((d : Int) ≤ v)).length : Nat) : Rat) / ((dist.length : Nat) : Rat)

theorem less_spec (cdf : Int → Rat) (dist : List Nat) (h : IsCDFOf cdf dist) (u : Nat) (tu2 : Int) :
    exactP cdf .less (u : Int) tu2 = Spec.UExact.pLess dist u := by
  unfold exactP Spec.UExact.pLess
  simp only
  rw [h]
  have e : (dist.filter fun (d : Nat) => decide ((d : Int) ≤ (u : Int))) = dist.filter (· ≤ u) := by
    apply List.filter_congr
    intro d _
    simp
  rw [e]

theorem greater_spec (cdf : Int → Rat) (dist : List Nat) (h : IsCDFOf cdf dist) (hne : dist ≠ [])
    (u : Nat) (tu2 : Int) :
    exactP cdf .greater (u : Int) tu2 = Spec.UExact.pGreater dist u := by
  unfold exactP Spec.UExact.pGreater
  simp only
  rw [h]
  have hlen : ((dist.length : Nat) : Rat) ≠ 0 := by
    have : dist.length ≠ 0 := by simpa using hne
    exact_mod_cast this
  have hsplit := List.length_eq_length_filter_add (l := dist) (fun (d : Nat) => decide ((d : Int) ≤ (u : Int) - 1))
  have hcongr : (dist.filter fun (d : Nat) => !decide ((d : Int) ≤ (u : Int) - 1)) = dist.filter fun (d : Nat) => decide (d ≥ u) := by
    apply List.filter_congr
    intro d _
    by_cases hd : u ≤ d
    · have : ¬ ((d : Int) ≤ (u : Int) - 1) := by omega
      simp [hd, this]
    · have : ((d : Int) ≤ (u : Int) - 1) := by omega
      simp [hd, this]
  rw [hcongr] at hsplit
  rw [eq_div_iff hlen, sub_mul, div_mul_cancel₀ _ hlen, one_mul]
  have : ((dist.length : Nat) : Rat) = (((dist.filter fun (d : Nat) => decide ((d : Int) ≤ (u : Int) - 1)).length : Nat) : Rat)
      + (((dist.filter fun (d : Nat) => decide (d ≥ u)).length : Nat) : Rat) := by exact_mod_cast hsplit
  linarith

end C11
