/-
C19 helper lemmas: from the query text to the set of selected records.
-/
import Model.Storage.Query
import Proofs.Lemmas.C19Order
import Proofs.Lemmas.C19Merge
import Mathlib.Tactic.Tauto
import Mathlib.Data.List.Nodup

namespace C19
open Storage.Query

/-- `satG` at the bytewise order -/
abbrev sat (p : Part) (v : Bytes) : Prop := satG blt p v

theorem merge_sat_bytes (p p2 : Part) (v : Bytes) (hv : v ≠ []) :
    satOpt blt (merge p p2) v ↔ (sat p v ∧ sat p2 v) :=
  @merge_sat Bytes bytesOrder blt [] (fun _ _ => Iff.rfl) (fun v => blt_nil_right v) p p2 v hv

/-- the labels of one record: a functional relation key ↦ value without empty values -/
structure LabelRel (L : Bytes → Bytes → Prop) : Prop where
  functional : ∀ k v1 v2, L k v1 → L k v2 → v1 = v2
  nonempty : ∀ k v, L k v → v ≠ []

/-- a record with labels `L` satisfies the term `p` -/
def termSat (L : Bytes → Bytes → Prop) (p : Part) : Prop := ∃ v, L p.key v ∧ sat p v

def tblSat (L : Bytes → Bytes → Prop) (tbl : List Part) : Prop := ∀ t ∈ tbl, termSat L t

variable {L : Bytes → Bytes → Prop}

theorem addPart_err (tbl : List Part) (p : Part) (e : QErr) (h : addPart tbl p = .error e) :
    e = .eof := by
  induction tbl with
  | nil => simp [addPart] at h
  | cons t rest ih =>
    unfold addPart at h
    split at h
    · split at h
      · cases h
      · cases h; rfl
    · cases hr : addPart rest p with
      | error e' => simp only [hr, bind, Except.bind] at h; cases h; exact ih hr
      | ok r => simp only [hr, bind, Except.bind, pure, Except.pure] at h; cases h

theorem addPart_ok (hL : LabelRel L) (tbl : List Part) (p : Part) (tbl' : List Part)
    (h : addPart tbl p = .ok tbl') : tblSat L tbl' ↔ (tblSat L tbl ∧ termSat L p) := by
  induction tbl generalizing tbl' with
  | nil => simp [addPart] at h; subst h; simp [tblSat]
  | cons t rest ih =>
    unfold addPart at h
    split at h
    · rename_i hk
      have hk : t.key = p.key := by simpa using hk
      cases hm : merge t p with
      | none => rw [hm] at h; cases h
      | some m =>
        rw [hm] at h; cases h
        have hmk : m.key = t.key := by
          rcases merge_key blt [] t p m hm with h | h
          · exact h
          · rw [h, hk]
        have key : termSat L m ↔ (termSat L t ∧ termSat L p) := by
          constructor
          · rintro ⟨v, hv, hs⟩
            have := (merge_sat_bytes t p v (hL.nonempty _ _ hv)).mp (by rw [hm]; exact hs)
            exact ⟨⟨v, hmk ▸ hv, this.1⟩, ⟨v, hk ▸ hmk ▸ hv, this.2⟩⟩
          · rintro ⟨⟨v, hv, hs⟩, ⟨v2, hv2, hs2⟩⟩
            have e : v2 = v := hL.functional _ _ _ hv2 (hk ▸ hv)
            subst e
            have := (merge_sat_bytes t p v2 (hL.nonempty _ _ hv)).mpr ⟨hs, hs2⟩
            rw [hm] at this
            exact ⟨v2, hmk ▸ hv, this⟩
        simp only [tblSat, List.mem_cons, forall_eq_or_imp] at *
        rw [key]; tauto
    · cases hr : addPart rest p with
      | error e' => simp only [hr, bind, Except.bind] at h; cases h
      | ok r =>
        simp only [hr, bind, Except.bind, pure, Except.pure] at h; cases h
        have := ih r hr
        simp only [tblSat, List.mem_cons, forall_eq_or_imp] at *
        rw [this]; tauto

theorem addPart_eof (hL : LabelRel L) (tbl : List Part) (p : Part)
    (h : addPart tbl p = .error .eof) : ¬ (tblSat L tbl ∧ termSat L p) := by
  induction tbl with
  | nil => simp [addPart] at h
  | cons t rest ih =>
    unfold addPart at h
    split at h
    · rename_i hk
      have hk : t.key = p.key := by simpa using hk
      cases hm : merge t p with
      | some m => rw [hm] at h; cases h
      | none =>
        rintro ⟨ht, ⟨v2, hv2, hs2⟩⟩
        obtain ⟨v, hv, hs⟩ := ht t (by simp)
        have e : v2 = v := hL.functional _ _ _ hv2 (hk ▸ hv)
        subst e
        have := (merge_sat_bytes t p v2 (hL.nonempty _ _ hv)).mpr ⟨hs, hs2⟩
        rw [hm] at this
        exact this
    · cases hr : addPart rest p with
      | ok r => simp only [hr, bind, Except.bind, pure, Except.pure] at h; cases h
      | error e' =>
        simp only [hr, bind, Except.bind] at h
        have : e' = .eof := by cases h; rfl
        subst this
        rintro ⟨ht, hp⟩
        exact ih hr ⟨fun x hx => ht x (by simp [hx]), hp⟩

theorem parseWordGo_ne_eof (k w : Bytes) : parseWordGo k w ≠ .error .eof := by
  induction w generalizing k with
  | nil => simp [parseWordGo]
  | cons c rest ih =>
    unfold parseWordGo
    split
    · split
      · simp
      · split
        · simp
        · split <;> simp
    · exact ih _

theorem collect_ok (hL : LabelRel L) (ws : List Bytes) (tbl tbl' : List Part)
    (h : collect tbl ws = .ok tbl') :
    tblSat L tbl' ↔ (tblSat L tbl ∧ ∀ w ∈ ws, ∃ p, parseWord w = .ok p ∧ termSat L p) := by
  induction ws generalizing tbl with
  | nil => simp [collect] at h; subst h; simp
  | cons w ws ih =>
    unfold collect at h
    cases hp : parseWord w with
    | error e => simp only [hp, bind, Except.bind] at h; cases h
    | ok p =>
      simp only [hp, bind, Except.bind] at h
      cases ha : addPart tbl p with
      | error e => simp only [ha] at h; cases h
      | ok t1 =>
        simp only [ha] at h
        have h' : collect t1 ws = .ok tbl' := h
        rw [ih t1 h', addPart_ok hL tbl p t1 ha]
        simp only [List.mem_cons, forall_eq_or_imp, hp, Except.ok.injEq, exists_eq_left']
        tauto

theorem collect_eof (hL : LabelRel L) (ws : List Bytes) (tbl : List Part)
    (h : collect tbl ws = .error .eof) :
    ¬ (tblSat L tbl ∧ ∀ w ∈ ws, ∀ p, parseWord w = .ok p → termSat L p) := by
  induction ws generalizing tbl with
  | nil => simp [collect] at h
  | cons w ws ih =>
    unfold collect at h
    cases hp : parseWord w with
    | error e =>
      simp only [hp, bind, Except.bind] at h
      have : e = .eof := by cases h; rfl
      subst this
      exact absurd hp (parseWordGo_ne_eof [] w)
    | ok p =>
      simp only [hp, bind, Except.bind] at h
      cases ha : addPart tbl p with
      | error e =>
        simp only [ha] at h
        have : e = .eof := by cases h; rfl
        subst this
        rintro ⟨ht, hall⟩
        exact addPart_eof hL tbl p ha ⟨ht, hall w (by simp) p hp⟩
      | ok t1 =>
        simp only [ha] at h
        have h' : collect t1 ws = .error .eof := h
        rintro ⟨ht, hall⟩
        refine ih t1 h' ⟨(addPart_ok hL tbl p t1 ha).mpr ⟨ht, hall w (by simp) p hp⟩, ?_⟩
        intro w' hw'
        exact hall w' (by simp [hw'])

theorem mem_insertByKey (p t : Part) (l : List Part) : t ∈ insertByKey p l ↔ t = p ∨ t ∈ l := by
  induction l with
  | nil => simp [insertByKey]
  | cons x rest ih =>
    unfold insertByKey
    split
    · simp
    · simp only [List.mem_cons, ih]; tauto

theorem mem_sortByKey (t : Part) (l : List Part) : t ∈ sortByKey l ↔ t ∈ l := by
  unfold sortByKey
  induction l with
  | nil => simp
  | cons x rest ih => simp only [List.foldr_cons, mem_insertByKey, ih, List.mem_cons]


/-! ### the relational part -/

/-- integrity of a database state (what the schema's keys guarantee, plus the `upload` label the
server adds to every record) -/
structure WF (db : DB) : Prop where
  recNodup : (db.records.map RecordRow.rkey).Nodup
  labelPK : (db.labels.map fun l => (l.upload, l.rid, l.name)).Nodup
  fk : ∀ l ∈ db.labels, l.rkey ∈ db.records.map RecordRow.rkey
  uploadLabel : ∀ r ∈ db.records, (⟨r.upload, r.rid, uploadKey, r.upload⟩ : LabelRow) ∈ db.labels

/-- no stored label value is the empty string (see finding N8 for what happens otherwise) -/
def NoEmptyValues (db : DB) : Prop := ∀ l ∈ db.labels, l.value ≠ []

/-- the labels of the record with key `rk` -/
def labelRel (db : DB) (rk : RKey) : Bytes → Bytes → Prop :=
  fun k v => (⟨rk.1, rk.2, k, v⟩ : LabelRow) ∈ db.labels

theorem labelRel_ok (db : DB) (hwf : WF db) (hne : NoEmptyValues db) (rk : RKey) :
    LabelRel (labelRel db rk) where
  functional k v1 v2 h1 h2 := by
    have := List.inj_on_of_nodup_map hwf.labelPK h1 h2 rfl
    exact (LabelRow.mk.injEq .. ▸ this).2.2.2
  nonempty k v h := hne _ h

theorem mem_rows_label (db : DB) (k : Bytes) (pr : Pred) (rk : RKey) :
    rk ∈ (Sql.label k pr).rows db ↔ ∃ v, labelRel db rk k v ∧ pr.holds v = true := by
  simp only [Sql.rows, List.mem_map, List.mem_filter, Bool.and_eq_true, beq_iff_eq, labelRel]
  constructor
  · rintro ⟨⟨u, r, n, v⟩, ⟨hl, hn, hp⟩, rfl⟩
    simp only at hn; subst hn
    exact ⟨v, hl, hp⟩
  · rintro ⟨v, hl, hp⟩
    exact ⟨_, ⟨hl, rfl, hp⟩, rfl⟩

theorem mem_rows_upload (db : DB) (pr : Pred) (rk : RKey) :
    rk ∈ (Sql.upload pr).rows db ↔ rk ∈ db.records.map RecordRow.rkey ∧ pr.holds rk.1 = true := by
  simp only [Sql.rows, List.mem_map, List.mem_filter]
  constructor
  · rintro ⟨r, ⟨hr, hp⟩, rfl⟩; exact ⟨⟨r, hr, rfl⟩, hp⟩
  · rintro ⟨⟨r, hr, rfl⟩, hp⟩; exact ⟨r, ⟨hr, hp⟩, rfl⟩

/-- the subselect of a part selects exactly the records satisfying the part -/
theorem sql_sat (db : DB) (hwf : WF db) (hne : NoEmptyValues db) (p : Part) (s : Sql)
    (hs : p.sql = .ok s) (rk : RKey) (hrk : rk ∈ db.records.map RecordRow.rkey) :
    rk ∈ s.rows db ↔ termSat (labelRel db rk) p := by
  have hL := labelRel_ok db hwf hne rk
  obtain ⟨k, op, a, a2⟩ := p
  unfold Part.sql at hs
  by_cases hk : k = uploadKey
  · subst hk
    obtain ⟨r, hr, rfl⟩ := List.mem_map.mp hrk
    have hup : labelRel db r.rkey uploadKey r.upload := hwf.uploadLabel r hr
    have hiff : ∀ P : Bytes → Prop, (∃ v, labelRel db r.rkey uploadKey v ∧ P v) ↔ P r.upload := by
      intro P; constructor
      · rintro ⟨v, hv, hp⟩; rwa [hL.functional _ _ _ hv hup] at hp
      · intro hp; exact ⟨_, hup, hp⟩
    simp only [beq_self_eq_true, if_true] at hs
    have hfst : r.rkey.1 = r.upload := rfl
    cases op <;> simp only [Except.ok.injEq] at hs <;> subst hs <;>
      rw [mem_rows_upload, hfst] <;> simp only [termSat, hiff] <;>
      simp only [sat, satG, Pred.holds, beq_iff_eq, Bool.and_eq_true] <;>
      exact ⟨fun h => h.2, fun h => ⟨hrk, h⟩⟩
  · have hk' : (k == uploadKey) = false := by simpa using hk
    simp only [hk', Bool.false_eq_true, if_false] at hs
    cases op
    · -- equals
      simp only at hs
      split at hs
      · cases hs
      · cases hs
        rw [mem_rows_label]
        simp only [termSat, sat, satG, Pred.holds, beq_iff_eq]
    · -- ltgt
      cases hs
      rw [mem_rows_label]
      simp only [termSat, sat, satG, Pred.holds, Bool.and_eq_true]
    · -- lt
      cases hs
      rw [mem_rows_label]
      simp only [termSat, sat, satG, Pred.holds]
    · -- gt
      simp only at hs
      split at hs
      · rename_i hemp
        have ha : a = [] := by simpa using hemp
        cases hs
        rw [mem_rows_label]
        simp only [termSat, sat, satG, Pred.holds, ha]
        constructor
        · rintro ⟨v, hv, -⟩
          refine ⟨v, hv, ?_⟩
          have := hL.nonempty _ _ hv
          cases v with
          | nil => exact absurd rfl this
          | cons x xs => simp [blt]
        · rintro ⟨v, hv, -⟩; exact ⟨v, hv, trivial⟩
      · cases hs
        rw [mem_rows_label]
        simp only [termSat, sat, satG, Pred.holds]

theorem nodup_rows (db : DB) (hwf : WF db) (s : Sql) : (s.rows db).Nodup := by
  cases s with
  | upload pr =>
    simp only [Sql.rows]
    exact (List.Nodup.filter _ (List.Nodup.of_map _ hwf.recNodup)).map_on (by
      intro x hx y hy hxy
      exact List.inj_on_of_nodup_map hwf.recNodup (List.mem_filter.mp hx).1 (List.mem_filter.mp hy).1 hxy)
  | label k pr =>
    simp only [Sql.rows]
    refine (List.Nodup.filter _ (List.Nodup.of_map _ hwf.labelPK)).map_on ?_
    intro x hx y hy hxy
    have hx' := List.mem_filter.mp hx
    have hy' := List.mem_filter.mp hy
    have hnx : x.name = k := by have := hx'.2; simp only [Bool.and_eq_true, beq_iff_eq] at this; exact this.1
    have hny : y.name = k := by have := hy'.2; simp only [Bool.and_eq_true, beq_iff_eq] at this; exact this.1
    apply List.inj_on_of_nodup_map hwf.labelPK hx'.1 hy'.1
    simp only [LabelRow.rkey, Prod.mk.injEq] at hxy
    simp [hxy.1, hxy.2, hnx, hny]

theorem joinUsing_eq (a b : List RKey) : joinUsing a b = a.flatMap fun x => b.filter (· == x) := by
  unfold joinUsing
  congr 1; funext x
  conv => rhs; rw [← List.map_id (b.filter (· == x))]
  apply List.map_congr_left
  intro y hy
  have := (List.mem_filter.mp hy).2
  simp only [beq_iff_eq] at this
  simp [this]

theorem mem_joinUsing (a b : List RKey) (x : RKey) : x ∈ joinUsing a b ↔ x ∈ a ∧ x ∈ b := by
  rw [joinUsing_eq]
  simp only [List.mem_flatMap, List.mem_filter, beq_iff_eq]
  constructor
  · rintro ⟨y, hy, hx, rfl⟩; exact ⟨hy, hx⟩
  · rintro ⟨ha, hb⟩; exact ⟨x, ha, hb, rfl⟩

theorem nodup_joinUsing (a b : List RKey) (ha : a.Nodup) (hb : b.Nodup) : (joinUsing a b).Nodup := by
  rw [joinUsing_eq, List.nodup_flatMap]
  refine ⟨fun x _ => hb.filter _, ?_⟩
  refine List.Pairwise.imp ?_ ha
  intro x y hxy
  simp only [Function.onFun, List.disjoint_left, List.mem_filter, beq_iff_eq]
  rintro z ⟨_, rfl⟩ ⟨_, h⟩
  exact hxy h

theorem foldl_join (db : DB) (hwf : WF db) (rest : List Sql) (init : List RKey) (hi : init.Nodup) :
    (rest.foldl (fun acc t => joinUsing acc (t.rows db)) init).Nodup ∧
    ∀ x, x ∈ rest.foldl (fun acc t => joinUsing acc (t.rows db)) init ↔
      (x ∈ init ∧ ∀ t ∈ rest, x ∈ t.rows db) := by
  induction rest generalizing init with
  | nil => simp [hi]
  | cons t ts ih =>
    simp only [List.foldl_cons]
    have := ih (joinUsing init (t.rows db)) (nodup_joinUsing _ _ hi (nodup_rows db hwf t))
    refine ⟨this.1, fun x => ?_⟩
    rw [this.2, mem_joinUsing]
    simp only [List.mem_cons, forall_eq_or_imp]
    tauto

/-- the records a list of subselects selects: those in every subselect, each once -/
theorem selectRecords_spec (db : DB) (hwf : WF db) (sqls : List Sql) :
    (selectRecords db sqls).Nodup ∧
    ∀ r, r ∈ selectRecords db sqls ↔ (r ∈ db.records ∧ ∀ s ∈ sqls, r.rkey ∈ s.rows db) := by
  have hrec : db.records.Nodup := List.Nodup.of_map _ hwf.recNodup
  cases sqls with
  | nil => simp [selectRecords, hrec]
  | cons s rest =>
    have hj := foldl_join db hwf rest (s.rows db) (nodup_rows db hwf s)
    simp only [selectRecords, joinAll]
    constructor
    · rw [List.nodup_flatMap]
      refine ⟨fun x _ => hrec.filter _, ?_⟩
      refine List.Pairwise.imp ?_ hj.1
      intro x y hxy
      simp only [Function.onFun, List.disjoint_left, List.mem_filter, beq_iff_eq]
      rintro z ⟨_, h1⟩ ⟨_, h2⟩
      exact hxy (h1.symm.trans h2)
    · intro r
      simp only [List.mem_flatMap, List.mem_filter, beq_iff_eq]
      constructor
      · rintro ⟨k, hk, hr, rfl⟩
        have := (hj.2 _).mp hk
        refine ⟨hr, ?_⟩
        intro t ht
        rcases List.mem_cons.mp ht with rfl | ht
        · exact this.1
        · exact this.2 t ht
      · rintro ⟨hr, hall⟩
        refine ⟨r.rkey, (hj.2 _).mpr ⟨hall s (by simp), fun t ht => hall t (by simp [ht])⟩, hr, rfl⟩

theorem sqlAll_forall (ps : List Part) (sqls : List Sql) (h : sqlAll ps = .ok sqls) :
    List.Forall₂ (fun p s => p.sql = .ok s) ps sqls := by
  induction ps generalizing sqls with
  | nil => simp [sqlAll] at h; subst h; exact .nil
  | cons p ps ih =>
    unfold sqlAll at h
    cases hp : p.sql with
    | error e => simp only [hp, bind, Except.bind] at h; cases h
    | ok s =>
      cases hr : sqlAll ps with
      | error e => simp only [hp, hr, bind, Except.bind] at h; cases h
      | ok r =>
        simp only [hp, hr, bind, Except.bind, pure, Except.pure] at h; cases h
        exact .cons hp (ih r hr)

end C19
