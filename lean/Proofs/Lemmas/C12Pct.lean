/-
C12 helper lemmas: the R8 interpolation on a sorted list (exact instance).
-/
import Proofs.Lemmas.C12Descr

namespace C12
open Stats Stats.Descr

/-- ascending order, in the indexed form the interpolation uses -/
def SortedL (xs : List ℚ) : Prop := ∀ i j, i ≤ j → j < xs.length → xs.getD i 0 ≤ xs.getD j 0

/-- the interpolation as a function of the position n = 1/3 + p(N+1/3) -/
def posVal (xs : List ℚ) (n : ℚ) : ℚ :=
  if n.floor ≤ 0 then xs.getD 0 0
  else if n.floor ≥ (xs.length : ℤ) then xs.getD (xs.length - 1) 0
  else xs.getD (n.floor.toNat - 1) 0 +
    (n - (n.floor : ℚ)) * (xs.getD n.floor.toNat 0 - xs.getD (n.floor.toNat - 1) 0)

theorem modf_rat (q : ℚ) (h : 0 ≤ q) : Arith.modf q = (q.floor, q - (q.floor : ℚ)) := by
  show ratModf q = _
  unfold ratModf
  rw [if_pos h]

theorem interp_eq_posVal (xs : List ℚ) (p : ℚ)
    (h : 0 ≤ (1 : ℚ) / 3 + p * ((xs.length : ℚ) + 1 / 3)) :
    interp xs p = posVal xs ((1 : ℚ) / 3 + p * ((xs.length : ℚ) + 1 / 3)) := by
  unfold interp posVal
  simp only [ofNat_rat, ofFrac_rat, add_rat, mul_rat, sub_rat, Nat.cast_one, Nat.cast_ofNat]
  rw [modf_rat _ h]
  simp only [Nat.cast_zero]

def clampIdx (xs : List ℚ) (j : ℤ) : ℕ := min j.toNat (xs.length - 1)

theorem posVal_seg (xs : List ℚ) (hs : SortedL xs) (hne : 0 < xs.length) (n : ℚ) :
    xs.getD (clampIdx xs (n.floor - 1)) 0 ≤ posVal xs n ∧
    posVal xs n ≤ xs.getD (clampIdx xs n.floor) 0 := by
  unfold posVal clampIdx
  by_cases h1 : n.floor ≤ 0
  · rw [if_pos h1]
    have e1 : min (n.floor - 1).toNat (xs.length - 1) = 0 := by omega
    have e2 : min n.floor.toNat (xs.length - 1) = 0 := by omega
    rw [e1, e2]; exact ⟨le_refl _, le_refl _⟩
  · rw [if_neg h1]
    by_cases h2 : n.floor ≥ (xs.length : ℤ)
    · rw [if_pos h2]
      have e1 : min (n.floor - 1).toNat (xs.length - 1) = xs.length - 1 := by omega
      have e2 : min n.floor.toNat (xs.length - 1) = xs.length - 1 := by omega
      rw [e1, e2]; exact ⟨le_refl _, le_refl _⟩
    · rw [if_neg h2]
      have e1 : min (n.floor - 1).toNat (xs.length - 1) = n.floor.toNat - 1 := by omega
      have e2 : min n.floor.toNat (xs.length - 1) = n.floor.toNat := by omega
      rw [e1, e2]
      have hd := hs (n.floor.toNat - 1) n.floor.toNat (by omega) (by omega)
      have f0 : 0 ≤ n - (n.floor : ℚ) := by linarith [Rat.floor_le n]
      have f1 : n - (n.floor : ℚ) < 1 := by
        have := Rat.lt_floor_add_one n
        push_cast at this; linarith
      constructor
      · nlinarith
      · nlinarith

theorem floor_mono {a b : ℚ} (h : a ≤ b) : a.floor ≤ b.floor :=
  Rat.le_floor_iff.mpr (le_trans (Rat.floor_le a) h)

/-- the interpolation is monotone in the position -/
theorem posVal_mono (xs : List ℚ) (hs : SortedL xs) (hne : 0 < xs.length) {n n' : ℚ} (h : n ≤ n') :
    posVal xs n ≤ posVal xs n' := by
  have hk := floor_mono h
  rcases lt_or_eq_of_le hk with hlt | heq
  · have a := (posVal_seg xs hs hne n).2
    have b := (posVal_seg xs hs hne n').1
    have c : xs.getD (clampIdx xs n.floor) 0 ≤ xs.getD (clampIdx xs (n'.floor - 1)) 0 := by
      apply hs
      · unfold clampIdx; omega
      · unfold clampIdx; omega
    linarith
  · unfold posVal
    rw [← heq]
    by_cases h1 : n.floor ≤ 0
    · rw [if_pos h1, if_pos h1]
    · rw [if_neg h1, if_neg h1]
      by_cases h2 : n.floor ≥ (xs.length : ℤ)
      · rw [if_pos h2, if_pos h2]
      · rw [if_neg h2, if_neg h2]
        have hd := hs (n.floor.toNat - 1) n.floor.toNat (by omega) (by omega)
        nlinarith

/-- the interpolation stays between the smallest and the largest element -/
theorem posVal_bounded (xs : List ℚ) (hs : SortedL xs) (hne : 0 < xs.length) (n : ℚ) :
    xs.getD 0 0 ≤ posVal xs n ∧ posVal xs n ≤ xs.getD (xs.length - 1) 0 := by
  obtain ⟨a, b⟩ := posVal_seg xs hs hne n
  have c : xs.getD 0 0 ≤ xs.getD (clampIdx xs (n.floor - 1)) 0 :=
    hs _ _ (Nat.zero_le _) (by unfold clampIdx; omega)
  have d : xs.getD (clampIdx xs n.floor) 0 ≤ xs.getD (xs.length - 1) 0 :=
    hs _ _ (by unfold clampIdx; omega) (by omega)
  constructor <;> linarith


theorem sampleBounds_sorted (xs : List ℚ) (hne : xs ≠ []) :
    sampleBounds xs true = some (xs.getD 0 0, xs.getD (xs.length - 1) 0) := by
  cases xs with
  | nil => exact absurd rfl hne
  | cons x t =>
    simp only [sampleBounds, if_true, List.getD_cons_zero, List.length_cons, Nat.add_sub_cancel]
    congr 2
    rw [List.getLastD_eq_getLast?, List.getLast?_eq_getElem?, List.getD_eq_getElem?_getD]
    simp

/-- position of p -/
def posOf (xs : List ℚ) (p : ℚ) : ℚ := (1 : ℚ) / 3 + p * ((xs.length : ℚ) + 1 / 3)

/-- `Sample.Percentile` on a sample flagged sorted, in closed form -/
theorem percentile_sorted_eq (xs : List ℚ) (hne : xs ≠ []) (p : ℚ) :
    percentile xs true p = some
      (if p ≤ 0 then xs.getD 0 0 else if 1 ≤ p then xs.getD (xs.length - 1) 0
       else posVal xs (posOf xs p)) := by
  have he : xs.isEmpty = false := by cases xs <;> simp_all
  unfold percentile
  simp only [he, Bool.false_eq_true, if_false, le_rat, ofNat_rat, Nat.cast_zero, Nat.cast_one,
    sampleBounds_sorted xs hne, Option.map_some, if_true]
  by_cases h0 : p ≤ 0
  · simp [h0]
  · by_cases h1 : 1 ≤ p
    · simp [h0, h1]
    · simp only [h0, h1, if_false]
      rw [interp_eq_posVal]
      · rfl
      · have : 0 < p := not_le.mp h0
        have hl : (0 : ℚ) ≤ xs.length := Nat.cast_nonneg _
        nlinarith

end C12
