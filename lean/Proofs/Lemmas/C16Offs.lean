/-
C16 — offsets are the prefix sums of the widths.
-/
import Proofs.Lemmas.C16Fit
import Proofs.Lemmas.C16Emit

namespace C16
open Tab.TextTab

theorem offsets_length : ∀ (ws : List Int) (off : Int), (offsets off ws).length = ws.length + 1 := by
  intro ws
  induction ws with
  | nil => intro off; simp [offsets]
  | cons w ws ih => intro off; simp [offsets, ih]

theorem sumRange_cons (w : Int) (ws : List Int) : ∀ n i, sumRange (w :: ws) (i + 1) n = sumRange ws i n := by
  intro n
  induction n with
  | zero => intro i; simp [sumRange]
  | succ n ih => intro i; simp only [sumRange]; rw [ih]; simp

theorem offsets_getD_zero (ws : List Int) (off : Int) : (offsets off ws).getD 0 0 = off := by
  cases ws <;> simp [offsets]

theorem offsets_diff : ∀ (ws : List Int) (off : Int) (i n : Nat), i + n ≤ ws.length →
    (offsets off ws).getD (i + n) 0 - (offsets off ws).getD i 0 = sumRange ws i n := by
  intro ws
  induction ws with
  | nil =>
    intro off i n h
    have hi : i = 0 := by simp at h; omega
    have hn : n = 0 := by simp at h; omega
    subst hi; subst hn; simp [sumRange]
  | cons w ws ih =>
    intro off i n h
    cases i with
    | zero =>
      cases n with
      | zero => simp [sumRange]
      | succ n =>
        have h' : 0 + n ≤ ws.length := by simp at h; omega
        have := ih (off + w) 0 n h'
        simp only [Nat.zero_add] at this ⊢
        simp only [offsets, List.getD_cons_succ, List.getD_cons_zero, sumRange]
        rw [offsets_getD_zero] at this
        have h2 := sumRange_cons w ws n 0
        simp only [Nat.zero_add] at h2
        rw [h2]
        omega
    | succ i =>
      have h' : i + n ≤ ws.length := by simp at h; omega
      have := ih (off + w) i n h'
      rw [show i + 1 + n = (i + n) + 1 by omega]
      simp only [offsets, List.getD_cons_succ]
      rw [sumRange_cons]
      exact this

theorem sumRange_nonneg (ws : List Int) (h : ∀ i, 0 ≤ ws.getD i 0) : ∀ n i, 0 ≤ sumRange ws i n := by
  intro n
  induction n with
  | zero => intro i; simp [sumRange]
  | succ n ih => intro i; simp only [sumRange]; have := h i; have := ih (i + 1); omega

theorem offsets_mono (ws : List Int) (h : ∀ i, 0 ≤ ws.getD i 0) (i j : Nat) (hij : i ≤ j)
    (hj : j < (offsets 0 ws).length) : (offsets 0 ws).getD i 0 ≤ (offsets 0 ws).getD j 0 := by
  rw [offsets_length] at hj
  have := offsets_diff ws 0 i (j - i) (by omega)
  rw [show i + (j - i) = j by omega] at this
  have := sumRange_nonneg ws h (j - i) i
  omega

theorem offsets_nonneg (ws : List Int) (h : ∀ i, 0 ≤ ws.getD i 0) (i : Nat) :
    0 ≤ (offsets 0 ws).getD i 0 := by
  by_cases hi : i < (offsets 0 ws).length
  · have := offsets_mono ws h 0 i (Nat.zero_le _) hi
    rw [offsets_getD_zero] at this
    exact this
  · have : (offsets 0 ws)[i]? = none := List.getElem?_eq_none (by omega)
    simp [List.getD_eq_getElem?_getD, this]

theorem widthPass_nonneg (grow : Bool) (shrink : Nat → Bool) (sortCols : List Int → List Nat → List Nat)
    (lm : List Nat) (cols : Nat) (ordered : List Cell) (i : Nat) :
    0 ≤ (widthPass grow shrink sortCols lm cols ordered).getD i 0 := by
  have := foldl_cellStep_ge shrink sortCols grow lm ordered (List.replicate cols 0) i
  refine Int.le_trans ?_ this
  simp only [List.getD_eq_getElem?_getD, List.getElem?_replicate]
  split <;> simp

theorem widthPass_length (grow : Bool) (shrink : Nat → Bool) (sortCols : List Int → List Nat → List Nat)
    (lm : List Nat) (cols : Nat) (ordered : List Cell) :
    (widthPass grow shrink sortCols lm cols ordered).length = cols := by
  unfold widthPass
  rw [foldl_cellStep_length]; simp

end C16
