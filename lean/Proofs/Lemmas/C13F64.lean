/-
C13: the float64 comparisons `F64.lt` / `F64.eq` on non-NaN values are the strict order / equality
of the sign-magnitude key, and on finite values the order of the exact rational value `sval`
(extends the positive-only lemmas of F64Div/F64Exact to all signs by cases).
-/
import Proofs.Lemmas.F64Exact
import Mathlib.Tactic.Linarith
import Model.Math.Nothing

namespace C13
open F64

/-- sign-magnitude key: ±magnitude bits as an integer (both zeros have key 0) -/
def key (b : Bits) : Int := if signBit b then -(magOf b : Int) else (magOf b : Int)

theorem magOf_lt (x : Bits) : magOf x < 2 ^ 63 := by
  have := fracField_lt x; have := expField_lt x
  unfold magOf; omega

theorem toNat_eq (x : Bits) : x.toNat = (if signBit x then 2 ^ 63 else 0) + magOf x :=
  toNat_decomp_full x

theorem isZero_iff (x : Bits) : isZero x = true ↔ magOf x = 0 := by
  unfold isZero magOf
  simp only [Bool.and_eq_true, beq_iff_eq]
  have := fracField_lt x
  constructor
  · rintro ⟨h1, h2⟩; rw [h1, h2]; rfl
  · intro h; constructor <;> omega

theorem isNaN_iff (x : Bits) : isNaN x = true ↔ 2047 * 2 ^ 52 < magOf x := by
  unfold isNaN magOf
  simp only [Bool.and_eq_true, beq_iff_eq, bne_iff_ne, ne_eq]
  have := fracField_lt x; have := expField_lt x
  constructor
  · rintro ⟨h1, h2⟩; rw [h1]; omega
  · intro h; constructor <;> omega

theorem isFinite_iff (x : Bits) : isFinite x = true ↔ magOf x < 2047 * 2 ^ 52 := by
  unfold isFinite magOf
  simp only [bne_iff_ne, ne_eq]
  have := fracField_lt x; have := expField_lt x
  constructor
  · intro h; omega
  · intro h h2; rw [h2] at h; omega

theorem isFinite_not_nan (x : Bits) (h : isFinite x = true) : isNaN x = false := by
  have h1 := (isFinite_iff x).mp h
  cases hn : isNaN x
  · rfl
  · have := (isNaN_iff x).mp hn; omega

/-- **lt_iff_key** — on non-NaN values `F64.lt` is the strict order of the keys -/
theorem lt_iff_key (a b : Bits) (ha : isNaN a = false) (hb : isNaN b = false) :
    F64.lt a b = true ↔ key a < key b := by
  have da := toNat_eq a; have db := toNat_eq b
  have la := magOf_lt a; have lb := magOf_lt b
  have za := isZero_iff a; have zb := isZero_iff b
  unfold F64.lt key
  simp only [ha, hb, Bool.or_self, Bool.false_eq_true, if_false]
  by_cases hz : (isZero a && isZero b) = true
  · simp only [hz, if_true]
    rw [Bool.and_eq_true] at hz
    have h1 := za.mp hz.1; have h2 := zb.mp hz.2
    simp [h1, h2]
  · simp only [hz, if_false]
    have hz' : ¬ (magOf a = 0 ∧ magOf b = 0) := by
      intro h; apply hz; rw [Bool.and_eq_true]; exact ⟨za.mpr h.1, zb.mpr h.2⟩
    cases hsa : signBit a <;> cases hsb : signBit b <;>
      simp only [hsa, hsb, if_true, if_false, Bool.false_eq_true, decide_eq_true_eq, UInt64.lt_iff_toNat_lt] at da db ⊢
    · omega
    · constructor
      · intro h; cases h
      · intro h; omega
    · constructor
      · intro _; omega
      · intro _; trivial
    · omega

/-- **eq_iff_key** — on non-NaN values `F64.eq` is equality of the keys -/
theorem eq_iff_key (a b : Bits) (ha : isNaN a = false) (hb : isNaN b = false) :
    F64.eq a b = true ↔ key a = key b := by
  have da := toNat_eq a; have db := toNat_eq b
  have la := magOf_lt a; have lb := magOf_lt b
  have za := isZero_iff a; have zb := isZero_iff b
  unfold F64.eq key
  simp only [ha, hb, Bool.or_self, Bool.false_eq_true, if_false]
  by_cases hz : (isZero a && isZero b) = true
  · simp only [hz, if_true]
    rw [Bool.and_eq_true] at hz
    have h1 := za.mp hz.1; have h2 := zb.mp hz.2
    simp [h1, h2]
  · simp only [hz, if_false, beq_iff_eq, Bool.false_eq_true]
    have hz' : ¬ (magOf a = 0 ∧ magOf b = 0) := by
      intro h; apply hz; rw [Bool.and_eq_true]; exact ⟨za.mpr h.1, zb.mpr h.2⟩
    rw [← UInt64.toNat_inj]
    cases hsa : signBit a <;> cases hsb : signBit b <;>
      simp only [hsa, hsb, if_true, if_false, Bool.false_eq_true] at da db ⊢ <;> omega

/-- keys are injective except for the two zeros -/
theorem key_inj (a b : Bits) (ha : a ≠ negZero) (hb : b ≠ negZero) (h : key a = key b) : a = b := by
  have da := toNat_eq a; have db := toNat_eq b
  have la := magOf_lt a; have lb := magOf_lt b
  have nz : negZero.toNat = 2 ^ 63 := by decide
  have ha' : a.toNat ≠ 2 ^ 63 := fun h => ha (by rw [← UInt64.toNat_inj, h, nz])
  have hb' : b.toNat ≠ 2 ^ 63 := fun h => hb (by rw [← UInt64.toNat_inj, h, nz])
  rw [← UInt64.toNat_inj]
  unfold key at h
  cases hsa : signBit a <;> cases hsb : signBit b <;>
    simp only [hsa, hsb, if_true, if_false, Bool.false_eq_true] at da db h <;> omega

/-! ### compatibility with the exact rational value -/

/-- the sign-free pattern with the same magnitude -/
def absB (x : Bits) : Bits := UInt64.ofNat (magOf x)

theorem absB_toNat (x : Bits) : (absB x).toNat = magOf x := by
  unfold absB
  rw [UInt64.toNat_ofNat']
  have := magOf_lt x
  exact Nat.mod_eq_of_lt (by omega)

theorem expField_absB (x : Bits) : expField (absB x) = expField x := by
  rw [expField_eq (absB x), absB_toNat]
  have := fracField_lt x; have := expField_lt x
  unfold magOf; omega

theorem fracField_absB (x : Bits) : fracField (absB x) = fracField x := by
  rw [fracField_eq (absB x), absB_toNat]
  have := fracField_lt x
  unfold magOf; omega

theorem val_absB (x : Bits) : val (absB x) = val x := by
  unfold val mant expo
  rw [expField_absB, fracField_absB]

theorem val_nonneg (x : Bits) : 0 ≤ val x := by
  unfold val
  exact mul_nonneg (by exact_mod_cast Nat.zero_le _) (two_zpow_pos _).le

theorem val_eq_zero_iff (x : Bits) : val x = 0 ↔ magOf x = 0 := by
  unfold val
  have hp := two_zpow_pos (expo x)
  rw [mul_eq_zero]
  have hm := mant_eq x
  have := fracField_lt x
  constructor
  · rintro (h | h)
    · have h' : mant x = 0 := by exact_mod_cast h
      unfold magOf
      rw [hm] at h'
      split at h' <;> omega
    · exact absurd h hp.ne'
  · intro h
    left
    unfold magOf at h
    have : mant x = 0 := by rw [hm]; split <;> omega
    exact_mod_cast this

theorem val_le_of_mag_le (x y : Bits) (h : magOf x ≤ magOf y) : val x ≤ val y := by
  rw [← val_absB x, ← val_absB y]
  apply val_mono
  · rw [absB_toNat]; exact magOf_lt y
  · rw [absB_toNat, absB_toNat]; exact h

theorem posFin_absB (x : Bits) (h0 : 0 < magOf x) (hf : magOf x < 2047 * 2 ^ 52) : PosFin (absB x) := by
  unfold PosFin; rw [absB_toNat]; omega

/-- on finite values the magnitude is STRICTLY monotone in the magnitude bits -/
theorem val_lt_of_mag_lt (x y : Bits) (hy : magOf y < 2047 * 2 ^ 52) (h : magOf x < magOf y) :
    val x < val y := by
  have hle := val_le_of_mag_le x y (Nat.le_of_lt h)
  rcases lt_or_eq_of_le hle with hlt | heq
  · exact hlt
  · exfalso
    rcases Nat.eq_zero_or_pos (magOf x) with h0 | hpos
    · have : val x = 0 := (val_eq_zero_iff x).mpr h0
      rw [this] at heq
      have := (val_eq_zero_iff y).mp heq.symm
      omega
    · have px := posFin_absB x hpos (by omega)
      have py := posFin_absB y (by omega) hy
      have e1 := roundMag_self (absB y) py
      have e2 := roundMag_exactQ (absB x) px _ _ (toFrac_snd_pos (mant (absB y)) (expo (absB y)))
        (by rw [toFrac_ratio]; show val (absB y) = val (absB x); rw [val_absB, val_absB, heq])
      have : absB x = absB y := by rw [← e2, e1]
      have := congrArg UInt64.toNat this
      rw [absB_toNat, absB_toNat] at this
      omega

/-- the exact rational value of a finite float (both zeros have value 0) -/
def sval (b : Bits) : ℚ := if signBit b then -val b else val b

/-- **key_lt_iff_sval** — on finite values the key order is the order of the exact values -/
theorem key_lt_iff_sval (a b : Bits) (ha : isFinite a = true) (hb : isFinite b = true) :
    key a < key b ↔ sval a < sval b := by
  have fa := (isFinite_iff a).mp ha; have fb := (isFinite_iff b).mp hb
  have na := val_nonneg a; have nb := val_nonneg b
  have mono : ∀ x y : Bits, magOf y < 2047 * 2 ^ 52 → (magOf x < magOf y ↔ val x < val y) := by
    intro x y hy
    constructor
    · exact val_lt_of_mag_lt x y hy
    · intro h
      by_contra hc
      have := val_le_of_mag_le y x (by omega)
      linarith
  unfold key sval
  cases hsa : signBit a <;> cases hsb : signBit b <;> simp only [if_true, if_false, Bool.false_eq_true]
  · rw [← mono a b fb]; omega
  · constructor
    · intro h; omega
    · intro h; linarith
  · have za := val_eq_zero_iff a; have zb := val_eq_zero_iff b
    constructor
    · intro h
      rcases Nat.eq_zero_or_pos (magOf a) with h0 | hp
      · have hb0 : magOf b ≠ 0 := by omega
        have : val b ≠ 0 := fun hv => hb0 (zb.mp hv)
        have : 0 < val b := lt_of_le_of_ne nb (Ne.symm this)
        have : val a = 0 := za.mpr h0
        linarith
      · have : val a ≠ 0 := fun hv => by have := za.mp hv; omega
        have : 0 < val a := lt_of_le_of_ne na (Ne.symm this)
        linarith
    · intro h
      by_contra hc
      have h1 : magOf a = 0 := by omega
      have h2 : magOf b = 0 := by omega
      rw [za.mpr h1, zb.mpr h2] at h
      linarith
  · rw [show (-val a < -val b) ↔ val b < val a from neg_lt_neg_iff, ← mono b a fa]; omega

/-- **lt_iff_sval** — `F64.lt` on finite floats is `<` of the exact rational values -/
theorem lt_iff_sval (a b : Bits) (ha : isFinite a = true) (hb : isFinite b = true) :
    F64.lt a b = true ↔ sval a < sval b := by
  rw [lt_iff_key a b (isFinite_not_nan a ha) (isFinite_not_nan b hb), key_lt_iff_sval a b ha hb]

/-- **eq_iff_sval** — `F64.eq` on finite floats is `=` of the exact rational values -/
theorem eq_iff_sval (a b : Bits) (ha : isFinite a = true) (hb : isFinite b = true) :
    F64.eq a b = true ↔ sval a = sval b := by
  rw [eq_iff_key a b (isFinite_not_nan a ha) (isFinite_not_nan b hb)]
  have h1 := key_lt_iff_sval a b ha hb
  have h2 := key_lt_iff_sval b a hb ha
  constructor
  · intro h
    have a1 : ¬ sval a < sval b := fun hh => by have := h1.mpr hh; omega
    have a2 : ¬ sval b < sval a := fun hh => by have := h2.mpr hh; omega
    exact le_antisymm (not_lt.mp a2) (not_lt.mp a1)
  · intro h
    have a1 : ¬ key a < key b := fun hh => by have := h1.mp hh; linarith
    have a2 : ¬ key b < key a := fun hh => by have := h2.mp hh; linarith
    omega

/-! ### `math.Min` is symmetric, hence so is the two-sided combination of `AssumeNothing.Compare` -/

/-- **fmin_comm** — the model of `math.Min` is symmetric on ALL bit patterns (NaN, ±Inf, ±0 included) -/
theorem fmin_comm (x y : Bits) : Math.fmin x y = Math.fmin y x := by
  unfold Math.fmin
  rw [Bool.or_comm (x == negInf) (y == negInf), Bool.or_comm (isNaN x) (isNaN y),
    Bool.and_comm (isZero x) (isZero y)]
  by_cases h1 : (y == negInf || x == negInf) = true
  · simp only [h1, if_true]
  simp only [h1, if_false]
  by_cases h2 : (isNaN y || isNaN x) = true
  · simp only [h2, if_true]
  simp only [h2, if_false]
  have hx : isNaN x = false := by
    cases h : isNaN x
    · rfl
    · exact absurd (by simp [h]) h2
  have hy : isNaN y = false := by
    cases h : isNaN y
    · rfl
    · exact absurd (by simp [h]) h2
  by_cases h3 : (isZero y && isZero x) = true
  · simp only [h3, if_true]
    rw [Bool.and_eq_true] at h3
    have zx := (isZero_iff x).mp h3.2
    have zy := (isZero_iff y).mp h3.1
    have dx := toNat_eq x; have dy := toNat_eq y
    cases hsx : signBit x <;> cases hsy : signBit y <;>
      simp only [hsx, hsy, if_true, if_false, Bool.false_eq_true] at dx dy ⊢ <;>
      first | rfl | (rw [← UInt64.toNat_inj]; omega)
  · simp only [h3, if_false]
    have kxy := lt_iff_key x y hx hy
    have kyx := lt_iff_key y x hy hx
    cases hlt : F64.lt x y <;> cases hgt : F64.lt y x <;> simp only [if_true, if_false, Bool.false_eq_true]
    · -- neither is smaller: the keys agree, and they are not both zero, so the patterns agree
      have hk : key x = key y := by
        have a1 : ¬ key x < key y := fun h => by rw [kxy.mpr h] at hlt; cases hlt
        have a2 : ¬ key y < key x := fun h => by rw [kyx.mpr h] at hgt; cases hgt
        omega
      have he := (eq_iff_key x y hx hy).mpr hk
      unfold F64.eq at he
      have h3' : (isZero x && isZero y) = false := by
        rw [Bool.and_comm]; simpa using h3
      simp only [hx, hy, Bool.or_self, Bool.false_eq_true, if_false, h3', beq_iff_eq] at he
      exact he.symm
    · have a := kxy.mp hlt; have b := kyx.mp hgt; omega

/-- **combine_symmetric** — the two-sided p-value `AssumeNothing.Compare` forms,
`math.Min(1, 2*math.Min(l1.P, l2.P))` in float64, does not depend on which one-sided result is
which (any bit patterns; an error in either call falls back to the two-sided call both ways). -/
theorem combine_symmetric (d a b : Math.TestResult) (pd : Bits) :
    Math.Nothing.combine ⟨d, a, b⟩ pd = Math.Nothing.combine ⟨d, b, a⟩ pd := by
  unfold Math.Nothing.combine
  cases a <;> cases b <;> simp only [fmin_comm]

end C13
