/-
C11: counting assignments per tie group is the same as enumerating them.

`groupCount T n1 twoU` (r-vectors weighted by ∏ C(t_k, r_k)) equals the number of splits of the pooled
sample `poolOf T` whose pair-counting statistic is ≤ twoU.

Self-contained (imports neither `C11Rank` nor `C11Untied`, which cannot be imported together); all
helper lemmas live in the namespace `C11.GroupsEnum`.
-/
import Model.Spec.UExact
import Proofs.Lemmas.C11Groups
import Mathlib.Data.Nat.Choose.Basic
import Mathlib.Algebra.BigOperators.Group.Finset.Basic
import Mathlib.Algebra.BigOperators.Intervals
import Mathlib.Tactic.Ring
import Mathlib.Tactic.Linarith

namespace C11
namespace GroupsEnum
open Spec.UExact

/-! ### `twoUPairs` algebra on `Nat` samples -/

theorem tup_nil_left (ys : List Nat) : twoUPairs ([] : List Nat) ys = 0 := rfl

theorem tup_cons_left (a : Nat) (xs ys : List Nat) :
    twoUPairs (a :: xs) ys = (ys.map fun b => pairW a b).sum + twoUPairs xs ys := by
  simp [twoUPairs]

theorem tup_append_left (xs xs' ys : List Nat) :
    twoUPairs (xs ++ xs') ys = twoUPairs xs ys + twoUPairs xs' ys := by
  simp [twoUPairs, List.map_append, List.sum_append]

theorem tup_append_right (xs ys ys' : List Nat) :
    twoUPairs xs (ys ++ ys') = twoUPairs xs ys + twoUPairs xs ys' := by
  induction xs with
  | nil => rfl
  | cons a xs ih =>
    rw [tup_cons_left, tup_cons_left, tup_cons_left, ih]
    simp only [List.map_append, List.sum_append]
    omega

theorem tup_const (k : Nat) (xs ys : List Nat)
    (h : ∀ a ∈ xs, ∀ b ∈ ys, pairW a b = k) :
    twoUPairs xs ys = k * xs.length * ys.length := by
  induction xs with
  | nil => simp [tup_nil_left]
  | cons a xs ih =>
    rw [tup_cons_left, ih (fun a' ha' => h a' (List.mem_cons_of_mem _ ha'))]
    have hrow : (ys.map fun b => pairW a b).sum = k * ys.length := by
      have ha := h a (List.mem_cons_self)
      clear ih h
      induction ys with
      | nil => simp
      | cons b ys ihy =>
        simp only [List.map_cons, List.sum_cons, List.length_cons]
        rw [ihy (fun b' hb' => ha b' (List.mem_cons_of_mem _ hb')), ha b List.mem_cons_self]
        ring
    rw [hrow, List.length_cons]
    ring

/-- a tie group at the bottom: r of its members in the first sample, a in the second, everything
    else larger -/
theorem tup_block (v r a : Nat) (c d : List Nat) (hc : ∀ x ∈ c, v < x) (hd : ∀ x ∈ d, v < x) :
    twoUPairs (List.replicate r v ++ c) (List.replicate a v ++ d)
      = r * a + 2 * c.length * a + twoUPairs c d := by
  rw [tup_append_left, tup_append_right, tup_append_right]
  have e1 : twoUPairs (List.replicate r v) (List.replicate a v)
      = 1 * (List.replicate r v).length * (List.replicate a v).length := by
    apply tup_const
    intro x hx y hy
    rw [List.eq_of_mem_replicate hx, List.eq_of_mem_replicate hy]
    simp [pairW]
  have e2 : twoUPairs (List.replicate r v) d
      = 0 * (List.replicate r v).length * d.length := by
    apply tup_const
    intro x hx y hy
    rw [List.eq_of_mem_replicate hx]
    have := hd y hy
    simp only [pairW]
    rw [if_neg (by omega), if_neg (by omega)]
  have e3 : twoUPairs c (List.replicate a v)
      = 2 * c.length * (List.replicate a v).length := by
    apply tup_const
    intro x hx y hy
    rw [List.eq_of_mem_replicate hy]
    have := hc x hx
    simp only [pairW]
    rw [if_pos this]
  rw [e1, e2, e3]
  simp only [List.length_replicate]
  ring

/-! ### `splits` -/

theorem splits_zero {α : Type} (l : List α) : splits 0 l = [([], l)] := by
  cases l <;> rfl

theorem splits_mem {α : Type} (n : Nat) (l : List α) :
    ∀ p ∈ splits n l, (∀ x ∈ p.1, x ∈ l) ∧ (∀ x ∈ p.2, x ∈ l) ∧ p.1.length = n := by
  induction l generalizing n with
  | nil =>
    cases n with
    | zero => intro p hp; simp [splits] at hp; subst hp; simp
    | succ n => intro p hp; simp [splits] at hp
  | cons a l ih =>
    cases n with
    | zero => intro p hp; simp [splits] at hp; subst hp; simp
    | succ n =>
      intro p hp
      simp only [splits, List.mem_append, List.mem_map] at hp
      rcases hp with ⟨q, hq, rfl⟩ | ⟨q, hq, rfl⟩
      · obtain ⟨h1, h2, h3⟩ := ih n q hq
        refine ⟨?_, ?_, ?_⟩
        · intro x hx
          rcases List.mem_cons.1 hx with rfl | hx
          · simp
          · exact List.mem_cons_of_mem _ (h1 x hx)
        · intro x hx; exact List.mem_cons_of_mem _ (h2 x hx)
        · simp [h3]
      · obtain ⟨h1, h2, h3⟩ := ih (n + 1) q hq
        refine ⟨?_, ?_, ?_⟩
        · intro x hx; exact List.mem_cons_of_mem _ (h1 x hx)
        · intro x hx
          rcases List.mem_cons.1 hx with rfl | hx
          · simp
          · exact List.mem_cons_of_mem _ (h2 x hx)
        · exact h3

/-- choosing n positions of `replicate t v ++ rest`: choose r of the t equal values (C(t,r) ways,
    all giving the same lists) and n − r positions of `rest` -/
theorem countP_splits_replicate {α : Type} (v : α) (rest : List α) (t : Nat) :
    ∀ (n : Nat) (Q : List α × List α → Bool),
      (splits n (List.replicate t v ++ rest)).countP Q
        = ∑ r ∈ Finset.range (n + 1), Nat.choose t r *
            ((splits (n - r) rest).countP fun p =>
              Q (List.replicate r v ++ p.1, List.replicate (t - r) v ++ p.2)) := by
  induction t with
  | zero =>
    intro n Q
    rw [Finset.sum_range_succ']
    simp
  | succ t iht =>
    intro n Q
    cases n with
    | zero =>
      simp [splits_zero]
    | succ n =>
      rw [List.replicate_succ, List.cons_append, splits, List.countP_append, List.countP_map,
        List.countP_map, iht n, iht (n + 1)]
      conv_rhs => rw [Finset.sum_range_succ']
      conv_lhs => rw [Finset.sum_range_succ' _ (n + 1)]
      simp only [Nat.choose_succ_succ', Nat.choose_zero_right, add_mul, Finset.sum_add_distrib,
        Function.comp_def, Nat.sub_zero, List.replicate_zero, List.nil_append,
        Nat.add_sub_add_right, List.replicate_succ, List.cons_append]
      have key : ∀ x, Nat.choose t (x + 1) *
            ((splits (n - x) rest).countP fun p =>
              Q (v :: (List.replicate x v ++ p.1), v :: (List.replicate (t - (x + 1)) v ++ p.2)))
          = Nat.choose t (x + 1) *
            ((splits (n - x) rest).countP fun p =>
              Q (v :: (List.replicate x v ++ p.1), List.replicate (t - x) v ++ p.2)) := by
        intro x
        by_cases hr : x + 1 ≤ t
        · have : t - x = (t - (x + 1)) + 1 := by omega
          rw [this, List.replicate_succ]
          rfl
        · rw [Nat.choose_eq_zero_of_lt (by omega)]
          simp
      rw [Finset.sum_congr rfl (fun x _ => key x)]
      ring

/-! ### sums over `List.range` -/

theorem sum_list_range (f : Nat → Nat) (k : Nat) :
    ((List.range k).map f).sum = ∑ i ∈ Finset.range k, f i := by
  induction k with
  | zero => simp
  | succ k ih => simp [List.range_succ, Finset.sum_range_succ, ih]

theorem sum_map_mul_left' (c : Nat) (w : List Nat → Nat) (L : List (List Nat)) :
    (L.map fun rs => c * w rs).sum = c * (L.map w).sum := by
  induction L with
  | nil => simp
  | cons a L ih => simp [ih, Nat.mul_add]

theorem sum_filter_flatMap_cons (L : List Nat) (g : Nat → List (List Nat))
    (p : List Nat → Bool) (w : List Nat → Nat) :
    (((L.flatMap fun r => (g r).map (r :: ·)).filter p).map w).sum
      = (L.map fun r => (((g r).filter fun rs => p (r :: rs)).map fun rs => w (r :: rs)).sum).sum := by
  induction L with
  | nil => simp
  | cons a L ih =>
    simp only [List.flatMap_cons, List.filter_append, List.map_append, List.sum_append, ih,
      List.map_cons, List.sum_cons, List.filter_map, List.map_map, Function.comp_def]

/-! ### the pooled sample, one group at a time -/

/-- value v repeated T[0] times, v+1 repeated T[1] times, … -/
def poolFrom : Nat → List Nat → List Nat
  | _, [] => []
  | v, t :: ts => List.replicate t v ++ poolFrom (v + 1) ts

theorem poolFrom_ge (T : List Nat) : ∀ v, ∀ x ∈ poolFrom v T, v ≤ x := by
  induction T with
  | nil => intro v x hx; simp [poolFrom] at hx
  | cons t ts ih =>
    intro v x hx
    simp only [poolFrom, List.mem_append] at hx
    rcases hx with hx | hx
    · rw [List.eq_of_mem_replicate hx]
    · have := ih (v + 1) x hx; omega

theorem poolFrom_eq (T : List Nat) : ∀ v,
    poolFrom v T = ((List.range T.length).map fun k => List.replicate (T.getD k 0) (v + k)).flatten := by
  induction T with
  | nil => intro v; rfl
  | cons t ts ih =>
    intro v
    rw [poolFrom, ih (v + 1), List.length_cons, List.range_succ_eq_map, List.map_cons,
      List.flatten_cons, List.map_map]
    congr 2
    apply List.map_congr_left
    intro k _
    simp only [Function.comp_def, List.getD_cons_succ]
    congr 1
    omega

theorem poolOf_eq (T : List Nat) : poolOf T = poolFrom 0 T := by
  rw [poolFrom_eq]
  simp [poolOf]

/-! ### the main induction -/

/-- weighted count of r-vectors = count of splits, for any predicate on the statistic; `below`
    second-sample values lie below the pool, each first-sample member beats them all -/
theorem rvecs_count_splits (T : List Nat) :
    ∀ (v n below : Nat) (P : Nat → Bool),
      (((rvecs T n).filter fun r => P (twoUofRAux below T r)).map (weight T)).sum
        = (splits n (poolFrom v T)).countP fun p => P (twoUPairs p.1 p.2 + 2 * below * n) := by
  induction T with
  | nil =>
    intro v n below P
    cases n with
    | zero => cases h : P 0 <;> simp [rvecs, twoUofRAux, weight, poolFrom, splits, tup_nil_left, h]
    | succ n => simp [rvecs, poolFrom, splits]
  | cons t ts ih =>
    intro v n below P
    have hrest : ∀ x ∈ poolFrom (v + 1) ts, v < x := fun x hx => poolFrom_ge ts (v + 1) x hx
    rw [poolFrom, countP_splits_replicate]
    have hshrink : Finset.range (min t n + 1) ⊆ Finset.range (n + 1) := by
      intro x hx
      simp only [Finset.mem_range] at hx ⊢
      omega
    rw [← Finset.sum_subset hshrink (by
      intro r hr1 hr2
      simp only [Finset.mem_range] at hr1 hr2
      rw [Nat.choose_eq_zero_of_lt (by omega)]
      simp), ← sum_list_range]
    rw [rvecs, sum_filter_flatMap_cons]
    congr 1
    apply List.map_congr_left
    intro r hr
    have hr' : r ≤ t ∧ r ≤ n := by
      have := List.mem_range.1 hr
      omega
    simp only [twoUofRAux, weight]
    rw [sum_map_mul_left',
      ih (v + 1) (n - r) (below + (t - r)) (fun x => P (2 * r * below + r * (t - r) + x))]
    congr 1
    apply List.countP_congr
    intro p hp
    obtain ⟨h1, h2, h3⟩ := splits_mem _ _ p hp
    rw [tup_block v r (t - r) p.1 p.2 (fun x hx => hrest x (h1 x hx))
      (fun x hx => hrest x (h2 x hx)), h3]
    have e : 2 * r * below + r * (t - r) + (twoUPairs p.1 p.2 + 2 * (below + (t - r)) * (n - r))
        = r * (t - r) + 2 * (n - r) * (t - r) + twoUPairs p.1 p.2 + 2 * below * n := by
      obtain ⟨m, rfl⟩ : ∃ m, n = r + m := ⟨n - r, by omega⟩
      have : r + m - r = m := by omega
      rw [this]
      ring
    rw [e]

end GroupsEnum

/-- counting assignments per tie group is the same as enumerating them (the filter runs over the
    `Nat` values of the enumeration) -/
theorem groups_count_labelings_nat (T : List Nat) (n1 : Nat) (twoU : Int) :
    groupCount T n1 twoU
      = ((Spec.UExact.nullDistOf n1 (poolOf T)).filter
          fun (d : Nat) => decide ((d : Int) ≤ twoU)).length := by
  unfold groupCount twoUofR Spec.UExact.nullDistOf
  rw [GroupsEnum.rvecs_count_splits T 0 n1 0 (fun x => decide ((x : Int) ≤ twoU)),
    ← GroupsEnum.poolOf_eq, ← List.countP_eq_length_filter, List.countP_map]
  apply List.countP_congr
  intro p _
  simp

/-- the same with the statement as written without a binder type: Lean elaborates the filter over
    the enumeration coerced elementwise to `List Int` -/
theorem groups_count_labelings (T : List Nat) (n1 : Nat) (twoU : Int) :
    groupCount T n1 twoU
      = ((Spec.UExact.nullDistOf n1 (poolOf T)).filter fun d => decide ((d : Int) ≤ twoU)).length := by
  rw [groups_count_labelings_nat]
  generalize Spec.UExact.nullDistOf n1 (poolOf T) = L
  induction L with
  | nil => rfl
  | cons a L ih =>
    have e : (do let x ← a :: L; pure (x : Int) : List Int)
        = (a : Int) :: (do let x ← L; pure (x : Int) : List Int) := by
      simp [List.flatMap_cons]
    rw [e, List.filter_cons, List.filter_cons]
    by_cases h : (a : Int) ≤ twoU
    · simp only [h, decide_true, if_true, List.length_cons, ih]
    · simp only [h, decide_false, Bool.false_eq_true, if_false, ih]

theorem k2_counts_labelings (t0 t1 n1 : Nat) (twoU : Int) :
    groupCount [t0, t1] n1 twoU
      = ((Spec.UExact.nullDistOf n1 (poolOf [t0, t1])).filter
          fun d => decide ((d : Int) ≤ twoU)).length :=
  groups_count_labelings [t0, t1] n1 twoU

end C11
