/-
C14 — benchstat puts each measurement in one cell and reports its true statistics.
Property theorems only (helpers in Proofs/Lemmas/C14*.lean). The model is Tab.* in
Model/Tab/Pipeline.lean, the specification Spec.Cells.* in Model/Spec/Cells.lean.
-/
import Proofs.Lemmas.C14Tables
import Proofs.Lemmas.C14Raw

namespace C14
open Tab Spec.Cells C14L

variable {κ ζ ν : Type} [DecidableEq κ] [DecidableEq ζ]
set_option linter.unusedSectionVars false

/-- **cells_are_groupBy** (all streams, induction over `Add`): the cell (t, r, c) holds exactly
the values of the measurements that fall under (t, r, c), in input order; it exists iff that
group is non-empty; the sample sizes of all cells add up to the number of measurements (so no
measurement is counted twice or dropped); and table keys, and the cell keys of each table, are
unique (so "the" cell of a key is well defined). -/
theorem cells_are_groupBy (rs : List (Res κ ζ ν)) :
    (∀ t r c, cellValues (build rs) t r c = (group (measOf rs) t r c).map (·.value)) ∧
    (∀ t r c, hasCell (build rs) t r c = true ↔ group (measOf rs) t r c ≠ []) ∧
    totalValues (build rs) = (measOf rs).length ∧
    WF (build rs) := by
  refine ⟨?_, ?_, ?_, WF_build rs⟩
  · intro t r c
    have := cellValues_foldl rs ([] : Builder κ ζ ν) t r c
    simpa [build, cellValues, AL.lookup, group] using this
  · intro t r c
    have := hasCell_foldl rs ([] : Builder κ ζ ν) t r c
    simp only [build] at this ⊢
    rw [this]
    simp only [hasCell, AL.lookup, Bool.false_or, List.any_eq_true, group, ne_eq, List.filter_eq_nil_iff]
    constructor
    · rintro ⟨m, hm, h⟩ hall; exact hall m hm h
    · intro h
      exact Classical.byContradiction fun hne => h fun a ha hin => hne ⟨a, ha, hin⟩
  · have := totalValues_foldl rs ([] : Builder κ ζ ν)
    simpa [build, totalValues] using this

/-- every measurement falls under exactly one key: its own -/
theorem measurement_in_one_cell (m : Meas κ ζ ν) (t r c : κ) :
    inCell t r c m = true ↔ (t, r, c) = (m.table, m.row, m.col) := by
  simp only [inCell, Bool.and_eq_true, decide_eq_true_eq, Prod.mk.injEq]
  constructor
  · rintro ⟨⟨h1, h2⟩, h3⟩; exact ⟨h1.symm, h2.symm, h3.symm⟩
  · rintro ⟨h1, h2, h3⟩; exact ⟨⟨h1.symm, h2.symm⟩, h3.symm⟩

/-- **default_projection**: the flag defaults of cmd/benchstat/main.go (the harness re-reads
them from `benchstat -h` on every run and K compares): tables by file configuration (+ unit,
added by ParseWithUnit), rows by full name, columns by file; nothing ignored, no filter. -/
theorem default_projection :
    ({} : Flags).table = ".config" ∧ ({} : Flags).row = ".fullname" ∧ ({} : Flags).col = ".file" ∧
    ({} : Flags).ignore = "" ∧ ({} : Flags).filter = "*" := ⟨rfl, rfl, rfl, rfl, rfl⟩

section Tables
variable (cfg : Cfg κ) (t : κ) (bt : BTable κ (List Bytes) F64.Bits)

/-- the output cell of key `k` is `mkCell` of the builder cell of key `k` -/
theorem toTable_cell (k : κ × κ) :
    AL.lookup k (toTable cfg t bt).cells =
      (AL.lookup k bt.cells).map (mkCell cfg (cfg.assume (cfg.unitOf t)) (sortKeys cfg.rankC bt.cols).head? bt.cells k) := by
  unfold toTable
  exact lookup_map_values _ k bt.cells

/-- **baseline_is_first_sorted_col**: the columns are the builder's columns sorted by the
requested order; the first of them has the least rank; a cell's baseline is the cell of the SAME
row in that first column, provided the cell is not itself in the first column and that cell
exists — and there is no baseline otherwise. -/
theorem baseline_is_first_sorted_col (k : κ × κ) (cell : OCell κ)
    (h : AL.lookup k (toTable cfg t bt).cells = some cell) :
    (toTable cfg t bt).cols = sortKeys cfg.rankC bt.cols ∧
    (∀ c0, (toTable cfg t bt).cols.head? = some c0 → c0 ∈ bt.cols ∧ ∀ c ∈ bt.cols, cfg.rankC c0 ≤ cfg.rankC c) ∧
    cell.baseline = (match (toTable cfg t bt).cols.head? with
      | none => none
      | some c0 => if k.2 ≠ c0 ∧ (AL.lookup (k.1, c0) (toTable cfg t bt).cells).isSome then some (k.1, c0) else none) := by
  refine ⟨rfl, fun c0 hc0 => sortKeys_head_min cfg.rankC hc0, ?_⟩
  rw [toTable_cell] at h
  have hcols : (toTable cfg t bt).cols = sortKeys cfg.rankC bt.cols := rfl
  rw [hcols]
  cases hb : AL.lookup k bt.cells with
  | none => simp [hb] at h
  | some bc =>
    simp only [hb, Option.map_some, Option.some.injEq] at h
    subst h
    unfold mkCell
    simp only
    cases (sortKeys cfg.rankC bt.cols).head? with
    | none => rfl
    | some c0 =>
      simp only [toTable_cell]
      by_cases hk : k.2 = c0
      · simp [hk]
      · cases hl : AL.lookup (k.1, c0) bt.cells <;> simp [hk, hl]

/-- **comparison_against_same_row_baseline**: a cell's sample is its builder values sorted, its
summary is the unit's assumption applied to that sample, and its comparison is the assumption's
comparison of the BASELINE cell's sample with its own sample (no comparison without a baseline). -/
theorem comparison_against_same_row_baseline (k : κ × κ) (cell : OCell κ)
    (h : AL.lookup k (toTable cfg t bt).cells = some cell) :
    let a := cfg.assume (cfg.unitOf t)
    (toTable cfg t bt).assumption = a ∧
    cell.sample = sortFloats (((AL.lookup k bt.cells).map (·.values)).getD []) ∧
    cell.summary = cfg.orc.summary a cell.sample ∧
    cell.comparison = cell.baseline.bind fun bk =>
      (AL.lookup bk (toTable cfg t bt).cells).map fun bc => cfg.orc.compare a bc.sample cell.sample := by
  rw [toTable_cell] at h
  cases hb : AL.lookup k bt.cells with
  | none => simp [hb] at h
  | some bc =>
    simp only [hb, Option.map_some, Option.some.injEq] at h
    subst h
    refine ⟨rfl, by simp [mkCell], rfl, ?_⟩
    have key : ∀ (S : List F64.Bits) (o : Option (κ × κ)),
        (o.bind fun bk => (AL.lookup bk bt.cells).map fun bc =>
          cfg.orc.compare (cfg.assume (cfg.unitOf t)) (sortFloats bc.values) S) =
        o.bind fun bk => (AL.lookup bk (toTable cfg t bt).cells).map fun bc =>
          cfg.orc.compare (cfg.assume (cfg.unitOf t)) bc.sample S := by
      intro S o
      cases o with
      | none => rfl
      | some bk =>
        simp only [Option.bind_some, toTable_cell]
        cases AL.lookup bk bt.cells <;> rfl
    exact key _ _

/-- a cell's sample is a permutation of the values the builder collected for it -/
theorem sample_perm (k : κ × κ) (cell : OCell κ) (bc : BCell (List Bytes) F64.Bits)
    (hb : AL.lookup k bt.cells = some bc) (h : AL.lookup k (toTable cfg t bt).cells = some cell) :
    cell.sample.Perm bc.values := by
  rw [toTable_cell, hb] at h
  simp only [Option.map_some, Option.some.injEq] at h
  subst h
  exact sortFloats_perm _

end Tables

/-- **ratio_rules** (builder.go:301-316): equal centres give ratio 1 (this covers 0/0), a zero
baseline with a different centre gives a bad ratio, anything else is the IEEE quotient. -/
theorem ratio_rules (a b : F64.Bits) :
    (F64.eq a b = true → ratioOf a b = some F64.one) ∧
    (F64.eq a b = false → F64.eq b F64.posZero = true → ratioOf a b = none) ∧
    (F64.eq a b = false → F64.eq b F64.posZero = false → ratioOf a b = some (F64.div a b)) := by
  unfold ratioOf
  refine ⟨fun h => by simp [h], fun h1 h2 => by simp [h1, h2], fun h1 h2 => by simp [h1, h2]⟩

/-- instances: 0/0, -0/+0 and x/x are 1; 5/0 is bad; 6/3 = 2 -/
example : ratioOf F64.posZero F64.posZero = some F64.one ∧ ratioOf F64.negZero F64.posZero = some F64.one ∧
    ratioOf 0x4014000000000000 F64.posZero = none ∧
    ratioOf 0x4018000000000000 0x4008000000000000 = some 0x4000000000000000 := by decide +kernel

theorem strs_distinct : strDiffers ≠ strSumPos ∧ strDiffers ≠ strRatioPos ∧ strSumPos ≠ strRatioPos := by
  decide +kernel

theorem mem_three {a b c : Bytes} (d1 : a ≠ b) (d2 : a ≠ c) (d3 : b ≠ c) (p q r : Bool) :
    (a ∈ (if p then [a] else []) ++ (if q then [b] else []) ++ (if r then [c] else []) ↔ p = true) ∧
    (b ∈ (if p then [a] else []) ++ (if q then [b] else []) ++ (if r then [c] else []) ↔ q = true) ∧
    (c ∈ (if p then [a] else []) ++ (if q then [b] else []) ++ (if r then [c] else []) ↔ r = true) := by
  cases p <;> cases q <;> cases r <;> simp [d1, d2, d3, d1.symm, d2.symm, d3.symm]

/-- **geomean_row_spec**: the summary cell of a column is the geometric mean of the centres of
the column's cells (in row order) and the geometric mean of the per-row ratios centre/baseline
centre over the rows that have a baseline, with exactly these warnings:
* "benchmark set differs from baseline" iff the column is not the baseline column and the number
  of its cells that have a baseline differs from the number of baseline cells `nBase` or from the
  number of its own cells (commit 6fa9e62; before it only the first comparison was made);
* "summaries must be >0" iff the geomean of the centres is NaN (no summary is shown then);
* "ratios must be >0" iff the column is not the baseline, no ratio was bad (zero baseline
  centre) and the geomean of the ratios is NaN — a bad ratio shows "?" without this warning. -/
theorem geomean_row_spec (orc : Oracles) (rows : List κ) (cells : List ((κ × κ) × OCell κ)) (col : κ)
    (nBase : Nat) (isBase : Bool) :
    let s := summarizeCol orc rows cells col nBase isBase
    let centres := colCentres rows cells col
    let pairs := colPairs rows cells col
    let ratios := pairs.map fun p => (ratioOf p.1 p.2).getD F64.posZero
    let bad := pairs.any fun p => (ratioOf p.1 p.2).isNone
    (s.hasSummary = !F64.isNaN (geoMean orc centres).val) ∧
    (s.hasSummary = true → s.summary = (geoMean orc centres).val ∧ s.summaryStr = (geoMean orc centres).str) ∧
    (s.hasRatio = (!isBase && !bad && !F64.isNaN (geoMean orc ratios).val)) ∧
    (s.hasRatio = true → s.ratio = (geoMean orc ratios).val ∧ s.ratioPct = (geoMean orc ratios).pct) ∧
    (strDiffers ∈ s.warnings ↔ (isBase = false ∧ (nBase ≠ pairs.length ∨ centres.length ≠ pairs.length))) ∧
    (strSumPos ∈ s.warnings ↔ F64.isNaN (geoMean orc centres).val = true) ∧
    (strRatioPos ∈ s.warnings ↔ (isBase = false ∧ bad = false ∧ F64.isNaN (geoMean orc ratios).val = true)) := by
  intro s centres pairs ratios bad
  have hacc := colStep_foldl cells col rows {}
  simp only [List.nil_append, Bool.false_or] at hacc
  obtain ⟨h1, h2, h3⟩ := hacc
  obtain ⟨d1, d2, d3⟩ := strs_distinct
  have hs : s = summarizeCol orc rows cells col nBase isBase := rfl
  unfold summarizeCol at hs
  simp only [h1, h2, h3] at hs
  have hlen : ratios.length = pairs.length := by simp [ratios]
  obtain ⟨m1, m2, m3⟩ := mem_three d1 d2 d3
    (!isBase && (nBase != ratios.length || centres.length != ratios.length))
    (F64.isNaN (geoMean orc centres).val)
    ((!isBase && !bad) && F64.isNaN (geoMean orc ratios).val)
  have hw : s.warnings =
      (if (!isBase && (nBase != ratios.length || centres.length != ratios.length)) then [strDiffers] else []) ++
      (if F64.isNaN (geoMean orc centres).val then [strSumPos] else []) ++
      (if ((!isBase && !bad) && F64.isNaN (geoMean orc ratios).val) then [strRatioPos] else []) := by
    rw [hs]
  refine ⟨?_, ?_, ?_, ?_, ?_, ?_, ?_⟩
  · rw [hs]
  · intro h; rw [hs] at h ⊢; simp only [Bool.not_eq_eq_eq_not, Bool.not_true] at h; simp [h, centres]
  · rw [hs]
  · intro h; rw [hs] at h ⊢
    simp only at h
    simp only [h, if_true]
    exact ⟨rfl, rfl⟩
  · rw [hw, m1, hlen]
    simp only [Bool.and_eq_true, Bool.not_eq_eq_eq_not, Bool.not_true, Bool.or_eq_true, bne_iff_ne, ne_eq]
  · rw [hw, m2]
  · rw [hw, m3]
    simp only [Bool.and_eq_true, Bool.not_eq_eq_eq_not, Bool.not_true, and_assoc]

/-- the geomean itself: NaN for an empty list, one with an element `<= 0` or a NaN element;
otherwise the answer of go-moremath's `GeoMean` on that list -/
theorem geoMean_spec (orc : Oracles) (xs : List F64.Bits) :
    (xs = [] ∨ (∃ x ∈ xs, nonPos x = true) ∨ (∃ x ∈ xs, F64.isNaN x = true) → (geoMean orc xs).val = F64.nan) ∧
    (xs ≠ [] → (∀ x ∈ xs, nonPos x = false) → (∀ x ∈ xs, F64.isNaN x = false) → geoMean orc xs = orc.geomean xs) := by
  unfold geoMean
  constructor
  · rintro (h | ⟨x, hx, hp⟩ | ⟨x, hx, hp⟩)
    · simp [h]
    · have : xs.any nonPos = true := List.any_eq_true.mpr ⟨x, hx, hp⟩
      simp [this]
    · have : xs.any F64.isNaN = true := List.any_eq_true.mpr ⟨x, hx, hp⟩
      simp [this]
  · intro h1 h2 h4
    have a1 : xs.any nonPos = false := by
      rw [Bool.eq_false_iff]; intro h
      obtain ⟨x, hx, hp⟩ := List.any_eq_true.mp h
      rw [h2 x hx] at hp; exact Bool.false_ne_true hp
    have a2 : xs.any F64.isNaN = false := by
      rw [Bool.eq_false_iff]; intro h
      obtain ⟨x, hx, hp⟩ := List.any_eq_true.mp h
      rw [h4 x hx] at hp; exact Bool.false_ne_true hp
    have h3 : xs.isEmpty = false := by cases xs <;> simp_all
    simp [a1, a2, h3]

/-- **residue_warning_exact**: for every stream and every key, the warning `summarizeCell`
attaches to the cell is determined by the GROUP of measurements of that cell alone: it is absent
iff no flattened residue field takes two different values inside the group, and otherwise it is
"benchmarks vary in " followed by exactly the names of the fields that do, in flattened order.
(Reading fixed in DESIGN.md: the residue's domain is the file configuration keys and the full
name that were neither projected nor ignored; tool-internal labels such as `.file` are not in it.) -/
theorem residue_warning_exact (names : List Bytes) (rs : List (Res κ (List Bytes) ν)) (t r c : κ) :
    residueWarning names (cellResidue (build rs) t r c) =
      (let fs := residueFields names ((group (measOf rs) t r c).map (·.residue))
       if fs.isEmpty then [] else [strVary ++ joinBytes strCommaSp fs]) := by
  have hmem : ∀ z, z ∈ cellResidue (build rs) t r c ↔ z ∈ (group (measOf rs) t r c).map (·.residue) := by
    intro z
    have := mem_cellResidue_foldl rs ([] : Builder κ (List Bytes) ν) t r c z
    simpa [build, cellResidue, AL.lookup, group] using this
  rw [residueWarning_congr names hmem]
  unfold residueWarning residueFields
  rw [nonSingular_eq_varying]
  simp [List.isEmpty_iff]

/-- the warning of an output cell is the residue warning of its builder cell -/
theorem cell_sampleWarnings (cfg : Cfg κ) (t : κ) (bt : BTable κ (List Bytes) F64.Bits) (k : κ × κ)
    (cell : OCell κ) (bc : BCell (List Bytes) F64.Bits)
    (hb : AL.lookup k bt.cells = some bc) (h : AL.lookup k (toTable cfg t bt).cells = some cell) :
    cell.sampleWarnings = residueWarning cfg.fieldNames bc.residue := by
  rw [toTable_cell, hb] at h
  simp only [Option.map_some, Option.some.injEq] at h
  subst h
  rfl

/-- instance: two sub-benchmarks merged by `-row .name` differ in `.fullname` only -/
example : residueWarning ["goos".toUTF8.toList, ".fullname".toUTF8.toList]
    [["linux".toUTF8.toList, "E/format=json".toUTF8.toList], ["linux".toUTF8.toList, "E/format=gob".toUTF8.toList]]
    = ["benchmarks vary in .fullname".toUTF8.toList] := by decide +kernel


/-! ### composition with the C08/C09 model: keys computed from RAW results -/

section Raw
open Proc.Projection Proc.Sort Tab.RawPass

/-- **cells_are_groupBy_raw** (composition with C08): run the loop of cmd/benchstat over RAW
results (name, file configuration, units) with the flags' projections parsed into one shared
parser state, for ANY hash function. Then every projection stays reachable, and for all keys of
the final state the cell (t, r, c) holds exactly the values of the measurements whose PROJECTED
VALUES — the tuples over the final flattened fields of the table (incl. unit), row and column
projections — equal those of t, r and c, in input order. Key identity (what the Go maps are keyed
by) is replaced by tuple identity through `C08.key_eq_iff`, not assumed. -/
theorem cells_are_groupBy_raw {ν : Type} (h : List Bytes → UInt64) (specs : List (List Spec)) (raws : List Res)
    (vals : List (List ν)) (pT pR pC : Proj)
    (hlen : 4 < (rawWorld specs).projs.length)
    (hT : (raws.foldl (rawStep h 4) (rawWorld specs, [])).1.projs[0]? = some pT)
    (hR : (raws.foldl (rawStep h 4) (rawWorld specs, [])).1.projs[1]? = some pR)
    (hC : (raws.foldl (rawStep h 4) (rawWorld specs, [])).1.projs[2]? = some pC) :
    let stream := idStream (raws.foldl (rawStep h 4) (rawWorld specs, [])).2 vals
    C08.Reachable h pT ∧ C08.Reachable h pR ∧ C08.Reachable h pC ∧
    ∀ t r c, t < pT.nodes.length → r < pR.nodes.length → c < pC.nodes.length →
      cellValues (build stream) t r c =
        ((measOf stream).filter fun m =>
          decide (tupleOf pT m.table = tupleOf pT t) && decide (tupleOf pR m.row = tupleOf pR r) &&
          decide (tupleOf pC m.col = tupleOf pC c)).map (·.value) := by
  intro stream
  obtain ⟨hok, hv⟩ := rawFold_inv h 4 raws (rawWorld specs, []) (WorldOK_rawWorld h specs)
    ⟨Nat.lt_trans (by decide) hlen, hlen⟩ (by intro e he; simp at he)
  have rT := hok 0 pT hT
  have rR := hok 1 pR hR
  have rC := hok 2 pC hC
  refine ⟨rT, rR, rC, ?_⟩
  intro t r c ht hr hc
  rw [(cells_are_groupBy stream).1 t r c]
  unfold group
  congr 1
  apply List.filter_congr
  intro m hm
  -- every key in the stream is a key of the final state
  have hvalid : m.table < pT.nodes.length ∧ m.row < pR.nodes.length ∧ m.col < pC.nodes.length := by
    simp only [stream, measOf, idStream, List.mem_flatMap, List.mem_map] at hm
    obtain ⟨res, ⟨kv, hkv, rfl⟩, tv, htv, rfl⟩ := hm
    have hk := (List.of_mem_zip hkv).1
    obtain ⟨h0, h1, h2, _⟩ := hv kv.1 hk
    have e0 : nodesLen (raws.foldl (rawStep h 4) (rawWorld specs, [])).1 0 = pT.nodes.length := by
      simp [nodesLen, hT]
    have e1 : nodesLen (raws.foldl (rawStep h 4) (rawWorld specs, [])).1 1 = pR.nodes.length := by
      simp [nodesLen, hR]
    have e2 : nodesLen (raws.foldl (rawStep h 4) (rawWorld specs, [])).1 2 = pC.nodes.length := by
      simp [nodesLen, hC]
    refine ⟨?_, ?_, ?_⟩
    · rw [← e0]; exact h0 _ (List.of_mem_zip htv).1
    · rw [← e1]; exact h1
    · rw [← e2]; exact h2
  simp only [inCell]
  rw [Bool.eq_iff_iff]
  simp only [Bool.and_eq_true, decide_eq_true_eq]
  rw [tuple_eq_iff h pT rT _ _ hvalid.1 ht, tuple_eq_iff h pR rR _ _ hvalid.2.1 hr,
    tuple_eq_iff h pC rC _ _ hvalid.2.2 hc]

/-- the hypothesis on the flags is inhabited: the default flags (-table .config, -row .fullname,
-col .file, -ignore "") parse into five projections (table, row, col, ignore, residue) -/
example : (rawWorld [[{ key := Proc.Extract.dotConfig, order := .first }], [{ key := Proc.Extract.dotFullname, order := .first }],
    [{ key := ".file".toUTF8.toList, order := .first }], []]).projs.length = 5 := by decide +kernel

/-- **rows_sorted_by_key_less** (composition with C09): take the `Key.Less` of a reachable
projection state and rank every key of a duplicate-free list `d` of its keys by its position in
the `Key.Less`-sorted arrangement of `d` (this is the `rank` data of the benchtab model). Then
(1) the rank separates the keys of `d` — the `RankOK` hypothesis of C15 is discharged by
`C09.key_less_strict_total`, not assumed — and (2) for every duplicate-free sub-collection `l`
(the rows, columns or tables actually present) the model's `sortKeys` returns THE
`Key.Less`-sorted arrangement of `l`: every sorted permutation `out` of `l` — whatever
`sort.Slice` does — is equal to it. -/
theorem rows_sorted_by_key_less (h : List Bytes → UInt64) (pn : Bytes → NumC) (p : Proj) (hr : C08.Reachable h p)
    (d : List Nat) (hd : d.Nodup) (hvalid : ∀ k ∈ d, k < p.nodes.length) :
    (∀ x y, x ∈ d → y ∈ d → rankOf pn p d x = rankOf pn p d y → x = y) ∧
    ∀ l : List Nat, l.Nodup → (∀ k ∈ l, k ∈ d) →
      ∀ out : List Nat, C09.Sorted (p.less pn) out → out.Perm l → out = Tab.sortKeys (rankOf pn p d) l := by
  obtain ⟨hirr, hasym, htrans, htotal⟩ := C09.key_less_strict_total h pn p hr
  have hS : C09.Sorted (p.less pn) (p.sortKeys pn d) := C09.sortBy_sorted _ hasym htrans _
  have hP : (p.sortKeys pn d).Perm d := C09.sortBy_perm _ _
  have hSn : (p.sortKeys pn d).Nodup := hP.nodup_iff.mpr hd
  have hinj : ∀ x y, x ∈ d → y ∈ d → rankOf pn p d x = rankOf pn p d y → x = y := by
    intro x y hx hy e
    unfold rankOf at e
    have hx' : x ∈ p.sortKeys pn d := hP.mem_iff.mpr hx
    have hy' : y ∈ p.sortKeys pn d := hP.mem_iff.mpr hy
    have b1 := List.idxOf_lt_length_of_mem hx'
    have b2 := List.idxOf_lt_length_of_mem hy'
    have g1 : (p.sortKeys pn d)[(p.sortKeys pn d).idxOf x] = x := List.getElem_idxOf b1
    have g2 : (p.sortKeys pn d)[(p.sortKeys pn d).idxOf y] = y := List.getElem_idxOf b2
    rw [← g1, ← g2]
    congr 1
  refine ⟨hinj, ?_⟩
  intro l hl hsub out hso hpo
  -- the model's arrangement is sorted by Key.Less
  have hA : C09.Sorted (p.less pn) (Tab.sortKeys (rankOf pn p d) l) := by
    have hs := sortKeys_sorted (rankOf pn p d) l
    have hn := sortKeys_nodup (rankOf pn p d) hl
    unfold C09.Sorted
    rw [List.pairwise_iff_getElem] at hs ⊢
    intro i j hi hj hij
    have hne : (Tab.sortKeys (rankOf pn p d) l)[i] ≠ (Tab.sortKeys (rankOf pn p d) l)[j] := by
      intro e
      have := (List.getElem_inj hn).mp e
      omega
    have hxi : (Tab.sortKeys (rankOf pn p d) l)[i] ∈ d :=
      hsub _ ((mem_sortKeys _ _ l).mp (List.getElem_mem hi))
    have hxj : (Tab.sortKeys (rankOf pn p d) l)[j] ∈ d :=
      hsub _ ((mem_sortKeys _ _ l).mp (List.getElem_mem hj))
    have hle := hs i j hi hj hij
    have hlt : rankOf pn p d (Tab.sortKeys (rankOf pn p d) l)[i] < rankOf pn p d (Tab.sortKeys (rankOf pn p d) l)[j] :=
      Nat.lt_of_le_of_ne hle (fun e => hne (hinj _ _ hxi hxj e))
    -- positions in the Key.Less-sorted list of d
    unfold rankOf at hlt
    have hxi' := hP.mem_iff.mpr hxi
    have hxj' := hP.mem_iff.mpr hxj
    have hS' := List.pairwise_iff_getElem.mp hS
    have b1 := List.idxOf_lt_length_of_mem hxi'
    have b2 := List.idxOf_lt_length_of_mem hxj'
    have := hS' _ _ b1 b2 hlt
    simpa [List.getElem_idxOf] using this
  have hvalid' : ∀ k ∈ l, k < p.nodes.length := fun k hk => hvalid k (hsub k hk)
  exact (C09.sortKeys_independent h pn p hr l l out (Tab.sortKeys (rankOf pn p d) l) hvalid' (List.Perm.refl l)
    hso hpo hA (sortKeys_perm _ l)).1

end Raw

end C14
