/-
C20 — uploads are all-or-nothing under faults; upload ids are never reused.
Property theorems about the model `Model/Storage/Upload.lean` (processUpload, indexFile, db.Upload,
id allocation) and `Model/Storage/IdAlloc.lean` (concurrent allocation). Helper lemmas live in
`Proofs/Lemmas/C20Base.lean`, `Proofs/Lemmas/C20Alloc.lean`.
-/
import Proofs.Lemmas.C20Base
import Proofs.Lemmas.C20Alloc

namespace C20
open Storage.Upload Storage.IdAlloc

/-- Every state reached from the empty system by any history of requests (successful or failed,
with or without faults) satisfies the invariant: records and files belong to existing Uploads rows,
rows of a day are numbered 1..n, no row twice. -/
theorem reachable_wf (hist : List (Env × Req)) : WfSys (runHistory hist {}) :=
  runHistory_wf hist {} WfSys.empty

/-- **single_fault_atomic** (post-state part). For every history of earlier requests, every request
and every way it ends in an error — whatever the fault was and wherever it struck — afterwards
(i) the index is unchanged, no record is queryable under the id the failed upload was given and the
    listing does not show it,
(ii) the file being written when the failure happened is not in the store,
(iii) the files of earlier uploads are all still there and anything new in the store carries the failed
    upload's own (fresh) id. -/
theorem single_fault_atomic (hist : List (Env × Req)) (env : Env) (req : Req) (e : Err)
    (h : (processUpload env req (runHistory hist {})).resp = .error e) :
    FailedPost (runHistory hist {}) (processUpload env req (runHistory hist {})) :=
  failed_post env req _ (reachable_wf hist) e h

/-- **single_fault_atomic** (detection part, "if any step fails"). Every fault of the property's list
is answered with an error (so that `single_fault_atomic` applies), for any state `s`:
* the part stream ends with an error (body cut in a part header or between parts), or some part is
  not acceptable: its reader failed (body cut inside a file), it is a form field other than `commit`
  (unknown field, client Abort), or it is a file without any benchmark line;
* no file part at all;
* a file-store fault (create / write / close, once or persistent) at any of the calls a fault-free
  run of the request makes (`opsOf`: per file NewWriter, header lines + separator, one Write per read,
  Close). -/
theorem fault_is_reported (env : Env) (req : Req) (s : Sys)
    (hf : req.endErr = true ∨ (∃ p ∈ req.parts, ¬ partOk p) ∨ (∀ p ∈ req.parts, ∃ name, p = Part.field name) ∨
      (∃ ft, req.fault = some ft ∧ ft.k < opsOf env req.parts)) :
    ∃ e, (processUpload env req s).resp = .error e := by
  rcases hf with h | h | h | ⟨ft, h1, h2⟩
  · exact structural_fault_is_error env req s (Or.inl h)
  · exact structural_fault_is_error env req s (Or.inr h)
  · exact no_file_is_error env req s h
  · exact fs_fault_is_error env req s ft h1 h2

/-- the two halves together: any listed fault after any history leaves the post-state of
`single_fault_atomic` -/
theorem single_fault_atomic_full (hist : List (Env × Req)) (env : Env) (req : Req)
    (hf : req.endErr = true ∨ (∃ p ∈ req.parts, ¬ partOk p) ∨ (∀ p ∈ req.parts, ∃ name, p = Part.field name) ∨
      (∃ ft, req.fault = some ft ∧ ft.k < opsOf env req.parts)) :
    FailedPost (runHistory hist {}) (processUpload env req (runHistory hist {})) := by
  obtain ⟨e, he⟩ := fault_is_reported env req (runHistory hist {}) hf
  exact single_fault_atomic hist env req e he

/-- non-trivial instance of the hypothesis: a write fault at the separator line of a one-file upload -/
example : (match (processUpload ⟨20260930, [], []⟩
    ⟨[Part.file [97] (Bytes.ofString "BenchmarkA 1 2 ns/op\n") false [21]], false, some ⟨5, false, false⟩⟩ {}).resp with
      | .error Err.fs => true
      | _ => false) = true := by decide +kernel

/-- **success_complete_partial**. Index part of the success clause, after any history: the query
`upload:<id>` of a successful upload returns exactly the benchmark lines of all its files — every
one, once, in file order — and the id is new.
GAP (not proved, checked byte for byte by the S layer on every successful upload of every run):
"each file is stored once with the server's metadata header", i.e. that the store then holds
`uploads/<id>/<part>.txt = sorted header ++ blank ++ content` for every file part. -/
theorem success_complete_partial (hist : List (Env × Req)) (env : Env) (req : Req) (k : UKey) (fids : List Path)
    (h : (processUpload env req (runHistory hist {})).resp = .ok (k, fids)) :
    ((processUpload env req (runHistory hist {})).sys.db.queryUpload k).map (·.2) = partsLines req.parts ∧
      k ∉ (runHistory hist {}).db.uploads ∧ (processUpload env req (runHistory hist {})).alloc = some k :=
  success_records env req _ (reachable_wf hist) k fids h

/-- a successful upload leaves everything of earlier uploads in place as well -/
theorem success_keeps_earlier (hist : List (Env × Req)) (env : Env) (req : Req) :
    (∀ row ∈ (runHistory hist {}).db.records, row ∈ (processUpload env req (runHistory hist {})).sys.db.records) := by
  intro row hrow
  rcases processUpload_cases env req (runHistory hist {}) with ⟨e, h⟩ | ⟨t, t', _, _, _, _, h⟩
  · rw [h]; exact hrow
  · rw [h]; exact List.mem_append_left _ hrow

/-- **ids_format_monotone**. Along any history the ids handed out (also to uploads that failed
afterwards: their Uploads row persists) are pairwise different, within one day strictly increasing in
creation order, numbered from 1, never equal to a row that existed before, and every one of them is
still a row at the end. The id string is `YYYYMMDD.N` by `renderId`. -/
theorem ids_format_monotone (hist : List (Env × Req)) :
    (allocs hist {}).Pairwise (fun a b => a ≠ b ∧ (a.day = b.day → a.seq < b.seq)) ∧
    (∀ k ∈ allocs hist {}, 1 ≤ k.seq ∧ k ∈ (runHistory hist {}).db.uploads) ∧
    (∀ k : UKey, renderId k = natBytes k.day ++ [46] ++ natBytes k.seq) := by
  have h := allocs_spec hist {} WfSys.empty
  exact ⟨h.1, fun k hk => ⟨(h.2 k hk).2.1, (h.2 k hk).2.2.2⟩, fun _ => rfl⟩

/-- the id of a request is the day of the request -/
theorem id_has_request_day (env : Env) (req : Req) (s : Sys) (k : UKey)
    (h : (processUpload env req s).alloc = some k) : k.day = env.day := by
  rcases alloc_spec env req s with ⟨h1, _⟩ | ⟨k', h1, h2, _⟩
  · rw [h1] at h; cases h
  · rw [h1] at h; cases h; exact allocId_day h2

example : renderId ⟨20260929, 12⟩ = Bytes.ofString "20260929.12" := by decide +kernel

/-- **ids_unique_all_interleavings**. Any number of concurrent id transactions (one day each), any
schedule of their atomic steps read-last / insert / commit, any set of steps refused by the database:
the ids returned to callers are pairwise different, each is a committed row, none existed before,
and the table never holds an id twice. -/
theorem ids_unique_all_interleavings (rows0 : List UKey) (h0 : rows0.Nodup) (days : List Nat)
    (sched : List (Nat × Bool)) :
    let s := run sched (init rows0 days)
    (returned s.txns).Nodup ∧ s.rows.Nodup ∧ (∀ k ∈ returned s.txns, k ∈ s.rows ∧ k ∉ rows0) ∧
      (∀ k ∈ rows0, k ∈ s.rows) := by
  have inv := run_inv rows0 sched _ (init_inv rows0 days h0)
  exact ⟨inv.ret_nodup, (List.nodup_append.mp inv.nodup).1, inv.ret_rows, inv.grow⟩

/-- a non-trivial instance: two transactions of the same day racing on an empty table;
both read "no row", both want `day.1`; only one can commit it -/
example : (returned (run [(0, true), (1, true), (0, true), (1, true), (0, true), (1, true)]
    (init [] [20260929, 20260929])).txns) = [⟨20260929, 1⟩] := by decide

end C20
