/-
C20 — uploads are all-or-nothing under faults; upload ids are never reused.
Property theorems about the model `Model/Storage/Upload.lean` (processUpload, indexFile, db.Upload,
id allocation) and `Model/Storage/IdAlloc.lean` (concurrent allocation). Helper lemmas live in
`Proofs/Lemmas/C20Base.lean`, `Proofs/Lemmas/C20Alloc.lean`.
-/
import Proofs.Lemmas.C20Base
import Proofs.Lemmas.C20Alloc
import Proofs.Lemmas.C20Files
import Proofs.Lemmas.C20Render
import Proofs.Lemmas.C20Replace

namespace C20
open Storage.Upload Storage.IdAlloc

/-- Every state reached from the empty system by any history of requests (successful or failed,
with or without faults) satisfies the invariant: records and files belong to existing Uploads rows,
rows of a day are numbered 1..n, no row twice. -/
theorem reachable_wf (hist : List (Env × Req)) : WfSys (runHistory hist {}) :=
  runHistory_wf hist {} WfSys.empty

/-- **single_fault_atomic** (post-state part). For every history of earlier requests, every request
and every way it ends in an error — whatever the fault was and wherever it struck — afterwards
(i) the index is unchanged, no record is queryable under the id the failed upload was given and the
    listing does not show it,
(ii) the file being written when the failure happened is not in the store,
(iii) the files of earlier uploads are all still there and anything new in the store carries the failed
    upload's own (fresh) id. -/
theorem single_fault_atomic (hist : List (Env × Req)) (env : Env) (req : Req) (e : Err)
    (h : (processUpload env req (runHistory hist {})).resp = .error e) :
    FailedPost (runHistory hist {}) (processUpload env req (runHistory hist {})) :=
  failed_post env req _ (reachable_wf hist).core e h

/-- **single_fault_atomic** (detection part, "if any step fails"). Every fault of the property's list
is answered with an error (so that `single_fault_atomic` applies), for any state `s`:
* the part stream ends with an error (body cut in a part header or between parts), or some part is
  not acceptable: its reader failed (body cut inside a file), it is a form field other than `commit`
  (unknown field, client Abort), or it is a file without any benchmark line;
* no file part at all;
* a file-store fault (create / write / close, once or persistent) at any of the calls a fault-free
  run of the request makes (`opsOf`: per file NewWriter, header lines + separator, one Write per read,
  Close). -/
theorem fault_is_reported (env : Env) (req : Req) (s : Sys)
    (hf : req.endErr = true ∨ (∃ p ∈ req.parts, ¬ partOk p) ∨ (∀ p ∈ req.parts, ∃ name, p = Part.field name) ∨
      (∃ ft, req.fault = some ft ∧ ft.k < opsOf env req.parts)) :
    ∃ e, (processUpload env req s).resp = .error e := by
  rcases hf with h | h | h | ⟨ft, h1, h2⟩
  · exact structural_fault_is_error env req s (Or.inl h)
  · exact structural_fault_is_error env req s (Or.inr h)
  · exact no_file_is_error env req s h
  · exact fs_fault_is_error env req s ft h1 h2

/-- the two halves together: any listed fault after any history leaves the post-state of
`single_fault_atomic` -/
theorem single_fault_atomic_full (hist : List (Env × Req)) (env : Env) (req : Req)
    (hf : req.endErr = true ∨ (∃ p ∈ req.parts, ¬ partOk p) ∨ (∀ p ∈ req.parts, ∃ name, p = Part.field name) ∨
      (∃ ft, req.fault = some ft ∧ ft.k < opsOf env req.parts)) :
    FailedPost (runHistory hist {}) (processUpload env req (runHistory hist {})) := by
  obtain ⟨e, he⟩ := fault_is_reported env req (runHistory hist {}) hf
  exact single_fault_atomic hist env req e he

/-- non-trivial instance of the hypothesis: a write fault at the separator line of a one-file upload -/
example : (match (processUpload ⟨20260930, [], []⟩
    ⟨[Part.file [97] (Bytes.ofString "BenchmarkA 1 2 ns/op\n") false [21]], false, some ⟨5, false, false⟩⟩ {}).resp with
      | .error Err.fs => true
      | _ => false) = true := by decide +kernel

/-- **success_complete**. After any history, a successful upload with id `k`:
* index: the query `upload:<id>` returns exactly the benchmark lines of all its files — every one,
  once, in file order; the id is new;
* store: for every file part (index `i` counted over all parts) the store holds exactly one entry
  named `uploads/<id>/<i>.txt`, and its bytes are `fileBytes` = the server's metadata header (keys
  sorted, see `stored_file_format`), a blank line, the uploaded bytes;
* the file ids of the response are exactly these names. -/
theorem success_complete (hist : List (Env × Req)) (env : Env) (req : Req) (k : UKey) (fids : List Path)
    (h : (processUpload env req (runHistory hist {})).resp = .ok (k, fids)) :
    ((processUpload env req (runHistory hist {})).sys.db.queryUpload k).map (·.2) = partsLines req.parts ∧
    k ∉ (runHistory hist {}).db.uploads ∧
    (∀ x ∈ expectedFiles env k req.parts 0,
      (processUpload env req (runHistory hist {})).sys.fs.filter (fun e => e.1 == x.1) = [x]) ∧
    fids = (expectedFiles env k req.parts 0).map Prod.fst := by
  have h1 := success_records env req _ (reachable_wf hist).core k fids h
  have h2 := success_files env req _ (runHistory_paths hist {} (by simp [Paths])) k fids h
  exact ⟨h1.1, h1.2.1, h2.1, h2.2⟩

/-- the stored bytes: `by: <user>` (if a user is known), `upload: <id>`, `upload-file: <name>` (if the
part has a file name), `upload-part: <id>/<i>`, `upload-time: <time>`, an empty line, the content -/
theorem stored_file_format (env : Env) (k : UKey) (i : Nat) (fname content : Bytes) :
    fileBytes env k i fname content =
      (if env.user.isEmpty then [] else headerLine (kBy, env.user)) ++ headerLine (kUp, renderId k) ++
      (if fname.isEmpty then [] else headerLine (kFile, fname)) ++ headerLine (kPart, partId k i) ++
      headerLine (kTime, env.time) ++ [10] ++ content := by
  unfold fileBytes
  rw [header_sorted]
  by_cases h1 : fname.isEmpty <;> by_cases h2 : env.user.isEmpty <;> simp [h1, h2]

/-- a non-trivial instance: one file `a`, no user -/
example : fileBytes ⟨20260930, [], Bytes.ofString "T"⟩ ⟨20260930, 3⟩ 0 [97] (Bytes.ofString "BenchmarkA 1 2 ns/op\n") =
    Bytes.ofString "upload: 20260930.3\nupload-file: a\nupload-part: 20260930.3/0\nupload-time: T\n\nBenchmarkA 1 2 ns/op\n" := by
  decide +kernel

/-- a successful upload leaves everything of earlier uploads in place as well -/
theorem success_keeps_earlier (hist : List (Env × Req)) (env : Env) (req : Req) :
    (∀ row ∈ (runHistory hist {}).db.records, row ∈ (processUpload env req (runHistory hist {})).sys.db.records) := by
  intro row hrow
  rcases processUpload_cases env req (runHistory hist {}) with ⟨e, h⟩ | ⟨t, t', _, _, _, _, h⟩
  · rw [h]; exact hrow
  · rw [h]; exact List.mem_append_left _ hrow

/-- **ids_format_monotone**. Along any history the id STRINGS handed out (also to uploads that failed
afterwards: their Uploads row persists) are pairwise different — never reused —, within one day the
sequence numbers strictly increase in creation order and start at 1, every id is still a row at the
end, and every string has the form `<digits>.<digits>` (`renderId_shape`; eight digits for a
four-digit year). -/
theorem ids_format_monotone (hist : List (Env × Req)) :
    ((allocs hist {}).map renderId).Nodup ∧
    (allocs hist {}).Pairwise (fun a b => a.day = b.day → a.seq < b.seq) ∧
    (∀ k ∈ allocs hist {}, 1 ≤ k.seq ∧ k ∈ (runHistory hist {}).db.uploads) := by
  have h := allocs_spec hist {} WfSys.empty
  refine ⟨?_, h.1.imp (fun hab => hab.2), fun k hk => ⟨(h.2 k hk).2.1, (h.2 k hk).2.2.2⟩⟩
  unfold List.Nodup
  rw [List.pairwise_map]
  exact h.1.imp (fun hab he => hab.1 (renderId_injective he))

/-- shape of an id string: decimal day, a dot, decimal sequence number; digits only, neither part
empty; the day of a four-digit year has eight digits; different rows have different strings -/
theorem renderId_shape (k : UKey) :
    renderId k = natBytes k.day ++ [46] ++ natBytes k.seq ∧
    (∀ c ∈ natBytes k.day ++ natBytes k.seq, 48 ≤ c.toNat ∧ c.toNat ≤ 57) ∧
    natBytes k.day ≠ [] ∧ natBytes k.seq ≠ [] ∧
    (10000000 ≤ k.day → k.day < 100000000 → (natBytes k.day).length = 8) ∧
    (∀ k', renderId k = renderId k' → k = k') := by
  refine ⟨rfl, ?_, natBytes_ne_nil _, natBytes_ne_nil _, natBytes_day_length _, fun k' h => renderId_injective h⟩
  intro c hc
  rcases List.mem_append.mp hc with h | h
  · exact natBytes_digits _ c h
  · exact natBytes_digits _ c h

/-- the id of a request is the day of the request -/
theorem id_has_request_day (env : Env) (req : Req) (s : Sys) (k : UKey)
    (h : (processUpload env req s).alloc = some k) : k.day = env.day := by
  rcases alloc_spec env req s with ⟨h1, _⟩ | ⟨k', h1, h2, _⟩
  · rw [h1] at h; cases h
  · rw [h1] at h; cases h; exact allocId_day h2

example : renderId ⟨20260929, 12⟩ = Bytes.ofString "20260929.12" := by decide +kernel

/-! ### histories with reindex operations (`db.ReplaceUpload`) -/

/-- `single_fault_atomic` after ANY history of upload requests and reindex operations (of existing
or never-created ids, committed or aborted) -/
theorem single_fault_atomic_ops (ops : List HOp) (env : Env) (req : Req) (e : Err)
    (h : (processUpload env req (runOps ops {})).resp = .error e) :
    FailedPost (runOps ops {}) (processUpload env req (runOps ops {})) :=
  failed_post env req _ (runOps_core ops {} WfSys.empty.core (by simp [Paths])).1 e h

/-- `success_complete` after any history of upload requests and reindex operations -/
theorem success_complete_ops (ops : List HOp) (env : Env) (req : Req) (k : UKey) (fids : List Path)
    (h : (processUpload env req (runOps ops {})).resp = .ok (k, fids)) :
    ((processUpload env req (runOps ops {})).sys.db.queryUpload k).map (·.2) = partsLines req.parts ∧
    k ∉ (runOps ops {}).db.uploads ∧
    (∀ x ∈ expectedFiles env k req.parts 0,
      (processUpload env req (runOps ops {})).sys.fs.filter (fun e => e.1 == x.1) = [x]) ∧
    fids = (expectedFiles env k req.parts 0).map Prod.fst := by
  have c := runOps_core ops {} WfSys.empty.core (by simp [Paths])
  have h1 := success_records env req _ c.1 k fids h
  have h2 := success_files env req _ c.2 k fids h
  exact ⟨h1.1, h1.2.1, h2.1, h2.2⟩

/-- what a reindex does: other uploads' records stay (in order); the replaced upload has exactly the
new benchmark lines if the replacement was committed, and none otherwise — the old records are
deleted outside the transaction, so an aborted reindex leaves the upload empty -/
theorem replace_upload_effect (k : UKey) (rs : List Res) (commit : Bool) (db : DB) :
    (replaceUpload k rs commit db).records.filter (fun r => !(r.up == k)) = db.records.filter (fun r => !(r.up == k)) ∧
    ((replaceUpload k rs commit db).queryUpload k).map (·.2) =
      (match ({ id := k } : Tx).insertRecords rs with
       | none => []
       | some t1 => if commit && (t1.flush).isSome then rs.map (·.line) else []) :=
  replace_effect k rs commit db

/-- an id is never handed out twice, in any state whatsoever (the primary-key check of NewUpload) -/
theorem id_never_reused (env : Env) (req : Req) (s : Sys) (k : UKey)
    (h : (processUpload env req s).alloc = some k) : k ∉ s.db.uploads := by
  rcases alloc_spec env req s with ⟨h1, _⟩ | ⟨k', h1, h2, _⟩
  · rw [h1] at h; cases h
  · rw [h1] at h; cases h; exact allocId_fresh h2

/-- after a history in which every reindex names an existing upload, a new id is numbered from 1 and
larger than every id of its day -/
theorem ids_monotone_after_reindex (ops : List HOp) (hex : ReplacesExisting ops {}) (env : Env) (req : Req) (k : UKey)
    (h : (processUpload env req (runOps ops {})).alloc = some k) :
    1 ≤ k.seq ∧ ∀ k' ∈ (runOps ops {}).db.uploads, k'.day = k.day → k'.seq < k.seq := by
  have w := runOps_wf ops {} WfSys.empty hex
  rcases alloc_spec env req (runOps ops {}) with ⟨h1, _⟩ | ⟨k', h1, h2, _⟩
  · rw [h1] at h; cases h
  · rw [h1] at h; cases h; exact allocId_gt w.contig h2

/-- the hypothesis of `ids_monotone_after_reindex` is needed: a reindex of a never-created id
`20260928.5`, an upload on the next day, then the clock back on the 28th: the new id is `20260928.1`
(fresh, but smaller than the row the reindex left behind) -/
example :
    let good : Req := ⟨[Part.file [97] (Bytes.ofString "BenchmarkA 1 2 ns/op\n") false [21]], false, none⟩
    (processUpload ⟨20260928, [], []⟩ good
      (runOps [HOp.replace ⟨20260928, 5⟩ [] false, HOp.upload ⟨20260929, [], []⟩ good] {})).alloc
      = some ⟨20260928, 1⟩ := by decide +kernel

/-- **ids_unique_all_interleavings**. Any number of concurrent id transactions (one day each), any
schedule of their atomic steps read-last / insert / commit, any set of steps refused by the database:
the ids returned to callers are pairwise different, each is a committed row, none existed before,
and the table never holds an id twice. -/
theorem ids_unique_all_interleavings (rows0 : List UKey) (h0 : rows0.Nodup) (days : List Nat)
    (sched : List (Nat × Bool)) :
    let s := run sched (init rows0 days)
    (returned s.txns).Nodup ∧ s.rows.Nodup ∧ (∀ k ∈ returned s.txns, k ∈ s.rows ∧ k ∉ rows0) ∧
      (∀ k ∈ rows0, k ∈ s.rows) := by
  have inv := run_inv rows0 sched _ (init_inv rows0 days h0)
  exact ⟨inv.ret_nodup, (List.nodup_append.mp inv.nodup).1, inv.ret_rows, inv.grow⟩

/-- a non-trivial instance: two transactions of the same day racing on an empty table;
both read "no row", both want `day.1`; only one can commit it -/
example : (returned (run [(0, true), (1, true), (0, true), (1, true), (0, true), (1, true)]
    (init [] [20260929, 20260929])).txns) = [⟨20260929, 1⟩] := by decide

end C20
