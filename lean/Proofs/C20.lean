/-
C20 — uploads are all-or-nothing under faults; upload ids are never reused. Property theorems.
-/
import Model.Storage.Upload
import Model.Storage.IdAlloc

namespace C20
open Storage.Upload

theorem failed_upload_leaves_records (env : Env) (req : Req) (s : Sys) (e : Err)
    (h : (processUpload env req s).resp = .error e) :
    (processUpload env req s).sys.db.records = s.db.records := by
  unfold processUpload at h ⊢
  simp only at h ⊢
  split
  · rfl
  · split
    · rfl
    · split
      · rfl
      · rename_i h1 h2 h3
        simp [h1, h2, h3] at h

end C20
