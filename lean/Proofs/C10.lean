/-
C10 — scaled numbers keep at least three significant digits, correctly rounded.
Property theorems only (helper lemmas: Proofs/Lemmas/F64Round.lean).
-/
import Model.Unit.ScaleBounds
import Model.Unit.Parse
import Proofs.Lemmas.F64Round

namespace C10
open F64 Unit.Scale

/-- denominators produced by `toFrac` are positive -/
theorem toFrac_den_pos (m : Nat) (e : Int) : 0 < (toFrac m e).2 := by
  unfold toFrac; split
  · simp
  · exact Nat.pow_pos (by decide)

/-- **fmtFixed_half_ulp** — the integer k whose digits `strconv 'f'` prints with p decimals
satisfies |k/10^p − x| ≤ ½·10^-p for the exact value x = n/d of the float:
`2·|k·d − n·10^p| ≤ d`. Holds for every float64 bit pattern (the n/d of non-finite patterns is
unused by `fmtFixed`). -/
theorem fmtFixed_half_ulp (b : Bits) (p : Nat) :
    2 * ((fixedScaled b p : Int) * ((toFrac (mant b) (expo b)).2 : Nat)
          - ((toFrac (mant b) (expo b)).1 * 10 ^ p : Nat)).natAbs ≤ (toFrac (mant b) (expo b)).2 := by
  unfold fixedScaled
  exact rne_half_unit _ _ (toFrac_den_pos _ _)

/-- **fmtFixed_mono** — printing is monotone in the exact value: if value(a) ≤ value(b)
(both taken as magnitudes n/d) then the printed integers are ordered. -/
theorem fmtFixed_mono (a b : Bits) (p : Nat)
    (h : (toFrac (mant a) (expo a)).1 * (toFrac (mant b) (expo b)).2
          ≤ (toFrac (mant b) (expo b)).1 * (toFrac (mant a) (expo a)).2) :
    fixedScaled a p ≤ fixedScaled b p := by
  unfold fixedScaled
  apply rne_mono_rat _ _ _ _ (toFrac_den_pos _ _) (toFrac_den_pos _ _)
  calc (toFrac (mant a) (expo a)).1 * 10 ^ p * (toFrac (mant b) (expo b)).2
      = (toFrac (mant a) (expo a)).1 * (toFrac (mant b) (expo b)).2 * 10 ^ p := by
        rw [Nat.mul_assoc, Nat.mul_comm (10 ^ p), ← Nat.mul_assoc]
    _ ≤ (toFrac (mant b) (expo b)).1 * (toFrac (mant a) (expo a)).2 * 10 ^ p := Nat.mul_le_mul_right _ h
    _ = (toFrac (mant b) (expo b)).1 * 10 ^ p * (toFrac (mant a) (expo a)).2 := by
        rw [Nat.mul_assoc, Nat.mul_comm _ (10 ^ p), ← Nat.mul_assoc]

/-- **boundary_table** — for every row of both prefix tables (built from the constants
re-extracted from benchunit/scale.go) and each of its thresholds t: `t` prints with the coarser
precision as ≥ 100.0 / 10.00 / 1.000 and `pred t` prints with the finer precision (or the next
smaller prefix) as < 100.00 / 10.000 / 1000.0 (1024.0 for IEC); likewise for the sub-prefix
precision thresholds. Kernel evaluation of the finite table (no axioms). -/
theorem boundary_table : boundaryOK = true := by decide +kernel

/-- **classOf_spec** — a unit is binary exactly when B, MB or bytes occurs as a numerator token. -/
theorem classOf_spec (u : Bytes) :
    Unit.Parse.classOf u = .binary ↔
      ∃ t ∈ Unit.Parse.tokens u, Unit.Parse.isBytesTok t.tok = true ∧ t.denom = false := by
  unfold Unit.Parse.classOf
  constructor
  · intro h
    split at h
    · rename_i hany
      rw [List.any_eq_true] at hany
      obtain ⟨t, ht, hp⟩ := hany
      exact ⟨t, ht, by simpa using hp⟩
    · cases h
  · rintro ⟨t, ht, h1, h2⟩
    have : (Unit.Parse.tokens u).any (fun t => Unit.Parse.isBytesTok t.tok && !t.denom) = true := by
      rw [List.any_eq_true]; exact ⟨t, ht, by simp [h1, h2]⟩
    simp [this]

end C10
