/-
C19 — stored results come back exactly, and queries mean what they say. Property theorems.
Helper lemmas: Proofs/Lemmas/C19Order.lean (byte order), C19Merge.lean (part.merge),
C19Split.lean (SplitWords / quoting), C19Rel.lean (relational evaluation).
-/
import Model.Storage.Query
import Model.Storage.Fmt
import Model.Analysis.Quote
import Proofs.Lemmas.C19Order
import Proofs.Lemmas.C19Merge
import Proofs.Lemmas.C19Split
import Proofs.Lemmas.C19Rel

namespace C19
open Storage.Query Analysis.Quote

/-! ### merging the terms on one key -/

/-- **merge_is_conjunction, for an arbitrary linear order** with least element `e` (the empty
string): merging the parts on one key from left to right yields a part that a value `v ≠ e`
satisfies iff it satisfies every part; io.EOF (`none`) exactly when no such value exists. -/
theorem merge_is_conjunction_generic {V : Type} [LinearOrder V] (lt : V → V → Bool) (e : V)
    (hlt : ∀ a b, lt a b = true ↔ a < b) (he : ∀ v, e ≤ v)
    (p : PartG V) (ps : List (PartG V)) (v : V) (hv : v ≠ e) :
    satOpt lt (mergeAll lt e p ps) v ↔ ∀ q ∈ p :: ps, satG lt q v :=
  mergeAll_sat lt e hlt he ps p v hv

/-- **merge_is_conjunction** at the bytewise order of Go strings / SQLite BINARY collation.
`_partial`: holds for every label value except the empty string; for `v = ""` the code's treatment
of an empty lower bound (`key>` selects any value, `ltgt` with `value2 == ""` becomes `lt`) departs
from the comparison semantics — see `merge_empty_value_counterexample` and finding N8. -/
theorem merge_is_conjunction_partial (p : Part) (ps : List Part) (v : Bytes) (hv : v ≠ []) :
    satOpt blt (@mergeAll Bytes bytesOrder blt [] p ps) v ↔ ∀ q ∈ p :: ps, satG blt q v :=
  @mergeAll_sat Bytes bytesOrder blt [] (fun _ _ => Iff.rfl) (fun v => blt_nil_right v) ps p v hv

example : satG blt (⟨[107], .gt, [97], []⟩ : Part) [98] ∧ ([98] : Bytes) ≠ [] := by
  simp [satG, blt]

/-- the full-strength statement fails at the empty value: `k>"" k<"b"` merges to `k<"b"`, which the
empty string satisfies although `"" > ""` is false. -/
theorem merge_empty_value_counterexample :
    ∃ (p q : Part) (v : Bytes),
      satOpt blt (merge p q) v ∧ ¬ (satG blt p v ∧ satG blt q v) :=
  ⟨⟨[107], .gt, [], []⟩, ⟨[107], .lt, [98], []⟩, [], by
    simp [merge, mergeG, finishLtgt, satOpt, satG, blt, Op.toNat]⟩

/-- merging never changes the key -/
theorem merge_keeps_key (p q m : Part) (h : merge p q = some m) (hk : p.key = q.key) :
    m.key = p.key := by
  rcases merge_key blt [] p q m h with h | h
  · exact h
  · rw [h, hk]

/-! ### SplitWords and the front end's quoting -/

/-- **splitwords_quote**: a non-empty word quoted by `addToQuery`'s rule is split back into exactly
that word. -/
theorem splitwords_quote (s : Bytes) (hs : s ≠ []) : splitWords (quote s) = [s] :=
  splitWords_quote_end s hs

/-- the whole of `addToQuery`: the added word comes back first, then the words of the old query
(after a `|` word when the old query had none). -/
theorem splitwords_addToQuery (q add : Bytes) (ha : add ≠ []) :
    splitWords (addToQuery q add) =
      add :: (if q.any (· == cBar) then splitWords q else [cBar] :: splitWords q) := by
  unfold addToQuery
  split
  · rw [List.append_assoc, List.singleton_append, splitWords_quote_cons _ _ ha]
  · rw [List.append_assoc]
    show splitWords (quote add ++ cSpace :: ([cBar, cSpace] ++ q)) = _
    rw [splitWords_quote_cons _ _ ha]
    congr 1
    have := splitWords_quote_cons [cBar] q (by simp)
    simpa [quote, needsQuote, cBar, cSpace, cTab, cBackslash, cQuote] using this

/-- the words of `ws` quoted and joined by blanks -/
def joinQuoted : List Bytes → Bytes
  | [] => []
  | [w] => quote w
  | w :: ws => quote w ++ cSpace :: joinQuoted ws

/-- **splitwords_spec**: (i) no word is empty; (ii) every list of non-empty words is recovered from
its quoted, blank-separated rendering (any byte string can be a word). -/
theorem splitwords_spec :
    (∀ q, ∀ w ∈ splitWords q, w ≠ []) ∧
    (∀ ws : List Bytes, (∀ w ∈ ws, w ≠ []) → splitWords (joinQuoted ws) = ws) := by
  refine ⟨splitWords_nonempty, ?_⟩
  intro ws
  induction ws with
  | nil => intro _; rfl
  | cons w ws ih =>
    intro h
    cases ws with
    | nil => exact splitWords_quote_end w (h w (by simp))
    | cons w2 ws' =>
      show splitWords (quote w ++ cSpace :: joinQuoted (w2 :: ws')) = _
      rw [splitWords_quote_cons _ _ (h w (by simp)), ih (fun x hx => h x (by simp [hx]))]

/-! ### the query as a whole -/

theorem forall2_iff {α β : Type} {R : α → β → Prop} {A : β → Prop} {B : α → Prop}
    {as : List α} {bs : List β} (h : List.Forall₂ R as bs) (hab : ∀ a b, R a b → (A b ↔ B a)) :
    (∀ b ∈ bs, A b) ↔ ∀ a ∈ as, B a := by
  induction h with
  | nil => simp
  | cons hr _ ih => simp only [List.mem_cons, forall_eq_or_imp, ih, hab _ _ hr]

/-- **query_result_spec** (relational model of the SQL): on a database state whose keys hold (`WF`)
and that stores no empty label value, a query that is accepted returns exactly the stored records
whose labels satisfy every word of the query — `key:value`, `key<value`, `key>value` compared
bytewise, several words on one key meaning their conjunction — each record once. -/
theorem query_result_spec (db : DB) (hwf : WF db) (hne : NoEmptyValues db) (q : Bytes)
    (recs : List RecordRow) (h : queryRecords db q = .ok recs) :
    recs.Nodup ∧ ∀ r, r ∈ recs ↔
      (r ∈ db.records ∧
        ∀ w ∈ splitWords q, ∃ p, parseWord w = .ok p ∧ termSat (labelRel db r.rkey) p) := by
  unfold queryRecords parseQuery mergedParts at h
  cases hc : collect [] (splitWords q) with
  | error e => simp only [hc, bind, Except.bind] at h; cases h
  | ok tbl =>
    simp only [hc, bind, Except.bind, pure, Except.pure] at h
    cases hs : sqlAll (sortByKey tbl) with
    | error e => simp only [hs] at h; cases h
    | ok sqls =>
      simp only [hs, Except.ok.injEq] at h
      subst h
      have hsel := selectRecords_spec db hwf sqls
      refine ⟨hsel.1, fun r => ?_⟩
      rw [hsel.2]
      constructor
      · rintro ⟨hr, hall⟩
        refine ⟨hr, ?_⟩
        have hrk : r.rkey ∈ db.records.map RecordRow.rkey := List.mem_map.mpr ⟨r, hr, rfl⟩
        have hL := labelRel_ok db hwf hne r.rkey
        have h1 := (forall2_iff (sqlAll_forall _ _ hs)
          (fun p s hps => sql_sat db hwf hne p s hps r.rkey hrk)).mp hall
        have h2 : tblSat (labelRel db r.rkey) tbl := fun t ht => h1 t ((mem_sortByKey t tbl).mpr ht)
        exact ((collect_ok hL _ [] tbl hc).mp h2).2
      · rintro ⟨hr, hall⟩
        refine ⟨hr, ?_⟩
        have hrk : r.rkey ∈ db.records.map RecordRow.rkey := List.mem_map.mpr ⟨r, hr, rfl⟩
        have hL := labelRel_ok db hwf hne r.rkey
        have h2 : tblSat (labelRel db r.rkey) tbl :=
          (collect_ok hL _ [] tbl hc).mpr ⟨fun t ht => absurd ht (by simp), hall⟩
        exact (forall2_iff (sqlAll_forall _ _ hs)
          (fun p s hps => sql_sat db hwf hne p s hps r.rkey hrk)).mpr
          (fun t ht => h2 t ((mem_sortByKey t tbl).mp ht))

/-- a query reported as never matching (io.EOF, shown as an empty result) is indeed satisfied by no
stored record -/
theorem query_unsat_spec (db : DB) (hwf : WF db) (hne : NoEmptyValues db) (q : Bytes)
    (h : queryRecords db q = .error .eof) (r : RecordRow) (_hr : r ∈ db.records) :
    ¬ ∀ w ∈ splitWords q, ∀ p, parseWord w = .ok p → termSat (labelRel db r.rkey) p := by
  have hL := labelRel_ok db hwf hne r.rkey
  unfold queryRecords parseQuery mergedParts at h
  cases hc : collect [] (splitWords q) with
  | error e =>
    simp only [hc, bind, Except.bind] at h
    have : e = .eof := by cases h; rfl
    subst this
    intro hall
    exact collect_eof hL _ [] hc ⟨fun t ht => absurd ht (by simp), hall⟩
  | ok tbl =>
    exfalso
    simp only [hc, bind, Except.bind, pure, Except.pure] at h
    -- `sql()` never reports EOF
    suffices hh : ∀ ps, sqlAll ps ≠ .error .eof by
      cases hs : sqlAll (sortByKey tbl) with
      | error e => simp only [hs] at h; exact hh _ (by rw [hs]; cases h; rfl)
      | ok sqls => simp only [hs] at h; cases h
    intro ps
    induction ps with
    | nil => simp [sqlAll]
    | cons p ps ih =>
      unfold sqlAll
      cases hp : p.sql with
      | error e =>
        simp only [bind, Except.bind]
        intro he; cases he
        unfold Part.sql at hp
        split at hp
        · split at hp <;> cases hp
        · split at hp
          · split at hp <;> cases hp
          · cases hp
          · split at hp <;> cases hp
          · cases hp
      | ok s =>
        cases hr : sqlAll ps with
        | error e => simp only [bind, Except.bind]; intro he; cases he; exact ih hr
        | ok r => simp [bind, Except.bind, pure, Except.pure]

end C19
