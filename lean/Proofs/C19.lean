/-
C19 — stored results come back exactly, and queries mean what they say. Property theorems.
Helper lemmas: Proofs/Lemmas/C19Order.lean (byte order), C19Merge.lean (part.merge),
C19Split.lean (SplitWords / quoting), C19Rel.lean (relational evaluation).
-/
import Model.Storage.Query
import Model.Storage.Fmt
import Model.Analysis.Quote
import Proofs.Lemmas.C19Order
import Proofs.Lemmas.C19Merge
import Proofs.Lemmas.C19Split
import Proofs.Lemmas.C19Rel
import Proofs.Lemmas.C19Fmt

namespace C19
open Storage.Query Analysis.Quote

/-! ### merging the terms on one key -/

/-- **merge_is_conjunction, for an arbitrary linear order** with least element `e` (the empty
string): merging the parts on one key from left to right yields a part that a value `v ≠ e`
satisfies iff it satisfies every part; io.EOF (`none`) exactly when no such value exists. -/
theorem merge_is_conjunction_generic {V : Type} [LinearOrder V] (lt : V → V → Bool) (e : V)
    (hlt : ∀ a b, lt a b = true ↔ a < b) (he : ∀ v, e ≤ v)
    (p : PartG V) (ps : List (PartG V)) (v : V) (hv : v ≠ e) :
    satOpt lt (mergeAll lt e p ps) v ↔ ∀ q ∈ p :: ps, satG lt q v :=
  mergeAll_sat lt e hlt he ps p v hv

/-- **merge_is_conjunction** at the bytewise order of Go strings / SQLite BINARY collation.
`_partial`: holds for every label value except the empty string; for `v = ""` the code's treatment
of an empty lower bound (`key>` selects any value, `ltgt` with `value2 == ""` becomes `lt`) departs
from the comparison semantics — see `merge_empty_value_counterexample` and finding N8. -/
theorem merge_is_conjunction_partial (p : Part) (ps : List Part) (v : Bytes) (hv : v ≠ []) :
    satOpt blt (@mergeAll Bytes bytesOrder blt [] p ps) v ↔ ∀ q ∈ p :: ps, satG blt q v :=
  @mergeAll_sat Bytes bytesOrder blt [] (fun _ _ => Iff.rfl) (fun v => blt_nil_right v) ps p v hv

example : satG blt (⟨[107], .gt, [97], []⟩ : Part) [98] ∧ ([98] : Bytes) ≠ [] := by
  simp [satG, blt]

/-- the full-strength statement fails at the empty value: `k>"" k<"b"` merges to `k<"b"`, which the
empty string satisfies although `"" > ""` is false. -/
theorem merge_empty_value_counterexample :
    ∃ (p q : Part) (v : Bytes),
      satOpt blt (merge p q) v ∧ ¬ (satG blt p v ∧ satG blt q v) :=
  ⟨⟨[107], .gt, [], []⟩, ⟨[107], .lt, [98], []⟩, [], by
    simp [merge, mergeG, finishLtgt, satOpt, satG, blt, Op.toNat]⟩

/-- merging never changes the key -/
theorem merge_keeps_key (p q m : Part) (h : merge p q = some m) (hk : p.key = q.key) :
    m.key = p.key := by
  rcases merge_key blt [] p q m h with h | h
  · exact h
  · rw [h, hk]

/-! ### SplitWords and the front end's quoting -/

/-- **splitwords_quote**: a non-empty word quoted by `addToQuery`'s rule is split back into exactly
that word. -/
theorem splitwords_quote (s : Bytes) (hs : s ≠ []) : splitWords (quote s) = [s] :=
  splitWords_quote_end s hs

/-- the whole of `addToQuery`: the added word comes back first, then the words of the old query
(after a `|` word when the old query had none). -/
theorem splitwords_addToQuery (q add : Bytes) (ha : add ≠ []) :
    splitWords (addToQuery q add) =
      add :: (if q.any (· == cBar) then splitWords q else [cBar] :: splitWords q) := by
  unfold addToQuery
  split
  · rw [List.append_assoc, List.singleton_append, splitWords_quote_cons _ _ ha]
  · rw [List.append_assoc]
    show splitWords (quote add ++ cSpace :: ([cBar, cSpace] ++ q)) = _
    rw [splitWords_quote_cons _ _ ha]
    congr 1
    have := splitWords_quote_cons [cBar] q (by simp)
    simpa [quote, needsQuote, cBar, cSpace, cTab, cBackslash, cQuote] using this

/-- the words of `ws` quoted and joined by blanks -/
def joinQuoted : List Bytes → Bytes
  | [] => []
  | [w] => quote w
  | w :: ws => quote w ++ cSpace :: joinQuoted ws

/-- **splitwords_spec**: (i) no word is empty; (ii) every list of non-empty words is recovered from
its quoted, blank-separated rendering (any byte string can be a word). -/
theorem splitwords_spec :
    (∀ q, ∀ w ∈ splitWords q, w ≠ []) ∧
    (∀ ws : List Bytes, (∀ w ∈ ws, w ≠ []) → splitWords (joinQuoted ws) = ws) := by
  refine ⟨splitWords_nonempty, ?_⟩
  intro ws
  induction ws with
  | nil => intro _; rfl
  | cons w ws ih =>
    intro h
    cases ws with
    | nil => exact splitWords_quote_end w (h w (by simp))
    | cons w2 ws' =>
      show splitWords (quote w ++ cSpace :: joinQuoted (w2 :: ws')) = _
      rw [splitWords_quote_cons _ _ (h w (by simp)), ih (fun x hx => h x (by simp [hx]))]

/-! ### the query as a whole -/

theorem forall2_iff {α β : Type} {R : α → β → Prop} {A : β → Prop} {B : α → Prop}
    {as : List α} {bs : List β} (h : List.Forall₂ R as bs) (hab : ∀ a b, R a b → (A b ↔ B a)) :
    (∀ b ∈ bs, A b) ↔ ∀ a ∈ as, B a := by
  induction h with
  | nil => simp
  | cons hr _ ih => simp only [List.mem_cons, forall_eq_or_imp, ih, hab _ _ hr]

/-- **query_result_spec** (relational model of the SQL): on a database state whose keys hold (`WF`)
and that stores no empty label value, a query that is accepted returns exactly the stored records
whose labels satisfy every word of the query — `key:value`, `key<value`, `key>value` compared
bytewise, several words on one key meaning their conjunction — each record once. -/
theorem query_result_spec (db : DB) (hwf : WF db) (hne : NoEmptyValues db) (q : Bytes)
    (recs : List RecordRow) (h : queryRecords db q = .ok recs) :
    recs.Nodup ∧ ∀ r, r ∈ recs ↔
      (r ∈ db.records ∧
        ∀ w ∈ splitWords q, ∃ p, parseWord w = .ok p ∧ termSat (labelRel db r.rkey) p) := by
  unfold queryRecords parseQuery mergedParts at h
  cases hc : collect [] (splitWords q) with
  | error e => simp only [hc, bind, Except.bind] at h; cases h
  | ok tbl =>
    simp only [hc, bind, Except.bind, pure, Except.pure] at h
    cases hs : sqlAll (sortByKey tbl) with
    | error e => simp only [hs] at h; cases h
    | ok sqls =>
      simp only [hs, Except.ok.injEq] at h
      subst h
      have hsel := selectRecords_spec db hwf sqls
      refine ⟨hsel.1, fun r => ?_⟩
      rw [hsel.2]
      constructor
      · rintro ⟨hr, hall⟩
        refine ⟨hr, ?_⟩
        have hrk : r.rkey ∈ db.records.map RecordRow.rkey := List.mem_map.mpr ⟨r, hr, rfl⟩
        have hL := labelRel_ok db hwf hne r.rkey
        have h1 := (forall2_iff (sqlAll_forall _ _ hs)
          (fun p s hps => sql_sat db hwf hne p s hps r.rkey hrk)).mp hall
        have h2 : tblSat (labelRel db r.rkey) tbl := fun t ht => h1 t ((mem_sortByKey t tbl).mpr ht)
        exact ((collect_ok hL _ [] tbl hc).mp h2).2
      · rintro ⟨hr, hall⟩
        refine ⟨hr, ?_⟩
        have hrk : r.rkey ∈ db.records.map RecordRow.rkey := List.mem_map.mpr ⟨r, hr, rfl⟩
        have hL := labelRel_ok db hwf hne r.rkey
        have h2 : tblSat (labelRel db r.rkey) tbl :=
          (collect_ok hL _ [] tbl hc).mpr ⟨fun t ht => absurd ht (by simp), hall⟩
        exact (forall2_iff (sqlAll_forall _ _ hs)
          (fun p s hps => sql_sat db hwf hne p s hps r.rkey hrk)).mpr
          (fun t ht => h2 t ((mem_sortByKey t tbl).mp ht))

/-- a query reported as never matching (io.EOF, shown as an empty result) is indeed satisfied by no
stored record -/
theorem query_unsat_spec (db : DB) (hwf : WF db) (hne : NoEmptyValues db) (q : Bytes)
    (h : queryRecords db q = .error .eof) (r : RecordRow) (_hr : r ∈ db.records) :
    ¬ ∀ w ∈ splitWords q, ∀ p, parseWord w = .ok p → termSat (labelRel db r.rkey) p := by
  have hL := labelRel_ok db hwf hne r.rkey
  unfold queryRecords parseQuery mergedParts at h
  cases hc : collect [] (splitWords q) with
  | error e =>
    simp only [hc, bind, Except.bind] at h
    have : e = .eof := by cases h; rfl
    subst this
    intro hall
    exact collect_eof hL _ [] hc ⟨fun t ht => absurd ht (by simp), hall⟩
  | ok tbl =>
    exfalso
    simp only [hc, bind, Except.bind, pure, Except.pure] at h
    -- `sql()` never reports EOF
    suffices hh : ∀ ps, sqlAll ps ≠ .error .eof by
      cases hs : sqlAll (sortByKey tbl) with
      | error e => simp only [hs] at h; exact hh _ (by rw [hs]; cases h; rfl)
      | ok sqls => simp only [hs] at h; cases h
    intro ps
    induction ps with
    | nil => simp [sqlAll]
    | cons p ps ih =>
      unfold sqlAll
      cases hp : p.sql with
      | error e =>
        simp only [bind, Except.bind]
        intro he; cases he
        unfold Part.sql at hp
        split at hp
        · split at hp <;> cases hp
        · split at hp
          · split at hp <;> cases hp
          · cases hp
          · split at hp <;> cases hp
          · cases hp
      | ok s =>
        cases hr : sqlAll ps with
        | error e => simp only [bind, Except.bind]; intro he; cases he; exact ih hr
        | ok r => simp [bind, Except.bind, pure, Except.pure]


/-! ### printer / reader, coalescing, listing -/

open Storage.Fmt in
/-- **printer_reader_roundtrip_partial**: the two kinds of configuration line the Printer writes are
read back as written — `key: value` for a non-empty value that does not start with a blank or tab,
`key:` as the removal of the key.
Gap: the statement for whole result streams (labels and content lines of every result survive
print → read, for any order of the results) is validated by the correspondence run only. -/
theorem printer_reader_roundtrip_partial (k v : Bytes) (hk : validKey k) :
    ((∃ c r, v = c :: r ∧ isBlank c = false) →
      parseKeyValueLine (k ++ [cColon, cSpace] ++ v) = some (k, v)) ∧
    parseKeyValueLine (k ++ [cColon]) = some (k, []) :=
  ⟨kv_line_roundtrip k v hk, kv_unset_roundtrip k hk⟩

/-- "upload-file", " f.txt", "f.txt" as byte lists -/
def bUploadFile : Bytes := [117, 112, 108, 111, 97, 100, 45, 102, 105, 108, 101]
def bBlankF : Bytes := [32, 102, 46, 116, 120, 116]
def bF : Bytes := [102, 46, 116, 120, 116]

open Storage.Fmt in
example : validKey bUploadFile ∧ (∃ c r, bF = c :: r ∧ isBlank c = false) := by
  refine ⟨⟨⟨117, _, rfl, by decide⟩, by decide⟩, 102, _, rfl, by decide⟩

open Storage.Fmt in
/-- the hypothesis on the value is needed (finding N7): the server label `upload-file: " f.txt"` is
printed as `upload-file:  f.txt` and read back without its blank. -/
theorem printer_reader_blank_counterexample :
    parseKeyValueLine (bUploadFile ++ [cColon, cSpace] ++ bBlankF) = some (bUploadFile, bF) := by
  decide

open Storage.Fmt in
/-- a value ending in CR (line `k: w\r\r\n`, stored as `k: w\r\n`) loses the CR when the stored
record is scanned again -/
theorem printer_reader_cr_counterexample :
    scanLines [107, 58, 32, 119, 13, 10] = [[107, 58, 32, 119]] := by decide

open Storage.Fmt in
/-- **coalesce_spec_partial**: a result with the same labels as the previous one (`SameLabels`) is
appended to the previous record and indexes nothing; any other result starts a new record whose
content is the result printed by a fresh Printer and takes the next record id.
Gap: (i) that the number of stored records equals the number of runs of identical-label results
needs "no flush inside a run" (the 990-argument threshold forgets `lastResult`, finding N9);
(ii) `SameLabels` is not label equality when values are empty (`sameLabels_counterexample`). -/
theorem coalesce_spec_partial (u : Upload) (r : Result) :
    (∀ last, u.lastResult = some last → last.sameLabels r = true →
      (u.insertRecord r).records = appendToLast u.records (r.content ++ [nl]) ∧
      (u.insertRecord r).labels = u.labels ∧ (u.insertRecord r).recordid = u.recordid) ∧
    ((u.lastResult = none ∨ ∃ last, u.lastResult = some last ∧ last.sameLabels r = false) →
      (u.insertRecord r).records = u.records ++ [⟨u.id, u.recordid, (printResult [] r).1⟩] ∧
      (u.insertRecord r).recordid = u.recordid + 1) := by
  have hnew : (u.insertNew r).records = u.records ++ [⟨u.id, u.recordid, (printResult [] r).1⟩] ∧
      (u.insertNew r).recordid = u.recordid + 1 := by
    unfold Upload.insertNew
    simp only
    have h1 := foldl_insertLabel_fields r.labels
      { u with lastResult := some r, records := u.records ++ [⟨u.id, u.recordid, (printResult [] r).1⟩] }
    have h2 := foldl_insertLabel_fields r.nameL (r.labels.foldl (fun u kv => u.insertLabel kv.1 kv.2)
      { u with lastResult := some r, records := u.records ++ [⟨u.id, u.recordid, (printResult [] r).1⟩] })
    exact ⟨h2.1.trans h1.1, by rw [h2.2.2, h1.2.2]⟩
  constructor
  · intro last hl hs
    unfold Upload.insertRecord
    simp [hl, hs]
  · rintro (hn | ⟨last, hl, hs⟩)
    · unfold Upload.insertRecord; rw [hn]; exact hnew
    · unfold Upload.insertRecord; simp only [hl, hs, Bool.false_eq_true, if_false]; exact hnew

open Storage.Fmt in
/-- `Labels.Equal` treats a missing key as the empty value: the name labels of `X/` and `X/a=`
compare equal, so the two lines are stored as one record (class of finding N8). -/
theorem sameLabels_counterexample :
    Labels.equal (parseNameLabels [88, 47]) (parseNameLabels [88, 47, 97, 61]) = true ∧
    parseNameLabels [88, 47] ≠ parseNameLabels [88, 47, 97, 61] := by decide +kernel

theorem filter_flatMap_length (db : DB) (keys : List RKey) (id : Bytes) :
    countFor (keys.flatMap fun k => (db.records.filter (·.rkey == k)).map (·.rkey)) id =
    ((keys.flatMap fun k => db.records.filter (·.rkey == k)).filter (·.upload == id)).length := by
  unfold countFor
  induction keys with
  | nil => simp
  | cons k ks ih =>
    simp only [List.flatMap_cons, List.filter_append, List.length_append, ih]
    congr 1
    rw [List.filter_map, List.length_map]
    rfl

/-- **listing_spec_partial**: for an accepted query the listing reports, for every upload, the
number of records the same query selects (`selectRecords`, characterised by `query_result_spec`)
that belong to the upload; uploads without such a record are left out; the rows are those of
`sortNewer` (insertion by `Day DESC, Seq DESC, UploadID DESC`) cut at a positive limit.
Gap: that `sortNewer` yields a sorted permutation is not proved (validated by the correspondence
run, including sequence numbers above 9 and day changes). -/
theorem listing_spec_partial (db : DB) (q : Bytes) (limit : Int) (rows : List (Bytes × Nat))
    (h : listUploads db q limit = .ok rows) :
    ∃ sqls, parseQuery q = .ok sqls ∧
      rows = (applyLimit limit (sortNewer ((db.uploads.map fun u =>
        (u, ((selectRecords db sqls).filter (·.upload == u.id)).length)).filter (·.2 > 0)))).map
          fun p => (p.1.id, p.2) := by
  unfold listUploads at h
  cases hp : parseQuery q with
  | error e => simp only [hp, bind, Except.bind] at h; cases h
  | ok sqls =>
    refine ⟨sqls, rfl, ?_⟩
    simp only [hp, bind, Except.bind, pure, Except.pure, Except.ok.injEq] at h
    subst h
    cases sqls with
    | nil => rfl
    | cons s rest =>
      have hm : (db.uploads.map fun u => (u, countFor ((joinAll db (s :: rest)).flatMap fun k =>
            (db.records.filter (·.rkey == k)).map (·.rkey)) u.id)) =
          (db.uploads.map fun u => (u, (((joinAll db (s :: rest)).flatMap fun k =>
            db.records.filter (·.rkey == k)).filter (·.upload == u.id)).length)) := by
        apply List.map_congr_left
        intro u _
        rw [filter_flatMap_length]
      simp only [selectRecords]
      rw [hm]

end C19
