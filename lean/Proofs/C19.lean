/-
C19 — stored results come back exactly, and queries mean what they say. Property theorems.
Helper lemmas: Proofs/Lemmas/C19Order.lean (byte order), C19Merge.lean (part.merge),
C19Split.lean (SplitWords / quoting), C19Rel.lean (relational evaluation).
-/
import Model.Storage.Query
import Model.Storage.Fmt
import Model.Analysis.Quote
import Proofs.Lemmas.C19Order
import Proofs.Lemmas.C19Merge
import Proofs.Lemmas.C19Split
import Proofs.Lemmas.C19Rel
import Proofs.Lemmas.C19Fmt
import Proofs.Lemmas.C19Wf
import Proofs.Lemmas.C19List
import Proofs.Lemmas.C19Coalesce
import Proofs.Lemmas.C19Round3
import Proofs.Lemmas.C19Lex
import Proofs.Lemmas.C19Store
import Proofs.Lemmas.C19Clean
import Proofs.Lemmas.C19Parse
import Proofs.Lemmas.C19Parse3
import Proofs.Lemmas.C19Names

namespace C19
open Storage.Query Analysis.Quote

/-! ### merging the terms on one key -/

/-- **merge_is_conjunction, for an arbitrary linear order** with least element `e` (the empty
string): merging the parts on one key from left to right yields a part that a value `v ≠ e`
satisfies iff it satisfies every part; io.EOF (`none`) exactly when no such value exists. -/
theorem merge_is_conjunction_generic {V : Type} [LinearOrder V] (lt : V → V → Bool) (e : V)
    (hlt : ∀ a b, lt a b = true ↔ a < b) (he : ∀ v, e ≤ v)
    (p : PartG V) (ps : List (PartG V)) (v : V) (hv : v ≠ e) :
    satOpt lt (mergeAll lt e p ps) v ↔ ∀ q ∈ p :: ps, satG lt q v :=
  mergeAll_sat lt e hlt he ps p v hv

/-- **merge_is_conjunction** at the bytewise order of Go strings / SQLite BINARY collation.
`_partial`: holds for every label value except the empty string; for `v = ""` the code's treatment
of an empty lower bound (`key>` selects any value, `ltgt` with `value2 == ""` becomes `lt`) departs
from the comparison semantics — see `merge_empty_value_counterexample` and finding N8. -/
theorem merge_is_conjunction_partial (p : Part) (ps : List Part) (v : Bytes) (hv : v ≠ []) :
    satOpt blt (@mergeAll Bytes bytesOrder blt [] p ps) v ↔ ∀ q ∈ p :: ps, satG blt q v :=
  @mergeAll_sat Bytes bytesOrder blt [] (fun _ _ => Iff.rfl) (fun v => blt_nil_right v) ps p v hv

example : satG blt (⟨[107], .gt, [97], []⟩ : Part) [98] ∧ ([98] : Bytes) ≠ [] := by
  simp [satG, blt]

/-- the full-strength statement fails at the empty value: `k>"" k<"b"` merges to `k<"b"`, which the
empty string satisfies although `"" > ""` is false. -/
theorem merge_empty_value_counterexample :
    ∃ (p q : Part) (v : Bytes),
      satOpt blt (merge p q) v ∧ ¬ (satG blt p v ∧ satG blt q v) :=
  ⟨⟨[107], .gt, [], []⟩, ⟨[107], .lt, [98], []⟩, [], by
    simp [merge, mergeG, finishLtgt, satOpt, satG, blt, Op.toNat]⟩

/-- merging never changes the key -/
theorem merge_keeps_key (p q m : Part) (h : merge p q = some m) (hk : p.key = q.key) :
    m.key = p.key := by
  rcases merge_key blt [] p q m h with h | h
  · exact h
  · rw [h, hk]

/-! ### SplitWords and the front end's quoting -/

/-- **splitwords_quote**: a non-empty word quoted by `addToQuery`'s rule is split back into exactly
that word. -/
theorem splitwords_quote (s : Bytes) (hs : s ≠ []) : splitWords (quote s) = [s] :=
  splitWords_quote_end s hs

/-- the whole of `addToQuery`: the added word comes back first, then the words of the old query
(after a `|` word when the old query had none). -/
theorem splitwords_addToQuery (q add : Bytes) (ha : add ≠ []) :
    splitWords (addToQuery q add) =
      add :: (if q.any (· == cBar) then splitWords q else [cBar] :: splitWords q) := by
  unfold addToQuery
  split
  · rw [List.append_assoc, List.singleton_append, splitWords_quote_cons _ _ ha]
  · rw [List.append_assoc]
    show splitWords (quote add ++ cSpace :: ([cBar, cSpace] ++ q)) = _
    rw [splitWords_quote_cons _ _ ha]
    congr 1
    have := splitWords_quote_cons [cBar] q (by simp)
    simpa [quote, needsQuote, cBar, cSpace, cTab, cBackslash, cQuote] using this

/-- the words of `ws` quoted and joined by blanks -/
def joinQuoted : List Bytes → Bytes
  | [] => []
  | [w] => quote w
  | w :: ws => quote w ++ cSpace :: joinQuoted ws

/-- **splitwords_spec**: (i) no word is empty; (ii) every list of non-empty words is recovered from
its quoted, blank-separated rendering (any byte string can be a word). -/
theorem splitwords_spec :
    (∀ q, ∀ w ∈ splitWords q, w ≠ []) ∧
    (∀ ws : List Bytes, (∀ w ∈ ws, w ≠ []) → splitWords (joinQuoted ws) = ws) := by
  refine ⟨splitWords_nonempty, ?_⟩
  intro ws
  induction ws with
  | nil => intro _; rfl
  | cons w ws ih =>
    intro h
    cases ws with
    | nil => exact splitWords_quote_end w (h w (by simp))
    | cons w2 ws' =>
      show splitWords (quote w ++ cSpace :: joinQuoted (w2 :: ws')) = _
      rw [splitWords_quote_cons _ _ (h w (by simp)), ih (fun x hx => h x (by simp [hx]))]

/-! ### the query as a whole -/

theorem forall2_iff {α β : Type} {R : α → β → Prop} {A : β → Prop} {B : α → Prop}
    {as : List α} {bs : List β} (h : List.Forall₂ R as bs) (hab : ∀ a b, R a b → (A b ↔ B a)) :
    (∀ b ∈ bs, A b) ↔ ∀ a ∈ as, B a := by
  induction h with
  | nil => simp
  | cons hr _ ih => simp only [List.mem_cons, forall_eq_or_imp, ih, hab _ _ hr]

/-- **query_result_spec** (relational model of the SQL): on a database state whose keys hold (`WF`)
and that stores no empty label value, a query that is accepted returns exactly the stored records
whose labels satisfy every word of the query — `key:value`, `key<value`, `key>value` compared
bytewise, several words on one key meaning their conjunction — each record once. -/
theorem query_result_spec (db : DB) (hwf : WF db) (hne : NoEmptyValues db) (q : Bytes)
    (recs : List RecordRow) (h : queryRecords db q = .ok recs) :
    recs.Nodup ∧ ∀ r, r ∈ recs ↔
      (r ∈ db.records ∧
        ∀ w ∈ splitWords q, ∃ p, parseWord w = .ok p ∧ termSat (labelRel db r.rkey) p) := by
  unfold queryRecords parseQuery mergedParts at h
  cases hc : collect [] (splitWords q) with
  | error e => simp only [hc, bind, Except.bind] at h; cases h
  | ok tbl =>
    simp only [hc, bind, Except.bind, pure, Except.pure] at h
    cases hs : sqlAll (sortByKey tbl) with
    | error e => simp only [hs] at h; cases h
    | ok sqls =>
      simp only [hs, Except.ok.injEq] at h
      subst h
      have hsel := selectRecords_spec db hwf sqls
      refine ⟨hsel.1, fun r => ?_⟩
      rw [hsel.2]
      constructor
      · rintro ⟨hr, hall⟩
        refine ⟨hr, ?_⟩
        have hrk : r.rkey ∈ db.records.map RecordRow.rkey := List.mem_map.mpr ⟨r, hr, rfl⟩
        have hL := labelRel_ok db hwf hne r.rkey
        have h1 := (forall2_iff (sqlAll_forall _ _ hs)
          (fun p s hps => sql_sat db hwf hne p s hps r.rkey hrk)).mp hall
        have h2 : tblSat (labelRel db r.rkey) tbl := fun t ht => h1 t ((mem_sortByKey t tbl).mpr ht)
        exact ((collect_ok hL _ [] tbl hc).mp h2).2
      · rintro ⟨hr, hall⟩
        refine ⟨hr, ?_⟩
        have hrk : r.rkey ∈ db.records.map RecordRow.rkey := List.mem_map.mpr ⟨r, hr, rfl⟩
        have hL := labelRel_ok db hwf hne r.rkey
        have h2 : tblSat (labelRel db r.rkey) tbl :=
          (collect_ok hL _ [] tbl hc).mpr ⟨fun t ht => absurd ht (by simp), hall⟩
        exact (forall2_iff (sqlAll_forall _ _ hs)
          (fun p s hps => sql_sat db hwf hne p s hps r.rkey hrk)).mpr
          (fun t ht => h2 t ((mem_sortByKey t tbl).mp ht))

/-- a query reported as never matching (io.EOF, shown as an empty result) is indeed satisfied by no
stored record -/
theorem query_unsat_spec (db : DB) (hwf : WF db) (hne : NoEmptyValues db) (q : Bytes)
    (h : queryRecords db q = .error .eof) (r : RecordRow) (_hr : r ∈ db.records) :
    ¬ ∀ w ∈ splitWords q, ∀ p, parseWord w = .ok p → termSat (labelRel db r.rkey) p := by
  have hL := labelRel_ok db hwf hne r.rkey
  unfold queryRecords parseQuery mergedParts at h
  cases hc : collect [] (splitWords q) with
  | error e =>
    simp only [hc, bind, Except.bind] at h
    have : e = .eof := by cases h; rfl
    subst this
    intro hall
    exact collect_eof hL _ [] hc ⟨fun t ht => absurd ht (by simp), hall⟩
  | ok tbl =>
    exfalso
    simp only [hc, bind, Except.bind, pure, Except.pure] at h
    -- `sql()` never reports EOF
    suffices hh : ∀ ps, sqlAll ps ≠ .error .eof by
      cases hs : sqlAll (sortByKey tbl) with
      | error e => simp only [hs] at h; exact hh _ (by rw [hs]; cases h; rfl)
      | ok sqls => simp only [hs] at h; cases h
    intro ps
    induction ps with
    | nil => simp [sqlAll]
    | cons p ps ih =>
      unfold sqlAll
      cases hp : p.sql with
      | error e =>
        simp only [bind, Except.bind]
        intro he; cases he
        unfold Part.sql at hp
        split at hp
        · split at hp <;> cases hp
        · split at hp
          · split at hp <;> cases hp
          · cases hp
          · split at hp <;> cases hp
          · cases hp
      | ok s =>
        cases hr : sqlAll ps with
        | error e => simp only [bind, Except.bind]; intro he; cases he; exact ih hr
        | ok r => simp [bind, Except.bind, pure, Except.pure]


/-! ### printer / reader, coalescing, listing -/

open Storage.Fmt in
/-- **printer_reader_roundtrip_partial**: the two kinds of configuration line the Printer writes are
read back as written — `key: value` for a non-empty value that does not start with a blank or tab,
`key:` as the removal of the key.
(Line-level lemma; the statement for whole result streams is `printer_reader_roundtrip` below.) -/
theorem printer_reader_roundtrip_partial (k v : Bytes) (hk : validKey k) :
    ((∃ c r, v = c :: r ∧ isBlank c = false) →
      parseKeyValueLine (k ++ [cColon, cSpace] ++ v) = some (k, v)) ∧
    parseKeyValueLine (k ++ [cColon]) = some (k, []) :=
  ⟨kv_line_roundtrip k v hk, kv_unset_roundtrip k hk⟩

/-- "upload-file", " f.txt", "f.txt" as byte lists -/
def bUploadFile : Bytes := [117, 112, 108, 111, 97, 100, 45, 102, 105, 108, 101]
def bBlankF : Bytes := [32, 102, 46, 116, 120, 116]
def bF : Bytes := [102, 46, 116, 120, 116]

open Storage.Fmt in
example : validKey bUploadFile ∧ (∃ c r, bF = c :: r ∧ isBlank c = false) := by
  refine ⟨⟨⟨117, _, rfl, by decide⟩, by decide⟩, 102, _, rfl, by decide⟩

open Storage.Fmt in
/-- the hypothesis on the value is needed (finding N7): the server label `upload-file: " f.txt"` is
printed as `upload-file:  f.txt` and read back without its blank. -/
theorem printer_reader_blank_counterexample :
    parseKeyValueLine (bUploadFile ++ [cColon, cSpace] ++ bBlankF) = some (bUploadFile, bF) := by
  decide

open Storage.Fmt in
/-- a value ending in CR (line `k: w\r\r\n`, stored as `k: w\r\n`) loses the CR when the stored
record is scanned again -/
theorem printer_reader_cr_counterexample :
    scanLines [107, 58, 32, 119, 13, 10] = [[107, 58, 32, 119]] := by decide

open Storage.Fmt in
/-- **coalesce_spec_partial**: a result with the same labels as the previous one (`SameLabels`) is
appended to the previous record and indexes nothing; any other result starts a new record whose
content is the result printed by a fresh Printer and takes the next record id.
(Step-level lemma; the run-level statement is `coalesce_spec`, the flush boundary `flush_boundary`
below. `SameLabels` is not label equality when values are empty: `sameLabels_counterexample`.) -/
theorem coalesce_spec_partial (u : Upload) (r : Result) :
    (∀ last, u.lastResult = some last → last.sameLabels r = true →
      (u.insertRecord r).records = appendToLast u.records (r.content ++ [nl]) ∧
      (u.insertRecord r).labels = u.labels ∧ (u.insertRecord r).recordid = u.recordid) ∧
    ((u.lastResult = none ∨ ∃ last, u.lastResult = some last ∧ last.sameLabels r = false) →
      (u.insertRecord r).records = u.records ++ [⟨u.id, u.recordid, (printResult [] r).1⟩] ∧
      (u.insertRecord r).recordid = u.recordid + 1) := by
  have hnew : (u.insertNew r).records = u.records ++ [⟨u.id, u.recordid, (printResult [] r).1⟩] ∧
      (u.insertNew r).recordid = u.recordid + 1 := by
    unfold Upload.insertNew
    simp only
    have h1 := foldl_insertLabel_fields r.labels
      { u with lastResult := some r, records := u.records ++ [⟨u.id, u.recordid, (printResult [] r).1⟩] }
    have h2 := foldl_insertLabel_fields r.nameL (r.labels.foldl (fun u kv => u.insertLabel kv.1 kv.2)
      { u with lastResult := some r, records := u.records ++ [⟨u.id, u.recordid, (printResult [] r).1⟩] })
    exact ⟨h2.1.trans h1.1, by rw [h2.2.2, h1.2.2]⟩
  constructor
  · intro last hl hs
    unfold Upload.insertRecord
    simp [hl, hs]
  · rintro (hn | ⟨last, hl, hs⟩)
    · unfold Upload.insertRecord; rw [hn]; exact hnew
    · unfold Upload.insertRecord; simp only [hl, hs, Bool.false_eq_true, if_false]; exact hnew

open Storage.Fmt in
/-- `Labels.Equal` treats a missing key as the empty value: the name labels of `X/` and `X/a=`
compare equal, so the two lines are stored as one record (class of finding N8). -/
theorem sameLabels_counterexample :
    Labels.equal (parseNameLabels [88, 47]) (parseNameLabels [88, 47, 97, 61]) = true ∧
    parseNameLabels [88, 47] ≠ parseNameLabels [88, 47, 97, 61] := by decide +kernel

theorem filter_flatMap_length (db : DB) (keys : List RKey) (id : Bytes) :
    countFor (keys.flatMap fun k => (db.records.filter (·.rkey == k)).map (·.rkey)) id =
    ((keys.flatMap fun k => db.records.filter (·.rkey == k)).filter (·.upload == id)).length := by
  unfold countFor
  induction keys with
  | nil => simp
  | cons k ks ih =>
    simp only [List.flatMap_cons, List.filter_append, List.length_append, ih]
    congr 1
    rw [List.filter_map, List.length_map]
    rfl

/-- **listing_spec_partial**: for an accepted query the listing reports, for every upload, the
number of records the same query selects (`selectRecords`, characterised by `query_result_spec`)
that belong to the upload; uploads without such a record are left out; the rows are those of
`sortNewer` (insertion by `Day DESC, Seq DESC, UploadID DESC`) cut at a positive limit.
(Counting lemma; sortedness and permutation are added in `listing_spec` below.) -/
theorem listing_spec_partial (db : DB) (q : Bytes) (limit : Int) (rows : List (Bytes × Nat))
    (h : listUploads db q limit = .ok rows) :
    ∃ sqls, parseQuery q = .ok sqls ∧
      rows = (applyLimit limit (sortNewer ((db.uploads.map fun u =>
        (u, ((selectRecords db sqls).filter (·.upload == u.id)).length)).filter (·.2 > 0)))).map
          fun p => (p.1.id, p.2) := by
  unfold listUploads at h
  cases hp : parseQuery q with
  | error e => simp only [hp, bind, Except.bind] at h; cases h
  | ok sqls =>
    refine ⟨sqls, rfl, ?_⟩
    simp only [hp, bind, Except.bind, pure, Except.pure, Except.ok.injEq] at h
    subst h
    cases sqls with
    | nil => rfl
    | cons s rest =>
      have hm : (db.uploads.map fun u => (u, countFor ((joinAll db (s :: rest)).flatMap fun k =>
            (db.records.filter (·.rkey == k)).map (·.rkey)) u.id)) =
          (db.uploads.map fun u => (u, (((joinAll db (s :: rest)).flatMap fun k =>
            db.records.filter (·.rkey == k)).filter (·.upload == u.id)).length)) := by
        apply List.map_congr_left
        intro u _
        rw [filter_flatMap_length]
      simp only [selectRecords]
      rw [hm]


/-! ### full-strength statements (second round) -/

open Storage.Fmt in
/-- **printer_reader_roundtrip** (whole streams): for every sequence of results whose labels are a
sorted map with Reader-acceptable keys and values that are non-empty, do not start with a blank or
tab, hold no line feed and do not end in CR (the complement of N7's class), and whose content lines
are benchmark lines without line feed or trailing CR: what one Printer writes for the sequence, a
fresh Reader reads back as the same sequence of (labels, content line) — in any order of the
results, with any label histories (keys added, changed, removed between results).
(Name labels are a function of the content line; line numbers are not preserved.) -/
theorem printer_reader_roundtrip (rs : List Result) (hr : ∀ r ∈ rs, CleanResult r) :
    (readAll (printAll [] rs)).map (fun r => (r.labels, r.content)) =
      rs.map (fun r => (r.labels, r.content)) := by
  unfold readAll Reader.all
  rw [scan_printAll rs hr]
  exact read_all_lines rs [] {} _ ⟨by simp [StrictSorted], by simp, by simp⟩ hr rfl rfl
    (Nat.lt_succ_of_le (allLines_length rs []))

open Storage.Fmt in
/-- a non-trivial clean result: labels `k=v`, `pkg=a b`, line `BenchmarkF/x-4 1 2 ns/op` -/
def sampleResult : Result :=
  { labels := [([107], [118]), ([112, 107, 103], [97, 32, 98])], nameLabels := none, lineNum := 0,
    content := [66, 101, 110, 99, 104, 109, 97, 114, 107, 70, 47, 120, 45, 52, 32, 49, 32, 50, 32, 110, 115, 47, 111, 112] }

open Storage.Fmt in
example : CleanResult sampleResult := by
  refine ⟨⟨by simp [StrictSorted, sampleResult, blt], ?_, ?_⟩, ⟨[70, 47, 120, 45, 52], by decide +kernel⟩, by decide +kernel, by decide +kernel⟩
  · intro kv hkv
    simp only [sampleResult, List.mem_cons, List.not_mem_nil, or_false] at hkv
    rcases hkv with rfl | rfl
    · exact ⟨⟨107, [], rfl, by decide⟩, by decide⟩
    · exact ⟨⟨112, [107, 103], rfl, by decide⟩, by decide⟩
  · intro kv hkv
    simp only [sampleResult, List.mem_cons, List.not_mem_nil, or_false] at hkv
    rcases hkv with rfl | rfl
    · exact ⟨⟨118, [], rfl, by decide⟩, by decide, by decide⟩
    · exact ⟨⟨97, [32, 98], rfl, by decide⟩, by decide, by decide⟩

open Storage.Fmt in
/-- **stored_record_roundtrip**: the content `InsertRecord` stores for a run of results (first one
printed by a fresh Printer, bare lines after it) is decoded by `db.Query`'s fresh Reader into one
result per line, each with the labels of the first result and its own line -/
theorem stored_record_roundtrip (h : Result) (t : List Result) (hh : CleanResult h)
    (ht : ∀ r ∈ t, CleanLine r.content) :
    (readAll (groupContent (h :: t))).map (fun r => (r.labels, r.content)) =
      (h :: t).map fun r => (h.labels, r.content) := by
  have := read_stored h (t.map (·.content)) hh (by
    intro x hx
    obtain ⟨r, hr, rfl⟩ := List.mem_map.mp hx
    exact ht r hr)
  simp only [groupContent, List.map_cons]
  rw [List.flatMap_map] at this
  rw [this]
  simp [List.map_map]

open Storage.Fmt in
/-- **coalesce_spec** (records = runs, between flushes): from a state whose open record does not
take the first result, and while the label queue stays below the 990-argument threshold, inserting
`rs` stores exactly one record per run — a run being a result followed by the results that
`SameLabels` it — with consecutive record ids, each record holding the first result printed with all
its labels and then the bare lines of the rest of the run. -/
theorem coalesce_spec (rs : List Result) (u : Upload)
    (hhead : ∀ l r, u.lastResult = some l → rs.head? = some r → l.sameLabels r = false)
    (hargs : u.labelArgs + 4 * headLabels (runs rs.length rs) ≤ 990) :
    (rs.foldl Upload.insertRecord u).records = u.records ++ rowsOf u.id u.recordid (runs rs.length rs) ∧
    (rs.foldl Upload.insertRecord u).recordid = u.recordid + (runs rs.length rs).length :=
  let h := insert_runs rs.length rs (Nat.le_refl _) u hhead hargs
  ⟨h.1, h.2.1⟩

open Storage.Fmt in
/-- **flush_boundary** (what happens at a flush, the boundary of finding N9): when the queue reaches
990 arguments while the labels of a new record `h` are queued, the record itself is stored as usual
but the coalescing state is forgotten; the next result starts a new record even if it has the very
same labels. Together with `coalesce_spec` (which applies again from the state after the flush, whose
`lastResult` is `none`): the stored records are the runs of the result sequence split after every
result whose insertion flushed. -/
theorem flush_boundary (u : Upload) (h r : Result) (hn : nLabels h ≠ 0)
    (hf : u.labelArgs + 4 * (nLabels h - 1) ≥ 990) :
    (u.insertNew h).lastResult = none ∧
    (u.insertNew h).records = u.records ++ [⟨u.id, u.recordid, (printResult [] h).1⟩] ∧
    ((u.insertNew h).insertRecord r).records =
      u.records ++ [⟨u.id, u.recordid, (printResult [] h).1⟩, ⟨u.id, u.recordid + 1, (printResult [] r).1⟩] := by
  have hl := insertNew_flush u h hn hf
  obtain ⟨hid, hrid, hrec, _⟩ := insertNew_spec u h
  refine ⟨hl, hrec, ?_⟩
  have := (coalesce_spec_partial (u.insertNew h) r).2 (Or.inl hl)
  rw [this.1, hrec, hid, hrid]
  simp

open Storage.Fmt in
/-- without a flush the same second result would have been appended to the record of `h` -/
theorem no_flush_coalesces (u : Upload) (h r : Result) (hs : h.sameLabels r = true)
    (hnf : u.labelArgs + 4 * nLabels h ≤ 990) :
    ((u.insertNew h).insertRecord r).records =
      u.records ++ [⟨u.id, u.recordid, (printResult [] h).1 ++ (r.content ++ [nl])⟩] := by
  have hl := (insertNew_noflush u h hnf).1
  obtain ⟨_, _, hrec, _⟩ := insertNew_spec u h
  have := (coalesce_spec_partial (u.insertNew h) r).1 h hl hs
  rw [this.1, hrec, appendToLast_snoc]

/-- **listing_spec**: for an accepted query the listing is `full` cut at a positive limit, where
`full` (i) is a permutation of the uploads that own at least one record the query selects, each
with the number of such records (`selectRecords`, characterised by `query_result_spec`), and
(ii) is sorted newest first: no later row has a greater (Day, Seq, UploadID) — Day and UploadID
compared bytewise, Seq numerically — than an earlier one. -/
theorem listing_spec (db : DB) (q : Bytes) (limit : Int) (rows : List (Bytes × Nat))
    (h : listUploads db q limit = .ok rows) :
    ∃ sqls full, parseQuery q = .ok sqls ∧
      full.Perm ((db.uploads.map fun u =>
        (u, ((selectRecords db sqls).filter (·.upload == u.id)).length)).filter (·.2 > 0)) ∧
      SortedNewer full ∧
      rows = (if limit > 0 then full.take limit.toNat else full).map fun p => (p.1.id, p.2) := by
  obtain ⟨sqls, hp, hrows⟩ := listing_spec_partial db q limit rows h
  exact ⟨sqls, _, hp, sortNewer_perm _, sortNewer_sorted _, hrows⟩

/-- with distinct upload ids the order is strict: of two different listed uploads exactly one is
newer, so `SortedNewer` fixes the order completely -/
theorem listing_order_total (a b : UploadRow) (hid : a.id ≠ b.id) :
    (newer a b = true ∧ newer b a = false) ∨ (newer b a = true ∧ newer a b = false) := by
  rcases newer_total a b hid with h | h
  · exact Or.inl ⟨h, newer_asymm _ _ h⟩
  · exact Or.inr ⟨h, newer_asymm _ _ h⟩

open Storage.Fmt in
/-- **wf_preserved**: `processUpload` (successful or not) maps a state satisfying the invariant
(`WF`, distinct upload ids, every record owned by a registered upload) to such a state -/
theorem wf_preserved (db : DB) (h : Inv db) (day user : Bytes) (files : List FileIn) :
    Inv (processUpload db day user files).1 :=
  processUpload_inv db h day user files

open Storage.Fmt in
/-- every state reachable from the empty database by upload requests satisfies `WF`, so
`query_result_spec` (given `NoEmptyValues`) and `listing_spec` apply to it -/
theorem reachable_wf (reqs : List (Bytes × Bytes × List FileIn)) :
    WF (reqs.foldl (fun db q => (processUpload db q.1 q.2.1 q.2.2).1) {}) := by
  suffices h : ∀ db, Inv db → Inv (reqs.foldl (fun db q => (processUpload db q.1 q.2.1 q.2.2).1) db) from
    (h {} inv_empty).wf
  induction reqs with
  | nil => intro db h; exact h
  | cons q qs ih => intro db h; exact ih _ (processUpload_inv db h q.1 q.2.1 q.2.2)


open Storage.Fmt Storage.Lex in
/-- **lex_ascii_is_model**: the correspondence driver runs the `Lex`-parameterised copy of the
model with Go's Unicode classification (`Lex.unicode uc`, the table dumped from the toolchain);
instantiated with the ASCII primitives that copy IS the model of the theorems above — for uploads,
`db.Query`, `Client.Query` and the listing alike. -/
theorem lex_ascii_is_model (db : DB) (q : Bytes) :
    (∀ day user files, processUploadL Lex.ascii db day user files = processUpload db day user files) ∧
    dbQueryL Lex.ascii db q = dbQuery db q ∧
    clientQueryL Lex.ascii db q = clientQuery db q ∧
    queryRecordsL Lex.ascii db q = queryRecords db q ∧
    (∀ limit, listUploadsL Lex.ascii db q limit = listUploads db q limit) :=
  ⟨processUploadL_ascii db, dbQueryL_ascii db q, clientQueryL_ascii db q, queryRecordsL_ascii db q,
   listUploadsL_ascii db q⟩


/-! ### end to end: what is indexed is what comes back -/

open Storage.Fmt in
/-- database states reachable from the empty database by upload requests whose files read (by the
server's Reader, with the server's labels added) into clean results — i.e. outside the class of
finding N7 -/
inductive Reach : DB → Prop
  | empty : Reach {}
  | upload (db : DB) (day user : Bytes) (files : List FileIn) : Reach db →
      UploadP CleanResult (day ++ [46] ++ natToDec (nextSeq db day)) user files →
      Reach (processUpload db day user files).1

open Storage.Fmt in
theorem reach_inv (db : DB) (h : Reach db) : Inv db ∧ DBStands CleanResult db := by
  induction h with
  | empty => exact ⟨inv_empty, by intro rec hrec; cases hrec⟩
  | upload db day user files _ hP ih =>
    exact ⟨processUpload_inv db ih.1 day user files,
      processUpload_stands CleanResult db ih.1 ih.2 day user files hP⟩

open Storage.Fmt in
/-- **stored_results_come_back**: in every reachable state, every stored record stands for a run
`hd :: t` of uploaded results: its rows in the label index are exactly the labels (file, server and
name-derived) of `hd`, and its content reads back as one result per line of the run, each with its
original line and with the labels of `hd` intact. -/
theorem stored_results_come_back (db : DB) (h : Reach db) (rec : RecordRow) (hrec : rec ∈ db.records) :
    ∃ hd t, CleanResult hd ∧ (∀ r ∈ t, CleanResult r ∧ hd.sameLabels r = true) ∧
      db.labels.filter (fun l => l.rkey == rec.rkey) = rowsFor rec.upload rec.rid hd ∧
      (readAll rec.content).map (fun r => (r.labels, r.content)) =
        (hd :: t).map fun r => (hd.labels, r.content) := by
  obtain ⟨hd, t, a, b, c, d⟩ := (reach_inv db h).2 rec hrec
  refine ⟨hd, t, a, b, d, ?_⟩
  rw [c]
  exact stored_record_roundtrip hd t a (fun r hr => ⟨(b r hr).1.bench, (b r hr).1.noNl, (b r hr).1.noCr⟩)

open Storage.Fmt in
/-- **db_query_spec**: `db.Query` on a reachable state without empty label values returns the
results of exactly the stored records whose indexed labels satisfy every term of the query, each
record once, every result with its line and labels intact. -/
theorem db_query_spec (db : DB) (hreach : Reach db) (hne : NoEmptyValues db) (q : Bytes)
    (rs : List Result) (h : dbQuery db q = .ok rs) :
    ∃ recs : List RecordRow, recs.Nodup ∧
      (∀ r, r ∈ recs ↔ (r ∈ db.records ∧
        ∀ w ∈ splitWords q, ∃ p, parseWord w = .ok p ∧ termSat (labelRel db r.rkey) p)) ∧
      rs = recs.flatMap (fun r => readAll r.content) ∧
      ∀ rec ∈ recs, ∃ hd t, CleanResult hd ∧ (∀ r ∈ t, CleanResult r ∧ hd.sameLabels r = true) ∧
        db.labels.filter (fun l => l.rkey == rec.rkey) = rowsFor rec.upload rec.rid hd ∧
        (readAll rec.content).map (fun r => (r.labels, r.content)) =
          (hd :: t).map fun r => (hd.labels, r.content) := by
  unfold dbQuery at h
  cases hq : queryRecords db q with
  | error e => simp only [hq, bind, Except.bind] at h; cases h
  | ok recs =>
    simp only [hq, bind, Except.bind, pure, Except.pure, Except.ok.injEq] at h
    have hspec := query_result_spec db (reach_inv db hreach).1.wf hne q recs hq
    refine ⟨recs, hspec.1, hspec.2, h.symm, ?_⟩
    intro rec hrec
    exact stored_results_come_back db hreach rec ((hspec.2 rec).mp hrec).1

open Storage.Fmt in
/-- **client_query_spec**: what `db.Query` yields passes through the server's Printer and the
client's Reader unchanged: `Client.Query` returns the same sequence of (labels, line). -/
theorem client_query_spec (db : DB) (hreach : Reach db) (q : Bytes) (rs : List Result)
    (h : dbQuery db q = .ok rs) :
    ∃ cs, clientQuery db q = .ok cs ∧
      cs.map (fun r => (r.labels, r.content)) = rs.map (fun r => (r.labels, r.content)) := by
  have hclean : ∀ r ∈ rs, CleanResult r := by
    unfold dbQuery at h
    cases hq : queryRecords db q with
    | error e => simp only [hq, bind, Except.bind] at h; cases h
    | ok recs =>
      simp only [hq, bind, Except.bind, pure, Except.pure, Except.ok.injEq] at h
      subst h
      intro r hr
      obtain ⟨rec, hrec, hrr⟩ := List.mem_flatMap.mp hr
      -- the selected records are stored records
      have hsub : rec ∈ db.records := by
        unfold queryRecords at hq
        cases hp : parseQuery q with
        | error e => simp only [hp, bind, Except.bind] at hq; cases hq
        | ok sqls =>
          simp only [hp, bind, Except.bind, pure, Except.pure, Except.ok.injEq] at hq
          subst hq
          exact (((selectRecords_spec db (reach_inv db hreach).1.wf sqls).2 rec).mp hrec).1
      obtain ⟨hd, t, a, b, _, e⟩ := stored_results_come_back db hreach rec hsub
      have hm : (r.labels, r.content) ∈ (hd :: t).map fun x => (hd.labels, x.content) := by
        rw [← e]; exact List.mem_map.mpr ⟨r, hrr, rfl⟩
      obtain ⟨x, hx, hxe⟩ := List.mem_map.mp hm
      simp only [Prod.mk.injEq] at hxe
      have hcx : CleanResult x := by
        rcases List.mem_cons.mp hx with rfl | hx
        · exact a
        · exact (b x hx).1
      exact ⟨hxe.1 ▸ a.labels, hxe.2 ▸ hcx.bench, hxe.2 ▸ hcx.noNl, hxe.2 ▸ hcx.noCr⟩
  refine ⟨readAll (printAll [] rs), ?_, printer_reader_roundtrip rs hclean⟩
  unfold clientQuery
  simp only [h, bind, Except.bind, pure, Except.pure]


open Storage.Fmt in
/-- the complement of finding N7 at the level of inputs: the labels the server adds (upload id,
part, time, file name, user) are good values, and no line of a file still ends in CR once its line
terminator is removed (no `CR CR LF`) -/
def CleanUpload (id user : Bytes) (files : List FileIn) : Prop :=
  ∀ (i : Nat) (f : FileIn), f ∈ files →
    GoodLabels (metaLabels id i user f.name) ∧ ∀ line ∈ scanLines f.content, line.getLast? ≠ some cr

open Storage.Fmt in
/-- **clean_upload_reads_clean**: such an upload is read by the server into clean results — arbitrary
file contents otherwise (any keys, values, junk lines, label histories) -/
theorem clean_upload_reads_clean (id user : Bytes) (files : List FileIn)
    (h : CleanUpload id user files) : UploadP CleanResult id user files :=
  fun i f hf => reader_results_clean _ _ (h i f hf).1 (h i f hf).2

open Storage.Fmt in
/-- so every sequence of clean uploads leads to a state to which `stored_results_come_back`,
`db_query_spec` and `client_query_spec` apply -/
theorem reach_of_clean_uploads (reqs : List (Bytes × Bytes × List FileIn))
    (h : ∀ (db : DB) (q : Bytes × Bytes × List FileIn), q ∈ reqs →
      CleanUpload (q.1 ++ [46] ++ natToDec (nextSeq db q.1)) q.2.1 q.2.2) :
    Reach (reqs.foldl (fun db q => (processUpload db q.1 q.2.1 q.2.2).1) {}) := by
  suffices hs : ∀ db, Reach db → Reach (reqs.foldl (fun db q => (processUpload db q.1 q.2.1 q.2.2).1) db) from
    hs {} Reach.empty
  induction reqs with
  | nil => intro db hdb; exact hdb
  | cons q qs ih =>
    intro db hdb
    simp only [List.foldl_cons]
    exact ih (fun db' q' hq' => h db' q' (by simp [hq'])) _
      (Reach.upload db q.1 q.2.1 q.2.2 hdb (clean_upload_reads_clean _ _ _ (h db q (by simp))))


/-! ### the front end's chain addToQuery → parseQueryString → SplitWords -/

open Analysis.Parse in
/-- **front_end_chain**: a non-empty word (other than the bare separators `|` and `vs`) added by the
query builder to a query without `|` reaches the storage server intact: `parseQueryString` takes the
quoted word as the prefix (its splitting points are outside the quoted region, whatever quotes,
backslashes, blanks, tabs, `|` or `vs` the value holds), every storage query sent is a group of the
old query preceded by it, and `SplitWords` on the server gives back exactly the original word followed
by the words of that group. -/
theorem front_end_chain (q add : Bytes) (ha : add ≠ []) (h1 : add ≠ wBar) (h2 : add ≠ wVs)
    (hq : ∀ c ∈ q, c ≠ cBar) :
    (sentQueries (addToQuery q add)).map splitWords =
      (parseQueryString q).2.map fun g => add :: splitWords g := by
  rw [sent_addToQuery q add ha h1 h2 hq, List.map_map]
  apply List.map_congr_left
  intro g _
  exact splitWords_quote_cons add g ha


open Analysis.Parse in
/-- the state in which the old query's parts are processed once the builder's word has been read:
the word is the prefix if the old query has no `|` byte (addToQuery then inserts ` | `), otherwise
it is the first part of whatever the old query starts with -/
def startState (q add : Bytes) : PSt :=
  if q.any (· == cBar) then { parts := [quote add] } else { prefP := [quote add] }

open Analysis.Parse in
/-- **front_end_chain_general** (no hypothesis on the old query): for a non-empty word other than the
bare `|` / `vs`, what the storage server receives for `addToQuery q add` — every storage query split
into words by `SplitWords` — is obtained from the PARTS parseQueryString cuts: the quoted word is
exactly one part (`tok_addToQuery`: the splitting points are outside the quoted region), the old
query's parts follow and are processed by the `|` / `vs` bookkeeping from `startState`; the words of a
storage query are the words of its parts one after the other, and the part `quote add` contributes
exactly the word `add` (`splitwords_quote`). -/
theorem front_end_chain_general (q add : Bytes) (ha : add ≠ []) (h1 : add ≠ wBar) (h2 : add ≠ wVs) :
    (sentQueries (addToQuery q add)).map splitWords =
      (sentParts (startState q add) (tokGo false [] q).1 (tokGo false [] q).2).map
        (fun g => g.flatMap splitWords) ∧
    splitWords (quote add) = [add] := by
  refine ⟨?_, splitWords_quote_end add ha⟩
  rw [sent_addToQuery_general q add ha h1 h2]
  apply sent_words _ _ _ ?_ (parts_closed q)
  split
  · exact ⟨by simp, by intro t ht; simp only [List.mem_singleton] at ht; subst ht; exact closed_quote add ha,
      by simp⟩
  · exact ⟨by intro t ht; simp only [List.mem_singleton] at ht; subst ht; exact closed_quote add ha,
      by simp, by simp⟩

open Analysis.Parse in
/-- **added_word_lands**: whatever the old query is, if anything is sent then the first storage query
contains the part `quote add` (hence, by `front_end_chain_general`, the word `add` intact). When the
old query has no `|`, or its first separator is `|`, the word is in the prefix and therefore in every
storage query; when a `vs` comes before the first `|` of the old query, the word stays in the first
`vs` group only — the other groups are sent without it (that is what the code does; the clause "split
back into exactly the original word" holds wherever the word is sent). -/
theorem added_word_lands (q add : Bytes) (ha : add ≠ []) :
    ∀ g, (sentParts (startState q add) (tokGo false [] q).1 (tokGo false [] q).2).head? = some g →
      quote add ∈ g := by
  apply sentParts_lands (quote add) (quote_ne_nil add ha)
  unfold startState
  split
  · exact .inParts rfl (by simp)
  · exact .inPrefix (by simp)


/-! ### name-derived labels of every line of a stored record -/

open Storage.Fmt in
theorem reach_stands_names (db : DB) (h : Reach db) :
    DBStands (fun r => CleanResult r ∧ NameOK r) db := by
  induction h with
  | empty => intro rec hrec; cases hrec
  | upload db day user files hr hP ih =>
    refine processUpload_stands _ db (reach_inv db hr).1 ih day user files ?_
    intro i f hf r hrm
    exact ⟨hP i f hf r hrm, reader_names (some _) f.content r hrm⟩

open Storage.Fmt in
/-- **name_labels_come_back** (gap (i) of the notes): in a reachable state without empty label values,
for a stored record standing for the run `hd :: t` whose index rows are the labels of `hd`: every
result read back from the record — the first line and the coalesced ones alike — carries exactly the
name-derived labels that are indexed for the record (`hd.nameL`), as long as `hd` has name labels at
all (an empty benchmark name met first by the Reader has none: the one-entry cache). -/
theorem name_labels_come_back (db : DB) (h : Reach db) (hne : NoEmptyValues db)
    (rec : RecordRow) (hrec : rec ∈ db.records) :
    ∃ hd t, db.labels.filter (fun l => l.rkey == rec.rkey) = rowsFor rec.upload rec.rid hd ∧
      (readAll rec.content).map (fun r => (r.labels, r.content)) =
        (hd :: t).map (fun r => (hd.labels, r.content)) ∧
      (hd.nameL ≠ [] → ∀ x ∈ readAll rec.content, x.nameL = hd.nameL) := by
  obtain ⟨hd, t, ⟨hcl, hnm⟩, ht, hcont, hrows⟩ := reach_stands_names db h rec hrec
  have hround : (readAll rec.content).map (fun r => (r.labels, r.content)) =
      (hd :: t).map (fun r => (hd.labels, r.content)) := by
    rw [hcont]
    exact stored_record_roundtrip hd t hcl
      (fun r hr => ⟨(ht r hr).1.1.bench, (ht r hr).1.1.noNl, (ht r hr).1.1.noCr⟩)
  refine ⟨hd, t, hrows, hround, ?_⟩
  intro hnonempty x hx
  -- the indexed name labels hold no empty value
  have hvals : ∀ kv ∈ hd.nameL, kv.2 ≠ [] := by
    intro kv hkv
    have : (⟨rec.upload, rec.rid, kv.1, kv.2⟩ : LabelRow) ∈ db.labels.filter (fun l => l.rkey == rec.rkey) := by
      rw [hrows]
      exact List.mem_map.mpr ⟨kv, List.mem_append_right _ hkv, rfl⟩
    exact hne _ (List.mem_filter.mp this).1
  -- name labels of a result, from `NameOK`
  have nameL_of : ∀ r : Result, NameOK r → ∃ n, parseBenchmarkLine r.content = some n ∧
      ((r.nameL = parseNameLabels n) ∨ (n = [] ∧ r.nameL = [])) := by
    intro r ⟨n, hb, hor⟩
    refine ⟨n, hb, ?_⟩
    rcases hor with h1 | ⟨h1, h2⟩
    · exact Or.inl (by simp [Result.nameL, h1])
    · exact Or.inr ⟨h1, by simp [Result.nameL, h2]⟩
  have sortedL : ∀ r : Result, NameOK r → StrictSorted r.nameL := by
    intro r hr
    obtain ⟨n, _, h1 | ⟨_, h2⟩⟩ := nameL_of r hr
    · rw [h1]; exact (parseNameLabels_ok n).1
    · rw [h2]; simp [StrictSorted]
  -- the line of x is the line of some result of the run
  have hm : (x.labels, x.content) ∈ (hd :: t).map (fun r => (hd.labels, r.content)) := by
    rw [← hround]; exact List.mem_map.mpr ⟨x, hx, rfl⟩
  obtain ⟨r, hr, hre⟩ := List.mem_map.mp hm
  simp only [Prod.mk.injEq] at hre
  have hrn : NameOK r ∧ r.nameL = hd.nameL := by
    rcases List.mem_cons.mp hr with rfl | hr
    · exact ⟨hnm, rfl⟩
    · have hs := (ht r hr).2
      unfold Result.sameLabels at hs
      simp only [Bool.and_eq_true] at hs
      exact ⟨(ht r hr).1.2, (equal_eq hd.nameL r.nameL (sortedL hd hnm) (sortedL r (ht r hr).1.2) hvals hs.2).symm⟩
  have hxn : NameOK x := reader_names none rec.content x hx
  obtain ⟨n, hbn, hrl⟩ := nameL_of r hrn.1
  obtain ⟨n', hbn', hxl⟩ := nameL_of x hxn
  have hnn : n' = n := by rw [hre.2] at hbn; rw [hbn] at hbn'; cases hbn'; rfl
  subst hnn
  have hparse : hd.nameL = parseNameLabels n' := by
    rcases hrl with h1 | ⟨_, h2⟩
    · rw [← hrn.2, h1]
    · exact absurd (hrn.2 ▸ h2) hnonempty
  rcases hxl with h1 | ⟨h1, _⟩
  · rw [h1, hparse]
  · exfalso
    subst h1
    rw [parseNameLabels_nil] at hparse
    exact hvals (Bytes.ofString "name", []) (by rw [hparse]; simp) rfl

end C19
