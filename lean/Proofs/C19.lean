import Model.Storage.Query
import Model.Storage.Fmt
import Model.Analysis.Quote
import Model.Spec.Storage

namespace C19
theorem placeholder : True := trivial
end C19
