/-
C05 composed with C02's slot store: what a plain-key extractor returns after ANY history of
`key: value` lines, `SetConfig` calls and deletions (property theorems only; helpers in
`Proofs/Lemmas/C05Store.lean`).
-/
import Proofs.C05
import Proofs.C02
import Proofs.Lemmas.C05Store

namespace C05
open Bytes Fmt Spec.Format Proc.Extract Proc.CfgHist

/-- **config_key_after_history** — start from a fresh `Result`; apply any sequence of file
configuration lines (`key: value`, `key:`), `SetConfig` calls and deletions. A plain key then
extracts exactly the value the same operations leave in an abstract finite map (empty when the
key is absent): stale slots, slot reuse and the lazily built index have no influence. -/
theorem config_key_after_history (name key : Bytes) (ops : List StoreOp)
    (hne : key ≠ []) (hs : key.head? ≠ some Fmt.Name.slash)
    (h1 : key ≠ dotConfig) (h2 : key ≠ dotUnit) (h3 : key ≠ dotName) (h4 : key ≠ dotFullname) :
    extract key (viewOf name (ops.foldl Store.apply Store.empty))
      = .ok ((((ops.foldl CMap.applyOp []).get key).map (·.1)).getD []) := by
  have hk := config_key key (viewOf name (ops.foldl Store.apply Store.empty)) hne hs h1 h2 h3 h4
  rw [hk]
  have hv := extractConfig_view name (ops.foldl Store.apply Store.empty) key
  unfold extractConfig at hv
  refine congrArg _ (hv.trans ?_)
  rw [(C02.store_refines_map_from_empty ops).2 key]

/-- **config_key_indexed** — the lookup Go actually performs (`ConfigIndex` through the position
index, then `Config[pos].Value`) agrees with the scan over `Config` in every state reachable from
a fresh `Result`, so the extractor may be modelled by either. -/
theorem config_key_indexed (name key : Bytes) (ops : List StoreOp) :
    extractConfigIndexed (ops.foldl Store.apply Store.empty) key
      = extractConfig (viewOf name (ops.foldl Store.apply Store.empty)) key :=
  extractConfigIndexed_eq name _ (C02.store_refines_map_from_empty ops).1 key

/-- **config_after_api_history** — configuration built through the API. Take ANY history of
`SetConfig` calls (an empty value deletes) on the current result, `Clone` calls (the clone becomes
current) and returns to the previously current result. For EVERY result ever created in that
history — originals edited after being cloned and clones edited afterwards alike — a plain key
extracts exactly what the same history leaves in a finite map per result: results do not share
state, and slot reuse, swap-deletion and the lazily rebuilt index of a clone are invisible. The
lookup is the one Go performs (`ConfigIndex`, then `Config[pos].Value`). -/
theorem config_after_api_history (ops : List HOp) :
    (ops.foldl stepStore initStore).all.length = (ops.foldl stepMap initMap).all.length ∧
    ∀ i k, lookupStore ((ops.foldl stepStore initStore).all.getD i Store.empty) k
         = lookupMap ((ops.foldl stepMap initMap).all.getD i []) k := by
  have h := hist_rel ops
  refine ⟨h.len, fun i k => ?_⟩
  have hr := (h.all i).2 k
  unfold lookupStore lookupMap
  unfold Store.toMap at hr
  cases hs : ((ops.foldl stepStore initStore).all.getD i Store.empty).get k <;>
    cases hm : ((ops.foldl stepMap initMap).all.getD i []).get k <;> simp_all
  rw [← hr]

/-- … and the extractor for a plain key (`extract`, C05's model of `newExtractor`) returns that
value on every result of the history. -/
theorem config_key_after_api_history (name key : Bytes) (ops : List HOp) (i : Nat)
    (hne : key ≠ []) (hs : key.head? ≠ some Fmt.Name.slash)
    (h1 : key ≠ dotConfig) (h2 : key ≠ dotUnit) (h3 : key ≠ dotName) (h4 : key ≠ dotFullname) :
    extract key (viewOf name ((ops.foldl stepStore initStore).all.getD i Store.empty))
      = .ok (lookupMap ((ops.foldl stepMap initMap).all.getD i []) key) := by
  have hk := config_key key (viewOf name ((ops.foldl stepStore initStore).all.getD i Store.empty)) hne hs h1 h2 h3 h4
  rw [hk]
  have hinv := ((hist_rel ops).all i).1
  have hv := extractConfigIndexed_eq name _ hinv key
  unfold extractConfig at hv
  refine congrArg _ (hv.symm.trans ?_)
  exact (config_after_api_history ops).2 i key

/-- non-vacuity: set k on the original, clone, overwrite k in the clone, go back and delete k in
the original: the original has no k, the clone has the new value -/
example : ([HOp.set [107] [49], .clone, .set [107] [50], .back, .set [107] []].foldl stepStore initStore).all.map
    (lookupStore · [107]) = [[], [50]] := by rfl

/-- non-vacuity: set k, set a, overwrite k, delete a — k extracts the last value, a nothing -/
example : extract [107] (viewOf [70] ([StoreOp.setFile [107] [49], .setInternal [97] [50],
    .setFile [107] [51], .delete [97]].foldl Store.apply Store.empty)) = .ok [51] := by rfl
example : extract [97] (viewOf [70] ([StoreOp.setFile [107] [49], .setInternal [97] [50],
    .setFile [107] [51], .delete [97]].foldl Store.apply Store.empty)) = .ok [] := by rfl

end C05
