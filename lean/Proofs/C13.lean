/-
C13 — summaries and comparisons honour their statistical contracts (benchmath).
Property theorems only; helper lemmas are in Proofs/Lemmas/C13*.lean.
-/
import Model.Math.Sample
import Model.Math.Exact
import Model.Math.Nothing
import Model.Math.Normal
import Model.Math.Render
import Model.Spec.MathSpec

namespace C13
open Math

/-! ## the significance threshold is carried -/

/-- **alpha_carried** — both models that perform a test return the threshold the FIRST sample was
created with, whatever the external test reports (error or p-value). -/
theorem alpha_carried {α : Type} (s1 s2 : Sample α) :
    (∀ u, (Nothing.compare s1 s2 u).alpha = s1.thresholds.compareAlpha) ∧
    (∀ w, (Normal.compare s1 s2 w).alpha = s1.thresholds.compareAlpha) := by
  constructor
  · intro u
    unfold Nothing.compare
    cases u.differs <;> rfl
  · intro w
    unfold Normal.compare
    cases w <;> rfl

/-! ## rendering -/

theorem append_pct_ne_tilde (s : String) : s ++ "%" ≠ "~" := by
  intro h
  have h1 := congrArg String.toList h
  have h2 := congrArg List.getLast? h1
  simp at h2

/-- **delta_shown_iff** — `FormatDelta` prints "~" exactly when `P > Alpha` in float64 (so a
difference is shown exactly when p does not exceed the threshold; a NaN p or threshold shows it). -/
theorem delta_shown_iff (c : Comparison) (old new : F64.Bits) :
    Render.formatDelta c old new ≠ "~" ↔ F64.lt c.alpha c.p = false := by
  unfold Render.formatDelta
  by_cases h : F64.lt c.alpha c.p = true
  · simp [h]
  · have h' : F64.lt c.alpha c.p = false := by simpa using h
    simp only [h', Bool.false_eq_true, if_false, iff_true]
    split
    · decide
    · split
      · decide
      · exact append_pct_ne_tilde _

/-- **format_delta_cases** — the documented table of `FormatDelta`, in order of precedence. -/
theorem format_delta_cases (c : Comparison) (old new : F64.Bits) :
    (F64.lt c.alpha c.p = true → Render.formatDelta c old new = "~") ∧
    (F64.lt c.alpha c.p = false → F64.eq old new = true → Render.formatDelta c old new = "0.00%") ∧
    (F64.lt c.alpha c.p = false → F64.eq old new = false → F64.eq old F64.posZero = true →
        Render.formatDelta c old new = "?") ∧
    (F64.lt c.alpha c.p = false → F64.eq old new = false → F64.eq old F64.posZero = false →
        Render.formatDelta c old new = Render.sprintfF true (Render.deltaValue old new) 2 ++ "%") := by
  unfold Render.formatDelta
  refine ⟨?_, ?_, ?_, ?_⟩ <;> intros <;> simp [*]

/-- **delta_value** — in the regular case the number printed is `((new/old) − 1)·100` evaluated
in float64 (division, subtraction, multiplication each correctly rounded), formatted by
strconv 'f' with two decimals and an explicit sign. -/
theorem delta_value (c : Comparison) (old new : F64.Bits)
    (hp : F64.lt c.alpha c.p = false) (hne : F64.eq old new = false) (h0 : F64.eq old F64.posZero = false)
    (hfin : F64.isInf (Render.deltaValue old new) = false) :
    Render.deltaValue old new = F64.mul (F64.sub (F64.div new old) F64.one) hundred ∧
    Render.formatDelta c old new =
      (if F64.signBit (Render.deltaValue old new) then "" else "+") ++
        F64.fmtFixed (Render.deltaValue old new) 2 ++ "%" := by
  refine ⟨rfl, ?_⟩
  rw [(format_delta_cases c old new).2.2.2 hp hne h0]
  unfold Render.sprintfF
  by_cases hs : F64.signBit (Render.deltaValue old new) = true <;> simp [hs, hfin]

/-- **pct_range_cases** — the documented table of `PctRangeString`, in order of precedence:
"∞" when an end is infinite; "?" when the signs of the ends differ from the centre's; "0%" when
the centre is 0; else 100·max(hi/c − 1, 1 − lo/c) with no decimals. -/
theorem pct_range_cases (s : FSummary) :
    ((F64.isInf s.lo || F64.isInf s.hi) = true → Render.pctRangeString s = "∞") ∧
    ((F64.isInf s.lo || F64.isInf s.hi) = false →
        (!F64.eq (Render.sign s.center) (Render.sign s.lo) || !F64.eq (Render.sign s.center) (Render.sign s.hi)) = true →
        Render.pctRangeString s = "?") ∧
    ((F64.isInf s.lo || F64.isInf s.hi) = false →
        (!F64.eq (Render.sign s.center) (Render.sign s.lo) || !F64.eq (Render.sign s.center) (Render.sign s.hi)) = false →
        F64.eq s.center F64.posZero = true → Render.pctRangeString s = "0%") ∧
    ((F64.isInf s.lo || F64.isInf s.hi) = false →
        (!F64.eq (Render.sign s.center) (Render.sign s.lo) || !F64.eq (Render.sign s.center) (Render.sign s.hi)) = false →
        F64.eq s.center F64.posZero = false →
        Render.pctRangeString s =
          Render.sprintfF false (F64.mul hundred (fmax (F64.sub (F64.div s.hi s.center) F64.one)
            (F64.sub F64.one (F64.div s.lo s.center)))) 0 ++ "%") := by
  unfold Render.pctRangeString Render.pctValue
  refine ⟨?_, ?_, ?_, ?_⟩ <;> intros <;> simp_all

/-- **comparison_string_cases** — "p=0.PPP " is omitted exactly when P == 0; sizes print as "n=N"
when equal and "n=N1+N2" otherwise. -/
theorem comparison_string_cases (c : Comparison) :
    Render.comparisonString c =
      (if F64.eq c.p F64.posZero then "" else "p=" ++ Render.sprintfF false c.p 3 ++ " ") ++
      (if c.n1 = c.n2 then "n=" ++ toString c.n1 else "n=" ++ toString c.n1 ++ "+" ++ toString c.n2) := by
  unfold Render.comparisonString
  have e : (" " ++ "n=" : String) = " n=" := by decide
  have sp : ∀ x : String, " n=" ++ x = " " ++ ("n=" ++ x) := fun x => by
    rw [← String.append_assoc, e]
  by_cases h : F64.eq c.p F64.posZero = true <;> by_cases h2 : c.n1 = c.n2 <;>
    simp [h, h2, String.append_assoc] <;> exact sp _

/-! ## the minimum-p table -/

/-- **utest_minp_table** — the model's copy of `uTestMinP[1..9]` (bit-compared with the table of
the Go code on every run) is 2/C(2n,n) correctly rounded to float64. -/
theorem utest_minp_table :
    Nothing.uTestMinP = (List.range 9).map fun k => Spec.MathSpec.minPF (k + 1) := by
  decide +kernel

end C13
