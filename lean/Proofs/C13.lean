/-
C13 — summaries and comparisons honour their statistical contracts (benchmath).
Property theorems only; helper lemmas are in Proofs/Lemmas/C13*.lean.
-/
import Model.Math.Sample
import Model.Math.Exact
import Model.Math.Nothing
import Model.Math.Normal
import Model.Math.Render
import Model.Spec.MathSpec
import Proofs.Lemmas.C13Exact
import Proofs.Lemmas.C13Nothing
import Proofs.Lemmas.C13Perm
import Proofs.Lemmas.C13F64Inst
import Proofs.Lemmas.C13Interp
import Proofs.Lemmas.C13Mid
import Proofs.Lemmas.C13Sort

namespace C13
open Math

/-! ## samples are sorted on construction -/

/-- **new_sample_sorted** — `NewSample` keeps exactly the given measurements (as a multiset), in
ascending order, and stores the thresholds. -/
theorem new_sample_sorted {α : Type} [LinearOrder α] [Val α] [LawfulVal α] (vals : List α) (t : Thresholds) :
    (newSample vals t).values.Pairwise (· ≤ ·) ∧ (newSample vals t).values.Perm vals ∧
    (newSample vals t).thresholds = t :=
  ⟨sortVals_pairwise vals, sortVals_perm vals, rfl⟩

/-! ## AssumeExact -/

/-- **exact_summary_spec** — on a sorted non-empty sample the exact model's centre is a most
frequent value, the smallest such; Lo and Hi are the minimum and the maximum; the confidence is
1; a warning is raised exactly when two values differ. -/
theorem exact_summary_spec {α : Type} [LinearOrder α] [Val α] [LawfulVal α] (s : Sample α)
    (hne : s.values ≠ []) (hs : s.values.Pairwise (· ≤ ·)) :
    ∃ r, Exact.summary s = some r ∧
      r.center ∈ s.values ∧
      (∀ x, s.values.count x ≤ s.values.count r.center) ∧
      (∀ x, s.values.count x = s.values.count r.center → r.center ≤ x) ∧
      (∃ lo ∈ s.values, r.lo = .fin lo ∧ ∀ x ∈ s.values, lo ≤ x) ∧
      (∃ hi ∈ s.values, r.hi = .fin hi ∧ ∀ x ∈ s.values, x ≤ hi) ∧
      r.confidence = F64.one ∧
      (r.warnings ≠ [] ↔ ∃ x ∈ s.values, ∃ y ∈ s.values, x ≠ y) := by
  obtain ⟨vals, t⟩ := s
  cases vals with
  | nil => exact absurd rfl hne
  | cons v0 rest =>
    simp only at hs
    have spec := modeScan_spec rest [v0] v0 1 v0 1 (by simpa using hs) (by simp) (by simp) (by simp) (by simp)
      (Nat.le_refl 1)
      (by intro x; simp only [List.count_cons, List.count_nil]; split <;> omega)
      (by
        intro x hx
        simp only [List.count_cons, List.count_nil] at hx
        split at hx
        · rename_i h; simp at h; exact le_of_eq h
        · omega)
    simp only [List.singleton_append] at spec
    obtain ⟨h1, h2, h3, h4⟩ := spec
    refine ⟨_, rfl, ?_, ?_, ?_, ?_, ?_, rfl, ?_⟩
    · apply List.count_pos_iff.mp; rw [← h1]; exact h2
    · intro x; rw [← h1]; exact h3 x
    · intro x hx; rw [← h1] at hx; exact h4 x hx
    · exact ⟨v0, by simp, rfl, by
        intro x hx
        rcases List.mem_cons.mp hx with h | h
        · exact le_of_eq h.symm
        · exact (List.pairwise_cons.mp hs).1 x h⟩
    · exact ⟨rest.getLastD v0, getLastD_mem rest v0, rfl, le_getLastD rest v0 hs⟩
    · simp only
      constructor
      · intro hw
        by_contra hall
        apply hw
        have heq : ∀ x ∈ v0 :: rest, x = v0 := by
          intro x hx
          by_contra hxv
          exact hall ⟨x, hx, v0, by simp, hxv⟩
        have hcnt : (v0 :: rest).count v0 = (v0 :: rest).length :=
          List.count_eq_length.mpr (fun x hx => (heq x hx).symm)
        have := h3 v0
        have hle : (Exact.modeScan v0 1 v0 1 rest).2 ≤ (v0 :: rest).length := by
          rw [h1]; exact List.count_le_length
        have : (Exact.modeScan v0 1 v0 1 rest).2 = (v0 :: rest).length := by omega
        simp [this]
      · rintro ⟨x, hx, y, hy, hxy⟩ hw
        have hlen : (Exact.modeScan v0 1 v0 1 rest).2 = (v0 :: rest).length := by
          by_contra hne'
          simp at hw
          exact hne' (by simpa using hw)
        rw [h1] at hlen
        have hall := List.count_eq_length.mp hlen
        exact hxy ((hall x hx).symm.trans (hall y hy))

/-! ## AssumeNothing -/

/-- **nothing_summary_spec** — for a sorted sample of 1..70 values in exact arithmetic and ANY
result (LoOrder, HiOrder, confidence) of the external `QuantileCI` whose band contains the
middle (LoOrder ≤ ⌈n/2⌉ and ⌊n/2⌋ + 1 ≤ HiOrder — for even n the upper end must reach the
upper middle value, which is what `QuantileCI` returns; ⌈n/2⌉ ≤ HiOrder alone is not enough):
the summary exists (no index panic), its centre is the sample median, Lo / Hi are values of the
sample or −∞ / +∞, Lo ≤ centre ≤ Hi, the reported confidence is the external one, and a warning
is present exactly when an end is infinite. -/
theorem nothing_summary_spec {K : Type} [Field K] [LinearOrder K] [IsStrictOrderedRing K] [Val K] [LawfulInterp K]
    (s : Sample K) (conf : F64.Bits) (ci : Nothing.QCI) (tab : List (Nat × Nat))
    (hs : s.values.Pairwise (· ≤ ·)) (h1 : 1 ≤ s.values.length) (h70 : s.values.length ≤ 70)
    (hlo : ci.loOrder ≤ (s.values.length + 1) / 2) (hhi : s.values.length / 2 + 1 ≤ ci.hiOrder) :
    ∃ r, Nothing.summary s conf ci tab = some r ∧
      r.center = medianSpec s.values ∧
      (r.lo = .negInf ∨ ∃ a ∈ s.values, r.lo = .fin a) ∧
      (r.hi = .posInf ∨ ∃ a ∈ s.values, r.hi = .fin a) ∧
      Ext.le r.lo (.fin r.center) ∧ Ext.le (.fin r.center) r.hi ∧
      r.confidence = ci.confidence ∧
      (r.warnings ≠ [] ↔ (r.lo = .negInf ∨ r.hi = .posInf)) := by
  obtain ⟨xs, t⟩ := s
  simp only at hs h1 h70 hlo hhi
  have hmb := median_bounds xs hs h1
  unfold Nothing.summary Nothing.sampleCI
  simp only [quantileHalf_eq xs h1 h70]
  have hhi0 : (ci.hiOrder == 0) = false := by simp; omega
  simp only [hhi0]
  by_cases hl : ci.loOrder < 1
  · by_cases hh : ci.hiOrder - 1 ≥ xs.length
    · simp only [hl, hh, if_true]
      refine ⟨_, rfl, rfl, Or.inl rfl, Or.inl rfl, trivial, trivial, rfl, ?_⟩
      simp [Ext.isInf]
    · have hlt : ci.hiOrder - 1 < xs.length := by omega
      simp only [hl, hh, if_true, if_false, List.getElem?_eq_getElem hlt, Option.map_some]
      refine ⟨_, rfl, rfl, Or.inl rfl, Or.inr ⟨_, List.getElem_mem hlt, rfl⟩, trivial, ?_, rfl, ?_⟩
      · show medianSpec xs ≤ xs[ci.hiOrder - 1]
        have := sorted_getD_le xs hs (xs.length / 2) (ci.hiOrder - 1) (by omega) hlt
        rw [getD_of_lt _ _ _ hlt] at this
        exact le_trans hmb.2 this
      · simp [Ext.isInf]
  · have hllt : ci.loOrder - 1 < xs.length := by omega
    by_cases hh : ci.hiOrder - 1 ≥ xs.length
    · simp only [hl, hh, if_true, if_false, List.getElem?_eq_getElem hllt, Option.map_some]
      refine ⟨_, rfl, rfl, Or.inr ⟨_, List.getElem_mem hllt, rfl⟩, Or.inl rfl, ?_, trivial, rfl, ?_⟩
      · show xs[ci.loOrder - 1] ≤ medianSpec xs
        have := sorted_getD_le xs hs (ci.loOrder - 1) ((xs.length - 1) / 2) (by omega) (by omega)
        rw [getD_of_lt _ _ _ hllt] at this
        exact le_trans this hmb.1
      · simp [Ext.isInf]
    · have hlt : ci.hiOrder - 1 < xs.length := by omega
      simp only [hl, hh, if_false, List.getElem?_eq_getElem hllt, List.getElem?_eq_getElem hlt, Option.map_some]
      refine ⟨_, rfl, rfl, Or.inr ⟨_, List.getElem_mem hllt, rfl⟩, Or.inr ⟨_, List.getElem_mem hlt, rfl⟩, ?_, ?_, rfl, ?_⟩
      · show xs[ci.loOrder - 1] ≤ medianSpec xs
        have := sorted_getD_le xs hs (ci.loOrder - 1) ((xs.length - 1) / 2) (by omega) (by omega)
        rw [getD_of_lt _ _ _ hllt] at this
        exact le_trans this hmb.1
      · show medianSpec xs ≤ xs[ci.hiOrder - 1]
        have := sorted_getD_le xs hs (xs.length / 2) (ci.hiOrder - 1) (by omega) hlt
        rw [getD_of_lt _ _ _ hlt] at this
        exact le_trans hmb.2 this
      · simp [Ext.isInf]

/-- **median_samples_above_spec** — the size named by the "need >= N samples" warning
(`medianSamplesAbove`, F25): it exceeds the size at hand, lies in 2..50, has a finite interval
according to the external QuantileCI data (0 < LoOrder, HiOrder ≤ N), and no smaller size above the
one at hand (and ≥ 2) has; "> 50" is answered only when no such size exists in the table. -/
theorem median_samples_above_spec (tab : List (Nat × Nat)) (have_ : Nat) :
    (∀ n, Nothing.medianSamplesAbove tab have_ = (.ge, n) →
      have_ < n ∧ 2 ≤ n ∧ n ≤ 50 ∧
      (∃ lo hi, (tab.take 49)[n - 2]? = some (lo, hi) ∧ 0 < lo ∧ hi ≤ n) ∧
      (∀ m lo hi, have_ < m → 2 ≤ m → m < n → (tab.take 49)[m - 2]? = some (lo, hi) → ¬ (0 < lo ∧ hi ≤ m))) ∧
    (∀ n, Nothing.medianSamplesAbove tab have_ = (.gt, n) → n = 50 ∧
      ∀ m lo hi, have_ < m → 2 ≤ m → (tab.take 49)[m - 2]? = some (lo, hi) → ¬ (0 < lo ∧ hi ≤ m)) := by
  unfold Nothing.medianSamplesAbove
  constructor
  · intro n h
    split at h
    · rename_i e he
      simp only [Prod.mk.injEq, true_and] at h
      subst h
      obtain ⟨hp, hmin⟩ := List.find?_eq_some_iff_getElem.mp he
      obtain ⟨i, hi, hget, hbefore⟩ := hmin
      simp only [Bool.and_eq_true, decide_eq_true_eq] at hp
      have hz := List.getElem_zipIdx (l := tab.take 49) (j := 2) (i := i) hi
      rw [hget] at hz
      have hi' : i < (tab.take 49).length := by simpa using hi
      have hlen : (tab.take 49).length ≤ 49 := by simp
      have he2 : e.2 = 2 + i := by rw [hz]
      have he1 : e.1 = (tab.take 49)[i] := by rw [hz]
      refine ⟨hp.1.1, by omega, by omega, ⟨e.1.1, e.1.2, ?_, hp.1.2, hp.2⟩, ?_⟩
      · have : e.2 - 2 = i := by omega
        rw [this, List.getElem?_eq_getElem hi', ← he1]
      · intro m lo hi2 hm1 hm2 hm3 hget2 hfin
        have hj : m - 2 < i := by omega
        have hjl : m - 2 < ((tab.take 49).zipIdx 2).length := by rw [List.length_zipIdx]; omega
        have := hbefore (m - 2) hj
        have hz2 := List.getElem_zipIdx (l := tab.take 49) (j := 2) (i := m - 2) hjl
        rw [hz2] at this
        have hv : (tab.take 49)[m - 2] = (lo, hi2) := by
          have := List.getElem?_eq_some_iff.mp hget2
          obtain ⟨_, h⟩ := this; exact h
        simp only [hv, Bool.and_eq_true, decide_eq_true_eq, not_and, Bool.not_eq_true] at this
        have e2 : 2 + (m - 2) = m := by omega
        rw [e2] at this
        simp only [Bool.not_eq_true', decide_eq_false_iff_not] at this
        simp at this
        exact absurd hfin.2 (by have := this hm1 hfin.1; omega)
    · cases h
  · intro n h
    split at h
    · cases h
    · rename_i hnone
      simp only [Prod.mk.injEq, true_and] at h
      refine ⟨h.symm, ?_⟩
      intro m lo hi2 hm1 hm2 hget2 hfin
      have hall := List.find?_eq_none.mp hnone
      obtain ⟨hlt, hv⟩ := List.getElem?_eq_some_iff.mp hget2
      have hmem : ((lo, hi2), m) ∈ (tab.take 49).zipIdx 2 := by
        rw [List.mk_mem_zipIdx_iff_le_and_getElem?_sub]
        exact ⟨hm2, hget2⟩
      have := hall _ hmem
      simp [hm1, hfin.1, hfin.2] at this

/-! ## the significance threshold is carried -/

/-- **alpha_carried** — both models that perform a test return the threshold the FIRST sample was
created with, whatever the external test reports (error or p-value). -/
theorem alpha_carried {α : Type} [Val α] (s1 s2 : Sample α) :
    (∀ u, (Nothing.compare s1 s2 u).alpha = s1.thresholds.compareAlpha) ∧
    (∀ w, (Normal.compare s1 s2 w).alpha = s1.thresholds.compareAlpha) := by
  constructor
  · intro u
    unfold Nothing.compare
    split
    · rfl
    · cases u.differs <;> rfl
  · intro w
    unfold Normal.compare
    cases w <;> rfl

/-! ## rendering -/

theorem append_pct_ne_tilde (s : String) : s ++ "%" ≠ "~" := by
  intro h
  have h1 := congrArg String.toList h
  have h2 := congrArg List.getLast? h1
  simp at h2

/-- **delta_shown_iff** — `FormatDelta` prints "~" exactly when `P > Alpha` in float64 (so a
difference is shown exactly when p does not exceed the threshold; a NaN p or threshold shows it). -/
theorem delta_shown_iff (c : Comparison) (old new : F64.Bits) :
    Render.formatDelta c old new ≠ "~" ↔ F64.lt c.alpha c.p = false := by
  unfold Render.formatDelta
  by_cases h : F64.lt c.alpha c.p = true
  · simp [h]
  · have h' : F64.lt c.alpha c.p = false := by simpa using h
    simp only [h', Bool.false_eq_true, if_false, iff_true]
    split
    · decide
    · split
      · decide
      · exact append_pct_ne_tilde _

/-- **format_delta_cases** — the documented table of `FormatDelta`, in order of precedence. -/
theorem format_delta_cases (c : Comparison) (old new : F64.Bits) :
    (F64.lt c.alpha c.p = true → Render.formatDelta c old new = "~") ∧
    (F64.lt c.alpha c.p = false → F64.eq old new = true → Render.formatDelta c old new = "0.00%") ∧
    (F64.lt c.alpha c.p = false → F64.eq old new = false → F64.eq old F64.posZero = true →
        Render.formatDelta c old new = "?") ∧
    (F64.lt c.alpha c.p = false → F64.eq old new = false → F64.eq old F64.posZero = false →
        Render.formatDelta c old new = Render.sprintfF true (Render.deltaValue old new) 2 ++ "%") := by
  unfold Render.formatDelta
  refine ⟨?_, ?_, ?_, ?_⟩ <;> intros <;> simp [*]

/-- **delta_value** — in the regular case the number printed is `((new/old) − 1)·100` evaluated
in float64 (division, subtraction, multiplication each correctly rounded), formatted by
strconv 'f' with two decimals and an explicit sign. -/
theorem delta_value (c : Comparison) (old new : F64.Bits)
    (hp : F64.lt c.alpha c.p = false) (hne : F64.eq old new = false) (h0 : F64.eq old F64.posZero = false)
    (hfin : F64.isInf (Render.deltaValue old new) = false) :
    Render.deltaValue old new = F64.mul (F64.sub (F64.div new old) F64.one) hundred ∧
    Render.formatDelta c old new =
      (if F64.signBit (Render.deltaValue old new) then "" else "+") ++
        F64.fmtFixed (Render.deltaValue old new) 2 ++ "%" := by
  refine ⟨rfl, ?_⟩
  rw [(format_delta_cases c old new).2.2.2 hp hne h0]
  unfold Render.sprintfF
  by_cases hs : F64.signBit (Render.deltaValue old new) = true <;> simp [hs, hfin]

/-- **pct_range_cases** — the documented table of `PctRangeString`, in order of precedence:
"∞" when an end is infinite; "?" when the signs of the ends differ from the centre's; "0%" when
the centre is 0; else 100·max(hi/c − 1, 1 − lo/c) with no decimals. -/
theorem pct_range_cases (s : FSummary) :
    ((F64.isInf s.lo || F64.isInf s.hi) = true → Render.pctRangeString s = "∞") ∧
    ((F64.isInf s.lo || F64.isInf s.hi) = false →
        (!F64.eq (Render.sign s.center) (Render.sign s.lo) || !F64.eq (Render.sign s.center) (Render.sign s.hi)) = true →
        Render.pctRangeString s = "?") ∧
    ((F64.isInf s.lo || F64.isInf s.hi) = false →
        (!F64.eq (Render.sign s.center) (Render.sign s.lo) || !F64.eq (Render.sign s.center) (Render.sign s.hi)) = false →
        F64.eq s.center F64.posZero = true → Render.pctRangeString s = "0%") ∧
    ((F64.isInf s.lo || F64.isInf s.hi) = false →
        (!F64.eq (Render.sign s.center) (Render.sign s.lo) || !F64.eq (Render.sign s.center) (Render.sign s.hi)) = false →
        F64.eq s.center F64.posZero = false →
        Render.pctRangeString s =
          Render.sprintfF false (F64.mul hundred (fmax (F64.sub (F64.div s.hi s.center) F64.one)
            (F64.sub F64.one (F64.div s.lo s.center)))) 0 ++ "%") := by
  unfold Render.pctRangeString Render.pctValue
  refine ⟨?_, ?_, ?_, ?_⟩ <;> intros <;> simp_all

/-- **comparison_string_cases** — "p=0.PPP " is omitted exactly when P == 0; sizes print as "n=N"
when equal and "n=N1+N2" otherwise. -/
theorem comparison_string_cases (c : Comparison) :
    Render.comparisonString c =
      (if F64.eq c.p F64.posZero then "" else "p=" ++ Render.sprintfF false c.p 3 ++ " ") ++
      (if c.n1 = c.n2 then "n=" ++ toString c.n1 else "n=" ++ toString c.n1 ++ "+" ++ toString c.n2) := by
  unfold Render.comparisonString
  have e : (" " ++ "n=" : String) = " n=" := by decide
  have sp : ∀ x : String, " n=" ++ x = " " ++ ("n=" ++ x) := fun x => by
    rw [← String.append_assoc, e]
  by_cases h : F64.eq c.p F64.posZero = true <;> by_cases h2 : c.n1 = c.n2 <;>
    simp [h, h2, String.append_assoc] <;> exact sp _

/-! ## the minimum-p table -/

/-- **utest_minp_table** — the model's copy of `uTestMinP[1..9]` (bit-compared with the table of
the Go code on every run) is 2/C(2n,n) correctly rounded to float64. -/
theorem utest_minp_table :
    Nothing.uTestMinP = (List.range 9).map fun k => Spec.MathSpec.minPF (k + 1) := by
  decide +kernel

/-! ## the exact permutation p-value (specification level) -/

open Spec.MathSpec in
/-- **two_sided_combination_symmetric** — min(1, 2·min(a, b)), the way the repaired
`AssumeNothing.Compare` forms the two-sided p-value from the two one-sided ones, is symmetric in
(a, b) and lies in [0,1] whenever a, b ≥ 0. -/
theorem two_sided_combination_symmetric (a b : Rat) :
    combine2 a b = combine2 b a ∧ (0 ≤ a → 0 ≤ b → 0 ≤ combine2 a b ∧ combine2 a b ≤ 1) :=
  ⟨combine2_comm a b, combine2_range a b⟩

open Spec.MathSpec in
/-- **p_range** — the exact permutation p-value lies in [0,1]. -/
theorem p_range {α : Type} [LinearOrder α] (x1 x2 : List α) : 0 ≤ pPerm x1 x2 ∧ pPerm x1 x2 ≤ 1 :=
  combine2_range _ _ (tailLower_nonneg x1 x2) (tailUpper_nonneg x1 x2)

open Spec.MathSpec in
/-- **p_symmetric** — exchanging the two samples does not change the exact permutation p-value
(ties included): the lower tail of one problem is the upper tail of the other. -/
theorem p_symmetric {α : Type} [LinearOrder α] (x1 x2 : List α) : pPerm x1 x2 = pPerm x2 x1 :=
  pPerm_swap x1 x2

open Spec.MathSpec in
/-- **p_perm_invariant** — reordering each sample does not change the exact permutation p-value. -/
theorem p_perm_invariant {α : Type} [LinearOrder α] {x1 y1 x2 y2 : List α}
    (h1 : x1.Perm y1) (h2 : x2.Perm y2) : pPerm x1 x2 = pPerm y1 y2 :=
  pPerm_perm h1 h2

open Spec.MathSpec in
/-- **p_mono_invariant** — the exact permutation p-value only depends on the order type of the
pooled sample: any strictly increasing map of the values leaves it unchanged (this also
justifies the oracle's use of dense ranks). -/
theorem p_mono_invariant {α β : Type} [LinearOrder α] [LinearOrder β] (f : α → β) (hf : StrictMono f)
    (x1 x2 : List α) : pPerm (x1.map f) (x2.map f) = pPerm x1 x2 :=
  pPerm_map f hf x1 x2

open Spec.MathSpec in
/-- **p_scale_invariant** — a common positive rescaling of both samples does not change the exact
permutation p-value (any ordered field). -/
theorem p_scale_invariant {K : Type} [Field K] [LinearOrder K] [IsStrictOrderedRing K] (c : K) (hc : 0 < c)
    (x1 x2 : List K) : pPerm (x1.map (c * ·)) (x2.map (c * ·)) = pPerm x1 x2 :=
  pPerm_map _ (fun _ _ h => mul_lt_mul_of_pos_left h hc) x1 x2

/-! ## float64 samples -/

open F64 in
/-- **float_order** — restricted to finite values, `F64.lt` is the strict order and `F64.eq` the
equality of the exact rational values `sval` (= ±mant·2^expo; both zeros have value 0): a strict
total order, proved from the bit patterns for all signs. `LawfulVal FinF` packages this. -/
theorem float_order (a b : Bits) (ha : isFinite a = true) (hb : isFinite b = true) :
    (F64.lt a b = true ↔ sval a < sval b) ∧ (F64.eq a b = true ↔ sval a = sval b) ∧
    (F64.lt a b = true ∨ F64.eq a b = true ∨ F64.lt b a = true) :=
  ⟨lt_iff_sval a b ha hb, eq_iff_sval a b ha hb, by
    rw [lt_iff_sval a b ha hb, eq_iff_sval a b ha hb, lt_iff_sval b a hb ha]
    exact lt_trichotomy _ _⟩

open F64 in
/-- **new_sample_order_independent** (fix F27) — for NaN-free float64 measurements the sample
`NewSample` builds depends only on the measurements as a multiset, not on their arrival order:
bit for bit, the two zeros included (−0 is placed before +0; only bit-identical values tie). Hence
every summary and comparison computed from it is invariant under reordering, sign of zero included. -/
theorem new_sample_order_independent (v1 v2 : List Bits) (t : Thresholds)
    (hn : ∀ v ∈ v1, isNaN v = false) (h : v1.Perm v2) : newSample v1 t = newSample v2 t := by
  have hn2 : ∀ v ∈ v2, isNaN v = false := fun v hv => hn v (h.symm.subset hv)
  obtain ⟨l1, rfl⟩ := lift_nn v1 hn
  obtain ⟨l2, rfl⟩ := lift_nn v2 hn2
  show (⟨sortVals (α := Bits) (l1.map NN.val), t⟩ : Sample Bits) = ⟨sortVals (α := Bits) (l2.map NN.val), t⟩
  rw [sortVals_nn_val, sortVals_nn_val, sortVals_nn_unique (perm_lift h)]

/-- the zeros: both arrival orders of {+0, −0} give the sample [−0, +0] -/
example : (newSample (α := F64.Bits) [F64.posZero, F64.negZero] ⟨0⟩).values =
          (newSample (α := F64.Bits) [F64.negZero, F64.posZero] ⟨0⟩).values :=
  congrArg Sample.values (new_sample_order_independent [F64.posZero, F64.negZero] [F64.negZero, F64.posZero] ⟨0⟩
    (by decide) (List.Perm.swap _ _ _))

open F64 in
/-- **new_sample_f64** — `NewSample` on finite float64 measurements: the same measurements, in
ascending order of their exact values. -/
theorem new_sample_f64 (vals : List Bits) (t : Thresholds) (hc : ∀ v ∈ vals, Canon v) :
    (newSample vals t).values.Perm vals ∧
    (newSample vals t).values.Pairwise (fun a b => sval a ≤ sval b) := by
  obtain ⟨l, rfl⟩ := lift_vals vals hc
  show (sortVals (α := Bits) (l.map FinF.val)).Perm _ ∧ (sortVals (α := Bits) (l.map FinF.val)).Pairwise _
  rw [sortVals_val]
  exact ⟨(sortVals_perm l).map _, List.pairwise_map.mpr (sortVals_pairwise l)⟩

open F64 in
/-- **exact_summary_f64** — `exact_summary_spec` for float64 samples (the model instance the driver
runs): on a non-empty sample of finite values sorted by value, the centre is a value of maximal
multiplicity and no value of the same multiplicity is smaller; Lo / Hi are the smallest / largest
value; confidence 1; a warning is raised exactly when two values differ. (−0 is identified with +0:
`Canon` asks for the canonical zero, as the observables do.) -/
theorem exact_summary_f64 (vals : List Bits) (t : Thresholds) (hc : ∀ v ∈ vals, Canon v) (hne : vals ≠ [])
    (hs : vals.Pairwise (fun a b => sval a ≤ sval b)) :
    ∃ r, Exact.summary (⟨vals, t⟩ : Sample Bits) = some r ∧
      r.center ∈ vals ∧
      (∀ x, vals.count x ≤ vals.count r.center) ∧
      (∀ x ∈ vals, vals.count x = vals.count r.center → sval r.center ≤ sval x) ∧
      (∃ lo ∈ vals, r.lo = .fin lo ∧ ∀ x ∈ vals, sval lo ≤ sval x) ∧
      (∃ hi ∈ vals, r.hi = .fin hi ∧ ∀ x ∈ vals, sval x ≤ sval hi) ∧
      r.confidence = F64.one ∧
      (r.warnings ≠ [] ↔ ∃ x ∈ vals, ∃ y ∈ vals, x ≠ y) := by
  obtain ⟨l, rfl⟩ := lift_vals vals hc
  have hne' : (⟨l, t⟩ : Sample FinF).values ≠ [] := by
    intro h; apply hne; simp only at h; simp [h]
  have hs' : (⟨l, t⟩ : Sample FinF).values.Pairwise (· ≤ ·) := by
    have := List.pairwise_map.mp hs
    exact this
  obtain ⟨r, hr, hmem, hmax, hmin, ⟨lo, hlo, hlo1, hlo2⟩, ⟨hi, hhi, hhi1, hhi2⟩, hconf, hw⟩ :=
    exact_summary_spec (⟨l, t⟩ : Sample FinF) hne' hs'
  obtain ⟨r', hr', hc', hl', hh', hcf', hw'⟩ := summary_val l t r hr
  have cnt : ∀ x : FinF, (l.map FinF.val).count x.val = l.count x :=
    fun x => List.count_map_of_injective l FinF.val FinF.val_injective x
  simp only at hmem hmax hmin hlo hlo2 hhi hhi2 hw
  refine ⟨r', hr', ?_, ?_, ?_, ?_, ?_, ?_, ?_⟩
  · rw [hc']; exact List.mem_map_of_mem hmem
  · intro x
    rw [hc', cnt]
    by_cases hx : x ∈ l.map FinF.val
    · obtain ⟨y, _, rfl⟩ := List.mem_map.mp hx
      rw [cnt]; exact hmax y
    · rw [List.count_eq_zero.mpr hx]; exact Nat.zero_le _
  · intro x hx hcount
    obtain ⟨y, _, rfl⟩ := List.mem_map.mp hx
    rw [hc', cnt, cnt] at hcount
    rw [hc']
    exact hmin y hcount
  · refine ⟨lo.val, List.mem_map_of_mem hlo, hl' lo hlo1, ?_⟩
    intro x hx
    obtain ⟨y, hy, rfl⟩ := List.mem_map.mp hx
    exact hlo2 y hy
  · refine ⟨hi.val, List.mem_map_of_mem hhi, hh' hi hhi1, ?_⟩
    intro x hx
    obtain ⟨y, hy, rfl⟩ := List.mem_map.mp hx
    exact hhi2 y hy
  · rw [hcf', hconf]
  · rw [show r'.warnings ≠ [] ↔ r.warnings ≠ [] from not_congr hw', hw]
    constructor
    · rintro ⟨x, hx, y, hy, hxy⟩
      exact ⟨x.val, List.mem_map_of_mem hx, y.val, List.mem_map_of_mem hy, fun h => hxy (FinF.ext' h)⟩
    · rintro ⟨x, hx, y, hy, hxy⟩
      obtain ⟨x', hx', rfl⟩ := List.mem_map.mp hx
      obtain ⟨y', hy', rfl⟩ := List.mem_map.mp hy
      exact ⟨x', hx', y', hy', fun h => hxy (by rw [h])⟩

open F64 in
/-- **nothing_summary_f64_odd** — `AssumeNothing.Summary` on float64 samples of odd size n ≤ 69
(finite values, sorted), for any external QuantileCI result whose band contains the middle: unless
the difference of the middle value and its upper neighbour overflows (class X1), the centre is the
middle VALUE OF THE SAMPLE bit-exactly (`a + 0·(b − a) = a` in float64), Lo / Hi are sample values
or ∓∞ with Lo ≤ centre ≤ Hi in exact value, the confidence is the external one, and a warning is
raised exactly when an end is infinite. -/
theorem nothing_summary_f64_odd (vals : List Bits) (t : Thresholds) (conf : Bits) (ci : Nothing.QCI)
    (tab : List (Nat × Nat)) (hc : ∀ v ∈ vals, Canon v)
    (hs : vals.Pairwise (fun a b => sval a ≤ sval b))
    (h1 : 1 ≤ vals.length) (h70 : vals.length ≤ 70) (hodd : vals.length % 2 = 1)
    (hfin : ∀ a b, vals[vals.length / 2]? = some a → vals[vals.length / 2 + 1]? = some b →
      isFinite (F64.sub b a) = true)
    (hlo : ci.loOrder ≤ (vals.length + 1) / 2) (hhi : vals.length / 2 + 1 ≤ ci.hiOrder) :
    ∃ r c, Nothing.summary (⟨vals, t⟩ : Sample Bits) conf ci tab = some r ∧
      vals[vals.length / 2]? = some c ∧ r.center = c ∧
      (r.lo = .negInf ∨ ∃ a ∈ vals, r.lo = .fin a ∧ sval a ≤ sval c) ∧
      (r.hi = .posInf ∨ ∃ a ∈ vals, r.hi = .fin a ∧ sval c ≤ sval a) ∧
      r.confidence = ci.confidence ∧
      (r.warnings ≠ [] ↔ (r.lo = .negInf ∨ r.hi = .posInf)) := by
  have hmid : vals.length / 2 < vals.length := by omega
  have hcq : vals[vals.length / 2]? = some vals[vals.length / 2] := List.getElem?_eq_getElem hmid
  have hq : Nothing.quantileHalf vals = some vals[vals.length / 2] := by
    rw [quantileHalf_odd_f64 vals h1 h70 hodd hc hfin, hcq]
  obtain ⟨r, hr, hcen, hl0, hl1, hh0, hh1, hconf, hw⟩ :=
    summary_shape (⟨vals, t⟩ : Sample Bits) conf ci tab _ hq (by simp only; omega) (by omega)
  simp only at hl1 hh0 hh1
  refine ⟨r, _, hr, hcq, hcen, ?_, ?_, hconf, hw⟩
  · by_cases hl : ci.loOrder < 1
    · exact Or.inl (hl0 hl)
    · obtain ⟨a, ha, hra⟩ := hl1 (by omega)
      exact Or.inr ⟨a, List.mem_of_getElem? ha, hra,
        sorted_get?_le vals hs _ _ (by omega) a _ ha hcq⟩
  · by_cases hh : ci.hiOrder - 1 ≥ vals.length
    · exact Or.inl (hh0 hh)
    · obtain ⟨a, ha, hra⟩ := hh1 (by omega)
      exact Or.inr ⟨a, List.mem_of_getElem? ha, hra,
        sorted_get?_le vals hs _ _ (by omega) _ a hcq ha⟩

open F64 in
/-- **nothing_summary_f64_even** — `AssumeNothing.Summary` on float64 samples of even size n ≤ 70
(finite values, sorted), any external QuantileCI result whose band contains the middle, and b − a
finite for the two middle values a ≤ b (not in class X1): the centre
`a + 0.5*(b − a)`, evaluated in float64 with three roundings, is finite, lies in [a, b] by exact
value — hence Lo ≤ centre ≤ Hi — and is within max(|a|,|b|)·2⁻⁵¹ + 2⁻¹⁰⁷³ of the exact midpoint
(a + b)/2 (`midpoint_f64`); Lo is −∞ or a sample value, Hi is +∞ or a sample value; confidence and
warning as for odd n. (Closes the former `nothing_summary_f64_even_partial`.) -/
theorem nothing_summary_f64_even (vals : List Bits) (t : Thresholds) (conf : Bits) (ci : Nothing.QCI)
    (tab : List (Nat × Nat)) (hc : ∀ v ∈ vals, Canon v)
    (hs : vals.Pairwise (fun a b => sval a ≤ sval b))
    (h2 : 2 ≤ vals.length) (h70 : vals.length ≤ 70) (heven : vals.length % 2 = 0)
    (hfin : ∀ a b, vals[vals.length / 2 - 1]? = some a → vals[vals.length / 2]? = some b →
      isFinite (F64.sub b a) = true)
    (hlo : ci.loOrder ≤ (vals.length + 1) / 2) (hhi : vals.length / 2 + 1 ≤ ci.hiOrder) :
    ∃ r a b, Nothing.summary (⟨vals, t⟩ : Sample Bits) conf ci tab = some r ∧
      vals[vals.length / 2 - 1]? = some a ∧ vals[vals.length / 2]? = some b ∧
      r.center = F64.add a (F64.mul half (F64.sub b a)) ∧ isFinite r.center = true ∧
      sval a ≤ sval r.center ∧ sval r.center ≤ sval b ∧
      |sval r.center - (sval a + sval b) / 2| ≤ max |sval a| |sval b| / 2 ^ 51 + 4 * tinyQ ∧
      (r.lo = .negInf ∨ ∃ x ∈ vals, r.lo = .fin x ∧ sval x ≤ sval r.center) ∧
      (r.hi = .posInf ∨ ∃ x ∈ vals, r.hi = .fin x ∧ sval r.center ≤ sval x) ∧
      r.confidence = ci.confidence ∧
      (r.warnings ≠ [] ↔ (r.lo = .negInf ∨ r.hi = .posInf)) := by
  have h1 : vals.length / 2 - 1 < vals.length := by omega
  have h2' : vals.length / 2 < vals.length := by omega
  have ha : vals[vals.length / 2 - 1]? = some vals[vals.length / 2 - 1] := List.getElem?_eq_getElem h1
  have hb : vals[vals.length / 2]? = some vals[vals.length / 2] := List.getElem?_eq_getElem h2'
  have hq := quantileHalf_even_f64 vals h2 h70 heven _ _ ha hb
  obtain ⟨r, hr, hcen, hl0, hl1, hh0, hh1, hconf, hw⟩ :=
    summary_shape (⟨vals, t⟩ : Sample Bits) conf ci tab _ hq (by simp only; omega) (by omega)
  simp only at hl1 hh0 hh1
  have hab := sorted_get?_le vals hs _ _ (by omega) _ _ ha hb
  have ca := hc _ (List.getElem_mem h1)
  have cb := hc _ (List.getElem_mem h2')
  obtain ⟨m1, m2, m3, m4⟩ := midpoint_f64 vals[vals.length / 2 - 1] vals[vals.length / 2] ca.1 cb.1 hab
    (hfin _ _ ha hb)
  have hcen' : r.center = F64.add vals[vals.length / 2 - 1]
      (F64.mul halfB (F64.sub vals[vals.length / 2] vals[vals.length / 2 - 1])) := hcen
  rw [← hcen'] at m1 m2 m3 m4
  refine ⟨r, _, _, hr, ha, hb, hcen, m1, m2, m3, m4, ?_, ?_, hconf, hw⟩
  · by_cases hl : ci.loOrder < 1
    · exact Or.inl (hl0 hl)
    · obtain ⟨x, hx, hrx⟩ := hl1 (by omega)
      exact Or.inr ⟨x, List.mem_of_getElem? hx, hrx,
        le_trans (sorted_get?_le vals hs _ _ (by omega) x _ hx ha) m2⟩
  · by_cases hh : ci.hiOrder - 1 ≥ vals.length
    · exact Or.inl (hh0 hh)
    · obtain ⟨x, hx, hrx⟩ := hh1 (by omega)
      exact Or.inr ⟨x, List.mem_of_getElem? hx, hrx,
        le_trans m3 (sorted_get?_le vals hs _ _ (by omega) _ x hb hx)⟩

/-- **combine_symmetric** (float64) — `math.Min(1, 2*math.Min(l1.P, l2.P))` as the model evaluates it
is symmetric in the two one-sided results, for all bit patterns; consequently exchanging the samples
(which exchanges the two one-sided calls) leaves the p-value of `AssumeNothing.Compare` unchanged
whenever both two-sided calls succeed. -/
theorem compare_p_swap {α : Type} [Val α] (s1 s2 : Sample α) (a b : TestResult) (pd pd' : F64.Bits)
    (ha : ∃ p, a = .ok p) (hb : ∃ p, b = .ok p) :
    (Nothing.compare s1 s2 ⟨.ok pd, a, b⟩).p = (Nothing.compare s2 s1 ⟨.ok pd', b, a⟩).p := by
  obtain ⟨pa, rfl⟩ := ha
  obtain ⟨pb, rfl⟩ := hb
  unfold Nothing.compare
  rw [Bool.or_comm (Nothing.hasNaN s2.values)]
  split
  · rfl
  · simp only [Nothing.combine, fmin_comm pa pb]

/-! ## instances of the hypotheses, and the float64 limits of the exact-arithmetic theorems -/

/-- exact rational arithmetic is an instance of `LawfulInterp` (hence of `LawfulVal`): the
hypotheses of `exact_summary_spec` and `nothing_summary_spec` are satisfiable. -/
instance ratVal : Val Rat where
  lt a b := decide (a < b)
  eq a b := decide (a = b)
  interp a b f := a + fracOf Rat f * (b - a)

instance : LawfulInterp Rat where
  lt_iff a b := by simp [Val.lt]
  eq_iff a b := by simp [Val.eq]
  before_irrefl _ := rfl
  interp_eq _ _ _ := rfl

/-- a sorted sample with ties: the exact model's centre is the smaller of the two modes, the
range warning is raised -/
example : ∃ r, Exact.summary (⟨[1, 2, 2, 3, 3], ⟨0⟩⟩ : Sample Rat) = some r ∧ r.center = 2 ∧ r.warnings ≠ [] := by
  obtain ⟨r, hr, hmem, hmax, hmin, _, _, _, hw⟩ :=
    exact_summary_spec (⟨[1, 2, 2, 3, 3], ⟨0⟩⟩ : Sample Rat) (by simp) (by simp [List.pairwise_cons]; norm_num)
  refine ⟨r, hr, ?_, hw.mpr ⟨1, by simp, 2, by simp, by norm_num⟩⟩
  -- r.center is a most frequent value and the smallest such: 2
  have h2 := hmax 2
  have h3 := hmax 3
  simp only [List.mem_cons, List.not_mem_nil, or_false] at hmem
  rcases hmem with h | h | h | h | h <;> rw [h] at h2 h3 hmin ⊢
  · simp at h2
  · have := hmin 2 (by simp); norm_num at this
  · have := hmin 2 (by simp); norm_num at this

/-- the hypotheses of `nothing_summary_spec` on a concrete sample and QuantileCI result
(n = 4, orders 1 and 4): the median is the midpoint 3, bracketed by the ends -/
example : ∃ r, Nothing.summary (⟨[1, 2, 4, 8], ⟨0⟩⟩ : Sample Rat) 0 ⟨1, 4, 0⟩ [] = some r ∧ r.center = 3 := by
  obtain ⟨r, hr, hc, _⟩ := nothing_summary_spec (⟨[1, 2, 4, 8], ⟨0⟩⟩ : Sample Rat) 0 ⟨1, 4, 0⟩ []
    (by simp [List.pairwise_cons]; norm_num) (by simp) (by simp) (by simp) (by simp)
  refine ⟨r, hr, ?_⟩
  rw [hc]; simp [medianSpec]; norm_num

/-- **median_overflow_witness** (finding X1, notes/C13.md) — in float64 the interpolation
`a + frac·(b − a)` of moremath's `Quantile` overflows when b − a exceeds MaxFloat64: the median
of the finite sample {−MaxFloat64, +MaxFloat64} is +Inf, and that of
{−MaxFloat64, −MaxFloat64, +MaxFloat64} is NaN (0·Inf). float64 is therefore not an instance of
`LawfulInterp`; `nothing_summary_spec` speaks about exact arithmetic, the correspondence and the
search layer about float64 within the magnitudes of the generators. -/
theorem median_overflow_witness :
    Nothing.quantileHalf (α := F64.Bits) [0xFFEFFFFFFFFFFFFF, 0x7FEFFFFFFFFFFFFF] = some F64.posInf ∧
    (Nothing.quantileHalf (α := F64.Bits) [0xFFEFFFFFFFFFFFFF, 0xFFEFFFFFFFFFFFFF, 0x7FEFFFFFFFFFFFFF]).map F64.isNaN
      = some true := by
  decide +kernel

end C13
