/-
C11 — Mann–Whitney U statistics and p-values are exact for small samples. Property theorems.
Helper lemmas live in Proofs/Lemmas/C11*.lean.
-/
import Model.Stats.UDist
import Model.Stats.UStat
import Model.Spec.UExact
import Proofs.Lemmas.C11Basic

namespace C11
open Stats Stats.UStat Stats.UDist

/-! ### errors -/

/-- an empty sample is reported as the size error, whatever the rest -/
theorem errors_spec_empty {α : Type} [LT α] [DecidableLT α] [DecidableEq α]
    (cdf : Nat → Nat → List Nat → Int → Rat) (lim limT : Nat) (x1 x2 : List α) (alt : Alt)
    (h : x1 = [] ∨ x2 = []) :
    mannWhitney cdf lim limT x1 x2 alt = .error .sampleSize := by
  unfold mannWhitney
  rcases h with h | h <;> simp [h]

end C11
