/-
C11 — Mann–Whitney U statistics and p-values are exact for small samples.

Property statements only; the proofs are in Proofs/Lemmas/C11*.lean.

Objects:
* model  — `Stats.UStat` (utest.go: sort, labeledMerge, rank loop, U1/U2, branch selection, p formulas),
           `Stats.UDist` (udist.go: recurrence `pRec` of `UDist.p`, counting recurrence `A` of
           `makeUmemo` with its K = 2 base case `base2`, wrappers `cdfPure`/`pmfPure`);
* spec   — `Spec.UExact` (`twoUPairs` = pair counting, `splits` = all assignments of the pooled
           values, `nullDistOf`, `pLess`/`pGreater`/`pTwoSided` by counting), and the per-group
           count `C11.groupCount` (Proofs/Lemmas/C11Groups).
-/
import Proofs.Lemmas.C11Basic
import Proofs.Lemmas.C11Rank
import Proofs.Lemmas.C11Untied
import Proofs.Lemmas.C11Tied
import Proofs.Lemmas.C11PFormulas
import Proofs.Lemmas.C11Errors
import Proofs.Lemmas.C11Misc
import Proofs.Lemmas.C11Groups
import Proofs.Lemmas.C11GroupsEnum
import Proofs.Lemmas.C11Compose
import Proofs.Lemmas.C11TiedRec
import Proofs.Lemmas.C11TiedCompose
import Proofs.Lemmas.C11Memo
import Proofs.Lemmas.C11Count
import Proofs.Lemmas.C11Relabel
import Proofs.Lemmas.C11ErrIff
import Proofs.Lemmas.C11TwoSidedIff
import Proofs.Lemmas.C11EndToEnd
import Proofs.Lemmas.C11Palindromic
import Proofs.Lemmas.C11PalinSamples
import Proofs.Lemmas.C11Benchmath

namespace C11.Props
open Stats Stats.UStat Stats.UDist

/-! ### the statistic -/

/-- **u_is_pair_count.** For all samples over any linear order, the doubled rank-sum statistic
    2·R1 − n1(n1+1) computed by the sort/merge/rank loop equals 2·#{(a,b) ∈ x1×x2 : a > b} + #{a = b}. -/
theorem u_is_pair_count {α : Type} [LinearOrder α] (x1 x2 : List α) :
    twoU1 x1 x2 = ((Spec.UExact.twoUPairs x1 x2 : Nat) : Int) :=
  C11.u_is_pair_count x1 x2

/-- the tie vector T handed to `UDist` is the run-length vector of the pooled sorted sample -/
theorem tie_vector_is_run_lengths {α : Type} [LinearOrder α] (x1 x2 : List α) :
    tieVector x1 x2 = Spec.UExact.tieVectorOf ((sortF (x1 ++ x2)).dedup) (x1 ++ x2) :=
  C11.tie_vector_is_run_lengths x1 x2

/-- `hasTies` is set exactly when some tie group has more than one member -/
theorem has_ties_iff {α : Type} [LinearOrder α] (L : List (α × Bool)) :
    (ranks L).hasTies = true ↔ ∃ t ∈ (ranks L).T, t > 1 :=
  C11.ranks_hasTies_iff L

/-! ### the untied distribution -/

/-- **untied_recurrence_exact.** `p_{n,m}(u)·C(n+m,n)` is the number of assignments of a pool of
    n+m distinct values (listed in descending order) to a first sample of size n whose doubled
    statistic is 2u. -/
theorem untied_recurrence_exact {α : Type} [LinearOrder α] (n m : Nat) (pool : List α)
    (hlen : pool.length = n + m) (hdesc : pool.Pairwise (· > ·)) (u : Nat) :
    pRec n m (u : Int) * (Nat.choose (n + m) n : Rat)
      = (((Spec.UExact.nullDistOf n pool).filter (· = 2 * u)).length : Rat) :=
  C11.untied_recurrence_exact n m pool hlen hdesc u

example : pRec 2 1 (1 : Nat) * (Nat.choose (2 + 1) 2 : Rat)
    = (((Spec.UExact.nullDistOf 2 [(3 : Nat), 2, 1]).filter (· = 2 * 1)).length : Rat) :=
  untied_recurrence_exact 2 1 [3, 2, 1] rfl (by decide) 1

/-- the number of assignments is C(N, n1) -/
theorem assignments_count {α : Type} (n : Nat) (pool : List α) :
    (Spec.UExact.splits n pool).length = Nat.choose pool.length n :=
  C11.splits_length n pool

/-- **pmf_sums_to_one** (untied) -/
theorem pmf_sums_to_one_untied (n m : Nat) :
    ∑ u ∈ Finset.range (n * m + 1), pRec n m (u : Int) = 1 :=
  C11.pmf_sums_to_one_untied n m

/-- **dist_swap_symmetry** (untied): symmetric about n·m/2 and under swapping the sample sizes -/
theorem dist_swap_symmetry_untied (n m u : Nat) :
    pRec n m (u : Int) = pRec n m (((n * m : Nat) : Int) - (u : Int)) ∧ pRec n m (u : Int) = pRec m n (u : Int) :=
  C11.untied_dist_symmetric n m u

/-- **cdf_is_prefix_sum** (untied wrapper, including the `flip` shortcut of `UDist.CDF`) -/
theorem cdf_is_prefix_sum_untied (n1 n2 : Nat) (T : List Nat) (hT : UDist.hasTies T = false) (twoU : Int)
    (h0 : 0 ≤ twoU) (h1 : twoU < 2 * ((n1 * n2 : Nat) : Int)) :
    cdfPure n1 n2 T twoU = ∑ v ∈ Finset.range ((twoU / 2).toNat + 1), pRec n1 n2 (v : Int) :=
  C11.cdfPure_untied_pRec n1 n2 T hT twoU h0 h1

/-! ### the tied distribution -/

/-- **k2_closed_form.** The K = 2 base case with its `num ≥ 0` guard and Go's truncating division
    sums C(t0, n1−r2)·C(t1, r2) over exactly the r2 ∈ [0, n1] whose doubled statistic
    n1(t0−n1) + r2(t0+t1) is ≤ twoU. -/
theorem k2_closed_form (t0 t1 n1 : Nat) (hpos : 0 < t0 + t1) (twoU : Int) :
    base2 [t0, t1] (n1 : Int) twoU
      = ∑ r2 ∈ Finset.range (n1 + 1),
          if (n1 : Int) * ((t0 : Int) - n1) + (r2 : Int) * ((t0 : Int) + t1) ≤ twoU
          then Nat.choose t0 (n1 - r2) * Nat.choose t1 r2 else 0 :=
  C11.k2_closed_form t0 t1 n1 hpos twoU

/-- the base case before commit f31837d was wrong (witness of finding F5) -/
theorem k2_old_code_wrong : C11.base2Old [3, 1] 2 0 = 3 ∧ base2 [3, 1] 2 0 = 0 :=
  C11.k2_old_code_wrong

/-- **klotz_step.** One level of the recurrence lowers (n1, 2U) by the members taken from the top
    rank and by the pairs they win or tie: r·(a[k] − 2·n1 + r) = 2·r·(S − (n1−r)) + r·(t[k−1] − r). -/
theorem klotz_step (t : List Nat) (k : Nat) (n1 twoU r : Int) :
    (subKey t (k + 1) n1 twoU r).1 = n1 - r ∧
    (subKey t (k + 1) n1 twoU r).2
      = twoU - (2 * r * ((sumTo t k : Int) - (n1 - r)) + r * (((t.getD k 0 : Nat) : Int) - r)) :=
  C11.klotz_step t k n1 twoU r

/-- **cdf_is_prefix_sum** (tied wrappers): CDF(U) = A(−1)/C + Σ_{v ≤ 2U} PMF(v/2) -/
theorem cdf_is_prefix_sum_tied (n1 n2 : Nat) (T : List Nat) (hT : UDist.hasTies T = true) (u : Nat)
    (hu : u < 2 * (n1 * n2)) :
    cdfPure n1 n2 T (u : Int)
      = ((A T T.length n1 (-1) : Nat) : Rat) / ((choose (n1 + n2) n1 : Nat) : Rat)
        + ∑ v ∈ Finset.range (u + 1), pmfPure n1 n2 T (v : Int) :=
  C11.cdf_is_prefix_sum_tied n1 n2 T hT u hu

/-- **tied_recurrence_exact.** For every tie vector with positive entries and K ≥ 2 groups, the
    counting recurrence `A` (K = 2 base case, per-rank step, pruning by twoUmin/twoUmax, completion
    rule) equals the number of assignments counted per tie group, for every n1 and every 2U. -/
theorem tied_recurrence_exact (T : List Nat) (hT : ∀ t ∈ T, 0 < t) (hK : 2 ≤ T.length) (n1 : Nat)
    (hn : n1 ≤ T.sum) (twoU : Int) :
    A T T.length (n1 : Int) twoU = groupCount T n1 twoU :=
  C11.tied_recurrence_exact T hT hK n1 hn twoU

/-- **pmf_sums_to_one** (tied) -/
theorem pmf_sums_to_one_tied (T : List Nat) (hpos : ∀ t ∈ T, 0 < t) (hK : 2 ≤ T.length) (n1 n2 : Nat)
    (hT : UDist.hasTies T = true) (hN : T.sum = n1 + n2) :
    ∑ v ∈ Finset.range (2 * (n1 * n2) + 1), pmfPure n1 n2 T (v : Int) = 1 :=
  C11.pmf_sums_to_one_tied T hpos hK n1 n2 hT hN

example : ∑ v ∈ Finset.range (2 * (2 * 1) + 1), pmfPure 2 1 [1, 2] (v : Int) = 1 :=
  pmf_sums_to_one_tied [1, 2] (by decide) (by decide) 2 1 (by decide) (by decide)

/-! ### p-values -/

/-- **less_spec.** Given the exact distribution function, the one-sided *less* p-value is P(2U ≤ 2u). -/
theorem less_spec (cdf : Int → Rat) (dist : List Nat) (h : IsCDFOf cdf dist) (u : Nat) (tu2 : Int) :
    exactP cdf .less (u : Int) tu2 = Spec.UExact.pLess dist u :=
  C11.less_spec cdf dist h u tu2

/-- **greater_spec.** … and *greater* (which steps back by one half step, 079b4ab) is P(2U ≥ 2u). -/
theorem greater_spec (cdf : Int → Rat) (dist : List Nat) (h : IsCDFOf cdf dist) (hne : dist ≠ [])
    (u : Nat) (tu2 : Int) :
    exactP cdf .greater (u : Int) tu2 = Spec.UExact.pGreater dist u :=
  C11.greater_spec cdf dist h hne u tu2

/-- **two_sided_spec_partial.** The code's two-sided value (1 if U1 = U2, else 2·CDF(min(U1,U2))) is the
    specification's min(1, 2·min(P(2U ≤ u), P(2U ≥ u))) PROVIDED the null distribution is symmetric
    about n1·n2 (hypothesis `hsym`, c = 2·n1·n2). Without symmetry it is false: see the witness below. -/
theorem two_sided_spec_partial (cdf : Int → Rat) (dist : List Nat) (c : Nat)
    (h : IsCDFOf cdf dist) (hne : dist ≠ [])
    (hsym : ∀ v : Nat, (dist.filter (· ≤ v)).length = (dist.filter (fun d => decide (d + v ≥ c))).length)
    (u : Nat) (hu : u ≤ c) :
    exactP cdf .differs (u : Int) ((c : Int) - u) = Spec.UExact.pTwoSided dist u :=
  C11.two_sided_spec_partial cdf dist c h hne hsym u hu

/-- the specification's two-sided value always lies in [0,1], and swapping the samples mirrors U -/
theorem two_sided_in_unit_interval_and_swap {α : Type} [LinearOrder α] (dist : List Nat) (u : Nat) (x1 x2 : List α) :
    (0 ≤ Spec.UExact.pTwoSided dist u ∧ Spec.UExact.pTwoSided dist u ≤ 1)
      ∧ Spec.UExact.twoUPairs x1 x2 + Spec.UExact.twoUPairs x2 x1 = 2 * x1.length * x2.length :=
  C11.two_sided_in_unit_interval_and_swap_invariant dist u x1 x2

/-! #### untied samples, end to end (pool of distinct values listed in descending order) -/

/-- the untied CDF wrapper (with its flip) is the distribution function of the enumeration -/
theorem untied_cdf_is_cdf {α : Type} [LinearOrder α] (n m : Nat) (T : List Nat) (hT : UDist.hasTies T = false)
    (pool : List α) (hlen : pool.length = n + m) (hdesc : pool.Pairwise (· > ·)) :
    IsCDFOf (cdfPure n m T) (Spec.UExact.nullDistOf n pool) :=
  C11.untied_cdf_is_cdf n m T hT pool hlen hdesc

theorem less_exact_untied {α : Type} [LinearOrder α] (n m : Nat) (T : List Nat) (hT : UDist.hasTies T = false)
    (pool : List α) (hlen : pool.length = n + m) (hdesc : pool.Pairwise (· > ·)) (u : Nat) (tu2 : Int) :
    exactP (cdfPure n m T) .less (u : Int) tu2 = Spec.UExact.pLess (Spec.UExact.nullDistOf n pool) u :=
  C11.less_exact_untied n m T hT pool hlen hdesc u tu2

theorem greater_exact_untied {α : Type} [LinearOrder α] (n m : Nat) (T : List Nat) (hT : UDist.hasTies T = false)
    (pool : List α) (hlen : pool.length = n + m) (hdesc : pool.Pairwise (· > ·)) (u : Nat) (tu2 : Int) :
    exactP (cdfPure n m T) .greater (u : Int) tu2 = Spec.UExact.pGreater (Spec.UExact.nullDistOf n pool) u :=
  C11.greater_exact_untied n m T hT pool hlen hdesc u tu2

/-- **two_sided_spec for untied samples** (full): the untied null distribution is symmetric -/
theorem two_sided_exact_untied {α : Type} [LinearOrder α] (n m : Nat) (T : List Nat) (hT : UDist.hasTies T = false)
    (pool : List α) (hlen : pool.length = n + m) (hdesc : pool.Pairwise (· > ·)) (u : Nat) (hu : u ≤ 2 * (n * m)) :
    exactP (cdfPure n m T) .differs (u : Int) (((2 * (n * m) : Nat) : Int) - (u : Int))
      = Spec.UExact.pTwoSided (Spec.UExact.nullDistOf n pool) u :=
  C11.two_sided_exact_untied n m T hT pool hlen hdesc u hu

example : exactP (cdfPure 2 1 []) .differs ((2 : Nat) : Int) (((2 * (2 * 1) : Nat) : Int) - ((2 : Nat) : Int))
    = Spec.UExact.pTwoSided (Spec.UExact.nullDistOf 2 [(3 : Nat), 2, 1]) 2 :=
  two_sided_exact_untied 2 1 [] rfl [3, 2, 1] rfl (by decide) 2 (by decide)

/-! #### tied samples -/

/-- **groups_count_labelings.** Counting assignments per tie group (r-vectors weighted by ∏ C(t_k, r_k))
    is the same as enumerating the assignments of the pooled sample with tie vector T. -/
theorem groups_count_labelings (T : List Nat) (n1 : Nat) (twoU : Int) :
    groupCount T n1 twoU
      = ((Spec.UExact.nullDistOf n1 (poolOf T)).filter fun (d : Nat) => decide ((d : Int) ≤ twoU)).length :=
  C11.groups_count_labelings_nat T n1 twoU

/-- the tied CDF wrapper is the distribution function of the enumeration of the assignments of the
    pooled sample with tie vector T -/
theorem tied_cdf_is_cdf (T : List Nat) (hpos : ∀ t ∈ T, 0 < t) (hK : 2 ≤ T.length) (n1 n2 : Nat)
    (hT : UDist.hasTies T = true) (hN : T.sum = n1 + n2) :
    IsCDFOf (cdfPure n1 n2 T) (Spec.UExact.nullDistOf n1 (poolOf T)) :=
  C11.tied_cdf_is_cdf T hpos hK n1 n2 hT hN

/-- **less_spec for tied samples**: the one-sided p-value is P(2U ≤ 2u) over all assignments -/
theorem less_exact_tied (T : List Nat) (hpos : ∀ t ∈ T, 0 < t) (hK : 2 ≤ T.length) (n1 n2 : Nat)
    (hT : UDist.hasTies T = true) (hN : T.sum = n1 + n2) (u : Nat) (tu2 : Int) :
    exactP (cdfPure n1 n2 T) .less (u : Int) tu2
      = Spec.UExact.pLess (Spec.UExact.nullDistOf n1 (poolOf T)) u :=
  C11.less_exact_tied T hpos hK n1 n2 hT hN u tu2

/-- **greater_spec for tied samples** (uses the half step of 079b4ab) -/
theorem greater_exact_tied (T : List Nat) (hpos : ∀ t ∈ T, 0 < t) (hK : 2 ≤ T.length) (n1 n2 : Nat)
    (hT : UDist.hasTies T = true) (hN : T.sum = n1 + n2) (u : Nat) (tu2 : Int) :
    exactP (cdfPure n1 n2 T) .greater (u : Int) tu2
      = Spec.UExact.pGreater (Spec.UExact.nullDistOf n1 (poolOf T)) u :=
  C11.greater_exact_tied T hpos hK n1 n2 hT hN u tu2

example : exactP (cdfPure 4 3 [3, 2, 2]) .greater ((7 : Nat) : Int) 0
    = Spec.UExact.pGreater (Spec.UExact.nullDistOf 4 (poolOf [3, 2, 2])) 7 :=
  greater_exact_tied [3, 2, 2] (by decide) (by decide) 4 3 (by decide) (by decide) 7 0

/-- **two_sided_asymmetric_witness** (finding N5): for x1 = {1,2}, x2 = {2} the code's two-sided value
    is 4/3, swapped 2/3; the specification demands 1 both ways. Hence `two_sided_spec` is false for
    the code as it stands. -/
theorem two_sided_asymmetric_witness :
    C11.Outcome.p? (mannWhitney cdfPure 50 25 [(1 : Int), 2] [2] .differs) = some ((4 : Rat) / 3) ∧
    C11.Outcome.p? (mannWhitney cdfPure 50 25 [(2 : Int)] [1, 2] .differs) = some ((2 : Rat) / 3) ∧
    Spec.UExact.pTwoSided (Spec.UExact.nullDist [(1 : Int), 2] [2]) (Spec.UExact.twoUPairs [(1 : Int), 2] [2]) = 1 ∧
    Spec.UExact.pTwoSided (Spec.UExact.nullDist [(2 : Int)] [1, 2]) (Spec.UExact.twoUPairs [(2 : Int)] [1, 2]) = 1 :=
  C11.two_sided_asymmetric_witness

/-! ### errors and the normal approximation -/

/-- **errors_spec** (empty): an empty sample is the size error -/
theorem errors_spec_empty {α : Type} [LT α] [DecidableLT α] [DecidableEq α]
    (cdf : Nat → Nat → List Nat → Int → Rat) (lim limT : Nat) (x1 x2 : List α) (alt : Alt)
    (h : x1 = [] ∨ x2 = []) :
    mannWhitney cdf lim limT x1 x2 alt = .error .sampleSize := by
  unfold mannWhitney
  rcases h with h | h <;> simp [h]

/-- **errors_spec** (one tie group): all values equal is the all-equal error on either branch -/
theorem errors_spec_all_equal {α : Type} [LT α] [DecidableLT α] [DecidableEq α]
    (cdf : Nat → Nat → List Nat → Int → Rat) (lim limT : Nat) (alt : Alt)
    (v : α) (hirr : ¬ v < v) (x1 x2 : List α) (h1 : x1 ≠ []) (h2 : x2 ≠ [])
    (e1 : ∀ a ∈ x1, a = v) (e2 : ∀ b ∈ x2, b = v) :
    mannWhitney cdf lim limT x1 x2 alt = .error .samplesEqual :=
  C11.errors_spec_all_equal cdf lim limT alt v hirr x1 x2 h1 h2 e1 e2

example : mannWhitney cdfPure 50 25 [(7 : Int), 7] [7] .less = .error .samplesEqual :=
  errors_spec_all_equal _ _ _ _ 7 (by decide) _ _ (by simp) (by simp) (by simp) (by simp)

/-- **approx_formula.** μ, tie-corrected σ² and the continuity-corrected numerator of the model are
    the textbook ones, as exact rationals. -/
theorem approx_formula (twoU n1 n2 : Nat) (T : List Nat) :
    sigma2 n1 n2 T = Spec.UExact.sigma2 n1 n2 ((T.map fun t => t * t * t - t).sum) ∧
    twoNumer .less (twoU : Int) n1 n2 = Spec.UExact.twoNumerLess twoU n1 n2 ∧
    twoNumer .greater (twoU : Int) n1 n2 = Spec.UExact.twoNumerGreater twoU n1 n2 ∧
    twoNumer .differs (twoU : Int) n1 n2 = Spec.UExact.twoNumerTwoSided twoU n1 n2 :=
  C11.approx_formula twoU n1 n2 T

/-- the model's binomial (Go `mathChoose` on its exact range) is the binomial coefficient -/
theorem choose_is_binomial (n k : Nat) : choose n k = Nat.choose n k := C11.choose_eq n k

/-! ### round 2: the driver's evaluators, relabelling, errors as an iff, two-sided characterisation -/

/-- **makeUmemo_eq_A.** The memo-table evaluator the compiled driver runs (hash-map key sets built
    top-down with pruning, filled bottom-up) computes the pure counting recurrence, for every input. -/
theorem makeUmemo_eq_A (T : List Nat) (n1 twoU : Int) :
    makeUmemo T n1 twoU = A T T.length n1 twoU :=
  C11.makeUmemo_eq_A T n1 twoU

/-- **count_table_is_recurrence.** The integer count table of the untied distribution is
    `pRec · C(n+m,n)` entry by entry -/
theorem count_table_is_recurrence (n m u : Nat) :
    (((cntUntied n m).getD u 0 : Nat) : Rat) = pRec n m (u : Int) * (Nat.choose (n + m) n : Rat) :=
  C11.cntUntied_getD n m u

/-- hence the CDF/PMF the driver evaluates ARE the ones the theorems talk about (this replaces the
    run-time cross-check, which is kept as a redundant sanity test) -/
theorem cdf_eq_cdfPure (n1 n2 : Nat) (T : List Nat) (twoU : Int) : cdf n1 n2 T twoU = cdfPure n1 n2 T twoU :=
  C11.cdf_eq_cdfPure_of C11.pUntied_getD_eq n1 n2 T twoU

theorem pmf_eq_pmfPure (n1 n2 : Nat) (T : List Nat) (twoU : Int) : pmf n1 n2 T twoU = pmfPure n1 n2 T twoU :=
  C11.pmf_eq_pmfPure_of C11.pUntied_getD_eq n1 n2 T twoU

/-- **relabelling, 1**: the null distribution does not depend on the order in which the pooled values
    are listed -/
theorem null_dist_perm_invariant {α : Type} [LinearOrder α] (n : Nat) {pool pool' : List α}
    (h : pool.Perm pool') (P : Nat → Bool) :
    (Spec.UExact.nullDistOf n pool).countP P = (Spec.UExact.nullDistOf n pool').countP P :=
  C11.nullDistOf_countP_perm n h P

/-- **relabelling, 2**: nor on the values themselves, only on their order pattern -/
theorem null_dist_order_iso_invariant {α β : Type} [LinearOrder α] [LinearOrder β] (f : α → β)
    (n : Nat) (pool : List α) (hf : ∀ a ∈ pool, ∀ b ∈ pool, (a < b ↔ f a < f b)) :
    Spec.UExact.nullDistOf n (pool.map f) = Spec.UExact.nullDistOf n pool :=
  C11.nullDistOf_map_of_strictMonoOn f n pool hf

/-- **relabelling, 3 (canonical pool)**: every count over the assignments of the actual pooled values
    equals the count over the canonical pool with the same tie vector; hence the exact p-values depend
    only on (n1, n2, T, U) -/
theorem null_dist_canonical {α : Type} [LinearOrder α] (n : Nat) (pool : List α) (P : Nat → Bool) :
    (Spec.UExact.nullDistOf n pool).countP P
      = (Spec.UExact.nullDistOf n
          (poolOf (Spec.UExact.tieVectorOf ((sortF pool).dedup) pool))).countP P :=
  C11.nullDistOf_canonical n pool P

/-- **errors_spec** as an iff: an error is returned ONLY for an empty sample (size error) or for
    all-equal values (all-equal error), on both branches, whatever the limits -/
theorem errors_spec_iff {α : Type} [LinearOrder α] (cdf : Nat → Nat → List Nat → Int → Rat)
    (lim limT : Nat) (x1 x2 : List α) (alt : Alt) (e : Err) :
    mannWhitney cdf lim limT x1 x2 alt = .error e ↔
      (e = .sampleSize ∧ (x1 = [] ∨ x2 = [])) ∨
      (e = .samplesEqual ∧ x1 ≠ [] ∧ x2 ≠ [] ∧ Spec.UExact.allEqual x1 x2 = true) :=
  C11.errors_spec_iff cdf lim limT x1 x2 alt e

/-- **two_sided_spec_iff**: exactly when the code's two-sided value equals the specification's
    (L = P(2U ≤ u), G = P(2U ≥ u), m = min(u, c−u), c = 2·n1·n2). The N5 class is the negation. -/
theorem two_sided_spec_iff (cdf : Int → Rat) (dist : List Nat) (h : IsCDFOf cdf dist) (c u : Nat) (hu : u ≤ c) :
    exactP cdf .differs (u : Int) ((c : Int) - u) = Spec.UExact.pTwoSided dist u ↔
      (if 2 * u = c then 1 ≤ 2 * Spec.UExact.ratMin (Spec.UExact.pLess dist u) (Spec.UExact.pGreater dist u)
       else (2 * Spec.UExact.pLess dist (min u (c - u)) = 2 * Spec.UExact.ratMin (Spec.UExact.pLess dist u) (Spec.UExact.pGreater dist u)
              ∧ 2 * Spec.UExact.ratMin (Spec.UExact.pLess dist u) (Spec.UExact.pGreater dist u) ≤ 1)
          ∨ (2 * Spec.UExact.pLess dist (min u (c - u)) = 1
              ∧ 1 ≤ 2 * Spec.UExact.ratMin (Spec.UExact.pLess dist u) (Spec.UExact.pGreater dist u))) :=
  C11.two_sided_spec_iff cdf dist h c u hu

/-! ### round 2: the property for ACTUAL samples, end to end

Hypotheses common to the statements below: both samples non-empty, not all values equal, and the
exact-branch condition of utest.go:165 holds (on the model's own hasTies flag). -/

/-- on the exact branch the result is U by pair counting and the per-alternative formula applied to
    `UDist{n1,n2,T}.CDF` with T the tie vector -/
theorem exact_outcome_shape {α : Type} [LinearOrder α] (cdf : Nat → Nat → List Nat → Int → Rat) (lim limT : Nat)
    (x1 x2 : List α) (alt : Alt) (h1 : x1 ≠ []) (h2 : x2 ≠ [])
    (hne : Spec.UExact.allEqual x1 x2 = false)
    (hb : exactBranch (ranks (labeledMerge (sortF x1) (sortF x2))).hasTies x1.length x2.length lim limT = true) :
    mannWhitney cdf lim limT x1 x2 alt
      = .exact ((Spec.UExact.twoUPairs x1 x2 : Nat) : Int)
          (exactP (cdf x1.length x2.length (tieVector x1 x2)) alt ((Spec.UExact.twoUPairs x1 x2 : Nat) : Int)
            (((2 * (x1.length * x2.length) : Nat) : Int) - ((Spec.UExact.twoUPairs x1 x2 : Nat) : Int))) :=
  C11.exact_outcome_shape cdf lim limT x1 x2 alt h1 h2 hne hb

/-- the CDF the code consults is the distribution function of the doubled statistic over all
    C(N, n1) assignments of the ACTUAL pooled values — tied or not -/
theorem cdf_is_null_distribution {α : Type} [LinearOrder α] (x1 x2 : List α) (h1 : x1 ≠ [])
    (hne : Spec.UExact.allEqual x1 x2 = false) :
    IsCDFOf (cdfPure x1.length x2.length (tieVector x1 x2)) (Spec.UExact.nullDist x1 x2) :=
  C11.cdfPure_isCDFOf_nullDist x1 x2 h1 hne

/-- **less_spec, end to end**: `MannWhitneyUTest(x1, x2, LocationLess)` = (U by pair counting,
    P(U' ≤ U) over all equally likely assignments of the pooled values) -/
theorem less_exact {α : Type} [LinearOrder α] (x1 x2 : List α) (lim limT : Nat) (h1 : x1 ≠ []) (h2 : x2 ≠ [])
    (hne : Spec.UExact.allEqual x1 x2 = false)
    (hb : exactBranch (ranks (labeledMerge (sortF x1) (sortF x2))).hasTies x1.length x2.length lim limT = true) :
    mannWhitney cdfPure lim limT x1 x2 .less
      = .exact ((Spec.UExact.twoUPairs x1 x2 : Nat) : Int)
          (Spec.UExact.pLess (Spec.UExact.nullDist x1 x2) (Spec.UExact.twoUPairs x1 x2)) :=
  C11.less_exact x1 x2 lim limT h1 h2 hne hb

theorem example_merge : labeledMerge (sortF [(1 : Int), 2, 2]) (sortF [1, 3])
    = [(1, false), (1, true), (2, true), (2, true), (3, false)] := by
  simp [sortF, insertSorted, labeledMerge]

/-- the hypotheses are satisfiable: x1 = {1,2,2}, x2 = {1,3} (tied, K = 3) -/
example : mannWhitney cdfPure 50 25 [(1 : Int), 2, 2] [1, 3] .less
    = .exact ((Spec.UExact.twoUPairs [(1 : Int), 2, 2] [1, 3] : Nat) : Int)
        (Spec.UExact.pLess (Spec.UExact.nullDist [(1 : Int), 2, 2] [1, 3])
          (Spec.UExact.twoUPairs [(1 : Int), 2, 2] [1, 3])) :=
  less_exact _ _ 50 25 (by simp) (by simp) (by decide) (by rw [example_merge]; decide)

/-- **greater_spec, end to end** -/
theorem greater_exact {α : Type} [LinearOrder α] (x1 x2 : List α) (lim limT : Nat) (h1 : x1 ≠ []) (h2 : x2 ≠ [])
    (hne : Spec.UExact.allEqual x1 x2 = false)
    (hb : exactBranch (ranks (labeledMerge (sortF x1) (sortF x2))).hasTies x1.length x2.length lim limT = true) :
    mannWhitney cdfPure lim limT x1 x2 .greater
      = .exact ((Spec.UExact.twoUPairs x1 x2 : Nat) : Int)
          (Spec.UExact.pGreater (Spec.UExact.nullDist x1 x2) (Spec.UExact.twoUPairs x1 x2)) :=
  C11.greater_exact x1 x2 lim limT h1 h2 hne hb

/-- the same for the evaluator the compiled driver runs (memo table / count table) -/
theorem less_exact_driver {α : Type} [LinearOrder α] (x1 x2 : List α) (lim limT : Nat) (h1 : x1 ≠ []) (h2 : x2 ≠ [])
    (hne : Spec.UExact.allEqual x1 x2 = false)
    (hb : exactBranch (ranks (labeledMerge (sortF x1) (sortF x2))).hasTies x1.length x2.length lim limT = true) :
    mannWhitney cdf lim limT x1 x2 .less
      = .exact ((Spec.UExact.twoUPairs x1 x2 : Nat) : Int)
          (Spec.UExact.pLess (Spec.UExact.nullDist x1 x2) (Spec.UExact.twoUPairs x1 x2)) :=
  C11.less_exact_driver x1 x2 lim limT h1 h2 hne hb

theorem greater_exact_driver {α : Type} [LinearOrder α] (x1 x2 : List α) (lim limT : Nat) (h1 : x1 ≠ []) (h2 : x2 ≠ [])
    (hne : Spec.UExact.allEqual x1 x2 = false)
    (hb : exactBranch (ranks (labeledMerge (sortF x1) (sortF x2))).hasTies x1.length x2.length lim limT = true) :
    mannWhitney cdf lim limT x1 x2 .greater
      = .exact ((Spec.UExact.twoUPairs x1 x2 : Nat) : Int)
          (Spec.UExact.pGreater (Spec.UExact.nullDist x1 x2) (Spec.UExact.twoUPairs x1 x2)) :=
  C11.greater_exact_driver x1 x2 lim limT h1 h2 hne hb

/-- **two_sided_spec, end to end, under symmetry**: whenever the null distribution of the samples is
    symmetric about n1·n2 the two-sided result is min(1, 2·min(one-sided)) -/
theorem two_sided_exact_of_symmetric {α : Type} [LinearOrder α] (x1 x2 : List α) (lim limT : Nat)
    (h1 : x1 ≠ []) (h2 : x2 ≠ []) (hne : Spec.UExact.allEqual x1 x2 = false)
    (hb : exactBranch (ranks (labeledMerge (sortF x1) (sortF x2))).hasTies x1.length x2.length lim limT = true)
    (hsym : ∀ v : Nat, ((Spec.UExact.nullDist x1 x2).filter (· ≤ v)).length
      = ((Spec.UExact.nullDist x1 x2).filter (fun d => decide (d + v ≥ 2 * (x1.length * x2.length)))).length) :
    mannWhitney cdfPure lim limT x1 x2 .differs
      = .exact ((Spec.UExact.twoUPairs x1 x2 : Nat) : Int)
          (Spec.UExact.pTwoSided (Spec.UExact.nullDist x1 x2) (Spec.UExact.twoUPairs x1 x2)) :=
  C11.two_sided_exact_of_symmetric x1 x2 lim limT h1 h2 hne hb hsym

/-- … which holds for samples without ties … -/
theorem two_sided_exact_of_untied {α : Type} [LinearOrder α] (x1 x2 : List α) (lim limT : Nat)
    (h1 : x1 ≠ []) (h2 : x2 ≠ []) (hne : Spec.UExact.allEqual x1 x2 = false)
    (hT : (ranks (labeledMerge (sortF x1) (sortF x2))).hasTies = false)
    (hb : exactBranch (ranks (labeledMerge (sortF x1) (sortF x2))).hasTies x1.length x2.length lim limT = true) :
    mannWhitney cdfPure lim limT x1 x2 .differs
      = .exact ((Spec.UExact.twoUPairs x1 x2 : Nat) : Int)
          (Spec.UExact.pTwoSided (Spec.UExact.nullDist x1 x2) (Spec.UExact.twoUPairs x1 x2)) :=
  C11.two_sided_exact_of_untied x1 x2 lim limT h1 h2 hne hT hb

/-- … and for samples whose tie vector is palindromic -/
theorem two_sided_exact_of_palindromic {α : Type} [LinearOrder α] (x1 x2 : List α) (lim limT : Nat)
    (h1 : x1 ≠ []) (h2 : x2 ≠ []) (hne : Spec.UExact.allEqual x1 x2 = false)
    (hb : exactBranch (ranks (labeledMerge (sortF x1) (sortF x2))).hasTies x1.length x2.length lim limT = true)
    (hpal : (tieVector x1 x2).reverse = tieVector x1 x2) :
    mannWhitney cdfPure lim limT x1 x2 .differs
      = .exact ((Spec.UExact.twoUPairs x1 x2 : Nat) : Int)
          (Spec.UExact.pTwoSided (Spec.UExact.nullDist x1 x2) (Spec.UExact.twoUPairs x1 x2)) :=
  C11.two_sided_exact_of_palindromic x1 x2 lim limT h1 h2 hne hb hpal

/-- reversing the tie vector mirrors the null distribution about n1·n2 -/
theorem null_dist_mirror_reverse (T : List Nat) (n : Nat) (P : Nat → Bool) :
    (Spec.UExact.nullDistOf n (poolOf T.reverse)).countP P
      = ((Spec.UExact.nullDistOf n (poolOf T)).map (fun d => 2 * n * (T.sum - n) - d)).countP P :=
  C11.nullDist_mirror_reverse T n P

/-- a palindromic tie vector has a symmetric null distribution (sufficient, not necessary: T = [1,3]) -/
theorem palindromic_symmetric (T : List Nat) (hpal : T.reverse = T) (n : Nat) (v : Nat) :
    ((Spec.UExact.nullDistOf n (poolOf T)).filter (· ≤ v)).length
      = ((Spec.UExact.nullDistOf n (poolOf T)).filter
          (fun d => decide (d + v ≥ 2 * (n * (T.sum - n))))).length :=
  C11.palindromic_symmetric T hpal n v

/-! ### benchmath.AssumeNothing.Compare (what cmd/benchstat prints) -/

/-- swap lemma for the enumerations: choosing the complement mirrors the statistic, so the lower tail
    of the swapped samples at c − u is the upper tail of the original samples at u (c = 2·n1·n2) -/
theorem p_less_swap {α : Type} [LinearOrder α] (x1 x2 : List α) (u : Nat) (hu : u ≤ 2 * (x1.length * x2.length)) :
    Spec.UExact.pLess (Spec.UExact.nullDist x2 x1) (2 * (x1.length * x2.length) - u)
      = Spec.UExact.pGreater (Spec.UExact.nullDist x1 x2) u :=
  C11.pLess_swap x1 x2 u hu

/-- the specification's two-sided p does not change when the samples are swapped -/
theorem spec_two_sided_swap {α : Type} [LinearOrder α] (x1 x2 : List α) :
    Spec.UExact.pTwoSided (Spec.UExact.nullDist x2 x1) (Spec.UExact.twoUPairs x2 x1)
      = Spec.UExact.pTwoSided (Spec.UExact.nullDist x1 x2) (Spec.UExact.twoUPairs x1 x2) :=
  C11.pTwoSided_swap x1 x2

/-- **compare_exact.** Inside the exact regime (both samples non-empty, not all equal, exact-branch
    condition) `AssumeNothing.Compare` — min(1, 2·min(less(x1,x2), less(x2,x1))) — IS the exact two-sided
    permutation p-value: twice the smaller of the two one-sided tail probabilities over all assignments,
    capped at 1. No symmetry hypothesis: this is the full `two_sided_spec` for the value benchstat prints
    (the N5 defect of `MannWhitneyUTest(…, LocationDiffers)` does not reach it). -/
theorem compare_exact {α : Type} [LinearOrder α] (x1 x2 : List α) (lim limT : Nat)
    (h1 : x1 ≠ []) (h2 : x2 ≠ []) (hne : Spec.UExact.allEqual x1 x2 = false)
    (hb : exactBranch (ranks (labeledMerge (sortF x1) (sortF x2))).hasTies x1.length x2.length lim limT = true) :
    compareAssumeNothing cdfPure lim limT x1 x2
      = .ok (Spec.UExact.pTwoSided (Spec.UExact.nullDist x1 x2) (Spec.UExact.twoUPairs x1 x2)) :=
  C11.compare_exact' x1 x2 lim limT h1 h2 hne hb

/-- … and does not change when the two samples are swapped -/
theorem compare_swap_symmetric {α : Type} [LinearOrder α] (x1 x2 : List α) (lim limT : Nat)
    (h1 : x1 ≠ []) (h2 : x2 ≠ []) (hne : Spec.UExact.allEqual x1 x2 = false)
    (hb : exactBranch (ranks (labeledMerge (sortF x1) (sortF x2))).hasTies x1.length x2.length lim limT = true) :
    compareAssumeNothing cdfPure lim limT x1 x2 = compareAssumeNothing cdfPure lim limT x2 x1 :=
  C11.compare_swap_symmetric' x1 x2 lim limT h1 h2 hne hb

/-- the same for the evaluator the compiled driver runs -/
theorem compare_exact_driver {α : Type} [LinearOrder α] (x1 x2 : List α) (lim limT : Nat)
    (h1 : x1 ≠ []) (h2 : x2 ≠ []) (hne : Spec.UExact.allEqual x1 x2 = false)
    (hb : exactBranch (ranks (labeledMerge (sortF x1) (sortF x2))).hasTies x1.length x2.length lim limT = true) :
    compareAssumeNothing cdf lim limT x1 x2
      = .ok (Spec.UExact.pTwoSided (Spec.UExact.nullDist x1 x2) (Spec.UExact.twoUPairs x1 x2)) :=
  C11.compare_exact_driver x1 x2 lim limT h1 h2 hne hb

/-- non-vacuity on a tied pair of unequal sizes (breaker C11-Q witness): {1} vs {0,0} ↦ 2/3, both orders -/
example : compareAssumeNothing cdfPure 50 25 [(1 : Int)] [0, 0] = .ok (2 / 3) := C11.compare_example
example : compareAssumeNothing cdfPure 50 25 [(0 : Int), 0] [1] = .ok (2 / 3) := C11.compare_example_swapped

end C11.Props
