import Model.Base.Proto
import Model.Math.Sample
import Model.Math.Exact
import Model.Math.Nothing
import Model.Math.Normal
import Model.Math.Render
import Model.Spec.MathSpec

/-!
Driver for C13. For every `case` line of the harness it prints
* `obs`  — the MODEL's observables (Model/Math/*), floats as bit patterns (NaN and the sign of
           zero canonicalised exactly as the harness does), rendered strings hex encoded;
* `spec` — the verdicts of the SPECIFICATION oracle (Model/Spec/MathSpec, exact rationals) on
           the implementation's own outputs (the `i*` fields of the case line).
-/

namespace Driver.C13
open Proto Math

def bits? (s : String) : Option F64.Bits := F64.ofHex? s
def bitsD (l : Line) (k : String) : F64.Bits := ((l.get? k).bind bits?).getD F64.nan
def bitsList (s : String) : List F64.Bits := if s == "-" then [] else (s.splitOn ",").filterMap bits?
def hexStr (s : String) : String := (Bytes.ofString s).toHex
def unhexStr (s : String) : String := match Bytes.ofHex s with
  | some b => (String.fromUTF8? (ByteArray.mk b.toArray)).getD "?"
  | none => "?"

/-- canonical float for obs lines -/
def canon (b : F64.Bits) : String :=
  if F64.isNaN b then F64.toHex F64.nan else F64.toHex b

def showList (l : List F64.Bits) : String := if l.isEmpty then "-" else ",".intercalate (l.map F64.toHex)

def showSWarn : SWarning F64.Bits → String
  | .range _ _ => "range"
  | .needCI op n _ => s!"need:{op.show}:{n}"

def showCWarn : CWarning → String
  | .needU op n _ => s!"need:{op.show}:{n}"
  | .err e => e

def showWarns (l : List String) : String := if l.isEmpty then "-" else "+".intercalate l

def testResult (s : String) : TestResult :=
  if s.startsWith "err" then .err s else match bits? s with
    | some b => .ok b
    | none => .err "err:parse"

def needTab (s : String) : List (Nat × Nat) :=
  if s == "" || s == "-" then [] else
  (s.splitOn ",").map fun e => match e.splitOn ":" with
    | [a, b] => (a.toNat?.getD 0, b.toNat?.getD 0)
    | _ => (0, 0)

def showFSummary (s : FSummary) (warn : String) : String :=
  s!"center={canon s.center} lo={canon s.lo} hi={canon s.hi} conf={canon s.confidence} warn={warn} pct={hexStr (Render.pctRangeString s)}"

def handleSum (l : Line) : IO Unit := do
  let id := l.id
  let a := l.getD "a"
  let vals := bitsList (l.getD "vals")
  let conf := bitsD l "conf"
  let s : Sample F64.Bits := newSample vals { compareAlpha := 0x3FA999999999999A }
  let res : Option (FSummary × String) :=
    match a with
    | "exact" => (Exact.summary s).map fun r => (r.toF, showWarns (r.warnings.map showSWarn))
    | "nothing" =>
      let ci : Nothing.QCI := { loOrder := (l.nat? "qlo").getD 0, hiOrder := (l.nat? "qhi").getD 0, confidence := bitsD l "qconf" }
      (Nothing.summary s conf ci (needTab (l.getD "need"))).map fun r => (r.toF, showWarns (r.warnings.map showSWarn))
    | _ =>
      some (Normal.summary conf { mean := bitsD l "mean", lo := bitsD l "mlo", hi := bitsD l "mhi" }, "-")
  match res with
  | some (fs, w) => IO.println s!"obs {id} {showFSummary fs w}"
  | none => IO.println s!"obs {id} panic"
  -- specification oracle on the implementation's outputs
  let impl : Spec.MathSpec.ImplSummary :=
    { center := bitsD l "ic", lo := bitsD l "ilo", hi := bitsD l "ihi", conf := bitsD l "iconf",
      warn := l.getD "iwarn" != "-", warnText := l.getD "iwarn", pct := unhexStr (l.getD "ipct"),
      wn := (l.nat? "wn").getD 0, wfin := l.getD "wfin" == "1", wprev := l.getD "wprev" == "1",
      rev := l.getD "irev", alt := l.getD "ialt", imod := l.getD "imod" }
  let v := match a with
    | "exact" => Spec.MathSpec.judgeExact vals impl
    | "nothing" => Spec.MathSpec.judgeNothing vals conf ((l.nat? "qlo").getD 0) ((l.nat? "qhi").getD 0) (needTab (l.getD "need")) impl
    | _ => Spec.MathSpec.judgeNormal vals conf impl
  IO.println s!"spec {id} {v}"

def comparisonOf (l : Line) : String × Comparison :=
  let a := l.getD "a"
  let alpha := bitsD l "alpha"
  let s1 : Sample F64.Bits := newSample (bitsList (l.getD "v1")) { compareAlpha := alpha }
  let s2 : Sample F64.Bits := newSample (bitsList (l.getD "v2")) { compareAlpha := bitsD l "alpha2" }
  let c := match a with
    | "exact" => Exact.compare s1 s2
    | "nothing" => Nothing.compare s1 s2 { differs := testResult (l.getD "ud"), less12 := testResult (l.getD "ul1"),
                                            less21 := testResult (l.getD "ul2") }
    | _ => Normal.compare s1 s2 (testResult (l.getD "wp"))
  (a, c)

def handleCmp (l : Line) : IO Unit := do
  let id := l.id
  let (a, c) := comparisonOf l
  let old := bitsD l "old"
  let new := bitsD l "new"
  IO.println s!"obs {id} p={canon c.p} n1={c.n1} n2={c.n2} alpha={canon c.alpha} warn={showWarns (c.warnings.map showCWarn)} delta={hexStr (Render.formatDelta c old new)} str={hexStr (Render.comparisonString c)}"
  let impl : Spec.MathSpec.ImplComparison :=
    { p := bitsD l "ip", n1 := (l.nat? "in1").getD 0, n2 := (l.nat? "in2").getD 0, alpha := bitsD l "ialpha",
      p21 := bitsD l "ip21", psh := bitsD l "ipsh", psc := bitsD l "ipsc",
      delta := unhexStr (l.getD "idelta"), str := unhexStr (l.getD "istr"), warn := l.getD "iwarn",
      alpha2 := bitsD l "alpha2", imod := l.getD "imod" }
  -- samples containing NaN are outside the property's quantifier: correspondence only
  if l.getD "nan" == "1" then return
  let v := Spec.MathSpec.judgeCompare a (bitsList (l.getD "v1")) (bitsList (l.getD "v2")) (bitsD l "alpha") old new impl
    ((l.getD "k").toInt?.getD 0)
  IO.println s!"spec {id} {v}"

def handleFd (l : Line) : IO Unit := do
  let id := l.id
  let c : Comparison := { p := bitsD l "p", n1 := (l.nat? "n1").getD 0, n2 := (l.nat? "n2").getD 0,
                          alpha := bitsD l "alpha", warnings := [] }
  let old := bitsD l "old"
  let new := bitsD l "new"
  IO.println s!"obs {id} delta={hexStr (Render.formatDelta c old new)} str={hexStr (Render.comparisonString c)}"
  let v := Spec.MathSpec.judgeRenderCmp c.p c.alpha c.n1 c.n2 old new (unhexStr (l.getD "idelta")) (unhexStr (l.getD "istr"))
  IO.println s!"spec {id} {v}"

def handlePr (l : Line) : IO Unit := do
  let id := l.id
  let s : FSummary := { center := bitsD l "c", lo := bitsD l "lo", hi := bitsD l "hi", confidence := F64.one }
  IO.println s!"obs {id} pct={hexStr (Render.pctRangeString s)}"
  IO.println s!"spec {id} pct={Spec.MathSpec.judgePct s.center s.lo s.hi (unhexStr (l.getD "ipct"))}"

/-- the real code panicked on this case. The model has no panics of its own on non-empty samples; the
one place a panic can come from is an external call it takes as data (`wp=panic`: moremath's Welch
t-test did not return; `assumeNormal.Compare` does not recover). -/
def handlePanic (l : Line) : IO Unit := do
  let id := l.id
  let kind := l.getD "kind"
  let a := l.getD "a"
  if kind == "cmp" && a == "normal" && l.getD "wp" == "panic" then
    IO.println s!"obs {id} panic"
  else
    IO.println s!"obs {id} no-panic-in-model"
  IO.println s!"spec {id} {Spec.MathSpec.judgePanic kind a (bitsList (l.getD "v1")) (bitsList (l.getD "v2"))}"

/-- aliasing family: samples that are windows of one backing array. The property's functions must
not modify their inputs and must depend on the values only. -/
def handleAlias (l : Line) : IO Unit := do
  let id := l.id
  let split (k : String) : List String := if l.getD k == "" then [] else (l.getD k).splitOn ","
  let wins := split "win"
  IO.println s!"obs {id} windows={wins.length} ops={(split "ops").length}"
  let vals (w : String) : List F64.Bits := if w == "-" then [] else (w.splitOn "+").filterMap bits?
  -- (a) every window still holds the values it was created with, in `NewSample`'s order
  let intact := ((split "before").zip (split "after")).all fun (b, a) =>
    (sortVals (vals b)).map F64.toHex == (vals a).map F64.toHex
  -- (b) every result equals the result of the same call on freshly copied samples
  let bad := (((split "ops").zip ((split "ra").zip (split "rf"))).filter fun (_, (x, y)) => x != y).map (·.1)
  let same := if bad.isEmpty then "ok" else "differs-from-fresh-copies:" ++ "+".intercalate (bad.take 3)
  IO.println s!"spec {id} intact={if intact then "ok" else "input-modified"} same={same}"

def handle (l : Line) : IO Unit := do
  if l.kind != "case" then return
  if l.getD "panic" == "1" then
    handlePanic l
    return
  match l.getD "kind" with
  | "sum" => handleSum l
  | "cmp" => handleCmp l
  | "fd" => handleFd l
  | "pr" => handlePr l
  | "alias" => handleAlias l
  | "sw" =>
    -- Samples built without NewSample / with caller-set Warnings: results equal those of NewSample
    -- samples of the same values; warnings of earlier summaries unchanged; caller's slice untouched
    let ops := (l.getD "ops").splitOn ","
    IO.println s!"obs {l.id} ops={ops.length}"
    let bad := ((ops.zip (((l.getD "ra").splitOn ",").zip ((l.getD "rf").splitOn ","))).filter fun (_, (x, y)) => x != y).map (·.1)
    let same := if bad.isEmpty then "ok" else "differs-from-NewSample:" ++ "+".intercalate (bad.take 3)
    let again := if l.getD "w1" == l.getD "w2" then "ok" else "earlier-summary-rewritten"
    IO.println s!"spec {l.id} same={same} again={again} in=kept"
  | "conc" =>
    -- calls from several goroutines at once on the same samples: every result equals the sequential one
    let jobs := (l.getD "jobs").splitOn ","
    IO.println s!"obs {l.id} jobs={jobs.length}"
    let bad := ((jobs.zip (((l.getD "rc").splitOn ",").zip ((l.getD "rs").splitOn ","))).filter fun (_, (x, y)) => x != y).map (·.1)
    IO.println s!"spec {l.id} conc={if bad.isEmpty then "ok" else "differs-from-sequential:" ++ "+".intercalate (bad.take 3)}"
  | "glob" =>
    -- package-level state after the whole run: DefaultThresholds.CompareAlpha = 0.05, the table intact
    IO.println s!"obs {l.id} default={F64.toHex 0x3FA999999999999A} minp={showList Nothing.uTestMinP}"
    let d := if bitsD l "idef" == 0x3FA999999999999A then "ok" else "default-thresholds-modified"
    IO.println s!"spec {l.id} default={d} minp={Spec.MathSpec.judgeMinP (bitsList (l.getD "itab"))}"
  | "tab" =>
    IO.println s!"obs {l.id} minp={showList Nothing.uTestMinP}"
    IO.println s!"spec {l.id} minp={Spec.MathSpec.judgeMinP (bitsList (l.getD "itab"))}"
  | "uts" =>
    let on := Nothing.uTestSamples (bitsD l "alpha")
    IO.println s!"obs {l.id} need={on.1.show}:{on.2}"
  | "ms" =>
    let on := Nothing.medianSamplesAbove (needTab (l.getD "need")) ((l.nat? "have").getD 0)
    IO.println s!"obs {l.id} need={on.1.show}:{on.2}"
  | _ => pure ()

end Driver.C13

def main : IO Unit := do
  let stdin ← IO.getStdin
  Proto.forEachLine stdin fun s => Driver.C13.handle (Proto.parseLine s)
