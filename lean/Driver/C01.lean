import Std.Data.HashMap
import Model.Base.Proto
import Model.Fmt.Reader
import Model.Fmt.Writer
import Model.Spec.RoundTrip
import Model.Spec.FmtFloat

/-
C01 driver.

case <id> kind=api|text|filter wf=0|1 cr=0|1 long=0|1 h=<history> fmt=<tbl> wbytes=<hex> nums=<tbl> tidy=<tbl> uni=<tbl> tag=…
  h    : rec|rec|…  ("-" = empty)   the records handed to Writer.Write, as they were at that moment
         rec = R;<name>;<iters>;<v,v,…|->;<c,c,…|->     v = bits:unit:origbits:origunit   c = key:value:F|I
             | U;<tidy unit>;<key>;<unit as written>;<value>
             | E
  fmt  : bits:text,…      Go's `%v` text of every value the writer prints in this case
  wbytes : what the IMPLEMENTATION wrote for h
  nums/tidy/uni : the C02 reader oracles for the fields of wbytes (and the strings of h)

obs  <id> fmt=<tbl>       bits:text of Spec.FmtFloat.fmtNumSpec — the SPEC of %v — for every value of fmt=
                          (Go: the fmt= table itself, i.e. what `fmt` printed)
obs  <id> bytes=<hex>     model writer's bytes                      (Go: implementation's bytes)
obs  <id> ir=<stream>     observe(MODEL read(IMPLEMENTATION bytes)) (Go: observe(h) by the harness)
obs  <id> mr=<stream>     observeWritten h                          (Go: observe(IMPL read(MODEL bytes)),
                                                                     model bytes fetched from `driver_c01 serve`)
       ir/mr are `skip` when wf=0, cr=1 or long=1 on the case line (round trip not expected / N1 / N1L:
       a written line of 64 KiB or more)
spec <id> rt=<stream> leak=- [kf=N1|N1L|N1+N1L]     only when the history satisfies Spec.RoundTrip.WFnoCR
       (Go: sobs <id> rt=observe(IMPL read(IMPL bytes)) leak=<internal keys read back as file config>)

serve mode (`driver_c01 serve`):  wreq <id> h=… fmt=…  ↦  wbytes <id> <hex>
-/

namespace Driver.C01
open Proto Fmt

def hexNat (s : String) : Option Nat :=
  s.toList.foldl (fun acc c => match acc, Bytes.hexVal c with
    | some a, some d => some (a * 16 + d)
    | _, _ => none) (some 0)

def hex64 (v : UInt64) : String :=
  let n := v.toNat
  String.ofList ((List.range 16).map fun i => Bytes.hexDigit ((n >>> (4 * (15 - i))) % 16))

def missing : Bytes := Bytes.ofString "ORACLE-MISSING"

def parseErr (s : String) : NumErr :=
  if s == "s" then .syntax
  else if s == "r" then .range
  else .other ((Bytes.ofHex (s.drop 1).toString).getD missing)

def parseInt (s : String) : Option Int :=
  if s.startsWith "-" then (s.drop 1).toString.toNat?.map (fun n => -(Int.ofNat n))
  else s.toNat?.map Int.ofNat

structure Tables where
  atoi : Std.HashMap String (Except NumErr Int) := {}
  atof : Std.HashMap String (Except NumErr UInt64) := {}
  tidy : Std.HashMap String (UInt64 × Bytes) := {}
  uni : Std.HashMap Nat Nat := {}
  fmt : Std.HashMap Nat Bytes := {}

def entries (s : String) : List (List String) :=
  if s == "-" || s == "" then [] else (s.splitOn ",").map (·.splitOn ":")

def mkTables (l : Line) : Tables := Id.run do
  let mut t : Tables := {}
  for e in entries (l.getD "nums" "-") do
    match e with
    | [f, i, x] =>
      let iv : Except NumErr Int :=
        if i.startsWith "i" then
          match parseInt (i.drop 1).toString with
          | some v => .ok v
          | none => .error (.other missing)
        else .error (parseErr i)
      let fv : Except NumErr UInt64 :=
        if x.startsWith "f" then
          match hexNat (x.drop 1).toString with
          | some v => .ok (UInt64.ofNat v)
          | none => .error (.other missing)
        else .error (parseErr x)
      t := { t with atoi := t.atoi.insert f iv, atof := t.atof.insert f fv }
    | _ => pure ()
  for e in entries (l.getD "tidy" "-") do
    match e with
    | [b, u, tb, tu] =>
      match hexNat tb, Bytes.ofHex tu with
      | some tbv, some tuv => t := { t with tidy := t.tidy.insert (b ++ ":" ++ u) (UInt64.ofNat tbv, tuv) }
      | _, _ => pure ()
    | _ => pure ()
  for e in entries (l.getD "uni" "-") do
    match e with
    | [r, f] =>
      match hexNat r, f.toNat? with
      | some rv, some fv => t := { t with uni := t.uni.insert rv fv }
      | _, _ => pure ()
    | _ => pure ()
  for e in entries (l.getD "fmt" "-") do
    match e with
    | [b, x] =>
      match hexNat b, Bytes.ofHex x with
      | some bv, some xv => t := { t with fmt := t.fmt.insert bv xv }
      | _, _ => pure ()
    | _ => pure ()
  return t

def mkOracles (t : Tables) : Oracles :=
  let flag (bit : Nat) (r : Nat) : Bool := ((t.uni.getD r 0) >>> bit) % 2 == 1
  { uc := { isSpace := flag 0, isUpper := flag 1, isLower := flag 2 }
    atoi := fun f => (t.atoi.get? f.toHex).getD (.error (.other missing))
    atof := fun f => (t.atof.get? f.toHex).getD (.error (.other missing))
    tidy := fun v u => (t.tidy.get? (hex64 v ++ ":" ++ u.toHex)).getD (0, missing) }

def mkParams (t : Tables) : WParams :=
  { fmtNum := fun b => (t.fmt.get? b.toNat).getD missing }

/-! ### history -/

def u64? (s : String) : Option UInt64 := (hexNat s).map UInt64.ofNat

def listOf (s : String) : List String := if s == "-" || s == "" then [] else s.splitOn ","

def parseVal (s : String) : Option Val :=
  match s.splitOn ":" with
  | [v, u, ov, ou] =>
    match u64? v, Bytes.ofHex u, u64? ov, Bytes.ofHex ou with
    | some v, some u, some ov, some ou => some { value := v, unit := u, origValue := ov, origUnit := ou }
    | _, _, _, _ => none
  | _ => none

def parseCfg (s : String) : Option Cfg :=
  match s.splitOn ":" with
  | [k, v, f] =>
    match Bytes.ofHex k, Bytes.ofHex v with
    | some k, some v => some { key := k, value := v, file := f == "F" }
    | _, _ => none
  | _ => none

def parseRec (s : String) : Option Rec :=
  match s.splitOn ";" with
  | ["R", name, iters, vals, cfg] =>
    match Bytes.ofHex name, parseInt iters, (listOf vals).mapM parseVal, (listOf cfg).mapM parseCfg with
    | some name, some iters, some vals, some cfg =>
      some (.result { config := cfg, name := name, iters := iters, values := vals, fileName := [], line := 0 })
    | _, _, _, _ => none
  | ["U", unit, key, orig, value] =>
    match Bytes.ofHex unit, Bytes.ofHex key, Bytes.ofHex orig, Bytes.ofHex value with
    | some unit, some key, some orig, some value =>
      some (.unit { unit := unit, key := key, origUnit := orig, value := value, fileName := [], line := 0 })
    | _, _, _, _ => none
  | ["E"] => some (.err { fileName := [], line := 0, msg := [] })
  | _ => none

def parseHistory (s : String) : Option (List Rec) :=
  if s == "-" || s == "" then some [] else (s.splitOn "|").mapM parseRec

/-! ### observation stream -/

def sortStrings (l : List String) : List String := (l.toArray.qsort (· < ·)).toList

def joinOr (sep : String) (l : List String) : String := if l.isEmpty then "-" else sep.intercalate l

open Spec.RoundTrip in
def showObs : Obs → String
  | .result name iters vals fm =>
    let vs := vals.map fun (b, u) => s!"{hex64 b}.{u.toHex}"
    let ms := sortStrings (fm.map fun (k, v) => s!"{k.toHex}.{v.toHex}")
    s!"R/{name.toHex}/{iters}/{joinOr "+" vs}/{joinOr "+" ms}"
  | .unit orig key value tidy => s!"U/{orig.toHex}/{key.toHex}/{value.toHex}/{tidy.toHex}"
  | .err msg => s!"E/{msg.toHex}"

def showStream (l : List Spec.RoundTrip.Obs) : String := joinOr "," (l.map showObs)

def handleCase (l : Line) : IO Unit := do
  let t := mkTables l
  let O := mkOracles t
  let P := mkParams t
  match parseHistory (l.getD "h" "-") with
  | none =>
    IO.println s!"obs {l.id} bytes=BAD-HISTORY"
  | some h =>
    -- the specification of %v against what Go printed
    let specTbl := (entries (l.getD "fmt" "-")).filterMap fun e =>
      match e with
      | [b, _] => (hexNat b).map fun bv => s!"{b}:{(Spec.FmtFloat.fmtNumSpec (UInt64.ofNat bv)).toHex}"
      | _ => none
    IO.println s!"obs {l.id} fmt={joinOr "," specTbl}"
    let mbytes := render (Writer.writeAll P h)
    IO.println s!"obs {l.id} bytes={mbytes.toHex}"
    let roundTrips := l.getD "wf" "1" == "1" && l.getD "cr" "0" == "0" && l.getD "long" "0" == "0"
    if roundTrips then
      let wbytes := (l.bytes? "wbytes").getD []
      IO.println s!"obs {l.id} ir={showStream (Spec.RoundTrip.observeRead (readAll O [] wbytes))}"
      IO.println s!"obs {l.id} mr={showStream (Spec.RoundTrip.observeWritten h)}"
    else
      IO.println s!"obs {l.id} ir=skip"
      IO.println s!"obs {l.id} mr=skip"
    if Spec.RoundTrip.WFnoCR O h then
      -- N1L: some written line is beyond the reader's line limit (bufio.MaxScanTokenSize)
      let tooLong := (Writer.writeAll P h).any (fun ln => ln.length ≥ 65536)
      let kfs := (if Spec.RoundTrip.hasCRValue h then ["N1"] else []) ++ (if tooLong then ["N1L"] else [])
      let kf := if kfs.isEmpty then "" else " kf=" ++ "+".intercalate kfs
      IO.println s!"spec {l.id} rt={showStream (Spec.RoundTrip.observeWritten h)} leak=-{kf}"

def handleServe (l : Line) : IO Unit := do
  let t := mkTables l
  let P := mkParams t
  let out ← IO.getStdout
  match parseHistory (l.getD "h" "-") with
  | none => out.putStrLn s!"wbytes {l.id} BAD-HISTORY"
  | some h => out.putStrLn s!"wbytes {l.id} {(render (Writer.writeAll P h)).toHex}"
  out.flush

end Driver.C01

def main (args : List String) : IO Unit := do
  let stdin ← IO.getStdin
  if args.contains "serve" then
    Proto.forEachLine stdin fun s =>
      let l := Proto.parseLine s
      if l.kind == "wreq" then Driver.C01.handleServe l else pure ()
  else
    Proto.forEachLine stdin fun s =>
      let l := Proto.parseLine s
      if l.kind == "case" then Driver.C01.handleCase l else pure ()
