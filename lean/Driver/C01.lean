import Model.Base.Proto

/-- stub: replaced when the property's driver is built -/
def main : IO Unit := pure ()
