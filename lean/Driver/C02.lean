import Std.Data.HashMap
import Model.Base.Proto
import Model.Fmt.Reader
import Model.Fmt.Files
import Model.Spec.Format
import Model.Fmt.ReaderClosed
import Model.Fmt.ReaderLimit

/-
C02 driver.

case <id> kind=r fn=<hex> text=<hex> init=<hexlist k,v,k,v…> haspre=0|1 prek=<n|-1> pre=<hex> nums=<tbl> tidy=<tbl> uni=<tbl> tag=…
case <id> kind=f paths=<hexlist> stdin=0|1 labels=0|1 fsn=<hexlist> fsc=<hexlist> in=<hex> nums=… tidy=… uni=… tag=…
  nums : field:atoi:atof,…    atoi ∈ i<dec> | s | r | o<hex>     atof ∈ f<16 hex> | s | r | o<hex>
  tidy : bits:unit:tidybits:tidyunit,…
  uni  : rune(hex):flags,…    flags bit0 = IsSpace, bit1 = IsUpper, bit2 = IsLower

obs  <id> R f=<hex> l=<n> name=<hex> iters=<int> vals=<bits:unit:origbits:origunit,…> cfg=<k:v:F|I,…> map=<sorted>
obs  <id> E f=<hex> l=<n> msg=<hex>
obs  <id> U f=<hex> l=<n> unit=<hex> key=<hex> orig=<hex> val=<hex>
obs  <id> end n=<records> failed=<hex|-> units=<sorted unit:key:orig:val:file:line,…>
obs  <id> closed same          second pass: the CLOSED model (Fmt.closedOracles: Num.atoi, Num.readerAtof,
                               Unit.Tidy.tidy — the nums=/tidy= tables are not consulted) delivered the same
                               records and unit metadata as the table-driven pass; otherwise
obs  <id> closed DIFF at=<i> table=<record> closed=<record>
spec <id> …            the same lines without cfg= (configuration only as a map), from Spec.Format;
                       the end line carries clone=ok and, for kind=f, distinct=1
-/

namespace Driver.C02
open Proto Fmt

def hexNat (s : String) : Option Nat :=
  s.toList.foldl (fun acc c => match acc, Bytes.hexVal c with
    | some a, some d => some (a * 16 + d)
    | _, _ => none) (some 0)

def hex64 (v : UInt64) : String :=
  let n := v.toNat
  String.ofList ((List.range 16).map fun i => Bytes.hexDigit ((n >>> (4 * (15 - i))) % 16))

def missing : Bytes := Bytes.ofString "ORACLE-MISSING"

def parseErr (s : String) : NumErr :=
  if s == "s" then .syntax
  else if s == "r" then .range
  else .other ((Bytes.ofHex (s.drop 1).toString).getD missing)

def parseInt (s : String) : Option Int :=
  if s.startsWith "-" then (s.drop 1).toString.toNat?.map (fun n => -(Int.ofNat n))
  else s.toNat?.map Int.ofNat

structure Tables where
  atoi : Std.HashMap String (Except NumErr Int) := {}
  atof : Std.HashMap String (Except NumErr UInt64) := {}
  tidy : Std.HashMap String (UInt64 × Bytes) := {}
  uni : Std.HashMap Nat Nat := {}

def entries (s : String) : List (List String) :=
  if s == "-" || s == "" then [] else (s.splitOn ",").map (·.splitOn ":")

def mkTables (l : Line) : Tables := Id.run do
  let mut t : Tables := {}
  for e in entries (l.getD "nums" "-") do
    match e with
    | [f, i, x] =>
      let iv : Except NumErr Int :=
        if i.startsWith "i" then
          match parseInt (i.drop 1).toString with
          | some v => .ok v
          | none => .error (.other missing)
        else .error (parseErr i)
      let fv : Except NumErr UInt64 :=
        if x.startsWith "f" then
          match hexNat (x.drop 1).toString with
          | some v => .ok (UInt64.ofNat v)
          | none => .error (.other missing)
        else .error (parseErr x)
      t := { t with atoi := t.atoi.insert f iv, atof := t.atof.insert f fv }
    | _ => pure ()
  for e in entries (l.getD "tidy" "-") do
    match e with
    | [b, u, tb, tu] =>
      match hexNat tb, Bytes.ofHex tu with
      | some tbv, some tuv => t := { t with tidy := t.tidy.insert (b ++ ":" ++ u) (UInt64.ofNat tbv, tuv) }
      | _, _ => pure ()
    | _ => pure ()
  for e in entries (l.getD "uni" "-") do
    match e with
    | [r, f] =>
      match hexNat r, f.toNat? with
      | some rv, some fv => t := { t with uni := t.uni.insert rv fv }
      | _, _ => pure ()
    | _ => pure ()
  return t

def mkOracles (t : Tables) : Oracles :=
  let flag (bit : Nat) (r : Nat) : Bool := ((t.uni.getD r 0) >>> bit) % 2 == 1
  { uc := { isSpace := flag 0, isUpper := flag 1, isLower := flag 2 }
    atoi := fun f => (t.atoi.get? f.toHex).getD (.error (.other missing))
    atof := fun f => (t.atof.get? f.toHex).getD (.error (.other missing))
    tidy := fun v u => (t.tidy.get? (hex64 v ++ ":" ++ u.toHex)).getD (0, missing) }

def sortStrings (l : List String) : List String := (l.toArray.qsort (· < ·)).toList

def joinOr (l : List String) : String := if l.isEmpty then "-" else ",".intercalate l

def showVals (vs : List Val) : String :=
  joinOr (vs.map fun v => s!"{hex64 v.value}:{v.unit.toHex}:{hex64 v.origValue}:{v.origUnit.toHex}")

def showCfgEntry (k v : Bytes) (file : Bool) : String :=
  s!"{k.toHex}:{v.toHex}:{if file then "F" else "I"}"

def showUnits (m : UnitMap) : String :=
  joinOr (sortStrings (m.map fun u =>
    s!"{u.unit.toHex}:{u.key.toHex}:{u.origUnit.toHex}:{u.value.toHex}:{u.fileName.toHex}:{u.line}"))

def showErr (e : SyntaxErr) : String := s!"E f={e.fileName.toHex} l={e.line} msg={e.msg.toHex}"
def showUnit (u : UnitMeta) : String :=
  s!"U f={u.fileName.toHex} l={u.line} unit={u.unit.toHex} key={u.key.toHex} orig={u.origUnit.toHex} val={u.value.toHex}"

def showRec : Rec → String
  | .err e => showErr e
  | .unit u => showUnit u
  | .result r =>
    let cfg := r.config.map fun c => showCfgEntry c.key c.value c.file
    s!"R f={r.fileName.toHex} l={r.line} name={r.name.toHex} iters={r.iters} vals={showVals r.values} cfg={joinOr cfg} map={joinOr (sortStrings cfg)}"

def showSRec : Spec.Format.SRec → String
  | .err e => showErr e
  | .unit u => showUnit u
  | .result r =>
    let cfg := r.config.map fun (k, v, f) => showCfgEntry k v f
    s!"R f={r.fileName.toHex} l={r.line} name={r.name.toHex} iters={r.iters} vals={showVals r.values} map={joinOr (sortStrings cfg)}"

/-- Successive `Scan`/`Result` calls on the queue model (I/O loop, hence in the driver). -/
partial def drain (O : Oracles) (r : Reader) (acc : Array Rec) : Array Rec × Reader :=
  let (r', ok) := r.scan O
  if ok then
    match r'.result with
    | some rec => drain O r' (acc.push rec)
    | none => (acc, r')
  else (acc, r')

def optHex : Option Bytes → String
  | some b => if b.isEmpty then "00empty" else b.toHex
  | none => "-"

/-- second pass: compare the closed model's stream with the table-driven one -/
def closedLine (id : String) (tbl closed : List Rec) (tu cu : UnitMap) : String :=
  if tbl == closed && tu == cu then s!"obs {id} closed same"
  else
    let rec firstDiff (i : Nat) : List Rec → List Rec → String
      | a :: as, b :: bs => if a == b then firstDiff (i + 1) as bs else s!"at={i} table=[{showRec a}] closed=[{showRec b}]"
      | a :: _, [] => s!"at={i} table=[{showRec a}] closed=[]"
      | [], b :: _ => s!"at={i} table=[] closed=[{showRec b}]"
      | [], [] => s!"at=units table={showUnits tu} closed={showUnits cu}"
    s!"obs {id} closed DIFF {firstDiff 0 tbl closed}"

def errField (open_ ioErr : Option Bytes) : String :=
  match ioErr, open_ with
  | some m, _ => "ERR:" ++ m.toHex
  | none, some b => if b.isEmpty then "00empty" else b.toHex
  | none, none => "-"

/-- `k` successive `Scan`s (stopping early when one returns false) -/
def scanK (O : Oracles) : Nat → Reader → Reader
  | 0, r => r
  | k + 1, r =>
    let (r', ok) := r.scan O
    if ok then scanK O k r' else r'

/-- specification side: the length of the shortest prefix of `ls` whose lines yield at least `k`
records (all of `ls` if there are fewer) -/
def firstPrefixWith (O : Oracles) (fn : Bytes) (ls : List Bytes) (k : Nat) : Nat :=
  if k == 0 then 0 else
  ((List.range (ls.length + 1)).find? fun n =>
    (Spec.Format.readFrom O (Spec.Format.displayName fn) [] [] 1 (ls.take n)).1.length ≥ k).getD ls.length

def pairUp : List Bytes → List (Bytes × Bytes)
  | k :: v :: rest => (k, v) :: pairUp rest
  | _ => []

def handleReader (l : Line) (O : Oracles) : IO Unit := do
  let fn := (l.bytes? "fn").getD []
  let text := (l.bytes? "text").getD []
  let init := pairUp ((l.hexList? "init").getD [])
  let hasPre := l.getD "haspre" "0" == "1"
  let pre := (l.bytes? "pre").getD []
  let preFn := Bytes.ofString "pre"
  let preK : Option Nat := (l.get? "prek").bind String.toNat?   -- none: pre is drained ("-1")
  -- a reused reader has taken `prek` records of `pre` (or all of it) before it is Reset: run the
  -- queue model that far; the state that matters is the reader state after the lines consumed
  let stBefore (P : Oracles) : RState :=
    if hasPre then
      match preK with
      | none => finalState P (RState.zero.reset preFn []) (splitLinesLim pre).1
      | some k => (scanK P k { (Reader.new pre preFn) with lines := (splitLinesLim pre).1 }).st
    else RState.zero
  let st0 := (stBefore O).reset fn init
  let lim := splitLinesLim text
  let (recs, r) := drain O { st := st0, lines := lim.1, q := [], qPos := 0 } #[]
  let ioErr := if lim.2 then some (tooLongMsg st0.fileName lim.1.length) else none
  for rec in recs do
    IO.println s!"obs {l.id} {showRec rec}"
  IO.println s!"obs {l.id} end n={recs.size} failed={errField none ioErr} units={showUnits r.st.units}"
  let CO := closedOracles O.uc
  let cst := (stBefore CO).reset fn init
  IO.println (closedLine l.id recs.toList (readLines CO cst lim.1) r.st.units
    (finalState CO cst lim.1).units)
  -- specification: labels as a map, unit metadata known from the earlier text
  let labels : Spec.Format.CMap := init.foldl (fun m kv => Spec.Format.CMap.assign m kv.1 kv.2 false) []
  -- the specification is judged with the CLOSED number/unit functions (C03/C04 models), not with
  -- the answers the harness collected from the code under test
  let SO := closedOracles O.uc
  -- unit metadata known before: that of the lines of `pre` read so far = the shortest prefix of
  -- its lines that yields at least `prek` records (all lines if it is drained)
  let preLines := (Spec.Format.linesLimited pre).1
  let consumed : Nat := match preK with
    | none => preLines.length
    | some k => firstPrefixWith SO preFn preLines k
  let unitsBefore := if hasPre then (Spec.Format.readFrom SO (Spec.Format.displayName preFn) [] [] 1 (preLines.take consumed)).2 else []
  let (srecs, sunits, serr) := Spec.Format.readLimited SO fn labels unitsBefore text
  for rec in srecs do
    IO.println s!"spec {l.id} {showSRec rec}"
  IO.println s!"spec {l.id} end n={srecs.length} failed={errField none serr} units={showUnits sunits} clone=ok again=0 pre0=noresult"

/-- N4: the label generated for an occurrence of a duplicated unlabelled path `q` (`q#n`) is also
the label of another entry (a path literally named `q#n`, or a user label `q#n=…`). -/
def isN4 (paths : List Bytes) (allowLabels : Bool) : Bool :=
  let es := paths.map (Spec.Format.splitEntry allowLabels)
  let unl := (es.filter (·.1.isNone)).map (·.2)
  let labs := Spec.Format.labels paths allowLabels
  let isDup (e : Option Bytes × Bytes) : Bool := e.1.isNone && unl.count e.2 > 1
  let gen := ((es.zip labs).filter (fun p => isDup p.1)).map (·.2)
  let other := ((es.zip labs).filter (fun p => !isDup p.1)).map (·.2)
  gen.any (fun g => other.contains g)

/-- The labels of an ideal run, as tokens: a labelled entry and a unique path carry their label
(`L…`); the k-th occurrence of a duplicated unlabelled path `p` carries a token `D p#k` that is
different from every `L…` token — what "duplicates are disambiguated" demands. -/
def idealLabels (paths : List Bytes) (allowStdin allowLabels : Bool) : List String :=
  if allowStdin && paths.isEmpty then ["L2d"] else
  let es := paths.map (Spec.Format.splitEntry allowLabels)
  let unl := (es.filter (·.1.isNone)).map (·.2)
  (List.range es.length).map fun j =>
    match es[j]? with
    | some (some lab, _) => "L" ++ lab.toHex
    | some (none, p) =>
      if unl.count p == 1 then "L" ++ p.toHex
      else
        let k := (((es.take j).filter (·.1.isNone)).map (·.2)).count p
        s!"D{p.toHex}#{k}"
    | none => "?"

def handleFiles (l : Line) (O : Oracles) : IO Unit := do
  let paths := (l.hexList? "paths").getD []
  let allowStdin := l.getD "stdin" "0" == "1"
  let allowLabels := l.getD "labels" "0" == "1"
  let names := (l.hexList? "fsn").getD []
  let contents := (l.hexList? "fsc").getD []
  let fs : FS := { files := names.zip contents, stdin := (l.bytes? "in").getD [] }
  let out := Files.runLim O fs paths allowStdin allowLabels
  for rec in out.recs do
    IO.println s!"obs {l.id} {showRec rec}"
  IO.println s!"obs {l.id} end n={out.recs.length} failed={errField out.failed out.ioErr} units={showUnits out.st.units}"
  let cout := Files.runLim (closedOracles O.uc) fs paths allowStdin allowLabels
  IO.println (closedLine l.id out.recs cout.recs out.st.units cout.st.units)
  let sp := Spec.Format.readFilesLimited (closedOracles O.uc) fs [] fs.stdin (Spec.Format.inputs paths allowStdin allowLabels)
  for rec in sp.recs do
    IO.println s!"spec {l.id} {showSRec rec}"
  -- known class N4: label clash with a literal `q#n` path or user label
  let kf := if isN4 paths allowLabels then " kf=N4" else ""
  let used := ((idealLabels paths allowStdin allowLabels).zip sp.results).filter (fun p => p.2 > 0)
  IO.println s!"spec {l.id} end n={sp.recs.length} failed={errField sp.failed sp.ioErr} units={showUnits sp.units} clone=ok distinct={(used.map (·.1)).eraseDups.length} again=0{kf}"

def handle (l : Line) : IO Unit := do
  if l.kind != "case" then return
  let O := mkOracles (mkTables l)
  if l.getD "kind" "r" == "f" then handleFiles l O else handleReader l O

end Driver.C02

def main : IO Unit := do
  let stdin ← IO.getStdin
  Proto.forEachLine stdin fun s => Driver.C02.handle (Proto.parseLine s)
