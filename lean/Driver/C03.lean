import Model.Base.Proto
import Model.Num.Atof
import Model.Num.Decimal
import Model.Num.DecSlow
import Model.Spec.NumText

namespace Driver.C03
open Proto Num
open Spec.NumText (NumErr parseFloatSpec parseIntSpec)

def errS : Option NumErr → String
  | none => "ok"
  | some .syntax => "syntax"
  | some .range => "range"

def fr (r : FloatRes) : String := s!"{F64.toHex (F64.canonNaN r.val)}:{errS r.err}"
def ir (r : IntRes) : String := s!"{r.val}:{errS r.err}"
def ur (r : UintRes) : String := s!"{r.val}:{errS r.err}"
def b01 (b : Bool) : String := if b then "1" else "0"

def specF : Except NumErr F64.Bits → String
  | .ok b => F64.toHex (F64.canonNaN b)
  | .error .syntax => "!syntax"
  | .error .range => "!range"

/-- one rejection class for integers in the S vocabulary (see harness `specInt`) -/
def specI : Except NumErr Int → String
  | .ok n => toString n
  | .error _ => "!reject"

def frSpec (r : FloatRes) : String := match r.err with
  | none => F64.toHex (F64.canonNaN r.val)
  | some .syntax => "!syntax"
  | some .range => "!range"

/-- what the reader delivers for the one-line file `BenchmarkX <iters> <num> u` -/
def rdLine (it : Except NumErr Int) (v : Except NumErr F64.Bits) (collapse : Bool := false) : String :=
  match it with
  | .error e => if collapse then "err:iters:file=f:line=1" else s!"err:iters-{errS (some e)}:file=f:line=1"
  | .ok n =>
    match v with
    | .error e => s!"err:val-{errS (some e)}:file=f:line=1"
    | .ok b => s!"ok:iters={n}:val={F64.toHex (F64.canonNaN b)}"


/-- the class of finding N3E: an accepted numeral whose exponent literal is 100000 or more and whose
mantissa text is not `Moderate` (Proofs/Lemmas/C03Clamp.lean: at most 9669 significant digits before
the point and 9691 after it; hex 2231 and 2244) -/
def inClassN3E (num : Bytes) : Bool :=
  let body := Spec.NumText.strip (Spec.NumText.splitSign num).2
  let hex := Spec.NumText.isHexPrefix body
  let u := if hex then body.drop 2 else body
  let dig : UInt8 → Bool := if hex then Spec.NumText.isHexDig else Spec.NumText.isDec
  let ip := u.takeWhile dig
  let r1 := u.dropWhile dig
  let (fp, r2) := match r1 with
    | 46 :: r' => (r'.takeWhile dig, r'.dropWhile dig)
    | _ => ([], r1)
  let lit := match r2 with
    | _ :: r3 => Spec.NumText.valOf 10 (Spec.NumText.splitSign r3).2
    | [] => 0
  let sig := (ip.dropWhile (· == 48)).length
  let moderate := if hex then sig ≤ 2231 && fp.length ≤ 2244 else sig ≤ 9669 && fp.length ≤ 9691
  (Spec.NumText.recognise num).isSome && lit ≥ 100000 && !moderate

def handle (l : Line) : IO Unit := do
  if l.kind != "case" then return
  let id := l.id
  match l.getD "kind" with
  | "line" =>
    let iters := (l.bytes? "iters").getD []
    let num := (l.bytes? "num").getD []
    let ai := atoi iters
    let ra := readerAtof num
    IO.println s!"obs {id} rd={rdLine ai.toExcept ra.toExcept}"
    IO.println s!"obs {id} pf={fr (parseFloat num)} ra={fr ra} ai={ir ai} pi={ir (parseInt iters)} pu={ur (parseUint iters)} uok={b01 (underscoreOK num)}"
    let sp := match special num with | some b => F64.toHex (F64.canonNaN b) | none => "-"
    let r := readFloat num
    let rf := if r.ok then s!"ok:{r.mant}:{r.exp}:{b01 r.neg}:{b01 r.trunc}:{b01 r.hex}" else s!"fail:{b01 r.hex}"
    let ex := if r.ok && !r.hex then
        match atof64exact r.mant r.exp r.neg with | some b => F64.toHex (F64.canonNaN b) | none => "-"
      else "-"
    let hxs := if r.ok && r.hex then fr (atofHex r.mant r.exp r.neg r.trunc) else "-"
    IO.println s!"obs {id} sp={sp} rf={rf} ex={ex} hx={hxs}"
    -- the mirrored slow path, and the self-check against the specified slow path of the model
    let (slm, a) : String × FloatRes := match decSet num with
      | none => ("syntax", ⟨0, some .syntax⟩)
      | some d =>
        let r := floatBits d
        (s!"{F64.toHex (F64.canonNaN r.bits)}:{if r.ovf then "range" else "ok"}:{b01 r.trunc}",
         ⟨r.bits, if r.ovf then some .range else none⟩)
    let b := slowPath num
    -- (the slow path is reached only after `underscoreOK`; `d.set` alone skips every underscore)
    let chk := if !underscoreOK num || (a.val == b.val && a.err == b.err) then "ok" else s!"BAD:{fr a}:{fr b}"
    -- the fully mirrored parser (no specification inside) against the real ParseFloat / reader atof
    IO.println s!"obs {id} sl={slm} chk={chk} pfm={fr (parseFloatMirror num)} ram={fr (readerAtofMirror num)}"
    -- the calls are pure: inputs unchanged, results independent of the caller's buffer afterwards
    IO.println s!"obs {id} in=kept:stable"
    if l.getD "spec" == "1" then
      let sv := parseFloatSpec num
      let si := parseIntSpec iters
      -- known findings: N3 (more than 800 significant digits before the point), N3E (exponent
      -- literal >= 100000 with a compensating mantissa text — tagged only where the specification
      -- really differs from the model of the code)
      let n3 := inClassN3 num
      let n3e := inClassN3E num && specF sv != specF (parseFloat num).toExcept
      let kf := if n3 && n3e then " kf=N3+N3E" else if n3 then " kf=N3" else if n3e then " kf=N3E" else ""
      IO.println s!"spec {id} impl rd={rdLine si sv true}{kf}"
      IO.println s!"spec {id} strconv val={specF sv} iters={specI si}"
      IO.println s!"spec {id} direct val={specF sv} ratof={specF sv} iters={specI si}"
      IO.println s!"spec {id} in=kept:stable"
  | "exact" =>
    let mant := (l.nat? "mant").getD 0
    let exp := ((l.getD "exp").toInt?).getD 0
    let neg := l.getD "neg" == "1"
    match atof64exact mant exp neg with
    | some b =>
      IO.println s!"obs {id} ex={F64.toHex b}"
      IO.println s!"spec {id} ex={F64.toHex (F64.ofDecimal neg mant exp)}"
    | none => IO.println s!"obs {id} ex=-"
  | "hexd" =>
    let mant := (l.nat? "mant").getD 0
    let exp := ((l.getD "exp").toInt?).getD 0
    let neg := l.getD "neg" == "1"
    let trunc := l.getD "trunc" == "1"
    IO.println s!"obs {id} hx={fr (atofHex mant exp neg trunc)}"
    if !trunc then
      let p : Spec.NumText.Parsed := { neg, hex := true, mant, exp }
      IO.println s!"spec {id} hx={specF p.eval}"
  | "rint" =>
    let ds := if l.getD "d" == "-" then [] else (l.bytes? "d").getD []
    let dp := ((l.getD "dp").toInt?).getD 0
    let trunc := l.getD "trunc" == "1"
    let a : Dec := { d := ds, dp, trunc }
    IO.println s!"obs {id} n={roundedInteger a} up={b01 (shouldRoundUp a a.dp)}"
    -- spec: round-half-even of the exact value 0.d₁…dₙ · 10^dp
    if !trunc && dp ≥ 0 && dp ≤ 19 && (ds.isEmpty || ds.getLast? != some 48) then
      let v := Spec.NumText.valOf 10 ds
      let k := dp.toNat
      let r := if k ≥ ds.length then v * 10 ^ (k - ds.length) else F64.rne v (10 ^ (ds.length - k))
      IO.println s!"spec {id} n={r}"
  | "dshift" =>
    let ds := if l.getD "d" == "-" then [] else (l.bytes? "d").getD []
    let dp := ((l.getD "dp").toInt?).getD 0
    let k := ((l.getD "k").toInt?).getD 0
    let a : Dc := { d := ds, dp, trunc := l.getD "trunc" == "1" }
    let r := a.shift k
    IO.println s!"obs {id} d={if r.d.isEmpty then "-" else Bytes.toHex r.d} dp={r.dp} trunc={b01 r.trunc}"
  | "dfb" =>
    let ds := if l.getD "d" == "-" then [] else (l.bytes? "d").getD []
    let dp := ((l.getD "dp").toInt?).getD 0
    let a : Dc := { d := ds, dp, neg := l.getD "neg" == "1", trunc := l.getD "trunc" == "1" }
    let r := floatBits a
    IO.println s!"obs {id} bits={F64.toHex r.bits} ovf={b01 r.ovf} trunc={b01 r.trunc}"
  | "cheats" =>
    let tab := leftcheats.map fun (d, c) => s!"{d}:{if c.isEmpty then "-" else Bytes.toHex c}"
    IO.println s!"obs {id} n={leftcheats.length} tab={",".intercalate tab}"
  | "state" =>
    -- package-level state of bytesconv: optimize = true, powtab, float64info{52, 11, -1023}, the two errors
    let pt := ",".intercalate (powtab.map toString)
    let st := s!"opt=1 powtab={pt} info=52:11:-1023 errs={Bytes.toHex (Bytes.ofString "value out of range")}:{Bytes.toHex (Bytes.ofString "invalid syntax")}"
    IO.println s!"obs {id} {st}"
    IO.println s!"spec {id} {st}"
  | "table" =>
    let tab := (List.range pow10TableLen).map fun k => F64.toHex (float64pow10 k)
    IO.println s!"obs {id} n={pow10TableLen} tab={",".intercalate tab}"
  | _ => pure ()

end Driver.C03

def main : IO Unit := do
  let stdin ← IO.getStdin
  Proto.forEachLine stdin fun s => Driver.C03.handle (Proto.parseLine s)
