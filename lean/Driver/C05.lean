import Model.Base.Proto
import Model.Fmt.Name
import Model.Proc.Extract
import Model.Proc.CfgHist
import Model.Spec.Name

namespace Driver.C05
open Proto

/- case <id> name=<hex> cfg=<k:v,k:v hex pairs> keys=<hexlist>
   obs <id> base=<hex> parts=<hexlist> vals=<hexlist or !err>
   spec <id> base=.. parts=.. shape=1 vals=.. -/

def parseCfg (s : String) : List (Bytes × Bytes) :=
  if s == "-" then [] else
  (s.splitOn ",").filterMap fun kv =>
    match kv.splitOn ":" with
    | [k, v] => match Bytes.ofHex k, Bytes.ofHex v with
      | some k, some v => some (k, v)
      | _, _ => none
    | _ => none

def showVals (vs : List (Except Proc.Extract.ExtractErr Bytes)) : String :=
  if vs.isEmpty then "-" else
  ",".intercalate (vs.map fun v => match v with
    | .ok b => b.toHex
    | .error .emptyKey => "!empty"
    | .error .notExtractor => "!notextractor")

def specVal (name : Bytes) (cfg : List (Bytes × Bytes)) (key : Bytes) : String :=
  let (b, ps) := Spec.Name.decomp name
  if key.isEmpty then "!empty"
  else if key == Bytes.ofString ".config" || key == Bytes.ofString ".unit" then "!notextractor"
  else if key == Bytes.ofString ".name" then b.toHex
  else if key == Bytes.ofString ".fullname" then name.toHex
  else if key == Bytes.ofString "/gomaxprocs" then (Spec.Name.gomaxprocs ps).toHex
  else if key.head? == some 47 then (Spec.Name.subname key ps).toHex
  else match cfg.find? (·.1 == key) with
    | some kv => kv.2.toHex
    | none => ""

/-- Configuration built through the API (`kind=cfg`): `S k=v` sets (deletes when v is empty) on the
current result, `C` clones it (the clone becomes current), `B` returns to the previous one.
obs: the slot-store model of the code (`Proc.CfgHist.stepStore`, lookups through the index);
spec: one finite map per result (`stepMap`). `Proofs/C05Store.lean` proves them equal. -/
def parseOp (op : Bytes) : Proc.CfgHist.HOp :=
  if op == [67] then .clone
  else if op == [66] then .back
  else
    let body := op.drop 1
    .set (body.takeWhile (· != 61)) ((body.dropWhile (· != 61)).drop 1)

def handleCfg (l : Line) : IO Unit := do
  let ops := ((l.hexList? "ops").getD []).map parseOp
  let keys : List Bytes := [[97], [98], [99], [107]]
  let sts := (ops.foldl Proc.CfgHist.stepStore Proc.CfgHist.initStore).all
  let mps := (ops.foldl Proc.CfgHist.stepMap Proc.CfgHist.initMap).all
  let o := sts.map fun s => ":".intercalate (keys.map fun k => (Proc.CfgHist.lookupStore s k).toHex)
  let p := mps.map fun m => ":".intercalate (keys.map fun k => (Proc.CfgHist.lookupMap m k).toHex)
  IO.println s!"obs {l.id} maps={",".intercalate o}"
  IO.println s!"spec {l.id} maps={",".intercalate p}"

/-- `kind=reuse`: a long-lived projection and filter on a sub-name key over one Result whose name is
overwritten in place. obs: the model extractor per step; spec: the specification's value per step and
whether it equals the first step's value (what the filter built from the first value must answer). -/
def handleReuse (l : Line) : IO Unit := do
  let key := (l.bytes? "key").getD []
  let names := (l.hexList? "names").getD []
  let mv := names.map fun n => match Proc.Extract.extract key { name := n, config := [] } with
    | .ok b => b.toHex
    | .error _ => "!err"
  IO.println s!"obs {l.id} rv={",".intercalate mv}"
  let sv := names.map fun n => specVal n [] key
  let fm := String.join (sv.map fun v => if some v == sv.head? then "1" else "0")
  IO.println s!"spec {l.id} rv={",".intercalate sv} fm={fm}"

def handle (l : Line) : IO Unit := do
  if l.kind != "case" then return
  if l.getD "kind" == "cfg" then
    handleCfg l
    return
  if l.getD "kind" == "reuse" then
    handleReuse l
    return
  let name := (l.bytes? "name").getD []
  let cfg := parseCfg (l.getD "cfg" "-")
  let keys := (l.hexList? "keys").getD []
  let (b, ps) := Fmt.Name.parts name
  let b2 := Fmt.Name.base name
  let vals := keys.map fun k => Proc.Extract.extract k { name := name, config := cfg }
  let excl := ((l.getD "excl" "").splitOn ",").filter (· ≠ "")
  let fx := excl.map fun e =>
    let ex := ((e.splitOn "+").filterMap Bytes.ofHex)
    (Proc.Extract.fullNameExcluding ex name).toHex
  IO.println s!"obs {l.id} base={b.toHex} base2={b2.toHex} parts={showHexList ps} vals={showVals vals} fx={",".intercalate fx} pub=ok"
  let (sb, sps) := Spec.Name.decomp name
  let svals := keys.map (specVal name cfg)
  let sv := if svals.isEmpty then "-" else ",".intercalate svals
  let sfx := excl.map fun e =>
    let ex := ((e.splitOn "+").filterMap Bytes.ofHex)
    (Spec.Name.fullNameExcluding ex sb sps).toHex
  IO.println s!"spec {l.id} base={sb.toHex} base2={sb.toHex} parts={showHexList sps} vals={sv} fx={",".intercalate sfx} flt=ok in=kept"

end Driver.C05

def main : IO Unit := do
  let stdin ← IO.getStdin
  Proto.forEachLine stdin fun s => Driver.C05.handle (Proto.parseLine s)
