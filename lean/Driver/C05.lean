import Model.Base.Proto
import Model.Fmt.Name
import Model.Proc.Extract
import Model.Spec.Name

namespace Driver.C05
open Proto

/- case <id> name=<hex> cfg=<k:v,k:v hex pairs> keys=<hexlist>
   obs <id> base=<hex> parts=<hexlist> vals=<hexlist or !err>
   spec <id> base=.. parts=.. shape=1 vals=.. -/

def parseCfg (s : String) : List (Bytes × Bytes) :=
  if s == "-" then [] else
  (s.splitOn ",").filterMap fun kv =>
    match kv.splitOn ":" with
    | [k, v] => match Bytes.ofHex k, Bytes.ofHex v with
      | some k, some v => some (k, v)
      | _, _ => none
    | _ => none

def showVals (vs : List (Except Proc.Extract.ExtractErr Bytes)) : String :=
  if vs.isEmpty then "-" else
  ",".intercalate (vs.map fun v => match v with
    | .ok b => b.toHex
    | .error .emptyKey => "!empty"
    | .error .notExtractor => "!notextractor")

def specVal (name : Bytes) (cfg : List (Bytes × Bytes)) (key : Bytes) : String :=
  let (b, ps) := Spec.Name.decomp name
  if key.isEmpty then "!empty"
  else if key == Bytes.ofString ".config" || key == Bytes.ofString ".unit" then "!notextractor"
  else if key == Bytes.ofString ".name" then b.toHex
  else if key == Bytes.ofString ".fullname" then name.toHex
  else if key == Bytes.ofString "/gomaxprocs" then (Spec.Name.gomaxprocs ps).toHex
  else if key.head? == some 47 then (Spec.Name.subname key ps).toHex
  else match cfg.find? (·.1 == key) with
    | some kv => kv.2.toHex
    | none => ""

/-- Specification of configuration built through the API: each result is a finite map; `S k=v`
sets (deletes when v is empty) on the current one, `C` copies it, `B` returns to the previous. -/
abbrev CfgMap := List (Bytes × Bytes)

def cfgSet (m : CfgMap) (k v : Bytes) : CfgMap :=
  let m' := m.filter (·.1 != k)
  if v.isEmpty then m' else m' ++ [(k, v)]

structure CfgSt where
  all : List CfgMap        -- every result ever created, in creation order
  cur : Nat                -- index of the current one
  stack : List Nat

def cfgStep (s : CfgSt) (op : Bytes) : CfgSt :=
  if op == [67] then  -- "C"
    { all := s.all ++ [s.all.getD s.cur []], cur := s.all.length, stack := s.cur :: s.stack }
  else if op == [66] then  -- "B"
    match s.stack with
    | p :: rest => { s with cur := p, stack := rest }
    | [] => s
  else
    let body := op.drop 1
    let k := body.takeWhile (· != 61)
    let v := (body.dropWhile (· != 61)).drop 1
    { s with all := s.all.set s.cur (cfgSet (s.all.getD s.cur []) k v) }

def handleCfg (l : Line) : IO Unit := do
  let ops := (l.hexList? "ops").getD []
  let st := ops.foldl cfgStep { all := [[]], cur := 0, stack := [] }
  let keys : List Bytes := [[97], [98], [99], [107]]
  let outs := st.all.map fun m =>
    ":".intercalate (keys.map fun k => match m.find? (·.1 == k) with
      | some kv => kv.2.toHex
      | none => "")
  let line := s!"maps={",".intercalate outs}"
  IO.println s!"obs {l.id} {line}"
  IO.println s!"spec {l.id} {line}"

def handle (l : Line) : IO Unit := do
  if l.kind != "case" then return
  if l.getD "kind" == "cfg" then
    handleCfg l
    return
  let name := (l.bytes? "name").getD []
  let cfg := parseCfg (l.getD "cfg" "-")
  let keys := (l.hexList? "keys").getD []
  let (b, ps) := Fmt.Name.parts name
  let b2 := Fmt.Name.base name
  let vals := keys.map fun k => Proc.Extract.extract k { name := name, config := cfg }
  let excl := ((l.getD "excl" "").splitOn ",").filter (· ≠ "")
  let fx := excl.map fun e =>
    let ex := ((e.splitOn "+").filterMap Bytes.ofHex)
    (Proc.Extract.fullNameExcluding ex name).toHex
  IO.println s!"obs {l.id} base={b.toHex} base2={b2.toHex} parts={showHexList ps} vals={showVals vals} fx={",".intercalate fx} pub=ok"
  let (sb, sps) := Spec.Name.decomp name
  let svals := keys.map (specVal name cfg)
  let sv := if svals.isEmpty then "-" else ",".intercalate svals
  let sfx := excl.map fun e =>
    let ex := ((e.splitOn "+").filterMap Bytes.ofHex)
    (Spec.Name.fullNameExcluding ex sb sps).toHex
  IO.println s!"spec {l.id} base={sb.toHex} base2={sb.toHex} parts={showHexList sps} vals={sv} fx={",".intercalate sfx}"

end Driver.C05

def main : IO Unit := do
  let stdin ← IO.getStdin
  Proto.forEachLine stdin fun s => Driver.C05.handle (Proto.parseLine s)
