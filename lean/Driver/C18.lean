import Model.Base.Proto
import Model.Series.Builder
import Model.Series.Bootstrap
import Model.Series.Date
import Model.Spec.Series

namespace Driver.C18
open Proto Series

def env : Env := { norm := Date.normalize, le := bytesLe }
def opts : Opts := { num := Bytes.ofString "num", den := Bytes.ofString "den" }

def unhex (s : String) : Bytes := (Bytes.ofHex s).getD []

def bits? (s : String) : Option Bits := F64.ofHex? s

def bitsDots (s : String) : List Bits := if s == "-" || s == "" then [] else (s.splitOn ".").filterMap bits?

/-- `tv+tv|bench|exp|ser|cmp|nh|dh|unit:bits,unit:bits` -/
def parseResult (s : String) : List Ev :=
  match s.splitOn "|" with
  | [tv, bench, exp, ser, cmp, nh, dh, ms] =>
    let table := if tv == "" then [] else (tv.splitOn "+").map unhex
    (ms.splitOn ",").filterMap fun m =>
      match m.splitOn ":" with
      | [u, v] => (bits? v).map fun b =>
        { unit := unhex u, table := table, bench := unhex bench, exp := unhex exp, ser := unhex ser,
          cmp := unhex cmp, nh := unhex nh, dh := unhex dh, val := b }
      | _ => none
  | _ => []

def parseResults (s : String) : List Ev :=
  if s == "-" then [] else (s.splitOn "/").flatMap parseResult

def hexList (l : List Bytes) : String := showHexList l

def showBits (l : List Bits) : String :=
  if l.isEmpty then "-" else ".".intercalate (l.map F64.toHex)

def joinOr (l : List String) : String := if l.isEmpty then "-" else ",".intercalate l

def showTable (t : TableOut) : String :=
  let hp := t.hp.map fun (s, v) => match v with
    | some (n, d) => s!"{s.toHex}={n.toHex}~{d.toHex}"
    | none => s!"{s.toHex}=?"
  let pts := t.points.map fun p =>
    let den := match p.den with | some d => showBits d | none => "~"
    -- delivery order: a complete point has both samples ascending (`sort.Float64s` at the end of
    -- AllComparisonSeries); an incomplete one is not sorted by the code and not judged
    let ord := if p.den.isSome then "1" else "n"
    s!"{p.bench.toHex}#{p.ser.toHex}#{p.date.toHex}#{showBits p.num}#{den}#{ord}"
  s!"{t.unit.toHex}|B:{hexList t.benches}|S:{hexList t.series}|H:{joinOr hp}|P:{joinOr pts}"

def showSeries (r : Option (List TableOut)) : String :=
  match r with
  | none => "!err"
  | some ts => if ts.isEmpty then "-" else ";".intercalate (ts.map showTable)

def handleSeries (l : Line) : IO Unit := do
  let pol := if l.getD "pol" == "1" then Policy.combine else Policy.replace
  let evs := parseResults (l.getD "res" "-")
  let b := build opts evs
  if det env pol b then
    IO.println s!"obs {l.id} det=1 dump={showSeries (allSeries env pol Iter.id b)}"
  else
    -- the harness lists one name per table (duplicates included), sorted
    let names := ((tableKeys b).map uString).mergeSort bytesLe
    IO.println s!"obs {l.id} det=0 tables={hexList names}"
  let wf := Spec.Series.WF env opts pol evs
  let kf := if wf then "" else " kf=N6"
  IO.println s!"spec {l.id} inv=1 rep=1 twice=1 sumtwice=1 keep=1 rebuild=1 dump={showSeries (Spec.Series.specSeries env opts pol evs)}{kf}"

/-! bootstrap -/

def canon (b : Bits) : String := F64.toHex (F64.canonNaN b)

def goSort (l : List Bits) : List Bits := Boot.sort Boot.f64 l

def positive (b : Bits) : Bool := F64.lt 0 b && !F64.isInf b

def minMax (l : List Bits) : Bits × Bits :=
  match l with
  | [] => (0, 0)
  | a :: r => r.foldl (fun (lo, hi) x => (if F64.lt x lo then x else lo, if F64.lt hi x then x else hi)) (a, a)

def handleBoot (l : Line) : IO Unit := do
  let nu := goSort (bitsDots (l.getD "nu"))   -- AllComparisonSeries sorted the cells
  let de := goSort (bitsDots (l.getD "de"))
  let conf := (bits? (l.getD "conf")).getD 0
  let n := (l.nat? "n").getD 0
  let stream := if l.getD "stream" == "-" then [] else ((l.getD "stream").splitOn ",").filterMap String.toNat?
  let s := Boot.ratio Boot.f64 nu de conf n stream
  let seed := Boot.seed nu de
  IO.println s!"obs {l.id} seed={F64.toHex seed} hn={F64.toHex (Boot.hash (bitsDots (l.getD "nu")))} l={canon s.low} c={canon s.center} h={canon s.high}"
  -- the specification: low ≤ centre ≤ high; for positive samples all three within the attainable ratios
  let pos := (nu ++ de).all positive
  -- class of the recorded defect N3: N·p > (N-1)/2 with p = (1-confidence)/2, f = N·p as the code computes it
  let p := F64.div (F64.sub F64.one conf) (F64.ofInt 2)
  let f := F64.mul (F64.ofInt n) p
  let (fn, fd) := F64.toFrac (F64.mant f) (F64.expo f)
  let inClass := !F64.isNaN f && !F64.signBit f && 2 * fn > (n - 1) * fd
  let mOrd := F64.le s.low s.center && F64.le s.center s.high
  let (nl, nh) := minMax nu
  let (dl, dh) := minMax de
  let lo := F64.div nl dh
  let hi := F64.div nh dl
  let within (x : Bits) : Bool := F64.le lo x && F64.le x hi
  let mIn := !pos || (within s.low && within s.center && within s.high)
  let tags := (if inClass then ["N3"] else []) ++ (if !mIn || (!mOrd && !inClass) then ["N3R"] else [])
  let kf := if tags.isEmpty then "" else " kf=" ++ "+".intercalate tags
  IO.println s!"spec {l.id} ord=1 in={if pos then "1" else "na"}{kf}"

/-- several points summarised by one AddSummaries call: every point is bootstrapped from its own samples
with the generator seeded from them (stream recorded per point) -/
def handleMulti (l : Line) : IO Unit := do
  let conf := (bits? (l.getD "conf")).getD 0
  let n := (l.nat? "n").getD 0
  let pts := (l.getD "pts").splitOn "|"
  -- (summary text, complete?, positive?, within range?)
  let results := pts.map fun p =>
    match p.splitOn ";" with
    | [nuS, deS, st] =>
      let nu := goSort (bitsDots nuS)
      let de := goSort (bitsDots deS)
      if de.isEmpty then ("-", false, false, true) else
      let stream := if st == "" then [] else (st.splitOn ",").filterMap String.toNat?
      let s := Boot.ratio Boot.f64 nu de conf n stream
      let pos := (nu ++ de).all positive
      let (nl, nh) := minMax nu
      let (dl, dh) := minMax de
      let lo := F64.div nl dh
      let hi := F64.div nh dl
      let within (x : Bits) : Bool := F64.le lo x && F64.le x hi
      (s!"{canon s.low}:{canon s.center}:{canon s.high}", true, pos, within s.low && within s.center && within s.high)
    | _ => ("?", false, false, true)
  -- the Summaries grid: point i sits at benchmark i, series row i % 2; a position is Defined exactly when a
  -- complete point sits there
  let k := results.length
  let rows := if k ≥ 2 then 2 else 1
  let complete := results.map (·.2.1)
  let defGrid := String.join ((List.range rows).flatMap fun srow =>
    (List.range k).map fun i => if i % 2 == srow && complete.getD i false then "1" else "0")
  IO.println s!"obs {l.id} sums={",".intercalate (results.map (·.1))} def={defGrid}"
  -- specification: the summary of a point is the summary of its samples alone, and lies within the
  -- ratios attainable from its own (positive) samples
  let same := String.join (results.map fun _ => "1")
  let inS := String.join (results.map fun r => if r.2.1 && r.2.2.1 then "1" else "n")
  let rounding := results.any fun r => r.2.1 && r.2.2.1 && !r.2.2.2
  IO.println s!"spec {l.id} same={same} in={inS} def={defGrid}{if rounding then " kf=N3R" else ""}"

def handlePct (l : Line) : IO Unit := do
  let a := bitsDots (l.getD "a")
  let p := (bits? (l.getD "p")).getD 0
  let med := if a.isEmpty then "-" else F64.toHex (Boot.median Boot.f64 a)
  IO.println s!"obs {l.id} r={canon (Boot.percentile Boot.f64 a p)} med={med}"

/-! dates -/

def handleDate (l : Line) : IO Unit := do
  let s := (l.bytes? "in").getD []
  match Date.normalize s with
  | some o => IO.println s!"obs {l.id} out={o.toHex}"
  | none => IO.println s!"obs {l.id} out=!err"

def handlePair (l : Line) : IO Unit := do
  let a := (l.bytes? "a").getD []
  let b := (l.bytes? "b").getD []
  match Spec.Series.instantOf a, Spec.Series.instantOf b with
  | some x, some y =>
    IO.println s!"spec {l.id} same={if x = y then 1 else 0} lt={if Spec.Series.instLt x y then 1 else 0}"
  | _, _ => IO.println s!"spec {l.id} same=na lt=na"

def handle (l : Line) : IO Unit := do
  if l.kind != "case" then return
  match l.getD "kind" with
  | "series" => handleSeries l
  | "boot" => handleBoot l
  | "multi" => handleMulti l
  -- a bootstrap too large to replay (positive noisy samples by construction): order and ratio range
  | "heavy" => IO.println s!"spec {l.id} ord=1 in=1"
  -- JSON round trip of a summarised series handed back as `existing` (not modelled): the restored summaries
  -- survive, new points get their own summaries, the axes are the sorted unions
  | "json" => IO.println s!"spec {l.id} kept=1 newsame=1 axes=1"
  | "pct" => handlePct l
  | "date" => handleDate l
  | "dpair" => handlePair l
  | _ => pure ()

end Driver.C18

def main : IO Unit := do
  let stdin ← IO.getStdin
  Proto.forEachLine stdin fun s => Driver.C18.handle (Proto.parseLine s)
