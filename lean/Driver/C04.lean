import Model.Base.Proto
import Model.Unit.Tidy
import Model.Spec.Tidy

/-
case <id> kind=consts
case <id> kind=tidy v=<bits> unit=<hex> iu=<hex: implementation's unit> iv=<bits: implementation's value>
case <id> kind=conc v=<bits> units=<hexlist>   (8 goroutines per 4 fresh units; obs: per unit the set of distinct results)
case <id> kind=seq v=<bits> units=<hexlist> iseq=<implementation's value:unit list>
case <id> kind=keep files=<N<name>:bits:unit+… ; …> fk=… pat=<hex> conc=0|1   (one Filter, all Matches taken first, read afterwards)
case <id> kind=hist files=<N<name>:bits:unit+… ; … | …> fk=u|nu|name|all|re-MODE|nre-MODE (MODE = prefix|exact|sub|suffix: regexp built from the literal pat) pat=<hex> ivals=<implementation's fresh values>
case <id> kind=file lines=<U:unit:key=val+key=val | B:bits:unit+bits:unit ; …> q=<hexlist> pat=<hexlist> ivals=<implementation's values>
-/
namespace Driver.C04
open Proto Unit.Tidy

def hexF (b : F64.Bits) : String := F64.toHex (F64.canonNaN b)
def bits (s : String) : F64.Bits := (F64.ofHex? s).getD 0
def unhex (s : String) : Bytes := (Bytes.ofHex s).getD []
def join (l : List String) (sep : String := ",") : String := if l.isEmpty then "-" else sep.intercalate l

inductive FLine where
  | unit (u : Bytes) (kvs : List (Bytes × Bytes))
  | bench (ms : List (F64.Bits × Bytes))

def parseLines (s : String) : List FLine :=
  (s.splitOn ";").filterMap fun e =>
    match e.splitOn ":" with
    | "U" :: u :: rest =>
      let kvs := ((":".intercalate rest).splitOn "+").filterMap fun kv =>
        match kv.splitOn "=" with
        | [k, v] => some (unhex k, unhex v)
        | _ => none
      some (.unit (unhex u) kvs)
    | "B" :: _ =>
      let body := (e.drop 2).toString
      some (.bench ((body.splitOn "+").filterMap fun m =>
        match m.splitOn ":" with
        | [v, u] => some (bits v, unhex u)
        | _ => none))
    | _ => none

def showValue (v : Value) : String :=
  s!"{hexF v.value}:{v.unit.toHex}:{hexF v.origValue}:{v.origUnit.toHex}"

def showReport (r : F64.Bits × Bytes × F64.Bits × Bytes) : String :=
  s!"{hexF r.1}:{r.2.1.toHex}:{hexF r.2.2.1}:{r.2.2.2.toHex}"

def metaKeys : List Bytes := [sBetter, sAssume, Bytes.ofString "foo"]

/-- insertion sort on strings (canonical order of the metadata map) -/
def sortStrings (l : List String) : List String := (l.toArray.qsort (· < ·)).toList

def handleFile (l : Line) : IO Unit := do
  let id := l.id
  let lines := parseLines (l.getD "lines")
  let qs := (l.hexList? "q").getD []
  let pats := (l.hexList? "pat").getD []
  -- model: reader
  let results : List (List Value) := lines.filterMap fun
    | .bench ms => some (ms.map fun (v, u) => readerValue v u)
    | .unit _ _ => none
  let vals := join (results.map fun r => "+".intercalate (r.map showValue)) ";"
  IO.println s!"obs {id} shape=ok vals={vals}"
  -- model: metadata map
  let (mm, errs) := lines.foldl (fun (acc : MetaMap × Nat) ln =>
    match ln with
    | .unit u kvs => kvs.foldl (fun (a : MetaMap × Nat) (kv : Bytes × Bytes) =>
        let (m', e) := addMeta a.1 u kv.1 kv.2
        (m', if e then a.2 + 1 else a.2)) acc
    | .bench _ => acc) (([] : MetaMap), 0)
  let metas := sortStrings (mm.map fun e => s!"{e.unit.toHex}:{e.key.toHex}:{e.origUnit.toHex}:{e.value.toHex}")
  IO.println s!"obs {id} meta={join metas} errs={errs}"
  let showMeta (m : Option Meta) : String := match m with
    | some e => s!"{e.origUnit.toHex}:{e.value.toHex}"
    | none => "nil"
  let gets := qs.map fun q => "/".intercalate (metaKeys.map fun k => showMeta (get mm q k))
  let assumes := qs.map fun q => if getAssumption mm q then "1" else "0"
  let betters := qs.map fun q => toString (getBetter mm q)
  IO.println s!"obs {id} get={join gets} assume={join assumes} better={join betters}"
  let filt (results : List (List Value)) := pats.map fun p =>
    if results.isEmpty then "-" else
    "/".intercalate (results.map fun r => String.ofList (r.map fun v => if unitMatch (· == p) v then '1' else '0'))
  IO.println s!"obs {id} filt={join (filt results)}"
  -- spec: what the property demands, from Spec.Tidy only
  let sresults := lines.filterMap fun
    | .bench ms => some (ms.map fun (v, u) => Spec.Tidy.report v u)
    | .unit _ _ => none
  let rep := join (sresults.map fun r => "+".intercalate (r.map showReport)) ";"
  -- every unit the implementation reported must be a base unit
  let ivals := l.getD "ivals" "-"
  let iunits : List Bytes := if ivals == "-" then [] else
    ((ivals.splitOn ";").flatMap (·.splitOn "+")).map fun m => unhex ((m.splitOn ":").getD 1 "")
  let base := if iunits.all Spec.Tidy.isBase then 1 else 0
  IO.println s!"spec {id} rep={rep} base={base} split=0"
  -- metadata: the first field naming a unit with the same base unit and the same key wins
  let fields : List (Bytes × Bytes × Bytes) := lines.flatMap fun
    | .unit u kvs => kvs.map fun (k, v) => ((Spec.Tidy.tidyUnit u).1, k, v)
    | .bench _ => []
  let looks := qs.flatMap fun q => metaKeys.map fun k =>
    match fields.find? (fun f => f.1 == (Spec.Tidy.tidyUnit q).1 && f.2.1 == k) with
    | some f => f.2.2.toHex
    | none => "nil"
  IO.println s!"spec {id} look={join looks} metaeq=1"
  -- filters: a `.unit:p` term selects a measurement iff p is its written or its base unit
  let writtenRes : List (List Bytes) := lines.filterMap fun
    | .bench ms => some (ms.map (·.2))
    | .unit _ _ => none
  let sfilt := pats.map fun p =>
    if writtenRes.isEmpty then "-" else
    "/".intercalate (writtenRes.map fun r => String.ofList (r.map fun u =>
      if p == u || p == (Spec.Tidy.tidyUnit u).1 then '1' else '0'))
  IO.println s!"spec {id} filt={join sfilt}"


/-- `comb=<op>-<w>-<order>`: the `.unit` term's verdict `u` for one measurement combined with a
whole-result term W (name: the result is named Keep; goosT: true; goosF: false). -/
def combine (comb : String) (name : Bytes) (u : Bool) : Bool :=
  match comb.splitOn "-" with
  | [op, w, _] =>
    let wv := match w with
      | "name" => name == Bytes.ofString "Keep"
      | "goosT" => true
      | _ => false
    match op with
    | "or" => wv || u
    | "nor" => !(wv || u)
    | "and" => wv && u
    | "nand" => !(wv && u)
    | _ => u
  | _ => u

/-- the literals of a `.unit` value list / OR chain: `pat` split at newlines -/
def splitLits (pat : Bytes) : List Bytes :=
  let (acc, cur) := pat.foldl (fun (st : List Bytes × Bytes) c =>
    if c == 10 then (st.1 ++ [st.2], []) else (st.1, st.2 ++ [c])) (([] : List Bytes), ([] : Bytes))
  acc ++ [cur]

def isListKind (fk : String) : Bool := fk == "list" || fk == "chain"
def isNListKind (fk : String) : Bool := fk == "nlist" || fk == "nchain"

/-- a result line of a history: name and measurements as written -/
structure HLine where
  name : Bytes
  ms : List (F64.Bits × Bytes)

def parseHLine (e : String) : HLine :=
  match e.splitOn ":" with
  | n :: _ =>
    let body := (e.drop (n.length + 1)).toString
    { name := unhex (n.drop 1).toString
      ms := (body.splitOn "+").filterMap fun m =>
        match m.splitOn ":" with
        | [v, u] => some (bits v, unhex u)
        | _ => none }
  | [] => { name := [], ms := [] }

def joinNE (l : List String) (sep : String) : String := if l.isEmpty then "-" else sep.intercalate l

/-- `kind=hist`: several files on one Reader, an in-place filter after every result. The model has no
history: every line is `readerValue` of what is written on it. -/
def handleHist (l : Line) : IO Unit := do
  let id := l.id
  let files : List (List HLine) := ((l.getD "files").splitOn "|").map fun f => (f.splitOn ";").map parseHLine
  let fk := l.getD "fk"
  let comb := l.getD "comb" "none"
  let pat := unhex (l.getD "pat")
  let sName : Bytes := Bytes.ofString "Keep"
  -- regexp terms built from a literal: ^lit, ^lit$, lit, lit$ decided on one spelling
  let reMode := (fk.splitOn "-").getD 1 ""
  let litMatch (u : Bytes) : Bool :=
    match reMode with
    | "prefix" => Bytes.hasPrefix u pat
    | "exact" => u == pat
    | "suffix" => Bytes.hasPrefix u.reverse pat.reverse
    | _ => Bytes.contains u pat
  let isRe := fk.startsWith "re-"
  let isNre := fk.startsWith "nre-"
  -- model
  let keepModel (ln : HLine) (v : Value) : Bool :=
    combine comb ln.name <|
    if isRe then unitMatch litMatch v
    else if isNre then !unitMatch litMatch v
    else if isListKind fk then unitMatch (fun x => (splitLits pat).any (· == x)) v
    else if isNListKind fk then !unitMatch (fun x => (splitLits pat).any (· == x)) v
    else match fk with
    | "u" => unitMatch (· == pat) v
    | "nu" => !unitMatch (· == pat) v
    | "name" => ln.name == sName
    | _ => true
  let fresh := "|".intercalate (files.map fun f => joinNE (f.map fun ln =>
    joinNE (ln.ms.map fun (v, u) => showValue (readerValue v u)) "+") ";")
  IO.println s!"obs {id} shape=ok alias=ok fresh={fresh}"
  let kept := "|".intercalate (files.map fun f => joinNE (f.map fun ln =>
    String.ofList (ln.ms.map fun (v, u) => if keepModel ln (readerValue v u) then '1' else '0')) ";")
  let after := "|".intercalate (files.map fun f => joinNE (f.map fun ln =>
    joinNE ((ln.ms.map fun (v, u) => readerValue v u).filter (keepModel ln) |>.map showValue) "+") ";")
  IO.println s!"obs {id} kept={kept} after={after}"
  -- spec: each line on its own
  let rep := "|".intercalate (files.map fun f => joinNE (f.map fun ln =>
    joinNE (ln.ms.map fun (v, u) => showReport (Spec.Tidy.report v u)) "+") ";")
  let ivals := l.getD "ivals" "-"
  let iunits : List Bytes :=
    (((ivals.splitOn "|").flatMap (·.splitOn ";")).flatMap (·.splitOn "+")).filterMap fun m =>
      match m.splitOn ":" with
      | [_, u, _, _] => some (unhex u)
      | _ => none
  let base := if iunits.all Spec.Tidy.isBase then 1 else 0
  IO.println s!"spec {id} rep={rep} base={base} alias=ok"
  let skept := "|".intercalate (files.map fun f => joinNE (f.map fun ln =>
    String.ofList (ln.ms.map fun (_, u) =>
      let hit := if isRe || isNre then litMatch u || litMatch (Spec.Tidy.tidyUnit u).1
                 else if isListKind fk || isNListKind fk then
                   (splitLits pat).any fun p => p == u || p == (Spec.Tidy.tidyUnit u).1
                 else pat == u || pat == (Spec.Tidy.tidyUnit u).1
      let k := combine comb ln.name <| if isRe || isListKind fk then hit else if isNre || isNListKind fk then !hit else match fk with
        | "u" => hit
        | "nu" => !hit
        | "name" => ln.name == sName
        | _ => true
      if k then '1' else '0')) ";")
  IO.println s!"spec {id} kept={skept}"

/-- `kind=keep`: all Matches of one Filter are taken first and read afterwards; each must be the
verdict for its own result. -/
def handleKeep (l : Line) : IO Unit := do
  let id := l.id
  let lines : List HLine := ((l.getD "files").splitOn ";").map parseHLine
  let fk := l.getD "fk"
  let comb := l.getD "comb" "none"
  let pat := unhex (l.getD "pat")
  let conc := l.getD "conc" == "1"
  let sName : Bytes := Bytes.ofString "Keep"
  let reMode := (fk.splitOn "-").getD 1 ""
  let litMatch (u : Bytes) : Bool :=
    match reMode with
    | "prefix" => Bytes.hasPrefix u pat
    | "exact" => u == pat
    | "suffix" => Bytes.hasPrefix u.reverse pat.reverse
    | _ => Bytes.contains u pat
  let isRe := fk.startsWith "re-"
  let isNre := fk.startsWith "nre-"
  let keepModel (ln : HLine) (v : Value) : Bool :=
    combine comb ln.name <|
    if isRe then unitMatch litMatch v
    else if isNre then !unitMatch litMatch v
    else if isListKind fk then unitMatch (fun x => (splitLits pat).any (· == x)) v
    else if isNListKind fk then !unitMatch (fun x => (splitLits pat).any (· == x)) v
    else match fk with
    | "u" => unitMatch (· == pat) v
    | "nu" => !unitMatch (· == pat) v
    | "name" => ln.name == sName
    | _ => true
  let keepSpec (ln : HLine) (u : Bytes) : Bool :=
    let hit := if isRe || isNre then litMatch u || litMatch (Spec.Tidy.tidyUnit u).1
               else if isListKind fk || isNListKind fk then
                 (splitLits pat).any fun p => p == u || p == (Spec.Tidy.tidyUnit u).1
               else pat == u || pat == (Spec.Tidy.tidyUnit u).1
    combine comb ln.name <| if isRe || isListKind fk then hit else if isNre || isNListKind fk then !hit else match fk with
      | "u" => hit
      | "nu" => !hit
      | "name" => ln.name == sName
      | _ => true
  let showB (b : Bool) : String := if b then "true" else "false"
  let render (verdicts : HLine → List (Bool × String)) : String :=
    joinNE (lines.map fun ln =>
      let vs := verdicts ln
      let bits := String.ofList (vs.map fun (k, _) => if k then '1' else '0')
      let anyB := vs.any (·.1)
      let allB := vs.all (·.1)
      let after := joinNE ((vs.filter (·.1)).map (·.2)) "+"
      s!"{bits}:{showB anyB}:{showB allB}:{showB anyB}:{after}") ";"
  let one := render fun ln => ln.ms.map fun (v, u) => let rv := readerValue v u; (keepModel ln rv, showValue rv)
  IO.println s!"obs {id} shape=ok kept={if conc then one ++ "|" ++ one else one}"
  let sone := render fun ln => ln.ms.map fun (v, u) => (keepSpec ln u, showReport (Spec.Tidy.report v u))
  IO.println s!"spec {id} kept={if conc then sone ++ "|" ++ sone else sone}"

def handle (l : Line) : IO Unit := do
  if l.kind != "case" then return
  let id := l.id
  match l.getD "kind" with
  | "consts" =>
    IO.println s!"obs {id} ns={hexF (tidy F64.one sNs).1} MB={hexF (tidy F64.one sMB).1} nsop={hexF (tidy F64.one sNsOp).1} MBs={hexF (tidy F64.one sMBs).1} e9={hexF f1e9} e6={hexF f1e6}"
  | "tidy" =>
    let v := bits (l.getD "v")
    let u := unhex (l.getD "unit")
    let (tv, tu) := tidy v u
    let f := (tidy F64.one u).1
    let unc := match tidyUnitUncached? u with
      | some (uu, uf) => s!"{uu.toHex}:{hexF uf}"
      | none => "panic"
    IO.println s!"obs {id} tv={hexF tv} tu={tu.toHex} f={hexF f} unc={unc} memo=ok"
    let (sv, su) := Spec.Tidy.tidy v u
    let iu := unhex (l.getD "iu")
    IO.println s!"spec {id} unit={su.toHex} val={hexF sv} base={if Spec.Tidy.isBase iu then 1 else 0} idem=1"
  | "file" => handleFile l
  | "conc" =>
    -- concurrent first use: per unit exactly one reader result and one Tidy result, the stateless ones
    let v := bits (l.getD "v")
    let us := (l.hexList? "units").getD []
    let m := us.map fun u =>
      let (tv, tu) := tidy v u
      s!"R:{showValue (readerValue v u)}/T:{hexF tv}:{tu.toHex}"
    IO.println s!"obs {id} conc={join m}"
    let sp := us.map fun u =>
      let (sv, su) := Spec.Tidy.tidy v u
      s!"R:{showReport (Spec.Tidy.report v u)}/T:{hexF sv}:{su.toHex}"
    IO.println s!"spec {id} conc={join sp}"
  | "seq" =>
    -- a history of Tidy calls: the model and the specification are stateless
    let v := bits (l.getD "v")
    let us := (l.hexList? "units").getD []
    let mseq := us.map fun u => let (tv, tu) := tidy v u; s!"{hexF tv}:{tu.toHex}"
    IO.println s!"obs {id} seq={join mseq}"
    let sseq := us.map fun u => let (sv, su) := Spec.Tidy.tidy v u; s!"{hexF sv}:{su.toHex}"
    let iunits : List Bytes := ((l.getD "iseq" "-").splitOn ",").filterMap fun m =>
      match m.splitOn ":" with
      | [_, u] => some (unhex u)
      | _ => none
    IO.println s!"spec {id} seq={join sseq} base={if iunits.all Spec.Tidy.isBase then 1 else 0}"
  | "hist" => handleHist l
  | "keep" => handleKeep l
  | _ => pure ()

end Driver.C04

def main : IO Unit := do
  let stdin ← IO.getStdin
  Proto.forEachLine stdin fun s => Driver.C04.handle (Proto.parseLine s)
