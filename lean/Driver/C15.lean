import Model.Tab.DriverLib

/-
C15 driver. Same case lines as C14. The MODEL is run with its nondeterminism explicit
(`Tab.toTablesSched`) under several schedules — map iteration orders and goroutine completion
orders —; the obs lines are printed from one of them (chosen by the case id) and must equal
what the real code built; `sched same=1` reports that all schedules gave identical tables
(self-check of the model, cf. theorem C15.toTables_order_independent).
  spec — what the property demands of the runtime part: byte-identical output of all runs,
         no race report, cells unchanged under line permutation.
-/
namespace Driver.C15
open Proto Tab Tab.DriverLib

def rotate {α : Type} (l : List α) : List α := l.drop 1 ++ l.take 1
def evensOdds {α : Type} (l : List α) : List α :=
  (l.zipIdx.filter fun x => x.2 % 2 == 0).map (·.1) ++ (l.zipIdx.filter fun x => x.2 % 2 == 1).map (·.1)

def scheds : List Sched :=
  [ Sched.default,
    { iter := fun _ l => l.reverse, taskOrder := fun _ l => l.reverse },
    { iter := fun _ l => rotate l, taskOrder := fun _ l => evensOdds l },
    { iter := fun _ l => evensOdds l.reverse, taskOrder := fun _ l => rotate (rotate l) },
    { iter := fun _ l => l, taskOrder := fun _ l => l.reverse } ]

def handle (l : Line) : IO Unit := do
  if l.kind != "case" then return
  let id := l.id
  match l.getD "kind" with
  | "defaults" => IO.println (defaultsLine id)
  | "tidy" =>
    if (l.get? "crashed").isSome then return
    IO.println s!"spec {id} tidy same=1 race=0"
  | "run" =>
    if (l.get? "crashed").isSome then return   -- the real code died on this case: the harness printed `crash`
    match l.get? "err" with
    | some e =>
      IO.println s!"obs {id} err={e}"
      IO.println s!"spec {id} err bin=ok"
    | none =>
      let c := parseCase l
      let b := build c.res
      let n := (id.toNat?.getD 0) % scheds.length
      let pick := scheds.getD n Sched.default
      let ts := toTablesSched c.cfg pick b
      match obsTables id c ts with
      | [] => pure ()
      | h :: rest =>
        IO.println h
        for line in rawLines id l c do IO.println line
        for line in rest do IO.println line
      let ref := toTables c.cfg b
      let same := scheds.all fun s => decide (toTablesSched c.cfg s b = ref)
      IO.println s!"obs {id} sched same={if same then 1 else 0}"
      IO.println (reswLine id c)
      IO.println s!"spec {id} same=1 race=0 perm=1 hist=1 incr=1 bin=ok"
  | _ => pure ()

end Driver.C15

def main : IO Unit := do
  let stdin ← IO.getStdin
  Proto.forEachLine stdin fun s => Driver.C15.handle (Proto.parseLine s)
