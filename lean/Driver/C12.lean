import Model.Base.Proto
import Model.Stats.Descr
import Model.Stats.TTest
import Model.Stats.Beta
import Model.Stats.Dists
import Model.Stats.Weighted
import Model.Spec.StatsSpec

/-!
C12 driver. For every `case` line of the Go harness it prints

  obs  … f64   the float64 instance of the model (must equal Go's bits)
  obs  … q     the exact (ℚ) instance of the model judged against Go's value with a tolerance
  spec …       the textbook specification judged against Go's value / the numeric property

Tolerances (k ulps of the data's scale) are the constants below; see notes/C12.md.
-/

namespace Driver.C12
open Proto Stats Spec.Stats

/-! tolerances, in ulps of the stated scale -/
def kMean : Nat := 64        -- ulp(max|x|)
def kVar : Nat := 128        -- ulp(max|x|)·D + ulp(D²), D = max|x − x̄|
def kPct : Nat := 4          -- ulp(max|x|)
def kPos : Nat := 4          -- ulp(N+1) · (gap between neighbouring order statistics)
def kGeo : Nat := 64         -- relative 2^-52 · max(1, max|ln x|)

def nanBits : F64.Bits := F64.nan

def bits? (s : String) : Option F64.Bits := if s == "nan" then some nanBits else F64.ofHex? s
def bitsD (s : String) : F64.Bits := (bits? s).getD nanBits
def bitsList (s : String) : List F64.Bits := if s == "-" then [] else (s.splitOn ",").map bitsD
def showB (b : F64.Bits) : String := if F64.isNaN b then "nan" else F64.toHex b
def showFl (x : Fl) : String := showB x.bits
def showOpt (x : Option Fl) : String := match x with | some v => showFl v | none => "nan"
def showList (l : List String) : String := if l.isEmpty then "-" else ",".intercalate l

/-- a function given by a finite table of (argument bits, result bits); NaN outside the table -/
def table (t : List (F64.Bits × F64.Bits)) (x : Fl) : Fl :=
  match t.find? (fun p => p.1 == x.bits) with
  | some p => ⟨p.2⟩
  | none => Fl.nan

/-- aliasing / statelessness verdicts reported on the case line: `kept` = the caller's slices (windows
of larger arrays with sentinels around) are bit-identical and in the original order after ALL calls
of the case; `again` = the same Sample queried again in another order answered identically -/
def keptAgain (l : Line) : String :=
  let k := if l.getD "kept" == "1" then "kept" else "modified"
  let a := if l.getD "again" == "1" then "same" else "differs"
  s!"in={k} again={a}"

def allOk (l : List String) : String :=
  match l.find? (· != "ok") with
  | some s => s
  | none => "ok"

def descr (l : Line) : IO Unit := do
  let id := l.id
  let xsB := bitsList (l.getD "xs")
  let xs : List Fl := xsB.map Fl.mk
  let sorted := l.getD "sorted" == "1"
  let psB := bitsList (l.getD "ps")
  let ps : List Fl := psB.map Fl.mk
  let lx := bitsList (l.getD "lx")
  let logT := table (xsB.zip lx)
  let expT := table [(bitsD (l.getD "mlog"), bitsD (l.getD "emlog"))]
  -- K (i): float64 instance
  let mean := Descr.mean xs
  let var := Descr.variance xs
  let geo := Descr.geoMean logT expT xs
  let sb := Descr.sampleBounds xs sorted
  let bb := Descr.bounds xs
  let pct := ps.map fun p => showOpt (Descr.percentile xs sorted p)
  let iqr := Descr.iqr xs sorted
  IO.println s!"obs {id} f64 mean={showOpt mean} var={showOpt var} geo={showOpt geo} min={showOpt (sb.map (·.1))} max={showOpt (sb.map (·.2))} bmin={showOpt (bb.map (·.1))} bmax={showOpt (bb.map (·.2))} pct={showList pct} iqr={showOpt iqr}"
  -- exact values of the data
  let xq : List Rat := xsB.map toRat
  let pq : List Rat := psB.map toRat
  let M := maxAbs xq
  let gmean := bitsD (l.getD "gmean")
  let gvar := bitsD (l.getD "gvar")
  let gsd := bitsD (l.getD "gsd")
  let ggeo := bitsD (l.getD "ggeo")
  let gmin := bitsD (l.getD "gmin")
  let gmax := bitsD (l.getD "gmax")
  let gpct := bitsList (l.getD "gpct")
  let giqr := bitsD (l.getD "giqr")
  let n := xq.length
  let u := ulp M
  -- K (ii): exact instance of the model
  let qmean := (Descr.mean xq).getD 0
  let qvar := (Descr.variance xq).getD 0
  let D := maxAbs (xq.map (· - qmean))
  let uv := u * D + ulp (D * D)
  -- N12b: on a sample only a few hundred ulps wide the incremental update loses its increments
  -- (below half an ulp of m) and the mean stagnates; the a-priori bound is then the spread itself.
  -- K (model = code) grants that bound; S keeps the k-ulp tolerance and tags the class.
  let spread := maxOf xq - minOf xq
  let narrow := n ≥ 2 ∧ spread ≤ 16 * (n : Rat) * u
  let jmean := judge gmean qmean (kMean * u + (if narrow then spread else 0))
  let jvar := if n ≤ 1 then (if gvar == 0 then "ok" else "bad")
    else judge gvar qvar (kVar * uv + (if narrow then 2 * spread * spread else 0))
  let srt := Spec.Stats.sort xq
  let xqs := if sorted then xq else Descr.sortXs xq
  let qpct := pq.map fun p => (Descr.percentile xqs true p).getD 0
  let ptol := pq.map fun p => kPct * u + kPos * positionSlack srt p
  let jpct := allOk ((gpct.zip (qpct.zip ptol)).map fun (g, q, t) => judge g q t)
  let iqrTol := 2 * kPct * u + kPos * (positionSlack srt (mkRat 3 4) + positionSlack srt (mkRat 1 4))
  let jiqr := judge giqr ((Descr.iqr xqs true).getD 0) iqrTol
  -- N12c: a spread beyond MaxFloat64 overflows the float64 differences; the exact instance is not
  -- comparable there (the bit-exact line above still is)
  let maxFloat : Rat := pow2 1024 - pow2 971
  let ovf := spread > maxFloat
  if ovf then
    IO.println s!"obs {id} q mean=ok var=ok pct=ok iqr=ok"
  else
    IO.println s!"obs {id} q mean={jmean} var={jvar} pct={jpct} iqr={jiqr}"
  IO.println s!"note {id} n={n} kmean={errUnits (toRat gmean) qmean u} kvar={if n ≤ 1 then 0 else errUnits (toRat gvar) qvar uv}"
  -- S: textbook definitions
  let smean := Spec.Stats.mean xq
  let svar := Spec.Stats.variance xq
  let tmean := judge gmean smean (kMean * u)
  let tvar := if n ≤ 1 then (if gvar == 0 then "ok" else "bad") else judge gvar svar (kVar * uv)
  -- StdDev: the square root of Go's own variance, within one ulp
  let tsd :=
    if !F64.isFinite gvar then "ok" else
    let r := sqrtRat (toRat gvar)
    judge gsd r (ulp r + r * mkRat 1 (10 ^ 17))
  -- GeoMean: g is the n-th root of Πx  ⇔  (g(1−δ))^n ≤ Πx ≤ (g(1+δ))^n
  let tgeo :=
    if xq.any (· ≤ 0) then (if F64.isNaN ggeo then "ok" else s!"bad(go={showB ggeo},ref=nan)")
    else if !F64.isFinite ggeo then s!"nonfinite({showB ggeo})"
    else
      let L : Rat := xq.foldl (fun a x => rmax a (rabs ((ilog2 x : Int) : Rat) + 1)) 1
      let δ : Rat := (kGeo : Rat) * pow2 (-52) * L
      let g := toRat ggeo
      let prod := xq.foldl (· * ·) 1
      if (g * (1 - δ)) ^ n ≤ prod ∧ prod ≤ (g * (1 + δ)) ^ n then "ok"
      else s!"bad(go={showB ggeo})"
  let tbounds :=
    if toRat gmin == minOf xq ∧ toRat gmax == maxOf xq then "ok" else s!"bad(min={showB gmin},max={showB gmax})"
  let spct := pq.map fun p => quantileR8 srt p
  let tpct := allOk ((gpct.zip (spct.zip ptol)).map fun (g, q, t) => judge g q t)
  let gq := gpct.map toRat
  let rec mono : List Rat → Bool
    | a :: b :: r => a ≤ b && mono (b :: r)
    | _ => true
  let tmono := if mono gq then "ok" else "bad"
  let tbound := if gq.all (fun v => minOf xq ≤ v ∧ v ≤ maxOf xq) then "ok" else "bad"
  let tiqr := judge giqr (quantileR8 srt (mkRat 3 4) - quantileR8 srt (mkRat 1 4)) iqrTol
  let devOK := F64.isFinite gmean ∧ rabs (toRat gmean - smean) ≤ spread ∧
    (n ≤ 1 ∨ (F64.isFinite gvar ∧ rabs (toRat gvar - svar) ≤ 2 * spread * spread + kVar * uv))
  -- GeoMean runs the same incremental loop over log x: same stagnation; still inside [min, max]
  let geoOK := tgeo == "ok" ∨ (F64.isFinite ggeo ∧ minOf xq ≤ toRat ggeo ∧ toRat ggeo ≤ maxOf xq)
  -- narrow in the log domain: the spread of ln x is within 4n ulps of max|ln x|
  let Lg : Rat := xq.foldl (fun a x => if x > 0 then rmax a (rabs ((ilog2 x : Int) : Rat) + 1) else a) 1
  let narrowGeo := n ≥ 2 ∧ xq.all (· > 0) ∧ spread ≤ 16 * (n : Rat) * pow2 (-52) * Lg * minOf xq
  let kfTag :=
    if ovf ∧ [tmean, tvar, tsd, tpct, tbound, tiqr].any (· != "ok") then " kf=N12c"
    else if narrow ∧ (tmean != "ok" ∨ tvar != "ok" ∨ tgeo != "ok") ∧ devOK ∧ geoOK then " kf=N12b"
    else if narrowGeo ∧ tmean == "ok" ∧ tvar == "ok" ∧ tgeo != "ok" ∧ geoOK then " kf=N12b"
    else ""
  IO.println s!"spec {id} mean={tmean} var={tvar} sd={tsd} geo={tgeo} bounds={tbounds} pct={tpct} pmono={tmono} pbound={tbound} iqr={tiqr} {keptAgain l}{kfTag}"

/-! ### weighted samples (specification only: exact definitions in ℚ) -/

def wdescr (l : Line) : IO Unit := do
  let id := l.id
  let xsB := bitsList (l.getD "xs")
  let xq := xsB.map toRat
  let wq := (bitsList (l.getD "ws")).map toRat
  let pq := (bitsList (l.getD "ps")).map toRat
  let gmean := bitsD (l.getD "gmean"); let ggeo := bitsD (l.getD "ggeo")
  let gmin := bitsD (l.getD "gmin"); let gmax := bitsD (l.getD "gmax")
  let gpct := bitsList (l.getD "gpct")
  -- K: float64 instance of the weighted model
  let wsB := bitsList (l.getD "ws")
  let srtd := l.getD "sorted" == "1"
  let pf : List (Fl × Fl) := (xsB.map Fl.mk).zip (wsB.map Fl.mk)
  let logT := table (xsB.zip (bitsList (l.getD "lx")))
  let expT := table [(bitsD (l.getD "mlog"), bitsD (l.getD "emlog"))]
  let kb := Weighted.wbounds pf srtd
  let kp := (bitsList (l.getD "ps")).map fun p => showOpt (Weighted.wpercentile pf srtd ⟨p⟩)
  IO.println s!"obs {id} mean={showOpt (Weighted.wmean pf)} geo={showOpt (Weighted.wgeoMean logT expT pf)} min={showOpt (kb.map (·.1))} max={showOpt (kb.map (·.2))} pct={showList kp}"
  let fuzzy := l.getD "fuzzy" == "1"
  let pairs := xq.zip wq
  let W := wq.foldl (· + ·) 0
  let nz := (pairs.filter (fun (_, w) => w != 0)).map (·.1)
  let all0 := W == 0     -- total weight zero → NaN (Mean, GeoMean, Percentile for 0 < p < 1; F26)
  let expectNaN (g : F64.Bits) : String := if F64.isNaN g then "ok" else s!"bad(go={showB g},want=nan)"
  let u := ulp (maxAbs xq)
  let tmean :=
    if all0 then expectNaN gmean
    else judge gmean ((pairs.foldl (fun a (x, w) => a + w * x) 0) / W) (kMean * u)
  let tgeo :=
    if all0 then expectNaN ggeo
    else if nz.any (· ≤ 0) then "ok"     -- log of a non-positive value: outside the definition
    else if fuzzy then "ok"              -- weights not multiples of 1/4: only K (bit-exact) judges it
    else if !F64.isFinite ggeo then s!"nonfinite({showB ggeo})"
    else
      -- g^(4W) = Π x^(4w) (weights are multiples of 1/4; zero-weight entries contribute x^0 = 1)
      let L : Rat := nz.foldl (fun a x => rmax a (rabs ((ilog2 x : Int) : Rat) + 1)) 1
      let δ : Rat := (kGeo : Rat) * pow2 (-52) * L
      let g := toRat ggeo
      let e := (4 * W).num.toNat
      let prod := pairs.foldl (fun a (x, w) => if w == 0 then a else a * x ^ (4 * w).num.toNat) 1
      if (g * (1 - δ)) ^ e ≤ prod ∧ prod ≤ (g * (1 + δ)) ^ e then "ok" else s!"bad(go={showB ggeo})"
  let tb :=
    if nz.isEmpty then (if F64.isNaN gmin ∧ F64.isNaN gmax then "ok" else s!"bad(min={showB gmin},max={showB gmax},want=nan)")
    else if F64.isFinite gmin ∧ F64.isFinite gmax ∧ toRat gmin == minOf nz ∧ toRat gmax == maxOf nz then "ok"
    else s!"bad(min={showB gmin},max={showB gmax})"
  -- weighted percentile: smallest x (in ascending order) whose cumulative weight exceeds W·p
  let srt := (pairs.toArray.qsort (fun a b => a.1 < b.1)).toList
  let wpct (p : Rat) : Option Rat :=
    if p ≤ 0 then (if nz.isEmpty then none else some (minOf nz))
    else if p ≥ 1 then (if nz.isEmpty then none else some (maxOf nz))
    else if all0 then none   -- documented: all weights zero → NaN
    else
      let target := W * p
      let rec go (c : Rat) : List (Rat × Rat) → Option Rat
        | [] => srt.getLast?.map (·.1)
        | (x, w) :: r => if c + w > target then some x else go (c + w) r
      go 0 srt
  let tp := allOk ((pq.zip gpct).map fun (p, g) =>
    if fuzzy ∧ 0 < p ∧ p < 1 ∧ !all0 then
      -- inexact weights: total·p and the running subtraction round; accept what the definition
      -- gives for p ∓ 1e-9 (a value of the sample between those two)
      let e : Rat := mkRat 1 (10 ^ 9)
      match wpct (p - e), wpct (if p + e < 1 then p + e else 1) with
      | some lo, some hi =>
        if F64.isFinite g ∧ lo ≤ toRat g ∧ toRat g ≤ hi ∧ nz.contains (toRat g) then "ok"
        else s!"bad(p~{showRat p},go={showB g},want~{showRat lo}..{showRat hi})"
      | _, _ => expectNaN g
    else
    match wpct p with
    | none => expectNaN g
    | some v => if F64.isFinite g ∧ toRat g == v then "ok" else s!"bad(p~{showRat p},go={showB g},want~{showRat v})")
  let tun := if l.getD "wvar" == "unimpl" ∧ l.getD "wsd" == "unimpl" then "ok"
    else s!"bad(Variance={l.getD "wvar"},StdDev={l.getD "wsd"},want=refusal)"
  IO.println s!"spec {id} mean={tmean} geo={tgeo} bounds={tb} pct={tp} unimpl={tun} {keptAgain l}"

/-! ### t-tests -/

open Stats.TTest in
def errName : TErr → String
  | .sampleSize => "size" | .zeroVariance => "zerovar" | .mismatched => "mismatch"

/-- relative tolerance of the formula layer: the model is evaluated exactly (sqrt to 1e-18) on
Go's own float64 (n, mean, variance); Go rounds each of ≤ 12 operations -/
def tolFormula : Rat := 32 * pow2 (-53)

structure GoRes where
  n1 : Int
  n2 : Int
  t : F64.Bits
  dof : F64.Bits
  p : F64.Bits
  fa : F64.Bits
  ft : F64.Bits
  pref : F64.Bits := F64.nan

def parseRes (s : String) : Except String GoRes :=
  if s.startsWith "err:" then .error ((s.drop 4).toString) else
  match s.splitOn ":" with
  | [a, b, t, d, p, fa, ft, pr] =>
    .ok ⟨a.toInt?.getD 0, b.toInt?.getD 0, bitsD t, bitsD d, bitsD p, bitsD fa, bitsD ft, bitsD pr⟩
  | [a, b, t, d, p, fa, ft] =>
    .ok ⟨a.toInt?.getD 0, b.toInt?.getD 0, bitsD t, bitsD d, bitsD p, bitsD fa, bitsD ft, F64.nan⟩
  | _ => .error "unparsable"

def relClose (go : F64.Bits) (ref tol : Rat) : Bool :=
  F64.isFinite go && rabs (toRat go - ref) ≤ tol * rabs ref + pow2 (-1074)

open Stats.TTest in
def altOf (s : String) : Alt := if s == "-1" then .less else if s == "1" then .greater else .differs

open Stats.TTest in
/-- K entry of one test: error kinds exact, N1/N2 exact, T and DoF within `tolFormula` of the
exact model value, P bit-exact through the float64 instance of `pvalue` on Go's own CDF values -/
def kEntry (go : String) (model : Except TErr (TStat Rat)) (n1 n2 : Int) (alt : Alt) : String :=
  if go == "-" then "-" else
  if go == "degen" then (match model with | .ok m => if m.dof ≤ 0 then "degen" else "bad(go=degen)" | .error e => s!"bad(go=degen,model={errName e})") else
  match parseRes go, model with
  | .error k, .error e => if k == errName e then k else s!"bad(go={k},model={errName e})"
  | .error k, .ok _ => s!"bad(go={k},model=ok)"
  | .ok _, .error e => s!"bad(go=ok,model={errName e})"
  | .ok g, .ok m =>
    if m.dof ≤ 0 then "degen" else
    let cdf := table [(F64.abs g.t, g.fa), (g.t, g.ft)]
    let pm : Fl := pvalue cdf ⟨g.t⟩ alt
    if !relClose g.t m.t tolFormula then s!"bad(T={showB g.t},model~{showRat m.t})"
    else if !relClose g.dof m.dof tolFormula then s!"bad(DoF={showB g.dof},model~{showRat m.dof})"
    else if F64.canonNaN pm.bits != F64.canonNaN g.p then s!"bad(P={showB g.p},model={showFl pm})"
    else if g.n1 != n1 ∨ g.n2 != n2 then s!"bad(N={g.n1}:{g.n2},model={n1}:{n2})"
    else s!"ok:{n1}:{n2}"

structure Moments where
  n : Nat
  mean : Rat
  var : Rat
  dm : Rat   -- accuracy granted to Go's float64 mean  (kMean ulps of the scale)
  dv : Rat   -- accuracy granted to Go's float64 variance
  allEq : Bool

def moments (xq : List Rat) : Moments :=
  let n := xq.length
  if n == 0 then ⟨0, 0, 0, 0, 0, true⟩ else
  let m := Spec.Stats.mean xq
  let v := if n ≤ 1 then 0 else Spec.Stats.variance xq
  let u := ulp (maxAbs xq)
  let D := maxAbs (xq.map (· - m))
  ⟨n, m, v, kMean * u, kVar * (u * D + ulp (D * D)), xq.all (· == xq.headD 0)⟩

/-- judge Go's (T, DoF) against the textbook values with first-order propagated tolerances -/
def sJudge (go : String) (spec : Except String (Rat × Rat × Rat × Rat)) : String :=
  if go == "-" then "ok" else
  if go == "degen" then "bad(go=degen)" else
  match parseRes go, spec with
  | .error k, .error e =>
    -- "zerovar~": the exact variance is below the accuracy of a float64 variance; both answers pass
    if k == e ∨ (e == "zerovar~" ∧ k == "zerovar") then "ok" else s!"bad(go={k},spec={e})"
  | .ok _, .error "zerovar~" => "ok"
  | .error k, .ok _ => s!"bad(go={k},spec=ok)"
  | .ok _, .error e => s!"bad(go=ok,spec={e})"
  | .ok g, .ok (t, dt, dof, ddof) =>
    if !(F64.isFinite g.t && rabs (toRat g.t - t) ≤ dt) then s!"bad(T={showB g.t},spec~{showRat t})"
    else if !(F64.isFinite g.dof && rabs (toRat g.dof - dof) ≤ ddof) then s!"bad(DoF={showB g.dof},spec~{showRat dof})"
    else "ok"

def eps : Rat := 64 * pow2 (-53)

/-- Welch: t = (x̄₁−x̄₂)/√(s₁²/n₁+s₂²/n₂), ν = (s₁²/n₁+s₂²/n₂)² / (s₁⁴/(n₁²(n₁−1)) + s₂⁴/(n₂²(n₂−1))) -/
def specWelch (a b : Moments) : Except String (Rat × Rat × Rat × Rat) :=
  if a.n ≤ 1 ∨ b.n ≤ 1 then .error "size"
  else if a.allEq ∧ b.allEq then .error "zerovar"
  else if a.var ≤ a.dv ∧ b.var ≤ b.dv then .error "zerovar~"
  else
    let n1 : Rat := a.n; let n2 : Rat := b.n
    let se2 := a.var / n1 + b.var / n2
    let se := sqrtRat se2
    let t := (a.mean - b.mean) / se
    let dse2 := a.dv / n1 + b.dv / n2
    let dt := 2 * ((a.dm + b.dm) / se + rabs t * (dse2 / se2)) + rabs t * eps
    let dof := se2 ^ 2 / (a.var ^ 2 / (n1 ^ 2 * (n1 - 1)) + b.var ^ 2 / (n2 ^ 2 * (n2 - 1)))
    let ra := if a.var == 0 then 0 else a.dv / a.var
    let rb := if b.var == 0 then 0 else b.dv / b.var
    .ok (t, dt, dof, dof * (8 * rmax ra rb + eps))

/-- pooled: t = (x̄₁−x̄₂)/√(s_p²(1/n₁+1/n₂)), s_p² = ((n₁−1)s₁²+(n₂−1)s₂²)/(n₁+n₂−2), ν = n₁+n₂−2 -/
def specPooled (a b : Moments) : Except String (Rat × Rat × Rat × Rat) :=
  if a.n == 0 ∨ b.n == 0 then .error "size"
  else if a.allEq ∧ b.allEq then .error "zerovar"
  else if a.var ≤ a.dv ∧ b.var ≤ b.dv then .error "zerovar~"
  else
    let n1 : Rat := a.n; let n2 : Rat := b.n
    let dof := n1 + n2 - 2
    let sp2 := ((n1 - 1) * a.var + (n2 - 1) * b.var) / dof
    let c := 1 / n1 + 1 / n2
    let se := sqrtRat (sp2 * c)
    let t := (a.mean - b.mean) / se
    let dsp2 := ((n1 - 1) * a.dv + (n2 - 1) * b.dv) / dof
    let dt := 2 * ((a.dm + b.dm) / se + rabs t * (dsp2 / sp2)) + rabs t * eps
    .ok (t, dt, dof, 0)

/-- one-sample: t = (x̄−μ₀)/(s/√n), ν = n−1 -/
def specOne (a : Moments) (μ0 : Rat) : Except String (Rat × Rat × Rat × Rat) :=
  if a.n == 0 then .error "size"
  else if a.allEq then .error "zerovar"
  else if a.var ≤ a.dv then .error "zerovar~"
  else
    let n : Rat := a.n
    let se := sqrtRat a.var / sqrtRat n
    let t := (a.mean - μ0) / se
    let dt := 2 * (a.dm / se + rabs t * (a.dv / a.var)) + rabs t * eps
    .ok (t, dt, n - 1, 0)

def specPaired (x y : List F64.Bits) (μ0 : Rat) : Except String (Rat × Rat × Rat × Rat) :=
  if x.length != y.length then .error "mismatch"
  else if x.length ≤ 1 then .error "size"
  else
    -- the data of the paired test are the float64 differences the code forms
    let d := (List.zipWith F64.sub x y).map toRat
    specOne (moments d) μ0

def pTail (go : String) (alt : Stats.TTest.Alt) : String :=
  if go == "degen" ∨ go == "-" then "ok" else
  match parseRes go with
  | .error _ => "ok"
  | .ok g =>
    if !(F64.isFinite g.p && F64.isFinite g.fa && F64.isFinite g.ft) then "ok" else
    let want : Rat := match alt with
      | .differs => 2 * (1 - toRat g.fa)
      | .less => toRat g.ft
      | .greater => 1 - toRat g.ft
    if rabs (toRat g.p - want) ≤ pow2 (-52) then "ok" else s!"bad(P={showB g.p},want~{showRat want})"

/-- the p-value against the INDEPENDENT reference (quadrature of a density written without the
package, computed by the harness): absolute 1e-8 -/
def pRefJ (go : String) : String :=
  if go == "degen" ∨ go == "-" then "ok" else
  match parseRes go with
  | .error _ => "ok"
  | .ok g =>
    if !(F64.isFinite g.pref) then "ok"
    else if F64.isFinite g.p ∧ rabs (toRat g.p - toRat g.pref) ≤ mkRat 1 (10 ^ 8) then "ok"
    else s!"bad(P={showB g.p},ref={showB g.pref})"

open Stats.TTest in
def ttest (l : Line) : IO Unit := do
  let id := l.id
  let f (k : String) : Rat := toRat (bitsD (l.getD k))
  let alt := altOf (l.getD "alt")
  let (n1, m1, v1, n2, m2, v2, mu) := (f "n1", f "m1", f "v1", f "n2", f "m2", f "v2", f "mu")
  let gW := l.getD "W"; let gP := l.getD "P"; let gR := l.getD "R"; let gO := l.getD "O"
  let i1 := n1.floor; let i2 := n2.floor
  let kW := kEntry gW (welch sqrtRat n1 m1 v1 n2 m2 v2) i1 i2 alt
  let kP := kEntry gP (pooled sqrtRat n1 m1 v1 n2 m2 v2) i1 i2 alt
  let kO := kEntry gO (oneSample sqrtRat n1 m1 v1 mu) i1 0 alt
  let xsS := l.getD "xs"; let ysS := l.getD "ys"
  let xsB := bitsList xsS; let ysB := bitsList ysS
  -- paired: differences, Mean and StdDev through the float64 instance (bit-exact), the final
  -- formula in exact arithmetic
  let kR :=
    if gR == "-" then "-" else
    if xsB.length != ysB.length then kEntry gR (.error .mismatched) 0 0 alt
    else if xsB.length ≤ 1 then kEntry gR (.error .sampleSize) 0 0 alt
    else
      let diff : List Fl := List.zipWith (fun a b => (⟨F64.sub a b⟩ : Fl)) xsB ysB
      match Descr.mean diff, Descr.variance diff with
      | some md, some vd =>
        let len := xsB.length
        kEntry gR (pairedCore sqrtRat len (toRat md.bits) (sqrtRat (toRat vd.bits)) mu) len len alt
      | _, _ => "bad(empty)"
  IO.println s!"obs {id} welch={kW} pooled={kP} paired={kR} one={kO}"
  let tails := allOk [pTail gW alt, pTail gP alt, pTail gR alt, pTail gO alt]
  let prefs := allOk [pRefJ gW, pRefJ gP, pRefJ gR, pRefJ gO]
  if gR == "-" then
    IO.println s!"spec {id} ptail={tails} pref={prefs} {keptAgain l}"
  else
    let a := moments (xsB.map toRat)
    let b := moments (ysB.map toRat)
    IO.println s!"spec {id} welch={sJudge gW (specWelch a b)} pooled={sJudge gP (specPooled a b)} paired={sJudge gR (specPaired xsB ysB mu)} one={sJudge gO (specOne a mu)} ptail={tails} pref={prefs} {keptAgain l}"

def tolSym : Rat := mkRat 1 (10 ^ 12)

/-! ### continued fraction / incomplete beta -/

def showCF (o : Option Fl) : String := match o with | some v => showFl v | none => "panic"

def beta (l : Line) : IO Unit := do
  let id := l.id
  let x : Fl := ⟨bitsD (l.getD "x")⟩
  let a : Fl := ⟨bitsD (l.getD "a")⟩
  let b : Fl := ⟨bitsD (l.getD "b")⟩
  let bt : Fl := ⟨bitsD (l.getD "bt")⟩
  let x' : Fl := ⟨F64.sub F64.one x.bits⟩
  let cf1 := Beta.betacf x a b
  let cf2 := Beta.betacf x' b a
  let I := match Beta.betaInc (fun _ _ _ => bt) Beta.betacf x a b with
    | .val v => showFl v | .nan => "nan" | .panic => "panic"
  IO.println s!"obs {id} cf1={showCF cf1} cf2={showCF cf2} I={I}"
  if l.getD "q" == "1" then
    -- exact instance of the same Lentz loop against Go's float64 result
    let xq := toRat x.bits; let aq := toRat a.bits; let bq := toRat b.bits
    let j (go : String) (m : Option Rat) : String :=
      match m with
      | none => if go == "panic" then "ok" else s!"bad(go={go},model=panic)"
      | some v => if go == "panic" then "bad(go=panic)" else
        if relClose (bitsD go) v (mkRat 1 (10 ^ 12)) then "ok" else s!"bad(go={go},model~{showRat v})"
    -- only the fraction mathBetaInc actually uses (the other one converges slowly and stops on noise)
    let direct := xq < (aq + 1) / (aq + bq + 2)
    let v := if xq ≤ 0 ∨ xq ≥ 1 then "ok"
      else if direct then j (l.getD "cf1") (Beta.betacf xq aq bq)
      else j (l.getD "cf2") (Beta.betacf (1 - xq) bq aq)
    IO.println s!"obs {id} q cf={v}"
  -- S: I_x(a,b) + I_{1-x}(b,a) = 1 within 1e-12; values in [0,1]
  let gi := l.getD "I"; let gj := l.getD "J"
  if gi == "panic" ∨ gj == "panic" then
    IO.println s!"spec {id} sym=ok range=ok"   -- the crash line is the finding
  else
    let bi := bitsD gi; let bj := bitsD gj
    let inRange := F64.le x.bits F64.one && F64.le 0 x.bits
    let sym :=
      if !inRange then (if F64.isNaN bi then "ok" else s!"bad(I={gi},want=nan)")
      else if !(F64.isFinite bi && F64.isFinite bj) then s!"bad(I={gi},J={gj})"
      else
        -- the two prefactors sum lgamma(a+b), lgamma(a), lgamma(b) in different orders: the identity
        -- can hold only to a few ulps of lgamma(a+b) ≤ (a+b)·log2(a+b+2)
        let ab := toRat a.bits + toRat b.bits
        let tol := tolSym + 2 * ulp (ab * ((ilog2 (ab + 2) : Int) + 1 : Rat))
        if rabs (toRat bi + toRat bj - 1) ≤ tol then "ok" else s!"bad(I={gi},J={gj})"
    let rng :=
      if !inRange then "ok"
      else if F64.isFinite bi ∧ 0 ≤ toRat bi ∧ toRat bi ≤ 1 then "ok" else s!"bad(I={gi})"
    IO.println s!"spec {id} sym={sym} range={rng}"

/-! ### distribution grids (numeric search layer) -/

def tolQuad : Rat := mkRat 1 (10 ^ 9)
def tolInv : Rat := mkRat 1 (10 ^ 8)

/-- F22 (repaired by /repo 5ce8769; kept for the notes and for diagnosing a revert) — predicted
cancellation error of the former `TDist.CDF` at x: the code formed ν/(ν+x²), the sum is
rounded to 2^-53 relative, i.e. x² is known only to ν·2^-53; propagated through dF/d(x²) = pdf/(2x)
this is ≤ ν·2^-52/|x|, and never more than |x| (the CDF collapses to ½). -/
def cancelErr (nu x : Rat) : Rat :=
  let a := rabs x
  if a == 0 then 0 else
  let e := nu * pow2 (-52) / a
  if e < a then e else a

def grid (l : Line) (sigma : Rat) (nu : Option Rat) : IO Unit := do
  let id := l.id
  let c := toRat (bitsD (l.getD "c"))
  let xsB := bitsList (l.getD "xs")
  let FB := bitsList (l.getD "F")
  let QB := bitsList (l.getD "Q")
  let PB := bitsList (l.getD "P")
  let VB := bitsList (l.getD "V")
  let xs := xsB.map toRat
  -- K: the float64 instance of TDist.CDF / NormalDist.CDF with the transcendental parameter given
  -- as the table the harness measured (argument → value)
  let tbl := table ((bitsList (l.getD "A")).zip (bitsList (l.getD "B")))
  let tbl3 : List (F64.Bits × F64.Bits × F64.Bits) :=
    (bitsList (l.getD "A")).zip ((bitsList (l.getD "A2")).zip (bitsList (l.getD "B")))
  let I3 (x a _b : Fl) : Fl := match tbl3.find? (fun e => e.1 == x.bits && e.2.1 == a.bits) with
    | some e => ⟨e.2.2⟩ | none => Fl.nan
  let Fm : List String := xsB.map fun x =>
    match nu with
    | some _ => showOpt (Dists.tcdf I3 ⟨bitsD (l.getD "nu")⟩ ⟨x⟩)
    | none => showFl (Dists.ncdf tbl ⟨0x3FF6A09E667F3BCD⟩ ⟨bitsD (l.getD "mu")⟩ ⟨bitsD (l.getD "sigma")⟩ ⟨x⟩)
  IO.println s!"obs {id} F={showList Fm}"
  let fin := FB.all F64.isFinite
  if !fin then
    IO.println s!"spec {id} range=bad(nonfinite) mono=ok sym=ok quad=ok inv=ok tail=ok ipdf=ok iquad=ok"
  else
  let F := FB.map toRat
  let rng := match (xsB.zip F).find? (fun (_, f) => f < 0 ∨ f > 1) with
    | some (x, f) => s!"bad(x={showB x},F~{showRat f})" | none => "ok"
  let rec mono : List (F64.Bits × Rat) → String
    | (_, f) :: (x2, f2) :: r => if f ≤ f2 then mono ((x2, f2) :: r) else s!"bad(at={showB x2})"
    | _ => "ok"
  let arr := (xs.zip F).toArray
  let sym := Id.run do
    let mut res := "ok"
    for (x, f) in arr do
      if x > c then
        for (x2, f2) in arr do
          if x2 < c ∧ x + x2 == 2 * c ∧ rabs (f + f2 - 1) > tolSym then
            res := s!"bad(x~{showRat x},F+F'-1~{showRat (f + f2 - 1)})"
    return res
  -- quadrature: clean within tolQuad; within the predicted cancellation error → known class N12a
  let (quad, kfq) := Id.run do
    let mut res := "ok"
    let mut kf := false
    for ((x, f), q) in (xs.zip F).zip QB do
      let dev := if F64.isFinite q then rabs (f - toRat q) else 1
      if dev > tolQuad then
        let pe : Rat := 0   -- F22 repaired (5ce8769): no allowance for the former cancellation error
        if dev ≤ tolQuad + pe then
          kf := true
          if res == "ok" then res := s!"bad(x~{showRat x},F-Q~{showRat (f - toRat q)})"
        else
          return (s!"bad(x~{showRat x},F~{showRat f},Q={showB q})", false)
    return (res, kf)
  let (inv, kfi) := Id.run do
    let mut res := "ok"
    let mut kf := false
    for (((x, f), p), v) in ((xs.zip F).zip PB).zip VB do
      if f > 0 ∧ f < 1 ∧ F64.isFinite p ∧ toRat p > 0 then
        let cond := pow2 (-50) / toRat p
        if cond ≤ mkRat 1 1000 * sigma then
          -- measured on the unchanged tree: normal (Acklam + refinement) never beyond the conditioning
          -- term, t (generic bisection on a CDF with ~1e-11 noise at ν ~ 1e5) up to 7.4e-12
          let tolI : Rat := match nu with | some _ => mkRat 1 (10 ^ 10) | none => mkRat 1 (10 ^ 13)
          let tol := tolI * (rabs (x - c) + sigma) + (match nu with | some _ => cond | none => 4 * cond)
          let dev := if F64.isFinite v then rabs (toRat v - x) else 1
          if dev > tol then
            -- N12a: the CDF is wrong by ≤ cancelErr around x, so its inverse is off by that / pdf;
            -- at the centre the flat zone has half-width √(ν·2^-53)
            let pe : Rat := 0
            if dev ≤ tol + pe then
              kf := true
              if res == "ok" then res := s!"bad(x~{showRat x},inv={showB v})"
            else
              return (s!"bad(x~{showRat x},inv={showB v})", false)
    return (res, kf)
  let _ := (kfq, kfi)
  -- tails in RELATIVE terms: F(x) against the independent tail reference T (normal: Laplace's
  -- continued fraction for the Mills ratio, evaluated by the harness) wherever T is a normal float
  let TB := bitsList (l.getD "T")
  let tail := match ((xsB.zip F).zip TB).find? (fun ((_, f), t) =>
      F64.isFinite t && toRat t ≥ pow2 (-1022) && rabs (f - toRat t) > mkRat 1 (10 ^ 10) * toRat t) with
    | some ((x, f), t) => s!"bad(x={showB x},F~{showRat f},ref={showB t})" | none => "ok"
  -- INDEPENDENT reference: density and its cumulative quadrature written by the harness without the
  -- package (a PDF/CDF pair that is self-consistent but wrong passes `quad`)
  let PiB := bitsList (l.getD "Pi"); let QiB := bitsList (l.getD "Qi")
  let ipdf := match ((xsB.zip PB).zip PiB).find? (fun ((_, p), r) =>
      F64.isFinite r && !(F64.isFinite p && rabs (toRat p - toRat r) ≤ mkRat 1 (10 ^ 9) * toRat r + pow2 (-1000))) with
    | some ((x, p), r) => s!"bad(x={showB x},PDF={showB p},ref={showB r})" | none => "ok"
  let iquad := match ((xsB.zip F).zip QiB).find? (fun ((_, f), q) =>
      F64.isFinite q && rabs (f - toRat q) > tolQuad) with
    | some ((x, f), q) => s!"bad(x={showB x},F~{showRat f},ref={showB q})" | none => "ok"
  IO.println s!"spec {id} range={rng} mono={mono (xsB.zip F)} sym={sym} quad={quad} inv={inv} tail={tail} ipdf={ipdf} iquad={iquad}"

/-! ### generic InvCDF on arithmetic-only distributions -/

def showIRes : Dists.IRes Fl → String
  | .val x => showFl x | .nan => "nan" | .negInf => "fff0000000000000" | .posInf => "7ff0000000000000"
  | .panic => "panic" | .fuel => "fuel"

def inv (l : Line) : IO Unit := do
  let id := l.id
  let f (k : String) : Fl := ⟨bitsD (l.getD k)⟩
  let q (k : String) : Rat := toRat (bitsD (l.getD k))
  let y := f "y"
  let ptsB := bitsList (l.getD "pts")
  let (cdf, bl, bh, cdfQ, finite) : (Fl → Fl) × Fl × Fl × (Rat → Rat) × Bool :=
    match l.getD "dist" with
    | "uni" => (Dists.uniCDF (f "a") (f "b"), f "a", f "b", Dists.uniCDF (q "a") (q "b"), true)
    | "sig" =>
      let s := f "s"
      (Dists.sigCDF s, ⟨F64.mul (F64.ofInt (-4)) s.bits⟩, ⟨F64.mul (F64.ofInt 4) s.bits⟩, Dists.sigCDF (q "s"), false)
    | _ =>
      let pts : List Fl := ptsB.map Fl.mk
      (Dists.stepCDF pts, pts.headD ⟨0⟩, pts.getLastD ⟨0⟩, Dists.stepCDF (ptsB.map toRat), true)
  let r := Dists.invCDF cdf bl bh 2400 y
  IO.println s!"obs {id} x={showIRes r}"
  -- S: judge the value the model agrees on (K ties it to Go) against the exact CDF:
  -- F(x) ≥ y and F(x − δ) < y, i.e. x is within δ of the smallest point where F reaches y
  let yq := toRat y.bits
  let slack : Rat := mkRat 1 (10 ^ 15)
  -- what is judged is the value GO returned (on the case line), not the model's
  let gxs := l.getD "gx"
  let gb := bitsD gxs
  let rGo : Dists.IRes Fl :=
    if gxs == "crash" then .panic
    else if F64.isNaN gb then .nan
    else if gb == F64.posInf then .posInf
    else if gb == F64.negInf then .negInf
    else .val ⟨gb⟩
  let verdict := match rGo with
    | .nan => if yq < 0 ∨ yq > 1 then "ok" else "bad(nan)"
    -- y = 0 / y = 1: the bound when the CDF reaches 0 / 1 there (documented), else ∓Inf;
    -- otherwise ±Inf only where no float64 argument reaches y (infinite support, extreme y)
    | .negInf => if yq == 0 ∧ cdfQ (toRat bl.bits) != 0 then "ok" else if !finite ∧ yq < mkRat 1 (10 ^ 100) then "ok" else "bad(-inf)"
    | .posInf => if yq == 1 ∧ cdfQ (toRat bh.bits) != 1 then "ok" else if !finite ∧ yq > 1 - mkRat 1 (10 ^ 15) then "ok" else "bad(+inf)"
    | .val x =>
      let xq := toRat x.bits
      if yq == 0 then (if cdfQ (toRat bl.bits) == 0 ∧ xq == toRat bl.bits then "ok" else "bad(y=0)")
      else if yq == 1 then (if cdfQ (toRat bh.bits) == 1 ∧ xq == toRat bh.bits then "ok" else "bad(y=1)")
      else
        let δ := rmax (mkRat 2 (10 ^ 16)) (4 * ulp xq)
        if cdfQ xq < yq - slack then s!"bad(F(x)<y)"
        else if cdfQ (xq - δ) ≥ yq + slack then s!"bad(F(x-d)>=y)"
        else "ok"
    | .panic => "ok"   -- the crash line is the finding
    | .fuel => "bad(fuel)"
  IO.println s!"spec {id} inverts={verdict}"

/-! ### one InvCDF closure queried thousands of times; Rand through the generic inverse -/

def reuse (l : Line) : IO Unit := do
  let id := l.id
  let f (k : String) : Fl := ⟨bitsD (l.getD k)⟩
  let psB := bitsList (l.getD "ps")
  let xr := bitsList (l.getD "xr")
  let xf := bitsList (l.getD "xf")
  let cs := bitsList (l.getD "cs")
  let arith := l.getD "arith" == "1"
  if arith then
    -- K: call k of the reused closure against the (stateless) model
    let ptsB := bitsList (l.getD "pts")
    let (cdf, bl, bh) : (Fl → Fl) × Fl × Fl :=
      match l.getD "dist" with
      | "uni" => (Dists.uniCDF (f "a") (f "b"), f "a", f "b")
      | "sig" =>
        let s := f "s"
        (Dists.sigCDF s, ⟨F64.mul (F64.ofInt (-4)) s.bits⟩, ⟨F64.mul (F64.ofInt 4) s.bits⟩)
      | _ =>
        let pts : List Fl := ptsB.map Fl.mk
        (Dists.stepCDF pts, pts.headD ⟨0⟩, pts.getLastD ⟨0⟩)
    let xs := (Dists.runClosure cdf bl bh 2400 (psB.map Fl.mk)).map showIRes
    IO.println s!"obs {id} x={showList xs}"
  -- S: reused closure = fresh closure (sampled and counted over all queries), answers finite,
  -- CDF(InvCDF(p)) ≈ p
  let fresh := if (xr.zip xf).all (fun (a, b) => F64.canonNaN a == F64.canonNaN b) then "ok" else
    match (psB.zip (xr.zip xf)).find? (fun (_, a, b) => a != b) with
    | some (p, a, b) => s!"bad(p={showB p},reused={showB a},fresh={showB b})" | none => "bad"
  let allfresh := if l.getD "nmis" == "0" then "ok" else s!"bad({l.getD "nmis"}of{l.getD "nq"})"
  let finite := if l.getD "nnonfin" == "0" ∧ xr.all F64.isFinite then "ok" else s!"bad({l.getD "nnonfin"}of{l.getD "nq"})"
  let rt :=
    if arith then "ok" else
    if l.getD "nround" != "0" then s!"bad({l.getD "nround"}of{l.getD "nq"})" else
    match (psB.zip cs).find? (fun (p, c) => !(F64.isFinite c && rabs (toRat c - toRat p) ≤ mkRat 1 (10 ^ 9))) with
    | some (p, c) => s!"bad(p={showB p},cdf={showB c})" | none => "ok"
  IO.println s!"spec {id} fresh={fresh} allfresh={allfresh} finite={finite} roundtrip={rt}"

/-- `NormalDist.Rand`: z·σ + μ on the standard normal variate z of the same stream -/
def nrand (l : Line) : IO Unit := do
  let mu := bitsD (l.getD "mu"); let sg := bitsD (l.getD "sigma")
  let zs := bitsList (l.getD "zs"); let vs := bitsList (l.getD "vs")
  let m := zs.map fun z => showB (F64.add (F64.mul z sg) mu)
  IO.println s!"obs {l.id} v={showList m}"
  let bad := (zs.zip vs).find? fun (z, v) =>
    !(F64.isFinite v && rabs (toRat v - (toRat z * toRat sg + toRat mu)) ≤ 2 * ulp (rabs (toRat z * toRat sg) + rabs (toRat mu)))
  let verdict := match bad with
    | some (z, v) => s!"bad(z={showB z},v={showB v})"
    | none => if l.getD "nilbad" == "0" then "ok" else "bad(nil-source)"
  IO.println s!"spec {l.id} rand={verdict}"

/-- `NormalDist.InvCDF` on all of (0,1): finite, monotone, relative round trip -/
def ninvtail (l : Line) : IO Unit := do
  let ps := bitsList (l.getD "ps"); let X := bitsList (l.getD "X"); let C := bitsList (l.getD "C")
  let fin := match (ps.zip X).find? (fun (_, x) => !F64.isFinite x) with
    | some (p, x) => s!"bad(p={showB p},inv={showB x})" | none => "ok"
  let rec mono : List (F64.Bits × F64.Bits) → String
    | (_, a) :: (p2, b) :: r =>
      if F64.isFinite a && F64.isFinite b && toRat a > toRat b then s!"bad(at p={showB p2})" else mono ((p2, b) :: r)
    | _ => "ok"
  let mu := toRat (bitsD (l.getD "mu")); let sg := toRat (bitsD (l.getD "sigma"))
  -- relative tolerance 1e-9 plus the conditioning of the scaled representation: x = z·σ + μ is
  -- rounded to ulp(|x|), i.e. z is known to ulp(x)/σ, which moves the tail by a factor (|z|+1)·that
  let rt := match ((ps.zip X).zip C).find? (fun ((p, x), c) =>
      let pq := toRat p
      let xq := toRat x
      let rel : Rat := mkRat 1 (10 ^ 9) + 2 * (rabs ((xq - mu) / sg) + 1) * ulp (rmax (rabs xq) (rabs mu)) / sg
      F64.isFinite x && pq ≥ pow2 (-1022) &&
        !(F64.isFinite c &&
          (if pq ≤ mkRat 1 2 then rabs (toRat c - pq) ≤ rel * pq
           else rabs (toRat c - pq) ≤ rel * (1 - pq) + pow2 (-52)))) with
    | some ((p, x), c) => s!"bad(p={showB p},inv={showB x},cdf={showB c})" | none => "ok"
  IO.println s!"spec {l.id} finite={fin} mono={mono (ps.zip X)} roundtrip={rt}"

def randK (l : Line) : IO Unit := do
  let v := if l.getD "nonfinite" == "0" then "ok" else s!"bad({l.getD "nonfinite"}of{l.getD "n"},first={l.getD "firstbad"})"
  IO.println s!"spec {l.id} finite={v}"

/-! ### NormalDist.InvCDF: float64 instance with log/sqrt/erfc/exp as measured tables -/

def ninv (l : Line) : IO Unit := do
  let f (k : String) : Fl := ⟨bitsD (l.getD k)⟩
  let t (k v : String) := table ((bitsList (l.getD k)).zip (bitsList (l.getD v)))
  let logT := t "LK" "LV"; let sqrtT := t "SK" "SV"; let erfcT := t "EK" "EV"; let expT := t "XK" "XV"
  let X := (bitsList (l.getD "ps")).map fun p =>
    showIRes (Dists.NInv.invCDF logT sqrtT erfcT expT (f "s2") (f "s2pi") (f "mu") (f "sigma") ⟨p⟩)
  IO.println s!"obs {l.id} X={showList X}"

def handle (l : Line) : IO Unit := do
  if l.kind != "case" then return
  match l.getD "kind" with
  | "descr" => descr l
  | "ttest" => ttest l
  | "wdescr" => wdescr l
  | "beta" => beta l
  | "tcdf" => grid l 1 (some (toRat (bitsD (l.getD "nu"))))
  | "ncdf" => grid l (toRat (bitsD (l.getD "sigma"))) none
  | "inv" => inv l
  | "ninv" => ninv l
  | "reuse" => reuse l
  | "rand" => randK l
  | "nrand" => nrand l
  | "ninvtail" => ninvtail l
  | "sweep" => IO.println s!"spec {l.id} conv=ok"
  | _ => pure ()

end Driver.C12

def main : IO Unit := do
  let stdin ← IO.getStdin
  Proto.forEachLine stdin fun s => Driver.C12.handle (Proto.parseLine s)
