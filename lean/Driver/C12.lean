import Model.Base.Proto
import Model.Stats.Descr
import Model.Spec.StatsSpec

/-!
C12 driver. For every `case` line of the Go harness it prints

  obs  … f64   the float64 instance of the model (must equal Go's bits)
  obs  … q     the exact (ℚ) instance of the model judged against Go's value with a tolerance
  spec …       the textbook specification judged against Go's value / the numeric property

Tolerances (k ulps of the data's scale) are the constants below; see notes/C12.md.
-/

namespace Driver.C12
open Proto Stats Spec.Stats

/-! tolerances, in ulps of the stated scale -/
def kMean : Nat := 64        -- ulp(max|x|)
def kVar : Nat := 256        -- ulp(max|x|)·D + ulp(D²), D = max|x − x̄|
def kPct : Nat := 4          -- ulp(max|x|)
def kPos : Nat := 4          -- ulp(N+1) · (gap between neighbouring order statistics)
def kGeo : Nat := 64         -- relative 2^-52 · max(1, max|ln x|)

def nanBits : F64.Bits := F64.nan

def bits? (s : String) : Option F64.Bits := if s == "nan" then some nanBits else F64.ofHex? s
def bitsD (s : String) : F64.Bits := (bits? s).getD nanBits
def bitsList (s : String) : List F64.Bits := if s == "-" then [] else (s.splitOn ",").map bitsD
def showB (b : F64.Bits) : String := if F64.isNaN b then "nan" else F64.toHex b
def showFl (x : Fl) : String := showB x.bits
def showOpt (x : Option Fl) : String := match x with | some v => showFl v | none => "nan"
def showList (l : List String) : String := if l.isEmpty then "-" else ",".intercalate l

/-- a function given by a finite table of (argument bits, result bits); NaN outside the table -/
def table (t : List (F64.Bits × F64.Bits)) (x : Fl) : Fl :=
  match t.find? (fun p => p.1 == x.bits) with
  | some p => ⟨p.2⟩
  | none => Fl.nan

def allOk (l : List String) : String :=
  match l.find? (· != "ok") with
  | some s => s
  | none => "ok"

def descr (l : Line) : IO Unit := do
  let id := l.id
  let xsB := bitsList (l.getD "xs")
  let xs : List Fl := xsB.map Fl.mk
  let sorted := l.getD "sorted" == "1"
  let psB := bitsList (l.getD "ps")
  let ps : List Fl := psB.map Fl.mk
  let lx := bitsList (l.getD "lx")
  let logT := table (xsB.zip lx)
  let expT := table [(bitsD (l.getD "mlog"), bitsD (l.getD "emlog"))]
  -- K (i): float64 instance
  let mean := Descr.mean xs
  let var := Descr.variance xs
  let geo := Descr.geoMean logT expT xs
  let sb := Descr.sampleBounds xs sorted
  let bb := Descr.bounds xs
  let pct := ps.map fun p => showOpt (Descr.percentile xs sorted p)
  let iqr := Descr.iqr xs sorted
  IO.println s!"obs {id} f64 mean={showOpt mean} var={showOpt var} geo={showOpt geo} min={showOpt (sb.map (·.1))} max={showOpt (sb.map (·.2))} bmin={showOpt (bb.map (·.1))} bmax={showOpt (bb.map (·.2))} pct={showList pct} iqr={showOpt iqr}"
  -- exact values of the data
  let xq : List Rat := xsB.map toRat
  let pq : List Rat := psB.map toRat
  let M := maxAbs xq
  let gmean := bitsD (l.getD "gmean")
  let gvar := bitsD (l.getD "gvar")
  let gsd := bitsD (l.getD "gsd")
  let ggeo := bitsD (l.getD "ggeo")
  let gmin := bitsD (l.getD "gmin")
  let gmax := bitsD (l.getD "gmax")
  let gpct := bitsList (l.getD "gpct")
  let giqr := bitsD (l.getD "giqr")
  let n := xq.length
  let u := ulp M
  -- K (ii): exact instance of the model
  let qmean := (Descr.mean xq).getD 0
  let qvar := (Descr.variance xq).getD 0
  let D := maxAbs (xq.map (· - qmean))
  let uv := u * D + ulp (D * D)
  let jmean := judge gmean qmean (kMean * u)
  let jvar := if n ≤ 1 then (if gvar == 0 then "ok" else "bad") else judge gvar qvar (kVar * uv)
  let srt := Spec.Stats.sort xq
  let xqs := if sorted then xq else Descr.sortXs xq
  let qpct := pq.map fun p => (Descr.percentile xqs true p).getD 0
  let ptol := pq.map fun p => kPct * u + kPos * positionSlack srt p
  let jpct := allOk ((gpct.zip (qpct.zip ptol)).map fun (g, q, t) => judge g q t)
  let iqrTol := 2 * kPct * u + kPos * (positionSlack srt (mkRat 3 4) + positionSlack srt (mkRat 1 4))
  let jiqr := judge giqr ((Descr.iqr xqs true).getD 0) iqrTol
  IO.println s!"obs {id} q mean={jmean} var={jvar} pct={jpct} iqr={jiqr}"
  IO.println s!"note {id} n={n} kmean={errUnits (toRat gmean) qmean u} kvar={if n ≤ 1 then 0 else errUnits (toRat gvar) qvar uv}"
  -- S: textbook definitions
  let smean := Spec.Stats.mean xq
  let svar := Spec.Stats.variance xq
  let tmean := judge gmean smean (kMean * u)
  let tvar := if n ≤ 1 then (if gvar == 0 then "ok" else "bad") else judge gvar svar (kVar * uv)
  -- StdDev: the square root of Go's own variance, within one ulp
  let tsd :=
    if !F64.isFinite gvar then "ok" else
    let r := sqrtRat (toRat gvar)
    judge gsd r (ulp r + r * mkRat 1 (10 ^ 17))
  -- GeoMean: g is the n-th root of Πx  ⇔  (g(1−δ))^n ≤ Πx ≤ (g(1+δ))^n
  let tgeo :=
    if xq.any (· ≤ 0) then (if F64.isNaN ggeo then "ok" else s!"bad(go={showB ggeo},ref=nan)")
    else if !F64.isFinite ggeo then s!"nonfinite({showB ggeo})"
    else
      let L : Rat := xq.foldl (fun a x => rmax a (rabs ((ilog2 x : Int) : Rat) + 1)) 1
      let δ : Rat := (kGeo : Rat) * pow2 (-52) * L
      let g := toRat ggeo
      let prod := xq.foldl (· * ·) 1
      if (g * (1 - δ)) ^ n ≤ prod ∧ prod ≤ (g * (1 + δ)) ^ n then "ok"
      else s!"bad(go={showB ggeo})"
  let tbounds :=
    if toRat gmin == minOf xq ∧ toRat gmax == maxOf xq then "ok" else s!"bad(min={showB gmin},max={showB gmax})"
  let spct := pq.map fun p => quantileR8 srt p
  let tpct := allOk ((gpct.zip (spct.zip ptol)).map fun (g, q, t) => judge g q t)
  let gq := gpct.map toRat
  let rec mono : List Rat → Bool
    | a :: b :: r => a ≤ b && mono (b :: r)
    | _ => true
  let tmono := if mono gq then "ok" else "bad"
  let tbound := if gq.all (fun v => minOf xq ≤ v ∧ v ≤ maxOf xq) then "ok" else "bad"
  let tiqr := judge giqr (quantileR8 srt (mkRat 3 4) - quantileR8 srt (mkRat 1 4)) iqrTol
  IO.println s!"spec {id} mean={tmean} var={tvar} sd={tsd} geo={tgeo} bounds={tbounds} pct={tpct} pmono={tmono} pbound={tbound} iqr={tiqr}"

def handle (l : Line) : IO Unit := do
  if l.kind != "case" then return
  match l.getD "kind" with
  | "descr" => descr l
  | _ => pure ()

end Driver.C12

def main : IO Unit := do
  let stdin ← IO.getStdin
  Proto.forEachLine stdin fun s => Driver.C12.handle (Proto.parseLine s)
