import Model.Base.Proto
import Model.Storage.Query
import Model.Storage.Fmt
import Model.Storage.Lex
import Model.Analysis.Quote
import Model.Analysis.Parse
import Model.Spec.Storage

namespace Driver.C19
open Proto Storage.Query Storage.Fmt Storage.Lex

/- Protocol (see harness/c19/main.go):
   case <id> kind=hist ups=<day~user~name.content+…;…> qs=<hexlist> ls=<q:limit,…>
   obs  <id> up<i> ok=1 uid=<hex> parts=<hexlist> | ok=0
   obs  <id> uploads n=<count> err=false
   obs  <id> q<j> sql=<text/text@args | !kind> db=<records|!err> cl=<records|!err>
   obs  <id> l<j> db=<id:count,…> cl=…
   spec <id> q<j> res=<records in the property's vocabulary>      spec <id> l<j> res=<id:count,…>
   case <id> kind=sw q=<hex> add=<hex>
   obs  <id> words=<hexlist> atq=<hex> back=<hexlist>             spec <id> first=<hex> n=1|2 -/

structure UploadIn where
  day : Bytes
  user : Bytes
  files : List FileIn

def hexD (s : String) : Bytes := (Bytes.ofHex s).getD []

def parseUps (s : String) : List UploadIn :=
  (s.splitOn ";").filterMap fun u =>
    match u.splitOn "~" with
    | [d, usr, fs] =>
      some { day := hexD d, user := hexD usr,
             files := (fs.splitOn "+").filterMap fun f =>
               match f.splitOn "." with
               | [n, c] => some { name := hexD n, content := hexD c }
               | _ => none }
    | _ => none

def parseLs (s : String) : List (Bytes × Int) :=
  if s == "-" || s == "" then [] else
  (s.splitOn ",").filterMap fun l =>
    match l.splitOn ":" with
    | [q, n] => some (hexD q, n.toInt?.getD 0)
    | _ => none

def hexNat (s : String) : Option Nat :=
  s.toList.foldlM (fun n c => (Bytes.hexVal c).map (n * 16 + ·)) 0

/-- `uni=<hex code point>:<flags>,…` (1 = IsSpace, 2 = IsUpper, 4 = IsLower): the toolchain's
classification of every non-ASCII rune of the case -/
def mkUC (s : String) : _root_.Fmt.UC :=
  let tbl : List (Nat × Nat) := if s == "-" || s == "" then [] else
    (s.splitOn ",").filterMap fun e =>
      match e.splitOn ":" with
      | [r, f] => match hexNat r, f.toNat? with
        | some rv, some fv => some (rv, fv)
        | _, _ => none
      | _ => none
  let flag (bit : Nat) (r : Nat) : Bool :=
    match tbl.find? (·.1 == r) with
    | some (_, f) => (f >>> bit) % 2 == 1
    | none => false
  { isSpace := flag 0, isUpper := flag 1, isLower := flag 2 }

def sortStrings (l : List String) : List String := (l.toArray.qsort (· < ·)).toList

def joinSorted (l : List String) : String :=
  if l.isEmpty then "-" else ",".intercalate (sortStrings l)

/-- `name=""` is not rendered: whether an empty benchmark name yields it depends on the previous line
seen by the same Reader (one-entry name cache), hence on SQLite's row order, which is not modelled. -/
def emptyName (kv : Bytes × Bytes) : Bool := kv.1 == Bytes.ofString "name" && kv.2.isEmpty

def labelsStr (l : Labels) : String :=
  ";".intercalate ((l.filter (!emptyName ·)).map fun kv => kv.1.toHex ++ ":" ++ kv.2.toHex)

def recStr (r : Result) : String :=
  "L" ++ labelsStr r.labels ++ "|N" ++ labelsStr r.nameL ++ "|" ++ r.content.toHex

def specRecOf (labels : List (Bytes × Bytes)) (content : Bytes) : String :=
  ";".intercalate (sortStrings ((labels.filter (!emptyName ·)).map fun kv => kv.1.toHex ++ ":" ++ kv.2.toHex)) ++ "|" ++ content.toHex

def errTag : QErr → String
  | .missingOp => "!missingop"
  | .invalidKey => "!invalidkey"
  | .eof => "!eof"
  | .missingValue => "!missingvalue"

def showRows (rows : List (Bytes × Nat)) : String :=
  if rows.isEmpty then "-" else ",".intercalate (rows.map fun r => r.1.toHex ++ ":" ++ toString r.2)

/-- results of a query path as the Go API reports them: an unsatisfiable query is an empty result -/
def showResults (f : Result → String) : Except QErr (List Result) → String
  | .ok rs => joinSorted (rs.map f)
  | .error .eof => "-"
  | .error _ => "!err"

def showListing : Except QErr (List (Bytes × Nat)) → String
  | .ok rows => showRows rows
  | .error .eof => "-"
  | .error _ => "!err"

/-- server labels in the property's vocabulary (specification side) -/
def specServerLabels (id : Bytes) (i : Nat) (user fname : Bytes) : Spec.Storage.KV :=
  let base := (fname.reverse.takeWhile (fun c => c != 47 && c != 92)).reverse
  [(Bytes.ofString "upload", id), (Bytes.ofString "upload-part", id ++ [47] ++ Bytes.ofString (toString i)),
   (Bytes.ofString "upload-time", Bytes.ofString "T")]
  ++ (if base.isEmpty then [] else [(Bytes.ofString "upload-file", base)])
  ++ (if user.isEmpty then [] else [(Bytes.ofString "by", user)])

def badValue (v : Bytes) : Bool :=
  (match v with | c :: _ => c == 32 || c == 9 | [] => false) || v.getLast? == some 13

def nodupB {α : Type} [BEq α] : List α → Bool
  | [] => true
  | x :: xs => !xs.contains x && nodupB xs

/-- the integrity predicate `C19.WF` of the proofs, evaluated on every model state -/
def wfCheck (db : DB) : Bool :=
  nodupB (db.records.map RecordRow.rkey) &&
  nodupB (db.labels.map fun l => (l.upload, l.rid, l.name)) &&
  db.labels.all (fun l => (db.records.map RecordRow.rkey).contains l.rkey) &&
  db.records.all (fun r => db.labels.any fun l =>
    l.upload == r.upload && l.rid == r.rid && l.name == uploadKey && l.value == r.upload)

def handleHist (l : Line) : IO Unit := do
  let ups := parseUps (l.getD "ups")
  let qs := (l.hexList? "qs").getD []
  let ls := parseLs (l.getD "ls" "-")
  let id := l.id
  let xl := (l.hexList? "xl").getD []
  let il := l.getD "il" "0" == "1"
  let uc := mkUC (l.getD "uni" "-")
  let lx := Lex.unicode uc
  -- uploads: model state, and the specification's view of what is stored
  let mut db : DB := {}
  let mut stored : List (Bytes × List Spec.Storage.Line) := []
  let mut flushed := false
  let mut i := 0
  for u in ups do
    let before := db.labels.length
    let (db', uid, ok) := processUploadL lx db u.day u.user u.files
    db := db'
    if ok then
      let parts := (List.range u.files.length).map fun k => uid ++ [47] ++ natToDec k
      IO.println s!"obs {id} up{i} ok=1 uid={uid.toHex} parts={showHexList parts}"
      let lines := (u.files.zipIdx).flatMap fun (f, k) =>
        Spec.Storage.fileLines uc (specServerLabels uid k u.user f.name) f.content
      stored := stored ++ [(uid, lines)]
      if db.labels.length - before > 247 then flushed := true
    else
      IO.println s!"obs {id} up{i} ok=0"
    i := i + 1
  IO.println s!"obs {id} uploads n={db.uploads.length} err=false wf={if wfCheck db then 1 else 0}"
  let allLines := stored.flatMap (·.2)
  let n7 := allLines.any fun ln => ln.labels.any (fun kv => badValue kv.2) || ln.content.getLast? == some 13
  let n8 := allLines.any fun ln => ln.labels.any (fun kv => kv.2.isEmpty)
  let kfOf (differs : Bool) : String :=
    if !differs then "" else
    let tags := (if n7 then ["N7"] else []) ++ (if n8 then ["N8"] else []) ++ (if flushed then ["N9"] else [])
    if tags.isEmpty then "" else " kf=" ++ "+".intercalate tags
  let termsOf (q : Bytes) : Option (List Spec.Storage.Term) :=
    match (splitWords q).mapM (Spec.Storage.termOf uc) with
    | some ts => if ts.any (·.refusable) then none else some ts
    | none => none
  -- queries
  let mut j := 0
  for q in qs do
    let sqlS := match parseQueryL lx q with
      | .ok sqls => "/".intercalate (sqls.map fun (s : Sql) => (Bytes.ofString s.text).toHex) ++ "@" ++
                    showHexList (sqls.flatMap Sql.args)
      | .error e => errTag e
    let dbR := dbQueryL lx db q
    let clR := if q.isEmpty then .error .missingOp else clientQueryL lx db q
    IO.println s!"obs {id} q{j} sql={sqlS} db={showResults recStr dbR} cl={showResults recStr clR}"
    if !q.isEmpty then
      let modelS := showResults (fun r => specRecOf (r.labels ++ r.nameL) r.content) clR
      match termsOf q with
      | some ts =>
        let want := joinSorted ((allLines.filter (Spec.Storage.matchesAll ts)).map fun ln => specRecOf ln.labels ln.content)
        IO.println s!"spec {id} q{j} res={want}{kfOf (want != modelS)}"
      | none =>
        -- outside the premise (malformed word, or a refusable term): error or nothing
        let want := if modelS == "-" then "-" else "!err"
        IO.println s!"spec {id} q{j} res={want}"
    j := j + 1
  -- two iterators open at once give what each query gives alone; an iterator abandoned after the
  -- first result: Next reports whether there is one, Err whether the query is refused
  if il then
    let rec pairs : List Bytes → Nat → List (Nat × Bytes × Bytes)
      | a :: b :: rest, k => (k, a, b) :: pairs rest (k + 2)
      | _, _ => []
    for (k, qa, qb) in pairs qs 0 do
      let ra := dbQueryL lx db qa
      let rb := dbQueryL lx db qb
      let ca := if qa.isEmpty then .error .missingOp else clientQueryL lx db qa
      let cb := if qb.isEmpty then .error .missingOp else clientQueryL lx db qb
      IO.println s!"obs {id} il{k} a={showResults recStr ra} b={showResults recStr rb} ca={showResults recStr ca} cb={showResults recStr cb}"
      let (got, bad) := match ra with
        | .ok rs => (!rs.isEmpty, false)
        | .error .eof => (false, false)
        | .error _ => (false, true)
      IO.println s!"obs {id} ec{k} next={got} err={bad}"
  -- listings
  j := 0
  for (q, limit) in ls do
    if !xl.isEmpty then
      -- extra labels: the value of the first label row of the upload with that name
      let withX (xs : List Bytes) (r : Except QErr (List (Bytes × Nat))) : String :=
        match r with
        | .ok rows =>
          if rows.isEmpty then "-" else ",".intercalate (rows.map fun (uid, n) =>
            let lv : Labels := xs.foldl (fun acc x =>
              match db.labels.find? (fun lr => lr.upload == uid && lr.name == x) with
              | some lr => acc.set x lr.value
              | none => acc) []
            uid.toHex ++ ":" ++ toString n ++ ":" ++ labelsStr lv)
        | .error .eof => "-"
        | .error _ => "!err"
      let climit0 : Int := if limit == 0 then 1000 else limit
      let x2 := [Bytes.ofString "upload-time"]
      IO.println s!"obs {id} lx{j} db1={withX xl (listUploadsL lx db q limit)} cl1={withX xl (listUploadsL lx db q climit0)} db2={withX x2 (listUploadsL lx db q limit)} cl2={withX x2 (listUploadsL lx db q climit0)}"
    let dbL := listUploadsL lx db q limit
    let climit : Int := if limit == 0 then 1000 else limit
    let clL := listUploadsL lx db q climit
    IO.println s!"obs {id} l{j} db={showListing dbL} cl={showListing clL}"
    let modelS := showListing clL
    match termsOf q with
    | some ts =>
      let want := showRows (Spec.Storage.listing ts stored climit)
      IO.println s!"spec {id} l{j} res={want}{kfOf (want != modelS)}"
    | none =>
      let want := if modelS == "-" then "-" else "!err"
      IO.println s!"spec {id} l{j} res={want}"
    j := j + 1

def wordsStr (ws : List Bytes) : String :=
  if ws.isEmpty then "_" else "+".intercalate (ws.map Bytes.toHex)

def sentStr (qs : List (List Bytes)) : String :=
  if qs.isEmpty then "-" else ";".intercalate (qs.map wordsStr)

def handleSW (l : Line) : IO Unit := do
  let q := (l.bytes? "q").getD []
  let add := (l.bytes? "add").getD []
  let words := splitWords q
  let atq := Analysis.Quote.addToQuery q add
  let back := splitWords atq
  let (p0, g0) := Analysis.Parse.parseQueryString q
  let (p1, g1) := Analysis.Parse.parseQueryString atq
  IO.println s!"obs {l.id} words={showHexList words} atq={atq.toHex} back={showHexList back} pq={p0.toHex}/{showHexList g0} pqa={p1.toHex}/{showHexList g1}"
  let modelSent := (Analysis.Parse.sentQueries atq).map splitWords
  -- the added word comes back as the first word; the old query's words follow, after a "|" if it had none
  let hasBar := q.any (· == 124)
  if add.isEmpty || add == Analysis.Parse.wBar || add == Analysis.Parse.wVs then
    IO.println s!"spec {l.id} first={match back with | w :: _ => w.toHex | [] => "-"} n={(back.length : Int) - words.length} sent={sentStr modelSent}"
  else
    -- Specification of the chain addToQuery → parseQueryString → SplitWords: the builder's word must
    -- behave exactly like ONE ordinary unquoted word put in front of the old query. `stand` is such a
    -- word (bytes 0x01, longer than anything in `q`); the expected words are those of the front end's
    -- splitter on `stand q` resp. `stand | q`, with `stand` read as `add`.
    let stand : Bytes := List.replicate (q.length + 3) 1
    let plain := if hasBar then stand ++ [32] ++ q else stand ++ [32, 124, 32] ++ q
    let want := (Analysis.Parse.sentQueries plain).map fun s =>
      (splitWords s).map fun w => if w == stand then add else w
    IO.println s!"spec {l.id} first={add.toHex} n={if hasBar then 1 else 2} sent={sentStr want}"

def handle (l : Line) : IO Unit := do
  if l.kind != "case" then return
  match l.getD "kind" with
  | "hist" => handleHist l
  | "sw" => handleSW l
  | _ => pure ()

end Driver.C19

def main : IO Unit := do
  let stdin ← IO.getStdin
  Proto.forEachLine stdin fun s => Driver.C19.handle (Proto.parseLine s)
