import Model.Base.Proto
import Model.Tab.TextTab
import Model.Spec.Layout
import Model.Tab.KeyHeader
import Model.Spec.KeyHeader
import Model.Spec.TextCsv
import Model.Tab.Render

namespace Driver.C16
open Proto Tab.TextTab

/- case <id> kind=tab ops=<op,op,…> perm=<i,i,…> text=<hex of the implementation's output>
     op: r | c<n> | k<n>:<0|1> | s<span>:<hex value>:<opt/opt…>   opt: L C R M<hex margin>
   obs  <id> out=<hex>            (model Format, under the order Go's unstable sort produced)
   spec <id> layout=ok|fail:…     (geometric oracle on the implementation's text) -/

def dropS (s : String) (n : Nat) : String := String.ofList (s.toList.drop n)

def parseOpt (s : String) : Option Opt :=
  match s.toList with
  | ['L'] => some .left
  | ['C'] => some .center
  | ['R'] => some .right
  | 'M' :: rest => (Bytes.ofHex (String.ofList rest)).map Opt.margin
  | _ => none

def parseOp (s : String) : Option Op :=
  match s.toList with
  | ['r'] => some .row
  | 'c' :: rest => (String.ofList rest).toNat?.map Op.col
  | 'k' :: rest =>
    match (String.ofList rest).splitOn ":" with
    | [c, b] => c.toNat?.map fun c => Op.setShrink c (b == "1")
    | _ => none
  | 's' :: rest =>
    match (String.ofList rest).splitOn ":" with
    | [n, v, o] =>
      match n.toNat?, Bytes.ofHex v with
      | some n, some v =>
        let os := if o == "" then some [] else (o.splitOn "/").mapM parseOpt
        os.map fun os => Op.span n v os
      | _, _ => none
    | _ => none
  | _ => none

def parseOps (s : String) : Option (List Op) :=
  if s == "-" then some [] else (s.splitOn ",").mapM parseOp

def parseNats (s : String) : List Nat :=
  if s == "-" then [] else (s.splitOn ",").filterMap String.toNat?

def handleTab (l : Line) : IO Unit := do
  let id := l.id
  match parseOps (l.getD "ops" "-") with
  | none => IO.println s!"obs {id} out=!badcase"
  | some ops =>
    match build ops with
    | none =>
      -- the call sequence moves to an earlier column: the implementation must refuse it
      IO.println s!"obs {id} out=!panic"
      IO.println s!"spec {id} layout=panic fresh=same"
    | some t =>
      let perm := parseNats (l.getD "perm" "-")
      if !validOrder t.cells perm then
        IO.println s!"obs {id} out=!badperm"
        IO.println s!"spec {id} layout=ok fresh=same"
      else
        let ordered := applyOrder t.cells perm
        IO.println s!"obs {id} out={(format t ordered).toHex}"
        -- S: judge the implementation's text with the model's offsets as the witness
        let L := layoutOf true insertSortCols t ordered
        let offs := fun (k : Nat) => (L.offs.getD k (L.offs.getLastD 0)).toNat
        match l.bytes? "text" with
        | some text =>
          let (v, _) := Spec.Layout.judge text t.cells offs
          IO.println s!"spec {id} layout={v} fresh=same"
        | none => IO.println s!"spec {id} layout=ok fresh=same"

/- case <id> kind=kh nf=<fields> nk=<keys> keys=<k;k;…>   k = hex,hex,… (one value per field)
   obs  <id> tree={field:hexvalue:start:len{children}…}
   spec <id> lv=<level>/<level>…   level = hexvalue:start:len,… -/

partial def showNode : Tab.KeyHeader.Node → String
  | .mk f v s l cs => "{" ++ s!"{f}:{v.toHex}:{s}:{l}" ++ String.join (cs.map showNode) ++ "}"

def showForest (ns : List Tab.KeyHeader.Node) : String :=
  if ns.isEmpty then "-" else String.join (ns.map showNode)

def parseKeys (s : String) (nk : Nat) : List (List Bytes) :=
  if nk == 0 then [] else
  (s.splitOn ";").map fun k => if k == "" then [] else (k.splitOn ",").map fun v => (Bytes.ofHex v).getD []

def handleKh (l : Line) : IO Unit := do
  let id := l.id
  let nf := (l.nat? "nf").getD 0
  let nk := (l.nat? "nk").getD 0
  let keys := parseKeys (l.getD "keys" "") nk
  let top := Tab.KeyHeader.newKeyHeader keys nf
  IO.println s!"obs {id} tree={showForest top}"
  let lv := (List.range nf).map fun k =>
    let ns := Spec.KeyHeader.specLevel keys k
    if ns.isEmpty then "-" else ",".intercalate (ns.map fun (v, s, n) => s!"{v.toHex}:{s}:{n}")
  IO.println s!"spec {id} lv={if lv.isEmpty then "-" else "/".intercalate lv} fresh=same"

/- case <id> kind=e2e text=<hex> csv=<hex> warn=<hex>   (benchstat's two renderings of the same Tables)
   spec <id> agree=ok|… hdr=ok|… layout=ok|… -/

def strOf (b : Bytes) : String := (String.fromUTF8? (ByteArray.mk b.toArray)).getD "?"

def handleE2e (l : Line) : IO Unit := do
  match l.bytes? "text", l.bytes? "csv", l.bytes? "warn" with
  | some t, some c, some w =>
    IO.println s!"spec {l.id} {(Spec.TextCsv.judge (strOf t) (strOf c) (strOf w)).show} fresh=same"
  | _, _, _ => pure ()

/- case <id> kind=tbl unit= nf= nk= cols= nr= rows= sum= perm= start=   (cells view of one benchtab.Table, see
     harness/c16/hooks/benchtab_export.go)
   obs  <id> text=<hex> csv=<hex> warn=<hex> n=<rowCount>     (model ToText/ToCSV of the view)
   spec <id> agree= hdr= layout=     printed when the harness's own obs line passes by: text vs CSV of the implementation -/

open Tab.Render in
def parseWarns (s : String) : List Bytes :=
  if s == "" then [] else (s.splitOn ",").map fun h => (Bytes.ofHex h).getD []

open Tab.Render in
def parseDataCell (s : String) : Option DataCell :=
  if s == "-" then none else
  match s.splitOn ":" with
  | [ct, cc, rg, w, d] =>
    let hx := fun (h : String) => (Bytes.ofHex h).getD []
    let delta : Option Delta := if d == "-" then none else
      match d.splitOn "/" with
      | [dd, p, dw] => some { delta := hx dd, p := hx p, warns := parseWarns dw }
      | _ => none
    some { centerText := hx ct, centerCsv := hx cc, range := hx rg, warns := parseWarns w, delta := delta }
  | _ => none

open Tab.Render in
def parseSumCell (s : String) : Option SumCell :=
  if s == "-" then none else
  match s.splitOn ":" with
  | [hs, st, sc, hr, ra, w] =>
    let hx := fun (h : String) => (Bytes.ofHex h).getD []
    some { hasSummary := hs == "1", sumText := hx st, sumCsv := hx sc, hasRatio := hr == "1", ratio := hx ra, warns := parseWarns w }
  | _ => none

open Tab.Render in
def parseView (l : Line) : View :=
  let hx := fun (h : String) => (Bytes.ofHex h).getD []
  let nk := (l.nat? "nk").getD 0
  let nr := (l.nat? "nr").getD 0
  let rows := if nr == 0 then [] else ((l.getD "rows" "").splitOn "|").map fun r =>
    match r.splitOn "~" with
    | lab :: cells => (hx lab, cells.map parseDataCell)
    | [] => ([], [])
  let (sl, sum) := match (l.getD "sum" "").splitOn "~" with
    | lab :: cells => (hx lab, cells.map parseSumCell)
    | [] => ([], [])
  { unit := hx (l.getD "unit" ""), nfields := (l.nat? "nf").getD 0,
    colKeys := parseKeys (l.getD "cols" "") nk, rows := rows, summaryLabel := sl, summary := sum }

open Tab.Render in
def handleTbl (l : Line) : IO Unit := do
  let v := parseView l
  let (ops, wl) := toTextOps v
  let text := match build ops with
    | none => "!panic"
    | some t =>
      let perm := parseNats (l.getD "perm" "-")
      if !validOrder t.cells perm then "!badperm"
      else (format t (applyOrder t.cells perm) ++ footnoteLines wl).toHex
  let st := toCsv v ((l.nat? "start").getD 1)
  IO.println s!"obs {l.id} text={text} csv={(csvEncode st.recs).toHex} warn={Bytes.toHex st.warn.flatten} n={st.rowCount}"

def handleImplObs (l : Line) : IO Unit := do
  match l.bytes? "text", l.bytes? "csv", l.bytes? "warn" with
  | some t, some c, some w =>
    IO.println s!"spec {l.id} {(Spec.TextCsv.judge (strOf t) (strOf c) (strOf w)).show} fresh=same"
  | _, _, _ => pure ()

def handle (l : Line) : IO Unit := do
  if l.kind == "obs" && (l.get? "csv").isSome then handleImplObs l
  if l.kind != "case" then return
  match l.getD "kind" with
  | "tab" => handleTab l
  | "kh" => handleKh l
  | "e2e" => handleE2e l
  | "tbl" => handleTbl l
  | _ => pure ()

end Driver.C16

def main : IO Unit := do
  let stdin ← IO.getStdin
  Proto.forEachLine stdin fun s => Driver.C16.handle (Proto.parseLine s)
