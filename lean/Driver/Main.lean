import Driver.C05
def main (args : List String) : IO UInt32 := do
  match args with
  | ["C05"] => Driver.C05.run; return 0
  | _ => IO.eprintln "usage: driver <property>"; return 2
