import Model.Base.Proto
import Model.Legacy.Collection
import Model.Legacy.Text
import Model.Spec.Legacy

namespace Driver.C17
open Proto Legacy

def hexStr (s : String) : String := (Bytes.ofString s).toHex
def unhex (s : String) : Bytes := (Bytes.ofHex s).getD (str "?")
def unhexOrEmpty (s : String) : Bytes := if s == "" then [] else unhex s
def unhexString (s : String) : String :=
  (String.fromUTF8? (ByteArray.mk (unhex s).toArray)).getD "?"

def splitD (s : String) (sep : String) : List String := if s == "" || s == "-" then [] else s.splitOn sep

def bitsOf (s : String) : F64.Bits := (F64.ofHex? s).getD 0x0000DEADDEADDEAD
def bitsDot (s : String) : List F64.Bits := (splitD s ".").map bitsOf
def showBits (b : F64.Bits) : String := F64.toHex (F64.canonNaN b)
def showBitsZ (b : F64.Bits) : String := if F64.isZero b then F64.toHex 0 else showBits b
def showBitsList (sep : String) (l : List F64.Bits) : String := sep.intercalate (l.map showBits)
def showBitsListD (l : List F64.Bits) : String := if l.isEmpty then "-" else showBitsList "," l
def showStrList (l : List Str) : String := if l.isEmpty then "-" else ",".intercalate (l.map Bytes.toHex)
def strList (s : String) : List Str := if s == "-" then [] else (s.splitOn ",").map unhex

def parseLabels (s : String) : List (Str × Str) :=
  (splitD s ";").map fun kv => match kv.splitOn "." with
    | [k, v] => (unhex k, unhex v)
    | _ => (str "?", str "?")

def parseOrder (s : String) : Option Order :=
  if s == "-" || s == "" then none else
  let cs := s.toList
  let base := if cs.getLast? == some 'n' then Order.byName else Order.byDelta
  some ((List.range (cs.length - 1)).foldl (fun o _ => Order.reverse o) base)

def parseTestRes (s : String) : TestRes :=
  match s.toList with
  | 'p' :: rest => .p (bitsOf (String.ofList rest))
  | ['z'] => .errZeroVariance
  | ['s'] => .errSampleSize
  | ['e'] => .errSamplesEqual
  | 'o' :: rest => .errOther (unhexString (String.ofList rest))
  | _ => .errOther "?unparsable"

structure Case where
  coll : Coll
  cfgs : List Str
  results : List (Nat × Result)
  num : Num
  T : TestFn
  G : GeoFn
  nonfinite : Bool := false
  test : String := "-"

def parseCase (l : Line) : Case :=
  let nums : List (Str × Int × Option F64.Bits) := (splitD (l.getD "nums") ",").map fun e =>
    match e.splitOn ":" with
    | [t, a, p] => (unhex t, a.toInt?.getD 0, if p == "!" then none else some (bitsOf p))
    | _ => (str "?", 0, none)
  let num : Num := {
    atoi := fun s => match nums.lookup s with | some (a, _) => a | none => 0
    parseFloat := fun s => match nums.lookup s with | some (_, p) => p | none => none }
  let tests : List ((List F64.Bits × List F64.Bits) × TestRes) := (splitD (l.getD "tests") ",").map fun e =>
    match e.splitOn "=" with
    | [k, r] => (match k.splitOn "/" with
        | [o, n] => ((bitsDot o, bitsDot n), parseTestRes r)
        | _ => (([], []), .errOther "?key"))
    | _ => (([], []), .errOther "?entry")
  let geos : List (List F64.Bits × F64.Bits) := (splitD (l.getD "geos") ",").map fun e =>
    match e.splitOn "=" with
    | [k, r] => (bitsDot k, bitsOf r)
    | _ => ([], 0)
  let results := (splitD (l.getD "res") ",").map fun e =>
    match e.splitOn ":" with
    | [c, content, nl, lb] => (c.toNat?.getD 0, ({ content := unhex content, nameLabels := parseLabels nl, labels := parseLabels lb } : Result))
    | _ => (0, ({ content := str "?" } : Result))
  { coll := { alpha := bitsOf (l.getD "alpha"), addGeoMean := l.getD "geo" == "1",
              splitBy := strList (l.getD "split" "-"), order := parseOrder (l.getD "order") }
    cfgs := strList (l.getD "cfgs" "-")
    results := results
    num := num
    test := l.getD "test" "-"
    nonfinite := nums.any (fun (_, _, p) => match p with | some b => !F64.isFinite b | none => false)
    -- NoDeltaTest is documented to return (-1, nil): modelled, not taken from the implementation
    T := if l.getD "test" "-" == "n" then (fun _ _ => .p cNeg1) else fun o n =>
      match tests.lookup (o.map F64.canonNaN, n.map F64.canonNaN) with
      | some r => r | none => .errOther "?no-test-data"
    G := fun ms => match geos.lookup (ms.map F64.canonNaN) with
      | some r => r | none => 0x0000DEADDEADDEAD }

def Case.build (cs : Case) : Coll :=
  (List.range cs.cfgs.length).foldl (fun c i =>
    addResults cs.num c (cs.cfgs.getD i []) ((cs.results.filter (·.1 == i)).map (·.2))) cs.coll

def dedupStr (l : List Str) : List Str := l.foldl (fun acc s => if acc.contains s then acc else acc ++ [s]) []

def dumpMetric (m : Metrics) : String :=
  s!"{m.unit.toHex}:{m.values.length}:{showBitsList "." m.rvalues}:{showBits m.min}:{showBits m.mean}:{showBits m.max}"

def quart (vals : List F64.Bits) : String :=
  showBitsZ (percentile vals c0_25) ++ "." ++ showBitsZ (percentile vals c0_75)

/-- the obs payloads of one Tables() call (without the `obs <id> call=k` prefix) -/
def dump (c : Coll) (ts : List Table) : List String :=
  let bm := ";".intercalate (c.groups.map fun g => g.toHex ++ ":" ++ ".".intercalate ((benchOf c.benchmarks g).map Bytes.toHex))
  let hdr := s!"hdr configs={showStrList c.configs} groups={showStrList c.groups} units={showStrList c.units} bm={bm} nt={ts.length}"
  let ms := (dedupStr c.configs).flatMap fun cfg => c.units.flatMap fun u => c.groups.flatMap fun g =>
    (benchOf c.benchmarks g).filterMap fun b =>
      (findMetric c.metrics ⟨cfg, g, b, u⟩).map fun m =>
        s!"m cfg={cfg.toHex} g={g.toHex} b={b.toHex} u={u.toHex} vals={showBitsListD m.values} rv={showBitsListD m.rvalues} min={showBits m.min} mean={showBits m.mean} max={showBits m.max} q={quart m.values}"
  let tl := (ts.zipIdx).flatMap fun (t, i) =>
    s!"t={i} unit={t.unit.toHex} metric={t.metric.toHex} ond={if t.oldNewDelta then 1 else 0} cfgs={showStrList t.configs} grps={showStrList t.groups} nrows={t.rows.length}" ::
    (t.rows.zipIdx).map fun (r, j) =>
      s!"t={i} r={j} b={r.bench.toHex} g={r.group.toHex} ms={";".intercalate (r.metrics.map dumpMetric)} pd={showBits r.pctDelta} d={hexStr r.delta} n={hexStr r.note} c={r.change} fm={";".intercalate (r.metrics.map fun m => (formatCell m r.scaler).toHex)}"
  hdr :: ms ++ tl

structure State where
  cur : Option (String × Case) := none
  goObs : List String := []        -- obs payloads of the implementation for the current case

def handleCase (l : Line) : IO (Option (String × Case)) := do
  let id := l.id
  if l.get? "cfgs" == none || (l.get? "crashed").isSome then return none   -- panic / timeout: judged by the crash line
  let cs := parseCase l
  let c0 := cs.build
  let (c1, t1) := tables cs.T cs.G c0
  for d in dump c1 t1 do IO.println s!"obs {id} call=1 {d}"
  let text := formatText t1
  let csv := formatCSV t1 false
  let csvnr := formatCSV t1 true
  let (c2, t2) := tables cs.T cs.G c1
  for d in dump c2 t2 do IO.println s!"obs {id} call=2 {d}"
  IO.println s!"obs {id} text={text.toHex}"
  IO.println s!"obs {id} csv={csv.toHex}"
  IO.println s!"obs {id} csvnr={csvnr.toHex}"
  return some (id, cs)

/-- S layer: judge the implementation's dump (its obs lines) against the specification -/
def judge (id : String) (cs : Case) (goObs : List String) : IO Unit := do
  let lines := goObs.map parseLine
  let call (k : String) := lines.filter fun l => l.getD "call" == k
  let spec := Spec.Legacy.ofInput cs.num cs.coll.splitBy cs.cfgs cs.results
  let setting : Spec.Legacy.Settings := { alpha := cs.coll.alpha, order := cs.coll.order, geo := cs.coll.addGeoMean, T := cs.T, test := cs.test }
  let mline (l : Line) : Bool := l.words.contains "m"
  let ims (k : String) : List Spec.Legacy.ImplMetric := (call k).filter mline |>.map fun l =>
      ({ cfg := unhex (l.getD "cfg"), group := unhex (l.getD "g"), bench := unhex (l.getD "b"), unit := unhex (l.getD "u"),
         rv := (splitD (l.getD "rv") ",").map bitsOf, min := bitsOf (l.getD "min"), mean := bitsOf (l.getD "mean"),
         max := bitsOf (l.getD "max") } : Spec.Legacy.ImplMetric)
  let stats (k : String) : String := Spec.Legacy.judgeAll (ims k) spec
  let parseMs (s : String) : List Spec.Legacy.ImplCell := (splitD s ";").map fun e =>
    match e.splitOn ":" with
    | [u, n, rv, mn, me, mx] => { unit := unhex u, nvals := n.toNat?.getD 0, rv := bitsDot rv, min := bitsOf mn, mean := bitsOf me, max := bitsOf mx }
    | _ => { unit := str "?", nvals := 0, rv := [], min := 0, mean := 0, max := 0 }
  let tabs (k : String) : String :=
    let ls := call k
    let hdrs := ls.filter fun l => (l.get? "unit").isSome
    let its : List Spec.Legacy.ImplTable := hdrs.map fun h =>
      let t := h.getD "t"
      let rows := ls.filter fun l => l.getD "t" == t && (l.get? "r").isSome
      let withText (cells : List Spec.Legacy.ImplCell) (fm : String) : List Spec.Legacy.ImplCell :=
        let texts := if fm == "" then [] else (fm.splitOn ";").map unhexOrEmpty
        (cells.zipIdx).map fun (c, i) => { c with text := texts.getD i [] }
      { unit := unhex (h.getD "unit"), metric := unhex (h.getD "metric"), ond := h.getD "ond" == "1",
        rows := rows.map fun r => { bench := unhex (r.getD "b"), group := unhex (r.getD "g"), cells := withText (parseMs (r.getD "ms")) (r.getD "fm"),
                                    pd := bitsOf (r.getD "pd"), delta := unhexString (r.getD "d"), note := unhexString (r.getD "n"),
                                    change := (r.getD "c").toInt?.getD 0 } }
    let v := Spec.Legacy.judgeTables its (ims k) spec setting
    -- the CSV (norange) of the first call must carry the means of the first call's tables
    if v == "ok" && k == "1" then
      match (lines.find? fun l => (l.get? "csvnr").isSome) with
      | some l => Spec.Legacy.judgeCSV (unhexOrEmpty (l.getD "csvnr")) its cs.cfgs.length
      | none => "csv-missing"
    else v
  let strip (l : Line) : List String := l.words.filter fun w => !(w.startsWith "call=")
  let same := (call "1").map strip == (call "2").map strip
  -- known finding N17ovf: a metric whose value span is not representable in float64 (judged at full strength)
  let kf := if spec.overflowClass then " kf=N17ovf" else ""
  IO.println s!"spec {id} stats1={stats "1"} stats2={stats "2"} tabs1={tabs "1"} tabs2={tabs "2"} same={if same then 1 else 0} viaconfig=1 hist=ok{kf}"

partial def loop (h : IO.FS.Stream) (st : State) : IO Unit := do
  let line ← h.getLine
  if line.isEmpty then return ()
  let s := line.trimAsciiEnd.toString
  let l := parseLine s
  match l.kind with
  | "case" =>
    let cur ← handleCase l
    loop h { cur := cur, goObs := [] }
  | "obs" =>
    -- payload after "obs <id> "
    let payload := " ".intercalate (l.words.drop 2)
    loop h { st with goObs := payload :: st.goObs }
  | "sobs" =>
    match st.cur with
    | some (id, cs) => judge id cs st.goObs.reverse
    | none => pure ()
    loop h { cur := none, goObs := [] }
  | _ => loop h st

end Driver.C17

def main : IO Unit := do
  let stdin ← IO.getStdin
  Driver.C17.loop stdin {}
