import Model.Base.Proto
import Model.Unit.Scale
import Model.Unit.Parse
import Model.Spec.Scale

namespace Driver.C10
open Proto

def bits? (s : String) : Option F64.Bits := F64.ofHex? s
def bitsList (s : String) : List F64.Bits := if s == "-" then [] else (s.splitOn ",").filterMap bits?
def hexStr (s : String) : String := (Bytes.ofString s).toHex
def unhexStr (s : String) : String := match Bytes.ofHex s with
  | some b => (String.fromUTF8? (ByteArray.mk b.toArray)).getD "?"
  | none => "?"

def showScaler (s : Unit.Scale.Scaler) : String :=
  s!"prec={Unit.Scale.showInt s.prec} factor={F64.toHex s.factor} prefix={hexStr s.prefix_}"

def handle (l : Line) : IO Unit := do
  if l.kind != "case" then return
  let id := l.id
  match l.getD "kind" with
  | "f64" =>
    let a := (bits? (l.getD "a")).getD 0
    let b := (bits? (l.getD "b")).getD 0
    let r := match l.getD "op" with
      | "mul" => F64.toHex (F64.canonNaN (F64.mul a b))
      | "div" => F64.toHex (F64.canonNaN (F64.div a b))
      | "add" => F64.toHex (F64.canonNaN (F64.add a b))
      | "sub" => F64.toHex (F64.canonNaN (F64.sub a b))
      | "lt" => toString (F64.lt a b)
      | "le" => toString (F64.le a b)
      | "eq" => toString (F64.eq a b)
      | "ofint" => F64.toHex (F64.ofInt ((l.getD "i").toInt?.getD 0))
      | "parse" => match DecText.toF64? (unhexStr (l.getD "text")) with
        | some x => F64.toHex x
        | none => "!syntax"
      | "fix" => hexStr (F64.fmtFixed a ((l.nat? "prec").getD 0))
      | _ => "?"
    IO.println s!"obs {id} r={r}"
  | "scale" =>
    let vals := bitsList (l.getD "vals")
    let binary := l.getD "cls" == "1"
    let cls := if binary then Unit.Scale.Class.binary else .decimal
    let sc := Unit.Scale.commonScale vals cls
    let fmts := vals.map fun v => hexStr (Unit.Scale.format sc v)
    let singles := vals.map fun v => hexStr (Unit.Scale.scale v cls)
    IO.println s!"obs {id} {showScaler sc} fmt={",".intercalate fmts} single={",".intercalate singles}"
    -- spec: judge the implementation's own single-value texts, and the common scale rule
    let implSingles := ((l.getD "isingle").splitOn ",").map unhexStr
    let verdicts := (vals.zip implSingles).map fun (v, t) => Spec.Scale.judgeScale v binary t
    let implNoop := ((l.getD "inoop").splitOn ",").map unhexStr
    let nverdicts := (vals.zip implNoop).map fun (v, t) => Spec.Scale.judgeShortest v t
    let minIdx := if vals.any F64.isNaN then "skip" else match Spec.Scale.argMinNonZero vals with
      | some i => toString i
      | none => "none"
    IO.println s!"spec {id} judge={",".intercalate verdicts} noop={",".intercalate nverdicts} min={minIdx} in=kept"
  | "classof" =>
    let u := (l.bytes? "unit").getD []
    let c := match Unit.Parse.classOf u with | .binary => "1" | .decimal => "0"
    let toks := (Unit.Parse.tokens u).map fun t => s!"{t.tok.toHex}:{t.pos}:{if t.denom then 1 else 0}"
    IO.println s!"obs {id} cls={c} toks={if toks.isEmpty then "-" else ",".intercalate toks}"
    -- spec: binary exactly when B, MB or bytes appears as a numerator component
    let comps := Unit.Parse.tokens u
    let isBin := fun (cs : List Unit.Parse.Tok) => cs.any fun t => !t.denom && (t.tok == Bytes.ofString "B" || t.tok == Bytes.ofString "MB" || t.tok == Bytes.ofString "bytes")
    let sb := isBin comps
    -- the class of the same string after Tidy has seen it is the same; the tidied unit is judged on its own tokens
    let tb := isBin (Unit.Parse.tokens ((l.bytes? "tidied").getD []))
    IO.println s!"spec {id} cls={if sb then 1 else 0} after={if sb then 1 else 0} tidied={if tb then 1 else 0}"
  | "sweep" =>
    -- many distinct units in one process; the harness counts units whose class is not the one their
    -- construction fixes ("<w><i>-ns/op": no bytes token, decimal; "<w><i>-B/op": binary)
    IO.println s!"obs {id} bad=0 first=-"
    IO.println s!"spec {id} bad=0 first=-"
  | _ => pure ()

end Driver.C10

def main : IO Unit := do
  let stdin ← IO.getStdin
  Proto.forEachLine stdin fun s => Driver.C10.handle (Proto.parseLine s)
