import Model.Proc.ProjProto

/-- C08 driver: reads the harness output, prints the model's `obs` lines and the
specification's `spec` lines for every `case` line. -/
def main : IO Unit := do
  let stdin ← IO.getStdin
  let stdout ← IO.getStdout
  Proto.forEachLine stdin fun s => do
    for l in Proc.ProjProto.handle (Proto.parseLine s) do
      stdout.putStrLn l
