import Model.Tab.DriverLib

/-
C14 driver. Reads the projected measurement stream of a case (see harness/c14/main.go) and
prints
  obs  — what the MODEL (Tab.build / Tab.toTables / tablesCSV / textFootnotes) produces,
         in the vocabulary the harness uses for the real Tables, CSV and text;
  spec — what the SPECIFICATION (Spec.Cells) demands of the implementation's output.
-/
namespace Driver.C14
open Proto Tab Tab.DriverLib

def handle (l : Line) : IO Unit := do
  if l.kind != "case" then return
  let id := l.id
  match l.getD "kind" with
  | "defaults" => IO.println (defaultsLine id)
  | "run" =>
    if (l.get? "crashed").isSome then return   -- the real code died on this case: the harness printed `crash`
    match l.get? "err" with
    | some e =>
      IO.println s!"obs {id} err={e}"
      IO.println s!"spec {id} err bin=ok"
    | none =>
      let c := parseCase l
      let b := build c.res
      let ts := toTables c.cfg b
      match obsTables id c ts with
      | [] => pure ()
      | h :: rest =>
        IO.println h
        for line in rawLines id l c do IO.println line
        for line in rest do IO.println line
      IO.println (specLine id c "ok" (rawCellsDigest l c) (specOrders l c))
  | _ => pure ()

end Driver.C14

def main : IO Unit := do
  let stdin ← IO.getStdin
  Proto.forEachLine stdin fun s => Driver.C14.handle (Proto.parseLine s)
