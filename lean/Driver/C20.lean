import Model.Base.Proto
import Model.Storage.Upload
import Model.Spec.UploadAtomic

namespace Driver.C20
open Proto Storage.Upload

/- case <id> kind=up day=YYYYMMDD user=<hex> store=local|mem reqs=<req>;<req>;…
     req   = <parts>|<endErr>|<fault>|<cut>|<refused before processing: - ctype boundary method auth>|<day of the request>
     parts = - | part+part+…    part = X:<name hex>[:<filename hex>] | F:<fname hex>:<content hex>:<cut>:<chunks a.b.c or ->
     fault = - | <k>.<o|s>.<d|l>
   case <id> kind=ids day=… ops=<m><c|a>,…
   case <id> kind=conc g=… m=… -/

def hexD (s : String) : Bytes := (Bytes.ofHex s).getD []

def parsePart (s : String) : Option Part :=
  match s.splitOn ":" with
  | ["X", n] => some (Part.field (hexD n))
  | ["X", n, _] => some (Part.field (hexD n))   -- a field part that carries a filename parameter
  | ["F", fnm, c, cut, ch] =>
    let chunks := if ch == "-" then [] else (ch.splitOn ".").filterMap String.toNat?
    some (Part.file (hexD fnm) (hexD c) (cut == "1") chunks)
  | _ => none

def parseFault (s : String) : Option Fault :=
  match s.splitOn "." with
  | [k, m, l] => k.toNat?.map fun k => { k := k, sticky := m == "s", leaves := l == "l" }
  | _ => none

def parseReq (s : String) : Option (Req × Nat × Nat × String) :=
  match s.splitOn "|" with
  | [ps, e, f, c, pre, d] =>
    let parts := if ps == "-" then [] else (ps.splitOn "+").filterMap parsePart
    some ({ parts := parts, endErr := e == "1", fault := parseFault f }, c.toNat?.getD 0, d.toNat?.getD 0, pre)
  | _ => none

def str (b : Bytes) : String := String.ofList (b.map fun c => Char.ofNat c.toNat)

def idStr (k : UKey) : String := str (renderId k)

def pathStr (p : Path) : String := s!"uploads/{idStr p.up}/{p.part}.txt"

def joinOr (l : List String) : String := if l.isEmpty then "-" else ",".intercalate l

def sortStrings (l : List String) : List String := l.mergeSort (fun a b => !(b < a))

def showTrace (t : List Op) : String :=
  let rec go : List Op → Option Nat → List String
    | [], acc => (match acc with | some n => [s!"W{n}"] | none => [])
    | Op.wr n true :: r, acc => go r (some (acc.getD 0 + n))
    | op :: r, acc =>
      (match acc with | some n => [s!"W{n}"] | none => []) ++
      [match op with
        | Op.nw true => "N" | Op.nw false => "N!"
        | Op.wr _ _ => "W!"
        | Op.cl true => "C" | Op.cl false => "C!"
        | Op.cwe => "E"] ++ go r none
  joinOr (go t none)

def errStr : Err → String
  | .body => "body" | .field => "field" | .nofiles => "nofiles" | .nobench => "nobench" | .fs => "fs" | .db => "db"

def partLabel (r : RRow) : String :=
  str ((r.labels.lookup (Bytes.ofString "upload-part")).getD [])

def showSearch (db : DB) : String :=
  joinOr (sortStrings (db.results.map fun x => s!"{partLabel x.1}#{x.2.toHex}"))

def showList (db : DB) : String :=
  joinOr (db.listing.map fun e => s!"{idStr e.1}:{e.2}")

/-- `/uploads?limit=2`: the two newest uploads that have records -/
def showList2 (db : DB) : String :=
  joinOr ((db.listing.take 2).map fun e => s!"{idStr e.1}:{e.2}")

def showFiles (fs : Store) (withData : Bool) : String :=
  joinOr (sortStrings (fs.map fun e =>
    s!"{(Bytes.ofString (pathStr e.1)).toHex}={if withData then e.2.toHex else ""}"))

def specFiles (l : List (Bytes × Bytes)) (withData : Bool) : String :=
  joinOr (l.map fun e => s!"{e.1.toHex}={if withData then e.2.toHex else ""}")

def b01 (b : Bool) : String := if b then "1" else "0"

def handleUp (l : Line) : IO Unit := do
  let user := hexD (l.getD "user")
  let withData := l.getD "store" == "local"
  let reqs := ((l.getD "reqs").splitOn ";").filterMap parseReq
  let mut s : Sys := {}
  let mut step := 0
  -- spec-level bookkeeping: days of the ids handed out so far
  let mut days : List Nat := []
  for (req, cutFlag, day, pre) in reqs do
    let env : Env := { day := day, user := user, time := Bytes.ofString "2006-01-02T15:04:05Z" }
    if pre != "-" then
      -- App.upload refuses the request before processUpload (Auth error, method, MultipartReader error):
      -- http.Error and return; nothing is touched
      let status := if pre == "method" then "405" else "500"
      IO.println s!"obs {l.id} step={step} status={status} err=refused id=- fids=- trace=- nup={s.db.uploads.length} own=0 search={showSearch s.db} list={showList s.db} l2={showList2 s.db} files={showFiles s.fs withData}"
      IO.println s!"spec {l.id} step={step} ok=0 vis=0,0,0 lab=0,0,0 own=0,0 listed=0 lim=1 inprog=0 earlier=1 idsok=1 stored=-"
      step := step + 1
      continue
    let o := processUpload env req s
    s := o.sys
    let (status, err, fids) := match o.resp with
      | .ok (_, f) => ("200", "-", joinOr (f.map fun (p : Path) => s!"{idStr p.up}/{p.part}"))
      | .error e => ("500", errStr e, "-")
    let rid := match o.alloc with | some k => idStr k | none => "-"
    let own := match o.alloc with | some k => (s.db.queryUpload k).length | none => 0
    IO.println s!"obs {l.id} step={step} status={status} err={err} id={rid} fids={fids} trace={showTrace o.trace} nup={s.db.uploads.length} own={own} search={showSearch s.db} list={showList s.db} l2={showList2 s.db} files={showFiles s.fs withData}"
    -- specification
    let refused := Spec.UploadAtomic.reachesAlloc req.parts && Spec.UploadAtomic.clockRefuses days day
    let fail := Spec.UploadAtomic.mustFail env req (cutFlag != 0) days
    if Spec.UploadAtomic.reachesAlloc req.parts && !refused then days := days ++ [day]
    let modelOk := match o.resp with | .ok _ => true | .error _ => false
    let mut kf : List String := []
    if cutFlag != 0 && modelOk && !Spec.UploadAtomic.structuralFault req then kf := kf ++ ["N20c"]
    let kfs := if kf.isEmpty then "" else " kf=" ++ "+".intercalate kf
    if fail then
      IO.println s!"spec {l.id} step={step} ok=0 vis=0,0,0 lab=0,0,0 own=0,0 listed=0 lim=1 inprog=0 earlier=1 idsok=1 stored=-{kfs}"
    else
      let n := Spec.UploadAtomic.visible req
      IO.println s!"spec {l.id} step={step} ok=1 vis={n},{n},{n} lab={n},{n},{n} own={n},{n} listed=1 lim=1 inprog=0 earlier=1 idsok=1 stored={specFiles (Spec.UploadAtomic.storedFiles env req.parts 0) withData}{kfs}"
    step := step + 1

/-- record j of the db-level scenarios (harness idsRecord) -/
def idsRes (k : UKey) (j : Nat) : Res :=
  let v := if j % 3 == 0 then s!"v{j}" else "v0"
  { labels := [(Bytes.ofString "key", Bytes.ofString v), (Bytes.ofString "upload", renderId k)],
    name := Bytes.ofString "X", line := Bytes.ofString s!"BenchmarkX {j}" }

def handleIds (l : Line) : IO Unit := do
  let ops := (l.getD "ops").splitOn ","
  let mut db : DB := {}
  let mut ids : List (Option UKey) := []
  let mut rids : List UKey := []
  for op in ops do
    -- op = R<day>.<seq>:<m><c|a>   (ReplaceUpload)
    if op.startsWith "R" then
      match ((op.drop 1).toString).splitOn ":" with
      | [idstr, tail] =>
        match idstr.splitOn "." with
        | [d, q] =>
          let k : UKey := ⟨d.toNat?.getD 0, q.toNat?.getD 0⟩
          let m := ((String.ofList (tail.toList.takeWhile Char.isDigit)).toNat?).getD 0
          db := replaceUpload k ((List.range m).map (idsRes k)) (tail.endsWith "c") db
          if !rids.contains k then rids := rids ++ [k]
        | _ => pure ()
      | _ => pure ()
      continue
    -- op = <m><c|a>@<day>
    let (head, day) := match op.splitOn "@" with
      | [h, d] => (h, d.toNat?.getD 0)
      | _ => (op, 0)
    let commit := head.endsWith "c"
    let m := ((String.ofList (head.toList.takeWhile Char.isDigit)).toNat?).getD 0
    match allocId day db.uploads with
    | none => ids := ids ++ [none]
    | some k =>
      db := { db with uploads := db.uploads ++ [k] }
      ids := ids ++ [some k]
      let t : Tx := { id := k }
      match t.insertRecords ((List.range m).map (idsRes k)) with
      | none => pure ()
      | some t1 =>
        if commit then
          match t1.flush with
          | some t2 => db := { db with records := db.records ++ t2.txRec }
          | none => pure ()
  let idS := ids.map fun o => match o with | some k => idStr k | none => "!"
  let counts := ids.map fun o => match o with | some k => toString (db.queryUpload k).length | none => "0"
  let rcounts := rids.map fun k => s!"{idStr k}:{(db.queryUpload k).length}"
  IO.println s!"obs {l.id} ids={joinOr idS} counts={joinOr counts} rcounts={joinOr rcounts} list={showList db} nup={db.uploads.length} all={db.results.length}"
  IO.println s!"spec {l.id} idsok=1"

/-! kind=big: a large file given by generator parameters; the expectation is computed arithmetically
   file = S:<fname>:<content> | B:<fname>:<uid line>:<count>.<line>,…:<last line> -/

structure BigFile where
  fname : Bytes
  /-- number of benchmark lines, content length, byte sum (mod 2^32) -/
  lines : Nat
  len : Nat
  sum : Nat

def byteSum (b : Bytes) : Nat := b.foldl (fun a c => a + c.toNat) 0

def parseBig (s : String) : Option BigFile :=
  match s.splitOn ":" with
  | ["S", fnm, c] =>
    let b := hexD c
    some { fname := hexD fnm, lines := Spec.UploadAtomic.benchCount b, len := b.length, sum := byteSum b }
  | ["B", fnm, uidl, blocks, last] =>
    let u := hexD uidl
    let la := hexD last
    let bs := (blocks.splitOn ",").filterMap fun x =>
      match x.splitOn "." with
      | [n, l] => n.toNat?.map fun n => (n, hexD l)
      | _ => none
    -- every block line and the last line is a benchmark line (checked on one copy)
    let lines := (bs.map fun (n, l) => n * Spec.UploadAtomic.benchCount l).sum + Spec.UploadAtomic.benchCount la
    let len := u.length + (bs.map fun (n, l) => n * l.length).sum + la.length
    let sum := byteSum u + (bs.map fun (n, l) => n * byteSum l).sum + byteSum la
    some { fname := hexD fnm, lines := lines, len := len, sum := sum }
  | _ => none

def handleBig (l : Line) : IO Unit := do
  let user := hexD (l.getD "user")
  let env : Env := { day := 0, user := user, time := Bytes.ofString "2006-01-02T15:04:05Z" }
  let files := ((l.getD "files").splitOn ";").filterMap parseBig
  if l.getD "accepted" != "1" then
    -- the server may refuse a file (e.g. for its size); then nothing of the upload may be left
    IO.println s!"spec {l.id} ok=0 left=0"
    return
  let idx := List.range files.length
  let per := files.map fun f => toString f.lines
  let lens := files.map fun f => toString f.len
  let sums := files.map fun f => toString (f.sum % 4294967296)
  let hdrs := (files.zip idx).map fun (f, i) => (Spec.UploadAtomic.header env i f.fname).toHex
  let total := (files.map (·.lines)).sum
  IO.println s!"spec {l.id} ok=1 nrec={total} perfile={",".intercalate per} last=1 listed=1 nfiles={files.length} lens={",".intercalate lens} sums={",".intercalate sums} hdrs={",".intercalate hdrs}"

def handle (l : Line) : IO Unit := do
  if l.kind != "case" then return
  match l.getD "kind" with
  | "up" => handleUp l
  | "ids" => handleIds l
  | "big" => handleBig l
  | "longline" =>
    -- an upload with a line of about 64 KiB between two ordinary uploads: refused and nothing left, or
    -- accepted and every query returns everything, of it and of its neighbours, without an error
    let a := (l.nat? "a").getD 0
    let c := (l.nat? "c").getD 0
    let acc := l.getD "accepted" == "1"
    let n := if acc then (l.nat? "l").getD 0 else 0
    IO.println s!"spec {l.id} ok={if acc then 1 else 0} errs=0 upA={a} upL={n} upC={c} by={a},{n},{c} all={a},{n},{c} lab={n} listed={if acc then 3 else 2} filesL={if acc then 2 else 0}"
  | "httpconc" =>
    -- concurrent requests to one server: each is all-or-nothing, successful ones have distinct ids
    IO.println s!"spec {l.id} okall=1 failclean=1 distinct=1 files=1 abortsfail=1"
  | "conc" =>
    -- concurrent creation: what `ids_unique_all_interleavings` promises for every schedule
    IO.println s!"spec {l.id} distinct=1 fmt=1 mono=1 rows=1 atomic=1"
  | _ => pure ()

end Driver.C20

def main : IO Unit := do
  let stdin ← IO.getStdin
  Proto.forEachLine stdin fun s => Driver.C20.handle (Proto.parseLine s)
