import Model.Base.Proto
import Model.Stats.UDist
import Model.Stats.UStat
import Model.Spec.UExact
import Std.Data.HashMap

/-!
Driver for C11. Reads the harness stream; for every `case` line it waits for the `info` line of
the same id (raw float bits of the implementation's results) and prints

* `obs`  — the MODEL's observables (Model/Stats/UStat, UDist), p-values as 12-decimal strings;
* `spec` — what the SPECIFICATION demands (Model/Spec/UExact: pair counting, enumeration of
           assignments / counting per tie group, textbook normal approximation).

Tolerance policy for p-values (documented in notes/C11.md): model and spec values are exact
rationals. If the implementation's float (taken from the `info` line) is within `tol` of the exact
value the driver prints the implementation's own 12-decimal rendering (computed here from the bits
by exact half-even rounding — so the Go formatting is re-derived, not copied); otherwise it prints
the 12-decimal rounding of the exact value and the lines differ. tol = 1e-12 (absolute).
On the normal-approximation branch Φ is evaluated here in 60-digit fixed point from the model's
exact (U, μ, σ², continuity correction); where Go evaluates the lower tail directly the
tolerance is additionally relative (1e-9·p). Beyond |z| = 13 the reference is the limit value
(0 or 1), compared absolutely.
-/

namespace Driver.C11
open Proto Stats

/-! ### floats and decimal rendering -/

def hexVal (c : Char) : Option Nat :=
  if '0' ≤ c ∧ c ≤ '9' then some (c.toNat - '0'.toNat)
  else if 'a' ≤ c ∧ c ≤ 'f' then some (c.toNat - 'a'.toNat + 10)
  else none

def hexNat (s : String) : Option Nat :=
  s.toList.foldlM (fun acc c => (hexVal c).map (acc * 16 + ·)) 0

inductive FV | nan | inf (neg : Bool) | fin (q : Rat)

def bitsToFV (s : String) : Option FV := do
  let b ← hexNat s
  if s.length ≠ 16 then none
  let neg := b / 2 ^ 63 = 1
  let e := (b / 2 ^ 52) % 2048
  let m := b % 2 ^ 52
  if e = 2047 then
    if m = 0 then some (.inf neg) else some .nan
  else
    let mag : Rat :=
      if e = 0 then ((m : Nat) : Rat) / ((2 ^ 1074 : Nat) : Rat)
      else if e ≥ 1075 then (((2 ^ 52 + m) * 2 ^ (e - 1075) : Nat) : Rat)
      else (((2 ^ 52 + m : Nat)) : Rat) / ((2 ^ (1075 - e) : Nat) : Rat)
    some (.fin (if neg then -mag else mag))

def pad12 (n : Nat) : String :=
  let s := toString n
  String.ofList (List.replicate (12 - s.length) '0') ++ s

/-- strconv.FormatFloat(x, 'f', 12, 64) for the exact value q: round half to even at 12 decimals -/
def fmt12 (q : Rat) (negZero : Bool := false) : String :=
  let neg := q < 0 || negZero
  let a : Rat := if q < 0 then -q else q
  let scaled : Rat := a * ((10 ^ 12 : Nat) : Rat)
  let f : Nat := scaled.floor.toNat
  let r : Rat := scaled - ((f : Nat) : Rat)
  let half : Rat := (1 : Rat) / 2
  let f := if r > half then f + 1 else if r == half then (if f % 2 = 1 then f + 1 else f) else f
  (if neg then "-" else "") ++ toString (f / 10 ^ 12) ++ "." ++ pad12 (f % 10 ^ 12)

def fmtFV : FV → String
  | .nan => "NaN"
  | .inf true => "-Inf"
  | .inf false => "+Inf"
  | .fin q => fmt12 q

def ratAbs (q : Rat) : Rat := if q < 0 then -q else q

def tolAbs : Rat := (1 : Rat) / ((10 ^ 12 : Nat) : Rat)

/-- the 12-decimal string both sides print for a p-value whose exact value is `exact` and whose
    implementation bits are `bits` -/
def snap (bits : String) (exact : Rat) (tol : Rat := tolAbs) : String :=
  match bitsToFV bits with
  | some (.fin g) =>
      -- Go prints "-0.000…" for a negative zero / tiny negative value
      if ratAbs (g - exact) ≤ tol then fmt12 g (negZero := g == 0 && bits.startsWith "8") else fmt12 exact
  | _ => fmt12 exact

/-! ### Φ in fixed point (support level: not part of the proof model) -/

def S : Int := 10 ^ 60

def fmul (a b : Int) : Int := a * b / S
def fdiv (a b : Int) : Int := a * S / b

/-- e^x for fixed-point x ≥ 0 -/
def fexp (x : Int) : Int := Id.run do
  let mut term := S
  let mut sum := S
  for k in [1:2000] do
    term := fmul term x / k
    if term == 0 then break
    sum := sum + term
  return sum

/-- atan(1/n) in fixed point -/
def fatanInv (n : Int) : Int := Id.run do
  let mut term := S / n
  let mut sum := term
  let n2 := n * n
  for k in [1:400] do
    term := term / n2
    if term == 0 then break
    let t := term / (2 * k + 1)
    sum := if k % 2 == 1 then sum - t else sum + t
  return sum

def fpi : Int := 16 * fatanInv 5 - 4 * fatanInv 239

def fsqrt (x : Int) : Int := ((x * S).toNat.sqrt : Nat)

/-- upper tail Q(z) = 1 − Φ(z) for fixed-point z ≥ 0 -/
def fQ (z : Int) : Int := Id.run do
  let z2 := fmul z z
  let phi := fdiv (fdiv S (fexp (z2 / 2))) (fsqrt (2 * fpi))
  let mut term := z
  let mut sum := z
  for k in [0:5000] do
    term := fmul term z2 / (2 * k + 3)
    if term == 0 then break
    sum := sum + term
  return S / 2 - fmul phi sum

/-- Φ(z) as a rational, z = zNum/zDen·(1/√s2) given as (twoNumer, s2): z = (twoNumer/2)/√s2 -/
def zFixed (twoNumer : Int) (s2 : Rat) : Int :=
  let s2F : Int := (s2 * ((S.toNat : Nat) : Rat)).floor          -- s2·S
  let sd := fsqrt s2F                                            -- √s2·S
  twoNumer * S * S / (2 * sd)

def phiFixed (z : Int) : Int := if z ≥ 0 then S - fQ z else fQ (-z)

def toRat (x : Int) : Rat := (x : Rat) / ((S.toNat : Nat) : Rat)

/-- p-value of the normal branch for z (fixed point) and the tolerance to use -/
def normalP (alt : UStat.Alt) (z : Int) : Rat × Rat :=
  -- beyond |z| = 13 the fixed-point series is not trustworthy (bounded loops, e^(−z²/2) below the
  -- resolution): the reference is the limit value (Φ = 0 or 1, both within 1e-38 of the truth),
  -- compared absolutely at the approximate branch's tolerance
  let far := decide (z > 13 * S) || decide (z < -(13 * S))
  let lower : Rat := if far then (if z > 0 then 1 else 0) else toRat (phiFixed z)         -- Φ(z)
  let upper : Rat := if far then (if z > 0 then 0 else 1) else toRat (phiFixed (-z))      -- 1 − Φ(z)
  let rel (p : Rat) : Rat :=
    if far then tolAbs else
    let t := p / ((10 ^ 9 : Nat) : Rat)
    if t < tolAbs then (if t < (1 : Rat) / ((10 ^ 300 : Nat) : Rat) then (1 : Rat) / ((10 ^ 300 : Nat) : Rat) else t) else tolAbs
  match alt with
  | .less => (lower, if z < 0 then rel lower else tolAbs)
  | .greater => (upper, tolAbs)
  | .differs =>
      let m := if lower ≤ upper then lower else upper
      (2 * m, if z < 0 then rel (2 * m) else tolAbs)

/-! ### parsing -/

def parseInt (s : String) : Option Int :=
  if s.startsWith "-" then (s.drop 1).toString.toNat?.map fun n => -(n : Int)
  else s.toNat?.map fun n => (n : Int)

def parseInts (s : String) : List Int :=
  if s == "-" || s == "" || s == "nil" then [] else (s.splitOn ",").filterMap parseInt

/-- order-preserving integer key of a finite float64 bit pattern: sign-magnitude to two's-complement
    style (−0 and +0 both map to 0, so they tie exactly as `==` says; distinct bit patterns of non-zero
    floats map to distinct keys in numeric order) -/
def floatKey (bits : String) : Option Int :=
  (hexNat bits).map fun b =>
    let mag : Int := ((b % 2 ^ 63 : Nat) : Int)
    if b ≥ 2 ^ 63 then -mag else mag

/-- sample values of a case line: small integers (`x1=3,-1`) or float bit patterns (`enc=bits`) -/
def parseSample (c : Line) (k : String) : List Int :=
  let s := c.getD k "-"
  if c.getD "enc" == "bits" then
    if s == "-" || s == "" then [] else (s.splitOn ",").filterMap floatKey
  else parseInts s

def parseAlt (s : String) : UStat.Alt :=
  if s == "less" then .less else if s == "greater" then .greater else .differs

def insertInt (a : Int) : List Int → List Int
  | [] => [a]
  | b :: l => if a ≤ b then a :: b :: l else b :: insertInt a l

/-- spec-level tie vector: multiplicities of the distinct pooled values in increasing order -/
def specTieVector (pool : List Int) : List Nat :=
  Spec.UExact.tieVectorOf (pool.eraseDups.foldr insertInt []) pool

/-! ### Mann–Whitney cases -/

def enumLimit : Nat := 4000

structure SpecDist where
  total : Nat
  less : Nat → Rat
  greater : Nat → Rat
  two : Nat → Rat
  pmf : Nat → Rat
  consistent : Bool

/-- the null distribution by enumeration when small (cross-checked against the per-group count),
    by per-group counting otherwise -/
def specDist (pool : List Int) (n1 : Nat) : SpecDist :=
  let N := pool.length
  let T := specTieVector pool
  let g := Spec.UExact.groupDist T n1
  let gd : SpecDist :=
    { total := Spec.UExact.gTotal g, less := Spec.UExact.gLess g, greater := Spec.UExact.gGreater g,
      two := Spec.UExact.gTwoSided g
      pmf := fun u => ((((g.filter (·.1 = u)).map (·.2)).sum : Nat) : Rat) / ((Spec.UExact.gTotal g : Nat) : Rat)
      consistent := true }
  if Spec.UExact.choose N n1 ≤ enumLimit then
    let d := Spec.UExact.nullDistOf n1 pool
    { total := d.length, less := Spec.UExact.pLess d, greater := Spec.UExact.pGreater d,
      two := Spec.UExact.pTwoSided d
      pmf := fun u => (((d.filter (· = u)).length : Nat) : Rat) / ((d.length : Nat) : Rat)
      consistent := Spec.UExact.histogram d == g }
  else gd

def showErr : UStat.Err → String
  | .sampleSize => "!size"
  | .samplesEqual => "!equal"

def handleMW (c info : Line) : IO Unit := do
  let x1 := parseSample c "x1"
  let x2 := parseSample c "x2"
  let alt := parseAlt (c.getD "alt")
  let lims := parseInts (c.getD "lim" "50,25")
  let lim := (lims.getD 0 50).toNat
  let limT := (lims.getD 1 25).toNat
  let n1 := x1.length
  let n2 := x2.length
  let pbits := info.getD "p" "-"
  let lbits := info.getD "legacy" "-"
  -- model
  let out := UStat.mannWhitney UDist.cdf lim limT x1 x2 alt
  let (modelLine, modelP) : String × Option Rat := match out with
    | .error e => (s!"res={showErr e}", none)
    | .exact tu p => (s!"res=ok n={n1},{n2} twoU={tu} p={snap pbits p}", some p)
    | .normal tu tn s2 =>
        let (p, tol) := normalP alt (zFixed tn s2)
        (s!"res=ok n={n1},{n2} twoU={tu} p={snap pbits p tol}", some p)
  let legacyOf (p? : Option Rat) (err : String) (tol : Rat) : String :=
    if alt != .differs then "" else
    match p? with
    | some p => s!" legacy={snap lbits p tol}"
    | none => s!" legacy={err}:-1.000000000000"
  let modelLegacy := match out with
    | .error e => legacyOf none (showErr e) tolAbs
    | .exact _ p => legacyOf (some p) "" tolAbs
    | .normal _ tn s2 => let (p, tol) := normalP alt (zFixed tn s2); legacyOf (some p) "" tol
  -- `in=kept`: the call copies its arguments before sorting (utest.go:132-133); model and spec are
  -- functions of the samples, so nothing else is admissible
  IO.println s!"obs {c.id} in=kept {modelLine}{modelLegacy}"
  -- specification
  if n1 = 0 ∨ n2 = 0 then
    IO.println s!"spec {c.id} in=kept res=!size{legacyOf none "!size" tolAbs}"
  else if Spec.UExact.allEqual x1 x2 then
    IO.println s!"spec {c.id} in=kept res=!equal{legacyOf none "!equal" tolAbs}"
  else
    let tu := Spec.UExact.twoUPairs x1 x2
    let ties := Spec.UExact.hasTies x1 x2
    let exact := (!ties && n1 ≤ lim && n2 ≤ lim) || (ties && n1 ≤ limT && n2 ≤ limT)
    if exact then
      let d := specDist (x1 ++ x2) n1
      let p := match alt with
        | .less => d.less tu
        | .greater => d.greater tu
        | .differs => d.two tu
      let kf := if alt == .differs && ties && modelP != some p then " kf=N5" else ""
      let chk := if d.consistent then "" else " SPEC-INCONSISTENT(enumeration≠group-count)"
      IO.println s!"spec {c.id} in=kept res=ok n={n1},{n2} twoU={tu} p={snap pbits p}{legacyOf (some p) "" tolAbs}{chk}{kf}"
    else
      let s2 := Spec.UExact.sigma2 n1 n2 (Spec.UExact.tieTerm x1 x2)
      let tn := match alt with
        | .less => Spec.UExact.twoNumerLess tu n1 n2
        | .greater => Spec.UExact.twoNumerGreater tu n1 n2
        | .differs => Spec.UExact.twoNumerTwoSided tu n1 n2
      let (p, tol) := normalP alt (zFixed tn s2)
      IO.println s!"spec {c.id} in=kept res=ok n={n1},{n2} twoU={tu} p={snap pbits p tol}{legacyOf (some p) "" tol}"

/-! ### benchmath.AssumeNothing.Compare, both orders -/

def handleBM (c info : Line) : IO Unit := do
  let x1 := parseSample c "x1"
  let x2 := parseSample c "x2"
  let lims := parseInts (c.getD "lim" "50,25")
  let lim := (lims.getD 0 50).toNat
  let limT := (lims.getD 1 25).toNat
  let pb := info.getD "p" "-"
  let sb := info.getD "pswap" "-"
  let tag (e : UStat.Err) := showErr e
  -- model of anone.go
  let m12 := UStat.compareAssumeNothing UDist.cdf lim limT x1 x2
  let m21 := UStat.compareAssumeNothing UDist.cdf lim limT x2 x1
  let mline := match m12, m21 with
    | .ok p, .ok q => s!"res=ok n={x1.length},{x2.length} p={snap pb p} pswap={snap sb q}"
    | .error e, .error _ => s!"res={tag e} n={x1.length},{x2.length} p={snap pb 1} pswap={snap sb 1}"
    | _, _ => "res=MODEL-ASYMMETRIC"
  IO.println s!"obs {c.id} {mline}"
  -- specification: exact permutation two-sided p (twice the smaller one-sided value, capped), each order
  -- from its own enumeration; all-equal / empty: no number (reported as P = 1 with the error as warning)
  if x1.isEmpty || x2.isEmpty then
    IO.println s!"spec {c.id} res=!size n={x1.length},{x2.length} p={snap pb 1} pswap={snap sb 1}"
  else if Spec.UExact.allEqual x1 x2 then
    IO.println s!"spec {c.id} res=!equal n={x1.length},{x2.length} p={snap pb 1} pswap={snap sb 1}"
  else
    let d12 := specDist (x1 ++ x2) x1.length
    let d21 := specDist (x2 ++ x1) x2.length
    let p := d12.two (Spec.UExact.twoUPairs x1 x2)
    let q := d21.two (Spec.UExact.twoUPairs x2 x1)
    let chk := if d12.consistent && d21.consistent then "" else " SPEC-INCONSISTENT(enumeration≠group-count)"
    let sw := if p == q then "" else " SPEC-NOT-SWAP-SYMMETRIC"
    IO.println s!"spec {c.id} res=ok n={x1.length},{x2.length} p={snap pb p} pswap={snap sb q}{chk}{sw}"

/-! ### distribution cases -/

def snapList (bits : List String) (vals : List Rat) : String :=
  ",".intercalate ((List.zip (bits ++ List.replicate (vals.length - bits.length) "-") vals).map fun bv => snap bv.1 bv.2)

def handleDist (c info : Line) : IO Unit := do
  let n1 := (c.nat? "n1").getD 0
  let n2 := (c.nat? "n2").getD 0
  let T := (parseInts (c.getD "t" "nil")).map Int.toNat
  let grid := (c.getD "grid" "0:0:1").splitOn ":"
  let lo := (parseInt (grid.getD 0 "0")).getD 0
  let hi := (parseInt (grid.getD 1 "0")).getD 0
  let step := ((parseInt (grid.getD 2 "1")).getD 1).toNat
  let pts : List Int := (List.range (((hi - lo) / (step : Int)).toNat + 1)).map fun i => lo + (i * step : Nat)
  let pb := (info.getD "pmf" "").splitOn ","
  let cb := (info.getD "cdf" "").splitOn ","
  let sb := info.getD "sum" "-"
  -- model
  let mp := pts.map (UDist.pmf n1 n2 T)
  let mc := pts.map (UDist.cdf n1 n2 T)
  let msum := mp.foldl (· + ·) 0
  -- the memo-table form against the pure recurrence, the count table against pRec (small cases)
  let small := (T.foldl (fun acc t => acc * (t + 1)) 1) ≤ 20000 && (UDist.hasTies T || n1 + n2 ≤ 9)
  let pureOk := !small || (pts.all fun u => UDist.pmfPure n1 n2 T u == UDist.pmf n1 n2 T u
                                              && UDist.cdfPure n1 n2 T u == UDist.cdf n1 n2 T u)
  let recOk := UDist.hasTies T || n1 + n2 > 12 ||
    (UDist.pUntiedRec n1 n2 == UDist.pUntied n1 n2)
  let chk := (if pureOk then "" else " MODEL-INCONSISTENT(memo≠pure)") ++ (if recOk then "" else " MODEL-INCONSISTENT(counts≠pRec)")
  IO.println s!"obs {c.id} pmf={snapList pb mp} cdf={snapList cb mc} sum={snap sb msum}{chk}"
  -- specification: assignments of the pooled sample (value k repeated T[k] times; no T = all distinct)
  let Tspec := if T.isEmpty then List.replicate (n1 + n2) 1 else T
  let pool : List Int := ((List.range Tspec.length).map fun k => List.replicate (Tspec.getD k 0) (k : Int)).flatten
  let d := specDist pool n1
  let sp := pts.map fun u => if u < 0 then 0 else d.pmf u.toNat
  let sc := pts.map fun u => if u < 0 then 0 else d.less u.toNat
  let chk := if d.consistent then "" else " SPEC-INCONSISTENT(enumeration≠group-count)"
  -- "sums to 1": the grid covers the whole support; "accumulates": cdf = prefix sums by definition of d.less
  IO.println s!"spec {c.id} pmf={snapList pb sp} cdf={snapList cb sc} sum={snap sb 1}{chk}"

def handle (pending : IO.Ref (Option Line)) (l : Line) : IO Unit := do
  if l.kind == "case" then
    pending.set (some l)
  else if l.kind == "info" then
    match ← pending.get with
    | some c =>
        if c.id == l.id then
          pending.set none
          if c.getD "kind" == "dist" then handleDist c l
          else if c.getD "kind" == "bm" then handleBM c l
          else if c.getD "kind" == "conc" then
            -- model and specification are functions of their arguments: a call made next to other
            -- calls returns what it returns alone
            IO.println s!"obs {c.id} conc=0"
            IO.println s!"spec {c.id} conc=0"
          else if c.getD "kind" == "limits" then
            -- the model is parametric in the limits (echo); the specification records the documented defaults
            IO.println s!"obs {c.id} lim={c.getD "lim"}"
            IO.println s!"spec {c.id} lim={Spec.UExact.documentedExactLimit},{Spec.UExact.documentedTiesExactLimit}"
          else handleMW c l
    | none => pure ()

end Driver.C11

def main : IO Unit := do
  let stdin ← IO.getStdin
  let pending ← IO.mkRef (none : Option Proto.Line)
  Proto.forEachLine stdin fun s => Driver.C11.handle pending (Proto.parseLine s)
