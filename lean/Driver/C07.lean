import Model.Base.Proto
import Model.Proc.Tok
import Model.Proc.ParseFilter
import Model.Proc.ParseProj
import Model.Spec.Expr

namespace Driver.C07
open Proto Proc.Tok

/- case <id> kind=expr text=<hex> reok=<hexlist> rebad=<hexlist> sp=<hex runes>
     obs  <id> pf=… nf=… pp=… np=…           (model)
     spec <id> n=… f=… p=…                    (judgement of the implementation's sobs line)
   case <id> kind=quote s=<hex> other=<hex> pr=<hex runes>
     obs  <id> gq=<hex> uq=ok:<hex>|err
     spec <id> val=ok:10 full=ok:10 key=… pk=… fx=ok:10
   case <id> kind=bare w=<hex> sp=…
     spec <id> val=… key=… pk=…
   case <id> kind=unq text=<hex>
     obs  <id> uq=… -/

def hexNat (s : String) : Option Nat :=
  s.toList.foldlM (fun acc c => (Bytes.hexVal c).map (acc * 16 + ·)) 0

def runeList (s : String) : List Nat :=
  if s == "-" || s == "" then [] else (s.splitOn ",").filterMap hexNat

def mkCtx (l : Line) (text : Bytes) : Ctx :=
  let reok := (l.hexList? "reok").getD []
  let sp := runeList (l.getD "sp" "-")
  { n := text.length, compileOK := fun e => reok.contains e, isSpaceHi := fun r => sp.contains r }

def showErr (e : Err) : String := s!"err:{e.off}:{e.msg.name}"

open Proc.ParseFilter in
partial def dumpFilter : Filter → String
  | .nil => "nil"
  | .op o es =>
    let h := match o with | .and => "A(" | .or => "O(" | .not => "N("
    h ++ ",".intercalate (es.map dumpFilter) ++ ")"
  | .lit k v off => s!"L{k.toHex}:{v.toHex}@{off}"
  | .re k v off => s!"R{k.toHex}:{v.toHex}@{off}"

def dumpFields (fs : List Proc.ParseProj.Field) : String :=
  if fs.isEmpty then "-" else
  ";".intercalate (fs.map fun f =>
    let fx := if f.fixed.isEmpty then "-" else "+".intercalate (f.fixed.map Bytes.toHex)
    s!"K{f.key.toHex}/O{f.order.toHex}/F{fx}/{f.keyOff}/{f.orderOff}")

/-- one field of the implementation's sobs line judged against the property:
echo it when acceptable, otherwise print what is demanded -/
def judge (n : Nat) (must : Option String) (v : String) (mustAccept : Bool := false) : String :=
  if v == "ok" then
    match must with
    | some cls => s!"REJECT({cls})"
    | none => v
  else if mustAccept then "ACCEPT(simple)"
  else
    match (v.splitOn ":") with
    | ["err", off] =>
      match off.toInt? with
      | some o => if 0 ≤ o ∧ o ≤ (n : Int) then v else s!"err:0..{n}"
      | none => s!"err:0..{n}"
    | _ => s!"err:0..{n}"

def handleCase (l : Line) : IO Unit := do
  let kind := l.getD "kind"
  if kind == "expr" then
    let text := (l.bytes? "text").getD []
    let cx := mkCtx l text
    let pf := match Proc.ParseFilter.parseFilter cx text with
      | .ok f => "ok:" ++ dumpFilter f
      | .error e => showErr e
    let nf := match Proc.ParseFilter.newFilter cx text with
      | .ok _ => "ok"
      | .error e => showErr e
    let pp := match Proc.ParseProj.parseProjection cx text with
      | .ok fs => "ok:" ++ dumpFields fs
      | .error e => showErr e
    let np := match Proc.ParseProj.parse cx text with
      | .ok _ => "ok"
      | .error e => showErr e
    IO.println s!"obs {l.id} pf={pf} nf={nf} pp={pp} np={np}"
  else if kind == "quote" then
    let s := (l.bytes? "s").getD []
    let pr := runeList (l.getD "pr" "-")
    let q := goQuote (fun r => pr.contains r) s
    let uq := match unquote q with
      | some u => "ok:" ++ u.toHex
      | none => "err"
    IO.println s!"obs {l.id} gq={q.toHex} uq={uq}"
  else if kind == "unq" then
    let text := (l.bytes? "text").getD []
    let uq := match unquote text with
      | some u => "ok:" ++ u.toHex
      | none => "err"
    IO.println s!"obs {l.id} uq={uq}"

def handleSobs (c : Line) (l : Line) : IO Unit := do
  let kind := c.getD "kind"
  if kind == "expr" then
    let text := (c.bytes? "text").getD []
    let n := text.length
    let f := judge n (Spec.Expr.mustRejectFilter text) (l.getD "f")
    let p := judge n (Spec.Expr.mustRejectProj text) (l.getD "p") (Spec.Expr.mustAcceptProj text)
    -- a rejected field of a simple projection must be reported at that field
    let p := match Spec.Expr.firstBadSpan text, ((l.getD "p").splitOn ":") with
      | some (s, e), ["err", off] =>
        (match off.toNat? with
         | some o => if s ≤ o ∧ o ≤ e then p else s!"err:{s}..{e}"
         | none => s!"err:{s}..{e}")
      | _, _ => p
    IO.println s!"spec {l.id} n={n} f={f} p={p}"
  else if kind == "quote" then
    let s := (c.bytes? "s").getD []
    let (key, pk) := if Spec.Expr.usableKey s then ("ok:100", s!"ok:{s.toHex}:76") else ("skip", "skip")
    IO.println s!"spec {l.id} val=ok:10 full=ok:10 key={key} pk={pk} fx=ok:10"
  else if kind == "denote" then
    -- terms=<n|-><L|Q|R><hexword>,…  probes=<hexlist>  rm=<bits per probe>,… (regexp oracle per term)
    let conn := if c.getD "conn" == "and" then 1 else 0
    let probes := (c.hexList? "probes").getD []
    let tstrs := (c.getD "terms").splitOn ","
    let rms := (c.getD "rm").splitOn ","
    let terms : List (Spec.Expr.DTerm × List Bool) := (tstrs.zip rms).filterMap fun (ts, rm) =>
      match ts.toList with
      | ng :: fm :: hexw =>
        (Bytes.ofHexChars hexw).map fun w =>
          (({ neg := ng == 'n', form := UInt8.ofNat fm.toNat, word := w } : Spec.Expr.DTerm), rm.toList.map (· == '1'))
      | _ => none
    let bits := (List.range probes.length).map fun i =>
      let probe := probes.getD i []
      let ts := terms.map fun (t, rm) => (t, rm.getD i false)
      if Spec.Expr.denote conn ts probe then '1' else '0'
    IO.println s!"spec {l.id} den=ok:{String.ofList bits}"
  else if kind == "crlf" then
    -- trailing CR/LF changes nothing: ok stays ok; an error before the end of the base text stays
    -- where it is; an error at the end of the base text stays at the (new) end
    let n := (l.nat? "n").getD 0
    let k := (l.nat? "k").getD 0
    let want := fun (b e : String) =>
      if b == "ok" then (if e == "ok" then e else "ok")
      else match b.splitOn ":" with
        | ["err", off] =>
          (match off.toNat? with
           | some o =>
             if o < n then (if e == b then e else b)
             else (match e.splitOn ":" with
               | ["err", eo] => (match eo.toNat? with
                  | some x => if n ≤ x ∧ x ≤ n + k then e else s!"err:{n}..{n + k}"
                  | none => s!"err:{n}..{n + k}")
               | _ => s!"err:{n}..{n + k}")
           | none => e)   -- base offset itself out of range: judged by the expr case
        | _ => e
    IO.println s!"spec {l.id} n={n} k={k} bf={l.getD "bf"} ef={want (l.getD "bf") (l.getD "ef")} bp={l.getD "bp"} ep={want (l.getD "bp") (l.getD "ep")}"
  else if kind == "cfgterm" then
    -- a .config / empty-key term anywhere in the tree: NewFilter rejects at the first such term
    IO.println s!"spec {l.id} f=err:{c.getD "badoff"}"
  else if kind == "session" then
    -- every call on the shared parser must come out like the same call on a fresh parser
    IO.println s!"spec {l.id} shared={l.getD "fresh"} fresh={l.getD "fresh"}"
  else if kind == "fields" then
    -- fields=K<hexkey>:N | K<hexkey>:O<hexorder> | K<hexkey>:F<n>, …   (structure of the projection)
    let n := (c.nat? "n").getD ((c.bytes? "text").getD []).length
    let items := (c.getD "fields").splitOn ","
    let badOrder := items.any fun it =>
      match it.splitOn ":" with
      | [_, o] =>
        (match o.toList with
         | 'O' :: hex => (match Bytes.ofHexChars hex with
            | some name => !Spec.Expr.acceptableOrder name
            | none => false)
         | _ => false)
      | _ => false
    let v := l.getD "p"
    let res :=
      if badOrder then
        (if v == "ok" then "REJECT(order)" else judge ((c.bytes? "text").getD []).length none v)
      else (if v == "ok" then v else "ACCEPT(fields)")
    let _ := n
    IO.println s!"spec {l.id} n={l.getD "n"} p={res}"
  else if kind == "sep" then
    -- two bare words separated by white space (ASCII or Unicode): two terms / fields / list members
    let w1 := (c.bytes? "w1").getD []
    let w2 := (c.bytes? "w2").getD []
    let hasSpace := (c.getD "usp" "-") != "-" || w1.any Spec.Expr.asciiSpace || w2.any Spec.Expr.asciiSpace
    let safe := Spec.Expr.bareSafeProj hasSpace w1 && Spec.Expr.bareSafeProj hasSpace w2 &&
      Spec.Expr.bareSafe hasSpace w1 && Spec.Expr.bareSafe hasSpace w2 &&
      Spec.Expr.usableKey w1 && Spec.Expr.usableKey w2 && w1 != w2
    if safe then
      IO.println s!"spec {l.id} f=ok:10 p=ok:{w1.toHex},{w2.toHex} fx=ok:110"
    else
      IO.println s!"spec {l.id} f={l.getD "f"} p={l.getD "p"} fx={l.getD "fx"}"
  else if kind == "fixed" then
    -- key@(v1 v2 …) with bare words: must parse, keep exactly the listed values, project the value
    let key := (c.bytes? "key").getD []
    let vals := (c.hexList? "vals").getD []
    let other := (c.bytes? "other").getD []
    let hasSpace := (c.getD "usp" "-") != "-" || key.any Spec.Expr.asciiSpace || vals.any (·.any Spec.Expr.asciiSpace)
    let safe := Spec.Expr.bareSafeProj hasSpace key && Spec.Expr.usableKey key && !vals.isEmpty &&
      vals.all (Spec.Expr.bareSafeProj hasSpace) && !vals.contains other
    if safe then
      let ones := String.ofList (vals.map fun _ => '1')
      IO.println s!"spec {l.id} fx=ok:{ones}:0:{(vals.headD []).toHex}"
    else
      IO.println s!"spec {l.id} fx={l.getD "fx"}"
  else if kind == "bare" then
    let w := (c.bytes? "w").getD []
    let hasSpace := w.any Spec.Expr.asciiSpace || (c.getD "usp" "-") != "-"
    if Spec.Expr.bareSafe hasSpace w then
      let (key, pk) := if Spec.Expr.usableKey w then ("ok:10", s!"ok:{w.toHex}:76") else ("skip", "skip")
      IO.println s!"spec {l.id} val=ok:10 key={key} pk={pk}"
    else
      IO.println s!"spec {l.id} val={l.getD "val"} key={l.getD "key"} pk={l.getD "pk"}"

end Driver.C07

def main : IO Unit := do
  let stdin ← IO.getStdin
  let cur ← IO.mkRef (Proto.parseLine "")
  Proto.forEachLine stdin fun s => do
    let l := Proto.parseLine s
    if l.kind == "case" then
      cur.set l
      Driver.C07.handleCase l
    else if l.kind == "sobs" then
      let c ← cur.get
      if c.id == l.id then Driver.C07.handleSobs c l
