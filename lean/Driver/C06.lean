import Model.Base.Proto
import Model.Proc.FilterEval
import Model.Spec.FilterSem
import Model.Proc.FilterText
import Model.Proc.FilterHeap
import Model.Spec.LitRegexp

namespace Driver.C06
open Proto Proc.FilterEval

/- Line protocol (see harness/c06/main.go)
   case <id> kind=f|p expr=<hex> tree=<prefix tree | !> re=<id:valhex:0|1,… | -> name=<hex>
        cfg=<k:v,…|-> units=<hexlist> vals=<u[.o],…|-> [projs=<proj;proj…>] tag=…
   tree:  A<k>.<t1>.….<tk> | O<k>.… | N.<t> | L.<keyhex>.<lithex>.<off> | R.<keyhex>.<id>.<off>
   proj:  field+field…   field: <keyhex> | <keyhex>@<hex>/<hex>… | <keyhex>@-
   obs  <id> new=… perr=… pv=… n=… test=… oob=… all=… any=… apply=… flag=… omiss=… glue=ok
   spec <id> test=… apply=… flag=…
-/

def parseCfg (s : String) : List (Bytes × Bytes) :=
  if s == "-" then [] else
  (s.splitOn ",").filterMap fun kv =>
    match kv.splitOn ":" with
    | [k, v] => match Bytes.ofHex k, Bytes.ofHex v with
      | some k, some v => some (k, v)
      | _, _ => none
    | _ => none

def parseVals (units : List Bytes) (s : String) : List Value :=
  if s == "-" then [] else
  let items := s.splitOn ","
  (items.zipIdx).map fun (it, i) =>
    match it.splitOn "." with
    | [u] => { unit := units.getD (u.toNat?.getD 0) [], origUnit := [], payload := i }
    | [u, o] => { unit := units.getD (u.toNat?.getD 0) [], origUnit := units.getD (o.toNat?.getD 0) [], payload := i }
    | _ => { unit := [], origUnit := [], payload := i }

/-- prefix-notation tree; returns the tree and the unread tokens -/
partial def parseTree : List String → Option (Filter × List String)
  | [] => none
  | t :: rest =>
    if t == "N" then
      match parseTree rest with
      | some (e, r) => some (.not e, r)
      | none => none
    else if t == "L" then
      match rest with
      | k :: v :: o :: r =>
        match Bytes.ofHex k, Bytes.ofHex v, o.toNat? with
        | some k, some v, some o => some (.mtch k o (.lit v), r)
        | _, _, _ => none
      | _ => none
    else if t == "R" then
      match rest with
      | k :: i :: o :: r =>
        match Bytes.ofHex k, i.toNat?, o.toNat? with
        | some k, some i, some o => some (.mtch k o (.re i), r)
        | _, _, _ => none
      | _ => none
    else if t.startsWith "A" || t.startsWith "O" then
      match (t.drop 1).toString.toNat? with
      | none => none
      | some k =>
        let rec many (k : Nat) (toks : List String) (acc : List Filter) : Option (List Filter × List String) :=
          match k with
          | 0 => some (acc.reverse, toks)
          | k + 1 =>
            match parseTree toks with
            | some (e, r) => many k r (e :: acc)
            | none => none
        match many k rest [] with
        | some (es, r) => some (if t.startsWith "A" then .and es else .or es, r)
        | none => none
    else none

def parseOracle (s : String) : List (Nat × Bytes × Bool) :=
  if s == "-" then [] else
  (s.splitOn ",").filterMap fun e =>
    match e.splitOn ":" with
    | [i, v, a] => match i.toNat?, Bytes.ofHex v with
      | some i, some v => some (i, v, a == "1")
      | _, _ => none
    | _ => none

def parseField (s : String) : Option ProjField :=
  match s.splitOn "@" with
  | [k] => (Bytes.ofHex k).map fun k => { key := k, fixed := none }
  | [k, l] =>
    match Bytes.ofHex k with
    | none => none
    | some k =>
      if l == "!" then some { key := k, fixed := none, badOrder := true }
      else if l == "-" then some { key := k, fixed := some [] }
      else ((l.splitOn "/").mapM Bytes.ofHex).map fun l => { key := k, fixed := some l }
  | _ => none

def parseProjs (s : String) : List (List ProjField) :=
  if s == "" || s == "-" then [] else
  (s.splitOn ";").map fun p => (p.splitOn "+").filterMap parseField

/-- every (regexp leaf, value) pair the evaluation may ask the oracle about -/
partial def queries (res : Res) : Filter → List (Nat × Bytes)
  | .and es => es.flatMap (queries res)
  | .or es => es.flatMap (queries res)
  | .not e => queries res e
  | .mtch _ _ (.lit _) => []
  | .mtch key _ (.re id) =>
    if key == Proc.Extract.dotUnit then
      res.values.flatMap fun v => (id, v.unit) :: (if v.origUnit != [] then [(id, v.origUnit)] else [])
    else if key == Proc.Extract.dotConfig || key.isEmpty then []
    else [(id, keyValue key res)]

def hexNat (s : String) : Option Nat :=
  s.toList.foldlM (fun acc c => (Bytes.hexVal c).map (acc * 16 + ·)) 0

def runeList (s : String) : List Nat :=
  if s == "-" || s == "" then [] else (s.splitOn ",").filterMap hexNat

def bits (n : Nat) (f : Nat → Bool) : String :=
  if n == 0 then "-" else String.ofList ((List.range n).map fun i => if f i then '1' else '0')

def showIdx (l : List Value) : String :=
  if l.isEmpty then "-" else ",".intercalate (l.map fun v => toString v.payload)

def b01 (b : Bool) : String := if b then "1" else "0"

def handle (l : Line) : IO Unit := do
  if l.kind != "case" then return
  let id := l.id
  let kind := l.getD "kind" "f"
  if kind == "m" then
    -- many distinct values through one long-lived filter: the harness counts the results whose
    -- Test bits differ from the expression's denotation (computed per value); the spec demands none
    IO.println s!"spec {id} many=0 first=-"
    return
  let name := (l.bytes? "name").getD []
  let cfg := parseCfg (l.getD "cfg" "-")
  let units := (l.hexList? "units").getD []
  let vals := parseVals units (l.getD "vals" "-")
  let res : Res := { name := name, config := cfg, values := vals }
  let table := parseOracle (l.getD "re" "-")
  let re : ReOracle := fun i v => table.any fun t => t.1 == i && t.2.1 == v && t.2.2
  -- text path: parser model (C07) ∘ toTree ∘ walk, from the expression text alone
  let text := (l.bytes? "expr").getD []
  let reok := (l.hexList? "reok").getD []
  let sp := runeList (l.getD "sp" "-")
  let cx : Proc.Tok.Ctx :=
    { n := text.length, compileOK := fun x => reok.contains x, isSpaceHi := fun r => sp.contains r }
  let rsrc := ((l.hexList? "rsrc").getD []).zipIdx
  let reT : ReOracle := fun i v =>
    rsrc.any fun sj => Proc.FilterText.reId sj.1 == i && table.any fun t => t.1 == sj.2 && t.2.1 == v && t.2.2
  -- S: regexp leaves of the literal sub-language (^?literal$?, \A…\z, (?:…)) are judged by the
  -- Lean matcher Spec.LitRegexp, all others by the regexp oracle; lmiss counts oracle entries that
  -- disagree with the Lean matcher (validates the matcher against Go's regexp on every run)
  let litTab : List (Nat × Bytes × Spec.LitRegexp.LitRe) :=
    rsrc.filterMap fun sj => (Spec.LitRegexp.parse sj.1).map fun r => (sj.2, sj.1, r)
  let reS : ReOracle := fun i v =>
    match litTab.find? (·.1 == i) with
    | some e => e.2.2.matches v
    | none => re i v
  let reST : ReOracle := fun i v =>
    match litTab.find? (fun e => Proc.FilterText.reId e.2.1 == i) with
    | some e => e.2.2.matches v
    | none => reT i v
  let lmiss := (table.filter fun t =>
    match litTab.find? (·.1 == t.1) with
    | some e => e.2.2.matches t.2.1 != t.2.2
    | none => false).length
  let textFn := Proc.FilterText.newFilterText cx reT text
  let tnew := match textFn with
    | .ok _ => "ok"
    | .error (.syntax e) => s!"!syntax@{e.off}"
    | .error .badTree => "!badtree"
    | .error (.compile (.config off)) => s!"!config@{off}"
    | .error (.compile (.emptyKey off)) => s!"!emptykey@{off}"
  let treeS := l.getD "tree" "!"
  if treeS == "!" then
    IO.println s!"obs {id} new=!syntax tnew={tnew}"
    return
  let some (e, []) := parseTree (treeS.splitOn ".") | IO.println s!"obs {id} new=!badtree"
  match walk re e with
  | .error (.config off) => IO.println s!"obs {id} new=!config@{off} tnew={tnew}"
  | .error (.emptyKey off) => IO.println s!"obs {id} new=!emptykey@{off} tnew={tnew}"
  | .ok user =>
    let projs := parseProjs (l.getD "projs" "-")
    -- a history of Parse calls: rejected ones are reported and leave no trace, the filter is
    -- the literal model of the calls (parseHistory); the keys excluded from .fullname are those
    -- of the accepted expressions (a rejected Parse restores the parser, commit 91c9aa7)
    let perrS := if projs.isEmpty then "none" else ",".intercalate (projs.map fun fs =>
      match checkFields fs with
      | .ok () => "none"
      | .error .unknownOrder => "unknownorder" | .error .fixedConfig => "fixedconfig"
      | .error .unitKey => "unit" | .error .emptyKey => "emptykey")
    let accepted := acceptedOf projs
    let excl := fullnameKeysOf accepted
    let f : FilterFn := parseHistory excl projs user
    let pv := (accepted.flatten.filter (·.key != Proc.Extract.dotConfig)).map fun fld => projValue excl fld.key res
    let mt := filterMatch f res
    let n := mt.n
    let ap := mt.apply res.values
    let ap2 := filterApply f res
    let need := queries res e
    let omiss := (need.filter fun q => !(table.any fun t => t.1 == q.1 && t.2.1 == q.2)).length
    let oob := String.ofList ([(-1 : Int), n, n + 1, n + 31, n + 32].map fun i => if mt.testInt i then '1' else '0')
    let tfields := match textFn with
      | .ok userT =>
        let fT : FilterFn := parseHistory excl projs userT
        let mT := filterMatch fT res
        let aT := filterApply fT res
        s!"ttest={bits n mT.test} tall={b01 mT.all} tany={b01 mT.any} tapply={showIdx aT.1.values} tflag={b01 aT.2}"
      | .error _ => "ttest=! tall=! tany=! tapply=! tflag=!"
    -- heap model (in-place masks): two Match calls on one heap, both read at the end
    let hfield :=
      if kind == "p" then "htest=na"
      else
        let r1 := Proc.FilterHeap.matchH re e res []
        let r2 := Proc.FilterHeap.matchH re e res r1.2
        let m1 := r1.1.read r2.2
        let m2 := r2.1.read r2.2
        s!"htest={bits n m1.test}/{bits n m2.test}"
    IO.println s!"obs {id} new=ok tnew={tnew} perr={perrS} pv={showHexList pv} n={n} test={bits n mt.test} oob={oob} all={b01 mt.all} any={b01 mt.any} apply={showIdx ap.1} flag={b01 ap.2} fapply={showIdx ap2.1.values} fflag={b01 ap2.2} back={showIdx (mt.applyBacking res.values)} omiss={omiss} lmiss={lmiss} glue=ok {tfields} {hfield}"
    -- S layer: the specification
    -- the meaning of the expression TEXT: the tree of the parser model when it accepts the text
    -- (so that a parser that builds another tree is judged wrong), else the tree that was sent
    let denTree : Nat → Bool := match Proc.FilterText.filterOfText cx text with
      | .ok tT => fun i => Spec.FilterSem.denote reST res i tT
      | .error _ => fun i => Spec.FilterSem.denote reS res i e
    -- S: only the fixed lists of ACCEPTED expressions restrict the filter
    let fixedOK := accepted.flatten.all fun fld => Spec.FilterSem.inFixed excl fld res
    let den : Nat → Bool := fun i => denTree i && fixedOK
    let keptS := Spec.FilterSem.keepIdx den res.values
    let flagS := if n == 0 then "n0" else b01 (!keptS.isEmpty)
    let allS := if n == 0 then "n0" else b01 ((List.range n).all den)
    let anyS := if n == 0 then "n0" else b01 ((List.range n).any den)
    IO.println s!"spec {id} pv={showHexList pv} test={bits n den} oob=00000 all={allS} any={anyS} apply={showIdx keptS} flag={flagS}"

end Driver.C06

def main : IO Unit := do
  let stdin ← IO.getStdin
  Proto.forEachLine stdin fun s => Driver.C06.handle (Proto.parseLine s)
