/-
C12 — /repo/internal/stats/ttest.go, statement by statement, over `Arith α`.

`sqrt` is a parameter of every test (math.Sqrt is not modelled) and the t distribution function
`cdf` is a parameter of the p-value (`newTTestResult`).  `math.Pow(z, 2)` is written `z·z`.
A `TTestSample` is the triple (Weight, Mean, Variance) the Go interface exposes.
-/
import Model.Stats.Descr

namespace Stats.TTest
open Stats Arith

variable {α : Type} [Arith α]

/-- `LocationHypothesis`: LocationLess = -1, LocationDiffers = 0, LocationGreater = 1 -/
inductive Alt | less | differs | greater
  deriving DecidableEq, Repr

/-- `ErrSampleSize`, `ErrZeroVariance`, `ErrMismatchedSamples` -/
inductive TErr | sampleSize | zeroVariance | mismatched
  deriving DecidableEq, Repr

/-- statistic and degrees of freedom (N1, N2 are the truncated weights and carry no arithmetic) -/
structure TStat (α : Type) where
  t : α
  dof : α

/-- the p-value of `newTTestResult` for the distribution function `cdf` of `TDist{dof}` -/
def pvalue (cdf : α → α) (t : α) : Alt → α
  | .differs => mul (ofNat 2) (sub (ofNat 1) (cdf (abs t)))
  | .less => cdf t
  | .greater => sub (ofNat 1) (cdf t)

def sq (z : α) : α := mul z z

/-- `TwoSampleTTest` (pooled variance) -/
def pooled (sqrt : α → α) (n1 m1 v1 n2 m2 v2 : α) : Except TErr (TStat α) :=
  if eq n1 (ofNat 0) || eq n2 (ofNat 0) then .error .sampleSize
  else if eq v1 (ofNat 0) && eq v2 (ofNat 0) then .error .zeroVariance
  else
    let dof := sub (add n1 n2) (ofNat 2)
    let v12 := div (add (mul (sub n1 (ofNat 1)) v1) (mul (sub n2 (ofNat 1)) v2)) dof
    let t := div (sub m1 m2) (sqrt (mul v12 (add (div (ofNat 1) n1) (div (ofNat 1) n2))))
    .ok ⟨t, dof⟩

/-- `TwoSampleWelchTTest` -/
def welch (sqrt : α → α) (n1 m1 v1 n2 m2 v2 : α) : Except TErr (TStat α) :=
  if le n1 (ofNat 1) || le n2 (ofNat 1) then .error .sampleSize
  else if eq v1 (ofNat 0) && eq v2 (ofNat 0) then .error .zeroVariance
  else
    let dof := div (sq (add (div v1 n1) (div v2 n2)))
      (add (div (sq (div v1 n1)) (sub n1 (ofNat 1))) (div (sq (div v2 n2)) (sub n2 (ofNat 1))))
    let s := sqrt (add (div v1 n1) (div v2 n2))
    let t := div (sub m1 m2) s
    .ok ⟨t, dof⟩

/-- the last two statements of `PairedTTest`, from the length, `Mean(diff)` and `StdDev(diff)` -/
def pairedCore (sqrt : α → α) (len : Nat) (md sd μ0 : α) : Except TErr (TStat α) :=
  if eq sd (ofNat 0) then .error .zeroVariance
  else .ok ⟨div (mul (sub md μ0) (sqrt (ofNat len))) sd, ofNat (len - 1)⟩

/-- `PairedTTest` -/
def paired (sqrt : α → α) (x1 x2 : List α) (μ0 : α) : Except TErr (TStat α) :=
  if x1.length ≠ x2.length then .error .mismatched
  else if x1.length ≤ 1 then .error .sampleSize
  else
    let diff := List.zipWith sub x1 x2
    match Descr.variance diff, Descr.mean diff with
    | some v, some m => pairedCore sqrt x1.length m (sqrt v) μ0
    | _, _ => .error .sampleSize   -- unreachable: diff is non-empty

/-- `OneSampleTTest` -/
def oneSample (sqrt : α → α) (n m v μ0 : α) : Except TErr (TStat α) :=
  if eq n (ofNat 0) then .error .sampleSize
  else if eq v (ofNat 0) then .error .zeroVariance
  else .ok ⟨div (mul (sub m μ0) (sqrt n)) (sqrt v), sub n (ofNat 1)⟩

end Stats.TTest
