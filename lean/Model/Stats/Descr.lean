/-
C12 — descriptive statistics of /repo/internal/stats/sample.go (unweighted paths), statement by
statement, over `Arith α` (instantiated at `Rat` for the theorems and at `Fl` = float64 for the
bit-exact correspondence).  `none` stands for the NaN that Go returns for an empty sample.

  Mean         sample.go:122-131   incremental mean  m += (x - m)/(i+1)
  GeoMean      sample.go:152-166   the same loop over log x, then exp (log/exp are parameters)
  Variance     sample.go:186-203   Welford 1962
  Bounds       sample.go:27-42 / 50-56
  Percentile   sample.go:233-283   R8: n = 1/3 + p(N+1/3), Modf, clamps, interpolation
  IQR          sample.go:288-293
-/
import Model.Stats.Arith

namespace Stats.Descr
open Stats Arith

variable {α : Type} [Arith α]

/-! ### Mean -/

/-- `for i, x := range xs { m += (x - m) / float64(i+1) }` -/
def meanLoop (m : α) (i : Nat) : List α → α
  | [] => m
  | x :: xs => meanLoop (add m (div (sub x m) (ofNat (i + 1)))) (i + 1) xs

/-- `stats.Mean` -/
def mean (xs : List α) : Option α :=
  if xs.isEmpty then none else some (meanLoop (ofNat 0) 0 xs)

/-! ### GeoMean: `log`/`exp` are parameters -/

/-- returns `none` as soon as an element is `≤ 0` (Go: NaN) -/
def geoLoop (log : α → α) (m : α) (i : Nat) : List α → Option α
  | [] => some m
  | x :: xs =>
    if le x (ofNat 0) then none
    else geoLoop log (add m (div (sub (log x) m) (ofNat (i + 1)))) (i + 1) xs

/-- `stats.GeoMean` -/
def geoMean (log exp : α → α) (xs : List α) : Option α :=
  if xs.isEmpty then none else (geoLoop log (ofNat 0) 0 xs).map exp

/-! ### Variance (Welford) -/

/-- loop state `(mean, M2)`; `n` is the loop index -/
def varLoop (mean M2 : α) (n : Nat) : List α → α × α
  | [] => (mean, M2)
  | x :: xs =>
    let delta := sub x mean
    let mean' := add mean (div delta (ofNat (n + 1)))
    let M2' := add M2 (mul delta (sub x mean'))
    varLoop mean' M2' (n + 1) xs

/-- `stats.Variance` -/
def variance (xs : List α) : Option α :=
  if xs.isEmpty then none
  else if xs.length ≤ 1 then some (ofNat 0)
  else some (div (varLoop (ofNat 0) (ofNat 0) 0 xs).2 (ofNat (xs.length - 1)))

/-! ### Bounds -/

def boundsLoop (mn mx : α) : List α → α × α
  | [] => (mn, mx)
  | x :: xs =>
    let mn' := if lt x mn then x else mn
    let mx' := if lt mx x then x else mx
    boundsLoop mn' mx' xs

/-- `stats.Bounds(xs)` -/
def bounds (xs : List α) : Option (α × α) :=
  match xs with
  | [] => none
  | x :: _ => some (boundsLoop x x xs)

/-- `Sample.Bounds` without weights: a sample flagged `Sorted` answers from its two ends -/
def sampleBounds (xs : List α) (sorted : Bool) : Option (α × α) :=
  match xs with
  | [] => none
  | x :: _ => if sorted then some (x, xs.getLastD x) else bounds xs

/-! ### Percentile (R8) -/

/-- `sort.Float64s` on NaN-free data -/
def sortXs (xs : List α) : List α := xs.mergeSort (fun a b => le a b)

/-- the interpolation on a sorted, non-empty slice for 0 < p < 1 -/
def interp (xs : List α) (p : α) : α :=
  let z := ofNat 0
  let N : α := ofNat xs.length
  let third : α := ofFrac 1 3
  let n := add third (mul p (add N third))
  let (k, frac) := modf n
  if k ≤ 0 then xs.getD 0 z
  else if k ≥ (xs.length : Int) then xs.getD (xs.length - 1) z
  else
    let lo := xs.getD (k.toNat - 1) z
    let hi := xs.getD k.toNat z
    add lo (mul frac (sub hi lo))

/-- `Sample.Percentile` without weights -/
def percentile (xs : List α) (sorted : Bool) (p : α) : Option α :=
  if xs.isEmpty then none
  else if le p (ofNat 0) then (sampleBounds xs sorted).map (·.1)
  else if le (ofNat 1) p then (sampleBounds xs sorted).map (·.2)
  else
    let s := if sorted then xs else sortXs xs
    some (interp s p)

/-- `Sample.IQR` -/
def iqr (xs : List α) (sorted : Bool) : Option α :=
  let s := if sorted then xs else sortXs xs
  match percentile s true (ofFrac 3 4), percentile s true (ofFrac 1 4) with
  | some a, some b => some (sub a b)
  | _, _ => none

end Stats.Descr
