/-
C12 — the weighted paths of /repo/internal/stats/sample.go (Sample.Weights != nil), as of commit
20422ca (zero weights are skipped; total weight 0 gives NaN), over `Arith α`.
`none` stands for NaN.  A weighted sample is a list of (x, w) pairs.

  Sample.Weight      vecSum(weights)
  Sample.Mean        weighted incremental mean   m += (x - m) * w / wsum
  Sample.GeoMean     the same over log x, then exp (parameters)
  Sample.Bounds      extreme values among the entries with non-zero weight
  Sample.Percentile  non-interpolating: first x (ascending) at which  total·p − Σw  turns negative
-/
import Model.Stats.Descr

namespace Stats.Weighted
open Stats Arith

variable {α : Type} [Arith α]

/-- `vecSum` -/
def vecSum : List α → α := fun ws => ws.foldl add (ofNat 0)

/-- loop of the weighted `Mean`: state (m, wsum) -/
def wmeanLoop (val : α → α) : α → α → List (α × α) → α × α
  | m, wsum, [] => (m, wsum)
  | m, wsum, (x, w) :: r =>
    if eq w (ofNat 0) then wmeanLoop val m wsum r
    else
      let wsum' := add wsum w
      wmeanLoop val (add m (div (mul (sub (val x) m) w) wsum')) wsum' r

/-- weighted `Sample.Mean` (non-empty sample with weights) -/
def wmean (xs : List (α × α)) : Option α :=
  let r := wmeanLoop (fun x => x) (ofNat 0) (ofNat 0) xs
  if eq r.2 (ofNat 0) then none else some r.1

/-- weighted `Sample.GeoMean` -/
def wgeoMean (log exp : α → α) (xs : List (α × α)) : Option α :=
  let r := wmeanLoop log (ofNat 0) (ofNat 0) xs
  if eq r.2 (ofNat 0) then none else some (exp r.1)

/-- weighted `Sample.Bounds`: sorted → first / last entry with non-zero weight; unsorted → scan -/
def wbounds (xs : List (α × α)) (sorted : Bool) : Option (α × α) :=
  let nz := xs.filter fun p => !eq p.2 (ofNat 0)
  match nz with
  | [] => none
  | (x, _) :: _ =>
    if sorted then some (x, (nz.getLastD (x, x)).1)
    else some (Descr.boundsLoop x x (nz.map (·.1)))

/-- `for i, weight := range s.Weights { target -= weight; if target < 0 { return s.Xs[i] } }` -/
def wpctLoop (last : α) : α → List (α × α) → α
  | _, [] => last
  | target, (x, w) :: r =>
    let t := sub target w
    if lt t (ofNat 0) then x else wpctLoop last t r

/-- `sort.Sort(sampleSorter)` (any order among equal x gives the same percentile) -/
def sortPairs (xs : List (α × α)) : List (α × α) := xs.mergeSort (fun a b => le a.1 b.1)

/-- weighted `Sample.Percentile` -/
def wpercentile (xs : List (α × α)) (sorted : Bool) (p : α) : Option α :=
  match xs with
  | [] => none
  | _ =>
    if le p (ofNat 0) then (wbounds xs sorted).map (·.1)
    else if le (ofNat 1) p then (wbounds xs sorted).map (·.2)
    else
      let s := if sorted then xs else sortPairs xs
      let total := vecSum (s.map (·.2))
      if eq total (ofNat 0) then none
      else some (wpctLoop (s.getLastD (ofNat 0, ofNat 0)).1 (mul total p) s)

end Stats.Weighted
