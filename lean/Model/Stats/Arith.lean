/-
C12 — one program text, two number systems.

The algorithms of /repo/internal/stats (sample.go, beta.go, tdist.go, normaldist.go, dist.go,
alg.go) are written ONCE over the operations of `Arith α` and instantiated

  * at `Rat`  — exact arithmetic: the theorems of Proofs/C12.lean are about this instance;
  * at `Fl`   — IEEE binary64 through the bit-exact model `F64` (Model/Base/F64.lean): the
                correspondence check runs this instance against the Go code bit for bit.

Transcendental functions (`math.Log/Exp/Sqrt/Erfc/Lgamma/Pow`) are never part of `Arith`; the
algorithms take them as explicit function parameters.  Core Lean only.
-/
import Model.Base.F64

namespace Stats

class Arith (α : Type) where
  add : α → α → α
  sub : α → α → α
  mul : α → α → α
  div : α → α → α
  neg : α → α
  abs : α → α
  /-- Go `float64(i)` for a non-negative int -/
  ofNat : Nat → α
  /-- a Go untyped constant n/d converted to float64 (`1/3.0`, `3e-14`, `0.5`, …) -/
  ofFrac : Nat → Nat → α
  lt : α → α → Bool
  le : α → α → Bool
  eq : α → α → Bool
  /-- `math.Modf` followed by `int(kf)`: integer part (truncation toward zero) and fraction -/
  modf : α → Int × α
  /-- `x == ±Inf` (never true in exact arithmetic) -/
  isInf : α → Bool

/-! ### exact instance -/

def ratModf (q : Rat) : Int × Rat :=
  if 0 ≤ q then (q.floor, q - (q.floor : Rat)) else (-((-q).floor), q + ((-q).floor : Rat))

def ratAbs (q : Rat) : Rat := if q < 0 then -q else q

instance instArithRat : Arith Rat where
  add a b := a + b
  sub a b := a - b
  mul a b := a * b
  div a b := a / b
  neg a := -a
  abs := ratAbs
  ofNat n := (n : Rat)
  ofFrac n d := (n : Rat) / (d : Rat)
  lt a b := decide (a < b)
  le a b := decide (a ≤ b)
  eq a b := decide (a = b)
  modf := ratModf
  isInf _ := false

/-! ### float64 instance -/

/-- a float64 value (bit pattern) -/
structure Fl where
  bits : F64.Bits
  deriving BEq, Repr, Inhabited

namespace Fl

def nan : Fl := ⟨F64.nan⟩

/-- `math.Modf` + `int()` for finite values; the integer of a non-finite value is platform
defined in Go and is reported as 0 here (the harness never produces one). -/
def modf (x : Fl) : Int × Fl :=
  let b := x.bits
  if !F64.isFinite b then (0, x)
  else
    let m := F64.mant b
    let e := F64.expo b
    let s := F64.signBit b
    if e ≥ 0 then
      let k : Int := (m * 2 ^ e.toNat : Nat)
      ((if s then -k else k), ⟨F64.zero s⟩)
    else
      let sh := (-e).toNat
      let k : Int := (m / 2 ^ sh : Nat)
      let r := m % 2 ^ sh
      let fr := if r == 0 then F64.zero s else F64.roundRat s r (2 ^ sh)
      ((if s then -k else k), ⟨fr⟩)

end Fl

instance instArithFl : Arith Fl where
  add a b := ⟨F64.add a.bits b.bits⟩
  sub a b := ⟨F64.sub a.bits b.bits⟩
  mul a b := ⟨F64.mul a.bits b.bits⟩
  div a b := ⟨F64.div a.bits b.bits⟩
  neg a := ⟨F64.neg a.bits⟩
  abs a := ⟨F64.abs a.bits⟩
  ofNat n := ⟨F64.ofInt n⟩
  ofFrac n d := ⟨if n == 0 then F64.posZero else F64.roundRat false n d⟩
  lt a b := F64.lt a.bits b.bits
  le a b := F64.le a.bits b.bits
  eq a b := F64.eq a.bits b.bits
  modf := Fl.modf
  isInf a := F64.isInf a.bits

end Stats
