/-
C12 — distribution functions over `Arith α`.

  TDist.CDF        tdist.go:19-38      ½ at 0; for x > 0: ½ + ½·I(x²/(ν+x²), ½, ν/2) when x² < ν (commit
                                       5ce8769, keeps the precision of x²), else 1 − ½·I(ν/(ν+x²), ν/2, ½);
                                       reflection 1 − CDF(−x) for x < 0
  NormalDist.CDF   normaldist.go:47-49 erfc(−(x−μ)/(σ√2))/2
  InvCDF           dist.go:109-175     generic inverse: bracketing by doubling, then bisectBool
  bisectBool       alg.go:66-88

`I` (the regularized incomplete beta function), `erfc` and the constant √2 are parameters.
-/
import Model.Stats.Arith

namespace Stats.Dists
open Stats Arith

variable {α : Type} [Arith α]

def half : α := ofFrac 1 2

/-- the branch `x > 0` of `TDist.CDF` -/
def tcdfPos (I : α → α → α → α) (ν x : α) : α :=
  let x2 := mul x x
  if lt x2 ν then add half (mul half (I (div x2 (add ν x2)) half (div ν (ofNat 2))))
  else sub (ofNat 1) (mul half (I (div ν (add ν x2)) (div ν (ofNat 2)) half))

/-- `TDist{ν}.CDF(x)`; `none` = NaN -/
def tcdf (I : α → α → α → α) (ν x : α) : Option α :=
  if eq x (ofNat 0) then some half
  else if lt (ofNat 0) x then some (tcdfPos I ν x)
  else if lt x (ofNat 0) then some (sub (ofNat 1) (tcdfPos I ν (neg x)))
  else none

/-- `NormalDist{μ,σ}.CDF(x)` -/
def ncdf (erfc : α → α) (sqrt2 μ σ x : α) : α :=
  div (erfc (div (neg (sub x μ)) (mul σ sqrt2))) (ofNat 2)

/-! ### bisectBool and the generic InvCDF -/

/-- the `for` loop of `bisectBool`; `fuel` bounds the iterations (the Go loop ends because the
interval shrinks to adjacent floats) -/
def bisectLoop (f : α → Bool) (xtol : α) : Nat → α → α → Bool → α × α
  | 0, low, high, _ => (low, high)
  | fuel + 1, low, high, flow =>
    if le (sub high low) xtol then (low, high)
    else
      let mid := div (add high low) (ofNat 2)
      if eq mid high || eq mid low then (low, high)
      else if f mid == flow then bisectLoop f xtol fuel mid high flow
      else bisectLoop f xtol fuel low mid flow

/-- `bisectBool(f, low, high, xtol)`; `none` = panic (root not bracketed) -/
def bisectBool (f : α → Bool) (low high xtol : α) (fuel : Nat) : Option (α × α) :=
  if f low == f high then none else some (bisectLoop f xtol fuel low high (f low))

inductive IRes (α : Type) | val (x : α) | nan | negInf | posInf | panic | fuel

/-- upward bracketing: `for hiY < y && hiX != inf { loX, loY, hiX = hiX, hiY, hiX+xdelta; … }`;
returns (loX, hiX) -/
def bracketUp (cdf : α → α) (y : α) : Nat → α → α → α → α → Option (α × α)
  | 0, _, _, _, _ => none
  | fuel + 1, loX, hiX, hiY, xdelta =>
    if lt hiY y && !isInf hiX then
      let hiX' := add hiX xdelta
      bracketUp cdf y fuel hiX hiX' (cdf hiX') (mul xdelta (ofNat 2))
    else some (loX, hiX)

/-- downward bracketing: `for y <= loY && loX != -inf { hiX, hiY, loX = loX, loY, loX-xdelta; … }` -/
def bracketDown (cdf : α → α) (y : α) : Nat → α → α → α → α → Option (α × α)
  | 0, _, _, _, _ => none
  | fuel + 1, loX, loY, hiX, xdelta =>
    if le y loY && !isInf loX then
      let loX' := sub loX xdelta
      bracketDown cdf y fuel loX' (cdf loX') loX (mul xdelta (ofNat 2))
    else some (loX, hiX)

/-- `const xtol = 1e-16` -/
def xtol : α := ofFrac 1 (10 ^ 16)

/-- the closure returned by `InvCDF(dist)` for a distribution without its own InvCDF method;
`bl`, `bh` are `dist.Bounds()` -/
def invCDF (cdf : α → α) (bl bh : α) (fuel : Nat) (y : α) : IRes α :=
  let zero : α := ofNat 0
  let one : α := ofNat 1
  if lt y zero || lt one y then .nan
  else if eq y zero then (if eq (cdf bl) zero then .val bl else .negInf)
  else if eq y one then (if eq (cdf bh) one then .val bh else .posInf)
  else
    let y1 := cdf zero
    let br := if lt y1 y then bracketUp cdf y fuel zero zero y1 one
              else bracketDown cdf y fuel zero y1 zero one
    match br with
    | none => .fuel
    | some (loX, hiX) =>
      if isInf loX then .negInf
      else if isInf hiX then .posInf
      else
        match bisectBool (fun x => lt (cdf x) y) loX hiX xtol fuel with
        | none => .panic
        | some (_, x2) => .val x2

end Stats.Dists

/-! ### arithmetic-only distribution functions used by the correspondence harness to run the
generic `InvCDF` on both sides (harness/c12/inv.go defines the same three in Go) -/
namespace Stats.Dists
open Stats Arith
variable {α : Type} [Arith α]

def uniCDF (a b x : α) : α :=
  if lt x a then ofNat 0 else if lt b x then ofNat 1 else div (sub x a) (sub b a)

def sigCDF (s x : α) : α :=
  let z := div x s
  add half (div z (mul (ofNat 2) (add (ofNat 1) (abs z))))

def stepCDF (pts : List α) (x : α) : α :=
  div (ofNat (pts.filter fun p => le p x).length) (ofNat pts.length)

end Stats.Dists

/-! ### NormalDist.InvCDF (normaldist.go:62-126): Acklam's rational approximations in three regions
followed by one refinement step.  `log`, `sqrt`, `erfc`, `exp` and the constants √2, √(2π) are
parameters; the polynomial coefficients are the decimal literals of the source, converted to the
number type exactly as Go converts untyped constants. -/
namespace Stats.Dists.NInv
open Stats Arith
variable {α : Type} [Arith α]

def a1 : α := neg (ofFrac 3969683028665376 (10 ^ 14))
def a2 : α := ofFrac 2209460984245205 (10 ^ 13)
def a3 : α := neg (ofFrac 2759285104469687 (10 ^ 13))
def a4 : α := ofFrac 1383577518672690 (10 ^ 13)
def a5 : α := neg (ofFrac 3066479806614716 (10 ^ 14))
def a6 : α := ofFrac 2506628277459239 (10 ^ 15)
def b1 : α := neg (ofFrac 5447609879822406 (10 ^ 14))
def b2 : α := ofFrac 1615858368580409 (10 ^ 13)
def b3 : α := neg (ofFrac 1556989798598866 (10 ^ 13))
def b4 : α := ofFrac 6680131188771972 (10 ^ 14)
def b5 : α := neg (ofFrac 1328068155288572 (10 ^ 14))
def c1 : α := neg (ofFrac 7784894002430293 (10 ^ 18))
def c2 : α := neg (ofFrac 3223964580411365 (10 ^ 16))
def c3 : α := neg (ofFrac 2400758277161838 (10 ^ 15))
def c4 : α := neg (ofFrac 2549732539343734 (10 ^ 15))
def c5 : α := ofFrac 4374664141464968 (10 ^ 15)
def c6 : α := ofFrac 2938163982698783 (10 ^ 15)
def d1 : α := ofFrac 7784695709041462 (10 ^ 18)
def d2 : α := ofFrac 3224671290700398 (10 ^ 16)
def d3 : α := ofFrac 2445134137142996 (10 ^ 15)
def d4 : α := ofFrac 3754408661907416 (10 ^ 15)

/-- `plow = 0.02425`, `phigh = 1 - plow` (an exact constant expression: 0.97575) -/
def plow : α := ofFrac 2425 100000
def phigh : α := ofFrac 97575 100000

/-- `((((c1*q+c2)*q+c3)*q+c4)*q+c5)*q + c6` -/
def polyC (q : α) : α :=
  add (mul (add (mul (add (mul (add (mul (add (mul c1 q) c2) q) c3) q) c4) q) c5) q) c6
/-- `(((d1*q+d2)*q+d3)*q+d4)*q + 1` -/
def polyD (q : α) : α :=
  add (mul (add (mul (add (mul (add (mul d1 q) d2) q) d3) q) d4) q) (ofNat 1)
/-- `((((a1*r+a2)*r+a3)*r+a4)*r+a5)*r + a6` -/
def polyA (r : α) : α :=
  add (mul (add (mul (add (mul (add (mul (add (mul a1 r) a2) r) a3) r) a4) r) a5) r) a6
/-- `((((b1*r+b2)*r+b3)*r+b4)*r+b5)*r + 1` -/
def polyB (r : α) : α :=
  add (mul (add (mul (add (mul (add (mul (add (mul b1 r) b2) r) b3) r) b4) r) b5) r) (ofNat 1)

/-- the region selection and the rational approximation (0 < p < 1) -/
def approx (log sqrt : α → α) (p : α) : α :=
  let m2 : α := neg (ofNat 2)
  if lt p (plow : α) then
    let q := sqrt (mul m2 (log p))
    div (polyC q) (polyD q)
  else if lt (phigh : α) p then
    let q := sqrt (mul m2 (log (sub (ofNat 1) p)))
    div (neg (polyC q)) (polyD q)
  else
    let q := sub p half
    let r := mul q q
    div (mul (polyA r) q) (polyB r)

/-- the refinement step `e := 0.5*erfc(-x/√2) - p; u := e*√(2π)*exp(x*x/2); x - u/(1+x*u/2)` -/
def refine (erfc exp : α → α) (sqrt2 sqrt2pi p x : α) : α :=
  let e := sub (mul half (erfc (div (neg x) sqrt2))) p
  let u := mul (mul e sqrt2pi) (exp (div (mul x x) (ofNat 2)))
  sub x (div u (add (ofNat 1) (div (mul x u) (ofNat 2))))

/-- `NormalDist{μ,σ}.InvCDF(p)` -/
def invCDF (log sqrt erfc exp : α → α) (sqrt2 sqrt2pi μ σ p : α) : IRes α :=
  if lt p (ofNat 0) || lt (ofNat 1) p then .nan
  else if eq p (ofNat 0) then .negInf
  else if eq p (ofNat 1) then .posInf
  else
    let x := refine erfc exp sqrt2 sqrt2pi p (approx log sqrt p)
    .val (add (mul x σ) μ)

end Stats.Dists.NInv

/-! ### a reused `InvCDF(dist)` closure

In dist.go every variable of the returned closure (`x1, y1, xdelta, loX, …`) is declared INSIDE the
closure body; the closure captures only `dist`.  A reused closure is therefore modelled as the pure
function `invCDF cdf bl bh fuel` applied to each query in turn: -/
namespace Stats.Dists
variable {α : Type} [Stats.Arith α]

/-- the answers of ONE closure queried with `ps` in order -/
def runClosure (cdf : α → α) (bl bh : α) (fuel : Nat) (ps : List α) : List (IRes α) :=
  ps.map (invCDF cdf bl bh fuel)

end Stats.Dists
