/-
Model of /repo/internal/stats/udist.go (and mathChoose of mathx.go) in exact arithmetic.

* `choose`/`chooseI`  mathChoose (binomial coefficient; 0 outside 0 ≤ k ≤ n)
* `pRec n m u`        the Mann–Whitney recurrence that `UDist.p` tabulates (no ties)
* `gaussRow`/`cntUntied`  the same table as integer counts (numerators over C(n+m,n)); this is what
                      the compiled driver evaluates for large samples (`pRec` is exponential)
* `aCoef twoUmin twoUmax base2 A`   the tied counting recurrence of `makeUmemo` as a pure function
* `makeUmemo`         the memo-table form (keys generated top-down with pruning, filled bottom-up),
                      sharing `subKeys`, `base2` and `stepA` with the pure function
* `pmf cdf`           the PMF/CDF wrappers; the float argument U is represented by twoU = 2·U ∈ ℤ

Core Lean only.
-/
import Std.Data.HashMap

namespace Stats.UDist

/-! ### mathChoose -/

/-- binomial coefficient by the multiplicative formula C(n,k) = ∏_{i<k} (n−i)/(i+1) (every
    partial product is itself a binomial, so the divisions are exact); 0 for k > n.
    `Proofs/Lemmas/C11Basic.choose_eq` shows it is `Nat.choose`. Go's `mathChoose` is this for
    n ≤ 20 and `exp(lgamma…)` beyond (a float approximation of the same number). -/
def choose (n k : Nat) : Nat :=
  if k > n then 0 else
  (List.range k).foldl (fun acc i => acc * (n - i) / (i + 1)) 1

/-- mathChoose on Go `int` arguments: 0 when `k < 0` or `n < k`. -/
def chooseI (n k : Int) : Nat :=
  if k < 0 ∨ n < k then 0 else choose n.toNat k.toNat

/-! ### untied distribution: `UDist.p` -/

/-- p_{n,m}(U) of Mann & Whitney (1947) exactly as in the comment and loop body of `UDist.p`:
    `p_{n,m}(U) = (n·p_{n-1,m}(U-m) + m·p_{n,m-1}(U)) / (n+m)`, `p_{0,m}(0) = p_{n,0}(0) = 1`. -/
def pRec : Nat → Nat → Int → Rat
  | 0, _, u => if u = 0 then 1 else 0
  | _ + 1, 0, u => if u = 0 then 1 else 0
  | n + 1, m + 1, u =>
      if u < 0 then 0 else
      (((n + 1 : Nat) : Rat) * pRec n (m + 1) (u - ((m + 1 : Nat) : Int))
        + ((m + 1 : Nat) : Rat) * pRec (n + 1) m u) / ((n + 1 + (m + 1) : Nat) : Rat)
termination_by n m => n + m

/-- polynomial addition of coefficient lists with the second shifted by `s` places -/
def addShift (a : Array Nat) (b : Array Nat) (s : Nat) : Array Nat :=
  let len := max a.size (b.size + s)
  Array.ofFn (n := len) fun i =>
    a.getD i.val 0 + (if i.val < s then 0 else b.getD (i.val - s) 0)

/-- row `m` of the count table: entry `n` holds the counts c_{n,m}(u), u = 0..n·m, where
    `c_{n,m}(u) = c_{n-1,m}(u-m) + c_{n,m-1}(u)` (the recurrence of `p` multiplied by C(n+m,n)). -/
def gaussRow (N : Nat) : Nat → Array (Array Nat)
  | 0 => Array.replicate (N + 1) #[1]
  | m + 1 =>
      let prev := gaussRow N m
      (List.range N).foldl (fun (row : Array (Array Nat)) i =>
        -- entry n = i+1 from entry n-1 of this row (shifted by m+1) and entry n of the previous row
        row.push (addShift (prev.getD (i + 1) #[]) (row.getD i #[]) (m + 1))) #[#[1]]

/-- counts of the untied U distribution for sample sizes n, m -/
def cntUntied (n m : Nat) : Array Nat := (gaussRow n m).getD n #[]

/-- the table `d.p(·)` for `UDist{N1,N2}` as counts: Go swaps so that N ≤ M -/
def untiedCounts (n1 n2 : Nat) : Array Nat :=
  if n1 > n2 then cntUntied n2 n1 else cntUntied n1 n2

/-- the table `d.p(·)` (indices 0..n1·n2; the Go slice is a prefix of it) from the counts -/
def pUntied (n1 n2 : Nat) : Array Rat :=
  let c : Rat := ((choose (n1 + n2) n1 : Nat) : Rat)
  (untiedCounts n1 n2).map fun (k : Nat) => ((k : Nat) : Rat) / c

/-! ### tied distribution: `makeUmemo` -/

/-- the `a` coefficients: a[1] = t[0], a[k] = a[k-1] + t[k-2] + t[k-1]; a[0] unused (0). -/
def aCoef (t : List Nat) : Nat → Int
  | 0 => 0
  | 1 => (t.getD 0 0 : Nat)
  | k + 2 => aCoef t (k + 1) + (t.getD k 0 : Nat) + (t.getD (k + 1) 0 : Nat)

/-- loop body shared by twoUmin / twoUmax -/
def twoUstep (t : List Nat) (k : Nat) (st : Int × Int) : Int × Int :=
  let (twoU, n1k) := st
  let x : Int := min n1k (t.getD (k - 1) 0 : Nat)
  (twoU + x * aCoef t k, n1k - x)

/-- `twoUmin(n1, t[:K], a)`: ranks filled from the lowest -/
def twoUmin (t : List Nat) (K : Nat) (n1 : Int) : Int :=
  ((List.range K).foldl (fun st i => twoUstep t (i + 1) st) (-(n1 * n1), n1)).1

/-- `twoUmax(n1, t[:K], a)`: ranks filled from the highest -/
def twoUmax (t : List Nat) (K : Nat) (n1 : Int) : Int :=
  ((List.range K).foldl (fun st i => twoUstep t (K - i) st) (-(n1 * n1), n1)).1

def sumTo (t : List Nat) (k : Nat) : Nat := (t.take k).foldl (· + ·) 0

/-- `Σ_{r = lo}^{hi} f r` over Go ints (empty when hi < lo) -/
def sumRange (lo hi : Int) (f : Int → Nat) : Nat :=
  (List.range (hi - lo + 1).toNat).foldl (fun acc i => acc + f (lo + (i : Nat))) 0

/-- K = 2 base case as written today (after f31837d): a negative numerator is not divided;
    a non-negative one is divided with Go's truncating `/`. -/
def base2 (t : List Nat) (n1 : Int) (twoU : Int) : Nat :=
  let t0 : Int := (t.getD 0 0 : Nat)
  let t1 : Int := (t.getD 1 0 : Nat)
  let r2Low : Int := max 0 (n1 - t0)
  let num : Int := twoU - n1 * (t0 - n1)
  let r2High : Int := if num ≥ 0 then Int.tdiv num (t0 + t1) else -1
  sumRange r2Low r2High fun r2 => chooseI t0 (n1 - r2) * chooseI t1 r2

/-- the (n1, twoU) argument one level down for `rk` first-sample members in rank k -/
def subKey (t : List Nat) (k : Nat) (n1 twoU rk : Int) : Int × Int :=
  (n1 - rk, twoU - rk * (aCoef t k - 2 * n1 + rk))

def rkLow (t : List Nat) (k : Nat) (n1 : Int) : Int := max 0 (n1 - (sumTo t (k - 1) : Nat))
def rkHigh (t : List Nat) (k : Nat) (n1 : Int) : Int := min n1 (t.getD (k - 1) 0 : Nat)

/-- is the sub-key kept by the pruning of the downward pass (twoUmin ≤ twoU ≤ twoUmax)? -/
def inRange (t : List Nat) (k : Nat) (key : Int × Int) : Bool :=
  decide (twoUmin t k key.1 ≤ key.2) && decide (key.2 ≤ twoUmax t k key.1)

/-- one unwinding step at level k ≥ 3 (`Derive counts for the rest of the memo table`):
    `look` is the table lookup at level k-1 (`none` = key absent). -/
def stepA (t : List Nat) (k : Nat) (look : Int × Int → Option Nat) (n1 twoU : Int) : Nat :=
  sumRange (rkLow t k n1) (rkHigh t k n1) fun rk =>
    let key := subKey t k n1 twoU rk
    let x : Nat := match look key with
      | some v => v
      | none => if twoUmax t (k - 1) key.1 < key.2 then chooseI (sumTo t (k - 1) : Nat) key.1 else 0
    x * chooseI (t.getD (k - 1) 0 : Nat) rk

/-- the counting function A_k(n1, twoU) = number of ways to choose n1 of the first k ranks'
    members with 2U ≤ twoU, as the memo table computes it (a table hit ⇔ the key is in range). -/
def A (t : List Nat) : Nat → Int → Int → Nat
  | 0, n1, twoU => base2 t n1 twoU
  | 1, n1, twoU => base2 t n1 twoU
  | 2, n1, twoU => base2 t n1 twoU
  | k + 3, n1, twoU =>
      stepA t (k + 3)
        (fun key => if inRange t (k + 2) key then some (A t (k + 2) key.1 key.2) else none) n1 twoU

abbrev Memo := Std.HashMap (Int × Int) Nat

/-- downward pass: keys of level k from the keys of level k+1 -/
def keysBelow (t : List Nat) (k : Nat) (above : List (Int × Int)) : Memo :=
  above.foldl (fun (m : Memo) (key : Int × Int) =>
    let lo := rkLow t (k + 1) key.1
    let hi := rkHigh t (k + 1) key.1
    (List.range (hi - lo + 1).toNat).foldl (fun (m : Memo) i =>
      let sk := subKey t (k + 1) key.1 key.2 (lo + (i : Nat))
      if inRange t k sk then m.insert sk 0 else m) m) {}

/-- downward pass from level k+1 (`above`) to level k, k = K-1 … 2; result ascending in k -/
def keyLevelsAux (t : List Nat) : Nat → Nat → List (Int × Int) →
    List (Nat × List (Int × Int)) → List (Nat × List (Int × Int))
  | 0, _, _, acc => acc
  | fuel + 1, k, above, acc =>
      if k < 2 then acc else
      let ks := (keysBelow t k above).keys
      keyLevelsAux t fuel (k - 1) ks ((k, ks) :: acc)

/-- `[(2, keys₂), (3, keys₃), …, (K, [(n1,twoU)])]` -/
def keyLevels (t : List Nat) (K : Nat) (n1 twoU : Int) : List (Nat × List (Int × Int)) :=
  keyLevelsAux t K (K - 1) [(n1, twoU)] [(K, [(n1, twoU)])]

/-- `makeUmemo(twoU, n1, t)[K][ukey{n1, twoU}]` -/
def makeUmemo (t : List Nat) (n1 twoU : Int) : Nat :=
  let K := t.length
  if K ≤ 2 then base2 t n1 twoU else
  let levels := keyLevels t K n1 twoU
  let final : Memo := levels.foldl (fun (prev : Memo) (lv : Nat × List (Int × Int)) =>
      let (k, ks) := lv
      if k ≤ 2 then
        ks.foldl (fun (m : Memo) key => m.insert key (base2 t key.1 key.2)) {}
      else
        ks.foldl (fun (m : Memo) key => m.insert key (stepA t k (fun sk => prev.get? sk) key.1 key.2)) {})
    {}
  (final.get? (n1, twoU)).getD 0

def hasTies (T : List Nat) : Bool := T.any (· > 1)

/-- the table `d.p(·)` through the recurrence itself: Go swaps so that N ≤ M and tabulates p_{N,M} -/
def pUntiedRec (n1 n2 : Nat) : Array Rat :=
  Array.ofFn (n := n1 * n2 + 1) fun u =>
    if n1 > n2 then pRec n2 n1 (u.val : Nat) else pRec n1 n2 (u.val : Nat)

/-- `UDist{n1,n2,T}.CDF(U)` with twoU = 2·U. `tied` chooses the evaluator of the tied table,
    `untied` the evaluator of `d.p(U)[u]`. -/
def cdfWith (tied : List Nat → Int → Int → Nat) (untied : Nat → Nat → Array Rat)
    (n1 n2 : Nat) (T : List Nat) (twoU : Int) : Rat :=
  if twoU < 0 then 0
  else if twoU ≥ 2 * (n1 * n2 : Nat) then 1
  else if hasTies T then
    -- int(2*U) = twoU
    ((tied T n1 twoU : Nat) : Rat) / ((choose (n1 + n2) n1 : Nat) : Rat)
  else
    let ui : Nat := (twoU / 2).toNat           -- int(math.Floor(U))
    let flip := decide (ui ≥ (n1 * n2 + 1) / 2)
    let ui := if flip then n1 * n2 - ui - 1 else ui
    let tab := untied n1 n2
    let p := (List.range (ui + 1)).foldl (fun acc u => acc + tab.getD u 0) (0 : Rat)
    if flip then 1 - p else p

/-- `UDist{n1,n2,T}.PMF(U)` with twoU = 2·U -/
def pmfWith (tied : List Nat → Int → Int → Nat) (untied : Nat → Nat → Array Rat)
    (n1 n2 : Nat) (T : List Nat) (twoU : Int) : Rat :=
  if twoU < 0 ∨ twoU ≥ 1 + 2 * (n1 * n2 : Nat) then 0
  else if hasTies T then
    (((((tied T n1 twoU : Nat) : Int) - ((tied T n1 (twoU - 1) : Nat) : Int) : Int)) : Rat)
      / ((choose (n1 + n2) n1 : Nat) : Rat)
  else
    (untied n1 n2).getD (twoU / 2).toNat 0

/-- evaluators used by the compiled driver: memo table and count table -/
def cdf := cdfWith makeUmemo pUntied
def pmf := pmfWith makeUmemo pUntied
/-- the same wrappers over the pure recurrences `A` and `pRec` (what the theorems talk about; the
    driver checks `cdf = cdfPure`, `pmf = pmfPure` on every small distribution case) -/
def cdfPure := cdfWith (fun T n1 twoU => A T T.length n1 twoU) pUntiedRec
def pmfPure := pmfWith (fun T n1 twoU => A T T.length n1 twoU) pUntiedRec

end Stats.UDist
