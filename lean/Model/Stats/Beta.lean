/-
C12 — /repo/internal/stats/beta.go over `Arith α`.

  betacf       beta.go:58-93   modified Lentz evaluation of the continued fraction, with the
                               tiny-value guard `raiseZero`, ε = 3e-14, cap 200 (then panic)
  mathBetaInc  beta.go:27-54   range check, prefactor `bt`, symmetry switch x < (a+1)/(a+b+2)

The prefactor exp(lgamma(a+b) − lgamma(a) − lgamma(b) + a·log x + b·log(1−x)) is a parameter
`bt x a b` (lgamma/exp/log are not modelled).
-/
import Model.Stats.Arith

namespace Stats.Beta
open Stats Arith

variable {α : Type} [Arith α]

def maxIterations : Nat := 200
/-- `const epsilon = 3e-14` -/
def epsilon : α := ofFrac 3 (10 ^ 14)
/-- `math.SmallestNonzeroFloat64` = 2^-1074 -/
def tiny : α := ofFrac 1 (2 ^ 1074)

def raiseZero (z : α) : α := if lt (abs z) (tiny : α) then tiny else z

def one : α := ofNat 1
def two : α := ofNat 2

/-- numerator of the even step m: `mf * (b - mf) * x / ((a + 2*mf - 1) * (a + 2*mf))` -/
def numEven (x a b : α) (m : Nat) : α :=
  let mf : α := ofNat m
  div (mul (mul mf (sub b mf)) x) (mul (sub (add a (mul two mf)) one) (add a (mul two mf)))

/-- numerator of the odd step m: `-(a + mf) * (a + b + mf) * x / ((a + 2*mf) * (a + 2*mf + 1))` -/
def numOdd (x a b : α) (m : Nat) : α :=
  let mf : α := ofNat m
  div (mul (mul (neg (add a mf)) (add (add a b) mf)) x)
    (mul (add a (mul two mf)) (add (add a (mul two mf)) one))

structure LState (α : Type) where
  c : α
  d : α
  h : α

/-- one half-step of the recurrence with numerator `numer`; returns the new state and d·c -/
def halfStep (numer : α) (s : LState α) : LState α × α :=
  let d := div one (raiseZero (add one (mul numer s.d)))
  let c := raiseZero (add one (div numer s.c))
  let f := mul d c
  (⟨c, d, mul s.h f⟩, f)

/-- the loop `for m := 1; m <= maxIterations; m++`; `fuel` = iterations left;
`none` = `panic("betainc: a or b too big; failed to converge")` -/
def cfLoop (x a b : α) : Nat → Nat → LState α → Option α
  | 0, _, _ => none
  | fuel + 1, m, s =>
    let s1 := (halfStep (numEven x a b m) s).1
    let (s2, hfac) := halfStep (numOdd x a b m) s1
    if lt (abs (sub hfac one)) (epsilon : α) then some s2.h
    else cfLoop x a b fuel (m + 1) s2

def initState (x a b : α) : LState α :=
  let d := div one (raiseZero (sub one (div (mul (add a b) x) (add a one))))
  ⟨one, d, d⟩

/-- `betacf(x, a, b)` -/
def betacf (x a b : α) : Option α := cfLoop x a b maxIterations 1 (initState x a b)

inductive BRes (α : Type) | val (v : α) | nan | panic

/-- `mathBetaInc(x, a, b)` with the prefactor `bt` and the continued fraction `cf` as parameters -/
def betaInc (bt : α → α → α → α) (cf : α → α → α → Option α) (x a b : α) : BRes α :=
  if lt x (ofNat 0) || lt one x then .nan
  else
    let btv : α := if lt (ofNat 0) x && lt x one then bt x a b else ofNat 0
    if lt x (div (add a one) (add (add a b) two)) then
      match cf x a b with
      | some v => .val (div (mul btv v) a)
      | none => .panic
    else
      match cf (sub one x) b a with
      | some v => .val (sub one (div (mul btv v) b))
      | none => .panic

end Stats.Beta
