/-
Model of /repo/internal/stats/utest.go `MannWhitneyUTest` (current HEAD, i.e. with 079b4ab:
one-sided *greater* steps by `dist.Step()` = 0.5).

Values live in any type with a decidable `<` and `=` (Go: float64 without NaN); ranks, R1 and U
are kept as doubled naturals/integers (`twoX` = 2·X), which is exact for the Go floats as long as
2·n1·n2 < 2^53.  Core Lean only.
-/
import Model.Stats.UDist

namespace Stats.UStat

section Generic
variable {α : Type} [LT α] [DecidableLT α] [DecidableEq α]

/-- `sort.Float64s` on a NaN-free slice: the result is the sorted permutation (which one is
    irrelevant for floats that compare equal); modelled as insertion sort by `<`. -/
def insertSorted (a : α) : List α → List α
  | [] => [a]
  | b :: l => if b < a then b :: insertSorted a l else a :: b :: l

def sortF (l : List α) : List α := l.foldr insertSorted []

/-- `labeledMerge`: label `true` = from x1 (Go label 1), `false` = from x2 (Go label 2);
    on equal heads the x2 element is emitted first (`x1[i] < x2[j]` is false). -/
def labeledMerge : List α → List α → List (α × Bool)
  | [], ys => ys.map fun y => (y, false)
  | x :: xs, [] => (x :: xs).map fun x => (x, true)
  | x :: xs, y :: ys =>
      if x < y then (x, true) :: labeledMerge xs (y :: ys)
      else (y, false) :: labeledMerge (x :: xs) ys

/-- inner loop `for ; i < len(merged) && merged[i] == v1; i++ { if labels[i]==1 { nx1++ } }`:
    returns (entries consumed, of which label 1, remaining list). -/
def takeRun (v : α) : List (α × Bool) → Nat × Nat × List (α × Bool)
  | [] => (0, 0, [])
  | (w, l) :: rest =>
      if w = v then
        let r := takeRun v rest
        (r.1 + 1, (if l then r.2.1 + 1 else r.2.1), r.2.2)
      else (0, 0, (w, l) :: rest)

/-- state of the rank loop: 2·R1, tie vector T, hasTies -/
structure RankState where
  twoR1 : Nat
  T : List Nat
  hasTies : Bool
  deriving Repr, DecidableEq

/-- outer loop `for i := 0; i < len(merged); { … }`; `i` is the 0-based index of the head of the
    remaining list. `rank1 = i+1`; after the inner loop `i' = i + r`; the average rank is
    `(i' + rank1)/2`, kept doubled; `T = append(T, i'-rank1+1)`; `hasTies` when `i' > rank1`. -/
def rankLoop : Nat → Nat → List (α × Bool) → RankState → RankState
  | 0, _, _, s => s
  | _ + 1, _, [], s => s
  | fuel + 1, i, (v, l) :: rest, s =>
      let r := takeRun v ((v, l) :: rest)
      let rank1 := i + 1
      let i' := i + r.1
      rankLoop fuel i' r.2.2
        { twoR1 := if r.2.1 ≠ 0 then s.twoR1 + (i' + rank1) * r.2.1 else s.twoR1
          T := s.T ++ [i' - rank1 + 1]
          hasTies := s.hasTies || decide (i' > rank1) }

def ranks (merged : List (α × Bool)) : RankState :=
  rankLoop merged.length 0 merged { twoR1 := 0, T := [], hasTies := false }

/-- 2·U1 = 2·R1 − n1(n1+1) -/
def twoU1 (x1 x2 : List α) : Int :=
  ((ranks (labeledMerge (sortF x1) (sortF x2))).twoR1 : Int) - ((x1.length * (x1.length + 1) : Nat) : Int)

def tieVector (x1 x2 : List α) : List Nat := (ranks (labeledMerge (sortF x1) (sortF x2))).T

end Generic

inductive Alt | less | differs | greater
  deriving Repr, DecidableEq

inductive Err | sampleSize | samplesEqual
  deriving Repr, DecidableEq

/-- which method: the condition of the `if` at utest.go:165 -/
def exactBranch (hasTies : Bool) (n1 n2 limit tiesLimit : Nat) : Bool :=
  (!hasTies && decide (n1 ≤ limit) && decide (n2 ≤ limit)) ||
  (hasTies && decide (n1 ≤ tiesLimit) && decide (n2 ≤ tiesLimit))

/-- tieCorrection: Σ (t³ − t) -/
def tieCorrection (T : List Nat) : Nat := T.foldl (fun acc t => acc + (t * t * t - t)) 0

/-- result of the model: either an error, an exact p-value, or the ingredients of the normal
    approximation (z = numer/σ with numer = twoNumer/2, σ² = sigma2; Φ is not modelled). -/
inductive Outcome
  | error (e : Err)
  | exact (twoU1 : Int) (p : Rat)
  | normal (twoU1 : Int) (twoNumer : Int) (sigma2 : Rat)
  deriving Repr

/-- σ_U² = n1·n2·((N+1) − t/(N(N−1)))/12 -/
def sigma2 (n1 n2 : Nat) (T : List Nat) : Rat :=
  let N : Rat := ((n1 + n2 : Nat) : Rat)
  (((n1 * n2 : Nat) : Rat) * ((N + 1) - ((tieCorrection T : Nat) : Rat) / (N * (N - 1)))) / 12

/-- 2·(numer after continuity correction), numer = U1 − μ_U, μ_U = n1·n2/2 -/
def twoNumer (alt : Alt) (twoU1 : Int) (n1 n2 : Nat) : Int :=
  let d : Int := twoU1 - ((n1 * n2 : Nat) : Int)        -- 2·(U1 − μ)
  match alt with
  | .differs => d - (if d = 0 then 0 else if d < 0 then -1 else 1)   -- numer −= sign(numer)·0.5
  | .less => d + 1
  | .greater => d - 1

/-- exact-branch p formulas (utest.go:174‑198) over a CDF -/
def exactP (cdf : Int → Rat) (alt : Alt) (twoU1 twoU2 : Int) : Rat :=
  match alt with
  | .differs => if twoU1 = twoU2 then 1 else cdf (min twoU1 twoU2) * 2
  | .less => cdf twoU1
  | .greater => 1 - cdf (twoU1 - 1)                      -- CDF(U1 − dist.Step()), Step() = 0.5

/-- `MannWhitneyUTest(x1, x2, alt)` given the ranks; `cdf` is `UDist{n1,n2,T}.CDF` -/
def decide' (cdf : Nat → Nat → List Nat → Int → Rat) (limit tiesLimit : Nat) (alt : Alt)
    (n1 n2 : Nat) (rs : RankState) : Outcome :=
  let twoU1 : Int := (rs.twoR1 : Int) - ((n1 * (n1 + 1) : Nat) : Int)
  let twoU2 : Int := ((2 * (n1 * n2) : Nat) : Int) - twoU1
  if exactBranch rs.hasTies n1 n2 limit tiesLimit then
    if rs.T.length = 1 then .error .samplesEqual
    else .exact twoU1 (exactP (cdf n1 n2 rs.T) alt twoU1 twoU2)
  else
    let s2 := sigma2 n1 n2 rs.T
    if s2 = 0 then .error .samplesEqual
    else .normal twoU1 (twoNumer alt twoU1 n1 n2) s2

def mannWhitney {α : Type} [LT α] [DecidableLT α] [DecidableEq α]
    (cdf : Nat → Nat → List Nat → Int → Rat) (limit tiesLimit : Nat)
    (x1 x2 : List α) (alt : Alt) : Outcome :=
  let n1 := x1.length
  let n2 := x2.length
  if n1 = 0 ∨ n2 = 0 then .error .sampleSize else
  decide' cdf limit tiesLimit alt n1 n2 (ranks (labeledMerge (sortF x1) (sortF x2)))

/-- `benchmath.AssumeNothing.Compare` (anone.go, after 4d4bbc9): P = 1 with a warning when the U-test
    fails; otherwise twice the smaller of the two one-sided *less* p-values (the samples in both
    orders), capped at 1. `none` = the error case. -/
def compareAssumeNothing {α : Type} [LT α] [DecidableLT α] [DecidableEq α]
    (cdf : Nat → Nat → List Nat → Int → Rat) (limit tiesLimit : Nat) (x1 x2 : List α) :
    Except Err Rat :=
  match mannWhitney cdf limit tiesLimit x1 x2 .differs with
  | .error e => .error e
  | .normal _ _ _ => .error .sampleSize      -- not modelled here (the family stays on the exact branch)
  | .exact _ p =>
    match mannWhitney cdf limit tiesLimit x1 x2 .less, mannWhitney cdf limit tiesLimit x2 x1 .less with
    | .exact _ l1, .exact _ l2 =>
        let m := if l1 ≤ l2 then l1 else l2
        .ok (if 2 * m ≤ 1 then 2 * m else 1)
    | _, _ => .ok p

end Stats.UStat
