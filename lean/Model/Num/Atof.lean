/-
C03 — benchfmt/internal/bytesconv/atof.go, statement by statement:
`special`, `readFloat`, `atof64exact`, `atofHex`, `atof64`, `ParseFloat(s, 64)`, and the reader's
`atof` wrapper (reader.go).

MODELLED-NOT-VERIFIED PART. The multiprecision slow path (`decimal.set`, `decimal.floatBits`,
decimal.go shifts and `RoundedInteger`) is *specified, not mirrored*: `slowPath` below is the
specification itself (`Spec.NumText.recognise` + exact evaluation + one rounding). Whether the
real slow path agrees with it is checked by the correspondence run only (K), on halfway cases
written out in full, long mantissas and the range boundaries. There is no Eisel–Lemire path in
this copy of strconv (it predates it).

`uint64` values are `Nat` (with `% 2^64` where the Go expression could wrap), `int` is `Int`.
Core Lean only; all functions total (the three `for` loops of `atofHex` run on fuel 64, which
always suffices: each iteration moves the top bit of a value below 2^64 by one position).
-/
import Model.Num.Atoi

namespace Num
open Spec.NumText (NumErr)

structure FloatRes where
  val : F64.Bits
  err : Option NumErr
  deriving Repr, DecidableEq

/-- the reader's view: a value only when `err == nil` -/
def FloatRes.toExcept (r : FloatRes) : Except NumErr F64.Bits :=
  match r.err with
  | none => .ok r.val
  | some e => .error e

/-! ### special -/

def foldc (c : UInt8) : UInt8 := if 65 ≤ c && c ≤ 90 then c + 32 else c

/-- `equalIgnoreCase(s1, s2)`; `s2` is one of the literals below -/
def equalIgnoreCase (s1 : Bytes) (t : Bytes) : Bool :=
  s1.length == t.length && (s1.zip t).all fun (a, b) => foldc a == foldc b

def litInf : Bytes := [105, 110, 102]                                   -- "inf"
def litInfinity : Bytes := [105, 110, 102, 105, 110, 105, 116, 121]     -- "infinity"
def litNan : Bytes := [110, 97, 110]                                    -- "nan"

def special (s : Bytes) : Option F64.Bits :=
  match s with
  | [] => none
  | c :: _ =>
    if c == 43 then
      if equalIgnoreCase s (43 :: litInf) || equalIgnoreCase s (43 :: litInfinity) then some F64.posInf else none
    else if c == 45 then
      if equalIgnoreCase s (45 :: litInf) || equalIgnoreCase s (45 :: litInfinity) then some F64.negInf else none
    else if c == 110 || c == 78 then
      if equalIgnoreCase s litNan then some F64.nan else none
    else if c == 105 || c == 73 then
      if equalIgnoreCase s litInf || equalIgnoreCase s litInfinity then some F64.posInf else none
    else none

/-! ### readFloat -/

/-- local variables of the mantissa loop -/
structure MS where
  mant : Nat := 0
  nd : Nat := 0
  ndMant : Nat := 0
  dp : Int := 0
  sawdot : Bool := false
  sawdigits : Bool := false
  trunc : Bool := false
  deriving Repr, DecidableEq

/-- the `for ; i < len(s); i++ { switch … }` mantissa loop; `none` is the `return` on a second
dot; otherwise the state and the unread suffix at the `break`. -/
def mantLoop (hex : Bool) : Bytes → MS → Option (MS × Bytes)
  | [], st => some (st, [])
  | c :: cs, st =>
    let base : Nat := if hex then 16 else 10
    let maxMantDigits : Nat := if hex then 16 else 19
    if c == 95 then mantLoop hex cs st
    else if c == 46 then
      if st.sawdot then none
      else mantLoop hex cs { st with sawdot := true, dp := st.nd }
    else if 48 ≤ c && c ≤ 57 then
      if c == 48 && st.nd == 0 then
        mantLoop hex cs { st with sawdigits := true, dp := st.dp - 1 }
      else if st.ndMant < maxMantDigits then
        mantLoop hex cs { st with sawdigits := true, nd := st.nd + 1,
                                  mant := ((st.mant * base) % 2 ^ 64 + (c - 48).toNat) % 2 ^ 64,
                                  ndMant := st.ndMant + 1 }
      else if c != 48 then
        mantLoop hex cs { st with sawdigits := true, nd := st.nd + 1, trunc := true }
      else mantLoop hex cs { st with sawdigits := true, nd := st.nd + 1 }
    else if hex && 97 ≤ lower c && lower c ≤ 102 then
      if st.ndMant < maxMantDigits then
        mantLoop hex cs { st with sawdigits := true, nd := st.nd + 1,
                                  mant := ((st.mant * 16) % 2 ^ 64 + (lower c - 97 + 10).toNat) % 2 ^ 64,
                                  ndMant := st.ndMant + 1 }
      else mantLoop hex cs { st with sawdigits := true, nd := st.nd + 1, trunc := true }
    else some (st, c :: cs)

/-- exponent digit loop: `for ; i < len(s) && (digit || '_'); i++` with the clamp `e < 10000` -/
def expLoop : Bytes → Nat → Nat × Bytes
  | [], e => (e, [])
  | c :: cs, e =>
    if c == 95 then expLoop cs e
    else if 48 ≤ c && c ≤ 57 then
      expLoop cs (if e < 10000 then e * 10 + (c.toNat - 48) else e)
    else (e, c :: cs)

structure RF where
  mant : Nat := 0
  exp : Int := 0
  neg : Bool := false
  trunc : Bool := false
  hex : Bool := false
  ok : Bool := false
  deriving Repr, DecidableEq

def isHexStart : Bytes → Bool
  | 48 :: x :: _ :: _ => lower x == 120     -- `i+2 < len(s) && s[i] == '0' && lower(s[i+1]) == 'x'`
  | _ => false

/-- `readFloat(s)`. On every failing `return` the model reports only `ok = false`, `hex`
(the one other result the callers look at: `if hex && ok`) and leaves the rest at zero. -/
def readFloat (s0 : Bytes) : RF :=
  match s0 with
  | [] => {}
  | c0 :: tl =>
    let neg := c0 == 45
    let s1 := if c0 == 43 || c0 == 45 then tl else s0
    let hex := isHexStart s1
    let s2 := if hex then s1.drop 2 else s1
    match mantLoop hex s2 {} with
    | none => { hex }
    | some (st, rest) =>
      if !st.sawdigits then { hex }
      else
        let dp0 : Int := if !st.sawdot then st.nd else st.dp
        let dp1 : Int := if hex then dp0 * 4 else dp0
        let ndMant : Nat := if hex then st.ndMant * 4 else st.ndMant
        let expChar : UInt8 := if hex then 112 else 101
        -- optional exponent
        let fin (dp : Int) (rest : Bytes) : RF :=
          if !rest.isEmpty then { hex }
          else { mant := st.mant, exp := if st.mant != 0 then dp - ndMant else 0,
                 neg, trunc := st.trunc, hex, ok := true }
        match rest with
        | c :: r1 =>
          if lower c == expChar then
            match r1 with
            | [] => { hex }
            | c1 :: r2 =>
              let esign : Int := if c1 == 45 then -1 else 1
              let r3 := if c1 == 43 || c1 == 45 then r2 else r1
              match r3 with
              | [] => { hex }
              | c2 :: _ =>
                if c2 < 48 || c2 > 57 then { hex }
                else
                  let (e, r4) := expLoop r3 0
                  fin (dp1 + (e : Int) * esign) r4
          else if hex then { hex }
          else fin dp1 rest
        | [] => if hex then { hex } else fin dp1 rest

/-! ### atof64exact -/

/-- `float64pow10[k]`: the Go compiler rounds the literals `1e0 … 1e22` correctly (all are exact) -/
def float64pow10 (k : Nat) : F64.Bits := F64.ofDecimal false 1 k

def pow10TableLen : Nat := 23

/-- the literal `1e15` -/
def f1e15 : F64.Bits := F64.ofDecimal false 1 15

def atof64exact (mantissa : Nat) (exp : Int) (neg : Bool) : Option F64.Bits :=
  if mantissa >>> 52 != 0 then none
  else
    let f0 := F64.ofInt mantissa
    let f := if neg then F64.neg f0 else f0
    if exp == 0 then some f
    else if exp > 0 && exp ≤ 15 + 22 then
      let (f, exp) := if exp > 22 then (F64.mul f (float64pow10 (exp - 22).toNat), (22 : Int)) else (f, exp)
      if F64.lt f1e15 f || F64.lt f (F64.neg f1e15) then none
      else some (F64.mul f (float64pow10 exp.toNat))
    else if exp < 0 && exp ≥ -22 then some (F64.div f (float64pow10 (-exp).toNat))
    else none

/-! ### atofHex (flt = &float64info: mantbits 52, expbits 11, bias -1023) -/

def hexNormUp : Nat → Nat → Int → Nat × Int
  | 0, m, e => (m, e)
  | fuel + 1, m, e =>
    if m != 0 && m >>> (52 + 2) == 0 then hexNormUp fuel (m <<< 1) (e - 1) else (m, e)

def hexNormDown : Nat → Nat → Int → Nat × Int
  | 0, m, e => (m, e)
  | fuel + 1, m, e =>
    if m >>> (1 + 52 + 2) != 0 then hexNormDown fuel (m >>> 1 ||| m &&& 1) (e + 1) else (m, e)

def hexDenorm (minExp : Int) : Nat → Nat → Int → Nat × Int
  | 0, m, e => (m, e)
  | fuel + 1, m, e =>
    if m > 1 && e < minExp - 2 then hexDenorm minExp fuel (m >>> 1 ||| m &&& 1) (e + 1) else (m, e)

def atofHex (mantissa : Nat) (exp0 : Int) (neg trunc : Bool) : FloatRes :=
  let bias : Int := -1023
  let maxExp : Int := 2 ^ 11 + bias - 2
  let minExp : Int := bias + 1
  let exp := exp0 + 52
  let (m, exp) := hexNormUp 64 mantissa exp
  let m := if trunc then m ||| 1 else m
  let (m, exp) := hexNormDown 64 m exp
  let (m, exp) := hexDenorm minExp 64 m exp
  -- round using two bottom bits
  let round := m &&& 3
  let m := m >>> 2
  let round := round ||| (m &&& 1)
  let exp := exp + 2
  let (m, exp) :=
    if round == 3 then
      let m := m + 1
      if m == 2 ^ 53 then (m >>> 1, exp + 1) else (m, exp)
    else (m, exp)
  let exp := if m >>> 52 == 0 then bias else exp
  let ovf := exp > maxExp
  let (m, exp) := if ovf then ((2 : Nat) ^ 52, maxExp + 1) else (m, exp)
  let bits : Nat := (m &&& (2 ^ 52 - 1)) ||| (((exp - bias) % 2048).toNat <<< 52)
  let bits := if neg then bits ||| 2 ^ 63 else bits
  ⟨UInt64.ofNat bits, if ovf then some .range else none⟩

/-! ### the slow path — SPECIFIED, NOT MIRRORED -/

/-- integer-part digits (leading zeros dropped) and fraction digits of a decimal text -/
def mantDigits (s : Bytes) : Bytes × Bytes :=
  let body := Spec.NumText.strip (Spec.NumText.splitSign s).2
  let ip := body.takeWhile Spec.NumText.isDec
  let fp := match body.dropWhile Spec.NumText.isDec with
    | 46 :: r => r.takeWhile Spec.NumText.isDec
    | _ => []
  (ip.dropWhile (· == 48), fp)

/-- THE ONE PIECE OF `decimal.set` THAT IS MIRRORED: its digit buffer holds 800 digits
(`b.d [800]byte`); later digits are dropped (`trunc` if one of them is non-zero), and the
position of the decimal point is then taken from the *capped* count (`b.dp = b.nd`). When the
integer part has more than 800 significant digits the decimal therefore denotes
D₈₀₀ · 10^E (E the exponent literal) instead of the text's value — finding N3 — and a dropped
non-zero digit acts as "slightly more than D₈₀₀": modelled exactly by one extra digit 1 (a
rounding boundary has at most ~770 significant digits, so none lies strictly between).
For at most 800 integer digits the cap is harmless and the specification's (mant, exp) stand. -/
def decimalCap (s : Bytes) (p : Spec.NumText.Parsed) : Nat × Int :=
  let (ip, fp) := mantDigits s
  if ip.length > 800 then
    let d800 := Spec.NumText.valOf 10 (ip.take 800)
    let e : Int := p.exp + (fp.length : Int)      -- the exponent literal itself
    if (ip.drop 800 ++ fp).any (· != 48) then (d800 * 10 + 1, e - 1) else (d800, e)
  else (p.mant, p.exp)

/-- is the text in the class of finding N3? -/
def inClassN3 (s : Bytes) : Bool :=
  match Spec.NumText.recognise s with
  | some p => !p.hex && (mantDigits s).1.length > 800
  | none => false

/-- THE OTHER PIECE OF `decimal.set` THAT IS MIRRORED: its exponent digit loop stops accumulating
at `e >= 10000` (`if e < 10000 { e = e*10 + digit }`), exactly like `readFloat`'s (`expLoop`).
An exponent literal below 100000 is therefore read exactly; of a longer one only the first five
significant digits are kept. `clampGap s` = (clamped literal − literal), signed like the
exponent: what has to be added to the specification's exponent to get the code's. It only matters
when the mantissa text compensates it (about 9 700 digits or zeros), see notes/C03.md. -/
def clampGap (s : Bytes) : Int :=
  let u := Spec.NumText.strip (Spec.NumText.splitSign s).2
  let r2 := match u.dropWhile Spec.NumText.isDec with
    | 46 :: r' => r'.dropWhile Spec.NumText.isDec
    | _ => u.dropWhile Spec.NumText.isDec
  match r2 with
  | _ :: r3 =>
    (if (Spec.NumText.splitSign r3).1 then -1 else 1) *
      ((((Spec.NumText.splitSign r3).2.foldl (fun a c => if a < 10000 then a * 10 + (c.toNat - 48) else a) 0 : Nat) : Int)
        - (Spec.NumText.valOf 10 (Spec.NumText.splitSign r3).2 : Int))
  | [] => 0

/-- `var d decimal; d.set(s); d.floatBits(&float64info)`: replaced by the specification of the
decimal grammar and of correct rounding. A hex-prefixed text never succeeds here (`d.set`
stops at the `x`). The two "obvious overflow/underflow" exits of `floatBits` (`d.dp > 310`,
`d.dp < -330`, where `d.dp` = number of significant digits + exponent) are mirrored so that the
model never has to evaluate 10^(10^12); `d.set` clamps the exponent literal (`clampGap`). -/
def slowPath (s : Bytes) : FloatRes :=
  match Spec.NumText.recognise s with
  | none => ⟨0, some .syntax⟩
  | some p =>
    if p.hex then ⟨0, some .syntax⟩
    else
      let (m, e) := decimalCap s p
      let e := e + clampGap s
      if m == 0 then ⟨F64.zero p.neg, none⟩
      else
        let dp : Int := ((Nat.toDigits 10 m).length : Int) + e
        if dp > 310 then ⟨F64.inf p.neg, some .range⟩
        else if dp < -330 then ⟨F64.zero p.neg, none⟩
        else match ({ p with mant := m, exp := e } : Spec.NumText.Parsed).eval with
          | .ok b => ⟨b, none⟩
          | .error _ => ⟨F64.inf p.neg, some .range⟩

/-! ### atof64 / ParseFloat -/

def atof64 (s : Bytes) : FloatRes :=
  match special s with
  | some v => ⟨v, none⟩
  | none =>
    let r := readFloat s
    if r.hex && r.ok then atofHex r.mant r.exp r.neg r.trunc
    else
      let fast : Option F64.Bits :=
        if r.ok && !r.trunc then atof64exact r.mant r.exp r.neg else none
      match fast with
      | some f => ⟨f, none⟩
      | none => slowPath s

/-- `ParseFloat(s, 64)` -/
def parseFloat (s : Bytes) : FloatRes :=
  if !underscoreOK s then ⟨0, some .syntax⟩ else atof64 s

/-- reader.go `atof` -/
def readerAtof (x : Bytes) : FloatRes :=
  match atofLoop x 0 with
  | some val => ⟨F64.ofInt val, none⟩
  | none => parseFloat x

end Num
