/-
C03 — benchfmt/internal/bytesconv/decimal.go, the rounding step of the multiprecision slow path:
`shouldRoundUp` and `RoundedInteger`. (The rest of decimal.go — `set`, the shift tables,
`floatBits`' scaling loop — is not mirrored; see Model/Num/Atof.lean.)

A `decimal` is its used digits `d[:nd]` (ASCII, most significant first), the position `dp` of
the decimal point (value = 0.d₁d₂…dₙ · 10^dp) and the `trunc` flag. `uint64` arithmetic is `Nat`
with an explicit `% 2^64`.

Core Lean only.
-/
import Model.Spec.NumText

namespace Num

structure Dec where
  d : Bytes
  dp : Int
  trunc : Bool
  deriving Repr, DecidableEq

/-- `shouldRoundUp(a, nd)` -/
def shouldRoundUp (a : Dec) (nd : Int) : Bool :=
  if nd < 0 || nd ≥ (a.d.length : Int) then false
  else
    let k := nd.toNat
    let c := a.d.getD k 48
    if c == 53 && k + 1 == a.d.length then
      -- exactly halfway - round to even
      if a.trunc then true
      else k > 0 && (a.d.getD (k - 1) 48 - 48) % 2 != 0
    else c ≥ 53

/-- first loop of `RoundedInteger`: `n = n*10 + d[i]-'0'` over the digits before the point -/
def riDigits : Bytes → Nat → Nat
  | [], n => n
  | c :: cs, n => riDigits cs (((n * 10) % 2 ^ 64 + (c - 48).toNat) % 2 ^ 64)

/-- second loop: `n *= 10` for the missing digits -/
def riPad : Nat → Nat → Nat
  | 0, n => n
  | k + 1, n => riPad k ((n * 10) % 2 ^ 64)

/-- `a.RoundedInteger()` -/
def roundedInteger (a : Dec) : Nat :=
  if a.dp > 20 then 0xFFFFFFFFFFFFFFFF
  else
    let k := a.dp.toNat
    let n := riDigits (a.d.take k) 0
    let n := riPad (k - a.d.length) n
    if shouldRoundUp a a.dp then (n + 1) % 2 ^ 64 else n

end Num
