/-
C03 — benchfmt/internal/bytesconv/decimal.go and the slow path of atof.go, MIRRORED statement by
statement: `decimal` (digits d[:nd], dp, neg, trunc; buffer of 800 digits), `trim`, `rightShift`,
`leftShift` with `prefixIsLessThan` and the `leftcheats` table, `Shift`, `decimal.set`,
`decimal.floatBits` (scaling loops with `powtab`, denormal shift, `RoundedInteger`, rounding
carry, overflow, assembly of the bits).

Conventions. The digit array `a.d[0:a.nd]` is a `Bytes` (ASCII digits, most significant first);
both shifts read and write the same array in Go, but the write index never overtakes the read
index (rightShift: w ≤ r; leftShift: w ≥ r going down), so building a new list is the same
function. `uint` is `Nat`: with k ≤ maxShift = 60 the accumulator stays below 10·2^60 + 9 < 2^64.
Loops whose termination is arithmetic run on fuel that always suffices (stated at each).

The `leftcheats` table below was transcribed from the Go source by script; the harness compares
it with the table compiled into bytesconv on every run (`kind=cheats`).

Core Lean only.
-/
import Model.Num.Decimal
import Model.Num.Atof

namespace Num

/-- `len(a.d)` -/
def bufLen : Nat := 800
/-- `maxShift = uintSize - 4` on a 64-bit platform -/
def maxShift : Nat := 60

/-- the Go `decimal` -/
structure Dc where
  d : Bytes := []
  dp : Int := 0
  neg : Bool := false
  trunc : Bool := false
  deriving Repr, DecidableEq

/-- `trim(a)`: drop trailing zeros; an empty number has dp = 0 -/
def trimZeros (ds : Bytes) : Bytes := (ds.reverse.dropWhile (· == 48)).reverse

def Dc.trim (a : Dc) : Dc :=
  let ds := trimZeros a.d
  { a with d := ds, dp := if ds.isEmpty then 0 else a.dp }

/-! ### rightShift -/

/-- `for n>>k == 0 { n = n * 10; r++ }` (digits exhausted); at most k/3 + 1 rounds -/
def rsPad (k : Nat) : Nat → Nat → Nat → Nat × Nat
  | 0, n, r => (n, r)
  | fuel + 1, n, r => if n >>> k == 0 then rsPad k fuel (n * 10) (r + 1) else (n, r)

/-- first loop: "pick up enough leading digits to cover first shift".
Returns `none` for the `a == 0` exit, else (n, r, unread digits). -/
def rsPick (k : Nat) : Bytes → Nat → Nat → Option (Nat × Nat × Bytes)
  | [], n, r =>
    if n >>> k != 0 then some (n, r, [])
    else if n == 0 then none
    else let (n', r') := rsPad k 64 n r; some (n', r', [])
  | c :: cs, n, r =>
    if n >>> k != 0 then some (n, r, c :: cs)
    else rsPick k cs (n * 10 + (c.toNat - 48)) (r + 1)

/-- second loop: "pick up a digit, put down a digit"; `out` is the written prefix, reversed -/
def rsMain (k : Nat) : Bytes → Nat → Bytes → Nat × Bytes
  | [], n, out => (n, out)
  | c :: cs, n, out =>
    let dig := n >>> k
    let n := n &&& (2 ^ k - 1)
    rsMain k cs (n * 10 + (c.toNat - 48)) (UInt8.ofNat (dig + 48) :: out)

/-- third loop: "put down extra digits" (`for n > 0`); the remainder has at most k fractional
decimal digits, so 64 rounds suffice. `w` is the number of digits written so far. -/
def rsTail (k : Nat) : Nat → Nat → Nat → Bytes → Bool → Bytes × Bool
  | 0, _, _, out, tr => (out, tr)
  | fuel + 1, n, w, out, tr =>
    if n > 0 then
      let dig := n >>> k
      let n := n &&& (2 ^ k - 1)
      if w < bufLen then rsTail k fuel (n * 10) (w + 1) (UInt8.ofNat (dig + 48) :: out) tr
      else rsTail k fuel (n * 10) w out (if dig > 0 then true else tr)
    else (out, tr)

/-- `rightShift(a, k)`, k ≤ maxShift -/
def rightShift (a : Dc) (k : Nat) : Dc :=
  match rsPick k a.d 0 0 with
  | none => { a with d := [] }          -- a == 0: `a.nd = 0; return` (no trim, dp kept)
  | some (n, r, rest) =>
    let dp := a.dp - ((r : Int) - 1)
    let (n, out) := rsMain k rest n []
    let (out, tr) := rsTail k 64 n out.length out a.trunc
    ({ a with d := out.reverse, dp := dp, trunc := tr } : Dc).trim

/-! ### leftShift -/

/-- `leftcheats`: (delta, cutoff) indexed by the shift count 0 … 60 -/
def leftcheats : List (Nat × Bytes) := [
  (0, []),
  (1, [53]),
  (1, [50, 53]),
  (1, [49, 50, 53]),
  (2, [54, 50, 53]),
  (2, [51, 49, 50, 53]),
  (2, [49, 53, 54, 50, 53]),
  (3, [55, 56, 49, 50, 53]),
  (3, [51, 57, 48, 54, 50, 53]),
  (3, [49, 57, 53, 51, 49, 50, 53]),
  (4, [57, 55, 54, 53, 54, 50, 53]),
  (4, [52, 56, 56, 50, 56, 49, 50, 53]),
  (4, [50, 52, 52, 49, 52, 48, 54, 50, 53]),
  (4, [49, 50, 50, 48, 55, 48, 51, 49, 50, 53]),
  (5, [54, 49, 48, 51, 53, 49, 53, 54, 50, 53]),
  (5, [51, 48, 53, 49, 55, 53, 55, 56, 49, 50, 53]),
  (5, [49, 53, 50, 53, 56, 55, 56, 57, 48, 54, 50, 53]),
  (6, [55, 54, 50, 57, 51, 57, 52, 53, 51, 49, 50, 53]),
  (6, [51, 56, 49, 52, 54, 57, 55, 50, 54, 53, 54, 50, 53]),
  (6, [49, 57, 48, 55, 51, 52, 56, 54, 51, 50, 56, 49, 50, 53]),
  (7, [57, 53, 51, 54, 55, 52, 51, 49, 54, 52, 48, 54, 50, 53]),
  (7, [52, 55, 54, 56, 51, 55, 49, 53, 56, 50, 48, 51, 49, 50, 53]),
  (7, [50, 51, 56, 52, 49, 56, 53, 55, 57, 49, 48, 49, 53, 54, 50, 53]),
  (7, [49, 49, 57, 50, 48, 57, 50, 56, 57, 53, 53, 48, 55, 56, 49, 50, 53]),
  (8, [53, 57, 54, 48, 52, 54, 52, 52, 55, 55, 53, 51, 57, 48, 54, 50, 53]),
  (8, [50, 57, 56, 48, 50, 51, 50, 50, 51, 56, 55, 54, 57, 53, 51, 49, 50, 53]),
  (8, [49, 52, 57, 48, 49, 49, 54, 49, 49, 57, 51, 56, 52, 55, 54, 53, 54, 50, 53]),
  (9, [55, 52, 53, 48, 53, 56, 48, 53, 57, 54, 57, 50, 51, 56, 50, 56, 49, 50, 53]),
  (9, [51, 55, 50, 53, 50, 57, 48, 50, 57, 56, 52, 54, 49, 57, 49, 52, 48, 54, 50, 53]),
  (9, [49, 56, 54, 50, 54, 52, 53, 49, 52, 57, 50, 51, 48, 57, 53, 55, 48, 51, 49, 50, 53]),
  (10, [57, 51, 49, 51, 50, 50, 53, 55, 52, 54, 49, 53, 52, 55, 56, 53, 49, 53, 54, 50, 53]),
  (10, [52, 54, 53, 54, 54, 49, 50, 56, 55, 51, 48, 55, 55, 51, 57, 50, 53, 55, 56, 49, 50, 53]),
  (10, [50, 51, 50, 56, 51, 48, 54, 52, 51, 54, 53, 51, 56, 54, 57, 54, 50, 56, 57, 48, 54, 50, 53]),
  (10, [49, 49, 54, 52, 49, 53, 51, 50, 49, 56, 50, 54, 57, 51, 52, 56, 49, 52, 52, 53, 51, 49, 50, 53]),
  (11, [53, 56, 50, 48, 55, 54, 54, 48, 57, 49, 51, 52, 54, 55, 52, 48, 55, 50, 50, 54, 53, 54, 50, 53]),
  (11, [50, 57, 49, 48, 51, 56, 51, 48, 52, 53, 54, 55, 51, 51, 55, 48, 51, 54, 49, 51, 50, 56, 49, 50, 53]),
  (11, [49, 52, 53, 53, 49, 57, 49, 53, 50, 50, 56, 51, 54, 54, 56, 53, 49, 56, 48, 54, 54, 52, 48, 54, 50, 53]),
  (12, [55, 50, 55, 53, 57, 53, 55, 54, 49, 52, 49, 56, 51, 52, 50, 53, 57, 48, 51, 51, 50, 48, 51, 49, 50, 53]),
  (12, [51, 54, 51, 55, 57, 55, 56, 56, 48, 55, 48, 57, 49, 55, 49, 50, 57, 53, 49, 54, 54, 48, 49, 53, 54, 50, 53]),
  (12, [49, 56, 49, 56, 57, 56, 57, 52, 48, 51, 53, 52, 53, 56, 53, 54, 52, 55, 53, 56, 51, 48, 48, 55, 56, 49, 50, 53]),
  (13, [57, 48, 57, 52, 57, 52, 55, 48, 49, 55, 55, 50, 57, 50, 56, 50, 51, 55, 57, 49, 53, 48, 51, 57, 48, 54, 50, 53]),
  (13, [52, 53, 52, 55, 52, 55, 51, 53, 48, 56, 56, 54, 52, 54, 52, 49, 49, 56, 57, 53, 55, 53, 49, 57, 53, 51, 49, 50, 53]),
  (13, [50, 50, 55, 51, 55, 51, 54, 55, 53, 52, 52, 51, 50, 51, 50, 48, 53, 57, 52, 55, 56, 55, 53, 57, 55, 54, 53, 54, 50, 53]),
  (13, [49, 49, 51, 54, 56, 54, 56, 51, 55, 55, 50, 49, 54, 49, 54, 48, 50, 57, 55, 51, 57, 51, 55, 57, 56, 56, 50, 56, 49, 50, 53]),
  (14, [53, 54, 56, 52, 51, 52, 49, 56, 56, 54, 48, 56, 48, 56, 48, 49, 52, 56, 54, 57, 54, 56, 57, 57, 52, 49, 52, 48, 54, 50, 53]),
  (14, [50, 56, 52, 50, 49, 55, 48, 57, 52, 51, 48, 52, 48, 52, 48, 48, 55, 52, 51, 52, 56, 52, 52, 57, 55, 48, 55, 48, 51, 49, 50, 53]),
  (14, [49, 52, 50, 49, 48, 56, 53, 52, 55, 49, 53, 50, 48, 50, 48, 48, 51, 55, 49, 55, 52, 50, 50, 52, 56, 53, 51, 53, 49, 53, 54, 50, 53]),
  (15, [55, 49, 48, 53, 52, 50, 55, 51, 53, 55, 54, 48, 49, 48, 48, 49, 56, 53, 56, 55, 49, 49, 50, 52, 50, 54, 55, 53, 55, 56, 49, 50, 53]),
  (15, [51, 53, 53, 50, 55, 49, 51, 54, 55, 56, 56, 48, 48, 53, 48, 48, 57, 50, 57, 51, 53, 53, 54, 50, 49, 51, 51, 55, 56, 57, 48, 54, 50, 53]),
  (15, [49, 55, 55, 54, 51, 53, 54, 56, 51, 57, 52, 48, 48, 50, 53, 48, 52, 54, 52, 54, 55, 55, 56, 49, 48, 54, 54, 56, 57, 52, 53, 51, 49, 50, 53]),
  (16, [56, 56, 56, 49, 55, 56, 52, 49, 57, 55, 48, 48, 49, 50, 53, 50, 51, 50, 51, 51, 56, 57, 48, 53, 51, 51, 52, 52, 55, 50, 54, 53, 54, 50, 53]),
  (16, [52, 52, 52, 48, 56, 57, 50, 48, 57, 56, 53, 48, 48, 54, 50, 54, 49, 54, 49, 54, 57, 52, 53, 50, 54, 54, 55, 50, 51, 54, 51, 50, 56, 49, 50, 53]),
  (16, [50, 50, 50, 48, 52, 52, 54, 48, 52, 57, 50, 53, 48, 51, 49, 51, 48, 56, 48, 56, 52, 55, 50, 54, 51, 51, 51, 54, 49, 56, 49, 54, 52, 48, 54, 50, 53]),
  (16, [49, 49, 49, 48, 50, 50, 51, 48, 50, 52, 54, 50, 53, 49, 53, 54, 53, 52, 48, 52, 50, 51, 54, 51, 49, 54, 54, 56, 48, 57, 48, 56, 50, 48, 51, 49, 50, 53]),
  (17, [53, 53, 53, 49, 49, 49, 53, 49, 50, 51, 49, 50, 53, 55, 56, 50, 55, 48, 50, 49, 49, 56, 49, 53, 56, 51, 52, 48, 52, 53, 52, 49, 48, 49, 53, 54, 50, 53]),
  (17, [50, 55, 55, 53, 53, 53, 55, 53, 54, 49, 53, 54, 50, 56, 57, 49, 51, 53, 49, 48, 53, 57, 48, 55, 57, 49, 55, 48, 50, 50, 55, 48, 53, 48, 55, 56, 49, 50, 53]),
  (17, [49, 51, 56, 55, 55, 55, 56, 55, 56, 48, 55, 56, 49, 52, 52, 53, 54, 55, 53, 53, 50, 57, 53, 51, 57, 53, 56, 53, 49, 49, 51, 53, 50, 53, 51, 57, 48, 54, 50, 53]),
  (18, [54, 57, 51, 56, 56, 57, 51, 57, 48, 51, 57, 48, 55, 50, 50, 56, 51, 55, 55, 54, 52, 55, 54, 57, 55, 57, 50, 53, 53, 54, 55, 54, 50, 54, 57, 53, 51, 49, 50, 53]),
  (18, [51, 52, 54, 57, 52, 52, 54, 57, 53, 49, 57, 53, 51, 54, 49, 52, 49, 56, 56, 56, 50, 51, 56, 52, 56, 57, 54, 50, 55, 56, 51, 56, 49, 51, 52, 55, 54, 53, 54, 50, 53]),
  (18, [49, 55, 51, 52, 55, 50, 51, 52, 55, 53, 57, 55, 54, 56, 48, 55, 48, 57, 52, 52, 49, 49, 57, 50, 52, 52, 56, 49, 51, 57, 49, 57, 48, 54, 55, 51, 56, 50, 56, 49, 50, 53]),
  (19, [56, 54, 55, 51, 54, 49, 55, 51, 55, 57, 56, 56, 52, 48, 51, 53, 52, 55, 50, 48, 53, 57, 54, 50, 50, 52, 48, 54, 57, 53, 57, 53, 51, 51, 54, 57, 49, 52, 48, 54, 50, 53])
]

/-- `prefixIsLessThan(b, s)` -/
def prefixIsLessThan : Bytes → Bytes → Bool
  | _, [] => false
  | [], _ :: _ => true
  | b :: bs, s :: ss => if b != s then b < s else prefixIsLessThan bs ss

/-- first loop of leftShift, from the least significant digit (`rds` = digits reversed): produces
the remainders least significant first (`out` = most significant produced first … i.e. the
digits in final order, since each new remainder is more significant than the previous) -/
def lsMain (k : Nat) : Bytes → Nat → Bytes → Nat × Bytes
  | [], n, out => (n, out)
  | c :: cs, n, out =>
    let n := n + ((c.toNat - 48) <<< k)
    let quo := n / 10
    let rem := n - 10 * quo
    lsMain k cs quo (UInt8.ofNat (rem + 48) :: out)

/-- second loop: "put down extra digits" (`for n > 0`); n < 2^64 has at most 20 digits -/
def lsTail : Nat → Nat → Bytes → Bytes
  | 0, _, out => out
  | fuel + 1, n, out =>
    if n > 0 then
      let quo := n / 10
      let rem := n - 10 * quo
      lsTail fuel quo (UInt8.ofNat (rem + 48) :: out)
    else out

/-- `leftShift(a, k)`, k ≤ maxShift. All produced digits, most significant first, are `all`;
Go writes them at indices w-1, w-2, … starting from w = nd + delta, so they fill the array
exactly when their number is nd + delta (that the cheat table guarantees this is a theorem);
digits landing at indices ≥ 800 are dropped (`trunc` if non-zero). If the count were different
the Go code would either leave stale leading digits or index out of range — the model then
returns the produced digits unaligned (unreachable). -/
def leftShift (a : Dc) (k : Nat) : Dc :=
  let (delta0, cutoff) := leftcheats.getD k (0, [])
  let delta := if prefixIsLessThan a.d cutoff then delta0 - 1 else delta0
  let (n, out) := lsMain k a.d.reverse 0 []
  let all := lsTail 64 n out
  let w0 := a.d.length + delta
  let kept := all.take bufLen
  let dropped := all.drop bufLen
  let tr := a.trunc || dropped.any (· != 48)
  let nd := min w0 bufLen
  ({ a with d := kept.take (nd + (all.length - w0)), dp := a.dp + (delta : Int), trunc := tr } : Dc).trim

/-! ### Shift -/

def shiftLeftBy : Nat → Dc → Nat → Dc     -- fuel, a, k > 0
  | 0, a, _ => a
  | fuel + 1, a, k => if k > maxShift then shiftLeftBy fuel (leftShift a maxShift) (k - maxShift) else leftShift a k

def shiftRightBy : Nat → Dc → Nat → Dc    -- fuel, a, k > 0 (the shift count is −k)
  | 0, a, _ => a
  | fuel + 1, a, k => if k > maxShift then shiftRightBy fuel (rightShift a maxShift) (k - maxShift) else rightShift a k

/-- `a.Shift(k)`; |k| is below 60·100 in every call of floatBits -/
def Dc.shift (a : Dc) (k : Int) : Dc :=
  if a.d.isEmpty then a
  else if k > 0 then shiftLeftBy 100 a k.toNat
  else if k < 0 then shiftRightBy 100 a (-k).toNat
  else a

/-! ### decimal.set (atof.go) -/

structure SetSt where
  acc : Bytes := []        -- digits stored so far, reversed
  nd : Nat := 0
  dp : Int := 0
  sawdot : Bool := false
  sawdigits : Bool := false
  trunc : Bool := false

/-- the digit loop of `set`; `none` = second dot -/
def setLoop : Bytes → SetSt → Option (SetSt × Bytes)
  | [], st => some (st, [])
  | c :: cs, st =>
    if c == 95 then setLoop cs st
    else if c == 46 then
      if st.sawdot then none else setLoop cs { st with sawdot := true, dp := st.nd }
    else if 48 ≤ c && c ≤ 57 then
      if c == 48 && st.nd == 0 then setLoop cs { st with sawdigits := true, dp := st.dp - 1 }
      else if st.nd < bufLen then setLoop cs { st with sawdigits := true, acc := c :: st.acc, nd := st.nd + 1 }
      else if c != 48 then setLoop cs { st with sawdigits := true, trunc := true }
      else setLoop cs { st with sawdigits := true }
    else some (st, c :: cs)

/-- `b.set(s)`: `none` = `ok == false` -/
def decSet (s0 : Bytes) : Option Dc :=
  match s0 with
  | [] => none
  | c0 :: tl =>
    let neg := c0 == 45
    let s1 := if c0 == 43 || c0 == 45 then tl else s0
    match setLoop s1 {} with
    | none => none
    | some (st, rest) =>
      if !st.sawdigits then none
      else
        let dp0 : Int := if !st.sawdot then st.nd else st.dp
        let mk (dp : Int) : Dc := { d := st.acc.reverse, dp := dp, neg := neg, trunc := st.trunc }
        match rest with
        | [] => some (mk dp0)
        | c :: r1 =>
          if lower c == 101 then
            match r1 with
            | [] => none
            | c1 :: r2 =>
              let esign : Int := if c1 == 45 then -1 else 1
              let r3 := if c1 == 43 || c1 == 45 then r2 else r1
              match r3 with
              | [] => none
              | c2 :: _ =>
                if c2 < 48 || c2 > 57 then none
                else
                  let (e, r4) := expLoop r3 0
                  if !r4.isEmpty then none else some (mk (dp0 + (e : Int) * esign))
          else none

/-! ### floatBits (flt = &float64info) -/

def powtab : List Nat := [1, 3, 6, 9, 13, 16, 19, 23, 26]

/-- `for d.dp > 0 { … d.Shift(-n); exp += n }` -/
def fbDown : Nat → Dc → Int → Dc × Int
  | 0, d, e => (d, e)
  | fuel + 1, d, e =>
    if d.dp > 0 then
      let n : Nat := if d.dp ≥ 9 then 27 else powtab.getD d.dp.toNat 27
      fbDown fuel (d.shift (-(n : Int))) (e + n)
    else (d, e)

/-- `for d.dp < 0 || d.dp == 0 && d.d[0] < '5' { … d.Shift(n); exp -= n }` -/
def fbUp : Nat → Dc → Int → Dc × Int
  | 0, d, e => (d, e)
  | fuel + 1, d, e =>
    if d.dp < 0 || (d.dp == 0 && d.d.headD 0 < 53) then
      let n : Nat := if -d.dp ≥ 9 then 27 else powtab.getD (-d.dp).toNat 27
      fbUp fuel (d.shift (n : Int)) (e - n)
    else (d, e)

structure FbRes where
  bits : UInt64
  ovf : Bool
  trunc : Bool        -- `d.trunc` after the call (floatBits works on the caller's decimal)
  deriving Repr, DecidableEq

def fbAssemble (neg : Bool) (mant : Nat) (exp : Int) : UInt64 :=
  let bias : Int := -1023
  let bits : Nat := (mant &&& (2 ^ 52 - 1)) ||| ((((exp - bias) % 2048).toNat) <<< 52)
  UInt64.ofNat (if neg then bits ||| 2 ^ 63 else bits)

/-- `d.floatBits(&float64info)`. Fuel: each round of the first loop divides by at least 2 and the
value is below 10^310 (≤ 1030 rounds); each round of the second multiplies by at least 2 and the
value is above 10^-331 (≤ 1100 rounds). -/
def floatBits (d0 : Dc) : FbRes :=
  let bias : Int := -1023
  if d0.d.isEmpty then ⟨fbAssemble d0.neg 0 bias, false, d0.trunc⟩
  else if d0.dp > 310 then ⟨fbAssemble d0.neg 0 (2 ^ 11 - 1 + bias), true, d0.trunc⟩
  else if d0.dp < -330 then ⟨fbAssemble d0.neg 0 bias, false, d0.trunc⟩
  else
    let (d, exp) := fbDown 2000 d0 0
    let (d, exp) := fbUp 2000 d exp
    let exp := exp - 1
    let (d, exp) := if exp < bias + 1 then (d.shift (-((bias + 1 - exp))), bias + 1) else (d, exp)
    if exp - bias ≥ 2 ^ 11 - 1 then ⟨fbAssemble d0.neg 0 (2 ^ 11 - 1 + bias), true, d.trunc⟩
    else
      let d := d.shift 53
      let mant := roundedInteger { d := d.d, dp := d.dp, trunc := d.trunc }
      let (mant, exp, ovf) :=
        if mant == 2 ^ 53 then
          (mant >>> 1, exp + 1, decide (exp + 1 - bias ≥ 2 ^ 11 - 1))
        else (mant, exp, false)
      if ovf then ⟨fbAssemble d0.neg 0 (2 ^ 11 - 1 + bias), true, d.trunc⟩
      else
        let exp := if mant &&& 2 ^ 52 == 0 then bias else exp
        ⟨fbAssemble d0.neg mant exp, false, d.trunc⟩

/-- the mirrored slow path of `atof64`: `d.set(s)`, `d.floatBits(&float64info)` -/
def slowPathMirror (s : Bytes) : FloatRes :=
  match decSet s with
  | none => ⟨0, some .syntax⟩
  | some d =>
    let r := floatBits d
    ⟨r.bits, if r.ovf then some .range else none⟩

/-! ### the fully mirrored parser: `atof64` / `ParseFloat` / reader `atof` with the mirrored slow path -/

/-- `atof64` with `slowPathMirror` in place of the specified slow path -/
def atof64Mirror (s : Bytes) : FloatRes :=
  match special s with
  | some v => ⟨v, none⟩
  | none =>
    let r := readFloat s
    if r.hex && r.ok then atofHex r.mant r.exp r.neg r.trunc
    else
      let fast : Option F64.Bits :=
        if r.ok && !r.trunc then atof64exact r.mant r.exp r.neg else none
      match fast with
      | some f => ⟨f, none⟩
      | none => slowPathMirror s

def parseFloatMirror (s : Bytes) : FloatRes :=
  if !underscoreOK s then ⟨0, some .syntax⟩ else atof64Mirror s

def readerAtofMirror (x : Bytes) : FloatRes :=
  match atofLoop x 0 with
  | some val => ⟨F64.ofInt val, none⟩
  | none => parseFloatMirror x

end Num
