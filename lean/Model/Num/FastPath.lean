/-
C03 — the two integer fast paths, statement by statement.

* `atofLoop`    benchfmt/reader.go `atof`: the digit loop over an `int64` accumulator with the
                guard `val > (math.MaxInt64-10)/10`; `none` is `goto fail`.
* `atoiFast`    benchfmt/internal/bytesconv/atoi.go `Atoi`, the branch
                `intSize == 64 && (0 < sLen && sLen < 19)`.

`int64`/`int` arithmetic is modelled as `Int` followed by an explicit two's-complement wrap
(`wrap64`); that the wrap never fires is a theorem (C03.atof_fast_no_overflow,
C03.atoi_fast_correct), not an assumption. 64-bit platform (`intSize == 64`).

Core Lean only.
-/
import Model.Spec.NumText

namespace Num
open Spec.NumText (NumErr)

def maxInt64 : Int := 9223372036854775807

/-- two's-complement wrap of an `Int` into the `int64` range -/
def wrap64 (i : Int) : Int := (i + 2 ^ 63) % 2 ^ 64 - 2 ^ 63

/-- the guard constant `(math.MaxInt64-10)/10` -/
def atofGuard : Int := (maxInt64 - 10) / 10

/-- reader.go `atof`, the `for _, ch := range x` loop. `ch - '0'` is byte arithmetic (wraps). -/
def atofLoop : Bytes → Int → Option Int
  | [], val => some val
  | ch :: rest, val =>
    let digit : UInt8 := ch - 48
    if digit ≥ 10 then none
    else if val > atofGuard then none
    else atofLoop rest (wrap64 (val * 10 + (digit.toNat : Int)))

/-- result of an integer parser: Go returns a value *and* an error -/
structure IntRes where
  val : Int
  err : Option NumErr
  deriving Repr, DecidableEq

/-- the reader's view: a value only when `err == nil` -/
def IntRes.toExcept (r : IntRes) : Except NumErr Int :=
  match r.err with
  | none => .ok r.val
  | some e => .error e

/-- `Atoi` fast path: the `for _, ch := range s` loop; `none` = the syntax-error return -/
def atoiLoop : Bytes → Int → Option Int
  | [], n => some n
  | ch :: rest, n =>
    let d : UInt8 := ch - 48
    if d > 9 then none
    else atoiLoop rest (wrap64 (n * 10 + (d.toNat : Int)))

/-- does `Atoi` take its fast path? (`0 < sLen && sLen < 19`) -/
def atoiFastApplies (s : Bytes) : Bool := 0 < s.length && s.length < 19

/-- body of the fast path (precondition `atoiFastApplies s`) -/
def atoiFast (s0 : Bytes) : IntRes :=
  match s0 with
  | [] => ⟨0, some .syntax⟩       -- unreachable under the precondition
  | c0 :: tl =>
    let s := if c0 == 45 || c0 == 43 then tl else s0
    if (c0 == 45 || c0 == 43) && s.length < 1 then ⟨0, some .syntax⟩
    else
      match atoiLoop s 0 with
      | none => ⟨0, some .syntax⟩
      | some n => ⟨if c0 == 45 then wrap64 (-n) else n, none⟩

end Num
