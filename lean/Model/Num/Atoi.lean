/-
C03 — benchfmt/internal/bytesconv/atoi.go: `underscoreOK`, `ParseUint`, `ParseInt`, `Atoi`.

The reader reaches these only as `Atoi(f)` → `ParseInt(s, 10, 0)` → `ParseUint(s, 10, 64)`
(`bitSize 0` becomes `IntSize = 64`), so `base = 10`, `base0 = false`, `bitSize = 64` are fixed:
the base-prefix switch, `baseError` and `bitSizeError` are unreachable and not modelled.
`uint64` arithmetic is `Nat` followed by an explicit `% 2^64`.

Core Lean only.
-/
import Model.Num.FastPath

namespace Num
open Spec.NumText (NumErr)

/-- Go's `lower(c) = c | ('x' - 'X')` -/
def lower (c : UInt8) : UInt8 := c ||| 0x20

/-! ### underscoreOK -/

/-- the `saw` variable: `^` beginning, `0` digit or base prefix, `_` underscore, `!` other -/
inductive Saw where
  | start | digit | under | other
  deriving Repr, DecidableEq

/-- the "number proper" loop of `underscoreOK` -/
def underscoreLoop (hex : Bool) : Bytes → Saw → Bool
  | [], saw => saw != .under
  | c :: cs, saw =>
    if (48 ≤ c && c ≤ 57) || (hex && 97 ≤ lower c && lower c ≤ 102) then underscoreLoop hex cs .digit
    else if c == 95 then
      if saw != .digit then false else underscoreLoop hex cs .under
    else if saw == .under then false
    else underscoreLoop hex cs .other

def underscoreOK (s0 : Bytes) : Bool :=
  -- optional sign
  let s := match s0 with
    | c :: r => if c == 45 || c == 43 then r else s0
    | [] => s0
  -- optional base prefix
  match s with
  | 48 :: x :: r =>
    if lower x == 98 || lower x == 111 || lower x == 120 then
      underscoreLoop (lower x == 120) r .digit
    else underscoreLoop false s .start
  | _ => underscoreLoop false s .start

/-! ### ParseUint(s, 10, 64) -/

def maxUint64 : Nat := 2 ^ 64 - 1
/-- `cutoff = math.MaxUint64/10 + 1` -/
def uintCutoff : Nat := maxUint64 / 10 + 1
/-- `maxVal = uint64(1)<<uint(bitSize) - 1` with bitSize = 64: the shift gives 0, minus 1 wraps -/
def uintMaxVal : Nat := maxUint64

structure UintRes where
  val : Nat
  err : Option NumErr
  deriving Repr, DecidableEq

/-- the `for _, c := range s` loop of `ParseUint` for base 10 -/
def parseUintLoop : Bytes → Nat → UintRes
  | [], n => ⟨n, none⟩
  | c :: cs, n =>
    -- `case c == '_' && base0` is dead: base0 = false
    let d? : Option UInt8 :=
      if 48 ≤ c && c ≤ 57 then some (c - 48)
      else if 97 ≤ lower c && lower c ≤ 122 then some (lower c - 97 + 10)
      else none
    match d? with
    | none => ⟨0, some .syntax⟩
    | some d =>
      if d ≥ 10 then ⟨0, some .syntax⟩
      else if n ≥ uintCutoff then ⟨uintMaxVal, some .range⟩
      else
        let n' := (n * 10) % 2 ^ 64
        let n1 := (n' + d.toNat) % 2 ^ 64
        if n1 < n' || n1 > uintMaxVal then ⟨uintMaxVal, some .range⟩
        else parseUintLoop cs n1

def parseUint (s : Bytes) : UintRes :=
  if s.length == 0 || !underscoreOK s then ⟨0, some .syntax⟩
  else parseUintLoop s 0

/-! ### ParseInt(s, 10, 0) -/

def parseInt (s0 : Bytes) : IntRes :=
  match s0 with
  | [] => ⟨0, some .syntax⟩
  | c0 :: tl =>
    let neg := c0 == 45
    let s := if c0 == 43 || c0 == 45 then tl else s0
    let un := parseUint s
    match un.err with
    | some .syntax => ⟨0, some .syntax⟩
    | _ =>
      let cutoff : Nat := 2 ^ 63
      if !neg && un.val ≥ cutoff then ⟨(cutoff : Int) - 1, some .range⟩
      else if neg && un.val > cutoff then ⟨-(cutoff : Int), some .range⟩
      else
        let n := wrap64 un.val          -- int64(un)
        ⟨if neg then wrap64 (-n) else n, none⟩

/-! ### Atoi -/

def atoi (s : Bytes) : IntRes :=
  if atoiFastApplies s then atoiFast s else parseInt s

end Num
