/-
C18 — model of benchseries.Builder.Add and Builder.AllComparisonSeries (benchseries.go:318-394,
456-667), at the level of ALREADY PROJECTED keys: one `Ev` per (result, measurement) carries the
string values of the unit, table, benchmark, experiment, series, compare, numerator-hash and
denominator-hash projections plus the value bits.  (benchproc projections, filters and key
interning are the concern of C05–C09; a key is identified with its tuple of values.)

Go keeps three nested maps  tables[unit,table].cells[bench,exp].{baseline, tests[numHash]}.
The model keeps the same information as a trie flattened into association lists
(`trials`, `base`, `tests`, `hto` = hashToOrder) with first-insertion order; everything that Go
obtains by ranging over a map is obtained here through an explicit iteration-order parameter
`Iter` (any permutation), so theorems can quantify over map iteration orders.

String order (`sort.Strings`, `cc.Date < dateString`) is the parameter `Env.le`; date
normalisation (`NormalizeDateString`) is the parameter `Env.norm` (instantiated by
Model/Series/Date.lean in the driver).  Core Lean only.
-/
import Model.Base.Bytes
import Model.Base.F64

namespace Series

abbrev Bits := F64.Bits

/-- one measurement of one result, projected -/
structure Ev where
  unit : Bytes
  table : List Bytes
  bench : Bytes
  exp : Bytes
  ser : Bytes
  cmp : Bytes
  nh : Bytes
  dh : Bytes
  val : Bits
  deriving DecidableEq, Repr

/-- BuilderOptions.Numerator / Denominator -/
structure Opts where
  num : Bytes
  den : Bytes

structure Env where
  norm : Bytes → Option Bytes
  le : Bytes → Bytes → Bool

def Env.lt (env : Env) (a b : Bytes) : Bool := !env.le b a

/-- bytewise lexicographic `a ≤ b`: Go's string comparison (the driver's `Env.le`) -/
def bytesLe : Bytes → Bytes → Bool
  | [], _ => true
  | _ :: _, [] => false
  | a :: as, b :: bs => a < b || (a == b && bytesLe as bs)

abbrev TKey := Bytes × List Bytes
abbrev TrialKey := TKey × Bytes × Bytes

def Ev.tkey (e : Ev) : TKey := (e.unit, e.table)
def Ev.trial (e : Ev) : TrialKey := (e.tkey, e.bench, e.exp)

/-- `switch cmpCfg.StringValues() { case b.denCompareVal: … case b.numCompareVal: … }` -/
def Ev.isDen (o : Opts) (e : Ev) : Bool := e.cmp = o.den
def Ev.isNum (o : Opts) (e : Ev) : Bool := e.cmp ≠ o.den && e.cmp = o.num

/-! ### association lists (Go maps with the iteration order made explicit) -/

def alookup {κ ν} [DecidableEq κ] (k : κ) : List (κ × ν) → Option ν
  | [] => none
  | (k', v) :: l => if k = k' then some v else alookup k l

/-- `m[k] = v` -/
def aset {κ ν} [DecidableEq κ] (k : κ) (v : ν) : List (κ × ν) → List (κ × ν)
  | [] => [(k, v)]
  | (k', v') :: l => if k = k' then (k, v) :: l else (k', v') :: aset k v l

structure Builder where
  /-- keys of every `table.cells` map (a table exists exactly when it has a trial) -/
  trials : List TrialKey := []
  /-- `trial.baseline` with `trial.baselineHashString` -/
  base : List (TrialKey × (Bytes × List Bits)) := []
  /-- `trial.tests[numHash]` -/
  tests : List ((TrialKey × Bytes) × List Bits) := []
  /-- `Builder.hashToOrder` -/
  hto : List (Bytes × Bytes) := []

/-- one iteration of the `for unitI, unitCfg := range unitCfgs` loop of Builder.Add -/
def add (o : Opts) (b : Builder) (e : Ev) : Builder :=
  let k := e.trial
  -- table / trial are created on first sight, whatever the role
  let b := { b with trials := if k ∈ b.trials then b.trials else b.trials ++ [k] }
  if e.isDen o then
    match alookup k b.base with
    | none => { b with base := aset k (e.dh, [e.val]) b.base }
    | some (h, vs) => { b with base := aset k (h, vs ++ [e.val]) b.base }
  else if e.isNum o then
    match alookup (k, e.nh) b.tests with
    | none => { b with tests := aset (k, e.nh) [e.val] b.tests, hto := aset e.nh e.ser b.hto }
    | some vs => { b with tests := aset (k, e.nh) (vs ++ [e.val]) b.tests }
  else b

def build (o : Opts) (evs : List Ev) : Builder := evs.foldl (add o) {}

/-! ### AllComparisonSeries (existing = nil) -/

inductive Policy | replace | combine
  deriving DecidableEq, Repr

/-- a Comparison: numerator values, optional denominator values, date -/
structure Cmp where
  num : List Bits
  den : Option (List Bits)
  date : Bytes
  deriving DecidableEq, Repr

/-- what one (trial, test) pair contributes -/
structure Contrib where
  bench : Bytes
  ser : Bytes
  date : Bytes
  num : List Bits
  den : Option (List Bits)
  hash : Bytes
  bhash : Bytes
  deriving DecidableEq, Repr

/-- map iteration orders: arbitrary rearrangements of the key lists (theorems assume `Perm`) -/
structure Iter where
  tables : List TKey → List TKey
  trials : List TrialKey → List TrialKey
  tests : List ((TrialKey × Bytes) × List Bits) → List ((TrialKey × Bytes) × List Bits)

def Iter.id : Iter := ⟨fun l => l, fun l => l, fun l => l⟩
def Iter.rev : Iter := ⟨List.reverse, List.reverse, List.reverse⟩

/-- `Key.StringValues` of the table key: non-empty values joined by blanks -/
def joinVals : List Bytes → Bytes
  | [] => []
  | v :: vs => if v = [] then joinVals vs else
      let r := joinVals vs
      if r = [] then v else v ++ [32] ++ r

/-- `uString` -/
def uString (k : TKey) : Bytes :=
  let ts := joinVals k.2
  if ts = [] then k.1 else k.1 ++ [32] ++ ts

def dedup {α} [DecidableEq α] : List α → List α
  | [] => []
  | a :: l => if a ∈ l then dedup l else a :: dedup l

/-- `sortStringSet` -/
def sortSet (env : Env) (l : List Bytes) : List Bytes := (dedup l).mergeSort env.le

/-- the `less` of sortTableKeys -/
def tableLess (env : Env) (a b : TKey) : Bool :=
  if a.1 ≠ b.1 then env.lt a.1 b.1
  else if a.2 = b.2 then false
  else env.lt (joinVals a.2) (joinVals b.2)

def tableKeys (b : Builder) : List TKey := dedup (b.trials.map (·.1))

def sortTableKeys (env : Env) (it : Iter) (b : Builder) : List TKey :=
  (it.tables (tableKeys b)).mergeSort (fun x y => !tableLess env y x)

def normD (env : Env) (s : Bytes) : Bytes := (env.norm s).getD []

/-- any experiment or series stamp that fails to normalise makes the whole call fail -/
def datesOk (env : Env) (b : Builder) : Bool :=
  b.trials.all (fun k => (env.norm k.2.2).isSome) &&
  b.tests.all (fun t => (env.norm ((alookup t.1.2 b.hto).getD [])).isSome)

def trialsOf (b : Builder) (t : TKey) : List TrialKey := b.trials.filter (fun k => k.1 = t)
def testsOf (b : Builder) (k : TrialKey) : List ((TrialKey × Bytes) × List Bits) :=
  b.tests.filter (fun x => x.1.1 = k)

def contribOf (env : Env) (b : Builder) (k : TrialKey) (x : (TrialKey × Bytes) × List Bits) : Contrib :=
  let bs := alookup k b.base
  { bench := k.2.1, ser := normD env ((alookup x.1.2 b.hto).getD []), date := normD env k.2.2,
    num := x.2, den := bs.map (·.2), hash := x.1.2, bhash := (bs.map (·.1)).getD [] }

/-- the (trial, test) pairs of one table in the order the two nested `range` loops visit them -/
def contribs (env : Env) (it : Iter) (b : Builder) (t : TKey) : List Contrib :=
  (it.trials (trialsOf b t)).flatMap fun k => (it.tests (testsOf b k)).map (contribOf env b k)

/-- `combineCells` on the value slices -/
def combineDen : Option (List Bits) → Option (List Bits) → Option (List Bits)
  | none, d => d
  | some a, none => some a
  | some a, some b => some (a ++ b)

structure Acc where
  cells : List ((Bytes × Bytes) × Cmp) := []
  hp : List (Bytes × (Bytes × Bytes)) := []

/-- the HashPairs update of benchseries.go:539-556 (after commit 83c6e29): first writer wins,
except that a missing denominator hash ("" — the trial had no baseline) is filled in by a later
trial with the same numerator hash -/
def setHP (ser : Bytes) (h bh : Bytes) (m : List (Bytes × (Bytes × Bytes))) : List (Bytes × (Bytes × Bytes)) :=
  match alookup ser m with
  | none => aset ser (h, bh) m
  | some (n, d) => if n = h ∧ d = [] then aset ser (n, bh) m else m

/-- body of `for hash, cell := range tr.tests` (benchseries.go:516-559) -/
def step (env : Env) (pol : Policy) (a : Acc) (c : Contrib) : Acc :=
  let sk := (c.bench, c.ser)
  let fresh : Cmp := { num := c.num, den := c.den, date := c.date }
  match alookup sk a.cells with
  | none => { cells := aset sk fresh a.cells, hp := setHP c.ser c.hash c.bhash a.hp }
  | some cc =>
    match pol with
    | .replace =>
      { cells := if env.lt cc.date c.date then aset sk fresh a.cells else a.cells,
        hp := setHP c.ser c.hash c.bhash a.hp }
    | .combine =>
      { cells := aset sk { num := cc.num ++ c.num, den := combineDen cc.den c.den,
                           date := if env.lt cc.date c.date then c.date else cc.date } a.cells,
        hp := a.hp }

/-- canonical sample: the multiset of bit patterns (sorted numerically) -/
def sortBits (l : List Bits) : List Bits := l.mergeSort (fun a b => a.toNat ≤ b.toNat)

structure Point where
  bench : Bytes
  ser : Bytes
  date : Bytes
  num : List Bits
  den : Option (List Bits)
  deriving DecidableEq, Repr

structure TableOut where
  unit : Bytes
  benches : List Bytes
  series : List Bytes
  hp : List (Bytes × Option (Bytes × Bytes))
  points : List Point
  deriving DecidableEq, Repr

def tableOut (env : Env) (pol : Policy) (it : Iter) (b : Builder) (t : TKey) : TableOut :=
  let cs := contribs env it b t
  let acc := cs.foldl (step env pol) {}
  let benches := sortSet env ((it.trials (trialsOf b t)).map (·.2.1))
  let series := sortSet env (cs.map (·.ser))
  { unit := uString t, benches := benches, series := series,
    hp := series.map (fun s => (s, alookup s acc.hp)),
    points := benches.flatMap fun bn => series.filterMap fun s =>
      (alookup (bn, s) acc.cells).map fun cc =>
        { bench := bn, ser := s, date := cc.date, num := sortBits cc.num, den := cc.den.map sortBits } }

def allSeries (env : Env) (pol : Policy) (it : Iter) (b : Builder) : Option (List TableOut) :=
  if datesOk env b then some ((sortTableKeys env it b).map (tableOut env pol it b)) else none

/-! ### when can the output depend on the map iteration order?  (mirrors `deterministic` of the
harness, which evaluates the same predicate on the real tables) -/

def pairwiseB {α} (r : α → α → Bool) : List α → Bool
  | [] => true
  | a :: l => l.all (r a) && pairwiseB r l

def detTable (env : Env) (pol : Policy) (b : Builder) (t : TKey) : Bool :=
  let cs := contribs env Iter.id b t
  pairwiseB (fun x y =>
    (x.ser ≠ y.ser || (x.hash = y.hash && (x.bhash = y.bhash || x.bhash = [] || y.bhash = []))) &&
    (pol ≠ .replace || x.bench ≠ y.bench || x.ser ≠ y.ser || x.date ≠ y.date)) cs &&
  -- combine: only the first-visited contribution of a cell reaches HashPairs, so a non-empty
  -- baseline hash of a series must be certain to be heard
  (pol ≠ .combine || cs.all fun x => x.bhash = [] ||
    cs.any fun c => c.ser = x.ser && cs.all fun d => d.ser ≠ c.ser || d.bench ≠ c.bench || d.bhash ≠ [])

def det (env : Env) (pol : Policy) (b : Builder) : Bool :=
  !datesOk env b ||
  (pairwiseB (fun x y => uString x ≠ uString y) (tableKeys b) &&
   (tableKeys b).all (detTable env pol b))

end Series
