/-
C18 — model of `NormalizeDateString` (benchseries.go:190-211):

  input  ──(compact form `^[0-9]{8}T[0-9]{6}$` is respelt with punctuation and "+00:00")──▶
  `time.Parse(time.RFC3339Nano, ·)` ──▶ fields + zone offset ──▶ instant ──▶ UTC fields ──▶
  `Format("2006-01-02T15:04:05.999999999-07:00")`

`parse` follows time.Parse element by element for this one layout (4-digit year, 2-digit month/day,
1-or-2-digit hour, 2-digit minute/second, optional fraction introduced by '.' or ',' and cut to
9 digits, `Z` or ±hh:mm with hh ≤ 24 and mm ≤ 60 (sic: `>` tests in time.Parse), range checks on month, day
(per month, leap years), hour, minute, second; nothing may follow).  The proleptic Gregorian
day-count (`daysFromCivil`, `civilFromDays`) stands for the calendar arithmetic of `time.Date`,
`Time.UTC` and `Time.date`; that arithmetic itself is stdlib and is only *checked against* it by
the correspondence run, not proved.  Core Lean only.
-/
import Model.Base.Bytes

namespace Series.Date

def isDig (c : UInt8) : Bool := 48 ≤ c && c ≤ 57
def dval (c : UInt8) : Nat := c.toNat - 48

/-- exactly `n` digits -/
def digitsN : Nat → Bytes → Option (Nat × Bytes)
  | 0, s => some (0, s)
  | n + 1, s =>
    match s with
    | c :: r => if isDig c then (digitsN n r).map fun (v, r') => (dval c * 10 ^ n + v, r') else none
    | [] => none

/-- `getnum(s, false)`: one or two digits -/
def num12 (s : Bytes) : Option (Nat × Bytes) :=
  match s with
  | a :: b :: r => if isDig a then (if isDig b then some (dval a * 10 + dval b, r) else some (dval a, b :: r)) else none
  | [a] => if isDig a then some (dval a, []) else none
  | [] => none

def lit (c : UInt8) (s : Bytes) : Option Bytes :=
  match s with
  | d :: r => if d = c then some r else none
  | [] => none

/-- the optional fractional second: ('.' | ',') digit+ ; digits beyond the ninth are dropped -/
def fraction (s : Bytes) : Nat × Bytes :=
  match s with
  | sep :: d :: r =>
    if (sep = 46 || sep = 44) && isDig d then
      let ds := (d :: r).takeWhile isDig
      let rest := (d :: r).dropWhile isDig
      let ds9 := ds.take 9
      (ds9.foldl (fun acc c => acc * 10 + dval c) 0 * 10 ^ (9 - ds9.length), rest)
    else (0, s)
  | _ => (0, s)

/-- zone: `Z`, or sign, two digits, ':', two digits; returns the offset in seconds east of UTC -/
def zone (s : Bytes) : Option (Int × Bytes) :=
  match s with
  | 90 :: r => some (0, r)
  | sg :: h1 :: h2 :: c :: m1 :: m2 :: r =>
    if c ≠ 58 then none
    else if !(isDig h1 && isDig h2 && isDig m1 && isDig m2) then none
    else if dval h1 * 10 + dval h2 > 24 || dval m1 * 10 + dval m2 > 60 then none  -- "hr > 24", "mm > 60"
    else
      let off : Int := (((dval h1 * 10 + dval h2) * 60 + (dval m1 * 10 + dval m2)) * 60 : Nat)
      if sg = 43 then some (off, r) else if sg = 45 then some (-off, r) else none
  | _ => none

def isLeap (y : Nat) : Bool := y % 4 = 0 && (y % 100 ≠ 0 || y % 400 = 0)

def daysIn (m y : Nat) : Nat :=
  if m = 2 then (if isLeap y then 29 else 28)
  else if m = 4 || m = 6 || m = 9 || m = 11 then 30 else 31

/-- wall-clock fields as written, plus the zone offset -/
structure Parsed where
  year : Nat
  month : Nat
  day : Nat
  hour : Nat
  min : Nat
  sec : Nat
  nanos : Nat
  offset : Int
  deriving DecidableEq, Repr

/-- `time.Parse(time.RFC3339Nano, s)` -/
def parseRFC (s : Bytes) : Option Parsed := do
  let (y, s) ← digitsN 4 s
  let s ← lit 45 s
  let (mo, s) ← digitsN 2 s
  let s ← lit 45 s
  let (d, s) ← digitsN 2 s
  let s ← lit 84 s
  let (h, s) ← num12 s
  let s ← lit 58 s
  let (mi, s) ← digitsN 2 s
  let s ← lit 58 s
  let (sec, s) ← digitsN 2 s
  let (ns, s) := fraction s
  let (off, s) ← zone s
  if s ≠ [] then none
  else if mo < 1 || mo > 12 || h ≥ 24 || mi ≥ 60 || sec ≥ 60 then none
  else if d < 1 || d > daysIn mo y then none
  else some { year := y, month := mo, day := d, hour := h, min := mi, sec := sec, nanos := ns, offset := off }

/-- `noPuncDate.MatchString` -/
def isCompact (s : Bytes) : Bool :=
  s.length = 15 && (s.take 8).all isDig && s.getD 8 0 = 84 && (s.drop 9).all isDig

/-- the respelling of the compact form -/
def respell (s : Bytes) : Bytes :=
  s.take 4 ++ [45] ++ (s.drop 4).take 2 ++ [45] ++ (s.drop 6).take 5 ++ [58] ++ (s.drop 11).take 2 ++ [58] ++
    (s.drop 13).take 2 ++ [43, 48, 48, 58, 48, 48]

def parse (s : Bytes) : Option Parsed := parseRFC (if isCompact s then respell s else s)

/-! ### instants -/

/-- days since 1970-01-01 of a proleptic Gregorian date -/
def daysFromCivil (y : Int) (m d : Nat) : Int :=
  let y' : Int := if m ≤ 2 then y - 1 else y
  let era : Int := y' / 400
  let yoe : Int := y' - era * 400
  let mp : Int := if m > 2 then (m : Int) - 3 else (m : Int) + 9
  let doy : Int := (153 * mp + 2) / 5 + (d : Int) - 1
  let doe : Int := yoe * 365 + yoe / 4 - yoe / 100 + doy
  era * 146097 + doe - 719468

/-- (seconds since the epoch, nanoseconds) -/
def instant (p : Parsed) : Int × Nat :=
  (daysFromCivil p.year p.month p.day * 86400 + (p.hour * 3600 + p.min * 60 + p.sec : Nat) - p.offset, p.nanos)

/-- UTC wall-clock fields -/
structure UTC where
  year : Int
  month : Nat
  day : Nat
  hour : Nat
  min : Nat
  sec : Nat
  nanos : Nat
  deriving DecidableEq, Repr

def civilFromDays (z0 : Int) : Int × Nat × Nat :=
  let z := z0 + 719468
  let era := z / 146097
  let doe := z - era * 146097
  let yoe := (doe - doe / 1460 + doe / 36524 - doe / 146096) / 365
  let y := yoe + era * 400
  let doy := doe - (365 * yoe + yoe / 4 - yoe / 100)
  let mp := (5 * doy + 2) / 153
  let d := doy - (153 * mp + 2) / 5 + 1
  let m := if mp < 10 then mp + 3 else mp - 9
  (if m ≤ 2 then y + 1 else y, m.toNat, d.toNat)

def utcOf (t : Int × Nat) : UTC :=
  let days := t.1 / 86400
  let rem := (t.1 - days * 86400).toNat
  let (y, m, d) := civilFromDays days
  { year := y, month := m, day := d, hour := rem / 3600, min := rem % 3600 / 60, sec := rem % 60, nanos := t.2 }

/-! ### the output layout, as character codes -/

def pad2 (n : Nat) : List Nat := [48 + n / 10 % 10, 48 + n % 10]
def pad4 (n : Nat) : List Nat := [48 + n / 1000 % 10, 48 + n / 100 % 10, 48 + n / 10 % 10, 48 + n % 10]

/-- `appendInt(b, year, 4)` -/
def fmtYear (y : Int) : List Nat :=
  let a := y.natAbs
  let ds := if a < 10000 then pad4 a else (Nat.toDigits 10 a).map Char.toNat
  if y < 0 then 45 :: ds else ds

/-- the `k` low decimal digits of `n`, most significant first (`n < 10^k`) -/
def digs : Nat → Nat → List Nat
  | 0, _ => []
  | k + 1, n => n / 10 ^ k :: digs k (n % 10 ^ k)

/-- the nine fraction digits -/
def nanoDigits (ns : Nat) : List Nat := digs 9 ns

/-- what follows the seconds: the fraction digits up to the last non-zero one, then "+00:00".
(`.999999999` drops trailing zeros, and the point itself when nothing is left.) -/
def fracTail : List Nat → List Nat
  | [] => [43, 48, 48, 58, 48, 48]
  | d :: r => if (d :: r).all (· = 0) then [43, 48, 48, 58, 48, 48] else (48 + d) :: fracTail r

def fracPart (ns : Nat) : List Nat :=
  let ds := nanoDigits ns
  if ds.all (· = 0) then fracTail [] else 46 :: fracTail ds

/-- `t.UTC().Format("2006-01-02T15:04:05.999999999-07:00")` as character codes -/
def formatCodes (u : UTC) : List Nat :=
  fmtYear u.year ++ [45] ++ pad2 u.month ++ [45] ++ pad2 u.day ++ [84] ++ pad2 u.hour ++ [58] ++ pad2 u.min ++
    [58] ++ pad2 u.sec ++ fracPart u.nanos

def format (u : UTC) : Bytes := (formatCodes u).map UInt8.ofNat

/-- `NormalizeDateString` -/
def normalize (s : Bytes) : Option Bytes := (parse s).map fun p => format (utcOf (instant p))

end Series.Date
