/-
C18 — bootstrap summaries: `Cell.hash`, `withBootstrap`'s seed, `resampleInto`, `ratio`,
`percentile`, `median` (benchseries.go:731-806, 861-868).

The algorithm is written once, over an arithmetic record `Arith α`, and instantiated twice:
* `f64` — bit-exact float64 (Model/Base/F64.lean); this instance is what the correspondence run
  compares with the real code (Low/Center/High bits);
* `rat` — exact rationals; the ordering/range theorems of Proofs/C18.lean are about this instance
  (float rounding is *not* covered by them: see the recorded finding about interpolation
  rounding in notes/C18.md).
The math/rand stream is data (`stream`): the harness records the `Intn` results the real code
consumes for the seed the model also computes.  Core Lean only.
-/
import Model.Base.F64

namespace Series.Boot

structure Arith (α : Type) where
  add : α → α → α
  sub : α → α → α
  mul : α → α → α
  div : α → α → α
  ofNat : Nat → α
  /-- `int(f)` for a non-negative finite f -/
  trunc : α → Nat
  lt : α → α → Bool
  eq : α → α → Bool
  isNaN : α → Bool
  nan : α

variable {α : Type}

/-- the order `sort.Float64s` sorts by: NaNs first -/
def Arith.less (A : Arith α) (x y : α) : Bool := A.lt x y || (A.isNaN x && !A.isNaN y)

def insertSorted (A : Arith α) (x : α) : List α → List α
  | [] => [x]
  | y :: l => if A.less y x then y :: insertSorted A x l else x :: y :: l

/-- `sort.Float64s` (any correct sort gives the same sequence of *values*; equal keys are
indistinguishable except for ±0, which the generators avoid mixing) -/
def sort (A : Arith α) (l : List α) : List α := l.foldr (insertSorted A) []

/-- benchseries.go:779 -/
def percentile (A : Arith α) (a : List α) (p : α) : α :=
  match a with
  | [] => A.nan
  | a0 :: _ =>
    let n := a.length
    if A.eq p (A.ofNat 0) then a0
    else if A.eq p (A.ofNat 1) then a.getD (n - 1) A.nan
    else
      let f := A.mul (A.ofNat n) p
      let i := A.trunc f
      let x := A.sub f (A.ofNat i)
      let r := a.getD i A.nan
      if A.lt (A.ofNat 0) x && i + 1 < n then
        A.add (A.mul r (A.sub (A.ofNat 1) x)) (A.mul (a.getD (i + 1) A.nan) x)
      else r

/-- benchseries.go:800 -/
def median (A : Arith α) (a : List α) : α :=
  let l := a.length
  if l % 2 = 1 then a.getD (l / 2) A.nan
  else A.div (A.add (a.getD (l / 2) A.nan) (a.getD (l / 2 - 1) A.nan)) (A.ofNat 2)

/-- `resampleInto`: |vals| draws of `r.Intn(len)` (given as data), then sort -/
def resample (A : Arith α) (vals : List α) (idx : List Nat) : List α :=
  sort A (idx.map fun i => vals.getD (i % vals.length) A.nan)

/-- one iteration of the loop of `ratio` -/
def oneRatio (A : Arith α) (nu de : List α) (inu ide : List Nat) : α :=
  let rnu := resample A nu inu
  let rde := resample A de ide
  let den := median A rde
  if A.eq den (A.ofNat 0) then
    let num := median A rnu
    if A.lt num (A.ofNat 0) || A.isNaN num then A.sub num (A.ofNat 1) else A.add num (A.ofNat 1)
  else A.div (median A rnu) den

/-- the N resampled ratios, unsorted; `stream` is consumed |nu| then |de| numbers at a time -/
def ratios (A : Arith α) (nu de : List α) : Nat → List Nat → List α
  | 0, _ => []
  | n + 1, stream =>
    let inu := stream.take nu.length
    let rest := stream.drop nu.length
    oneRatio A nu de inu (rest.take de.length) :: ratios A nu de n (rest.drop de.length)

structure Summary (α : Type) where
  low : α
  center : α
  high : α

/-- the tail of `ratio` on the sorted ratios -/
def summarize (A : Arith α) (sorted : List α) (confidence : α) : Summary α :=
  let p := A.div (A.sub (A.ofNat 1) confidence) (A.ofNat 2)
  { low := percentile A sorted p
    high := percentile A sorted (A.sub (A.ofNat 1) p)
    center := median A sorted }

/-- benchseries.go:752 `ratio` -/
def ratio (A : Arith α) (nu de : List α) (confidence : α) (n : Nat) (stream : List Nat) : Summary α :=
  summarize A (sort A (ratios A nu de n stream)) confidence

/-! ### the two instances -/

/-- `int(f)`: truncation of a non-negative finite float -/
def f64Trunc (b : F64.Bits) : Nat :=
  if F64.isNaN b || F64.isInf b || F64.signBit b then 0
  else
    let e := F64.expo b
    if e ≥ 0 then F64.mant b * 2 ^ e.toNat else F64.mant b / 2 ^ (-e).toNat

def f64 : Arith F64.Bits where
  add := F64.add
  sub := F64.sub
  mul := F64.mul
  div := F64.div
  ofNat := fun n => F64.ofInt n
  trunc := f64Trunc
  lt := F64.lt
  eq := F64.eq
  isNaN := F64.isNaN
  nan := F64.nan

def rat : Arith Rat where
  add := (· + ·)
  sub := (· - ·)
  mul := (· * ·)
  div := (· / ·)
  ofNat := fun n => (n : Rat)
  trunc := fun q => q.floor.toNat
  lt := fun a b => decide (a < b)
  eq := fun a b => decide (a = b)
  isNaN := fun _ => false
  nan := 0

/-! ### the seed -/

/-- one round of `Cell.hash` (rot = 23): the arithmetic shift is masked to 23 bits, so it is the
logical shift -/
def hashStep (x : UInt64) (v : F64.Bits) : UInt64 :=
  let xlow := (x >>> 41) &&& 0x7FFFFF
  ((x <<< 23) ^^^ xlow) ^^^ v

def hash (vals : List F64.Bits) : UInt64 := vals.foldl hashStep 0

/-- `c.Numerator.hash() * c.Denominator.hash()` (int64 wrap-around = uint64 wrap-around) -/
def seed (nu de : List F64.Bits) : UInt64 := hash nu * hash de

end Series.Boot
