/-
Model of analysis/app/parse.go parseQueryString: the front end splits the user's (or its own query
builder's) text into an optional prefix and one or more storage queries — at unquoted blanks, on the
words `|` and `vs` (property C19: a value quoted by addToQuery must survive this step intact).
Core Lean only.
-/
import Model.Base.Bytes
import Model.Storage.Query

namespace Analysis.Parse
open Storage.Query

def wBar : Bytes := [124]
def wVs : Bytes := [118, 115]

/-- the scanning loop: `quoting`, the bytes of the current part, the unread input. Returns the parts
that were ended by a blank or tab outside quotes, and the unterminated rest (`q` after the loop).
A backslash skips the next byte inside and outside quotes. -/
def tokGo : Bool → Bytes → Bytes → List Bytes × Bytes
  | _, cur, [] => ([], cur)
  | true, cur, c :: rest =>
    if c == cQuote then tokGo false (cur ++ [c]) rest
    else if c == cBackslash then
      match rest with
      | [] => ([], cur ++ [c])
      | d :: rest' => tokGo true (cur ++ [c, d]) rest'
    else tokGo true (cur ++ [c]) rest
  | false, cur, c :: rest =>
    if c == cQuote then tokGo true (cur ++ [c]) rest
    else if c == cSpace || c == cTab then
      let (ts, last) := tokGo false [] rest
      (cur :: ts, last)
    else if c == cBackslash then
      match rest with
      | [] => ([], cur ++ [c])
      | d :: rest' => tokGo false (cur ++ [c, d]) rest'
    else tokGo false (cur ++ [c]) rest

/-- `strings.Join(parts, " ")` -/
def joinSp : List Bytes → Bytes
  | [] => []
  | [p] => p
  | p :: ps => p ++ cSpace :: joinSp ps

structure St where
  pref : Bytes := []
  parts : List Bytes := []
  queries : List Bytes := []

/-- what happens to a part ended by a blank -/
def step (s : St) (part : Bytes) : St :=
  if part == wBar && s.pref.isEmpty then { s with pref := joinSp s.parts, parts := [] }
  else if part == wVs then { s with queries := s.queries ++ [joinSp s.parts], parts := [] }
  else { s with parts := s.parts ++ [part] }

/-- `parseQueryString`: (prefix, queries) -/
def parseQueryString (q : Bytes) : Bytes × List Bytes :=
  let (toks, last) := tokGo false [] q
  let s := toks.foldl step {}
  let parts := if last.isEmpty then s.parts else s.parts ++ [last]
  let queries := if parts.isEmpty then s.queries else s.queries ++ [joinSp parts]
  (s.pref, queries)

/-- the storage queries `fetchCompareResults` sends: the prefix, if any, in front of every query -/
def sentQueries (q : Bytes) : List Bytes :=
  let (p, qs) := parseQueryString q
  qs.map fun x => if p.isEmpty then x else p ++ cSpace :: x

end Analysis.Parse
