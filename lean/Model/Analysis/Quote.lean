/-
Model of analysis/app/compare.go addToQuery: the front end's query builder quotes the added word so
that the storage server's SplitWords recovers it (property C19). Core Lean only.
-/
import Model.Base.Bytes
import Model.Storage.Query

namespace Analysis.Quote
open Storage.Query

def cBar : UInt8 := 124

/-- `strings.ContainsAny(add, " \t\\\"")` -/
def needsQuote (s : Bytes) : Bool :=
  s.any fun c => c == cSpace || c == cTab || c == cBackslash || c == cQuote

/-- `strings.Replace(s, from, to, -1)` for a one-byte `from` -/
def replaceByte (c : UInt8) (to : Bytes) (s : Bytes) : Bytes :=
  s.flatMap fun x => if x == c then to else [x]

/-- the quoting step of `addToQuery` -/
def quote (add : Bytes) : Bytes :=
  if needsQuote add then
    let a := replaceByte cBackslash [cBackslash, cBackslash] add
    let a := replaceByte cQuote [cBackslash, cQuote] a
    [cQuote] ++ a ++ [cQuote]
  else add

/-- `addToQuery(query, add)` -/
def addToQuery (query add : Bytes) : Bytes :=
  if query.any (· == cBar) then quote add ++ [cSpace] ++ query
  else quote add ++ [cSpace, cBar, cSpace] ++ query

end Analysis.Quote
