/-
C17 — model of the legacy benchstat library (/repo/benchstat/{data,table,delta,sort,scaler}.go,
/repo/internal/stats/sample.go: Bounds, Mean, Percentile).  Core Lean only.

What is a *parameter* (supplied by the harness from the real code, see notes/C17.md):
  * `Num`      : strconv.Atoi / strconv.ParseFloat on a field text
  * `TestFn`   : the significance test (DeltaTest) as a function of (old.RValues, new.RValues)
  * `GeoFn`    : stats.GeoMean (math.Log / math.Exp) as a function of the list of means
Everything else — field splitting, grouping, first-appearance bookkeeping, R8 quartiles, fence,
retained values, min/mean/max, row construction, gate, delta, change, notes, geomean row
bookkeeping, stable sort — is computed here in bit-exact float64 arithmetic (`F64`).

State: `Metrics.rvalues` is carried in the collection across `tables` calls exactly as
`Metrics.RValues` is in Go; `computeStats` truncates it (`m.RValues = m.RValues[:0]`) before
appending.  Removing that truncation (the defect F9 repaired by commit 152ffa4) is visible in
this model as `fenceLoop lo hi m.values m.rvalues`.
-/
import Model.Base.Bytes
import Model.Base.Utf8
import Model.Base.F64

namespace Legacy
open F64

abbrev Str := Bytes

def str (s : String) : Str := Bytes.ofString s

/-! ### strings.Fields -/

def flushField (cur : Bytes) (acc : List Bytes) : List Bytes :=
  if cur.isEmpty then acc else acc ++ [cur]

/-- `strings.Fields`: split around runs of `unicode.IsSpace` runes; invalid UTF-8 bytes decode to
RuneError (width 1), which is not a space. -/
def fieldsAux : Nat → Bytes → Bytes → List Bytes → List Bytes
  | 0, _, cur, acc => flushField cur acc
  | fuel + 1, bs, cur, acc =>
    match bs with
    | [] => flushField cur acc
    | _ =>
      let (r, w) := Utf8.decodeRune bs
      if Utf8.isSpace r then fieldsAux fuel (bs.drop w) [] (flushField cur acc)
      else fieldsAux fuel (bs.drop w) (cur ++ bs.take w) acc

def fields (bs : Bytes) : List Bytes := fieldsAux (bs.length + 1) bs [] []

/-! ### data.go: Collection, Key, Metrics -/

structure Key where
  config : Str
  group : Str
  bench : Str
  unit : Str
  deriving DecidableEq

structure Metrics where
  unit : Str := []
  values : List Bits := []
  rvalues : List Bits := []
  min : Bits := 0
  mean : Bits := 0
  max : Bits := 0
  deriving DecidableEq

inductive Order where
  | byName
  | byDelta
  | reverse (o : Order)
  deriving DecidableEq

structure Coll where
  configs : List Str := []
  groups : List Str := []
  units : List Str := []
  benchmarks : List (Str × List Str) := []     -- map[group][]benchmark
  metrics : List (Key × Metrics) := []         -- map[Key]*Metrics, in order of creation
  alpha : Bits := 0
  addGeoMean : Bool := false
  splitBy : List Str := []
  order : Option Order := none

/-- one benchfmt.Result as far as addResult looks at it -/
structure Result where
  content : Str
  nameLabels : List (Str × Str) := []
  labels : List (Str × Str) := []

/-- strconv on field texts: taken from the implementation (number parsing is C03's concern) -/
structure Num where
  atoi : Str → Int
  parseFloat : Str → Option Bits

/-- the closure `addString` of addMetrics -/
def addString (l : List Str) (s : Str) : List Str := if l.contains s then l else l ++ [s]

def benchOf (bm : List (Str × List Str)) (g : Str) : List Str := (bm.lookup g).getD []

def setBench (bm : List (Str × List Str)) (g : Str) (bs : List Str) : List (Str × List Str) :=
  if (bm.lookup g).isSome then bm.map (fun (k, v) => if k == g then (k, bs) else (k, v))
  else bm ++ [(g, bs)]

def findMetric (ms : List (Key × Metrics)) (k : Key) : Option Metrics :=
  (ms.find? (fun p => p.1 == k)).map (·.2)

/-- `m := c.addMetrics(key); m.Values = append(m.Values, val)` -/
def addValue (c : Coll) (key : Key) (val : Bits) : Coll :=
  match findMetric c.metrics key with
  | some _ =>
    { c with metrics := c.metrics.map fun (k, m) =>
        if k == key then (k, { m with values := m.values ++ [val] }) else (k, m) }
  | none =>
    { c with
      configs := addString c.configs key.config
      groups := addString c.groups key.group
      benchmarks := setBench c.benchmarks key.group (addString (benchOf c.benchmarks key.group) key.bench)
      units := addString c.units key.unit
      metrics := c.metrics ++ [(key, { unit := key.unit, values := [val] })] }

def mapGet (m : List (Str × Str)) (k : Str) : Str := (m.lookup k).getD []

/-- makeGroup: `k:v` of every SplitBy label present (name labels first), joined by spaces -/
def makeGroup (splitBy : List Str) (r : Result) : Str :=
  splitBy.foldl (fun out s =>
    let v := mapGet r.nameLabels s
    let v := if v.isEmpty then mapGet r.labels s else v
    if v.isEmpty then out
    else (if out.isEmpty then out else out ++ str " ") ++ s ++ str ":" ++ v) []

/-- the loop `for i := 2; i+2 <= len(f); i += 2` over value/unit pairs -/
def addPairs (N : Num) (config group bench : Str) : List Str → Coll → Coll
  | v :: u :: rest, c =>
    match N.parseFloat v with
    | none => addPairs N config group bench rest c
    | some x => addPairs N config group bench rest (addValue c ⟨config, group, bench, u⟩ x)
  | _, c => c

def benchmarkPrefix : Str := str "Benchmark"

def addResult (N : Num) (c : Coll) (config : Str) (r : Result) : Coll :=
  let f := fields r.content
  if f.length < 4 then c else
  let name := f.headD []
  if !Bytes.hasPrefix name benchmarkPrefix then c else
  let name := name.drop benchmarkPrefix.length
  if N.atoi ((f.drop 1).headD []) == 0 then c else
  addPairs N config (makeGroup c.splitBy r) name (f.drop 2) c

def addResults (N : Num) (c : Coll) (config : Str) (rs : List Result) : Coll :=
  rs.foldl (fun c r => addResult N c config r) { c with configs := c.configs ++ [config] }

/-! ### internal/stats/sample.go -/

def c0_25 : Bits := 0x3FD0000000000000
def c0_75 : Bits := 0x3FE8000000000000
def c1_5 : Bits := 0x3FF8000000000000
def c3 : Bits := 0x4008000000000000
def c100 : Bits := 0x4059000000000000
def cNeg1 : Bits := 0xBFF0000000000000
/-- the constant 0.05 -/
def c0_05 : Bits := 0x3FA999999999999A
/-- the Go constant expression `1/3.0` -/
def cThird : Bits := 0x3FD5555555555555

/-- stats.Bounds: NaN, NaN on empty input; otherwise the running `<` / `>` loop -/
def bounds : List Bits → Bits × Bits
  | [] => (nan, nan)
  | x0 :: xs =>
    (x0 :: xs).foldl (fun (mn, mx) x => (if lt x mn then x else mn, if lt mx x then x else mx)) (x0, x0)

/-- stats.Mean: `m += (x - m) / float64(i+1)` -/
def meanLoop : List Bits → Nat → Bits → Bits
  | [], _, m => m
  | x :: xs, i, m => meanLoop xs (i + 1) (add m (div (sub x m) (ofInt (i + 1))))

def mean (xs : List Bits) : Bits := if xs.isEmpty then nan else meanLoop xs 0 posZero

/-- the order of sort.Float64s: `x < y || (isNaN(x) && !isNaN(y))` -/
def goLess (a b : Bits) : Bool := lt a b || (isNaN a && !isNaN b)

def insertF (x : Bits) : List Bits → List Bits
  | [] => [x]
  | y :: ys => if goLess x y then x :: y :: ys else y :: insertF x ys

/-- `Sample.Copy().Sort()`.  (sort.Float64s is not stable; elements that compare equal are +0 and -0,
whose relative order does not influence any observable — see notes/C17.md.) -/
def sortF (xs : List Bits) : List Bits := xs.foldl (fun acc x => insertF x acc) []

/-- integer part of a finite non-negative float, as a natural number -/
def floorNat (n : Bits) : Nat :=
  let (num, den) := toFrac (mant n) (expo n)
  num / den

/-- Sample.Percentile for an unweighted, unsorted sample (interpolation R8) -/
def percentile (xs : List Bits) (pctile : Bits) : Bits :=
  if xs.isEmpty then nan
  else if le pctile posZero then (bounds xs).1
  else if le one pctile then (bounds xs).2
  else
    let s := sortF xs
    let N := ofInt xs.length
    let n := add cThird (mul pctile (add N cThird))
    -- math.Modf on a finite positive n
    let k := floorNat n
    let frac := sub n (ofInt k)
    if k == 0 then s.headD nan
    else if k ≥ s.length then s.getLastD nan
    else
      let a := s.getD (k - 1) nan
      let b := s.getD k nan
      add a (mul frac (sub b a))

/-- the fence test of computeStats: `lo <= value && value <= hi` -/
def inFence (lo hi v : Bits) : Bool := le lo v && le v hi

/-- `for _, value := range m.Values { if … { m.RValues = append(m.RValues, value) } }` -/
def fenceLoop (lo hi : Bits) (vs : List Bits) (acc : List Bits) : List Bits :=
  vs.foldl (fun acc v => if inFence lo hi v then acc ++ [v] else acc) acc

def fenceOf (vs : List Bits) : Bits × Bits :=
  let q1 := percentile vs c0_25
  let q3 := percentile vs c0_75
  (sub q1 (mul c1_5 (sub q3 q1)), add q3 (mul c1_5 (sub q3 q1)))

/-- Metrics.computeStats -/
def computeStats (m : Metrics) : Metrics :=
  let (lo, hi) := fenceOf m.values
  let rv := fenceLoop lo hi m.values (m.rvalues.take 0)      -- m.RValues = m.RValues[:0]
  let (mn, mx) := bounds rv
  { m with rvalues := rv, min := mn, max := mx, mean := mean rv }

/-! ### table.go -/

inductive TestRes where
  | p (v : Bits)
  | errZeroVariance
  | errSampleSize
  | errSamplesEqual
  | errOther (msg : String)
  deriving DecidableEq

abbrev TestFn := List Bits → List Bits → TestRes
abbrev GeoFn := List Bits → Bits

structure Row where
  bench : Str := []
  group : Str := []
  scaler : Option (Bits × Str) := none          -- arguments of NewScaler, if one was made
  metrics : List Metrics := []
  pctDelta : Bits := 0
  delta : String := ""
  note : String := ""
  change : Int := 0

structure Table where
  unit : Str
  metric : Str
  oldNewDelta : Bool
  configs : List Str
  groups : List Str
  rows : List Row

def metricSuffix : List (Str × Str) :=
  [(str "ns/op", str "time/op"), (str "ns/GC", str "time/GC"), (str "B/op", str "alloc/op"), (str "MB/s", str "speed")]

def hasSuffix (s suf : Bytes) : Bool := Bytes.hasPrefix s.reverse suf.reverse

/-- metricOf (the map is iterated in Go; at most one `-suffix` can match, so order is immaterial) -/
def metricOf (unit : Str) : Str :=
  match metricSuffix.lookup unit with
  | some s => s
  | none =>
    match metricSuffix.find? (fun (s, _) => hasSuffix unit (str "-" ++ s)) with
    | some (s, suff) => unit.take (unit.length - (s.length + 1)) ++ str "-" ++ suff
    | none => unit

/-- `fmt.Sprintf("%.{p}f")` / `"%+.{p}f"` -/
def fmtF (plus : Bool) (x : Bits) (p : Nat) : String :=
  if isNaN x then (if plus then "+NaN" else "NaN")
  else if isInf x then (if signBit x then "-Inf" else "+Inf")
  else if signBit x then fmtFixed x p
  else (if plus then "+" else "") ++ fmtFixed x p

def speed : Str := str "speed"

/-- the `if table.OldNewDelta { … }` block for a row whose two metrics exist -/
def deltaPart (t : TestRes) (alpha : Bits) (metric : Str) (old new : Metrics) (row : Row) : Row :=
  let row := { row with pctDelta := posZero, delta := "~" }
  let (row, pval) : Row × Bits :=
    match t with
    | .errZeroVariance => ({ row with note := "(zero variance)" }, cNeg1)
    | .errSampleSize => ({ row with note := "(too few samples)" }, cNeg1)
    | .errSamplesEqual => ({ row with note := "(all equal)" }, cNeg1)
    | .errOther msg => ({ row with note := "(" ++ msg ++ ")" }, cNeg1)
    | .p pval =>
      if lt pval alpha then
        if eq new.mean old.mean then ({ row with delta := "0.00%" }, pval)
        else
          let pct := mul (sub (div new.mean old.mean) one) c100
          ({ row with pctDelta := pct, delta := fmtF true pct 2 ++ "%",
                      change := if (lt pct posZero) == (metric != speed) then 1 else -1 }, pval)
      else (row, pval)
  if row.note == "" && !(eq pval cNeg1) then
    { row with note := "(p=" ++ fmtF false pval 3 ++ " n=" ++ toString old.rvalues.length ++ "+" ++ toString new.rvalues.length ++ ")" }
  else row

/-- the per-config loop of a row: found metrics or `new(Metrics)`; the scaler comes from the first found -/
def rowMetrics (c : Coll) (unit group bench : Str) : List Metrics × Option (Bits × Str) :=
  c.configs.foldl (fun (ms, sc) cfg =>
    match findMetric c.metrics ⟨cfg, group, bench, unit⟩ with
    | none => (ms ++ [({ } : Metrics)], sc)
    | some m => (ms ++ [m], match sc with | some s => some s | none => some (m.mean, m.unit))) ([], none)

/-- one iteration of the benchmark loop; `none` = the `continue` that omits the row -/
def buildRow (T : TestFn) (c : Coll) (alpha : Bits) (ond : Bool) (metric unit group bench : Str) : Option Row :=
  let (ms, sc) := rowMetrics c unit group bench
  let row : Row := { bench := bench, group := if c.groups.length > 1 then group else [], metrics := ms, scaler := sc }
  if ond then
    let old := findMetric c.metrics ⟨c.configs.getD 0 [], group, bench, unit⟩
    let new := findMetric c.metrics ⟨c.configs.getD 1 [], group, bench, unit⟩
    match old, new with
    | some old, some new => some (deltaPart (T old.rvalues new.rvalues) alpha metric old new row)
    | _, _ => none
  else some row

/-! ### sort.go -/

def bytesLt : Bytes → Bytes → Bool
  | [], [] => false
  | [], _ :: _ => true
  | _ :: _, [] => false
  | a :: as, b :: bs => a < b || (a == b && bytesLt as bs)

def Order.less : Order → Row → Row → Bool
  | .byName, a, b => bytesLt a.bench b.bench
  | .byDelta, a, b => lt (mul (abs a.pctDelta) (ofInt a.change)) (mul (abs b.pctDelta) (ofInt b.change))
  | .reverse o, a, b => o.less b a

/-- inner loop of insertionSort on the reversed prefix: `for j := i; j > a && less(j, j-1); j--` -/
def insRev {α : Type} (less : α → α → Bool) (x : α) : List α → List α
  | [] => [x]
  | y :: ys => if less x y then y :: insRev less x ys else x :: y :: ys

/-- sort.SliceStable as the insertion sort it performs on blocks (for a strict weak order every
stable sorting algorithm returns this list) -/
def sortStable {α : Type} (less : α → α → Bool) (xs : List α) : List α :=
  (xs.foldl (fun racc x => insRev less x racc) []).reverse

/-! ### addGeomean -/

structure GeoAcc where
  metrics : List Metrics := []
  geomeans : List Bits := []
  maxCount : Nat := 0
  delta : Bool
  scaler : Option (Bits × Str) := none

/-- the means that enter the geomean of one config: `m != nil && m.Mean != 0`, in group/benchmark order -/
def geoMeansOf (c : Coll) (unit cfg : Str) : List Bits :=
  c.groups.flatMap fun g => (benchOf c.benchmarks g).filterMap fun b =>
    match findMetric c.metrics ⟨cfg, g, b, unit⟩ with
    | some m => if eq m.mean posZero then none else some m.mean
    | none => none

def geoRowName : Str := str "[Geo mean]"

/-- one iteration of the config loop of addGeomean -/
def geoStep (G : GeoFn) (c : Coll) (unit : Str) (acc : GeoAcc) (cfg : Str) : GeoAcc :=
  let means := geoMeansOf c unit cfg
  let acc := { acc with maxCount := if means.length > acc.maxCount then means.length else acc.maxCount }
  if means.isEmpty then { acc with metrics := acc.metrics ++ [({ } : Metrics)], delta := false }
  else
    let g := G means
    { acc with geomeans := acc.geomeans ++ [g],
               scaler := (match acc.scaler with | some s => some s | none => some (g, unit)),
               metrics := acc.metrics ++ [{ unit := unit, mean := g }] }

def addGeomean (G : GeoFn) (c : Coll) (unit : Str) (delta : Bool) : Option Row :=
  let acc := c.configs.foldl (geoStep G c unit) { delta := delta }
  if acc.maxCount ≤ 1 then none
  else
    let row : Row := { bench := geoRowName, metrics := acc.metrics, scaler := acc.scaler }
    if acc.delta then
      let pct := mul (sub (div (acc.geomeans.getD 1 nan) (acc.geomeans.getD 0 nan)) one) c100
      some { row with pctDelta := pct, delta := fmtF true pct 2 ++ "%" }
    else some row

/-! ### Tables() -/

def buildTable (T : TestFn) (G : GeoFn) (c : Coll) (alpha : Bits) (unit : Str) : Option Table :=
  let metric := metricOf unit
  let ond := c.configs.length == 2
  let rows := c.groups.flatMap fun g => (benchOf c.benchmarks g).filterMap fun b =>
    buildRow T c alpha ond metric unit g b
  if rows.isEmpty then none
  else
    let rows := match c.order with
      | some o => sortStable o.less rows
      | none => rows
    let rows := if c.addGeoMean then
        match addGeomean G c unit ond with
        | some r => rows ++ [r]
        | none => rows
      else rows
    some { unit := unit, metric := metric, oldNewDelta := ond, configs := c.configs, groups := c.groups, rows := rows }

/-- `for _, m := range c.Metrics { m.computeStats() }` -/
def updateStats (c : Coll) : Coll :=
  { c with metrics := c.metrics.map fun (k, m) => (k, computeStats m) }

def effAlpha (a : Bits) : Bits := if eq a posZero then c0_05 else a

/-- Collection.Tables(): the collection (whose metrics carry the derived statistics as state)
and the tables -/
def tables (T : TestFn) (G : GeoFn) (c : Coll) : Coll × List Table :=
  let c := updateStats c
  (c, c.units.filterMap fun u => buildTable T G c (effAlpha c.alpha) u)

end Legacy
