/-
C17 — model of /repo/benchstat/scaler.go (NewScaler, timeScaler), data.go (FormatMean, FormatDiff,
Format) and text.go (toText, toCSV, FormatText, FormatCSV incl. encoding/csv quoting and
trimCommonPathPrefix).  Output is a byte string.  Core Lean only.
-/
import Model.Legacy.Collection

namespace Legacy
open F64

/-! ### number formatting -/

/-- smallest k ≤ fuel with n·10^k ≥ d -/
def scaleUp (n d : Nat) : Nat → Nat → Nat
  | 0, k => k
  | fuel + 1, k => if n * 10 ^ k ≥ d then k else scaleUp n d fuel (k + 1)

/-- `fmt.Sprintf("%.{p}E", x)` : d.ddd…E±XX, correctly rounded (half-even on the exact value) -/
def fmtE (x : Bits) (p : Nat) : String :=
  if isNaN x then "NaN"
  else if isInf x then (if signBit x then "-Inf" else "+Inf")
  else
    let sign := if signBit x then "-" else ""
    let (n, d) := toFrac (mant x) (expo x)
    let (digits, e) : Nat × Int :=
      if n == 0 then (0, 0)
      else
        -- decimal exponent e with 10^e ≤ n/d < 10^(e+1)
        let e : Int := if n ≥ d then ((Nat.toDigits 10 (n / d)).length : Int) - 1
                       else -((scaleUp n d 400 0 : Nat) : Int)
        -- round n/d / 10^(e-p)
        let s : Int := (p : Int) - e
        let q := if s ≥ 0 then rne (n * 10 ^ s.toNat) d else rne n (d * 10 ^ (-s).toNat)
        if q ≥ 10 ^ (p + 1) then (10 ^ p, e + 1) else (q, e)
    let ds := Nat.toDigits 10 digits
    let ds := ds ++ List.replicate (p + 1 - ds.length) '0'
    let ds := if digits == 0 then List.replicate (p + 1) '0' else ds
    let mantissa := String.ofList (ds.take 1) ++ (if p == 0 then "" else "." ++ String.ofList (ds.drop 1))
    let ea := e.natAbs
    let es := (if e < 0 then "-" else "+") ++ (if ea < 10 then "0" else "") ++ toString ea
    sign ++ mantissa ++ "E" ++ es

/-! ### scaler.go -/

def hasBaseUnit (s unit : Str) : Bool := s == unit || hasSuffix s (str "-" ++ unit)

/-- a Scaler closure: `fmt.Sprintf(format+suffix, f(val))` -/
structure Scaler where
  time : Bool
  prec : Nat
  scale : Bits
  suffix : String

def dec (m : Nat) (e : Int) : Bits := ofDecimal false m e
def c1e9 : Bits := ofInt 1000000000

def timeScaler (ns : Bits) : Scaler :=
  let x := div ns c1e9
  let ge (c : Bits) : Bool := le c x
  let mk (p : Nat) (suffix : String) (scale : Int) : Scaler := { time := true, prec := p, scale := ofInt scale, suffix := suffix }
  if ge (dec 995 (-1)) then mk 0 "s" 1
  else if ge (dec 995 (-2)) then mk 1 "s" 1
  else if ge (dec 995 (-3)) then mk 2 "s" 1
  else if ge (dec 995 (-4)) then mk 0 "ms" 1000
  else if ge (dec 995 (-5)) then mk 1 "ms" 1000
  else if ge (dec 995 (-6)) then mk 2 "ms" 1000
  else if ge (dec 995 (-7)) then mk 0 "µs" 1000000
  else if ge (dec 995 (-8)) then mk 1 "µs" 1000000
  else if ge (dec 995 (-9)) then mk 2 "µs" 1000000
  else if ge (dec 995 (-10)) then mk 0 "ns" 1000000000
  else if ge (dec 995 (-11)) then mk 1 "ns" 1000000000
  else mk 2 "ns" 1000000000

def newScaler (val : Bits) (unit : Str) : Scaler :=
  if hasBaseUnit unit (str "ns/op") || hasBaseUnit unit (str "ns/GC") then timeScaler val
  else
    let mbs := hasBaseUnit unit (str "MB/s")
    let prescale : Bits := if mbs then ofInt 1000000 else one
    let x := mul val prescale
    let ge (c : Bits) : Bool := le c x
    let (p, scale, suffix) : Nat × Int × String :=
      if ge (ofInt 99500000000000) then (0, 1000000000000, "T")
      else if ge (ofInt 9950000000000) then (1, 1000000000000, "T")
      else if ge (ofInt 995000000000) then (2, 1000000000000, "T")
      else if ge (ofInt 99500000000) then (0, 1000000000, "G")
      else if ge (ofInt 9950000000) then (1, 1000000000, "G")
      else if ge (ofInt 995000000) then (2, 1000000000, "G")
      else if ge (ofInt 99500000) then (0, 1000000, "M")
      else if ge (ofInt 9950000) then (1, 1000000, "M")
      else if ge (ofInt 995000) then (2, 1000000, "M")
      else if ge (ofInt 99500) then (0, 1000, "k")
      else if ge (ofInt 9950) then (1, 1000, "k")
      else if ge (ofInt 995) then (2, 1000, "k")
      else if ge (dec 995 (-1)) then (0, 1, "")
      else if ge (dec 995 (-2)) then (1, 1, "")
      else (2, 1, "")
    let suffix := if hasBaseUnit unit (str "B/op") || hasBaseUnit unit (str "bytes/op") || hasBaseUnit unit (str "bytes") then suffix ++ "B" else suffix
    let suffix := if mbs then suffix ++ "B/s" else suffix
    { time := false, prec := p, scale := div (ofInt scale) prescale, suffix := suffix }

def Scaler.apply (s : Scaler) (v : Bits) : String :=
  if s.time then fmtF false (mul (div v c1e9) s.scale) s.prec ++ s.suffix
  else fmtF false (div v s.scale) s.prec ++ s.suffix

/-! ### Metrics.FormatDiff / Format -/

def formatDiff (m : Metrics) : String :=
  if eq m.mean posZero || eq m.max posZero then ""
  else
    let diff := sub one (div m.min m.mean)
    let d := sub (div m.max m.mean) one
    let diff := if lt diff d then d else diff
    fmtF false (mul diff c100) 0 ++ "%"

def runeCount : Nat → Bytes → Nat
  | 0, _ => 0
  | _, [] => 0
  | fuel + 1, bs => 1 + runeCount fuel (bs.drop (Utf8.decodeRune bs).2)

def runes (b : Bytes) : Nat := runeCount b.length b

def spaces (n : Nat) : Bytes := List.replicate n 0x20
/-- `%-*s` -/
def padRight (w : Nat) (s : Bytes) : Bytes := s ++ spaces (w - runes s)
/-- `%*s` -/
def padLeft (w : Nat) (s : Bytes) : Bytes := spaces (w - runes s) ++ s

def formatCell (m : Metrics) (sc : Option (Bits × Str)) : Bytes :=
  if m.unit.isEmpty then []
  else
    let mean := match sc with
      | some (v, u) => str ((newScaler v u).apply m.mean)
      | none => str "?nil-scaler"
    let diff := formatDiff m
    if diff == "" then mean ++ str "     "
    else mean ++ str " ±" ++ padLeft 3 (str diff)

/-! ### text.go -/

def trimRow (cols : List Bytes) : List Bytes := (cols.reverse.dropWhile (·.isEmpty)).reverse

/-- the group-header bookkeeping shared by toText and toCSV -/
def bodyRows (rows : List Row) (cells : Row → List Bytes) : List (List Bytes) :=
  (rows.foldl (fun (acc : List (List Bytes) × Str) row =>
    let (out, group) := acc
    let (out, group) := if row.group != group then (out ++ [[row.group]], row.group) else (out, group)
    (out ++ [cells row], group)) ([], [])).1

def toText (t : Table) : List (List Bytes) :=
  let hdr : List Bytes := match t.configs.length with
    | 1 => [str "name", t.metric]
    | 2 => [str "name", str "old " ++ t.metric, str "new " ++ t.metric, str "delta"]
    | _ => (str "name \\ " ++ t.metric) :: t.configs
  let body := bodyRows t.rows fun row =>
    [row.bench] ++ row.metrics.map (fun m => formatCell m row.scaler) ++
      (if t.configs.length == 2 then [str (if row.delta == "~" then "~   " else row.delta), str row.note] else [])
  (hdr :: body).map trimRow

def colWidths (tables : List (List (List Bytes))) : List Nat :=
  tables.foldl (fun mx table => table.foldl (fun mx row =>
    if row.length == 1 then mx else
    let mx := mx ++ List.replicate (row.length - mx.length) 0
    (mx.zipIdx).map fun (w, i) => match row[i]? with
      | some s => if w < runes s then runes s else w
      | none => w) mx) []

def formatText (ts : List Table) : Bytes :=
  let tts := ts.map toText
  let mx := colWidths tts
  let w (i : Nat) : Nat := mx.getD i 0
  (tts.zipIdx).flatMap fun (table, ti) =>
    let nl : Bytes := if ti > 0 then [0x0A] else []
    let hrow := table.headD []
    let head := (hrow.zipIdx).flatMap fun (s, i) =>
      if i == 0 then padRight (w i) s
      else if i == hrow.length - 1 then str "  " ++ s ++ [0x0A]
      else str "  " ++ padRight (w i) s
    let data := (table.drop 1).flatMap fun row =>
      ((row.zipIdx).flatMap fun (s, i) =>
        if row.length == 1 then s
        else if i == 0 then padRight (w i) s
        else if i == row.length - 1 && s.head? == some 0x28 then str "  " ++ s
        else str "  " ++ padLeft (w i) s) ++ [0x0A]
    nl ++ head ++ data

/-! ### CSV -/

def commonPrefixLen : Bytes → Bytes → Nat
  | a :: as, b :: bs => if a == b then 1 + commonPrefixLen as bs else 0
  | _, _ => 0

def lastIndexSlash (b : Bytes) : Option Nat :=
  ((b.zipIdx).filter (fun (c, _) => c == 0x2F)).getLast?.map (·.2)

def trimCommonPathPrefix (ss : List Str) : List Str :=
  let ne := ss.filter (!·.isEmpty)
  match ne with
  | [] => ss
  | first :: rest =>
    let cp := rest.foldl (fun (cp : Bytes) s => cp.take (commonPrefixLen cp s)) first
    if rest.isEmpty || cp.isEmpty then ss
    else match lastIndexSlash cp with
      | none => ss
      | some i => ss.map fun s => if s.isEmpty then s else s.drop (i + 1)

def csvNeedsQuotes (f : Bytes) : Bool :=
  if f.isEmpty then false
  else if f == str "\\." then true
  else if f.any (fun c => c == 0x0A || c == 0x0D || c == 0x22 || c == 0x2C) then true
  else Utf8.isSpace (Utf8.decodeRune f).1

def csvField (f : Bytes) : Bytes :=
  if !csvNeedsQuotes f then f
  else [0x22] ++ f.flatMap (fun c => if c == 0x22 then [0x22, 0x22] else [c]) ++ [0x22]

def csvRecord (cols : List Bytes) : Bytes :=
  ([0x2C] : Bytes).intercalate (cols.map csvField) ++ [0x0A]

def pm : Bytes := str "±"

def textRowDelta (norange : Bool) (label : Bytes) (cols : List Bytes) : List Bytes :=
  label :: cols.flatMap fun s => if norange then [s] else [s, pm]

def toCSV (t : Table) (norange : Bool) : List (List Bytes) :=
  let units : Bytes := match t.rows.head? with
    | some r => (match r.metrics.head? with
      | some m => str " (" ++ m.unit ++ str ")"
      | none => [])
    | none => []
  let hdr : List Bytes := match t.configs.length with
    | 1 => textRowDelta norange (str "name") [t.metric ++ units]
    | 2 => textRowDelta norange (str "name") [str "old " ++ t.metric ++ units, str "new " ++ t.metric ++ units, str "delta"]
    | _ => textRowDelta norange (str "name \\ " ++ t.metric ++ units) (trimCommonPathPrefix t.configs)
  let body := bodyRows t.rows fun row =>
    [row.bench] ++ row.metrics.flatMap (fun m =>
        let mean : Bytes := if m.unit.isEmpty then [] else str (fmtE m.mean 5)
        let diff : Bytes := if m.unit.isEmpty then [] else str (formatDiff m)
        if norange then [mean] else [mean, diff]) ++
      (if t.configs.length == 2 then [str row.delta, str row.note] else [])
  (hdr :: body).map trimRow

def formatCSV (ts : List Table) (norange : Bool) : Bytes :=
  ((ts.map fun t => toCSV t norange).zipIdx).flatMap fun (table, ti) =>
    (if ti > 0 then [0x0A] else []) ++ table.flatMap csvRecord

end Legacy
