/-
The 64 KiB line limit (an ADDITION to `Model/Fmt/Reader.lean`, which states it as a precondition).

`Reader.Reset` uses a `bufio.Scanner` with the default buffer: `MaxScanTokenSize = 64*1024`.
`Scan` first offers the unconsumed data to `ScanLines`; only when no line end is in it and the
buffer is full at its maximum size does it give up with `bufio.ErrTooLong`. Hence: a maximal
LF-free run of `L` bytes (a trailing CR counts) is delivered iff `L ≤ 65535`; the first run with
`L ≥ 65536` — terminated or not — ends the scan. The Go reader then reports
`fmt.Errorf("%s:%d: %w", fileName, line, err)` with `line` = the number of lines delivered so far,
`Scan` returns false from then on, and `Files` stops (its `Err` is that error; no further file
is opened). Records of the lines before the long one are delivered normally.

Core Lean only. All functions are total (structural recursion).
-/
import Model.Fmt.Reader
import Model.Fmt.Files

namespace Fmt

/-- `bufio.MaxScanTokenSize` -/
def maxToken : Nat := 65536

/-- `splitLines` with the limit: the lines delivered, and whether the scanner stopped with
`ErrTooLong`. `cur` is the current run so far, reversed. -/
def splitLinesLimAux : Bytes → Bytes → List Bytes × Bool
  | cur, [] =>
    if cur.isEmpty then ([], false)
    else if maxToken ≤ cur.length then ([], true)
    else ([dropCR cur.reverse], false)
  | cur, c :: rest =>
    if c == 10 then
      if maxToken ≤ cur.length then ([], true)
      else (dropCR cur.reverse :: (splitLinesLimAux [] rest).1, (splitLinesLimAux [] rest).2)
    else splitLinesLimAux (c :: cur) rest

def splitLinesLim (text : Bytes) : List Bytes × Bool := splitLinesLimAux [] text

/-- `": bufio.Scanner: token too long"` -/
def tooLongSuffix : Bytes := str ": bufio.Scanner: token too long"

/-- `Reader.Err().Error()` after `ErrTooLong` at `line` lines read -/
def tooLongMsg (fileName : Bytes) (line : Nat) : Bytes :=
  fileName ++ [58] ++ decimal line ++ tooLongSuffix

/-- `NewReader(text, fileName)` scanned to the end: the records, and `Err()` (as its message). -/
def readAllLim (O : Oracles) (fileName text : Bytes) : List Rec × Option Bytes :=
  let st0 := RState.zero.reset fileName []
  let ls := splitLinesLim text
  (readLines O st0 ls.1, if ls.2 then some (tooLongMsg st0.fileName ls.1.length) else none)

/-- Outcome of a `Files` run with the limit. -/
structure FilesOutLim where
  recs : List Rec
  /-- path whose `os.Open` failed -/
  failed : Option Bytes
  /-- message of the reader's I/O error that stopped the run -/
  ioErr : Option Bytes
  st : RState
  deriving Repr

def Files.runFromLim (O : Oracles) (fs : FS) : RState → Bytes → List Input → FilesOutLim
  | st, _, [] => { recs := [], failed := none, ioErr := none, st := st }
  | st, stdin, inp :: rest =>
    let content : Option Bytes := if inp.isStdin then some stdin else fs.open inp.path
    match content with
    | none => { recs := [], failed := some inp.path, ioErr := none, st := st }
    | some text =>
      let st0 := st.reset inp.path [(dotFile, inp.label)]
      let ls := splitLinesLim text
      if ls.2 then
        { recs := readLines O st0 ls.1, failed := none,
          ioErr := some (tooLongMsg st0.fileName ls.1.length), st := finalState O st0 ls.1 }
      else
        let out := Files.runFromLim O fs (finalState O st0 ls.1) (if inp.isStdin then [] else stdin) rest
        { out with recs := readLines O st0 ls.1 ++ out.recs }

def Files.runLim (O : Oracles) (fs : FS) (paths : List Bytes) (allowStdin allowLabels : Bool) : FilesOutLim :=
  Files.runFromLim O fs RState.zero fs.stdin (Files.init paths allowStdin allowLabels)

end Fmt
