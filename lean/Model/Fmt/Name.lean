/-
Model of benchfmt.Name: splitGomaxprocs, Parts, Base  (benchfmt/result.go:229-281).
-/
import Model.Base.Bytes

namespace Fmt.Name
open Bytes

abbrev slash : UInt8 := 47
abbrev dash : UInt8 := 45
abbrev eqc : UInt8 := 61
abbrev star : UInt8 := 42

/-- The backwards scan of `splitGomaxprocs`: `rev` is the not yet visited prefix, reversed;
`suf` the already visited suffix (all digits). -/
def splitGoAux : (rev : Bytes) → (suf : Bytes) → Option (Bytes × Bytes)
  | [], _ => none
  | c :: rest, suf =>
    if c == dash && !suf.isEmpty then some (rest.reverse, c :: suf)
    else if isDigit c then splitGoAux rest (c :: suf)
    else none

/-- `(prefix, gomaxprocs)`; `none` for gomaxprocs when the Go code returns nil. -/
def splitGomaxprocs (n : Bytes) : Bytes × Option Bytes :=
  match splitGoAux n.reverse [] with
  | some (p, g) => (p, some g)
  | none => (n, none)

/-- The '/'-splitting loop of `Parts`: every piece but the first starts with '/'. -/
def splitSlash : Bytes → List Bytes
  | [] => [[]]
  | c :: rest =>
    match splitSlash rest with
    | [] => [[c]]
    | p :: ps => if c == slash then [] :: (c :: p) :: ps else (c :: p) :: ps

def parts (n : Bytes) : Bytes × List Bytes :=
  let (buf, g) := splitGomaxprocs n
  let np := splitSlash buf ++ (match g with | some g => [g] | none => [])
  (np.headD [], np.tail)

def takeUntilSlash : Bytes → Bytes
  | [] => []
  | c :: rest => if c == slash then [] else c :: takeUntilSlash rest

def base (n : Bytes) : Bytes :=
  if hasByte n slash then takeUntilSlash n else (splitGomaxprocs n).1

end Fmt.Name
