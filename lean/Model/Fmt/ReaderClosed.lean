/-
The CLOSED reader model: `Fmt.Reader` with its number and unit parameters instantiated by the
models of the code the Go reader actually calls (properties C03 and C04):

  atoi  := `Num.atoi`        bytesconv.Atoi       (fast path for 1–18 bytes, else ParseInt/ParseUint)
  atof  := `Num.readerAtofMirror` reader.go `atof` (int64 digit loop, else the FULLY MIRRORED
                             bytesconv.ParseFloat of Model/Num/DecSlow.lean: readFloat, atofHex,
                             atof64exact, decimal.set / Shift / floatBits — no specification inside)
  tidy  := `Unit.Tidy.tidy`  benchunit.Tidy       (fast-path switch, substring filter, general path)

The only parameter left is `uc`, the Unicode predicates on non-ASCII runes. With these oracles
every definition of `Model/Fmt/Reader.lean` and `Model/Fmt/Files.lean` is a closed program from
bytes to records; the C02 driver runs it as a second pass that ignores the harness-supplied
number/tidy tables, so the correspondence covers the composition reader ∘ numbers ∘ units.

NaN: the F64 model produces the canonical quiet NaN (0x7FF8000000000001), which is also what
Go's ParseFloat returns and what survives a multiplication by the tidy factor.

Core Lean only.
-/
import Model.Fmt.Reader
import Model.Fmt.Files
import Model.Num.Atoi
import Model.Num.Atof
import Model.Num.DecSlow
import Model.Unit.Tidy

namespace Fmt

def liftNumErr : Spec.NumText.NumErr → NumErr
  | .syntax => .syntax
  | .range => .range

/-- Go returns a value *and* an error; the reader looks at the value only when `err == nil`. -/
def closedAtoi (b : Bytes) : Except NumErr Int :=
  match (Num.atoi b).err with
  | none => .ok (Num.atoi b).val
  | some e => .error (liftNumErr e)

def closedAtof (b : Bytes) : Except NumErr UInt64 :=
  match (Num.readerAtofMirror b).err with
  | none => .ok (Num.readerAtofMirror b).val
  | some e => .error (liftNumErr e)

/-- The oracles of the closed model. -/
def closedOracles (uc : UC) : Oracles :=
  { uc := uc, atoi := closedAtoi, atof := closedAtof, tidy := Unit.Tidy.tidy }

/-- `NewReader(text, fileName)` scanned to the end, closed model. -/
def Reader.closed (uc : UC) (fileName text : Bytes) : List Rec :=
  readAll (closedOracles uc) fileName text

/-- A `Files` run, closed model. -/
def Files.closed (uc : UC) (fs : FS) (paths : List Bytes) (allowStdin allowLabels : Bool) : FilesOut :=
  Files.run (closedOracles uc) fs paths allowStdin allowLabels

end Fmt
