/-
benchfmt/files.go — reading a sequence of files through one reused `Reader`.

* `Files.init`  — `label=path` split (only with `AllowLabels`), the implicit stdin input for an
                  empty list (with `AllowStdin`), counting of unlabelled paths and the `path#N`
                  disambiguation of those that occur more than once.
* `Files.run`   — the `Scan` loop over the inputs: each file is opened, the reader is `Reset`
                  with `.file = label` as internal configuration (config wiped, unit metadata
                  kept), its records are delivered, then the next file is opened. An `os.Open`
                  failure stops everything (`Files.Err`).

The file system is a parameter (`FS`): a finite map from path to contents plus the contents of
stdin. Stdin is never closed or rewound, so a second `-` input finds it at EOF.

Core Lean only. All functions are total.
-/
import Model.Fmt.Reader

namespace Fmt

/-- `files.go: type input` -/
structure Input where
  path : Bytes
  label : Bytes
  isStdin : Bool
  isLabeled : Bool
  deriving Repr, DecidableEq, Inhabited

/-- `fmt.Sprintf("%d", n)` -/
def decimal (n : Nat) : Bytes := (Nat.toDigits 10 n).map (fun c => UInt8.ofNat c.toNat)

/-- One element of `f.Paths` → `input` (before disambiguation). -/
def parsePath (allowStdin allowLabels : Bool) (p : Bytes) : Input :=
  let (before, after) := p.span (fun c => !(c == 61))
  -- i := strings.Index(path, "="); f.AllowLabels && i >= 0
  if allowLabels && !after.isEmpty then
    let path := after.drop 1
    { path := path, label := before, isStdin := allowStdin && path == [45], isLabeled := true }
  else
    { path := p, label := p, isStdin := allowStdin && p == [45], isLabeled := false }

/-- `pathCount[p]`: how many inputs are unlabelled and have path `p`. -/
def pathCount (parsed : List Input) (p : Bytes) : Nat :=
  (parsed.filter (fun i => !i.isLabeled && i.path == p)).length

/-- The second loop of `init`. `seen` lists the paths disambiguated so far, so that
`pathI[p]` is the number of occurrences of `p` in it. -/
def disambiguate (count : Bytes → Nat) : List Bytes → List Input → List Input
  | _, [] => []
  | seen, inp :: rest =>
    if inp.isLabeled || count inp.path == 1 then inp :: disambiguate count seen rest
    else
      { inp with label := inp.path ++ [35] ++ decimal (seen.count inp.path) }
        :: disambiguate count (inp.path :: seen) rest

/-- `(*Files).init`: the inputs in order. -/
def Files.init (paths : List Bytes) (allowStdin allowLabels : Bool) : List Input :=
  let parsed := paths.map (parsePath allowStdin allowLabels)
  let dflt : List Input :=
    if allowStdin && paths.isEmpty then [{ path := [45], label := [45], isStdin := true, isLabeled := false }]
    else []
  -- the implicit stdin input counts as one occurrence of the path "-" (`pathCount["-"]++`)
  disambiguate (pathCount (dflt ++ parsed)) [] (dflt ++ parsed)

/-- The world `Files` reads from. -/
structure FS where
  files : List (Bytes × Bytes)
  stdin : Bytes
  deriving Repr, Inhabited

def FS.open (fs : FS) (path : Bytes) : Option Bytes := List.lookup path fs.files

def dotFile : Bytes := str ".file"

/-- Outcome of running a `Files` to the end. -/
structure FilesOut where
  recs : List Rec
  /-- `Files.Err() != nil`: the path whose `os.Open` failed -/
  failed : Option Bytes
  /-- reader state at the end (`Files.Units()` is its `units`) -/
  st : RState
  deriving Repr

/-- The `Scan` loop over the remaining inputs, starting with reader state `st` and what is
left of stdin. -/
def Files.runFrom (O : Oracles) (fs : FS) : RState → Bytes → List Input → FilesOut
  | st, _, [] => { recs := [], failed := none, st := st }
  | st, stdin, inp :: rest =>
    let content : Option Bytes := if inp.isStdin then some stdin else fs.open inp.path
    match content with
    | none => { recs := [], failed := some inp.path, st := st }
    | some text =>
      let st0 := st.reset inp.path [(dotFile, inp.label)]
      let ls := splitLines text
      let out := Files.runFrom O fs (finalState O st0 ls) (if inp.isStdin then [] else stdin) rest
      { out with recs := readLines O st0 ls ++ out.recs }

/-- A `Files{Paths, AllowStdin, AllowLabels}` scanned to the end. -/
def Files.run (O : Oracles) (fs : FS) (paths : List Bytes) (allowStdin allowLabels : Bool) : FilesOut :=
  Files.runFrom O fs RState.zero fs.stdin (Files.init paths allowStdin allowLabels)

end Fmt
