/-
benchfmt/writer.go — the benchmark-format writer, statement by statement (code as of 40348e7:
a key that turns from file to internal configuration gets the deletion line `key:`).

* `WState`            — `Writer.first`, `Writer.fileConfig` (`map[string]Config`, as an association
                         list key ↦ (value, File); only lookups and `len` are observed),
                         `Writer.order`
* `needFileConfig`    — the pre-check of `writeResult`: `len(w.fileConfig) != len(res.Config)`, else
                         the per-key compare on value AND File flag
* `walk`              — "walk keys we know to find changes and deletions": the loop over `w.order`
                         with in-place deletion (`copy`/reslice/`i--` = the key is dropped from the
                         list and the walk continues with the next one), the changed-value line, the
                         file→internal deletion line
* `newKeys`           — "find new keys", guarded by the second length test
* `writeFileConfig`   — blank line when `!w.first`, walk, new keys, closing blank line
* `benchLine`         — `Benchmark%s %d` then ` %v %s` of Value/Unit or, when `OrigUnit != ""`,
                         of OrigValue/OrigUnit
* `writeUnitMetadata` — `Unit %s %s=%s`
* `write`             — the type switch of `Write` (`*SyntaxError` is ignored)

The output is produced as the list of *lines* in the order they are printed; every `Fprintf`
of the Go code ends its text with `\n` and the two `WriteByte('\n')` print an empty line, so the
bytes handed to the `io.Writer` are exactly `render lines` (each line followed by LF).

`res.ConfigIndex(key)` is modelled by the index `buildIndex res.Config` (what a fresh `Result`
builds lazily, and what `SetConfig`/the reader maintain; C02 `Store.Inv`): for pairwise distinct
keys it is the position of the key.

Parameter (`WParams`): the text `fmt` prints for a float64 under `%v` (stdlib; the harness
supplies Go's answer for every value of a case). `%d` is `fmtInt`.

Not modelled: sharing of buffers (the writer copies values with `append(have.Value[:0], …)`,
exercised only by the harness's in-place-edit histories), errors of the underlying `io.Writer`.

Core Lean only. All functions are total (structural recursion).
-/
import Model.Fmt.Reader

namespace Fmt

/-- `Writer.fileConfig : map[string]Config` — key ↦ (Value, File). -/
abbrev FC := List (Bytes × Bytes × Bool)

namespace FC
/-- `have, ok := m[k]` -/
def get (m : FC) (k : Bytes) : Option (Bytes × Bool) := List.lookup k m
/-- `delete(m, k)` -/
def erase (m : FC) (k : Bytes) : FC := m.filter (fun e => !(e.1 == k))
/-- `m[k] = Config{k, v, file}` -/
def set (m : FC) (k v : Bytes) (file : Bool) : FC := (k, v, file) :: erase m k
end FC

structure WState where
  first : Bool
  fileConfig : FC
  order : List Bytes
  deriving Repr, DecidableEq, Inhabited

/-- `NewWriter` -/
def WState.new : WState := { first := true, fileConfig := [], order := [] }

structure WParams where
  /-- `fmt.Sprintf("%v", math.Float64frombits(bits))` -/
  fmtNum : UInt64 → Bytes

/-- decimal digits of a natural number, as ASCII bytes -/
def decimalDigits (n : Nat) : Bytes := (Nat.toDigits 10 n).map (fun c => UInt8.ofNat c.toNat)

/-- `fmt.Sprintf("%d", n)` -/
def fmtInt (n : Int) : Bytes :=
  if n < 0 then 45 :: decimalDigits n.natAbs else decimalDigits n.toNat

/-- `idx, ok := res.ConfigIndex(key)`; then `&res.Config[idx]`. -/
def cfgAt (config : List Cfg) (key : Bytes) : Option Cfg :=
  match (buildIndex config).get key with
  | some i => config[i]?
  | none => none

/-- `!ok || !bytes.Equal(cfg.Value, have.Value) || cfg.File != have.File` -/
def differs (fc : FC) (c : Cfg) : Bool :=
  match fc.get c.key with
  | none => true
  | some (v, f) => !(c.value == v) || c.file != f

/-- The test at the head of `writeResult`: is a configuration block needed? -/
def needFileConfig (fc : FC) (config : List Cfg) : Bool :=
  if fc.length != config.length then true else config.any (differs fc)

/-- `"%s: %s"` -/
def kvLine (key value : Bytes) : Bytes := key ++ [58, 32] ++ value
/-- `"%s:"` -/
def delLine (key : Bytes) : Bytes := key ++ [58]

/-- The loop over `w.order`. Returns the new `order`, the new `fileConfig` and the lines printed. -/
def walk (config : List Cfg) : List Bytes → FC → List Bytes × FC × List Bytes
  | [], fc => ([], fc, [])
  | key :: rest, fc =>
    -- have := w.fileConfig[key]   (the zero Config if absent)
    let have_ := (fc.get key).getD ([], false)
    match cfgAt config key with
    | none =>
      -- key was deleted: print `key:`, delete(w.fileConfig, key), remove order[i], i--
      let r := walk config rest (fc.erase key)
      (r.1, r.2.1, delLine key :: r.2.2)
    | some cfg =>
      if have_.1 == cfg.value && have_.2 == cfg.file then
        -- value did not change
        let r := walk config rest fc
        (key :: r.1, r.2.1, r.2.2)
      else
        let line : List Bytes :=
          if cfg.file then [kvLine key cfg.value]          -- value changed
          else if have_.2 then [delLine key]               -- file config became internal config
          else []                                          -- internal config: omitted
        let r := walk config rest (fc.set key cfg.value cfg.file)
        (key :: r.1, r.2.1, line ++ r.2.2)

/-- `for _, cfg := range res.Config { if _, ok := w.fileConfig[cfg.Key]; ok { continue }; … }`
Returns the new `fileConfig`, the new `order` and the lines printed. -/
def newKeys : List Cfg → FC → List Bytes → FC × List Bytes × List Bytes
  | [], fc, ord => (fc, ord, [])
  | cfg :: rest, fc, ord =>
    if (fc.get cfg.key).isSome then newKeys rest fc ord
    else
      let line : List Bytes := if cfg.file then [kvLine cfg.key cfg.value] else []
      let r := newKeys rest (fc.set cfg.key cfg.value cfg.file) (ord ++ [cfg.key])
      (r.1, r.2.1, line ++ r.2.2)

/-- `writeFileConfig(res)` -/
def writeFileConfig (w : WState) (config : List Cfg) : WState × List Bytes :=
  -- configuration blocks after results get an extra blank
  let pre : List Bytes := if !w.first then [[]] else []
  -- (order, fileConfig, lines) after the walk
  let r1 := walk config w.order w.fileConfig
  -- (fileConfig, order, lines) after the new-keys pass
  let r2 : FC × List Bytes × List Bytes :=
    if r1.2.1.length != config.length then newKeys config r1.2.1 r1.1 else (r1.2.1, r1.1, [])
  ({ first := true, fileConfig := r2.1, order := r2.2.1 }, pre ++ r1.2.2 ++ r2.2.2 ++ [[]])

/-- value and unit a measurement is printed with -/
def Val.written (v : Val) : UInt64 × Bytes :=
  if v.origUnit.isEmpty then (v.value, v.unit) else (v.origValue, v.origUnit)

/-- the benchmark line -/
def benchLine (P : WParams) (r : Res) : Bytes :=
  benchmarkPrefix ++ r.name ++ [32] ++ fmtInt r.iters ++
    r.values.flatMap (fun v => [32] ++ P.fmtNum v.written.1 ++ [32] ++ v.written.2)

/-- `writeResult(res)` -/
def writeResult (P : WParams) (w : WState) (r : Res) : WState × List Bytes :=
  let r1 : WState × List Bytes :=
    if needFileConfig w.fileConfig r.config then writeFileConfig w r.config else (w, [])
  ({ r1.1 with first := false }, r1.2 ++ [benchLine P r])

/-- `"Unit %s %s=%s"` -/
def unitLine (m : UnitMeta) : Bytes :=
  unitPrefix ++ [32] ++ m.origUnit ++ [32] ++ m.key ++ [61] ++ m.value

/-- `Write(rec)`: new state and the lines printed. -/
def Writer.write (P : WParams) (w : WState) : Rec → WState × List Bytes
  | .result r => writeResult P w r
  | .unit m => (w, [unitLine m])
  | .err _ => (w, [])

/-- Lines printed for a whole history, from a given state. -/
def Writer.writeFrom (P : WParams) : WState → List Rec → List Bytes
  | _, [] => []
  | w, r :: rs => (Writer.write P w r).2 ++ Writer.writeFrom P (Writer.write P w r).1 rs

/-- The writer state after a history. -/
def Writer.stateAfter (P : WParams) : WState → List Rec → WState
  | w, [] => w
  | w, r :: rs => Writer.stateAfter P (Writer.write P w r).1 rs

def Writer.writeAll (P : WParams) (h : List Rec) : List Bytes := Writer.writeFrom P WState.new h

/-- The bytes: every line followed by LF. -/
def render (lines : List Bytes) : Bytes := lines.flatMap (· ++ [10])

end Fmt
