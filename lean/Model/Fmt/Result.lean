/-
benchfmt/result.go — records and the in-place configuration store.

`Cfg`, `Val`, `Res` mirror `Config`, `Value`, `Result`. Floats are `UInt64` bit patterns.

`Store` is `Result.Config` together with its index `Result.configPos`, modelled at the level of
the Go code: `arr` is the *backing array up to its capacity* (so `arr[len..]` are the stale
slots left behind by `deleteConfig` and by `Reader.Reset`, which are reused by `ensureConfig`),
`len` is `len(r.Config)`, and `pos` is the map `configPos` (`none` = the Go `nil` map: the index
is built lazily by `ConfigIndex`). Maps are association lists; only `lookup` is ever observed.

Not modelled (a pure model cannot exhibit it): the *sharing* of `Value` buffers
(`append(cfg.Value[:0], val...)`) and of the single `Result` object between records — the
harness's runtime clone check covers that.

Core Lean only. All functions are total.
-/
import Model.Base.Bytes

namespace Fmt

/-- `benchfmt.Config` -/
structure Cfg where
  key : Bytes
  value : Bytes
  file : Bool
  deriving DecidableEq, Repr, Inhabited

/-- `benchfmt.Value`; `origUnit = []` means "not rescaled" (then `origValue` is `0`). -/
structure Val where
  value : UInt64
  unit : Bytes
  origValue : UInt64
  origUnit : Bytes
  deriving DecidableEq, Repr, Inhabited

/-- `benchfmt.Result` as seen by a caller at the moment `Scan` returns it (a snapshot:
`config` is `r.Config` in slot order). -/
structure Res where
  config : List Cfg
  name : Bytes
  iters : Int
  values : List Val
  fileName : Bytes
  line : Nat
  deriving DecidableEq, Repr, Inhabited

/-- `benchfmt.SyntaxError` -/
structure SyntaxErr where
  fileName : Bytes
  line : Nat
  msg : Bytes
  deriving DecidableEq, Repr, Inhabited

/-! ### The index map `configPos : map[string]int` -/

abbrev Index := List (Bytes × Nat)

namespace Index
/-- `delete(m, k)` -/
def erase (m : Index) (k : Bytes) : Index := m.filter (fun e => !(e.1 == k))
/-- `m[k] = v` -/
def set (m : Index) (k : Bytes) (v : Nat) : Index := (k, v) :: erase m k
/-- `v, ok := m[k]` -/
def get (m : Index) (k : Bytes) : Option Nat := List.lookup k m
end Index

/-- `for i, cfg := range r.Config { r.configPos[cfg.Key] = i }` starting at slot `i`. -/
def buildIndexFrom : Nat → List Cfg → Index → Index
  | _, [], m => m
  | i, c :: cs, m => buildIndexFrom (i + 1) cs (m.set c.key i)

def buildIndex (live : List Cfg) : Index := buildIndexFrom 0 live []

/-! ### The slot store -/

structure Store where
  /-- backing array of `r.Config`, up to its capacity (live slots, then stale ones) -/
  arr : List Cfg
  /-- `len(r.Config)` -/
  len : Nat
  /-- `r.configPos`; `none` is the nil map -/
  pos : Option Index
  deriving Repr, Inhabited

namespace Store

/-- The zero `Result`. -/
def empty : Store := { arr := [], len := 0, pos := none }

/-- `r.Config` as a caller sees it. -/
def live (s : Store) : List Cfg := s.arr.take s.len

/-- The index `ConfigIndex` works with: the stored map, or (nil map) the one it builds. -/
def index (s : Store) : Index :=
  match s.pos with
  | some m => m
  | none => buildIndex s.live

/-- `ConfigIndex(key)` (second component of the Go result is `isSome`). -/
def configIndex (s : Store) (key : Bytes) : Option Nat := s.index.get key

/-- `ensureConfig(key, file)`: returns the store and the slot whose `Value` the caller is
about to overwrite. In the slot-reuse branch the stale `Value` stays in place until then. -/
def ensureConfig (s : Store) (key : Bytes) (file : Bool) : Store × Nat :=
  let idx := s.index
  match idx.get key with
  | some p =>
    ({ arr := s.arr.modify p (fun c => { c with file := file }), len := s.len, pos := some idx }, p)
  | none =>
    let idx' := idx.set key s.len
    if s.len < s.arr.length then
      -- reuse old space: r.Config = r.Config[:len+1]; cfg.Key = key; cfg.File = file
      ({ arr := s.arr.modify s.len (fun c => { c with key := key, file := file }),
         len := s.len + 1, pos := some idx' }, s.len)
    else
      ({ arr := s.arr ++ [{ key := key, value := [], file := file }],
         len := s.len + 1, pos := some idx' }, s.len)

/-- `cfg.Value = append(cfg.Value[:0], val...)` on slot `i`. -/
def setValue (s : Store) (i : Nat) (val : Bytes) : Store :=
  { s with arr := s.arr.modify i (fun c => { c with value := val }) }

/-- `deleteConfig(key)`: swap with the last live slot, re-index the moved key, shrink, unindex. -/
def deleteConfig (s : Store) (key : Bytes) : Store :=
  let idx := s.index
  match idx.get key with
  | none => { s with pos := some idx }
  | some p =>
    let last := s.len - 1
    let a := s.arr.getD p default
    let b := s.arr.getD last default
    let arr' := (s.arr.set p b).set last a          -- *cfg, *cfg2 = *cfg2, *cfg
    let idx1 := idx.set b.key p                      -- r.configPos[cfg.Key] = pos
    { arr := arr', len := s.len - 1, pos := some (idx1.erase key) }

/-- `SetConfig(key, value)` (`file = false`) and the reader's key/value-line update
(`file = true`): an empty value deletes the key. -/
def set (s : Store) (key value : Bytes) (file : Bool) : Store :=
  if value.isEmpty then s.deleteConfig key
  else
    let (s', i) := s.ensureConfig key file
    s'.setValue i value

/-- What `Reader.Reset` does to the result's configuration: `Config = Config[:0]` (slots stay
behind as stale), every key deleted from `configPos` (a nil map stays nil). -/
def reset (s : Store) : Store :=
  { arr := s.arr, len := 0, pos := s.pos.map (fun _ => []) }

/-- `GetConfig`-style lookup through the index: the entry for `key`, if any. -/
def get (s : Store) (key : Bytes) : Option Cfg :=
  match s.configIndex key with
  | some p => s.arr[p]?
  | none => none

end Store

/-- Operations a history is made of (`store_refines_map` quantifies over lists of these). -/
inductive StoreOp where
  /-- a `key: value` line of the input (value `[]`: the deletion line `key:`) -/
  | setFile (key value : Bytes)
  /-- `Result.SetConfig(key, value)` -/
  | setInternal (key value : Bytes)
  /-- `deleteConfig(key)` -/
  | delete (key : Bytes)
  deriving Repr, DecidableEq

def Store.apply (s : Store) : StoreOp → Store
  | .setFile k v => s.set k v true
  | .setInternal k v => s.set k v false
  | .delete k => s.deleteConfig k

end Fmt
