/-
benchfmt/reader.go — the benchmark-format reader, function by function.

* `splitField`            — ASCII bit-mask fast path and `utf8.DecodeRune` slow path
* `parseKeyValueLine`     — the `key: value` recogniser
* `parseBenchmarkLine`    — all error exits, the "name is the whole line" skip
* `isUnitLine` / `parseUnitLine` — several records per line, duplicates and conflicts judged
                            against the persistent `units` map
* `scanLine`              — the body of the `for … r.s.Scan()` loop of `Reader.Scan`
* `Reader.scan` / `result`— `Scan` with its `q`/`qPos` queue; `readLines` is the stream of
                            records successive `Scan`s deliver (theorem `C02.scan_iterates`)
* `splitLines`            — `bufio.Scanner` with `bufio.ScanLines`: LF-terminated, one trailing
                            CR dropped, a final unterminated non-empty line is a line.
                            PRECONDITION (not modelled): no line reaches 64 KiB
                            (`bufio.MaxScanTokenSize`); beyond it the real reader stops with
                            `bufio.ErrTooLong`.
* `Reader.reset`          — `Reset`: queue and configuration wiped (slots stay behind as stale),
                            unit metadata kept, `initConfig` installed as internal config.

Parameters (`Oracles`): numbers and units are the subject of C03/C04, not of this model, so
`atoi` (`bytesconv.Atoi`), `atof` (the reader's `atof`) and `tidy` (`benchunit.Tidy`) are taken
as functions, together with the non-ASCII Unicode predicates `uc`.

Loops that skip `n` bytes after decoding a rune are written with a *skip counter* so that every
function is structurally recursive on the byte list; the only fuel is in `fields`, whose bound
`length + 1` always suffices because each non-empty field consumes at least one byte.

Not modelled: string interning (`intern` returns an equal string; eviction changes nothing
observable), buffer reuse/aliasing, I/O errors of the underlying `io.Reader`.

Core Lean only. All functions are total.
-/
import Model.Fmt.Rune
import Model.Fmt.Result
import Model.Fmt.Units

namespace Fmt

/-! ### Parameters -/

/-- `bytesconv.NumError.Err`, or any other error (the `default:` arm of the type switches). -/
inductive NumErr where
  | syntax
  | range
  | other (msg : Bytes)
  deriving Repr, DecidableEq

structure Oracles where
  uc : UC
  /-- `bytesconv.Atoi` -/
  atoi : Bytes → Except NumErr Int
  /-- the reader's `atof` (integer fast path, else `bytesconv.ParseFloat(x, 64)`), as bits -/
  atof : Bytes → Except NumErr UInt64
  /-- `benchunit.Tidy(value, unit)` -/
  tidy : UInt64 → Bytes → UInt64 × Bytes

def str (s : String) : Bytes := Bytes.ofString s

/-- message of `r.newSyntaxError(prefix + err.Err.Error())` / `r.newSyntaxError(err.Error())` -/
def NumErr.msg (pre : String) : NumErr → Bytes
  | .syntax => str pre ++ str "invalid syntax"
  | .range => str pre ++ str "value out of range"
  | .other m => m

/-! ### splitField -/

/-- First loop of `splitField` ("collect non-whitespace into field"). `skip` bytes belong to a
rune already judged non-space. Returns the field and `rest` as set at the `break` (the bytes
*after* the first whitespace rune; `[]` if the loop ran to the end). -/
def takeField (uc : UC) : Nat → Bytes → Bytes × Bytes
  | _, [] => ([], [])
  | k + 1, c :: rest =>
    let (f, r) := takeField uc k rest
    (c :: f, r)
  | 0, c :: rest =>
    if c < 0x80 then
      if asciiSpace c then ([], rest)
      else
        let (f, r) := takeField uc 0 rest
        (c :: f, r)
    else
      let (r, n) := decodeRune (c :: rest)
      if uc.space r then ([], rest.drop (n - 1))
      else
        let (f, r') := takeField uc (n - 1) rest
        (c :: f, r')

/-- Second loop of `splitField` ("strip whitespace from rest"). `skip` bytes belong to a rune
already judged to be space. -/
def skipSpaces (uc : UC) : Nat → Bytes → Bytes
  | _, [] => []
  | k + 1, _ :: rest => skipSpaces uc k rest
  | 0, c :: rest =>
    if c < 0x80 then
      if asciiSpace c then skipSpaces uc 0 rest else c :: rest
    else
      let (r, n) := decodeRune (c :: rest)
      if uc.space r then skipSpaces uc (n - 1) rest else c :: rest

/-- `splitField(x) = (field, rest)` -/
def splitField (uc : UC) (x : Bytes) : Bytes × Bytes :=
  let (f, r) := takeField uc 0 x
  (f, skipSpaces uc 0 r)

/-- The loop shape `for { f, line = splitField(line); if len(f) == 0 { break }; … }` that both
`parseBenchmarkLine` and `parseUnitLine` use: the successive non-empty fields. -/
def fieldsN (uc : UC) : Nat → Bytes → List Bytes
  | 0, _ => []
  | n + 1, x =>
    let (f, rest) := splitField uc x
    if f.isEmpty then [] else f :: fieldsN uc n rest

def fields (uc : UC) (x : Bytes) : List Bytes := fieldsN uc (x.length + 1) x

/-! ### parseKeyValueLine -/

/-- Outcome of the rune loop of `parseKeyValueLine`. -/
inductive KVScan where
  /-- a `return` inside the loop -/
  | reject
  /-- the loop ran off the end of the line: `key` is still empty -/
  | noColon
  /-- `break` with `key = line[:i]`, `val = line[i+1:]` -/
  | found (key val : Bytes)
  deriving Repr, DecidableEq

def KVScan.consKey (c : UInt8) : KVScan → KVScan
  | .found k v => .found (c :: k) v
  | x => x

/-- `atStart` is `i == 0`; `skip` bytes belong to a rune already accepted into the key. -/
def kvScan (uc : UC) : Bool → Nat → Bytes → KVScan
  | _, _, [] => .noColon
  | atStart, k + 1, c :: rest => (kvScan uc atStart k rest).consKey c
  | atStart, 0, c :: rest =>
    let (r, n) := decodeRune (c :: rest)
    if atStart && !uc.lower r then .reject
    else if uc.space r || uc.upper r then .reject
    else if !atStart && r == 58 then .found [] rest
    else (kvScan uc false (n - 1) rest).consKey c

def isBlank (c : UInt8) : Bool := c == 32 || c == 9

/-- `parseKeyValueLine(line) = (key, val, ok)`; `none` is `ok = false`. -/
def parseKeyValueLine (uc : UC) (line : Bytes) : Option (Bytes × Bytes) :=
  match kvScan uc true 0 line with
  | .found key val =>
    if key.isEmpty then none
    else match val with
      | [] => some (key, [])                                  -- value omitted entirely
      | c :: _ =>
        -- "one or more ASCII space or tab characters separate key: from value"
        if isBlank c then some (key, val.dropWhile isBlank) else none
  | _ => none

/-! ### parseBenchmarkLine -/

/-- `"Benchmark"` -/
def benchmarkPrefix : Bytes := [66, 101, 110, 99, 104, 109, 97, 114, 107]
/-- `"Unit"` -/
def unitPrefix : Bytes := [85, 110, 105, 116]

inductive BenchOut where
  /-- `errSkip`: the name is the entire line (`go test -v` chatter) -/
  | skip
  /-- `r.newSyntaxError(msg)` -/
  | err (msg : Bytes)
  | ok (name : Bytes) (iters : Int) (values : List Val)
  deriving Repr, DecidableEq

/-- The value/unit loop; `acc` is `r.result.Values` so far, reversed. -/
def parseValues (O : Oracles) : List Bytes → List Val → Except Bytes (List Val)
  | [], acc =>
    if acc.isEmpty then .error (str "missing measurements") else .ok acc.reverse
  | f :: fs, acc =>
    match O.atof f with
    | .error e => .error (e.msg "parsing measurement: ")
    | .ok val =>
      match fs with
      | [] => .error (str "missing units")
      | unit :: fs' =>
        let (tidyVal, tidyUnit) := O.tidy val unit
        let v : Val :=
          if tidyUnit == unit then { value := val, unit := unit, origValue := 0, origUnit := [] }
          else { value := tidyVal, unit := tidyUnit, origValue := val, origUnit := unit }
        parseValues O fs' (v :: acc)

/-- `parseBenchmarkLine(line)`; `line` still carries the `Benchmark` prefix the caller tested. -/
def parseBenchmarkLine (O : Oracles) (line0 : Bytes) : BenchOut :=
  let line := line0.drop 9
  let (name, rest) := splitField O.uc line
  if rest.isEmpty && name.length == line.length then .skip
  else
    match fields O.uc rest with
    | [] => .err (str "missing iteration count")
    | f :: fs =>
      match O.atoi f with
      | .error e => .err (e.msg "parsing iteration count: ")
      | .ok iters =>
        match parseValues O fs [] with
        | .error m => .err m
        | .ok vals => .ok name iters vals

/-! ### Unit metadata lines -/

/-- `isUnitLine(line)`: the line after the literal `Unit` field, if that is its first field. -/
def isUnitLine (uc : UC) (line : Bytes) : Option Bytes :=
  let (f, rest) := splitField uc line
  if f == unitPrefix then some rest else none

/-- A record delivered by `Scan`: `*Result`, `*SyntaxError` or `*UnitMetadata`. -/
inductive Rec where
  | result (r : Res)
  | err (e : SyntaxErr)
  | unit (u : UnitMeta)
  deriving Repr, DecidableEq

/-- One turn of the `key=value` loop of `parseUnitLine` on field `f`:
the updated `units` map and what is appended to the queue. -/
def unitField (fileName : Bytes) (line : Nat) (unit tidyUnit : Bytes)
    (units : UnitMap) (f : Bytes) : UnitMap × List Rec :=
  let (key, after) := f.span (fun c => !(c == 61))
  -- eq := bytes.IndexByte(f, '='); eq <= 0
  if after.isEmpty || key.isEmpty then
    (units, [.err ⟨fileName, line, str "expected key=value"⟩])
  else
    let value := after.drop 1
    match units.get tidyUnit key with
    | some have_ =>
      if have_.value == value then (units, [])
      else (units, [.err ⟨fileName, line,
              str "metadata " ++ key ++ str " of unit " ++ unit ++ str " already set to " ++ have_.value⟩])
    | none =>
      let md : UnitMeta := ⟨tidyUnit, key, unit, value, fileName, line⟩
      (units.insert md, [.unit md])

def unitFields (fileName : Bytes) (line : Nat) (unit tidyUnit : Bytes) :
    UnitMap → List Bytes → UnitMap × List Rec
  | units, [] => (units, [])
  | units, f :: fs =>
    let (u1, q1) := unitField fileName line unit tidyUnit units f
    let (u2, q2) := unitFields fileName line unit tidyUnit u1 fs
    (u2, q1 ++ q2)

/-- `parseUnitLine(line)` with `line` = what `isUnitLine` returned. -/
def parseUnitLine (O : Oracles) (fileName : Bytes) (lineNo : Nat) (units : UnitMap)
    (line : Bytes) : UnitMap × List Rec :=
  match fields O.uc line with
  | [] => (units, [.err ⟨fileName, lineNo, str "missing unit"⟩])
  | unit :: fs =>
    -- bits of 1.0
    let tidyUnit := (O.tidy 0x3FF0000000000000 unit).2
    unitFields fileName lineNo unit tidyUnit units fs

/-! ### Scan -/

/-- The reader state that survives from line to line. (`result.Name/Iters/Values` are rewritten
before every use, so they carry nothing.) -/
structure RState where
  store : Store
  units : UnitMap
  fileName : Bytes
  /-- `r.result.line` -/
  line : Nat
  deriving Repr, Inhabited

/-- Body of the line loop in `Scan`: the new state and what the line appends to `r.q`. -/
def scanLine (O : Oracles) (st : RState) (line : Bytes) : RState × List Rec :=
  let st := { st with line := st.line + 1 }
  if Bytes.hasPrefix line benchmarkPrefix then
    match parseBenchmarkLine O line with
    | .ok name iters vals =>
      (st, [.result { config := st.store.live, name := name, iters := iters, values := vals,
                      fileName := st.fileName, line := st.line }])
    | .skip => (st, [])
    | .err m => (st, [.err ⟨st.fileName, st.line, m⟩])
  else
    match (if line.head? == some 85 then isUnitLine O.uc line else none) with
    | some rest =>
      let (units, q) := parseUnitLine O st.fileName st.line st.units rest
      ({ st with units := units }, q)
    | none =>
      match parseKeyValueLine O.uc line with
      | some (key, val) => ({ st with store := st.store.set key val true }, [])
      | none => (st, [])

/-- The records successive `Scan` calls deliver for the remaining lines. -/
def readLines (O : Oracles) : RState → List Bytes → List Rec
  | _, [] => []
  | st, l :: ls =>
    let (st', q) := scanLine O st l
    q ++ readLines O st' ls

/-- The state after the remaining lines have been consumed. -/
def finalState (O : Oracles) : RState → List Bytes → RState
  | st, [] => st
  | st, l :: ls => finalState O (scanLine O st l).1 ls

/-- `bufio.dropCR` -/
def dropCR (l : Bytes) : Bytes := if l.getLast? == some 13 then l.dropLast else l

/-- `bufio.ScanLines` iterated: `cur` is the current token so far, reversed. -/
def splitLinesAux : Bytes → Bytes → List Bytes
  | cur, [] => if cur.isEmpty then [] else [dropCR cur.reverse]
  | cur, c :: rest =>
    if c == 10 then dropCR cur.reverse :: splitLinesAux [] rest
    else splitLinesAux (c :: cur) rest

def splitLines (text : Bytes) : List Bytes := splitLinesAux [] text

/-- `Reader` with its queue. I/O errors are not modelled, so `r.err` is always nil. -/
structure Reader where
  st : RState
  /-- what `r.s` has yet to deliver -/
  lines : List Bytes
  q : List Rec
  qPos : Nat
  deriving Repr, Inhabited

/-- `for len(r.q) == 0 && r.s.Scan() { … }` -/
def fill (O : Oracles) : RState → List Bytes → RState × List Bytes × List Rec
  | st, [] => (st, [], [])
  | st, l :: ls =>
    let (st', q) := scanLine O st l
    if q.isEmpty then fill O st' ls else (st', ls, q)

/-- `Scan()` -/
def Reader.scan (O : Oracles) (r : Reader) : Reader × Bool :=
  if r.qPos + 1 < r.q.length then ({ r with qPos := r.qPos + 1 }, true)
  else
    let (st, ls, q) := fill O r.st r.lines
    ({ st := st, lines := ls, q := q, qPos := 0 }, !q.isEmpty)

/-- `Result()`; `none` is `noResult`. -/
def Reader.result (r : Reader) : Option Rec := r.q[r.qPos]?

/-- `initConfig` installed by `Reset`: `SetConfig(k, v)` for each pair. -/
def installConfig (s : Store) : List (Bytes × Bytes) → Store
  | [] => s
  | (k, v) :: kvs => installConfig (s.set k v false) kvs

/-- `Reset(ior, fileName, initConfig...)` as far as the line-to-line state goes. -/
def RState.reset (st : RState) (fileName : Bytes) (initConfig : List (Bytes × Bytes)) : RState :=
  { store := installConfig st.store.reset initConfig
    units := st.units
    fileName := if fileName.isEmpty then str "<unknown>" else fileName
    line := 0 }

/-- The state of `new(Reader)` before its first `Reset`. -/
def RState.zero : RState := { store := Store.empty, units := [], fileName := [], line := 0 }

/-- `Reset` on a `Reader`. -/
def Reader.reset (r : Reader) (text fileName : Bytes) (initConfig : List (Bytes × Bytes)) : Reader :=
  { st := r.st.reset fileName initConfig, lines := splitLines text, q := [], qPos := 0 }

/-- `NewReader(text, fileName)` -/
def Reader.new (text fileName : Bytes) : Reader :=
  Reader.reset { st := RState.zero, lines := [], q := [], qPos := 0 } text fileName []

/-- Everything `NewReader(text, fileName)` delivers, as one list. -/
def readAll (O : Oracles) (fileName text : Bytes) : List Rec :=
  readLines O (RState.zero.reset fileName []) (splitLines text)

end Fmt
