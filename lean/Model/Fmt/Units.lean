/-
benchfmt/units.go — unit metadata records and the accumulated `UnitMetadataMap`.

The map is keyed by `(tidied unit, metadata key)`; it is an association list in insertion order
(only lookups and the *set* of entries are observed; the driver sorts before printing).
Core Lean only.
-/
import Model.Base.Bytes

namespace Fmt

/-- `benchfmt.UnitMetadata` (with its embedded `UnitMetadataKey{Unit, Key}`). -/
structure UnitMeta where
  /-- tidied unit (map key, first half) -/
  unit : Bytes
  /-- metadata key (map key, second half) -/
  key : Bytes
  /-- unit as written in the input -/
  origUnit : Bytes
  value : Bytes
  fileName : Bytes
  line : Nat
  deriving DecidableEq, Repr, Inhabited

abbrev UnitMap := List UnitMeta

namespace UnitMap
/-- `have, ok := r.units[UnitMetadataKey{unit, key}]` -/
def get (m : UnitMap) (unit key : Bytes) : Option UnitMeta :=
  m.find? (fun u => u.unit == unit && u.key == key)
/-- `r.units[key] = metadata` for a key known to be absent. -/
def insert (m : UnitMap) (u : UnitMeta) : UnitMap := m ++ [u]
end UnitMap

end Fmt
