/-
Runes: a faithful model of Go's `utf8.DecodeRune` (including `RuneError` of width 1 on any
malformed sequence) and the Unicode predicates the benchmark-format reader calls.

ASCII is decided by the model; for code points ≥ 0x80 the predicates are a *parameter* (`UC`),
so every definition and theorem holds for every Unicode version. The C02 driver instantiates
`UC` from a table the Go harness prints on each case line (the toolchain's own `unicode`
package evaluated on every non-ASCII rune of that input).

Core Lean only.
-/
import Model.Base.Bytes

namespace Fmt

/-- `unicode.IsSpace / IsUpper / IsLower` restricted to code points ≥ 0x80. -/
structure UC where
  isSpace : Nat → Bool
  isUpper : Nat → Bool
  isLower : Nat → Bool

/-- A `UC` that says "no" everywhere: the ASCII-only world. -/
def UC.ascii : UC := ⟨fun _ => false, fun _ => false, fun _ => false⟩

def runeError : Nat := 0xFFFD

/-- UTF-8 continuation byte `10xxxxxx`. -/
def isCont (b : UInt8) : Bool := 0x80 ≤ b && b ≤ 0xBF

/-- `utf8.DecodeRune p = (rune, width)`. Width is 0 only for empty input; every malformed or
truncated sequence (stray continuation byte, over-long form, surrogate, > U+10FFFF) yields
`(RuneError, 1)`, exactly as the `first`/`acceptRanges` tables of `unicode/utf8` prescribe. -/
def decodeRune : Bytes → Nat × Nat
  | [] => (runeError, 0)
  | p0 :: rest =>
    if p0 < 0x80 then (p0.toNat, 1)
    else if p0 < 0xC2 then (runeError, 1)            -- continuation bytes, C0, C1
    else if p0 < 0xE0 then                            -- two bytes
      match rest with
      | b1 :: _ =>
        if isCont b1 then (((p0.toNat &&& 0x1F) <<< 6) ||| (b1.toNat &&& 0x3F), 2)
        else (runeError, 1)
      | [] => (runeError, 1)
    else if p0 < 0xF0 then                            -- three bytes
      let lo : UInt8 := if p0 == 0xE0 then 0xA0 else 0x80
      let hi : UInt8 := if p0 == 0xED then 0x9F else 0xBF
      match rest with
      | b1 :: b2 :: _ =>
        if lo ≤ b1 && b1 ≤ hi && isCont b2 then
          (((p0.toNat &&& 0x0F) <<< 12) ||| ((b1.toNat &&& 0x3F) <<< 6) ||| (b2.toNat &&& 0x3F), 3)
        else (runeError, 1)
      | _ => (runeError, 1)
    else if p0 < 0xF5 then                            -- four bytes
      let lo : UInt8 := if p0 == 0xF0 then 0x90 else 0x80
      let hi : UInt8 := if p0 == 0xF4 then 0x8F else 0xBF
      match rest with
      | b1 :: b2 :: b3 :: _ =>
        if lo ≤ b1 && b1 ≤ hi && isCont b2 && isCont b3 then
          (((p0.toNat &&& 0x07) <<< 18) ||| ((b1.toNat &&& 0x3F) <<< 12) |||
            ((b2.toNat &&& 0x3F) <<< 6) ||| (b3.toNat &&& 0x3F), 4)
        else (runeError, 1)
      | _ => (runeError, 1)
    else (runeError, 1)

/-- `unicode.IsSpace r` -/
def UC.space (uc : UC) (r : Nat) : Bool :=
  if r < 0x80 then (r == 9 || r == 10 || r == 11 || r == 12 || r == 13 || r == 32) else uc.isSpace r

/-- `unicode.IsUpper r` -/
def UC.upper (uc : UC) (r : Nat) : Bool :=
  if r < 0x80 then (65 ≤ r && r ≤ 90) else uc.isUpper r

/-- `unicode.IsLower r` -/
def UC.lower (uc : UC) (r : Nat) : Bool :=
  if r < 0x80 then (97 ≤ r && r ≤ 122) else uc.isLower r

/-- The reader's `const isSpace uint64 = 1<<'\t' | 1<<'\n' | 1<<'\v' | 1<<'\f' | 1<<'\r' | 1<<' '`. -/
def asciiSpaceMask : Nat := 0x100003E00

/-- `(isSpace>>c)&1 != 0` for a byte `c < utf8.RuneSelf`. A Go shift by ≥ 64 gives 0 and so
does the shift on `Nat`. -/
def asciiSpace (c : UInt8) : Bool := (asciiSpaceMask >>> c.toNat) &&& 1 != 0

end Fmt
