/-
C16 — model of benchproc.NewKeyHeader (benchproc/keyheader.go:69-102).

A key is given by the list of its flattened field values (the Key/Projection machinery itself is
the concern of C08/C09; the harness builds real Keys and sends `key.Get(field)` for every
flattened field). Level i of the tree groups maximal runs of adjacent keys with equal values of
field i inside every node of level i-1.
-/
import Model.Base.Bytes

namespace Tab.KeyHeader

structure Run where
  value : Bytes
  start : Nat
  len : Nat
  deriving Repr, DecidableEq

/-- the loop over `keys[parent.Start : parent.Start+parent.Len]` once a current node exists:
`f pos` is `key.Get(field)` of the key at absolute index `pos`, `n` keys remain. -/
def walkRuns (f : Nat → Bytes) : Nat → Nat → Run → List Run
  | 0, _, cur => [cur]
  | n + 1, pos, cur =>
    if f pos == cur.value then walkRuns f n (pos + 1) { cur with len := cur.len + 1 }
    else cur :: walkRuns f n (pos + 1) { value := f pos, start := pos, len := 1 }

/-- the children of a parent covering `[start, start+len)` -/
def runs (f : Nat → Bytes) (start : Nat) : Nat → List Run
  | 0 => []
  | n + 1 => walkRuns f n (start + 1) { value := f start, start := start, len := 1 }

/-- `KeyHeaderNode` -/
inductive Node where
  | mk (field : Nat) (value : Bytes) (start len : Nat) (children : List Node)
  deriving Repr

def Node.field : Node → Nat | .mk f _ _ _ _ => f
def Node.value : Node → Bytes | .mk _ v _ _ _ => v
def Node.start : Node → Nat | .mk _ _ s _ _ => s
def Node.len : Node → Nat | .mk _ _ _ l _ => l
def Node.children : Node → List Node | .mk _ _ _ _ c => c

/-- value of field `level` of key number `i` -/
def keyField (keys : List (List Bytes)) (level i : Nat) : Bytes := (keys.getD i []).getD level []

/-- `walk(parent)` for a parent at level `level-1` covering `[start, start+len)`;
`fuel` = number of fields not yet used (`len(fields) - level`). -/
def walk (keys : List (List Bytes)) : Nat → Nat → Nat → Nat → List Node
  | 0, _, _, _ => []
  | fuel + 1, level, start, len =>
    (runs (keyField keys level) start len).map fun r =>
      Node.mk level r.value r.start r.len (walk keys fuel (level + 1) r.start r.len)

/-- `NewKeyHeader(keys).Top`; `nfields` = `len(commonProjection(keys).FlattenedFields())` -/
def newKeyHeader (keys : List (List Bytes)) (nfields : Nat) : List Node :=
  if keys.isEmpty then [] else walk keys nfields 0 0 keys.length

/-- the nodes of one level, left to right (what benchtab.ToText iterates over) -/
def level : List Node → Nat → List Node
  | ns, 0 => ns
  | ns, k + 1 => level (ns.flatMap Node.children) k

end Tab.KeyHeader
