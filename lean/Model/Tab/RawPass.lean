/-
C14 — composition of the benchtab model (Model/Tab/Pipeline.lean) with the C08/C09 model of
projection, key interning and key order (Model/Proc/Projection.lean, Sort.lean; read-only):
the loop of cmd/benchstat/main.go + Builder.Add over RAW results (name, file configuration,
units), with keys computed by that model instead of being taken from the harness.
Core Lean only.
-/
import Model.Tab.Pipeline
import Model.Proc.Projection

namespace Tab.RawPass
open Proc.Projection Proc.Sort

/-- the keys `Builder.Add` obtains for one result: table keys (one per value), row, column, residue -/
abbrev Keyed := List Nat × Nat × Nat × Nat

/-- one step of the real loop (`Builder.Add`): ProjectValues on the table projection, Project on
row, column and residue — in this order, on the shared parser state. Projection indices:
0 table, 1 row, 2 col, 3 ignore, `iz` = 4 residue. -/
def rawStep (h : List Bytes → UInt64) (iz : Nat) (acc : World × List Keyed) (r : Proc.Projection.Res) :
    World × List Keyed :=
  let (w, tks) := acc.1.projectValues h 0 r
  let (w, rk) := w.project h 1 r
  let (w, ck) := w.project h 2 r
  let (w, zk) := w.project h iz r
  (w, acc.2 ++ [(tks, rk, ck, zk)])

/-- flags → one shared parser: -table (with .unit), -row, -col, -ignore, then Residue
(cmd/benchstat/main.go:478-487) -/
def rawWorld (specs : List (List Spec)) : World :=
  let w := World.new
  let w := (w.parse (specs.getD 0 []) true).1
  let w := (w.parse (specs.getD 1 []) false).1
  let w := (w.parse (specs.getD 2 []) false).1
  let w := (w.parse (specs.getD 3 []) false).1
  w.residue

/-- the values of a key in every flattened field of the (final) projection state -/
def tupleOf (p : Proj) (k : Nat) : List Bytes := p.flat.map fun f => p.get k f

/-- the stream `Builder.Add` sees, keys being the model's key identities (node indices) -/
def idStream {ν : Type} (ks : List Keyed) (vals : List (List ν)) : List (Res Nat Nat ν) :=
  (ks.zip vals).map fun kv =>
    { row := kv.1.2.1, col := kv.1.2.2.1, residue := kv.1.2.2.2, vals := kv.1.1.zip kv.2 }

/-- position of a key in the `Key.Less`-sorted list of the distinct keys `d` — the `rank` the
benchtab model sorts by -/
def rankOf (pn : Bytes → NumC) (p : Proj) (d : List Nat) (k : Nat) : Nat := (p.sortKeys pn d).idxOf k

end Tab.RawPass
