import Model.Base.Proto
import Model.Tab.Pipeline
import Model.Spec.Cells
import Model.Proc.ProjProto
import Model.Tab.RawPass

/-
Shared by the C14 and C15 drivers: parsing of the projected measurement stream (case line of
harness/c14, harness/c15), the oracle tables (answers of the real benchmath), and printing of
tables / CSV / footnotes in the vocabulary of the harness. Core Lean only.
-/
namespace Tab.DriverLib
open Proto Tab

abbrev Key := List Bytes

def splitNE (s : String) (sep : String) : List String :=
  if s == "-" || s == "" then [] else s.splitOn sep

def hexOr (s : String) : Bytes := (Bytes.ofHex s).getD []

/-- tuple = "." then (hex ":")* -/
def parseTuple (s : String) : Key :=
  let body := String.ofList (s.toList.drop 1)
  let parts := body.splitOn ":"
  (parts.take (parts.length - 1)).map hexOr

def parseDict (s : String) : List Key := (splitNE s ",").map parseTuple

def parseNats (s : String) (sep : String := ",") : List Nat := (splitNE s sep).map fun x => x.toNat?.getD 0

def bitsOf (s : String) : F64.Bits := (F64.ofHex? s).getD 0

def parseBitsList (s : String) : List F64.Bits := (splitNE s ".").map bitsOf

def parseWarns (s : String) : List Bytes := (splitNE s ";").map hexOr

structure Case where
  tf : List Bytes
  rf : List Bytes
  cf : List Bytes
  zf : List Bytes
  T : List Key
  R : List Key
  C : List Key
  Z : List Key
  tord : List Nat
  rord : List Nat
  cord : List Nat
  res : List (Res Key Key F64.Bits)
  um : List UnitMeta
  umall : List UnitMeta
  tidy : List (Bytes × Bytes)
  xs : List (List F64.Bits)
  sums : List (String × SummaryAns)
  cmps : List (String × CmpAns)
  gms : List (List F64.Bits × GMAns)

def parseRes (T R C Z : List Key) (s : String) : Res Key Key F64.Bits :=
  match s.splitOn ";" with
  | r :: c :: z :: vals =>
    { row := R.getD (r.toNat?.getD 0) [], col := C.getD (c.toNat?.getD 0) [], residue := Z.getD (z.toNat?.getD 0) [],
      vals := vals.map fun tv => match tv.splitOn "~" with
        | [t, b] => (T.getD (t.toNat?.getD 0) [], bitsOf b)
        | _ => ([], 0) }
  | _ => { row := [], col := [], residue := [], vals := [] }

def kv (s : String) : String × String :=
  match s.splitOn "=" with
  | [k, v] => (k, v)
  | _ => (s, "")

def parseCase (l : Line) : Case :=
  let T := parseDict (l.getD "T" "-")
  let R := parseDict (l.getD "R" "-")
  let C := parseDict (l.getD "C" "-")
  let Z := parseDict (l.getD "Z" "-")
  { tf := (l.hexList? "TF").getD [], rf := (l.hexList? "RF").getD [], cf := (l.hexList? "CF").getD [], zf := (l.hexList? "ZF").getD [],
    T := T, R := R, C := C, Z := Z,
    tord := parseNats (l.getD "Tord" "-"), rord := parseNats (l.getD "Rord" "-"), cord := parseNats (l.getD "Cord" "-"),
    res := (splitNE (l.getD "res" "-") ",").map (parseRes T R C Z),
    um := (splitNE (l.getD "um" "-") ",").filterMap fun e => match e.splitOn ":" with
      | [u, k, v] => some { unit := hexOr u, key := hexOr k, value := hexOr v }
      | _ => none,
    umall := (splitNE (l.getD "umall" "-") ",").filterMap fun e => match e.splitOn ":" with
      | [u, k, v] => some { unit := hexOr u, key := hexOr k, value := hexOr v }
      | _ => none,
    tidy := (splitNE (l.getD "tidy" "-") ",").filterMap fun e => match e.splitOn ":" with
      | [u, t] => some (hexOr u, hexOr t)
      | _ => none,
    xs := (splitNE (l.getD "X" "-") ",").map parseBitsList,
    sums := (splitNE (l.getD "sum" "-") ",").map fun e =>
      let (k, v) := kv e
      match v.splitOn ":" with
      | [c, cs, p, w] => (k, { center := bitsOf c, centerStr := hexOr cs, pct := hexOr p, warnings := parseWarns w })
      | _ => (k, default),
    cmps := (splitNE (l.getD "cmp" "-") ",").map fun e =>
      let (k, v) := kv e
      match v.splitOn ":" with
      | [d, s, w] => (k, { delta := hexOr d, str := hexOr s, warnings := parseWarns w })
      | _ => (k, default),
    gms := (splitNE (l.getD "gm" "-") ",").map fun e =>
      let (k, v) := kv e
      match v.splitOn ":" with
      | [b, s, p] => (parseBitsList k, { val := bitsOf b, str := hexOr s, pct := hexOr p })
      | _ => (parseBitsList k, default) }

/-! canonical multiset: bit patterns sorted numerically -/
def insNat (x : F64.Bits) : List F64.Bits → List F64.Bits
  | [] => [x]
  | y :: ys => if x ≤ y then x :: y :: ys else y :: insNat x ys
def canon (l : List F64.Bits) : List F64.Bits := l.foldr insNat []

def idxOf {α : Type} [BEq α] (l : List α) (x : α) : Nat := (l.findIdx? (· == x)).getD l.length

def missing : Bytes := "?MISSING".toUTF8.toList

def aName : Assump → String
  | .nothing => "n"
  | .exact => "e"

def Case.oracles (c : Case) : Oracles :=
  { summary := fun a s =>
      let key := aName a ++ toString (idxOf c.xs (canon s))
      ((c.sums.find? (·.1 == key)).map (·.2)).getD { center := 0, centerStr := missing, pct := missing, warnings := [] },
    compare := fun a s1 s2 =>
      let key := aName a ++ toString (idxOf c.xs (canon s1)) ++ "." ++ toString (idxOf c.xs (canon s2))
      ((c.cmps.find? (·.1 == key)).map (·.2)).getD { delta := missing, str := missing, warnings := [] },
    geomean := fun xs =>
      ((c.gms.find? (·.1 == xs)).map (·.2)).getD { val := 0, str := missing, pct := missing } }

def rankIn (dict : List Key) (ord : List Nat) (k : Key) : Nat := ord.getD (idxOf dict k) 0

def Case.unitIdx (c : Case) : Nat := idxOf c.tf strUnitField

def Case.cfg (c : Case) : Cfg Key :=
  { rankT := rankIn c.T c.tord, rankR := rankIn c.R c.rord, rankC := rankIn c.C c.cord,
    unitOf := fun k => getField k c.unitIdx,
    assume := getAssumption (fun u => ((c.tidy.find? (·.1 == u)).map (·.2)).getD u) c.um,
    fieldNames := c.zf,
    orc := c.oracles }

def showBits (l : List F64.Bits) : String := if l.isEmpty then "-" else ".".intercalate (l.map F64.toHex)
def showIds (dict : List Key) (ks : List Key) : String :=
  if ks.isEmpty then "-" else ",".intercalate (ks.map fun k => toString (idxOf dict k))
def showBool (b : Bool) : String := if b then "true" else "false"

def insPair (x : (Nat × Nat) × String) : List ((Nat × Nat) × String) → List ((Nat × Nat) × String)
  | [] => [x]
  | y :: ys => if x.1.1 < y.1.1 || (x.1.1 == y.1.1 && x.1.2 ≤ y.1.2) then x :: y :: ys else y :: insPair x ys

/-- the obs lines of a list of output tables -/
def obsTables (id : String) (c : Case) (ts : List (OTable Key)) : List String :=
  let head := s!"obs {id} ntab={ts.length} keyok=true"
  let perTab := ts.zipIdx.flatMap fun (t, ti) =>
    let l1 := s!"obs {id} tab {ti} key={idxOf c.T t.key} unit={t.unit.toHex} assume={aName t.assumption} rows={showIds c.R t.rows} cols={showIds c.C t.cols}"
    let cells := t.cells.map fun (k, cell) =>
      let r := idxOf c.R k.1
      let cc := idxOf c.C k.2
      let base := match cell.baseline with
        | some bk => s!"{idxOf c.R bk.1}.{idxOf c.C bk.2}"
        | none => "-"
      let cmp := match cell.comparison with
        | some x => x.str.toHex
        | none => "-"
      ((r, cc), s!"obs {id} cell {ti} {r}.{cc} n={showBits cell.sample} base={base} ctr={F64.toHex cell.summary.center} cmp={cmp} sw={showHexList cell.sampleWarnings}")
    let cellLines := (cells.foldr insPair []).map (·.2)
    let sums := t.cols.filterMap fun col => (AL.lookup col t.summary).map fun ts =>
      s!"obs {id} sum {ti} {idxOf c.C col} hs={showBool ts.hasSummary} s={F64.toHex ts.summary} hr={showBool ts.hasRatio} r={F64.toHex ts.ratio} w={showHexList ts.warnings}"
    l1 :: cellLines ++ sums
  let tupleId : Key → List Bytes := fun k => k
  let csv := tablesCSV c.tf c.cf.length tupleId tupleId tupleId ts
  let csvLines := csv.records.map fun r => s!"obs {id} csv f={showHexList r}"
  let cwLines := csv.warnings.map fun w => s!"obs {id} cw {w.toHex}"
  let txt := (ts.foldl (fun (acc : List String × Option Key × Nat) t =>
    let hs := headerLines c.tf tupleId acc.2.1 t.key
    (acc.1 ++ [s!"obs {id} txt {acc.2.2} hdr={showHexList hs} foot={showHexList (textFootnotes t)}"], some t.key, acc.2.2 + 1))
    ([], none, 0)).1
  head :: perTab ++ csvLines ++ cwLines ++ txt

/-! spec line -/

def insTriple (x : (Nat × Nat × Nat) × String) : List ((Nat × Nat × Nat) × String) → List ((Nat × Nat × Nat) × String)
  | [] => [x]
  | y :: ys =>
    let lt := x.1.1 < y.1.1 || (x.1.1 == y.1.1 && (x.1.2.1 < y.1.2.1 || (x.1.2.1 == y.1.2.1 && x.1.2.2 ≤ y.1.2.2)))
    if lt then x :: y :: ys else y :: insTriple x ys

def joinOr (l : List String) : String := if l.isEmpty then "-" else "|".intercalate l

def specLine (id : String) (c : Case) (bin : String) (rawDigest : String := "-") (specOrder : String := "-") : String :=
  let ms := Spec.Cells.measOf c.res
  let keys := Spec.Cells.cellKeys ms
  let ident (k : Key × Key × Key) : Nat × Nat × Nat := (idxOf c.T k.1, idxOf c.R k.2.1, idxOf c.C k.2.2)
  let name (k : Key × Key × Key) : String := let i := ident k; s!"{i.1}.{i.2.1}.{i.2.2}"
  let cells := keys.map fun k =>
    let g := Spec.Cells.group ms k.1 k.2.1 k.2.2
    (ident k, s!"{name k}={showBits (canon (g.map (·.value)))}")
  let resw := keys.filterMap fun k =>
    let g := Spec.Cells.group ms k.1 k.2.1 k.2.2
    let fs := Spec.Cells.residueFields c.zf (g.map (·.residue))
    if fs.isEmpty then none else some (ident k, s!"{name k}={"+".intercalate (fs.map Bytes.toHex)}")
  let cfg := c.cfg
  let tidyF := fun u => ((c.tidy.find? (·.1 == u)).map (·.2)).getD u
  let specAssume : Bytes → Assump := getAssumption tidyF c.umall
  let centre : Key → Key → Key → F64.Bits := fun t r cc =>
    let g := Spec.Cells.group ms t r cc
    (cfg.orc.summary (specAssume (cfg.unitOf t)) (g.map (·.value))).center
  let tabs := (ms.map (·.table)).eraseDups
  let gm := tabs.flatMap fun t =>
    (Spec.Cells.colsOf ms t).map fun cc =>
      let f := Spec.Cells.gmFlags cfg.rankC centre ms t cc
      let s := if f.hasInf then "i" else
        (if f.differs then "d" else "") ++ (if f.sumNonPos then "s" else "") ++ (if f.ratioWarn then "r" else "")
      (((idxOf c.T t, idxOf c.C cc, 0) : Nat × Nat × Nat), s, f.superset)
  let gmParts := (gm.filter fun x => x.2.1 != "").map fun x => (x.1, s!"{x.1.1}.{x.1.2.1}={x.2.1}")
  let sorted (l : List ((Nat × Nat × Nat) × String)) : List String := (l.foldr insTriple []).map (·.2)
  -- "the unit's statistical assumption": from the unit metadata of ALL input files
  let asParts := tabs.map fun t =>
    (((idxOf c.T t, 0, 0) : Nat × Nat × Nat), s!"{idxOf c.T t}={aName (specAssume (cfg.unitOf t))}")
  s!"spec {id} cells={joinOr (sorted cells)} resw={joinOr (sorted resw)} gmw={joinOr (sorted gmParts)} assume={joinOr (sorted asParts)} stats=ok fixed=ok units=ok labels=ok colpos=ok hdrcfg=ok order={specOrder} rawcells={rawDigest} bin={bin}"


def hexStr (s : String) : String := (Bytes.ofString s).toHex

/-- the residue-warning clause alone (used by the C15 driver) -/
def reswLine (id : String) (c : Case) : String :=
  let ms := Spec.Cells.measOf c.res
  let keys := Spec.Cells.cellKeys ms
  let ident (k : Key × Key × Key) : Nat × Nat × Nat := (idxOf c.T k.1, idxOf c.R k.2.1, idxOf c.C k.2.2)
  let resw := keys.filterMap fun k =>
    let g := Spec.Cells.group ms k.1 k.2.1 k.2.2
    let fs := Spec.Cells.residueFields c.zf (g.map (·.residue))
    let i := ident k
    if fs.isEmpty then none else some (i, s!"{i.1}.{i.2.1}.{i.2.2}={"+".intercalate (fs.map Bytes.toHex)}")
  s!"spec {id} resw={joinOr ((resw.foldr insTriple []).map (·.2))}"

/-! ### second pass: keys and key order from the RAW results, by the C08/C09 model -/

section Raw
open Proc.Projection Proc.ProjProto Tab.RawPass

def encTuple (t : Key) : String := "." ++ String.join (t.map fun v => v.toHex ++ ":")
def encDict (d : List Key) : String := if d.isEmpty then "-" else ",".intercalate (d.map encTuple)
def encNats (l : List Nat) : String := if l.isEmpty then "-" else ",".intercalate (l.map toString)

def dedupNats (l : List Nat) : List Nat := l.foldl (fun acc x => if acc.contains x then acc else acc ++ [x]) []

structure RawOut where
  c : Case
  line : String

def rawPass (l : Line) (c : Case) : RawOut :=
  let specStr := l.getD "specs" ""
  let specs := (specStr.splitOn ";").map fun e => if e == "" then [] else (e.splitOn "+").map decSpec
  let rawStr := l.getD "raw" "-"
  let raws := if rawStr == "-" then [] else (rawStr.splitOn ";").map decRes
  let pn := pnOf (decPn (l.getD "pn" "-"))
  let (w, keyed) := raws.foldl (rawStep weakHash 4) (rawWorld specs, [])
  let pT := w.projs.getD 0 default
  let pR := w.projs.getD 1 default
  let pC := w.projs.getD 2 default
  let pZ := w.projs.getD 4 default
  let dT := dedupNats (keyed.flatMap (·.1))
  let dR := dedupNats (keyed.map (·.2.1))
  let dC := dedupNats (keyed.map (·.2.2.1))
  let dZ := dedupNats (keyed.map (·.2.2.2))
  let ranks (p : Proj) (d : List Nat) : List Nat := d.map (rankOf pn p d)
  let values := c.res.map fun r => r.vals.map (·.2)
  let resStr := if keyed.isEmpty then "-" else
    ",".intercalate ((keyed.zip values).map fun (k, vs) =>
      let head := s!"{dR.idxOf k.2.1};{dC.idxOf k.2.2.1};{dZ.idxOf k.2.2.2}"
      (k.1.zip vs).foldl (fun acc tv => acc ++ s!";{dT.idxOf tv.1}~{F64.toHex tv.2}") head)
  let names (p : Proj) : List Bytes := p.flat.map (·.name)
  let T := dT.map (tupleOf pT)
  let R := dR.map (tupleOf pR)
  let C := dC.map (tupleOf pC)
  let Z := dZ.map (tupleOf pZ)
  let tord := ranks pT dT
  let rord := ranks pR dR
  let cord := ranks pC dC
  let res : List (Res Key Key F64.Bits) := (keyed.zip values).map fun (k, vs) =>
    { row := tupleOf pR k.2.1, col := tupleOf pC k.2.2.1, residue := tupleOf pZ k.2.2.2,
      vals := (k.1.zip vs).map fun tv => (tupleOf pT tv.1, tv.2) }
  let line := s!"TF={showHexList (names pT)} RF={showHexList (names pR)} CF={showHexList (names pC)} ZF={showHexList (names pZ)} T={encDict T} R={encDict R} C={encDict C} Z={encDict Z} Tord={encNats tord} Rord={encNats rord} Cord={encNats cord} res={resStr}"
  { c := { c with tf := names pT, rf := names pR, cf := names pC, zf := names pZ, T := T, R := R, C := C, Z := Z,
                  tord := tord, rord := rord, cord := cord, res := res },
    line := line }

/-- the obs lines of the raw pass -/
def rawLines (id : String) (l : Line) (c : Case) : List String :=
  if l.getD "rawok" "0" != "1" then [] else
  let r := rawPass l c
  let same := decide (toTables r.c.cfg (build r.c.res) = toTables c.cfg (build c.res))
  [s!"obs {id} raw {r.line}", s!"obs {id} rawtab same={if same then 1 else 0}"]


def insStr (x : String) : List String → List String
  | [] => [x]
  | y :: ys => if x ≤ y then x :: y :: ys else y :: insStr x ys

def fnv1a (items : List String) : UInt64 :=
  items.foldl (fun h it =>
    let h := it.toUTF8.toList.foldl (fun h b => (h ^^^ b.toUInt64) * 1099511628211) h
    (h ^^^ 10) * 1099511628211) 14695981039346656037

def hex16 (x : UInt64) : String := F64.toHex x

/-- the cells the SPECIFICATION demands, keyed by key values: groupBy over the keys the C08
model projects from the raw results -/
def rawCellsDigest (l : Line) (c : Case) : String :=
  if l.getD "rawok" "0" != "1" then "-" else
  let r := (rawPass l c).c
  let ms := Spec.Cells.measOf r.res
  let keys := Spec.Cells.cellKeys ms
  let items := keys.map fun k =>
    let g := Spec.Cells.group ms k.1 k.2.1 k.2.2
    s!"{encTuple k.1}|{encTuple k.2.1}|{encTuple k.2.2}={".".intercalate ((canon (g.map (·.value))).map F64.toHex)}"
  let sorted := items.foldr insStr []
  s!"{sorted.length}:{hex16 (fnv1a sorted)}"


/-- SPECIFICATION of the arrangement: tables, and each table's rows and columns, in the documented
orders (first observation / alpha / num / fixed, lexicographic over the fields, `Spec.Keys`),
computed from the raw results — not from the order `Key.Less` gave. The baseline column is the
first of the columns. -/
def specOrders (l : Line) (c : Case) : String :=
  if l.getD "rawok" "0" != "1" then "-" else
  let specStr := l.getD "specs" ""
  let specs := (specStr.splitOn ";").map fun e => if e == "" then [] else (e.splitOn "+").map decSpec
  let rawStr := l.getD "raw" "-"
  let raws := if rawStr == "-" then [] else (rawStr.splitOn ";").map decRes
  let ops : List Spec.Keys.Op :=
    [.parse true (specs.getD 0 []), .parse false (specs.getD 1 []), .parse false (specs.getD 2 []),
     .parse false (specs.getD 3 []), .residue] ++
    raws.flatMap fun r => [.proj true 0 r, .proj false 1 r, .proj false 2 r, .proj false 4 r]
  let pn := specNumOf (specPn (decPnRaw (l.getD "pn" "-")))
  let specific := Spec.Keys.specificKeys ops
  let ps := Spec.Keys.projections ops
  let ltOf (i : Nat) : Key → Key → Bool :=
    let p := ps.getD i default
    let obs := Spec.Keys.observations ops ps i
    let cols := Spec.Keys.columns specific p obs
    let tuples := obs.map fun o => cols.map fun cc => cc.value specific o
    let colInfo := cols.zipIdx.map fun (cc, j) => (cc.order, tuples.map fun t => t.getD j [])
    fun a b => Spec.Keys.tupleLess pn colInfo a b
  let sortBy (lt : Key → Key → Bool) (ks : List Key) : List Key :=
    ks.foldr (fun x acc =>
      let rec ins : List Key → List Key
        | [] => [x]
        | y :: ys => if lt y x then y :: ins ys else x :: y :: ys
      ins acc) []
  let ltT := ltOf 0
  let ltR := ltOf 1
  let ltC := ltOf 2
  let ms := Spec.Cells.measOf c.res
  let tabs := sortBy ltT ((ms.map (·.table)).eraseDups)
  if tabs.isEmpty then "none" else
  ";".intercalate (tabs.map fun t =>
    let inT := ms.filter fun m => m.table == t
    let rows := sortBy ltR ((inT.map (·.row)).eraseDups)
    let cols := sortBy ltC ((inT.map (·.col)).eraseDups)
    s!"{idxOf c.T t}:{".".intercalate (rows.map fun k => toString (idxOf c.R k))}/{".".intercalate (cols.map fun k => toString (idxOf c.C k))}")

end Raw

def defaultsLine (id : String) : String :=
  let f : Flags := {}
  s!"obs {id} table={hexStr f.table} row={hexStr f.row} col={hexStr f.col} ignore={hexStr f.ignore} filter={hexStr f.filter} alpha={hexStr f.alpha} confidence={hexStr f.confidence} format={hexStr f.format} src=help"

end Tab.DriverLib
