/-
C16 — model of benchtab.Table.ToText and Table.ToCSV (cmd/benchstat/internal/benchtab/table.go),
statement by statement, over a common CELLS VIEW of the table: labels, column keys and the cell
STRINGS (scaled/unscaled centre, range, delta, p-value, warning messages), which are produced by
benchmath/benchunit (C10, C13, C14) and are opaque data here.

  ToText : View → calls on a texttab.Table (`List Op`, fed to the model of texttab) + footnotes
  ToCSV  : View → records for encoding/csv + lines for the warnings stream
-/
import Model.Tab.TextTab
import Model.Tab.KeyHeader

namespace Tab.Render
open Tab.TextTab Tab.KeyHeader

/-- ToText: `startCol` with labelCols = 1, centerCols = 3, deltaCols = 3 -/
def textStartCol (exp : Nat) : Nat := if exp == 0 then 1 else 1 + 3 + (exp - 1) * (3 + 3)
/-- ToCSV: `startCol` with labelCols = 1, centerCols = 2, deltaCols = 2 -/
def csvStartCol (exp : Nat) : Nat := if exp == 0 then 1 else 1 + 2 + (exp - 1) * (2 + 2)

/-- physical columns a logical column may write to: centre group, plus delta group if exp > 0 -/
def textGroupWidth (exp : Nat) : Nat := if exp == 0 then 3 else 6
def csvGroupWidth (exp : Nat) : Nat := if exp == 0 then 2 else 4

def textSlots (exp : Nat) : List Nat := (List.range (textGroupWidth exp)).map (textStartCol exp + ·)
def csvSlots (exp : Nat) : List Nat := (List.range (csvGroupWidth exp)).map (csvStartCol exp + ·)

/-! ### the cells view -/

structure Delta where
  delta : Bytes          -- Comparison.FormatDelta(base, center)
  p : Bytes              -- Comparison.String()
  warns : List Bytes     -- Comparison.Warnings
  deriving Repr, DecidableEq

structure DataCell where
  centerText : Bytes     -- RowScaler(row).Format(Summary.Center)
  centerCsv : Bytes      -- fmt.Sprint(Summary.Center)
  range : Bytes          -- Summary.PctRangeString()
  warns : List Bytes     -- Sample.Warnings then Summary.Warnings
  delta : Option Delta   -- present iff Baseline != nil (only looked at for exp > 0)
  deriving Repr, DecidableEq

structure SumCell where
  hasSummary : Bool
  sumText : Bytes        -- benchunit.Scale(Summary, class)
  sumCsv : Bytes         -- fmt.Sprint(Summary)
  hasRatio : Bool
  ratio : Bytes          -- Sprintf("%+.2f%%", (Ratio-1)*100)
  warns : List Bytes
  deriving Repr, DecidableEq

structure View where
  unit : Bytes
  nfields : Nat                               -- fields of the column projection
  colKeys : List (List Bytes)                 -- per column: its flattened field values
  rows : List (Bytes × List (Option DataCell)) -- label, then per column the cell if present
  summaryLabel : Bytes
  summary : List (Option SumCell)             -- per column
  deriving Repr

def View.ncols (v : View) : Nat := v.colKeys.length

/-! ### ToText -/

def barMargin : Bytes := [0x20, 0xE2, 0x94, 0x82, 0x20]   -- " │ "
def edgeMargin : Bytes := [0x20, 0xE2, 0x94, 0x82]        -- " │"
def pmMargin : Bytes := [0x20, 0xC2, 0xB1, 0x20]          -- " ± "
def vsBase : Bytes := [0x76, 0x73, 0x20, 0x62, 0x61, 0x73, 0x65]

def superDigit (d : Nat) : Bytes :=
  match d with
  | 1 => [0xC2, 0xB9] | 2 => [0xC2, 0xB2] | 3 => [0xC2, 0xB3]
  | 0 => [0xE2, 0x81, 0xB0]
  | d => [0xE2, 0x81, UInt8.ofNat (0xB0 + d)]

def superAux : Nat → Nat → Bytes → Bytes
  | 0, _, acc => acc
  | fuel + 1, i, acc => if i == 0 then acc else superAux fuel (i / 10) (superDigit (i % 10) ++ acc)

/-- `superscript(i)` -/
def superscript (i : Nat) : Bytes := if i == 0 then superDigit 0 else superAux 20 i []

/-- the `o.Col(l).Span(r-l, node.Value, Center, LeftMargin(" │ "))` calls of one header level,
then the right edge -/
def levelOps (rEdge : Nat) (nodes : List Node) : List Op :=
  [Op.row] ++ nodes.flatMap (fun n =>
    [Op.col (textStartCol n.start),
     Op.span (textStartCol (n.start + n.len) - textStartCol n.start) n.value [.center, .margin barMargin]])
  ++ [Op.col rEdge, Op.span 1 [] [.margin edgeMargin]]

/-- `for len(nodes) > 0 { … nodes = nextNodes }`; `fuel` bounds the depth of the tree -/
def headerOps (rEdge : Nat) : Nat → List Node → List Op
  | 0, _ => []
  | fuel + 1, nodes =>
    if nodes.isEmpty then [] else levelOps rEdge nodes ++ headerOps rEdge fuel (nodes.flatMap Node.children)

def shrinkOps (a b : Nat) : List Op := (List.range (b - a)).map fun k => Op.setShrink (a + k) true

/-- the column labels row -/
def unitRowOps (rEdge ncols : Nat) (unit : Bytes) : List Op :=
  [Op.row] ++ (List.range ncols).flatMap (fun i =>
    let l := textStartCol i
    let cur := if i > 0 then l + 6 else l + 3
    [Op.col l, Op.span 3 unit [.center, .margin barMargin]] ++
    (if i > 0 then [Op.span 3 vsBase [.left, .margin [0x20, 0x20]]] else []) ++
    shrinkOps (l + 1) cur)
  ++ [Op.col rEdge, Op.span 1 [] [.margin edgeMargin]]

/-- the closure `warn`: footnote numbers of the messages (new messages are appended to the
list), joined by a space, as one default cell -/
def findIdx : List Bytes → Bytes → Option Nat
  | [], _ => none
  | a :: as, m => if a == m then some 0 else (findIdx as m).map (· + 1)

def warnStep (st : List Bytes × List Bytes) (msg : Bytes) : List Bytes × List Bytes :=
  match findIdx st.1 msg with
  | some i => (st.1, st.2 ++ [superscript (i + 1)])
  | none => (st.1 ++ [msg], st.2 ++ [superscript (st.1.length + 1)])

def joinSp : List Bytes → Bytes
  | [] => []
  | [a] => a
  | a :: rest => a ++ [0x20] ++ joinSp rest

def warnCell (wl : List Bytes) (msgs : List Bytes) : List Bytes × Op :=
  let r := msgs.foldl warnStep (wl, [])
  (r.1, Op.span 1 (joinSp r.2) [])

/-- the calls for the cell of logical column `exp` of a measurement row -/
def dataCellOps (wl : List Bytes) (exp : Nat) (c : DataCell) : List Bytes × List Op :=
  let (wl1, w1) := warnCell wl c.warns
  let base := [Op.col (textStartCol exp), Op.span 1 c.centerText [.right],
               Op.span 1 c.range [.right, .margin pmMargin], w1]
  match (if exp > 0 then c.delta else none) with
  | some d =>
    let (wl2, w2) := warnCell wl1 d.warns
    (wl2, base ++ [Op.span 1 d.delta [.right], Op.span 1 ([0x28] ++ d.p ++ [0x29]) [], w2])
  | none => (wl1, base)

def dataColsOps : List Bytes → Nat → List (Option DataCell) → List Bytes × List Op
  | wl, _, [] => (wl, [])
  | wl, exp, none :: rest => dataColsOps wl (exp + 1) rest
  | wl, exp, some c :: rest =>
    let (wl1, o1) := dataCellOps wl exp c
    let (wl2, o2) := dataColsOps wl1 (exp + 1) rest
    (wl2, o1 ++ o2)

def dataRowOps (wl : List Bytes) (row : Bytes × List (Option DataCell)) : List Bytes × List Op :=
  let (wl1, o) := dataColsOps wl 0 row.2
  (wl1, [Op.row, Op.span 1 row.1 []] ++ o)

def dataRowsOps : List Bytes → List (Bytes × List (Option DataCell)) → List Bytes × List Op
  | wl, [] => (wl, [])
  | wl, r :: rest =>
    let (wl1, o1) := dataRowOps wl r
    let (wl2, o2) := dataRowsOps wl1 rest
    (wl2, o1 ++ o2)

def sumCellOps (wl : List Bytes) (exp : Nat) (s : SumCell) : List Bytes × List Op :=
  let o1 := if s.hasSummary then [Op.col (textStartCol exp), Op.span 1 s.sumText [.right]] else []
  let o2 := if exp > 0 then
      [Op.col (textStartCol exp + 3), if s.hasRatio then Op.span 1 s.ratio [.right] else Op.span 1 [0x3F] []]
    else []
  let (wl1, w) := warnCell wl s.warns
  (wl1, o1 ++ o2 ++ [Op.col (textStartCol (exp + 1) - 1), w])

def sumColsOps : List Bytes → Nat → List (Option SumCell) → List Bytes × List Op
  | wl, _, [] => (wl, [])
  | wl, exp, none :: rest => sumColsOps wl (exp + 1) rest
  | wl, exp, some c :: rest =>
    let (wl1, o1) := sumCellOps wl exp c
    let (wl2, o2) := sumColsOps wl1 (exp + 1) rest
    (wl2, o1 ++ o2)

/-- every call ToText makes on the texttab.Table, and the final warning list -/
def toTextOps (v : View) : List Op × List Bytes :=
  let rEdge := textStartCol (v.ncols + 1)
  let top := newKeyHeader v.colKeys v.nfields
  let hdr := headerOps rEdge (v.nfields + 1) top ++ unitRowOps rEdge v.ncols v.unit
  let (wl1, body) := dataRowsOps [] v.rows
  let (wl2, sum) :=
    if v.rows.length > 1 then
      let (wl2, o) := sumColsOps wl1 0 v.summary
      (wl2, [Op.row, Op.span 1 v.summaryLabel []] ++ o)
    else (wl1, [])
  (hdr ++ body ++ sum, wl2)

def footnoteLines (wl : List Bytes) : Bytes :=
  ((List.range wl.length).zip wl).flatMap fun (i, msg) => superscript (i + 1) ++ [0x20] ++ msg ++ [0x0A]

/-! ### ToCSV -/

/-- `clearTo` -/
def clearTo (row : List Bytes) (col : Nat) : List Bytes := row ++ List.replicate (col - row.length) []

def natDigits (n : Nat) : Bytes := (toString n).toUTF8.toList

def colNameAux : Nat → Nat → Bytes → Bytes
  | 0, _, acc => acc
  | fuel + 1, x, acc => if x == 0 then acc else colNameAux fuel (x / 26) (UInt8.ofNat (65 + x % 26) :: acc)

/-- the spreadsheet-style column label ToCSV builds from `len(row)` (as written: 'A' + x%26 digits) -/
def colName (x : Nat) : Bytes := if x == 0 then [65] else colNameAux 10 x []

/-- one line of the warnings stream: `<cell reference>: <message>` for the cell at field index
`rowLen` (0-based) of CSV row `rowNo` -/
def warnLine (p : Nat × Nat × Bytes) : Bytes :=
  colName p.1 ++ natDigits p.2.1 ++ [0x3A, 0x20] ++ p.2.2 ++ [0x0A]

/-- the closure `warn` of ToCSV: one line per message -/
def csvWarn (rowLen rowNo : Nat) (msgs : List Bytes) : List Bytes :=
  msgs.map fun m => warnLine (rowLen, rowNo, m)

structure CsvSt where
  recs : List (List Bytes) := []
  warn : List Bytes := []        -- lines of the warnings stream
  rowCount : Nat := 0

def CsvSt.emit (st : CsvSt) (row : List Bytes) : CsvSt :=
  { st with recs := st.recs ++ [row], rowCount := st.rowCount + 1 }

def csvHeaderRow (keys : List (List Bytes)) (k : Nat) : List Bytes :=
  ((List.range keys.length).zip keys).foldl (fun row (exp, key) =>
    clearTo row (csvStartCol exp) ++ [key.getD k []]) []

def csvUnitRow (ncols : Nat) (unit : Bytes) : List Bytes :=
  (List.range ncols).foldl (fun row exp =>
    clearTo row (csvStartCol exp) ++ [unit, [0x43, 0x49]] ++
      (if exp > 0 then [vsBase, [0x50]] else [])) []

/-- one measurement row: the record and the warning lines -/
def csvDataCols (rowNo : Nat) : List Bytes → List Bytes → Nat → List (Option DataCell) → List Bytes × List Bytes
  | row, w, _, [] => (row, w)
  | row, w, exp, none :: rest => csvDataCols rowNo row w (exp + 1) rest
  | row, w, exp, some c :: rest =>
    let row1 := clearTo row (csvStartCol exp)
    let w1 := w ++ csvWarn row1.length rowNo c.warns
    let row2 := row1 ++ [c.centerCsv, c.range]
    match (if exp > 0 then c.delta else none) with
    | some d =>
      csvDataCols rowNo (row2 ++ [d.delta, d.p]) (w1 ++ csvWarn row2.length rowNo d.warns) (exp + 1) rest
    | none => csvDataCols rowNo row2 w1 (exp + 1) rest

def csvSumCols (rowNo : Nat) : List Bytes → List Bytes → Nat → List (Option SumCell) → List Bytes × List Bytes
  | row, w, _, [] => (row, w)
  | row, w, exp, none :: rest => csvSumCols rowNo row w (exp + 1) rest
  | row, w, exp, some s :: rest =>
    let row1 := clearTo row (csvStartCol exp)
    let w1 := w ++ csvWarn row1.length rowNo s.warns
    let row2 := if s.hasSummary then row1 ++ [s.sumCsv] else row1
    let row3 := if exp > 0 then clearTo row2 (csvStartCol exp + 2) ++ [if s.hasRatio then s.ratio else [0x3F]] else row2
    csvSumCols rowNo row3 w1 (exp + 1) rest

/-- `Table.ToCSV`: records, warning lines, rowCount -/
def toCsv (v : View) (startRow : Nat) : CsvSt :=
  let st : CsvSt := {}
  let st := (List.range v.nfields).foldl (fun st k => st.emit (csvHeaderRow v.colKeys k)) st
  let st := st.emit (csvUnitRow v.ncols v.unit)
  let st := v.rows.foldl (fun (st : CsvSt) r =>
    let (row, w) := csvDataCols (startRow + st.rowCount) [r.1] [] 0 r.2
    { (st.emit row) with warn := st.warn ++ w }) st
  let (row, w) := csvSumCols (startRow + st.rowCount) [v.summaryLabel] [] 0 v.summary
  { (st.emit row) with warn := st.warn ++ w }

/-! ### encoding/csv Writer -/

def needsQuotes (f : Bytes) : Bool :=
  if f.isEmpty then false
  else if f == [0x5C, 0x2E] then true
  else if f.any (fun c => c == 0x2C || c == 0x22 || c == 0x0D || c == 0x0A) then true
  else Utf8.isSpace (Utf8.decodeRune f).1

def quoteField (f : Bytes) : Bytes :=
  [0x22] ++ f.flatMap (fun c => if c == 0x22 then [0x22, 0x22] else [c]) ++ [0x22]

def csvLine (rcd : List Bytes) : Bytes :=
  let fs := rcd.map fun f => if needsQuotes f then quoteField f else f
  let rec join : List Bytes → Bytes
    | [] => []
    | [a] => a
    | a :: rest => a ++ [0x2C] ++ join rest
  join fs ++ [0x0A]

def csvEncode (recs : List (List Bytes)) : Bytes := recs.flatMap csvLine

end Tab.Render
