/-
C16 — the column arithmetic shared by benchtab.Table.ToText and ToCSV (table.go:120-133, 314-325):
both renderings give logical column `exp` its own group of physical columns after one label
column; the baseline column has only the centre group, later columns a centre and a delta group.
The cell STRINGS are produced by the assembler of C14 and are opaque here.
-/
namespace Tab.Render

/-- ToText: `startCol` with labelCols = 1, centerCols = 3, deltaCols = 3 -/
def textStartCol (exp : Nat) : Nat := if exp == 0 then 1 else 1 + 3 + (exp - 1) * (3 + 3)
/-- ToCSV: `startCol` with labelCols = 1, centerCols = 2, deltaCols = 2 -/
def csvStartCol (exp : Nat) : Nat := if exp == 0 then 1 else 1 + 2 + (exp - 1) * (2 + 2)

/-- physical columns a logical column may write to: centre group, plus delta group if exp > 0 -/
def textGroupWidth (exp : Nat) : Nat := if exp == 0 then 3 else 6
def csvGroupWidth (exp : Nat) : Nat := if exp == 0 then 2 else 4

/-- where ToText puts the pieces of the cell of logical column `exp`:
centre, range (± margin), warnings, delta, p-value, warnings -/
def textSlots (exp : Nat) : List Nat := (List.range (textGroupWidth exp)).map (textStartCol exp + ·)
/-- where ToCSV puts them: centre, CI, delta, P (warnings go to the second stream) -/
def csvSlots (exp : Nat) : List Nat := (List.range (csvGroupWidth exp)).map (csvStartCol exp + ·)

end Tab.Render
