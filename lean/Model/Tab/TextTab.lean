/-
C16 — model of cmd/benchstat/internal/texttab/table.go (the layout engine), statement by statement.

Go strings are `Bytes`; the width of a string is `utf8.RuneCountInString` (`runeCount`).
Go `int` is modelled as `Int` (no overflow: every quantity is bounded by a string length).

Two places of the Go code use the UNSTABLE `sort.Slice`:
  * cells by span before the width pass — the resulting order is a PARAMETER of `format`
    (`ordered`); the harness passes the permutation Go's sort really produced, the theorems are
    quantified over every order;
  * the columns of a spanning cell by decreasing width — `sortCols` is a parameter of the width
    pass; the instance `insertSortCols` is the stable insertion sort, which is what Go's
    `sort.Slice` does for slices of at most 12 elements (pdqsort's small-slice case).
-/
import Model.Base.Utf8

namespace Tab.TextTab

/-! ### rune counting, blanks, fmt padding -/

def runeCountAux : Nat → Bytes → Nat
  | 0, _ => 0
  | _ + 1, [] => 0
  | fuel + 1, b :: bs =>
    1 + runeCountAux fuel ((b :: bs).drop (max 1 (Utf8.decodeRune (b :: bs)).2))

/-- `utf8.RuneCountInString` -/
def runeCount (b : Bytes) : Nat := runeCountAux b.length b

def allSpaceAux : Nat → Bytes → Bool
  | 0, _ => true
  | _ + 1, [] => true
  | fuel + 1, b :: bs =>
    let d := Utf8.decodeRune (b :: bs)
    Utf8.isSpace d.1 && allSpaceAux fuel ((b :: bs).drop (max 1 d.2))

/-- `strings.TrimSpace(s) == ""` -/
def isBlank (b : Bytes) : Bool := allSpaceAux b.length b

def spaces (n : Nat) : Bytes := List.replicate n 0x20

/-- `fmt.Sprintf("%*s", w, s)`: a negative width means left-justify in |w|; fmt pads by rune
count and never truncates. -/
def padStar (w : Int) (s : Bytes) : Bytes :=
  if 0 ≤ w then spaces (w.toNat - runeCount s) ++ s
  else s ++ spaces ((-w).toNat - runeCount s)

inductive Align | left | center | right
  deriving DecidableEq, Repr, Inhabited

/-- `align.lpad` (an empty value is never padded: commit 8783093). `padEmpty` = that repair is
absent. -/
def lpad (a : Align) (s : Bytes) (w : Int) (padEmpty : Bool := false) : Bytes :=
  if s.isEmpty && !padEmpty then s else
  match a with
  | .left => s
  | .center => padStar (Int.tdiv (w - runeCount s) 2) [] ++ s
  | .right => padStar w s

/-! ### builder API -/

structure Cell where
  row : Nat
  col : Nat
  span : Nat
  value : Bytes
  margin : Bytes
  align : Align
  deriving DecidableEq, Repr, Inhabited

inductive Opt
  | left | center | right
  | margin (m : Bytes)
  deriving Repr

def Opt.apply (c : Cell) : Opt → Cell
  | .left => { c with align := .left }
  | .center => { c with align := .center }
  | .right => { c with align := .right }
  | .margin m => { c with margin := m }

structure Table where
  cells : List Cell := []
  cols : Nat := 0
  shrink : List Bool := []
  curRow : Nat := 0
  curCol : Nat := 0
  deriving Repr

inductive Op
  | row
  | col (c : Nat)
  | span (n : Nat) (v : Bytes) (opts : List Opt)
  | setShrink (c : Nat) (b : Bool)
  deriving Repr

/-- `Table.Row` -/
def Table.row (t : Table) : Table :=
  { t with curRow := if t.cells.isEmpty then t.curRow else t.curRow + 1, curCol := 0 }

/-- `Table.Col`; `none` = the Go code panics (moving to an earlier column). -/
def Table.col (t : Table) (c : Nat) : Option Table :=
  if c < t.curCol then none else some { t with curCol := c }

/-- `Table.Span` (and `Cell` = `Span 1`) -/
def Table.span (t : Table) (n : Nat) (v : Bytes) (opts : List Opt) : Table :=
  let m : Bytes := if t.curCol == 0 || v.isEmpty then [] else [0x20]
  let c0 : Cell := { row := t.curRow, col := t.curCol, span := n, value := v, margin := m, align := .left }
  let c := opts.foldl Opt.apply c0
  let cc := t.curCol + n
  { t with cells := t.cells ++ [c], curCol := cc, cols := if cc > t.cols then cc else t.cols }

def growShrink (l : List Bool) (n : Nat) : List Bool :=
  l ++ List.replicate (n - l.length) false

/-- `Table.SetShrink` -/
def Table.setShrink (t : Table) (c : Nat) (b : Bool) : Table :=
  { t with shrink := (growShrink t.shrink (c + 1)).set c b }

def Table.step (t : Table) : Op → Option Table
  | .row => some t.row
  | .col c => t.col c
  | .span n v o => some (t.span n v o)
  | .setShrink c b => some (t.setShrink c b)

def build (ops : List Op) : Option Table :=
  ops.foldlM Table.step {}

def Table.isShrink (t : Table) (c : Nat) : Bool := t.shrink.getD c false

/-! ### Format: margins and the width pass -/

/-- one step of `lmargin[cell.col] = max(runes(cell.leftMargin), lmargin[cell.col])` -/
def marginStep (lm : List Nat) (c : Cell) : List Nat :=
  lm.set c.col (max (runeCount c.margin) (lm.getD c.col 0))

def lmargins (cols : Nat) (cells : List Cell) : List Nat :=
  cells.foldl marginStep (List.replicate cols 0)

/-- `for col := c; col < c+n; col++ { tw += ws[col] }` -/
def sumRange (ws : List Int) : Nat → Nat → Int
  | _, 0 => 0
  | col, n + 1 => ws.getD col 0 + sumRange ws (col + 1) n

/-- the loop that subtracts the shrink columns from `w` and collects the others -/
def splitShrink (shrink : Nat → Bool) (ws : List Int) : Nat → Nat → Int → Int × List Nat
  | _, 0, w => (w, [])
  | col, n + 1, w =>
    if shrink col then splitShrink shrink ws (col + 1) n (w - ws.getD col 0)
    else
      let r := splitShrink shrink ws (col + 1) n w
      (r.1, col :: r.2)

/-- the loop of the repaired code that takes every column after all (b5d6dcd) -/
def addBack (ws : List Int) : Nat → Nat → Int → Int × List Nat
  | _, 0, w => (w, [])
  | col, n + 1, w =>
    let r := addBack ws (col + 1) n (w + ws.getD col 0)
    (r.1, col :: r.2)

/-- the distribution loop: widest first, `avg = (w + span - 1) / span` (Go's truncating
division), `ws[col] = max(ws[col], avg)`, `w -= ws[col]`, `span--` -/
def distribute : List Int → Int → List Nat → List Int
  | ws, _, [] => ws
  | ws, w, col :: rest =>
    let span : Int := (rest.length + 1 : Nat)
    let avg := Int.tdiv (w + span - 1) span
    let v := max (ws.getD col 0) avg
    distribute (ws.set col v) (w - v) rest

def insertCol (ws : List Int) (c : Nat) : List Nat → List Nat
  | [] => [c]
  | d :: ds => if ws.getD d 0 < ws.getD c 0 then c :: d :: ds else d :: insertCol ws c ds

/-- stable sort by decreasing width (what `sort.Slice` does on ≤ 12 elements) -/
def insertSortCols (ws : List Int) (l : List Nat) : List Nat :=
  l.foldl (fun acc c => insertCol ws c acc) []

/-- body of the width loop for one cell. `grow` = the b5d6dcd repair is present. -/
def cellStep (grow : Bool) (shrink : Nat → Bool) (sortCols : List Int → List Nat → List Nat)
    (lm : List Nat) (ws : List Int) (c : Cell) : List Int :=
  let w : Int := (runeCount c.value : Int) + (lm.getD c.col 0 : Nat)
  if c.span == 1 then ws.set c.col (max (ws.getD c.col 0) w)
  else if sumRange ws c.col c.span ≥ w then ws
  else
    let r := splitShrink shrink ws c.col c.span w
    let r := if r.2.isEmpty && grow then addBack ws c.col c.span r.1 else r
    distribute ws r.1 (sortCols ws r.2)

def widthPass (grow : Bool) (shrink : Nat → Bool) (sortCols : List Int → List Nat → List Nat)
    (lm : List Nat) (cols : Nat) (ordered : List Cell) : List Int :=
  ordered.foldl (cellStep grow shrink sortCols lm) (List.replicate cols 0)

/-- offsets: `offs[i]` = Σ ws[0..i), one more entry than columns -/
def offsets : Int → List Int → List Int
  | off, [] => [off]
  | off, w :: ws => off :: offsets (off + w) ws

/-! ### Format: row emission -/

def cellLe (a b : Cell) : Bool := a.row < b.row || (a.row == b.row && a.col ≤ b.col)

structure EmitSt where
  row : Nat := 0
  off : Int := 0
  out : List Bytes := []   -- the pieces written so far, in order

/-- pieces written for one (not skipped) cell once the writer is on the cell's row -/
def cellPieces (offs : List Int) (lm : List Nat) (off : Int) (c : Cell) : List Bytes × Int :=
  let sp := offs.getD c.col 0 - off
  let m : Int := (lm.getD c.col 0 : Nat)
  let tw := offs.getD (c.col + c.span) 0 - offs.getD c.col 0 - m
  let s := lpad c.align c.value tw
  ([padStar sp [], padStar m c.margin, s], off + sp + m + (runeCount s : Nat))

def skipped (c : Cell) : Bool := isBlank c.value && isBlank c.margin

def emitCell (offs : List Int) (lm : List Nat) (st : EmitSt) (c : Cell) : EmitSt :=
  if skipped c then st
  else
    let nl := c.row - st.row
    let off := if c.row > st.row then 0 else st.off
    let row := if c.row > st.row then c.row else st.row
    let p := cellPieces offs lm off c
    { row := row, off := p.2, out := st.out ++ List.replicate nl [0x0A] ++ p.1 }

def emit (offs : List Int) (lm : List Nat) (sorted : List Cell) : Bytes :=
  let st := sorted.foldl (emitCell offs lm) {}
  (st.out ++ (if sorted.isEmpty then [] else [[0x0A]])).flatten

structure Layout where
  lm : List Nat
  ws : List Int
  offs : List Int

def layoutOf (grow : Bool) (sortCols : List Int → List Nat → List Nat) (t : Table)
    (ordered : List Cell) : Layout :=
  let lm := lmargins t.cols t.cells
  let ws := widthPass grow t.isShrink sortCols lm t.cols ordered
  { lm := lm, ws := ws, offs := offsets 0 ws }

/-- `Table.Format`. `ordered` is `t.cells` as left by the unstable sort by span. -/
def format (t : Table) (ordered : List Cell) : Bytes :=
  let L := layoutOf true insertSortCols t ordered
  emit L.offs L.lm (ordered.mergeSort cellLe)

/-- is `perm` a permutation of `0..n-1` that lists the cells in nondecreasing span? -/
def validOrder (cells : List Cell) (perm : List Nat) : Bool :=
  perm.length == cells.length &&
  (List.range cells.length).all (fun i => perm.contains i) &&
  (perm.zip (perm.drop 1)).all (fun (i, j) => (cells.getD i default).span ≤ (cells.getD j default).span)

def applyOrder (cells : List Cell) (perm : List Nat) : List Cell :=
  perm.map (fun i => cells.getD i default)

end Tab.TextTab
