/-
C14 / C15 — model of cmd/benchstat/internal/benchtab (builder.go, table.go) from the
ALREADY PROJECTED measurement stream on.

What is modelled statement by statement:
  * `Builder.Add`  (builder.go:76-106)  — `add`, `addValue`, `addCell`
  * `Builder.ToTables` (builder.go:143-246) — `toTables` (the sequential meaning) and
    `toTablesSched` (the same code with its nondeterminism explicit: iteration orders of the four Go
    maps and the completion order of the per-cell and per-column goroutines)
  * `summarizeCell`, `summarizeCol` (builder.go:258-346)
  * `Tables.printTables`, `Table.ToCSV` (builder.go:380-420, table.go:313-430) and the
    warning de-duplication / numbering of `Table.ToText` (table.go:135-153)
  * `UnitMetadataMap.GetAssumption` (benchfmt/units.go:63-71) — `getAssumption`

What is a PARAMETER (data from the harness, see Driver/C14.lean):
  * key tuples and the order `Key.Less` gives the distinct keys (`rank*`; C08/C09 own these)
  * the answers of the real benchmath / benchunit / go-moremath: `Oracles` (C13/C10/C04 own these).
    C14 is about WHICH numbers go WHERE.

Go maps are association lists in insertion order (`AL`); every traversal of a Go map goes
through `Sched.iter`, an arbitrary permutation. Core Lean only.
-/
import Model.Base.F64
import Model.Base.Bytes

namespace Tab

/-! ### association lists (Go maps, in insertion order) -/
namespace AL
variable {α β : Type} [DecidableEq α]

def lookup (k : α) : List (α × β) → Option β
  | [] => none
  | (k', v) :: rest => if k' = k then some v else lookup k rest

/-- `m[k] = f(m[k])` -/
def upsert (k : α) (f : Option β → β) : List (α × β) → List (α × β)
  | [] => [(k, f none)]
  | (k', v) :: rest => if k' = k then (k', f (some v)) :: rest else (k', v) :: upsert k f rest

/-- `set[k] = struct{}{}` -/
def insertSet (k : α) (l : List α) : List α := if k ∈ l then l else l ++ [k]

def keys (l : List (α × β)) : List α := l.map (·.1)

end AL

/-! ### Builder.Add -/

/-- One filtered result as `Builder.Add` sees it: row, column and residue keys are per result,
the table key (it contains the unit) is per measurement. -/
structure Res (κ ζ ν : Type) where
  row : κ
  col : κ
  residue : ζ
  vals : List (κ × ν)

/-- `builderCell` -/
structure BCell (ζ ν : Type) where
  values : List ν
  residue : List ζ

/-- `builderTable` -/
structure BTable (κ ζ ν : Type) where
  rows : List κ
  cols : List κ
  cells : List ((κ × κ) × BCell ζ ν)

abbrev Builder (κ ζ ν : Type) := List (κ × BTable κ ζ ν)

section Add
variable {κ ζ ν : Type} [DecidableEq κ] [DecidableEq ζ]

def newTable : BTable κ ζ ν := { rows := [], cols := [], cells := [] }

/-- `c.values = append(c.values, v); c.residue[residueKey] = struct{}{}` on a possibly new cell -/
def BCell.add (z : ζ) (v : ν) : Option (BCell ζ ν) → BCell ζ ν
  | none => { values := [v], residue := [z] }
  | some c => { values := c.values ++ [v], residue := AL.insertSet z c.residue }

/-- builder.go:92-104 on one table -/
def addCell (rk ck : κ) (z : ζ) (v : ν) (t : BTable κ ζ ν) : BTable κ ζ ν :=
  match AL.lookup (rk, ck) t.cells with
  | none =>
    { rows := AL.insertSet rk t.rows, cols := AL.insertSet ck t.cols,
      cells := AL.upsert (rk, ck) (BCell.add z v) t.cells }
  | some _ =>
    { rows := t.rows, cols := t.cols, cells := AL.upsert (rk, ck) (BCell.add z v) t.cells }

/-- builder.go:85-105, one iteration of `for unitI, tableKey := range tableKeys` -/
def addValue (rk ck : κ) (z : ζ) (b : Builder κ ζ ν) (tv : κ × ν) : Builder κ ζ ν :=
  AL.upsert tv.1 (fun ot => addCell rk ck z tv.2 (ot.getD newTable)) b

/-- `Builder.Add` -/
def add (b : Builder κ ζ ν) (r : Res κ ζ ν) : Builder κ ζ ν :=
  r.vals.foldl (addValue r.row r.col r.residue) b

/-- the Builder after the whole stream -/
def build (rs : List (Res κ ζ ν)) : Builder κ ζ ν := rs.foldl add []

/-- the sample of cell (t, r, c); `[]` when there is no such cell -/
def cellValues (b : Builder κ ζ ν) (t r c : κ) : List ν :=
  match AL.lookup t b with
  | none => []
  | some bt => match AL.lookup (r, c) bt.cells with
    | none => []
    | some cell => cell.values

def hasCell (b : Builder κ ζ ν) (t r c : κ) : Bool :=
  match AL.lookup t b with
  | none => false
  | some bt => (AL.lookup (r, c) bt.cells).isSome

def cellResidue (b : Builder κ ζ ν) (t r c : κ) : List ζ :=
  match AL.lookup t b with
  | none => []
  | some bt => match AL.lookup (r, c) bt.cells with
    | none => []
    | some cell => cell.residue

end Add

/-! ### sorting by the order `Key.Less` gives (rank = position among the distinct keys) -/

def insertBy {α : Type} (rank : α → Nat) (x : α) : List α → List α
  | [] => [x]
  | y :: ys => if rank x ≤ rank y then x :: y :: ys else y :: insertBy rank x ys

/-- `benchproc.SortKeys` for a total order given as data -/
def sortKeys {α : Type} (rank : α → Nat) : List α → List α
  | [] => []
  | x :: xs => insertBy rank x (sortKeys rank xs)

/-! ### the sort of `benchmath.NewSample` (commit 803247b): `slices.SortFunc` with `cmp.Compare`
— NaNs first, then ascending — and, for values that compare equal (−0/+0, two NaNs), the one
with the sign bit first. Stable insertion sort, which is what Go's pdqsort does for at most 12
elements; for longer slices the result is the same whenever the order separates the elements. -/

def f64Less (a b : F64.Bits) : Bool :=
  F64.lt a b || (F64.isNaN a && !F64.isNaN b) ||
  (((F64.isNaN a && F64.isNaN b) || F64.eq a b) && F64.signBit a && !F64.signBit b)

/-- insert `x` before the first element that is not smaller than it -/
def insertF (x : F64.Bits) : List F64.Bits → List F64.Bits
  | [] => [x]
  | y :: ys => if f64Less y x then y :: insertF x ys else x :: y :: ys

/-- stable: equal elements keep their order -/
def sortFloats : List F64.Bits → List F64.Bits
  | [] => []
  | x :: xs => insertF x (sortFloats xs)

/-! ### answers of the real statistics code -/

inductive Assump | nothing | exact
  deriving DecidableEq, Repr, Inhabited

structure SummaryAns where
  center : F64.Bits
  centerStr : Bytes   -- fmt.Sprint(Center)
  pct : Bytes         -- PctRangeString()
  warnings : List Bytes
  deriving DecidableEq, Repr, Inhabited

structure CmpAns where
  delta : Bytes       -- FormatDelta(base centre, centre)
  str : Bytes         -- Comparison.String()
  warnings : List Bytes
  deriving DecidableEq, Repr, Inhabited

structure GMAns where
  val : F64.Bits
  str : Bytes         -- fmt.Sprint(gm)
  pct : Bytes         -- fmt.Sprintf("%+.2f%%", (gm-1)*100)
  deriving DecidableEq, Repr, Inhabited

/-- The real benchmath / go-moremath, as functions of the SAMPLE (sorted value list). -/
structure Oracles where
  summary : Assump → List F64.Bits → SummaryAns
  compare : Assump → List F64.Bits → List F64.Bits → CmpAns
  /-- `stats.GeoMean` on a non-empty list of positive numbers (libm log/exp) -/
  geomean : List F64.Bits → GMAns

/-! ### unit metadata → assumption (benchfmt/units.go:56-71) -/

structure UnitMeta where
  unit : Bytes   -- tidied unit
  key : Bytes
  value : Bytes
  deriving DecidableEq, Repr

def strAssume : Bytes := "assume".toUTF8.toList
def strExact : Bytes := "exact".toUTF8.toList

/-- `UnitMetadataMap.GetAssumption`; `tidy` is `benchunit.Tidy(1, unit)`'s unit (C04) -/
def getAssumption (tidy : Bytes → Bytes) (um : List UnitMeta) (unit : Bytes) : Assump :=
  match um.find? (fun m => m.unit == tidy unit && m.key == strAssume) with
  | some m => if m.value == strExact then .exact else .nothing
  | none => .nothing

/-! ### output tables -/

structure OCell (κ : Type) where
  sample : List F64.Bits
  sampleWarnings : List Bytes
  summary : SummaryAns
  baseline : Option (κ × κ)
  comparison : Option CmpAns
  deriving DecidableEq, Repr

structure TSummary where
  hasSummary : Bool
  summary : F64.Bits
  summaryStr : Bytes
  hasRatio : Bool
  ratio : F64.Bits
  ratioPct : Bytes
  warnings : List Bytes
  deriving DecidableEq, Repr, Inhabited

structure OTable (κ : Type) where
  key : κ
  unit : Bytes
  assumption : Assump
  rows : List κ
  cols : List κ
  cells : List ((κ × κ) × OCell κ)
  summary : List (κ × TSummary)
  deriving DecidableEq, Repr

/-- everything `ToTables` needs besides the Builder -/
structure Cfg (κ : Type) where
  rankT : κ → Nat
  rankR : κ → Nat
  rankC : κ → Nat
  unitOf : κ → Bytes          -- `k.Get(b.unitField)`
  assume : Bytes → Assump      -- `opts.Units.GetAssumption`
  fieldNames : List Bytes      -- flattened residue field names
  orc : Oracles

/-! ### non-singular residue fields (benchproc/nonsingular.go) -/

def getField (k : List Bytes) (i : Nat) : Bytes := k.getD i []

/-- `NonSingularFields(keys)`: indices of the flattened fields in which some key differs from
the first key. -/
def nonSingular (nFields : Nat) (keys : List (List Bytes)) : List Nat :=
  match keys with
  | [] => []
  | [_] => []
  | k0 :: rest => (List.range nFields).filter fun i => rest.any fun k => getField k i != getField k0 i

def joinBytes (sep : Bytes) : List Bytes → Bytes
  | [] => []
  | [x] => x
  | x :: y :: rest => x ++ sep ++ joinBytes sep (y :: rest)

def strVary : Bytes := "benchmarks vary in ".toUTF8.toList
def strCommaSp : Bytes := ", ".toUTF8.toList

/-- the warning `summarizeCell` appends to `cell.Sample.Warnings` (builder.go:267-281); the
residue keys reach it through `mapKeys` (sorted), the result does not depend on their order -/
def residueWarning (fieldNames : List Bytes) (residue : List (List Bytes)) : List Bytes :=
  let nsk := nonSingular fieldNames.length residue
  if nsk.isEmpty then [] else [strVary ++ joinBytes strCommaSp (nsk.map (getField fieldNames))]

/-! ### summarizeCol (builder.go:283-346) -/

def strDiffers : Bytes := "benchmark set differs from baseline; geomeans may not be comparable".toUTF8.toList
def strSumPos : Bytes := "summaries must be >0 to compute geomean".toUTF8.toList
def strRatioPos : Bytes := "ratios must be >0 to compute geomean".toUTF8.toList

/-- the ratio rule of builder.go:301-316: `none` = bad ratio (b == 0, a ≠ b) -/
def ratioOf (a b : F64.Bits) : Option F64.Bits :=
  if F64.eq a b then some F64.one
  else if F64.eq b F64.posZero then none
  else some (F64.div a b)

/-- `x <= 0` -/
def nonPos (x : F64.Bits) : Bool := F64.le x F64.posZero

/-- `stats.GeoMean`: NaN for an empty list, one with an element `<= 0`, or one with a NaN element
(`x <= 0` is false for NaN, `log(NaN)` is NaN and stays NaN through the running mean and `exp`;
decided here because the NaN payload of a quotient is the hardware's, not the model's) -/
def geoMean (orc : Oracles) (xs : List F64.Bits) : GMAns :=
  if xs.isEmpty || xs.any nonPos || xs.any F64.isNaN then { val := F64.nan, str := [], pct := [] }
  else orc.geomean xs

structure ColAcc where
  summaries : List F64.Bits := []
  ratios : List F64.Bits := []
  badRatio : Bool := false

/-- one iteration of `for _, row := range table.Rows` -/
def colStep {κ : Type} [DecidableEq κ] (cells : List ((κ × κ) × OCell κ)) (col : κ)
    (acc : ColAcc) (row : κ) : ColAcc :=
  match AL.lookup (row, col) cells with
  | none => acc
  | some cell =>
    let acc := { acc with summaries := acc.summaries ++ [cell.summary.center] }
    match cell.baseline with
    | none => acc
    | some bk =>
      match AL.lookup bk cells with
      | none => acc  -- cannot happen: baselines point at existing cells
      | some bc =>
        match ratioOf cell.summary.center bc.summary.center with
        | some r => { acc with ratios := acc.ratios ++ [r] }
        | none => { acc with badRatio := true, ratios := acc.ratios ++ [F64.posZero] }

def summarizeCol {κ : Type} [DecidableEq κ] (orc : Oracles) (rows : List κ)
    (cells : List ((κ × κ) × OCell κ)) (col : κ) (nBase : Nat) (isBase : Bool) : TSummary :=
  let acc := rows.foldl (colStep cells col) {}
  let w1 := if !isBase && (nBase != acc.ratios.length || acc.summaries.length != acc.ratios.length) then [strDiffers] else []
  let gm := geoMean orc acc.summaries
  let sNaN := F64.isNaN gm.val
  let w2 := if sNaN then [strSumPos] else []
  let doRatio := !isBase && !acc.badRatio
  let gr := geoMean orc acc.ratios
  let rNaN := F64.isNaN gr.val
  let w3 := if doRatio && rNaN then [strRatioPos] else []
  { hasSummary := !sNaN, summary := if sNaN then 0 else gm.val, summaryStr := if sNaN then [] else gm.str,
    hasRatio := doRatio && !rNaN, ratio := if doRatio && !rNaN then gr.val else 0,
    ratioPct := if doRatio && !rNaN then gr.pct else [],
    warnings := w1 ++ w2 ++ w3 }

/-! ### ToTables, sequential meaning -/

section ToTables
variable {κ : Type} [DecidableEq κ]

/-- `summarizeCell` + the baseline lookup of builder.go:189-196 for one cell -/
def mkCell (cfg : Cfg κ) (assumption : Assump) (baseCol : Option κ)
    (bcells : List ((κ × κ) × BCell (List Bytes) F64.Bits)) (k : κ × κ) (c : BCell (List Bytes) F64.Bits) : OCell κ :=
  let sample := sortFloats c.values
  let baseline : Option (κ × κ) :=
    match baseCol with
    | none => none
    | some bcol =>
      if k.2 ≠ bcol then
        match AL.lookup (k.1, bcol) bcells with
        | some _ => some (k.1, bcol)
        | none => none
      else none
  let comparison := baseline.bind fun bk =>
    (AL.lookup bk bcells).map fun bc => cfg.orc.compare assumption (sortFloats bc.values) sample
  { sample := sample,
    sampleWarnings := residueWarning cfg.fieldNames c.residue,
    summary := cfg.orc.summary assumption sample,
    baseline := baseline,
    comparison := comparison }

/-- one table of `ToTables` (both passes) -/
def toTable (cfg : Cfg κ) (k : κ) (bt : BTable κ (List Bytes) F64.Bits) : OTable κ :=
  let unit := cfg.unitOf k
  let assumption := cfg.assume unit
  let rows := sortKeys cfg.rankR bt.rows
  let cols := sortKeys cfg.rankC bt.cols
  let baseCol := cols.head?
  let cells := bt.cells.map fun kc => (kc.1, mkCell cfg assumption baseCol bt.cells kc.1 kc.2)
  let nBase := match baseCol with
    | none => 0
    | some bc => (rows.filter fun r => (AL.lookup (r, bc) cells).isSome).length
  let summary := cols.zipIdx.map fun (col, i) => (col, summarizeCol cfg.orc rows cells col nBase (i == 0))
  { key := k, unit := unit, assumption := assumption, rows := rows, cols := cols, cells := cells, summary := summary }

/-- `Builder.ToTables`, tables sorted by `SortKeys` -/
def toTables (cfg : Cfg κ) (b : Builder κ (List Bytes) F64.Bits) : List (OTable κ) :=
  (sortKeys cfg.rankT (AL.keys b)).filterMap fun k => (AL.lookup k b).map (toTable cfg k)

/-! ### ToTables with its nondeterminism explicit (C15) -/

/-- A schedule: how each Go map is traversed, and in which order the goroutines of the two
fan-outs take effect. Every field is an arbitrary permutation (see `Sched.Valid` in the proofs). -/
structure Sched where
  iter : (α : Type) → List α → List α
  taskOrder : (α : Type) → List α → List α

def Sched.default : Sched := { iter := fun _ l => l, taskOrder := fun _ l => l }

/-- The effect of a goroutine: it stores `value` into its own slot `key` of the shared
structure (cell goroutines: `cell.Summary/Comparison/Sample.Warnings` of their `*TableCell`;
column goroutines: their own `*TableSummary`). The value is computed from data that no goroutine
of the same fan-out writes. -/
def runTasks {K V : Type} [DecidableEq K] (init : List (K × V)) (tasks : List (K × V)) : List (K × V) :=
  tasks.foldl (fun m kv => AL.upsert kv.1 (fun _ => kv.2) m) init

/-- skeleton of a table, built by the main goroutine before the first fan-out -/
structure Skel (κ : Type) where
  key : κ
  unit : Bytes
  assumption : Assump
  rows : List κ
  cols : List κ
  bcells : List ((κ × κ) × BCell (List Bytes) F64.Bits)

def mkSkel (cfg : Cfg κ) (s : Sched) (k : κ) (bt : BTable κ (List Bytes) F64.Bits) : Skel κ :=
  let unit := cfg.unitOf k
  { key := k, unit := unit, assumption := cfg.assume unit,
    rows := sortKeys cfg.rankR (s.iter κ bt.rows),
    cols := sortKeys cfg.rankC (s.iter κ bt.cols),
    bcells := bt.cells }

/-- a cell goroutine (`summarizeCell`): reads only builder data fixed before the fan-out (its own
values and residue set — traversed in map order —, the baseline's values), writes its own slot
(the `*TableCell` of this table and cell key) -/
def cellTask (cfg : Cfg κ) (s : Sched) (sk : Skel κ) (kc : (κ × κ) × BCell (List Bytes) F64.Bits) :
    (κ × (κ × κ)) × OCell κ :=
  ((sk.key, kc.1), mkCell cfg sk.assumption sk.cols.head? sk.bcells kc.1
    { values := kc.2.values, residue := s.iter _ kc.2.residue })

/-- the cells of a table as the second pass sees them (after the first `wg.Wait`) -/
def cellsOf (cells : List ((κ × (κ × κ)) × OCell κ)) (sk : Skel κ) : List ((κ × κ) × OCell κ) :=
  sk.bcells.filterMap fun kc => (AL.lookup (sk.key, kc.1) cells).map fun c => (kc.1, c)

/-- a column goroutine (`summarizeCol`): reads the cells written before the first `wg.Wait`,
writes its own slot (the `*TableSummary` of this table and column) -/
def colTask (cfg : Cfg κ) (sk : Skel κ) (cells1 : List ((κ × (κ × κ)) × OCell κ)) (ci : κ × Nat) :
    (κ × κ) × TSummary :=
  let cells := cellsOf cells1 sk
  let nBase := match sk.cols.head? with
    | none => 0
    | some bc => (sk.rows.filter fun r => (AL.lookup (r, bc) cells).isSome).length
  ((sk.key, ci.1), summarizeCol cfg.orc sk.rows cells ci.1 nBase (ci.2 == 0))

def toTablesSched (cfg : Cfg κ) (s : Sched) (b : Builder κ (List Bytes) F64.Bits) : List (OTable κ) :=
  let keys := sortKeys cfg.rankT (s.iter κ (AL.keys b))
  let skels := keys.filterMap fun k => (AL.lookup k b).map (mkSkel cfg s k)
  -- first fan-out: one goroutine per cell, cells of a table visited in map order
  let tasks1 := skels.flatMap fun sk => (s.iter _ sk.bcells).map (cellTask cfg s sk)
  let cells1 := runTasks [] (s.taskOrder _ tasks1)
  -- second fan-out: one goroutine per column
  let tasks2 := skels.flatMap fun sk => sk.cols.zipIdx.map (colTask cfg sk cells1)
  let sums2 := runTasks [] (s.taskOrder _ tasks2)
  skels.map fun sk =>
    { key := sk.key, unit := sk.unit, assumption := sk.assumption, rows := sk.rows, cols := sk.cols,
      cells := cellsOf cells1 sk,
      summary := sk.cols.filterMap fun c => (AL.lookup (sk.key, c) sums2).map fun t => (c, t) }

end ToTables

/-! ### rendering: printTables, Table.ToCSV, and the warning list of Table.ToText -/

section Render
variable {κ : Type} [DecidableEq κ]

def strColonSp : Bytes := ": ".toUTF8.toList
def strUnitField : Bytes := ".unit".toUTF8.toList

/-- the header lines `printTables` emits before table `key` (builder.go:392-411) -/
def headerLines (fields : List Bytes) (tuple : κ → List Bytes) (prev : Option κ) (key : κ) : List Bytes :=
  (fields.zipIdx.filter fun (f, _) => f != strUnitField).filterMap fun (f, i) =>
    let val := getField (tuple key) i
    match prev with
    | none => some (f ++ strColonSp ++ val)
    | some p => if val != getField (tuple p) i then some (f ++ strColonSp ++ val) else none

/-- CSV column index of logical column `exp` (table.go:318-326) -/
def csvStartCol (exp : Nat) : Nat := if exp == 0 then 1 else 1 + 2 + (exp - 1) * 4

def clearTo (row : List Bytes) (col : Nat) : List Bytes := row ++ List.replicate (col - row.length) []

/-- spreadsheet-style column name as table.go:340-351 computes it -/
def colNameAux : Nat → Nat → List UInt8 → List UInt8
  | 0, _, acc => acc
  | fuel + 1, x, acc => if x == 0 then acc else colNameAux fuel (x / 26) (UInt8.ofNat (65 + x % 26) :: acc)

def colName (x : Nat) : Bytes :=
  let n := colNameAux 10 x []
  if n.isEmpty then [65] else n

def natBytes (n : Nat) : Bytes := (toString n).toUTF8.toList

/-- `warn(msgs)` at the current row position -/
def csvWarn (rowLen rowNo : Nat) (msgs : List Bytes) : List Bytes :=
  msgs.map fun m => colName rowLen ++ natBytes rowNo ++ strColonSp ++ m

structure CsvOut where
  records : List (List Bytes) := []
  warnings : List Bytes := []
  row : Nat := 1   -- spreadsheet row of the next record

def strCI : Bytes := "CI".toUTF8.toList
def strVsBase : Bytes := "vs base".toUTF8.toList
def strP : Bytes := "P".toUTF8.toList
def strGeomean : Bytes := "geomean".toUTF8.toList
def strQ : Bytes := "?".toUTF8.toList
def strSp : Bytes := " ".toUTF8.toList

/-- `Key.StringValues`: the non-empty values separated by blanks -/
def stringValues (t : List Bytes) : Bytes := joinBytes strSp (t.filter (· ≠ []))

/-- `Table.ToCSV` -/
def tableCSV (colFields : Nat) (tupleR tupleC : κ → List Bytes) (t : OTable κ) (o : CsvOut) : CsvOut :=
  -- column configuration header: one record per flattened column field
  let hdrRecs := (List.range colFields).map fun fi =>
    t.cols.zipIdx.foldl (fun row (key, exp) => clearTo row (csvStartCol exp) ++ [getField (tupleC key) fi]) []
  -- column headers
  let unitRec := t.cols.zipIdx.foldl (fun row (_, exp) =>
    let row := clearTo row (csvStartCol exp) ++ [t.unit, strCI]
    if exp > 0 then row ++ [strVsBase, strP] else row) []
  let o := { o with records := o.records ++ hdrRecs ++ [unitRec], row := o.row + hdrRecs.length + 1 }
  -- body
  let o := t.rows.foldl (fun o rowKey =>
    let (row, ws) := t.cols.zipIdx.foldl (fun (acc : List Bytes × List Bytes) (colKey, exp) =>
      match AL.lookup (rowKey, colKey) t.cells with
      | none => acc
      | some cell =>
        let row := clearTo acc.1 (csvStartCol exp)
        let ws := acc.2 ++ csvWarn row.length o.row cell.sampleWarnings ++ csvWarn row.length o.row cell.summary.warnings
        let row := row ++ [cell.summary.centerStr, cell.summary.pct]
        match (if exp > 0 then cell.comparison else none) with
        | some cmp => (row ++ [cmp.delta, cmp.str], ws ++ csvWarn row.length o.row cmp.warnings)
        | none => (row, ws)) ([stringValues (tupleR rowKey)], [])
    { records := o.records ++ [row], warnings := o.warnings ++ ws, row := o.row + 1 }) o
  -- summary row
  let (row, ws) := t.cols.zipIdx.foldl (fun (acc : List Bytes × List Bytes) (key, exp) =>
    match AL.lookup key t.summary with
    | none => acc
    | some ts =>
      let row := clearTo acc.1 (csvStartCol exp)
      let ws := acc.2 ++ csvWarn row.length o.row ts.warnings
      let row := if ts.hasSummary then row ++ [ts.summaryStr] else row
      if exp > 0 then
        let row := clearTo row (csvStartCol exp + 2)
        (row ++ [if ts.hasRatio then ts.ratioPct else strQ], ws)
      else (row, ws)) ([strGeomean], [])
  { records := o.records ++ [row], warnings := o.warnings ++ ws, row := o.row + 1 }

/-- `Tables.ToCSV` through `printTables` -/
def tablesCSV (tableFields : List Bytes) (colFields : Nat) (tupleT tupleR tupleC : κ → List Bytes)
    (ts : List (OTable κ)) : CsvOut :=
  (ts.foldl (fun (acc : CsvOut × Option κ) t =>
    let o := acc.1
    let o := if acc.2.isSome then { o with records := o.records ++ [[[]]], row := o.row + 1 } else o
    let hs := headerLines tableFields tupleT acc.2 t.key
    let o := { o with records := o.records ++ hs.map (fun h => [h]), row := o.row + hs.length }
    (tableCSV colFields tupleR tupleC t o, some t.key)) ({}, none)).1

/-- superscript digits "⁰¹²³⁴⁵⁶⁷⁸⁹" (UTF-8) -/
def superDigit (d : Nat) : Bytes :=
  match d with
  | 0 => [0xE2, 0x81, 0xB0] | 1 => [0xC2, 0xB9] | 2 => [0xC2, 0xB2] | 3 => [0xC2, 0xB3]
  | 4 => [0xE2, 0x81, 0xB4] | 5 => [0xE2, 0x81, 0xB5] | 6 => [0xE2, 0x81, 0xB6]
  | 7 => [0xE2, 0x81, 0xB7] | 8 => [0xE2, 0x81, 0xB8] | _ => [0xE2, 0x81, 0xB9]

def superscript (i : Nat) : Bytes :=
  if i == 0 then superDigit 0 else (Nat.toDigits 10 i).flatMap fun c => superDigit (c.toNat - 48)

/-- `warn` of ToText: de-duplicate, number in emission order (table.go:135-153) -/
def dedup (acc : List Bytes) (msgs : List Bytes) : List Bytes :=
  msgs.foldl (fun acc m => if m ∈ acc then acc else acc ++ [m]) acc

/-- the footnote lines `Table.ToText` prints under a table -/
def textFootnotes (t : OTable κ) : List Bytes :=
  let body := t.rows.foldl (fun acc rowKey =>
    t.cols.zipIdx.foldl (fun acc (colKey, exp) =>
      match AL.lookup (rowKey, colKey) t.cells with
      | none => acc
      | some cell =>
        let acc := dedup acc (cell.sampleWarnings ++ cell.summary.warnings)
        match (if exp > 0 then cell.comparison else none) with
        | some cmp => dedup acc cmp.warnings
        | none => acc) acc) []
  let all := if t.rows.length > 1 then
      t.cols.foldl (fun acc key => match AL.lookup key t.summary with
        | none => acc
        | some ts => dedup acc ts.warnings) body
    else body
  all.zipIdx.map fun (m, i) => superscript (i + 1) ++ strSp ++ m

end Render

/-! ### flag defaults of cmd/benchstat/main.go:447-455 -/

structure Flags where
  table : String := ".config"
  row : String := ".fullname"
  col : String := ".file"
  ignore : String := ""
  filter : String := "*"
  alpha : String := "0.05"
  confidence : String := "0.95"
  format : String := "text"

/-! ### process-wide caches (benchmath/anone.go medianCache, benchunit/tidy.go tidyCache) -/

/-- `if v, ok := cache.Load(k); ok { return v }; v := f(k); cache.Store(k, v); return v` -/
def memoGet {K V : Type} [DecidableEq K] (f : K → V) (cache : List (K × V)) (k : K) : V × List (K × V) :=
  match AL.lookup k cache with
  | some v => (v, cache)
  | none => (f k, AL.upsert k (fun _ => f k) cache)

end Tab
