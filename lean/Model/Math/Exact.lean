/-
benchmath/aexact.go — AssumeExact: the summary is the mode found by one scan over the sorted
values (the FIRST value reaching the highest run length, i.e. the smallest most frequent
value), Lo/Hi are the first/last value, a warning is raised exactly when the mode does not
account for all values. Comparisons perform no test: P = 0, no threshold.
-/
import Model.Math.Sample

namespace Math.Exact
open Math

/-- the loop of `assumeExact.Summary`: state (val, count, modeVal, modeCount) -/
def modeScan {α : Type} [Val α] : α → Nat → α → Nat → List α → α × Nat
  | _, _, mv, mc, [] => (mv, mc)
  | val, count, mv, mc, v :: vs =>
    if Val.eq v val then
      if count + 1 > mc then modeScan val (count + 1) val (count + 1) vs
      else modeScan val (count + 1) mv mc vs
    else modeScan v 1 mv mc vs

/-- `assumeExact.Summary`; `none` = the Go code panics (index out of range on an empty sample) -/
def summary {α : Type} [Val α] (s : Sample α) : Option (Summary α) :=
  match s.values with
  | [] => none
  | v0 :: rest =>
    let r := modeScan v0 1 v0 1 rest
    let last := rest.getLastD v0
    some { center := r.1, lo := .fin v0, hi := .fin last, confidence := F64.one,
           warnings := if r.2 != (v0 :: rest).length then [.range v0 last] else [] }

/-- `assumeExact.Compare` -/
def compare {α : Type} (s1 s2 : Sample α) : Comparison :=
  { p := F64.posZero, n1 := s1.values.length, n2 := s2.values.length, alpha := F64.posZero, warnings := [] }

end Math.Exact
