/-
benchmath/sample.go — samples, thresholds, summaries, comparisons (data part).

The arithmetic the code performs on measured values is collected in the class `Val`
(`<`, `==`, and the interpolation `a + frac·(b − a)` of moremath's `Sample.Quantile`), so that
the same definitions run on float64 bit patterns (driver, correspondence) and are reasoned
about over any linear order / ordered field (Proofs/C13.lean). Thresholds, p-values and
confidence levels are always float64.

Core Lean only.
-/
import Model.Base.F64

namespace Math

/-- what the code does with a measured value -/
class Val (α : Type) where
  /-- Go `a < b` -/
  lt : α → α → Bool
  /-- Go `a == b` -/
  eq : α → α → Bool
  /-- `a + frac*(b-a)` (moremath `Sample.Quantile`, interpolation R8), `frac` a float64 -/
  interp : α → α → F64.Bits → α
  /-- tie-break of `NewSample`'s comparison among values that compare equal:
  `math.Signbit(a) && !math.Signbit(b)` (−0 is ordered before +0). No ties to break by default. -/
  before : α → α → Bool := fun _ _ => false
  /-- `math.IsNaN` (values of an exact order are never NaN) -/
  isNaN : α → Bool := fun _ => false

instance : Val F64.Bits where
  lt := F64.lt
  eq := F64.eq
  interp a b f := F64.add a (F64.mul f (F64.sub b a))
  before a b := F64.signBit a && !F64.signBit b
  isNaN := F64.isNaN

/-- `benchmath.Thresholds` -/
structure Thresholds where
  compareAlpha : F64.Bits

/-- `benchmath.Sample` (warnings are never set by the code) -/
structure Sample (α : Type) where
  values : List α
  thresholds : Thresholds

/-- the comparison of `NewSample`'s `slices.SortFunc` as "a may precede b" (NaN-free input):
`cmp.Compare(a, b)` decides when the values differ; equal values are ordered by sign bit, −0
before +0 (fix F27 — `sort.Float64s` left the two zeros in arrival order) -/
def sortLe {α : Type} [Val α] (a b : α) : Bool :=
  if Val.lt a b then true else if Val.lt b a then false else !Val.before b a

/-- the sort of `NewSample` on NaN-free input: ascending; the result does not depend on the order
of the input, bit for bit (only bit-identical values tie) -/
def sortVals {α : Type} [Val α] (l : List α) : List α := l.mergeSort sortLe

/-- `NewSample`: sorts, keeps the thresholds -/
def newSample {α : Type} [Val α] (values : List α) (t : Thresholds) : Sample α :=
  { values := sortVals values, thresholds := t }

/-- an interval end: a value or ±∞ -/
inductive Ext (α : Type) where
  | negInf
  | fin (a : α)
  | posInf
  deriving Repr, DecidableEq

def Ext.isInf {α : Type} : Ext α → Bool
  | .fin _ => false
  | _ => true

def Ext.toF64 : Ext F64.Bits → F64.Bits
  | .negInf => F64.negInf
  | .fin a => a
  | .posInf => F64.posInf

/-- ">=" / ">" in the "need N samples" warnings -/
inductive Op where
  | ge
  | gt
  deriving Repr, DecidableEq

def Op.show : Op → String
  | .ge => "ge"
  | .gt => "gt"

/-- warnings of a summary, by content (the Go code formats them with %v) -/
inductive SWarning (α : Type) where
  /-- "exact distribution expected, but values range from lo to hi" -/
  | range (lo hi : α)
  /-- "need op n samples for confidence interval at level c" -/
  | needCI (op : Op) (n : Nat) (level : F64.Bits)

/-- warnings of a comparison -/
inductive CWarning where
  /-- "need op n samples to detect a difference at alpha level a" -/
  | needU (op : Op) (n : Nat) (alpha : F64.Bits)
  /-- an error of the external test, passed through -/
  | err (e : String)
  deriving Repr, DecidableEq

/-- `benchmath.Summary` over a value type -/
structure Summary (α : Type) where
  center : α
  lo : Ext α
  hi : Ext α
  confidence : F64.Bits
  warnings : List (SWarning α)

/-- `benchmath.Summary` as floats (what the renderers see) -/
structure FSummary where
  center : F64.Bits
  lo : F64.Bits
  hi : F64.Bits
  confidence : F64.Bits

def Summary.toF (s : Summary F64.Bits) : FSummary :=
  { center := s.center, lo := s.lo.toF64, hi := s.hi.toF64, confidence := s.confidence }

/-- `benchmath.Comparison` -/
structure Comparison where
  p : F64.Bits
  n1 : Nat
  n2 : Nat
  alpha : F64.Bits
  warnings : List CWarning
  deriving Repr, DecidableEq

/-- result of an external test: an error or a p-value -/
inductive TestResult where
  | err (e : String)
  | ok (p : F64.Bits)
  deriving Repr, DecidableEq

def two : F64.Bits := 0x4000000000000000
def hundred : F64.Bits := 0x4059000000000000
def half : F64.Bits := 0x3FE0000000000000

/-- `math.Min` -/
def fmin (x y : F64.Bits) : F64.Bits :=
  if x == F64.negInf || y == F64.negInf then F64.negInf
  else if F64.isNaN x || F64.isNaN y then F64.nan
  else if F64.isZero x && F64.isZero y then (if F64.signBit x then x else y)
  else if F64.lt x y then x else y

/-- `math.Max` -/
def fmax (x y : F64.Bits) : F64.Bits :=
  if x == F64.posInf || y == F64.posInf then F64.posInf
  else if F64.isNaN x || F64.isNaN y then F64.nan
  else if F64.isZero x && F64.isZero y then (if F64.signBit x then y else x)
  else if F64.lt y x then x else y

end Math
